/-
C14 case generator.  Exhaustive: all strings up to length 3 (quick) / 4 (thorough) over a
10-symbol alphabet (1-, 2-, 3-, 4-byte characters, both quotes, backslash, newline, NUL, space)
× every operation, × every optional-integer argument position over {None, -7..7, ±2^63}
(on a smaller set of strings), plus VERIF_SEED-derived longer strings over a wide alphabet.
-/
import GPy.C14.Model
import GPy.C14.Spec
namespace GPy.C14

open Spec (Str)

/-! ### text forms -/

def hexStr (n k : Nat) : String := String.ofList ((hexDigits n k).map Char.ofNat)

/-- escaped-ASCII form of a code-point list (decoded by harness/c14.go) -/
def esc (cs : List Nat) : String :=
  String.join (cs.map fun c =>
    if c > 0x20 ∧ c < 0x7f ∧ c ≠ 92 then (Char.ofNat c).toString
    else if c < 0x10000 then "\\u" ++ hexStr c 4 else "\\U" ++ hexStr c 8)

/-- a Go string as the harness shows it: `s:`+escaped runes when it is valid UTF-8, `s!`+hex otherwise -/
def showBytes (b : Bytes) : String :=
  let rs := runes b
  if encodeAll rs == b then "s:" ++ esc rs else "s!" ++ String.join (b.map fun x => hexStr x 2)

def encStr (cs : Str) : String := "s:" ++ esc cs
def encBytes (b : Bytes) : String := "y:" ++ String.join (b.map fun x => hexStr x 2)

def encArg : Arg → String
  | .absent => "" | .none => "n" | .int v => s!"i{v}"

def toSpecArg : Arg → Spec.Arg
  | .absent => .absent | .none => .none | .int v => .int v

/-- trailing absent arguments are omitted; an absent argument before a present one cannot be written -/
def encArgs (as : List Arg) : String :=
  String.join ((as.filter (· != .absent)).map fun a => " " ++ encArg a)

def Err.py : Err → String
  | .type => "E:TypeError" | .value => "E:ValueError" | .overflow => "E:OverflowError"
  | .attr => "E:AttributeError" | .syntax => "E:SyntaxError"
def specErrPy : Spec.Err → String
  | .type => "E:TypeError" | .value => "E:ValueError" | .overflow => "E:OverflowError"
  | .attr => "E:AttributeError" | .syntax => "E:SyntaxError"

def boolStr (b : Bool) : String := if b then "True" else "False"

def resV : Res → String
  | .panic => "PANIC"
  | .err e => e.py
  | .ok (.str b) => showBytes b
  | .ok (.int v) => toString v
  | .ok (.bool b) => boolStr b
  | .ok (.list xs) => "[" ++ ",".intercalate (xs.map showBytes) ++ "]"

def specV : Spec.Res → String
  | .error e => specErrPy e
  | .ok (.str s) => encStr s
  | .ok (.int v) => toString v
  | .ok (.bool b) => boolStr b
  | .ok (.list xs) => "[" ++ ",".intercalate (xs.map encStr) ++ "]"

/-! ### non-triviality -/

def interesting (cs : Str) : Bool := cs.any fun c => c ≥ 0x80 || c < 0x20 || c = 39 || c = 34 || c = 92
def argInteresting : Arg → Bool
  | .absent => false | .none => true | .int v => v < 0 || v > 3

def mk (input : String) (m : Res) (s : Spec.Res) (strs : List Str) (args : List Arg := []) (kf : Option String := none) : Case :=
  let sv := specV s
  let nt := strs.any interesting || args.any argInteresting || sv.startsWith "E:"
  { input := input, modelV := resV m, specV := sv,
    tags := (if nt then ["nt"] else []) ++ (match kf with | some k => ["kf=" ++ k] | none => []) }

def E (cs : Str) : Bytes := encodeAll cs

/-! ### one case per operation -/

def caseLen (s : Str) : Case :=
  mk s!"f len {encStr s}" (.ok (.int (strLen (E s)))) (.ok (.int s.length)) [s]

def caseIter (s : Str) : Case :=
  mk s!"o iter {encStr s} n" (.ok (.list (strIter (E s)))) (.ok (.list (Spec.strIter s))) [s]

def caseIn (sub s : Str) : Case :=
  mk s!"o in {encStr sub} {encStr s}" (.ok (.bool (contains (E s) (E sub)))) (.ok (.bool (Spec.contains s sub))) [s, sub]

def caseFind (s sub : Str) (a b : Arg) : Case :=
  mk s!"m find {encStr s} {encStr sub}{encArgs [a, b]}" (strFind (E s) (E sub) a b)
    (Spec.strFind s sub (toSpecArg a) (toSpecArg b)) [s, sub] [a, b]

def caseCount (s sub : Str) (a b : Arg) : Case :=
  mk s!"m count {encStr s} {encStr sub}{encArgs [a, b]}" (strCount (E s) (E sub) a b)
    (Spec.strCount s sub (toSpecArg a) (toSpecArg b)) [s, sub] [a, b]

def caseTail (suffix : Bool) (s : Str) (subs : List Str) (tuple : Bool) (a b : Arg) : Case :=
  let nm := if suffix then "endswith" else "startswith"
  let subEnc := if tuple then s!"T{subs.length}" ++ String.join (subs.map fun x => " " ++ encStr x) else encStr subs.head!
  mk s!"m {nm} {encStr s} {subEnc}{encArgs [a, b]}" (tailMatch suffix (E s) (subs.map E) a b)
    (Spec.tailMatch suffix s subs (toSpecArg a) (toSpecArg b)) (s :: subs) [a, b]

def caseSplit (s : Str) (sep : Option Str) (mx : Arg) : Case :=
  let sepEnc := match sep with
    | some v => " " ++ encStr v
    | none => if mx == Arg.absent then "" else " n"
  mk s!"m split {encStr s}{sepEnc}{encArgs [mx]}" (strSplit (E s) (sep.map E) mx)
    (Spec.strSplit s sep (toSpecArg mx)) (s :: sep.toList) [mx]

def caseReplace (s old new : Str) (cnt : Arg) : Case :=
  mk s!"m replace {encStr s} {encStr old} {encStr new}{encArgs [cnt]}" (strReplace (E s) (E old) (E new) cnt)
    (Spec.strReplace s old new (toSpecArg cnt)) [s, old, new] [cnt]

def caseStrip (which : Nat) (s : Str) (chars : Option Str) : Case :=
  let nm := if which = 1 then "lstrip" else if which = 2 then "rstrip" else "strip"
  let cEnc := match chars with | some v => " " ++ encStr v | none => ""
  mk s!"m {nm} {encStr s}{cEnc}" (strStrip which (E s) (chars.map E)) (Spec.strStrip which s chars) (s :: chars.toList)

def caseJoin (sep : Str) (parts : List Str) : Case :=
  mk (s!"m join {encStr sep} L{parts.length}" ++ String.join (parts.map fun x => " " ++ encStr x))
    (strJoin (E sep) (parts.map E)) (.ok (.str (Spec.joinStr sep parts))) (sep :: parts)

def cmpNames : List String := ["lt", "le", "eq", "ne", "gt", "ge"]

def caseCmp (op : Nat) (a b : Str) : Case :=
  mk s!"o {cmpNames[op]!} {encStr a} {encStr b}" (.ok (.bool (strCmp op (E a) (E b)))) (.ok (.bool (Spec.strCmp op a b))) [a, b]

def caseMul (s : Str) (n : Int) : Case :=
  mk s!"o mul {encStr s} i{n}" (strMul (E s) n) (Spec.strMul s n) [s] [.int n]

def caseChr (a : Arg) : Case :=
  let kf := match a with | .int v => if Spec.kfSurrogate v then some "C14-K01" else none | _ => none
  let big := match a with | .int v => v ≥ 0x80 || v < 0 | _ => true
  let c := mk s!"f chr{encArgs [a]}" (chr a) (Spec.chr (toSpecArg a)) [] [a] kf
  if big then { c with tags := if c.tags.contains "nt" then c.tags else "nt" :: c.tags } else c

def caseOrd (s : Str) : Case :=
  mk s!"f ord {encStr s}" (ord (E s)) (Spec.ord s) [s]

/-! ### repr round trip -/

inductive PyV where
  | str (cs : Str) | bytes (b : Bytes) | int (v : Int) | none | bool (b : Bool) | float (bits : Nat)
  | tuple (xs : List PyV) | list (xs : List PyV)
deriving Inhabited

/-- `strconv.IsPrint` where this generator knows it (Go 1.2x tables, checked once against the library);
`none` = unknown, the repr text is then not compared -/
def isPrintKnown (c : Nat) : Option Bool :=
  if c < 0x7F then some (c ≥ 0x20)
  else if [0xE9, 0xFF, 0x100, 0x20AC, 0xFFFD, 0x10000, 0x1F600, 0x4E2D, 0x3B1].contains c then some true
  else if [0x7F, 0x85, 0xA0, 0xAD, 0x1680, 0x2028, 0x3000, 0xD7FF, 0xE000, 0xFFFF, 0x10FFFF].contains c then some false
  else none

def isPrintGo (c : Nat) : Bool := (isPrintKnown c).getD false

mutual
  partial def encPyV : PyV → String
    | .str cs => encStr cs
    | .bytes b => encBytes b
    | .int v => s!"i{v}"
    | .none => "n"
    | .bool b => if b then "t1" else "t0"
    | .float bits => "f" ++ hexStr bits 16
    | .tuple xs => s!"T{xs.length}" ++ String.join (xs.map fun x => " " ++ encPyV x)
    | .list xs => s!"L{xs.length}" ++ String.join (xs.map fun x => " " ++ encPyV x)
end

def decimalRunes (v : Int) : List Nat := (toString v).toList.map Char.toNat

/-- model of repr as runes: StringEscape / Bytes.M__repr__ / Tuple.repr / decimal ints; `none` when the
text depends on something this model does not predict (float formatting, unknown IsPrint) -/
partial def reprRunes : PyV → Option (List Nat)
  | .str cs => if cs.all fun c => (isPrintKnown c).isSome then some (runes (strRepr isPrintGo (E cs))) else none
  | .bytes b => some (bytesRepr b)
  | .int v => some (decimalRunes v)
  | .none => some ("None".toList.map Char.toNat)
  | .bool b => some ((if b then "True" else "False").toList.map Char.toNat)
  | .float _ => none
  | .tuple xs =>
    let parts := xs.map reprRunes
    if parts.any Option.isNone then none else
    let ps := parts.map fun p => p.getD []
    some ([40] ++ (join [44, 32] ps) ++ (if xs.length = 1 then [44] else []) ++ [41])
  | .list xs =>
    let parts := xs.map reprRunes
    if parts.any Option.isNone then none else
    some ([91] ++ (join [44, 32] (parts.map fun p => p.getD [])) ++ [93])

/-- model of the round trip of the leaves: the literal repr writes, read back by the lexer model
(any `isPrint` gives the same verdict – theorem `repr_roundtrip_str`; the run uses `isPrintGo`) -/
partial def leavesRoundTrip : PyV → Bool
  | .str cs => readString (runes (strRepr isPrintGo (E cs))) == .ok (.str (E cs)) []
  | .bytes b => readString (bytesRepr b) == .ok (.bytes b) []
  | .tuple xs | .list xs => xs.all leavesRoundTrip
  | _ => true

partial def pyvInteresting : PyV → Bool
  | .str cs => interesting cs
  | .bytes b => interesting b
  | .int v => v < 0 || v > 2147483647
  | .tuple xs => xs.length ≤ 1 || xs.any pyvInteresting
  | .list xs => xs.any pyvInteresting
  | .float _ => true
  | _ => false

def caseRt (v : PyV) : Case :=
  { input := "rt " ++ encPyV v,
    modelV := boolStr (leavesRoundTrip v),
    modelR := match reprRunes v with | some rs => "s:" ++ esc rs | none => "",
    specV := "True",
    tags := if pyvInteresting v then ["nt"] else [] }

/-! ### enumeration -/

/-- the 10-symbol alphabet of the property's "Explored" clause -/
def alphabet : List Nat := [0x61, 0xE9, 0x20AC, 0x1F600, 39, 34, 92, 10, 0, 0x20]
/-- a smaller one for the products with many integer arguments -/
def alphabetSmall : List Nat := [0x61, 0xE9, 0x1F600, 39, 0x20]

def stringsUpTo (alpha : List Nat) : Nat → List Str
  | 0 => [[]]
  | n + 1 =>
    let prev := stringsUpTo alpha n
    [[]] ++ (alpha.flatMap fun c => prev.map fun s => c :: s)

/-- all strings of length ≤ n, each once -/
def allStrings (alpha : List Nat) (n : Nat) : List Str :=
  (List.range (n + 1)).flatMap fun k => (stringsUpTo alpha k).filter fun s => s.length = k

def intArgs : List Arg :=
  [.absent, .none] ++ ((List.range 15).map fun (i : Nat) => Arg.int ((i : Int) - 7)) ++ [.int (2 ^ 63), .int (-(2 ^ 63)), .int (2 ^ 63 - 1)]

/-- wide alphabet of the seeded strings: boundaries of every UTF-8 length class, U+FFFD, whitespace of
every width, characters whose printability differs -/
def wideAlphabet : Array Nat := #[0x61, 0x62, 0x20, 0x09, 0x0A, 0x0D, 0x00, 0x1F, 0x1C, 39, 34, 92, 0x7F, 0x80, 0x85, 0xA0, 0xAD, 0xE9, 0xFF,
  0x100, 0x3B1, 0x7FF, 0x800, 0x1680, 0x2028, 0x20AC, 0x3000, 0x4E2D, 0xD7FF, 0xE000, 0xFFFD, 0xFFFF, 0x10000, 0x1F600, 0x10FFFF,
  0x78, 0x75, 0x55, 0x4E, 0x30, 0x6E]

def randStr (r : Rng) (maxLen : Nat) : Rng × Str := Id.run do
  let (r0, n) := r.nat (maxLen + 1)
  let mut r := r0
  let mut out : List Nat := []
  for _ in [0:n] do
    let (r1, k) := r.nat 10
    if k = 0 then
      -- any scalar value
      let (r2, c) := r1.nat 0x110000
      r := r2
      out := (if 0xD800 ≤ c ∧ c < 0xE000 then 0xFFFD else c) :: out
    else
      let (r2, c) := r1.pick wideAlphabet
      r := r2
      out := c :: out
  return (r, out)

def randArg (r : Rng) : Rng × Arg :=
  let (r, k) := r.nat 24
  if k = 0 then (r, .absent) else if k = 1 then (r, .none)
  else if k = 2 then (r, .int (2 ^ 63)) else if k = 3 then (r, .int (-(2 ^ 63)))
  else (r, .int ((k : Int) - 14))

def emit (c : Case) : IO Unit := IO.println c.line

def sampleFloats : List Nat := [0x0000000000000000, 0x8000000000000000, 0x3FF0000000000000, 0x3FB999999999999A, 0x4340000000000000,
  0x7FEFFFFFFFFFFFFF, 0x0000000000000001, 0x400921FB54442D18, 0x4415AF1D78B58C40, 0x3EB0C6F7A0B5ED8D]

def genMain (tier : String) (seed : Nat) : IO Unit := do
  let thorough := tier == "thorough"
  let big := allStrings alphabet (if thorough then 4 else 3)
  let bigger := allStrings alphabet (if thorough then 5 else 4)
  let needles1 := allStrings alphabet 1
  let needles2 := allStrings alphabet 2
  let small := allStrings alphabetSmall (if thorough then 3 else 2)
  let smallNeedles := allStrings alphabetSmall 1 ++ [[0x61, 0xE9], [0xE9, 0x1F600]]
  -- 1. unary operations on every string
  for s in bigger do
    emit (caseLen s); emit (caseIter s); emit (caseOrd s); emit (caseRt (.str s))
  for s in big do
    for w in [0, 1, 2] do emit (caseStrip w s none)
    for mx in [Arg.absent, .int (-1), .int 0, .int 1, .int 2] do emit (caseSplit s none mx)
    for n in [-1, 0, 1, 2, 3] do emit (caseMul s n)
  -- 2. binary operations: every string × every needle of length ≤ 1 (≤ 2 in the thorough tier)
  for s in big do
    for sub in (if s.length + (if thorough then 0 else 1) ≤ 3 then needles2 else needles1) do
      emit (caseIn sub s)
      emit (caseFind s sub .absent .absent)
      emit (caseCount s sub .absent .absent)
      emit (caseTail false s [sub] false .absent .absent)
      emit (caseTail true s [sub] false .absent .absent)
      emit (caseSplit s (some sub) .absent)
      emit (caseReplace s sub [0x20AC, 0x61] .absent)
      emit (caseReplace s sub [] (.int 1))
      for w in [0, 1, 2] do emit (caseStrip w s (some sub))
      emit (caseJoin sub [s, sub, s])
  -- needles of length 2 against the strings over the small alphabet (quick tier too)
  for s in allStrings alphabetSmall 3 do
    for sub in allStrings alphabetSmall 2 do
      emit (caseIn sub s); emit (caseFind s sub .absent .absent); emit (caseCount s sub .absent .absent)
      emit (caseTail false s [sub] false .absent .absent); emit (caseTail true s [sub] false .absent .absent)
      emit (caseSplit s (some sub) .absent); emit (caseReplace s sub [0xE9] .absent)
      for w in [0, 1, 2] do emit (caseStrip w s (some sub))
  -- comparisons: all pairs of strings of length ≤ 2 (≤ 3 over the small alphabet)
  let cmpSet := allStrings alphabet 2 ++ [[0xFFFF], [0x10000], [0xFFFD], [0x7F], [0x80], [0x7FF], [0x800], [0xD7FF], [0xE000]]
  for a in cmpSet do
    for b in cmpSet do
      for op in [0, 1, 2, 3, 4, 5] do emit (caseCmp op a b)
  -- 3. every optional-integer argument position over {absent, None, -7..7, ±2^63, 2^63-1}
  for s in small do
    for sub in smallNeedles do
      for a in intArgs do
        for b in intArgs do
          if !(a == .absent && b != .absent) then
            emit (caseFind s sub a b); emit (caseCount s sub a b)
            emit (caseTail false s [sub] false a b); emit (caseTail true s [sub] false a b)
    for a in intArgs do
      emit (caseSplit s (some [0x20]) a); emit (caseSplit s (some [0xE9]) a); emit (caseSplit s none a)
      emit (caseReplace s [0xE9] [0x78] a); emit (caseReplace s [] [0x1F600] a); emit (caseReplace s [0x61] [] a)
    emit (caseTail false s [[0x61], [0xE9]] true .absent .absent); emit (caseTail true s [[0x61], []] true (.int 1) .absent)
  for s in allStrings alphabet 2 do
    for a in intArgs do
      emit (caseSplit s (some [0x20]) a); emit (caseSplit s none a); emit (caseReplace s [] [0x78] a)
  -- 4. chr / ord
  for a in intArgs do emit (caseChr a)
  for v in [0, 0x7F, 0x80, 0x7FF, 0x800, 0xD7FF, 0xD800, 0xDBFF, 0xDFFF, 0xE000, 0xFFFD, 0xFFFF, 0x10000, 0x10FFFF, 0x110000] do
    emit (caseChr (.int v))
  for c in wideAlphabet.toList do
    emit (caseOrd [c]); emit (caseChr (.int c)); emit (caseRt (.str [c]))
  -- 5. repr round trips: bytes, ints, nested
  let byteAlpha : List Nat := [0x61, 39, 34, 92, 10, 0, 0x7F, 0x80, 0xFF]
  for b in allStrings byteAlpha (if thorough then 4 else 3) do emit (caseRt (.bytes b))
  for v in ([0, 1, -1, 7, 2 ^ 31, -(2 ^ 31), 2 ^ 63 - 1, 2 ^ 63, -(2 ^ 63), -(2 ^ 63) - 1, 2 ^ 64, 10 ^ 30, -(10 ^ 30)] : List Int) do
    emit (caseRt (.int v)); emit (caseRt (.tuple [.int v])); emit (caseRt (.list [.int v, .str [39]]))
  for f in sampleFloats do
    emit (caseRt (.float f)); emit (caseRt (.tuple [.float f]))
  let leaves : List PyV := [.str [], .str [39], .str [34, 39], .str [0x1F600, 92], .bytes [], .bytes [39, 0xFF], .int 5, .none, .bool true,
    .tuple [], .list [], .tuple [.int 1], .list [.str [10]]]
  for a in leaves do
    emit (caseRt (.tuple [a])); emit (caseRt (.list [a]))
    for b in leaves do
      emit (caseRt (.tuple [a, b])); emit (caseRt (.list [a, .tuple [b]])); emit (caseRt (.tuple [.list [a, b], .tuple [.tuple [b]]]))
  -- 6. seeded longer strings
  let n := if thorough then 40000 else 4000
  let mut r : Rng := ⟨seed.toUInt64⟩
  for _ in [0:n] do
    let (r1, s) := randStr r 12
    let (r2, sub) := randStr r1 2
    let (r3, a) := randArg r2
    let (r4, b) := randArg r3
    let (r5, k) := r4.nat 6
    let (r6, s2) := randStr r5 3
    r := r6
    -- make the needle occur: half of the time take it from the string
    let sub := if k % 2 = 0 && s.length ≥ 2 then (s.drop (k % s.length)).take (1 + k % 2) else sub
    let a' := if a == .absent && b != .absent then Arg.none else a
    emit (caseLen s); emit (caseIter s); emit (caseRt (.str s)); emit (caseRt (.tuple [.str s, .list [.str sub]]))
    emit (caseIn sub s); emit (caseFind s sub a' b); emit (caseCount s sub a' b)
    emit (caseTail false s [sub] false a' b); emit (caseTail true s [sub] false a' b)
    emit (caseTail false s [s2, sub] true a' b)
    emit (caseSplit s (some sub) a); emit (caseSplit s none b)
    emit (caseReplace s sub s2 a); emit (caseStrip (k % 3) s (some s2)); emit (caseStrip (k % 3) s none)
    emit (caseJoin sub [s, s2, s]); emit (caseCmp k s (s.take k ++ s2)); emit (caseCmp k s2 sub)
    emit (caseMul s2 k)
    emit (caseRt (.bytes ((E s).take 8)))

end GPy.C14
