/-
C14 case generator.  Exhaustive: all strings up to length 3 (quick) / 4 (thorough) over a
10-symbol alphabet (1-, 2-, 3-, 4-byte characters, both quotes, backslash, newline, NUL, space)
× every operation, × every optional-integer argument position over {None, -7..7, ±2^63}
(on a smaller set of strings), plus VERIF_SEED-derived longer strings over a wide alphabet.
-/
import GPy.C14.Model
import GPy.C14.Spec
import GPy.C14.SpecMethods
namespace GPy.C14

open Spec (Str)

/-! ### text forms -/

def hexStr (n k : Nat) : String := String.ofList ((hexDigits n k).map Char.ofNat)

/-- escaped-ASCII form of a code-point list (decoded by harness/c14.go) -/
def esc (cs : List Nat) : String :=
  String.join (cs.map fun c =>
    if c > 0x20 ∧ c < 0x7f ∧ c ≠ 92 then (Char.ofNat c).toString
    else if c < 0x10000 then "\\u" ++ hexStr c 4 else "\\U" ++ hexStr c 8)

/-- a Go string as the harness shows it: `s:`+escaped runes when it is valid UTF-8, `s!`+hex otherwise -/
def showBytes (b : Bytes) : String :=
  let rs := runes b
  if encodeAll rs == b then "s:" ++ esc rs else "s!" ++ String.join (b.map fun x => hexStr x 2)

def encStr (cs : Str) : String := "s:" ++ esc cs
def encBytes (b : Bytes) : String := "y:" ++ String.join (b.map fun x => hexStr x 2)

def encArg : Arg → String
  | .absent => "" | .none => "n" | .int v => s!"i{v}"

def toSpecArg : Arg → Spec.Arg
  | .absent => .absent | .none => .none | .int v => .int v

/-- trailing absent arguments are omitted; an absent argument before a present one cannot be written -/
def encArgs (as : List Arg) : String :=
  String.join ((as.filter (· != .absent)).map fun a => " " ++ encArg a)

def Err.py : Err → String
  | .type => "E:TypeError" | .value => "E:ValueError" | .overflow => "E:OverflowError"
  | .attr => "E:AttributeError" | .syntax => "E:SyntaxError" | .index => "E:IndexError"
def specErrPy : Spec.Err → String
  | .type => "E:TypeError" | .value => "E:ValueError" | .overflow => "E:OverflowError"
  | .attr => "E:AttributeError" | .syntax => "E:SyntaxError" | .index => "E:IndexError"

def boolStr (b : Bool) : String := if b then "True" else "False"

def resV : Res → String
  | .panic => "PANIC"
  | .err e => e.py
  | .ok (.str b) => showBytes b
  | .ok (.int v) => toString v
  | .ok (.bool b) => boolStr b
  | .ok (.list xs) => "[" ++ ",".intercalate (xs.map showBytes) ++ "]"

def specV : Spec.Res → String
  | .error e => specErrPy e
  | .ok (.str s) => encStr s
  | .ok (.int v) => toString v
  | .ok (.bool b) => boolStr b
  | .ok (.list xs) => "[" ++ ",".intercalate (xs.map encStr) ++ "]"

/-! ### non-triviality -/

def interesting (cs : Str) : Bool := cs.any fun c => c ≥ 0x80 || c < 0x20 || c = 39 || c = 34 || c = 92
def argInteresting : Arg → Bool
  | .absent => false | .none => true | .int v => v < 0 || v > 3

def mk (input : String) (m : Res) (s : Spec.Res) (strs : List Str) (args : List Arg := []) (kf : Option String := none) : Case :=
  let sv := specV s
  let nt := strs.any interesting || args.any argInteresting || sv.startsWith "E:"
  { input := input, modelV := resV m, specV := sv,
    tags := (if nt then ["nt"] else []) ++ (match kf with | some k => ["kf=" ++ k] | none => []) }

def E (cs : Str) : Bytes := encodeAll cs

/-! ### one case per operation -/

def caseLen (s : Str) : Case :=
  mk s!"f len {encStr s}" (.ok (.int (strLen (E s)))) (.ok (.int s.length)) [s]

def caseIter (s : Str) : Case :=
  mk s!"o iter {encStr s} n" (.ok (.list (strIter (E s)))) (.ok (.list (Spec.strIter s))) [s]

def caseIn (sub s : Str) : Case :=
  mk s!"o in {encStr sub} {encStr s}" (.ok (.bool (contains (E s) (E sub)))) (.ok (.bool (Spec.contains s sub))) [s, sub]

def caseFind (s sub : Str) (a b : Arg) : Case :=
  mk s!"m find {encStr s} {encStr sub}{encArgs [a, b]}" (strFind (E s) (E sub) a b)
    (Spec.strFind s sub (toSpecArg a) (toSpecArg b)) [s, sub] [a, b]

def caseCount (s sub : Str) (a b : Arg) : Case :=
  mk s!"m count {encStr s} {encStr sub}{encArgs [a, b]}" (strCount (E s) (E sub) a b)
    (Spec.strCount s sub (toSpecArg a) (toSpecArg b)) [s, sub] [a, b]

def caseTail (suffix : Bool) (s : Str) (subs : List Str) (tuple : Bool) (a b : Arg) : Case :=
  let nm := if suffix then "endswith" else "startswith"
  let subEnc := if tuple then s!"T{subs.length}" ++ String.join (subs.map fun x => " " ++ encStr x) else encStr subs.head!
  mk s!"m {nm} {encStr s} {subEnc}{encArgs [a, b]}" (tailMatch suffix (E s) (subs.map E) a b)
    (Spec.tailMatch suffix s subs (toSpecArg a) (toSpecArg b)) (s :: subs) [a, b]

def caseSplit (s : Str) (sep : Option Str) (mx : Arg) : Case :=
  let sepEnc := match sep with
    | some v => " " ++ encStr v
    | none => if mx == Arg.absent then "" else " n"
  mk s!"m split {encStr s}{sepEnc}{encArgs [mx]}" (strSplit (E s) (sep.map E) mx)
    (Spec.strSplit s sep (toSpecArg mx)) (s :: sep.toList) [mx]

def caseReplace (s old new : Str) (cnt : Arg) : Case :=
  mk s!"m replace {encStr s} {encStr old} {encStr new}{encArgs [cnt]}" (strReplace (E s) (E old) (E new) cnt)
    (Spec.strReplace s old new (toSpecArg cnt)) [s, old, new] [cnt]

def caseStrip (which : Nat) (s : Str) (chars : Option Str) : Case :=
  let nm := if which = 1 then "lstrip" else if which = 2 then "rstrip" else "strip"
  let cEnc := match chars with | some v => " " ++ encStr v | none => ""
  mk s!"m {nm} {encStr s}{cEnc}" (strStrip which (E s) (chars.map E)) (Spec.strStrip which s chars) (s :: chars.toList)

def caseJoin (sep : Str) (parts : List Str) : Case :=
  mk (s!"m join {encStr sep} L{parts.length}" ++ String.join (parts.map fun x => " " ++ encStr x))
    (strJoin (E sep) (parts.map E)) (.ok (.str (Spec.joinStr sep parts))) (sep :: parts)

def cmpNames : List String := ["lt", "le", "eq", "ne", "gt", "ge"]

def caseCmp (op : Nat) (a b : Str) : Case :=
  mk s!"o {cmpNames[op]!} {encStr a} {encStr b}" (.ok (.bool (strCmp op (E a) (E b)))) (.ok (.bool (Spec.strCmp op a b))) [a, b]

def caseMul (s : Str) (n : Int) : Case :=
  mk s!"o mul {encStr s} i{n}" (strMul (E s) n) (Spec.strMul s n) [s] [.int n]

def caseGetItem (s : Str) (i : Int) : Case :=
  mk s!"o getitem {encStr s} i{i}" (strGetItem (E s) i) (Spec.strGetItem s i) [s] [.int i]

/-- `s[a:b]`: the slice object is written `S <a> <b> n` (None for an omitted bound) -/
def caseGetSlice (s : Str) (a b : Arg) : Case :=
  let enc (x : Arg) := match x with | .int v => s!"i{v}" | _ => "n"
  mk s!"o getitem {encStr s} S {enc a} {enc b} n" (strGetSlice (E s) a b)
    (Spec.strGetSlice s (toSpecArg a) (toSpecArg b)) [s] [a, b]

def caseChr (a : Arg) : Case :=
  let kf := match a with | .int v => if Spec.kfSurrogate v then some "C14-K01" else none | _ => none
  let big := match a with | .int v => v ≥ 0x80 || v < 0 | _ => true
  let c := mk s!"f chr{encArgs [a]}" (chr a) (Spec.chr (toSpecArg a)) [] [a] kf
  if big then { c with tags := if c.tags.contains "nt" then c.tags else "nt" :: c.tags } else c

def caseOrd (s : Str) : Case :=
  mk s!"f ord {encStr s}" (ord (E s)) (Spec.ord s) [s]

/-! ### repr round trip -/

inductive PyV where
  | str (cs : Str) | bytes (b : Bytes) | int (v : Int) | none | bool (b : Bool) | float (bits : Nat)
  | tuple (xs : List PyV) | list (xs : List PyV) | dict (kvs : List (Str × PyV))
deriving Inhabited

/-- `strconv.IsPrint` where this generator knows it (Go 1.2x tables, checked once against the library);
`none` = unknown, the repr text is then not compared -/
def isPrintKnown (c : Nat) : Option Bool :=
  if c < 0x7F then some (c ≥ 0x20)
  else if c ≤ 0xA0 then some false            -- DEL, the C1 controls, NO-BREAK SPACE
  else if c < 0x100 then some (c != 0xAD)      -- Latin-1 letters and signs; SOFT HYPHEN is not printable
  else if c = 0x2028 ∨ c = 0x2029 then some false
  else if [0xE9, 0xFF, 0x100, 0x20AC, 0xFFFD, 0x10000, 0x1F600, 0x4E2D, 0x3B1].contains c then some true
  else if [0x7F, 0x85, 0xA0, 0xAD, 0x1680, 0x2028, 0x3000, 0xD7FF, 0xE000, 0xFFFF, 0x10FFFF].contains c then some false
  else none

def isPrintGo (c : Nat) : Bool := (isPrintKnown c).getD false

mutual
  partial def encPyV : PyV → String
    | .str cs => encStr cs
    | .bytes b => encBytes b
    | .int v => s!"i{v}"
    | .none => "n"
    | .bool b => if b then "t1" else "t0"
    | .float bits => "f" ++ hexStr bits 16
    | .tuple xs => s!"T{xs.length}" ++ String.join (xs.map fun x => " " ++ encPyV x)
    | .list xs => s!"L{xs.length}" ++ String.join (xs.map fun x => " " ++ encPyV x)
    | .dict kvs => s!"D{kvs.length}" ++ String.join (kvs.map fun (k, v) => " " ++ encStr k ++ " " ++ encPyV v)
end

def decimalRunes (v : Int) : List Nat := (toString v).toList.map Char.toNat

/-- model of repr as runes: StringEscape / Bytes.M__repr__ / Tuple.repr / decimal ints; `none` when the
text depends on something this model does not predict (float formatting, unknown IsPrint) -/
partial def reprRunes : PyV → Option (List Nat)
  | .str cs => if cs.all fun c => (isPrintKnown c).isSome then some (runes (strRepr isPrintGo (E cs))) else none
  | .bytes b => some (bytesRepr b)
  | .int v => some (decimalRunes v)
  | .none => some ("None".toList.map Char.toNat)
  | .bool b => some ((if b then "True" else "False").toList.map Char.toNat)
  | .float _ => none
  | .tuple xs =>
    let parts := xs.map reprRunes
    if parts.any Option.isNone then none else
    let ps := parts.map fun p => p.getD []
    some ([40] ++ (join [44, 32] ps) ++ (if xs.length = 1 then [44] else []) ++ [41])
  | .list xs =>
    let parts := xs.map reprRunes
    if parts.any Option.isNone then none else
    some ([91] ++ (join [44, 32] (parts.map fun p => p.getD [])) ++ [93])
  | .dict kvs =>
    -- `StringDict.M__repr__` ranges over a Go map: the text is predictable for at most one entry
    match kvs with
    | [] => some [123, 125]
    | [(k, v)] =>
      (match reprRunes (.str k), reprRunes v with
       | some a, some b => some ([123] ++ a ++ [58, 32] ++ b ++ [125])
       | _, _ => none)
    | _ => none

/-- model of the round trip of the leaves: the literal repr writes, read back by the lexer model
(any `isPrint` gives the same verdict – theorem `repr_roundtrip_str`; the run uses `isPrintGo`) -/
partial def leavesRoundTrip : PyV → Bool
  | .str cs => readString (runes (strRepr isPrintGo (E cs))) == .ok (.str (E cs)) []
  | .bytes b => readString (bytesRepr b) == .ok (.bytes b) []
  | .tuple xs | .list xs => xs.all leavesRoundTrip
  | .dict kvs => kvs.all fun (k, v) => leavesRoundTrip (.str k) && leavesRoundTrip v
  | _ => true

partial def pyvInteresting : PyV → Bool
  | .str cs => interesting cs
  | .bytes b => interesting b
  | .int v => v < 0 || v > 2147483647
  | .tuple xs => xs.length ≤ 1 || xs.any pyvInteresting
  | .list xs => xs.any pyvInteresting
  | .dict kvs => kvs.any fun (k, v) => interesting k || pyvInteresting v
  | .float _ => true
  | _ => false

def caseRt (v : PyV) : Case :=
  { input := "rt " ++ encPyV v,
    modelV := boolStr (leavesRoundTrip v),
    modelR := match reprRunes v with | some rs => "s:" ++ esc rs | none => "",
    specV := "True",
    tags := if pyvInteresting v then ["nt"] else [] }

/-- `builtin_ascii` = StringEscape(repr text, ascii = true) -/
def asciiOf (v : PyV) : Option (List Nat) := (reprRunes v).map asciiRunes

/-- model of the round trip through `ascii(x)`: the leaves are read back from the text `strAscii` writes
(theorem `ascii_roundtrip_str`), and the text is pure ASCII (`ascii_is_ascii`) -/
partial def leavesAsciiRoundTrip : PyV → Bool
  | .str cs => readString (strAscii isPrintGo cs) == .ok (.str (E cs)) [] && (strAscii isPrintGo cs).all (· < 0x80)
  | .bytes b => readString (asciiRunes (bytesRepr b)) == .ok (.bytes b) []
  | .tuple xs | .list xs => xs.all leavesAsciiRoundTrip
  | .dict kvs => kvs.all fun (k, v) => leavesAsciiRoundTrip (.str k) && leavesAsciiRoundTrip v
  | _ => true

/-- `rta`: eval(ascii(x)) == x and ascii(x) is ASCII; `rts`: eval(str(x)) == x for a container (str = repr) -/
def caseRtA (v : PyV) : Case :=
  { input := "rta " ++ encPyV v,
    modelV := boolStr (leavesAsciiRoundTrip v),
    modelR := match asciiOf v with | some rs => "s:" ++ esc rs | none => "",
    specV := "True", tags := ["nt"] }

def caseRtS (v : PyV) : Case :=
  { (caseRt v) with input := "rts " ++ encPyV v }

/-- characters of the repr/ascii family: both quotes, backslash, controls with and without a short
escape, DEL, C1 controls, NEL, NBSP, the first printable Latin-1 sign, SOFT HYPHEN, ÿ, LINE/PARAGRAPH
SEPARATOR, BMP and astral characters, the last code point, escape letters -/
def rtAlphabet : List Nat := [39, 34, 92, 10, 9, 13, 0, 0x1B, 0x7F, 0x80, 0x85, 0x9F, 0xA0, 0xA1, 0xAD, 0xFF,
  0x2028, 0x2029, 0x20AC, 0x1F600, 0x10FFFF, 0x61, 0x78, 0x6E]
def rtAlphabetSmall : List Nat := [39, 34, 92, 10, 0x7F, 0xA0, 0x2028, 0x1F600, 0x78]

/-! ### enumeration -/

/-- the 10-symbol alphabet of the property's "Explored" clause -/
def alphabet : List Nat := [0x61, 0xE9, 0x20AC, 0x1F600, 39, 34, 92, 10, 0, 0x20]
/-- a smaller one for the products with many integer arguments -/
def alphabetSmall : List Nat := [0x61, 0xE9, 0x1F600, 39, 0x20]

/-- characters whose encodings share continuation bytes (see genMain) -/
def syncAlphabet : List Nat := [0x61, 0xE9, 0x269, 0xA9, 0x3A9, 0x20AC, 0x82]

def stringsUpTo (alpha : List Nat) : Nat → List Str
  | 0 => [[]]
  | n + 1 =>
    let prev := stringsUpTo alpha n
    [[]] ++ (alpha.flatMap fun c => prev.map fun s => c :: s)

/-- all strings of length ≤ n, each once -/
def allStrings (alpha : List Nat) (n : Nat) : List Str :=
  (List.range (n + 1)).flatMap fun k => (stringsUpTo alpha k).filter fun s => s.length = k

def intArgs : List Arg :=
  [.absent, .none] ++ ((List.range 15).map fun (i : Nat) => Arg.int ((i : Int) - 7)) ++ [.int (2 ^ 63), .int (-(2 ^ 63)), .int (2 ^ 63 - 1)]

/-- wide alphabet of the seeded strings: boundaries of every UTF-8 length class, U+FFFD, whitespace of
every width, characters whose printability differs -/
def wideAlphabet : Array Nat := #[0x61, 0x62, 0x20, 0x09, 0x0A, 0x0D, 0x00, 0x1F, 0x1C, 39, 34, 92, 0x7F, 0x80, 0x85, 0xA0, 0xAD, 0xE9, 0xFF,
  0x100, 0x3B1, 0x7FF, 0x800, 0x1680, 0x2028, 0x20AC, 0x3000, 0x4E2D, 0xD7FF, 0xE000, 0xFFFD, 0xFFFF, 0x10000, 0x1F600, 0x10FFFF,
  0x78, 0x75, 0x55, 0x4E, 0x30, 0x6E]

def randStr (r : Rng) (maxLen : Nat) : Rng × Str := Id.run do
  let (r0, n) := r.nat (maxLen + 1)
  let mut r := r0
  let mut out : List Nat := []
  for _ in [0:n] do
    let (r1, k) := r.nat 10
    if k = 0 then
      -- any scalar value
      let (r2, c) := r1.nat 0x110000
      r := r2
      out := (if 0xD800 ≤ c ∧ c < 0xE000 then 0xFFFD else c) :: out
    else
      let (r2, c) := r1.pick wideAlphabet
      r := r2
      out := c :: out
  return (r, out)

def randArg (r : Rng) : Rng × Arg :=
  let (r, k) := r.nat 24
  if k = 0 then (r, .absent) else if k = 1 then (r, .none)
  else if k = 2 then (r, .int (2 ^ 63)) else if k = 3 then (r, .int (-(2 ^ 63)))
  else (r, .int ((k : Int) - 14))

def emit (c : Case) : IO Unit := IO.println c.line

def sampleFloats : List Nat := [0x0000000000000000, 0x8000000000000000, 0x3FF0000000000000, 0x3FB999999999999A, 0x4340000000000000,
  0x7FEFFFFFFFFFFFFF, 0x0000000000000001, 0x400921FB54442D18, 0x4415AF1D78B58C40, 0x3EB0C6F7A0B5ED8D]

/-! ### literals through the lexer: `lit <source text>` (goal 3 of the C14 extension round) -/

def cp (s : String) : List Nat := s.toList.map Char.toNat

/-- what the lexer model gives for the source line `<text>\n` (the harness compiles `x = <text>\n`).
The `M:` forms mark a text the model places outside its scope although the specification
(`Spec.evalSource`) has it in scope: they can never equal the implementation's answer. -/
def litModelV (text : List Nat) : String :=
  match readString (text ++ [10]) with
  | .error => "E:SyntaxError"
  | .ok (.str b) [10] => showBytes b
  | .ok (.bytes b) [10] => encBytes b
  | .ok _ _ => "M:rest"
  | .notString => "M:notString"
  | .multiline => "M:multiline"

def litSpecV : Except Spec.Err Spec.LitVal → String
  | .error e => specErrPy e
  | .ok (.str cs) => encStr cs
  | .ok (.bytes bs) => encBytes bs

/-- one literal case; none when the text is outside the specification's scope (triple quotes,
continuation, text after the closing quote, `\N{..}`) or when Python's value contains a lone surrogate
(`'\ud800'` is valid Python; a Go string cannot hold it – the territory of C14-K01, not generated here) -/
def caseLit (text : List Nat) : Option Case :=
  match Spec.evalSource text with
  | none => none
  | some r =>
    let surrogate := match r with
      | .ok (.str cs) => cs.any fun c => 0xD800 ≤ c && c < 0xE000
      | _ => false
    if surrogate then none else
    some { input := "lit " ++ esc text, modelV := litModelV text, specV := litSpecV r,
           tags := if text.contains 92 then ["nt"] else [] }

def emitLit (text : List Nat) : IO Unit :=
  match caseLit text with
  | some c => emit c
  | none => pure ()

/-- the 16-symbol alphabet of literal bodies: backslash, the escape letters x u U n, signs, octal and
non-octal digits, hex letters of both cases, a non-hex letter, a quote, a non-ASCII character -/
def litAlphabet : List Nat := [92, 120, 117, 85, 43, 45, 48, 49, 55, 56, 102, 70, 103, 39, 110, 0xE9]
def litAlphabetSmall : List Nat := [92, 120, 117, 43, 48, 55, 56, 102, 39, 0xE9]

/-- all strings of length exactly n -/
def stringsOfLen (alpha : List Nat) (n : Nat) : List Str := (stringsUpTo alpha n).filter fun s => s.length = n

def litExplicit : List String := [
  "'\\x+1'", "'\\x-1'", "'\\x+'", "'\\x1'", "'\\x'", "'\\xg0'", "'\\x0g'", "'\\x 1'", "'\\x_1'", "'\\x1_'", "'\\x0x'", "'\\x0X41'",
  "'\\xe9'", "'\\xE9'", "'\\x00'", "'\\xff'", "'\\x7f'", "'\\x80'", "'\\x411'",
  "'\\u+123'", "'\\u-123'", "'\\u12+4'", "'\\u123'", "'\\u'", "'\\u0x41'", "'\\u1_23'", "'\\u00e9'", "'\\u20ac'", "'\\u20AC'", "'\\uFFFF'",
  "'\\ufffd'", "'\\u0041'", "'\\u00411'", "'\\ud7ff'", "'\\ue000'", "'\\u 041'", "'\\u004 '",
  "'\\U-0000001'", "'\\U+0000001'", "'\\U00110000'", "'\\U0010ffff'", "'\\U0010FFFF'", "'\\Uffffffff'", "'\\U7fffffff'", "'\\U80000000'",
  "'\\UFFFFFFFF'", "'\\U0001f600'", "'\\U0000e000'", "'\\U0000d7ff'", "'\\U000000e9'", "'\\U0000004'", "'\\U'", "'\\U00000041'", "'\\U000000411'",
  "'\\U0x000041'", "'\\U0000_041'", "'\\U00200000'", "'\\U01000000'", "'\\U10000000'", "'\\U0011ffff'",
  "b'\\x+1'", "b'\\x-1'", "b'\\xff'", "b'\\xFF'", "b'\\x00'", "b'\\x80'", "b'\\x1'", "b'\\x'", "b'\\xg1'", "b'é'", "b\"é\"", "br'é'", "rb'é'", "Rb\"é\"",
  "B'\\xe9'", "b'\\u00e9'", "b'\\U000000e9'", "b'\\u+123'", "b'\\U'", "b'\\u'", "b'\\N'", "b'\\N{DIGIT ONE}'", "b'\\400'", "b'\\377'", "b'\\777'", "b'\\0'",
  "b'\\é'", "b'a\\xe9é'", "b'\\xé1'", "b'\\x1é'", "b'€'", "b'\\\\é'",
  "'\\400'", "'\\377'", "'\\777'", "'\\1234'", "'\\8'", "'\\9'", "'\\08'", "'\\18'", "'\\0'", "'\\012'", "'\\101'", "'\\1011'", "'\\7a'", "'\\78'", "'\\778'",
  "'a\\'", "'a\\\\'", "'\\\\'", "'\\''", "'\\\"'", "\"\\'\"", "\"\\\"\"", "'\\a\\b\\f\\n\\r\\t\\v'", "b'\\a\\b\\f\\n\\r\\t\\v'", "'\\z'", "'\\é'", "'\\€'", "'\\ '",
  "'\\A'", "'\\B'", "'\\X41'", "b'\\X41'", "'\\c'", "'\\e'", "'\\-'", "'\\+'",
  "r'\\x+1'", "r'\\''", "r'\\\\'", "r'\\'", "r'\\xg'", "r'é'", "r\"\\\"\"", "br'\\x+1'", "rb'\\xff'", "rb'\\''", "bR'\\n'", "Rb'\\n'", "BR'a'", "Br'a'", "rB'a'", "RB'a'", "R'\\n'",
  "u'\\x41'", "U'\\u0041'", "u'é'", "u\"\\U0001f600\"",
  "''", "b''", "\"\"", "r''", "br\"\"", "'é'", "\"é'\"", "'€'", "'\\xe9é'", "'a", "'a\"", "b'a", "\"a'", "'", "b'", "r\"", "'\\x41", "b'\\x41"]

/-- `\x`, `\u`, `\U` with one position of the digit window replaced by a character next to the digit
ranges (slash, colon, at, G, backquote, g), a sign, `_`, `x`, `.`, space or a non-ASCII character;
and the truncated / over-long windows -/
def litStructured : List (List Nat) :=
  let bad : List Nat := [43, 45, 47, 58, 64, 71, 96, 103, 95, 120, 46, 32, 0xE9]
  let kinds : List (Nat × Nat) := [(120, 2), (117, 4), (85, 8)]
  let prefixes : List (List Nat) := [[], [98]]
  kinds.flatMap fun (e, size) =>
    [cp "0010ffe9", cp "0010FFE9", cp "00000041"].flatMap fun tpl8 =>
      let tpl := tpl8.drop (8 - size)
      prefixes.flatMap fun pre =>
        ((List.range size).flatMap fun p =>
          bad.map fun b => pre ++ [39, 92, e] ++ tpl.take p ++ [b] ++ tpl.drop (p + 1) ++ [39])
        ++ ((List.range (size + 3)).map fun k => pre ++ [39, 92, e] ++ (tpl ++ [49, 49]).take k ++ [39])

/-- alphabet of the seeded literal bodies (backslash and the escape letters several times) -/
def litWide : Array Nat := #[92, 92, 92, 92, 120, 120, 117, 85, 110, 116, 97, 118, 43, 45, 95, 32, 39, 34, 103, 122,
  48, 49, 50, 51, 52, 53, 54, 55, 56, 57, 97, 98, 99, 100, 101, 102, 65, 66, 67, 68, 69, 70, 0xE9, 0x20AC, 0x1F600]

def randLit (r : Rng) : Rng × List Nat := Id.run do
  let (r0, n) := r.nat 11
  let (r1, k) := r0.nat 8
  let mut r := r1
  let mut body : List Nat := []
  for _ in [0:n] do
    let (r2, c) := r.pick litWide
    r := r2
    body := c :: body
  let pre : List Nat := if k < 4 then [] else if k < 6 then [98] else if k = 6 then [114] else [98, 114]
  let (r3, q) := r.nat 2
  let quote := if q = 0 then 39 else 34
  return (r3, pre ++ [quote] ++ body ++ [quote])

/-! ### third round: the window-fit family and the methods gpython does not have -/

/-- a case on a method the model's method table (`lookupMethod`) does not contain: implementation and model
answer AttributeError, the specification value is what Python defines (known finding C14-K02) -/
def mkMissing (name : String) (input : String) (specStr : String) : Case :=
  let m := match lookupMethod name with | .ok _ => "M:implemented" | .error e => e.py
  { input := input, modelV := m, specV := specStr, tags := if Spec.kfMissingMethod name then ["nt", "kf=C14-K02"] else ["nt"] }

def specTriple : Except Spec.Err (Str × Str × Str) → String
  | .error e => specErrPy e
  | .ok (a, b, c) => "(" ++ encStr a ++ "," ++ encStr b ++ "," ++ encStr c ++ ")"

def caseSearchMissing (name : String) (s sub : Str) (a b : Arg) : Case :=
  let r := if name == "rfind" then Spec.strRfind s sub (toSpecArg a) (toSpecArg b)
    else if name == "index" then Spec.strIndex s sub (toSpecArg a) (toSpecArg b)
    else Spec.strRindex s sub (toSpecArg a) (toSpecArg b)
  mkMissing name s!"m {name} {encStr s} {encStr sub}{encArgs [a, b]}" (specV r)

def casePartition (right : Bool) (s sep : Str) : Case :=
  let nm := if right then "rpartition" else "partition"
  mkMissing nm s!"m {nm} {encStr s} {encStr sep}" (specTriple (if right then Spec.rpartition s sep else Spec.partition s sep))

def caseRsplit (s : Str) (sep : Option Str) (mx : Arg) : Case :=
  let sepEnc := match sep with
    | some v => " " ++ encStr v
    | none => if mx == Arg.absent then "" else " n"
  mkMissing "rsplit" s!"m rsplit {encStr s}{sepEnc}{encArgs [mx]}" (specV (Spec.strRsplit s sep (toSpecArg mx)))

def caseJust (which : Nat) (s : Str) (w : Arg) (fill : Option Str) : Case :=
  let nm := if which = 1 then "ljust" else if which = 2 then "rjust" else "center"
  let fEnc := match fill with | some v => " " ++ encStr v | none => ""
  mkMissing nm s!"m {nm} {encStr s}{encArgs [w]}{fEnc}" (specV (Spec.strJust which s (toSpecArg w) fill))

def caseZfill (s : Str) (w : Arg) : Case :=
  mkMissing "zfill" s!"m zfill {encStr s}{encArgs [w]}" (specV (Spec.strZfill s (toSpecArg w)))

/-- one character of each UTF-8 width: 1, 2, 3 and 4 bytes -/
def wfAlphabet : List Nat := [0x61, 0xE9, 0x20AC, 0x1F600]

/-- the start/end pairs around the occurrence `[i, i+m)` in a string of `n` code points: the window that
fits the needle exactly, one short, one long (on either side), open (None / absent) bounds, the same
window written with negative indices, and bounds beyond both ends -/
def fitWindows (n i m : Nat) : List (Arg × Arg) :=
  let I : Int := i
  let M : Int := m
  let N : Int := n
  [(.int I, .int (I + M)), (.int I, .int (I + M - 1)), (.int I, .int (I + M + 1)), (.int (I - 1), .int (I + M)),
   (.int (I + 1), .int (I + M)), (.int I, .none), (.none, .int (I + M)), (.int I, .absent),
   (.int (I - N), .int (I + M - N)), (.int (I - N), .none), (.int I, .int (N + 1)), (.int (-N - 1), .int (I + M)),
   (.int (I + M), .int I)]

/-- an ASCII candidate with as many BYTES as `needle` (so more code points whenever the needle is not ASCII) -/
def decoy (needle : Str) : Str := List.replicate (E needle).length 0x62

def dedup (xs : List Str) : List Str := xs.foldl (fun acc x => if acc.contains x then acc else acc ++ [x]) []

/-- all the cases of the window-fit family for one haystack -/
def windowFitCases (s : Str) (missing : Bool) : List Case := Id.run do
  let n := s.length
  let mut out : Array Case := #[]
  -- every occurrence [i, i+m) of every substring, the empty needle at every position 0..n and at n+1
  for i in List.range (n + 2) do
    for m in List.range (n + 1) do
      if i + m ≤ n || (m = 0 && i = n + 1) then
        let needle := (s.drop i).take m
        for (a, b) in fitWindows n i m do
          out := out.push (caseTail false s [needle] false a b)
          out := out.push (caseTail true s [needle] false a b)
          out := out.push (caseFind s needle a b)
          out := out.push (caseCount s needle a b)
          if m > 0 then
            out := out.push (caseTail false s [decoy needle, needle] true a b)
            out := out.push (caseTail true s [decoy needle, needle, []] true a b)
          out := out.push (caseGetSlice s (if a == .absent then .none else a) (if b == .absent then .none else b))
        if missing then
          for (a, b) in (fitWindows n i m).take 4 do
            for nm in ["rfind", "index", "rindex"] do out := out.push (caseSearchMissing nm s needle a b)
  -- every distinct non-empty substring as needle / separator / character set
  let subs := dedup ((List.range n).flatMap fun i => (List.range (n - i)).map fun k => (s.drop i).take (k + 1))
  for sub in subs ++ [decoy (s.take 1)] do
    if !sub.isEmpty then
      out := out.push (caseIn sub s)
      let occ := Spec.count s sub
      for c in ([-1, 0, 1, 2, (occ : Int), (occ : Int) + 1] : List Int).eraseDups do
        out := out.push (caseReplace s sub [0x20AC] (.int c))
        out := out.push (caseReplace s sub [] (.int c))
        out := out.push (caseSplit s (some sub) (.int c))
        if missing then out := out.push (caseRsplit s (some sub) (.int c))
      for w in [0, 1, 2] do out := out.push (caseStrip w s (some sub))
      if missing then
        out := out.push (casePartition false s sub); out := out.push (casePartition true s sub)
  -- empty `old` with every count up to len + 2
  for c in List.range (n + 3) do
    out := out.push (caseReplace s [] [0xE9] (.int c))
  if missing then
    for w in ([0, (n : Int) - 1, n, (n : Int) + 1, (n : Int) + 2, (n : Int) + 3] : List Int).eraseDups do
      for fill in [none, some [0xE9], some [0x1F600]] do
        for which in [0, 1, 2] do out := out.push (caseJust which s (.int w) fill)
      out := out.push (caseZfill s (.int w)); out := out.push (caseZfill (45 :: s) (.int (w + 1)))
    out := out.push (caseJust 0 s (.int 4) (some [0x61, 0x62])); out := out.push (caseJust 1 s (.int 4) (some []))
    out := out.push (caseJust 2 s .none none); out := out.push (caseZfill s (.int (2 ^ 63)))
    out := out.push (casePartition false s []); out := out.push (casePartition true s [])
    for mx in [Arg.absent, .int 0, .int 1] do out := out.push (caseRsplit (s ++ [0x20] ++ s ++ [0x3000]) none mx)
  return out.toList

def genMain (tier : String) (seed : Nat) : IO Unit := do
  let thorough := tier == "thorough"
  let big := allStrings alphabet (if thorough then 4 else 3)
  let bigger := allStrings alphabet (if thorough then 5 else 4)
  let needles1 := allStrings alphabet 1
  let needles2 := allStrings alphabet 2
  let small := allStrings alphabetSmall (if thorough then 3 else 2)
  let smallNeedles := allStrings alphabetSmall 1 ++ [[0x61, 0xE9], [0xE9, 0x1F600]]
  -- 1. unary operations on every string
  for s in bigger do
    emit (caseLen s); emit (caseIter s); emit (caseOrd s); emit (caseRt (.str s))
  for s in big do
    for w in [0, 1, 2] do emit (caseStrip w s none)
    for mx in [Arg.absent, .int (-1), .int 0, .int 1, .int 2] do emit (caseSplit s none mx)
    for n in [-1, 0, 1, 2, 3] do emit (caseMul s n)
  -- 2. binary operations: every string × every needle of length ≤ 1 (≤ 2 in the thorough tier)
  for s in big do
    for sub in (if s.length + (if thorough then 0 else 1) ≤ 3 then needles2 else needles1) do
      emit (caseIn sub s)
      emit (caseFind s sub .absent .absent)
      emit (caseCount s sub .absent .absent)
      emit (caseTail false s [sub] false .absent .absent)
      emit (caseTail true s [sub] false .absent .absent)
      emit (caseSplit s (some sub) .absent)
      emit (caseReplace s sub [0x20AC, 0x61] .absent)
      emit (caseReplace s sub [] (.int 1))
      for w in [0, 1, 2] do emit (caseStrip w s (some sub))
      emit (caseJoin sub [s, sub, s])
  -- needles of length 2 against the strings over the small alphabet (quick tier too)
  for s in allStrings alphabetSmall 3 do
    for sub in allStrings alphabetSmall 2 do
      emit (caseIn sub s); emit (caseFind s sub .absent .absent); emit (caseCount s sub .absent .absent)
      emit (caseTail false s [sub] false .absent .absent); emit (caseTail true s [sub] false .absent .absent)
      emit (caseSplit s (some sub) .absent); emit (caseReplace s sub [0xE9] .absent)
      for w in [0, 1, 2] do emit (caseStrip w s (some sub))
  -- self-synchronisation alphabet: characters that SHARE continuation bytes (U+00E9 = C3 A9, U+0269 = C9 A9,
  -- U+00A9 = C2 A9, U+03A9 = CE A9, U+20AC = E2 82 AC, U+0082 = C2 82): a byte-level search that started
  -- inside a character, or a suffix test on raw bytes of a wrong decoding, would give false matches here
  let syncStrs := allStrings syncAlphabet (if thorough then 4 else 3)
  for s in syncStrs do
    for sub in allStrings syncAlphabet 1 ++ [[0xE9, 0x269], [0xA9, 0xA9]] do
      emit (caseIn sub s); emit (caseFind s sub .absent .absent); emit (caseCount s sub .absent .absent)
      emit (caseTail false s [sub] false .absent .absent); emit (caseTail true s [sub] false .absent .absent)
      emit (caseSplit s (some sub) .absent); emit (caseReplace s sub [0x3A9] .absent)
    if s.length ≤ 2 || thorough then
      for a in [Arg.int (-2), .int 1, .none] do
        for b in [Arg.int (-1), .int 2, .absent] do
          emit (caseFind s [0xE9] a b); emit (caseCount s [0xA9] a b)
          emit (caseTail false s [[0x269]] false a b); emit (caseTail true s [[0xE9], [0x3A9]] true a b)
  -- comparisons: all pairs of strings of length ≤ 2 (≤ 3 over the small alphabet)
  let cmpSet := allStrings alphabet 2 ++ [[0xFFFF], [0x10000], [0xFFFD], [0x7F], [0x80], [0x7FF], [0x800], [0xD7FF], [0xE000]]
  for a in cmpSet do
    for b in cmpSet do
      for op in [0, 1, 2, 3, 4, 5] do emit (caseCmp op a b)
  -- 3. every optional-integer argument position over {absent, None, -7..7, ±2^63, 2^63-1}
  for s in small do
    for sub in smallNeedles do
      for a in intArgs do
        for b in intArgs do
          if !(a == .absent && b != .absent) then
            emit (caseFind s sub a b); emit (caseCount s sub a b)
            emit (caseTail false s [sub] false a b); emit (caseTail true s [sub] false a b)
    for a in intArgs do
      emit (caseSplit s (some [0x20]) a); emit (caseSplit s (some [0xE9]) a); emit (caseSplit s none a)
      emit (caseReplace s [0xE9] [0x78] a); emit (caseReplace s [] [0x1F600] a); emit (caseReplace s [0x61] [] a)
    emit (caseTail false s [[0x61], [0xE9]] true .absent .absent); emit (caseTail true s [[0x61], []] true (.int 1) .absent)
  for s in allStrings alphabet 2 do
    for a in intArgs do
      emit (caseSplit s (some [0x20]) a); emit (caseSplit s none a); emit (caseReplace s [] [0x78] a)
  -- 3b. indexing and slicing: every index -7..7 (and int64 extremes) on every string up to length 3 (4);
  -- every pair of slice bounds over {None, -7..7, ±2^63, 2^63-1} on the small-alphabet strings
  for s in big do
    for i in ([-5, -4, -3, -2, -1, 0, 1, 2, 3, 4, 5, 2 ^ 62, -(2 ^ 63)] : List Int) do emit (caseGetItem s i)
    for a in [Arg.none, .int (-2), .int 1] do
      for b in [Arg.none, .int (-1), .int 2, .int 9] do emit (caseGetSlice s a b)
  for s in small do
    for a in intArgs do
      for b in intArgs do
        if a != .absent && b != .absent then emit (caseGetSlice s a b)
  -- 4. chr / ord
  for a in intArgs do emit (caseChr a)
  for v in [0, 0x7F, 0x80, 0x7FF, 0x800, 0xD7FF, 0xD800, 0xDBFF, 0xDFFF, 0xE000, 0xFFFD, 0xFFFF, 0x10000, 0x10FFFF, 0x110000] do
    emit (caseChr (.int v))
  for c in wideAlphabet.toList do
    emit (caseOrd [c]); emit (caseChr (.int c)); emit (caseRt (.str [c]))
  -- 5. repr round trips: bytes, ints, nested
  let byteAlpha : List Nat := [0x61, 39, 34, 92, 10, 0, 0x7F, 0x80, 0xFF]
  for b in allStrings byteAlpha (if thorough then 4 else 3) do emit (caseRt (.bytes b))
  for v in ([0, 1, -1, 7, 2 ^ 31, -(2 ^ 31), 2 ^ 63 - 1, 2 ^ 63, -(2 ^ 63), -(2 ^ 63) - 1, 2 ^ 64, 10 ^ 30, -(10 ^ 30)] : List Int) do
    emit (caseRt (.int v)); emit (caseRt (.tuple [.int v])); emit (caseRt (.list [.int v, .str [39]]))
  for f in sampleFloats do
    emit (caseRt (.float f)); emit (caseRt (.tuple [.float f]))
  let leaves : List PyV := [.str [], .str [39], .str [34, 39], .str [0x1F600, 92], .bytes [], .bytes [39, 0xFF], .int 5, .none, .bool true,
    .tuple [], .list [], .tuple [.int 1], .list [.str [10]]]
  for a in leaves do
    emit (caseRt (.tuple [a])); emit (caseRt (.list [a]))
    for b in leaves do
      emit (caseRt (.tuple [a, b])); emit (caseRt (.list [a, .tuple [b]])); emit (caseRt (.tuple [.list [a, b], .tuple [.tuple [b]]]))
  -- 6. seeded longer strings
  let n := if thorough then 40000 else 4000
  let mut r : Rng := ⟨seed.toUInt64⟩
  for _ in [0:n] do
    let (r1, s) := randStr r 12
    let (r2, sub) := randStr r1 2
    let (r3, a) := randArg r2
    let (r4, b) := randArg r3
    let (r5, k) := r4.nat 6
    let (r6, s2) := randStr r5 3
    r := r6
    -- make the needle occur: half of the time take it from the string
    let sub := if k % 2 = 0 && s.length ≥ 2 then (s.drop (k % s.length)).take (1 + k % 2) else sub
    let a' := if a == .absent && b != .absent then Arg.none else a
    emit (caseLen s); emit (caseIter s); emit (caseRt (.str s)); emit (caseRt (.tuple [.str s, .list [.str sub]]))
    emit (caseIn sub s); emit (caseFind s sub a' b); emit (caseCount s sub a' b)
    emit (caseTail false s [sub] false a' b); emit (caseTail true s [sub] false a' b)
    emit (caseTail false s [s2, sub] true a' b)
    emit (caseSplit s (some sub) a); emit (caseSplit s none b)
    emit (caseReplace s sub s2 a); emit (caseStrip (k % 3) s (some s2)); emit (caseStrip (k % 3) s none)
    emit (caseJoin sub [s, s2, s]); emit (caseCmp k s (s.take k ++ s2)); emit (caseCmp k s2 sub)
    emit (caseMul s2 k)
    emit (caseGetItem s ((k : Int) - 3)); emit (caseGetSlice s a' b)
    emit (caseRt (.bytes ((E s).take 8)))
  -- 7. ---- BEGIN literal cases (`lit`): the lexer + DecodeEscape against Spec.evalSource ----
  -- every body up to length 3 over the 16-symbol literal alphabet (4 in the thorough tier) x both quotes x
  -- the prefixes '' b r br; length 4 (5) over the 10-symbol one x quote ' x prefixes '' b
  let litFull := if thorough then 4 else 3
  for k in List.range (litFull + 1) do
    for body in stringsOfLen litAlphabet k do
      for q in [39, 34] do
        for pre in ([[], [98]] ++ (if k ≤ 3 then [[114], [98, 114]] else [])) do
          emitLit (pre ++ [q] ++ body ++ [q])
  for body in stringsOfLen litAlphabetSmall (litFull + 1) do
    for pre in [[], [98]] do
      emitLit (pre ++ [39] ++ body ++ [39])
  for t in litExplicit do emitLit (cp t)
  for t in litStructured do emitLit t
  -- every \uXXXX over the digits {0 1 8 9 a f A F} (no surrogate is reachable without d/D)
  let ud : List Nat := cp "0189afAF"
  for a in ud do for b in ud do for c in ud do for d in ud do emitLit ([39, 92, 117, a, b, c, d, 39])
  let mut rl : Rng := ⟨(seed + 0x14C14).toUInt64⟩
  for _ in [0:(if thorough then 40000 else 4000)] do
    let (r1, t) := randLit rl
    rl := r1
    emitLit t
  -- ---- END literal cases ----
  -- 9. repr / ascii / str round trips (third round): every string up to length 2 over the 24-symbol repr alphabet
  -- (length 3 over the 9-symbol one; 3 / 4 thorough), alone and inside list / tuple / dict displays
  let rtStrs := allStrings rtAlphabet 2 ++ stringsOfLen rtAlphabetSmall 3
    ++ (if thorough then stringsOfLen rtAlphabet 3 ++ stringsOfLen rtAlphabetSmall 4 else [])
  for s in rtStrs do
    emit (caseRt (.str s)); emit (caseRtA (.str s))
    let t := s.reverse
    emit (caseRt (.list [.str s, .tuple [.str t]])); emit (caseRtA (.list [.str s, .tuple [.str t]]))
    emit (caseRtS (.tuple [.str s])); emit (caseRtS (.dict [(s, .str t)]))
    emit (caseRt (.dict [(s, .str t)])); emit (caseRtA (.dict [(s, .list [.str t, .bytes ((E s).take 4)])]))
    emit (caseRt (.dict [(s, .int 1), (t ++ [0x61], .tuple [.str s]), ([], .dict [(t, .str s)])]))
  for v in [PyV.dict [], .list [.dict []], .tuple [.dict [([], .dict [])]], .dict [([39], .list [])]] do
    emit (caseRt v); emit (caseRtA v); emit (caseRtS v)
  -- 8. window-fit family (third round): haystacks over one character of each UTF-8 width; every occurrence of every
  -- substring x the windows that fit it exactly / one short / one long / open / negative / out of range, for
  -- startswith, endswith (str and tuple with a same-BYTE-length ASCII decoy), find, count, s[a:b]; replace with every
  -- count, split with every maxsplit, strip with the substring as character set; the methods gpython lacks (kf C14-K02)
  for s in allStrings wfAlphabet (if thorough then 4 else 3) do
    for c in windowFitCases s true do emit c
  -- the same on longer seeded haystacks (wide alphabet), without the missing methods
  let mut rw : Rng := ⟨(seed + 0x14F17).toUInt64⟩
  for _ in [0:(if thorough then 600 else 60)] do
    let (r1, s) := randStr rw 6
    rw := r1
    for c in windowFitCases s false do emit c

end GPy.C14
