/-
C14 generic list-level facts: the model "walkers" (Index, Count, Replace, SplitN, fieldsN)
against the specification's find/take/drop definitions.  No UTF-8 content.
-/
import GPy.C14.Proofs
namespace GPy.C14

/-! ### same function, two names -/

theorem indexFrom_eq (sub s : List Nat) (k : Nat) : indexFrom sub s k = Spec.findFrom sub s k := by
  induction s generalizing k with
  | nil => rfl
  | cons c t ih => simp only [indexFrom, Spec.findFrom, ih]

theorem index_eq (s sub : List Nat) : index s sub = Spec.find s sub := indexFrom_eq sub s 0

theorem countAux_eq (sub : List Nat) (f : Nat) (s : List Nat) : countAux sub f s = Spec.countAux sub f s := by
  induction f generalizing s with
  | zero => cases s <;> rfl
  | succ f ih =>
    cases s with
    | nil => rfl
    | cons c t => simp only [countAux, Spec.countAux, ih]

/-! ### first match index -/

/-- index of the first occurrence of `sub` in `s` -/
def gfidx (sub : List Nat) : List Nat → Option Nat
  | [] => if sub.isEmpty then some 0 else none
  | c :: t => if sub.isPrefixOf (c :: t) then some 0 else (gfidx sub t).map (· + 1)

theorem gfindFrom (sub s : List Nat) (k : Nat) :
    Spec.findFrom sub s k = match gfidx sub s with | none => -1 | some i => (k : Int) + (i : Int) := by
  induction s generalizing k with
  | nil => simp only [Spec.findFrom, gfidx]; split <;> simp
  | cons c t ih =>
    simp only [Spec.findFrom, gfidx]
    split
    · simp
    · rw [ih]; cases gfidx sub t <;> simp
      first | ac_rfl | grind

theorem gfidx_nil (sub : List Nat) (h : sub ≠ []) : gfidx sub [] = none := by
  cases sub with
  | nil => exact absurd rfl h
  | cons a r => rfl

theorem gfidx_cons_pos (sub : List Nat) (c : Nat) (t : List Nat) (h : sub.isPrefixOf (c :: t) = true) :
    gfidx sub (c :: t) = some 0 := by simp [gfidx, h]

theorem gfidx_cons_neg (sub : List Nat) (c : Nat) (t : List Nat) (h : ¬ sub.isPrefixOf (c :: t) = true) :
    gfidx sub (c :: t) = (gfidx sub t).map (· + 1) := by simp [gfidx, h]

theorem glen_pos (l : List Nat) (h : l ≠ []) : 1 ≤ l.length := by
  cases l with
  | nil => exact absurd rfl h
  | cons a r => simp

/-! ### split, non-empty separator -/

theorem gsplitOn_step (sep s : List Nat) (f n : Nat) (hn : n ≠ 0) :
    Spec.splitOn sep (f + 1) n s =
      match gfidx sep s with
      | none => [s]
      | some i => s.take i :: Spec.splitOn sep f (n - 1) (s.drop (i + sep.length)) := by
  simp only [Spec.splitOn, Spec.find, gfindFrom, hn, if_false]
  cases gfidx sep s <;> simp
  omega

theorem gsplitOn_zero (sep s : List Nat) (f : Nat) : Spec.splitOn sep f 0 s = [s] := by
  cases f <;> simp [Spec.splitOn]

theorem gsplitOn_nil (sep : List Nat) (hsep : sep ≠ []) (f n : Nat) : Spec.splitOn sep f n [] = [[]] := by
  cases f with
  | zero => rfl
  | succ f =>
    by_cases hn : n = 0
    · subst hn; exact gsplitOn_zero _ _ _
    · rw [gsplitOn_step _ _ _ _ hn, gfidx_nil _ hsep]

theorem gsplitOn_ne_nil (sep s : List Nat) (f n : Nat) : Spec.splitOn sep f n s ≠ [] := by
  cases f with
  | zero => simp [Spec.splitOn]
  | succ f =>
    by_cases hn : n = 0
    · subst hn; simp [gsplitOn_zero]
    · rw [gsplitOn_step _ _ _ _ hn]; cases gfidx sep s <;> simp

/-- put `cur` in front of the first piece -/
def gpre (cur : List Nat) : List (List Nat) → List (List Nat)
  | [] => [cur]
  | h :: tl => (cur ++ h) :: tl

theorem gpre_nil (l : List (List Nat)) (h : l ≠ []) : gpre [] l = l := by
  cases l with
  | nil => exact absurd rfl h
  | cons a r => simp [gpre]

theorem gsplitAux (sep : List Nat) (hsep : sep ≠ []) (f : Nat) :
    ∀ (f' n : Nat) (cur s : List Nat), s.length ≤ f → s.length ≤ f' →
      splitAux sep f n cur s = gpre cur (Spec.splitOn sep f' n s) := by
  have hl := glen_pos sep hsep
  induction f with
  | zero =>
    intro f' n cur s hf hf'
    have : s = [] := List.eq_nil_of_length_eq_zero (by omega)
    subst this
    rw [gsplitOn_nil _ hsep]; simp [splitAux, gpre]
  | succ f ih =>
    intro f' n cur s hf hf'
    cases s with
    | nil => rw [gsplitOn_nil _ hsep]; simp [splitAux, gpre]
    | cons b t =>
      by_cases hn : n = 0
      · subst hn; rw [gsplitOn_zero]; simp [splitAux, gpre]
      · cases f' with
        | zero => simp at hf'
        | succ f'' =>
          simp only [List.length_cons] at hf hf'
          by_cases hp : sep.isPrefixOf (b :: t) = true
          · rw [gsplitOn_step _ _ _ _ hn, gfidx_cons_pos _ _ _ hp]
            simp only [splitAux, hn, if_false, hp, if_true]
            rw [ih f'' (n - 1) [] _ (by simp only [List.length_drop, List.length_cons]; omega)
              (by simp only [List.length_drop, List.length_cons]; omega), gpre_nil _ (gsplitOn_ne_nil _ _ _ _)]
            simp [gpre]
          · rw [gsplitOn_step _ _ _ _ hn, gfidx_cons_neg _ _ _ hp]
            simp only [splitAux, hn, if_false, hp, Bool.false_eq_true]
            rw [ih (f'' + 1) n (cur ++ [b]) t (by omega) (by omega), gsplitOn_step _ _ _ _ hn]
            cases gfidx sep t with
            | none => simp [gpre]
            | some i =>
              simp only [Option.map_some, gpre, List.take_succ_cons, List.append_assoc, List.singleton_append]
              rw [show i + 1 + sep.length = (i + sep.length) + 1 by omega, List.drop_succ_cons]

theorem splitAux_eq_splitOn (sep s : List Nat) (hsep : sep ≠ []) (f f' n : Nat)
    (hf : s.length ≤ f) (hf' : s.length ≤ f') : splitAux sep f n [] s = Spec.splitOn sep f' n s := by
  rw [gsplitAux sep hsep f f' n [] s hf hf', gpre_nil _ (gsplitOn_ne_nil _ _ _ _)]

theorem splitOn_limit (sep s : List Nat) (hsep : sep ≠ []) (f n n' : Nat) (hf : s.length ≤ f)
    (hn : s.length ≤ n) (hn' : s.length ≤ n') : Spec.splitOn sep f n s = Spec.splitOn sep f n' s := by
  have hl := glen_pos sep hsep
  induction f generalizing n n' s with
  | zero => rfl
  | succ f ih =>
    by_cases h0 : n = 0
    · have : s = [] := List.eq_nil_of_length_eq_zero (by omega)
      subst this; rw [gsplitOn_nil _ hsep, gsplitOn_nil _ hsep]
    by_cases h0' : n' = 0
    · have : s = [] := List.eq_nil_of_length_eq_zero (by omega)
      subst this; rw [gsplitOn_nil _ hsep, gsplitOn_nil _ hsep]
    rw [gsplitOn_step _ _ _ _ h0, gsplitOn_step _ _ _ _ h0']
    cases gfidx sep s with
    | none => rfl
    | some i =>
      simp only
      rw [ih _ (n - 1) (n' - 1) (by simp only [List.length_drop]; omega) (by simp only [List.length_drop]; omega)
        (by simp only [List.length_drop]; omega)]

/-- `strings.SplitN(s, sep, n)` as String.Split calls it (mx = maxsplit after ParseTuple, an int64) -/
theorem splitN_generic (s sep : List Nat) (hsep : sep ≠ []) (mx : Int) (hlen : (s.length : Int) ≤ IntMax) :
    splitN s sep (if mx ≥ 0 ∧ mx < IntMax then mx + 1 else -1)
      = Spec.splitOn sep (s.length + 1) (if mx < 0 then s.length + 1 else mx.toNat) s := by
  unfold splitN
  by_cases h1 : mx < 0
  · have h2 : ¬ (mx ≥ 0 ∧ mx < IntMax) := by omega
    simp only [h2, h1, if_false, if_true]
    simp only [show ¬ ((-1 : Int) = 0) by omega, show ((-1 : Int) < 0) by omega, if_false, if_true]
    exact splitAux_eq_splitOn sep s hsep _ _ _ (by omega) (by omega)
  · by_cases h3 : mx < IntMax
    · have h2 : mx ≥ 0 ∧ mx < IntMax := by omega
      simp only [h2, h1, if_false, if_true, and_self]
      simp only [show ¬ (mx + 1 = 0) by omega, show ¬ (mx + 1 < 0) by omega, if_false]
      rw [show (mx + 1).toNat - 1 = mx.toNat by omega]
      exact splitAux_eq_splitOn sep s hsep _ _ _ (by omega) (by omega)
    · have h2 : ¬ (mx ≥ 0 ∧ mx < IntMax) := by omega
      simp only [h2, h1, if_false]
      simp only [show ¬ ((-1 : Int) = 0) by omega, show ((-1 : Int) < 0) by omega, if_false, if_true]
      rw [splitAux_eq_splitOn sep s hsep _ (s.length + 1) _ (by omega) (by omega)]
      exact splitOn_limit sep s hsep _ _ _ (by omega) (by omega) (by omega)

/-! ### replace, non-empty old -/

theorem greplaceOn_step (old new s : List Nat) (f n : Nat) (hn : n ≠ 0) :
    Spec.replaceOn old new (f + 1) n s =
      match gfidx old s with
      | none => s
      | some i => s.take i ++ new ++ Spec.replaceOn old new f (n - 1) (s.drop (i + old.length)) := by
  simp only [Spec.replaceOn, Spec.find, gfindFrom, hn, if_false]
  cases gfidx old s <;> simp
  omega

theorem greplaceOn_zero (old new s : List Nat) (f : Nat) : Spec.replaceOn old new f 0 s = s := by
  cases f <;> simp [Spec.replaceOn]

theorem greplaceOn_nil (old new : List Nat) (hold : old ≠ []) (f n : Nat) : Spec.replaceOn old new f n [] = [] := by
  cases f with
  | zero => rfl
  | succ f =>
    by_cases hn : n = 0
    · subst hn; exact greplaceOn_zero _ _ _ _
    · rw [greplaceOn_step _ _ _ _ _ hn, gfidx_nil _ hold]

theorem replaceAux_eq_replaceOn (old new s : List Nat) (hold : old ≠ []) (f f' n : Nat)
    (hf : s.length ≤ f) (hf' : s.length ≤ f') : replaceAux old new f n s = Spec.replaceOn old new f' n s := by
  have hl := glen_pos old hold
  induction f generalizing f' n s with
  | zero =>
    have : s = [] := List.eq_nil_of_length_eq_zero (by omega)
    subst this
    rw [greplaceOn_nil _ _ hold]; simp [replaceAux]
  | succ f ih =>
    cases s with
    | nil => rw [greplaceOn_nil _ _ hold]; simp [replaceAux]
    | cons b t =>
      by_cases hn : n = 0
      · subst hn; rw [greplaceOn_zero]; simp [replaceAux]
      · cases f' with
        | zero => simp at hf'
        | succ f'' =>
          simp only [List.length_cons] at hf hf'
          by_cases hp : old.isPrefixOf (b :: t) = true
          · rw [greplaceOn_step _ _ _ _ _ hn, gfidx_cons_pos _ _ _ hp]
            simp only [replaceAux, hn, if_false, hp, if_true]
            rw [ih _ f'' (n - 1) (by simp only [List.length_drop, List.length_cons]; omega)
              (by simp only [List.length_drop, List.length_cons]; omega)]
            simp
          · rw [greplaceOn_step _ _ _ _ _ hn, gfidx_cons_neg _ _ _ hp]
            simp only [replaceAux, hn, if_false, hp, Bool.false_eq_true]
            rw [ih t (f'' + 1) n (by omega) (by omega), greplaceOn_step _ _ _ _ _ hn]
            cases gfidx old t with
            | none => simp
            | some i =>
              simp only [Option.map_some, List.take_succ_cons, List.append_assoc, List.cons_append]
              rw [show i + 1 + old.length = (i + old.length) + 1 by omega, List.drop_succ_cons]

theorem greplaceAux_zero (old new s : List Nat) (f : Nat) : replaceAux old new f 0 s = s := by
  cases f with
  | zero => cases s <;> rfl
  | succ f => cases s <;> simp [replaceAux]

/-- replacing `old` by itself changes nothing -/
theorem greplaceAux_self (old s : List Nat) (f n : Nat) : replaceAux old old f n s = s := by
  induction f generalizing n s with
  | zero => cases s <;> rfl
  | succ f ih =>
    cases s with
    | nil => rfl
    | cons b t =>
      simp only [replaceAux]
      split
      · rfl
      · split
        · rename_i hp
          rw [ih]
          obtain ⟨r, hr⟩ := List.isPrefixOf_iff_prefix.mp hp
          rw [← hr]; simp
        · rw [ih]

/-- a limit at least the number of occurrences is irrelevant -/
theorem greplaceAux_limit (old new s : List Nat) (f n : Nat) (h : countAux old f s ≤ n) :
    replaceAux old new f n s = replaceAux old new f (countAux old f s) s := by
  induction f generalizing n s with
  | zero => cases s <;> rfl
  | succ f ih =>
    cases s with
    | nil => rfl
    | cons b t =>
      by_cases hp : old.isPrefixOf (b :: t) = true
      · simp only [countAux, hp, if_true] at h ⊢
        have hn : n ≠ 0 := by omega
        simp only [replaceAux, hn, if_false, hp, if_true, show 1 + countAux old f (List.drop old.length (b :: t)) ≠ 0 by omega]
        rw [ih _ (n - 1) (by omega), show 1 + countAux old f (List.drop old.length (b :: t)) - 1 = countAux old f (List.drop old.length (b :: t)) by omega]
      · simp only [countAux, hp, Bool.false_eq_true, if_false] at h ⊢
        by_cases hn : n = 0
        · have : countAux old f t = 0 := by omega
          rw [this, hn]
        · simp only [replaceAux, hn, if_false, hp, Bool.false_eq_true]
          rw [ih t n h]
          split
          · rename_i h0; rw [h0, greplaceAux_zero]
          · rfl

theorem gcountAux_fuel (sub s : List Nat) (hsub : sub ≠ []) (f f' : Nat) (hf : s.length ≤ f) (hf' : s.length ≤ f') :
    countAux sub f s = countAux sub f' s := by
  have hl := glen_pos sub hsub
  induction f generalizing f' s with
  | zero =>
    have : s = [] := List.eq_nil_of_length_eq_zero (by omega)
    subst this; cases f' <;> rfl
  | succ f ih =>
    cases s with
    | nil => cases f' <;> rfl
    | cons b t =>
      cases f' with
      | zero => simp at hf'
      | succ f'' =>
        simp only [List.length_cons] at hf hf'
        simp only [countAux]
        rw [ih _ f'' (by simp only [List.length_drop, List.length_cons]; omega)
              (by simp only [List.length_drop, List.length_cons]; omega), ih t f'' (by omega) (by omega)]

theorem gcountAux_le (sub s : List Nat) (hsub : sub ≠ []) (f : Nat) : countAux sub f s ≤ s.length := by
  have hl := glen_pos sub hsub
  induction f generalizing s with
  | zero => cases s <;> simp [countAux]
  | succ f ih =>
    cases s with
    | nil => simp [countAux]
    | cons b t =>
      simp only [countAux]
      split
      · have := ih (List.drop sub.length (b :: t))
        simp only [List.length_drop, List.length_cons] at this ⊢; omega
      · have := ih t
        simp only [List.length_cons]; omega

/-- the whole of `strings.Replace` for a non-empty `old` against the specification's count handling -/
theorem replace_generic (s old new : List Nat) (hold : old ≠ []) (n : Int) :
    replace s old new n = Spec.replaceOn old new (s.length + 1) (if n < 0 then s.length + 1 else n.toNat) s := by
  rw [← replaceAux_eq_replaceOn old new s hold (s.length + 1) (s.length + 1) _ (by omega) (by omega)]
  unfold replace
  by_cases h1 : old = new ∨ n = 0
  · simp only [h1, if_true]
    rcases h1 with h | h
    · subst h; rw [greplaceAux_self]
    · subst h; simp [greplaceAux_zero]
  · simp only [h1, if_false]
    have hne : old.isEmpty = false := by cases old with
      | nil => exact absurd rfl hold
      | cons a r => rfl
    have hc : count s old = countAux old (s.length + 1) s := by
      simp only [count, hne, Bool.false_eq_true, if_false]
      exact gcountAux_fuel old s hold _ _ (by omega) (by omega)
    have hle := gcountAux_le old s hold (s.length + 1)
    simp only [hne, Bool.false_eq_true, if_false, hc]
    have hn0 : n ≠ 0 := fun h => h1 (Or.inr h)
    generalize hm : countAux old (s.length + 1) s = m at hle
    by_cases h0 : m = 0
    · simp only [h0, if_true]
      rw [greplaceAux_limit old new s _ _ (by rw [hm, h0]; exact Nat.zero_le _), hm, h0, greplaceAux_zero]
    · simp only [h0, if_false]
      by_cases h2 : n < 0
      · simp only [h2, true_or, if_true]
        rw [greplaceAux_limit old new s _ (s.length + 1) (by omega), hm]
      · simp only [h2, false_or, if_false]
        by_cases h3 : (m : Int) < n
        · simp only [h3, if_true]
          rw [greplaceAux_limit old new s _ n.toNat (by omega), hm]
        · simp only [h3, if_false]

/-! ### empty old: specification side facts -/

theorem interleave_nil (n : Nat) (s : List Nat) : Spec.interleave [] n s = s := by
  induction s generalizing n with
  | nil => cases n <;> rfl
  | cons c t ih => cases n with
    | zero => rfl
    | succ n => simp [Spec.interleave, ih]

theorem interleave_ge (new s : List Nat) (n : Nat) (h : s.length + 1 ≤ n) :
    Spec.interleave new n s = Spec.interleave new (s.length + 1) s := by
  induction s generalizing n with
  | nil => cases n with
    | zero => simp at h
    | succ n => rfl
  | cons c t ih => cases n with
    | zero => simp at h
    | succ n =>
      simp only [List.length_cons] at h
      simp only [Spec.interleave, List.length_cons]
      rw [ih n (by omega)]

/-! ### split on whitespace -/

/-- the word at the head of `s` -/
abbrev gtw (s : List Nat) : List Nat := s.takeWhile (fun c => !Spec.isSpace c)

theorem gsplitWs_space (c : Nat) (t : List Nat) (f N : Nat) (h : Spec.isSpace c = true) :
    Spec.splitWs (f + 1) N (c :: t) = Spec.splitWs (f + 1) N t := by
  simp only [Spec.splitWs, List.dropWhile_cons, h, if_true]

theorem gsplitWs_word (c : Nat) (t : List Nat) (f N : Nat) (h : Spec.isSpace c = false) (hN : N ≠ 0) :
    Spec.splitWs (f + 1) N (c :: t) = (c :: gtw t) :: Spec.splitWs f (N - 1) (t.drop (gtw t).length) := by
  simp [Spec.splitWs, h, hN]

theorem gsplitWs_zero (s : List Nat) (f : Nat) :
    Spec.splitWs (f + 1) 0 s = if (s.dropWhile Spec.isSpace).isEmpty then [] else [s.dropWhile Spec.isSpace] := by
  simp [Spec.splitWs]

theorem gsplitWs_nil (f N : Nat) : Spec.splitWs f N [] = [] := by
  cases f <;> simp [Spec.splitWs]

/-- limit reached inside the last piece: everything else belongs to it -/
theorem gfields_last (n : Int) (cs : List Nat) (out : List (List Nat)) (cur : List Nat)
    (hn : (out.length : Int) = n) (hc : cur ≠ []) : fieldsAux n cs out cur = out ++ [cur ++ cs] := by
  induction cs generalizing cur with
  | nil =>
    have : cur.isEmpty = false := by cases cur <;> simp_all
    simp [fieldsAux, this]
  | cons c t ih =>
    have h1 : ¬ (n < 0 ∨ (out.length : Int) < n) := by omega
    have : cur.isEmpty = false := by cases cur <;> simp_all
    simp only [fieldsAux, h1, if_false, this, Bool.false_eq_true, and_false]
    rw [ih (cur ++ [c]) (by simp)]; simp

/-- limit reached before the last piece: leading whitespace is skipped -/
theorem gfields_lastws (n : Int) (cs : List Nat) (out : List (List Nat))
    (hn : (out.length : Int) = n) :
    fieldsAux n cs out [] = out ++ (if (cs.dropWhile Spec.isSpace).isEmpty then [] else [cs.dropWhile Spec.isSpace]) := by
  subst hn
  induction cs with
  | nil => simp [fieldsAux]
  | cons c t ih =>
    have h1 : ¬ ((out.length : Int) < 0 ∨ (out.length : Int) < (out.length : Int)) := by omega
    simp only [fieldsAux, h1, List.isEmpty_nil, and_self, if_false, if_true, isSpace_eq]
    cases hs : Spec.isSpace c with
    | true => simp only [List.dropWhile_cons, hs, if_true, Bool.not_true, Bool.false_eq_true, if_false]; exact ih
    | false =>
      simp only [List.dropWhile_cons, hs, Bool.not_false, if_true, Bool.false_eq_true, if_false]
      rw [gfields_last _ t out ([] ++ [c]) rfl (by simp)]; simp

theorem gfields (n : Int) (cs : List Nat) :
    ∀ (out : List (List Nat)) (cur : List Nat) (N f : Nat), cs.length < f →
      ((n < 0 ∧ cs.length < N) ∨ (0 ≤ n ∧ ((out.length + N : Nat) : Int) = n)) →
      fieldsAux n cs out cur = out ++
        (if cur = [] then Spec.splitWs f N cs
         else if N = 0 then [cur ++ cs]
         else (cur ++ gtw cs) :: Spec.splitWs f (N - 1) (cs.drop (gtw cs).length)) := by
  induction cs with
  | nil =>
    intro out cur N f hf hc
    by_cases hcur : cur = []
    · subst hcur; simp [fieldsAux, gsplitWs_nil]
    · have : cur.isEmpty = false := by cases cur <;> simp_all
      by_cases hN : N = 0 <;> simp [fieldsAux, this, hcur, hN, gsplitWs_nil]
  | cons c t ih =>
    intro out cur N f hf hc
    obtain ⟨f', rfl⟩ : ∃ f', f = f' + 1 := ⟨f - 1, by omega⟩
    simp only [List.length_cons] at hf hc
    by_cases hN : N = 0
    · subst hN
      have hn : (out.length : Int) = n := by omega
      by_cases hcur : cur = []
      · subst hcur; rw [gfields_lastws n _ out hn, gsplitWs_zero]; simp
      · rw [gfields_last n _ out cur hn hcur]; simp [hcur]
    · have h1 : n < 0 ∨ (out.length : Int) < n := by omega
      simp only [fieldsAux, h1, if_true, isSpace_eq]
      cases hs : Spec.isSpace c with
      | true =>
        simp only [if_true]
        by_cases hcur : cur = []
        · subst hcur
          simp only [List.isEmpty_nil, if_true]
          rw [ih out [] N (f' + 1) (by omega) (by omega), gsplitWs_space _ _ _ _ hs]
          simp
        · have : cur.isEmpty = false := by cases cur <;> simp_all
          simp only [this, Bool.false_eq_true, if_false, hcur, hN]
          rw [ih (out ++ [cur]) [] (N - 1) (f' + 1) (by omega)
            (by simp only [List.length_append, List.length_singleton]; omega)]
          simp [gtw, hs, gsplitWs_space _ _ _ _ hs]
      | false =>
        simp only [Bool.false_eq_true, if_false]
        by_cases hcur : cur = []
        · subst hcur
          rw [ih out ([] ++ [c]) N f' (by omega) (by omega), gsplitWs_word _ _ _ _ hs hN]
          simp [hN]
        · rw [ih out (cur ++ [c]) N (f' + 1) (by omega) (by omega)]
          simp [hN, hcur, gtw, hs]

theorem fieldsAux_eq_splitWs (cs : List Nat) (mx : Int) :
    fieldsAux mx cs [] [] = Spec.splitWs (cs.length + 1) (if mx < 0 then cs.length + 1 else mx.toNat) cs := by
  rw [gfields mx cs [] [] (if mx < 0 then cs.length + 1 else mx.toNat) (cs.length + 1) (by omega)
    (by split <;> simp <;> omega)]
  simp

end GPy.C14
