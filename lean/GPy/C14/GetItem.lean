/-
C14, second round: indexing `s[i]` and slicing `s[a:b]` on encodings against the specification.
-/
import GPy.C14.Search
namespace GPy.C14
open Spec (Scalar)

theorem strLen_encode (cs : List Nat) (h : ∀ c ∈ cs, Scalar c) : strLen (encodeAll cs) = cs.length := by
  simp [strLen, runeCount, runes_encodeAll cs h]

theorem getitem_encode (cs : List Nat) (hs : ∀ c ∈ cs, Scalar c) (i : Int) :
    agrees (strGetItem (encodeAll cs) i) (Spec.strGetItem cs i) := by
  unfold strGetItem Spec.strGetItem
  simp only [strLen_encode cs hs]
  generalize hj : (if i < 0 then i + (cs.length : Int) else i) = j
  by_cases hr : j < 0 ∨ j ≥ (cs.length : Int)
  · simp [hr, agrees, errAgrees]
  · simp only [hr, if_false]
    have hj0 : 0 ≤ j := by omega
    have hjn : j.toNat < cs.length := by omega
    have hcast : ((j.toNat : Nat) : Int) = j := by omega
    -- the general path result
    have hsl := slice_encodeAll cs hs j.toNat (j.toNat + 1) (by omega) (by omega)
    by_cases hasc : (cs.length : Int) = ((encodeAll cs).length : Int)
    · simp only [hasc, if_true]
      have hsl' := hsl
      unfold slice at hsl'
      have h1 : ¬ ((j.toNat : Int) ≥ ((j.toNat + 1 : Nat) : Int)) := by omega
      simp only [h1, if_false, hasc, if_true] at hsl'
      rw [hcast] at hsl'
      have h2 : ((j.toNat + 1 : Nat) : Int) = j + 1 := by omega
      rw [h2] at hsl'
      rw [hsl']
      simp [agrees, valAgrees]
    · simp only [hasc, if_false, agrees, valAgrees]
      rw [← hcast, pos_encodeAll cs hs _ (by omega)]
      simp only [Int.toNat_natCast]
      have hdrop : (encodeAll cs).drop (encodeAll (cs.take j.toNat)).length = encodeAll (cs.drop j.toNat) := by
        conv => lhs; rw [encodeAll_take_drop cs j.toNat]
        simp
      rw [hdrop]
      cases hd : cs.drop j.toNat with
      | nil =>
        have := congrArg List.length hd
        simp only [List.length_drop, List.length_nil] at this
        omega
      | cons c t =>
        have hc : Scalar c := hs c (List.mem_of_mem_drop (by rw [hd]; simp))
        simp only [encodeAll, decodeRune_encodeRune c hc, List.take_left', List.take_succ_cons, List.take_zero, List.append_nil]

theorem sliceBound_spec (a : Arg) (dflt : Int) (n : Nat) (hn : (n : Int) ≤ IntMax) (hd : 0 ≤ dflt ∧ dflt ≤ n) :
    sliceBound a dflt n = Spec.bound (argToSpec a) dflt n ∧ 0 ≤ Spec.bound (argToSpec a) dflt n ∧ Spec.bound (argToSpec a) dflt n ≤ n := by
  unfold IntMax at hn
  cases a with
  | absent => exact ⟨rfl, hd.1, hd.2⟩
  | none => exact ⟨rfl, hd.1, hd.2⟩
  | int v => simp only [sliceBound, Spec.bound, argToSpec, IntMin, IntMax]; (repeat' split) <;> omega

theorem getslice_encode (cs : List Nat) (hs : ∀ c ∈ cs, Scalar c) (a b : Arg) (hlen : (cs.length : Int) ≤ IntMax) :
    agrees (strGetSlice (encodeAll cs) a b) (Spec.strGetSlice cs (argToSpec a) (argToSpec b)) := by
  unfold strGetSlice Spec.strGetSlice
  simp only [strLen_encode cs hs]
  obtain ⟨h1, h2, h3⟩ := sliceBound_spec a 0 cs.length hlen (by omega)
  obtain ⟨h4, h5, h6⟩ := sliceBound_spec b cs.length cs.length hlen (by omega)
  rw [h1, h4]
  generalize Spec.bound (argToSpec a) 0 cs.length = i at *
  generalize Spec.bound (argToSpec b) cs.length cs.length = j at *
  by_cases hij : i ≤ j
  · have := slice_encodeAll cs hs i.toNat j.toNat (by omega) (by omega)
    have hi : ((i.toNat : Nat) : Int) = i := by omega
    have hjc : ((j.toNat : Nat) : Int) = j := by omega
    rw [hi, hjc] at this
    rw [this]
    have : j.toNat - i.toNat = (j - i).toNat := by omega
    simp [agrees, valAgrees, this]
  · have hge : i ≥ j := by omega
    have : (j - i).toNat = 0 := by omega
    simp [slice, hge, agrees, valAgrees, this, encodeAll]

end GPy.C14
