/-
C14 model: hand transliteration of the string code of gpython
(py/string.go, py/bytes.go: M__repr__, parser/stringescape.go, parser/lexer.go:
readString, stdlib/builtin/builtin.go: builtin_chr / builtin_ord, py/tuple.go: repr),
as it is after the `fix:` commits listed in KNOWN_FINDINGS.txt.

Go `string` ↦ `Bytes = List Nat` (every element < 256; a `py.String` normally holds
valid UTF-8 – the invariant `Valid` of Proofs.lean), Go `rune` ↦ `Nat`.
`unicode/utf8` (EncodeRune, DecodeRuneInString, RuneCountInString, `range s`,
`[]rune(s)`), `strings` (Index, Count, Replace, SplitN, HasPrefix/HasSuffix,
Trim*Func, Join) and `strconv.ParseUint` are external Go functions: they are
modelled here by their documented byte-level definitions (trusted; exercised by
every correspondence run).  `strconv.IsPrint` is a *parameter* `isPrint`.
-/
import GPy.Common.Basic
namespace GPy.C14

abbrev Bytes := List Nat
abbrev Rune := Nat

def runeError : Nat := 0xFFFD

/-! ### unicode/utf8 -/

/-- `utf8.EncodeRune` / `bytes.Buffer.WriteRune` (surrogates and values above
U+10FFFF are written as U+FFFD) -/
def encodeRune (r : Nat) : Bytes :=
  if r < 0x80 then [r]
  else if r < 0x800 then [0xC0 + r / 64, 0x80 + r % 64]
  else if (0xD800 ≤ r ∧ r < 0xE000) ∨ r > 0x10FFFF then [0xEF, 0xBF, 0xBD]
  else if r < 0x10000 then [0xE0 + r / 4096, 0x80 + r / 64 % 64, 0x80 + r % 64]
  else [0xF0 + r / 262144, 0x80 + r / 4096 % 64, 0x80 + r / 64 % 64, 0x80 + r % 64]

/-- `string([]rune)`, a sequence of `WriteRune` -/
def encodeAll : List Nat → Bytes
  | [] => []
  | r :: rs => encodeRune r ++ encodeAll rs

/-- `utf8.DecodeRuneInString`: (rune, width); `(RuneError, 0)` on empty input,
`(RuneError, 1)` on any malformed sequence (overlong forms, surrogates and values
above U+10FFFF are rejected through the accept ranges of the second byte). -/
def decodeRune : Bytes → Nat × Nat
  | [] => (runeError, 0)
  | s0 :: t =>
    if s0 < 0x80 then (s0, 1)
    else if s0 < 0xC2 ∨ s0 > 0xF4 then (runeError, 1)
    else
      let lo := if s0 = 0xE0 then 0xA0 else if s0 = 0xF0 then 0x90 else 0x80
      let hi := if s0 = 0xED then 0x9F else if s0 = 0xF4 then 0x8F else 0xBF
      match t with
      | [] => (runeError, 1)
      | s1 :: t1 =>
        if s0 < 0xE0 then
          if s1 < lo ∨ hi < s1 then (runeError, 1) else ((s0 % 32) * 64 + s1 % 64, 2)
        else match t1 with
          | [] => (runeError, 1)
          | s2 :: t2 =>
            if s0 < 0xF0 then
              if s1 < lo ∨ hi < s1 then (runeError, 1)
              else if s2 < 0x80 ∨ 0xBF < s2 then (runeError, 1)
              else ((s0 % 16) * 4096 + (s1 % 64) * 64 + s2 % 64, 3)
            else match t2 with
              | [] => (runeError, 1)
              | s3 :: _ =>
                if s1 < lo ∨ hi < s1 then (runeError, 1)
                else if s2 < 0x80 ∨ 0xBF < s2 then (runeError, 1)
                else if s3 < 0x80 ∨ 0xBF < s3 then (runeError, 1)
                else ((s0 % 8) * 262144 + (s1 % 64) * 4096 + (s2 % 64) * 64 + s3 % 64, 4)

/-- `for _, c := range s` / `[]rune(s)` / `bytes.Runes`; `fuel` ≥ `s.length` -/
def runesAux : Nat → Bytes → List Nat
  | 0, _ => []
  | _, [] => []
  | f + 1, b :: t =>
    let d := decodeRune (b :: t)
    d.1 :: runesAux f ((b :: t).drop d.2)

def runes (s : Bytes) : List Nat := runesAux s.length s

/-- `utf8.RuneCountInString` -/
def runeCount (s : Bytes) : Nat := (runes s).length

/-! ### strings (byte-level naive definitions) -/

/-- `strings.HasPrefix s sub` -/
def hasPrefix (s sub : Bytes) : Bool := sub.isPrefixOf s
/-- `strings.HasSuffix s sub` -/
def hasSuffix (s sub : Bytes) : Bool := sub.reverse.isPrefixOf s.reverse

/-- `strings.Index`: byte offset of the first occurrence, or -1 (`off` = bytes already skipped) -/
def indexFrom (sub : Bytes) : Bytes → Nat → Int
  | [], off => if sub.isEmpty then (off : Int) else -1
  | b :: t, off => if sub.isPrefixOf (b :: t) then (off : Int) else indexFrom sub t (off + 1)

def index (s sub : Bytes) : Int := indexFrom sub s 0

/-- non-overlapping occurrences of a non-empty `sub`; `fuel` ≥ `s.length` -/
def countAux (sub : Bytes) : Nat → Bytes → Nat
  | 0, _ => 0
  | _, [] => 0
  | f + 1, b :: t =>
    if sub.isPrefixOf (b :: t) then 1 + countAux sub f ((b :: t).drop sub.length)
    else countAux sub f t

/-- `strings.Count` -/
def count (s sub : Bytes) : Nat :=
  if sub.isEmpty then runeCount s + 1 else countAux sub s.length s

/-- the replacement loop of `strings.Replace` for a non-empty `old`: at most `n` replacements -/
def replaceAux (old new : Bytes) : Nat → Nat → Bytes → Bytes
  | 0, _, s => s
  | _, _, [] => []
  | f + 1, n, b :: t =>
    if n = 0 then b :: t
    else if old.isPrefixOf (b :: t) then new ++ replaceAux old new f (n - 1) ((b :: t).drop old.length)
    else b :: replaceAux old new f n t

/-- `strings.Replace` with an empty `old`: `new` before each of the first `n` code points … -/
def replaceEmptyAux (new : Bytes) : Nat → Nat → Bytes → Bytes
  | 0, _, s => s
  | _, _, [] => []
  | f + 1, n, b :: t =>
    if n = 0 then b :: t
    else
      let w := (decodeRune (b :: t)).2
      new ++ (b :: t).take w ++ replaceEmptyAux new f (n - 1) ((b :: t).drop w)

/-- `strings.Replace(s, old, new, n)` (n < 0: no limit) -/
def replace (s old new : Bytes) (n : Int) : Bytes :=
  if old = new ∨ n = 0 then s else
  let m := count s old
  if m = 0 then s else
  let k : Nat := if n < 0 ∨ (m : Int) < n then m else n.toNat
  if old.isEmpty then
    -- k ≤ runeCount s + 1 insertions: before each of the first code points, the last one possibly at the end
    let body := replaceEmptyAux new (s.length + 1) k s
    if k = runeCount s + 1 then body ++ new else body
  else replaceAux old new (s.length + 1) k s

/-- the loop of `strings.genSplit` for a non-empty separator: at most `n` further cuts -/
def splitAux (sep : Bytes) : Nat → Nat → Bytes → Bytes → List Bytes
  | 0, _, cur, s => [cur ++ s]
  | _, _, cur, [] => [cur]
  | f + 1, n, cur, b :: t =>
    if n = 0 then [cur ++ b :: t]
    else if sep.isPrefixOf (b :: t) then cur :: splitAux sep f (n - 1) [] ((b :: t).drop sep.length)
    else splitAux sep f n (cur ++ [b]) t

/-- `strings.SplitN(s, sep, n)` for a non-empty `sep`: n = 0 gives nil, n < 0 no limit, else at most n pieces -/
def splitN (s sep : Bytes) (n : Int) : List Bytes :=
  if n = 0 then [] else
  let cuts : Nat := if n < 0 then s.length + 1 else n.toNat - 1
  splitAux sep (s.length + 1) cuts [] s

/-- `strings.Join` -/
def join (sep : Bytes) : List Bytes → Bytes
  | [] => []
  | [x] => x
  | x :: y :: r => x ++ sep ++ join sep (y :: r)

/-- Go's `<` on strings: bytewise lexicographic -/
def ltBytes : Bytes → Bytes → Bool
  | _, [] => false
  | [], _ :: _ => true
  | a :: s, b :: t => if a < b then true else if b < a then false else ltBytes s t

/-! ### py/string.go -/

inductive Err where
  | type | value | overflow | attr | syntax | index
deriving DecidableEq, Repr, Inhabited

/-- an argument position that takes an optional integer: absent, `None`, or an int (of any size) -/
inductive Arg where
  | absent | none | int (v : Int)
deriving DecidableEq, Repr, Inhabited

inductive Val where
  | str (b : Bytes)
  | int (v : Int)
  | bool (b : Bool)
  | list (xs : List Bytes)
deriving DecidableEq, Repr, Inhabited

inductive Res where
  | ok (v : Val)
  | err (e : Err)
  | panic
deriving DecidableEq, Repr, Inhabited

/-- `isSpace` of py/string.go: unicode.IsSpace (White_Space) plus U+001C..U+001F -/
def isSpace (c : Nat) : Bool :=
  (0x09 ≤ c ∧ c ≤ 0x0D) || (0x1C ≤ c ∧ c ≤ 0x20) || c = 0x85 || c = 0xA0 || c = 0x1680
  || (0x2000 ≤ c ∧ c ≤ 0x200A) || c = 0x2028 || c = 0x2029 || c = 0x202F || c = 0x205F || c = 0x3000

/-- `String.len` -/
def strLen (s : Bytes) : Nat := runeCount s

/-- `String.pos(n)`: byte offset of the n-th character, `len(s)` if there is none.
`k` = characters passed, `i` = bytes passed. -/
def posAux (n : Int) : Nat → Bytes → Nat → Nat → Nat
  | 0, s, _, i => i + s.length
  | _, [], _, i => i
  | f + 1, b :: t, k, i =>
    if (k : Int) = n then i
    else let w := (decodeRune (b :: t)).2; posAux n f ((b :: t).drop w) (k + 1) (i + w)

def pos (s : Bytes) (n : Int) : Nat := posAux n s.length s 0 0

/-- Go `s[a:b]`; `none` = run-time panic (slice bounds out of range) -/
def goSlice (s : Bytes) (a b : Int) : Option Bytes :=
  if 0 ≤ a ∧ a ≤ b ∧ b ≤ (s.length : Int) then some ((s.drop a.toNat).take (b - a).toNat) else none

/-- `String.slice(start, stop, length)` (character positions; ASCII fast path) -/
def slice (s : Bytes) (start stop length : Int) : Option Bytes :=
  if start ≥ stop then some []
  else if length = (s.length : Int) then goSlice s start stop
  else if start ≤ 0 ∧ stop ≥ length then some s
  else
    let startI := pos s start
    let stopI := pos (s.drop startI) (stop - start) + startI
    goSlice s startI stopI

/-- `indexArg`: None / absent give the default, big integers saturate -/
def indexArg (a : Arg) (dflt : Int) : Int :=
  match a with
  | .absent => dflt
  | .none => dflt
  | .int v => if v < IntMin then IntMin else if v > IntMax then IntMax else v

/-- `adjustIndices` -/
def adjustIndices (start stop length : Int) : Int × Int :=
  let stop := if stop > length then length else if stop < 0 then (if stop + length < 0 then 0 else stop + length) else stop
  let start := if start < 0 then (if start + length < 0 then 0 else start + length) else start
  (start, stop)

/-- the common prologue of Count / find / tailMatch: the searched window, `none` when start > end -/
def window (s : Bytes) (a b : Arg) : Option (Int × Option Bytes) :=
  let size : Int := strLen s
  let be := adjustIndices (indexArg a 0) (indexArg b size) size
  if be.1 > be.2 then none else some (be.1, slice s be.1 be.2 size)

/-- `String.M__contains__` (needle a str) -/
def contains (s needle : Bytes) : Bool := index s needle ≥ 0

/-- `String.Count` -/
def strCount (s sub : Bytes) (a b : Arg) : Res :=
  match window s a b with
  | none => .ok (.int 0)
  | some (_, none) => .panic
  | some (_, some w) => .ok (.int (count w sub))

/-- `String.find` -/
def strFind (s sub : Bytes) (a b : Arg) : Res :=
  match window s a b with
  | none => .ok (.int (-1))
  | some (_, none) => .panic
  | some (beg, some w) =>
    let idx := index w sub
    if idx < 0 then .ok (.int (-1)) else .ok (.int (beg + strLen (w.take idx.toNat)))

/-- `String.tailMatch` with one candidate string (`suffix` selects HasSuffix) -/
def tailMatch (suffix : Bool) (s : Bytes) (subs : List Bytes) (a b : Arg) : Res :=
  match window s a b with
  | none => .ok (.bool false)
  | some (_, none) => .panic
  | some (_, some w) => .ok (.bool (subs.any fun sub => if suffix then hasSuffix w sub else hasPrefix w sub))

/-- ParseTuple "i": None is a TypeError, an int beyond int64 an OverflowError -/
def intArg (a : Arg) (dflt : Int) : Except Err Int :=
  match a with
  | .absent => .ok dflt
  | .none => .error .type
  | .int v => if v < IntMin ∨ v > IntMax then .error .overflow else .ok v

/-- `fieldsN` over the runes of the string: (out reversed, cur) -/
def fieldsAux (n : Int) : List Nat → List (List Nat) → List Nat → List (List Nat)
  | [], out, cur => if cur.isEmpty then out else out ++ [cur]
  | c :: t, out, cur =>
    if n < 0 ∨ (out.length : Int) < n then
      if isSpace c then
        (if cur.isEmpty then fieldsAux n t out cur else fieldsAux n t (out ++ [cur]) [])
      else fieldsAux n t out (cur ++ [c])
    else if (out.length : Int) = n ∧ cur.isEmpty then
      (if !isSpace c then fieldsAux n t out (cur ++ [c]) else fieldsAux n t out cur)
    else fieldsAux n t out (cur ++ [c])

def fieldsN (s : Bytes) (n : Int) : List Bytes := (fieldsAux n (runes s) [] []).map encodeAll

/-- `String.Split(sep, maxsplit)`; `sep = none` is the `None` separator -/
def strSplit (s : Bytes) (sep : Option Bytes) (maxsplit : Arg) : Res :=
  match intArg maxsplit (-2) with
  | .error e => .err e
  | .ok mx =>
    match sep with
    | some v =>
      if v.isEmpty then .err .value else
      let n : Int := if mx ≥ 0 ∧ mx < IntMax then mx + 1 else -1
      .ok (.list (splitN s v n))
    | none => .ok (.list (fieldsN s mx))

/-- `String.Replace(old, new, count)` -/
def strReplace (s old new : Bytes) (cnt : Arg) : Res :=
  match intArg cnt (-1) with
  | .error e => .err e
  | .ok n => .ok (.str (replace s old new n))

/-- `stripFunc`: whitespace, or membership in the runes of the argument -/
def stripPred (chars : Option Bytes) : Nat → Bool :=
  match chars with
  | none => isSpace
  | some v => fun c => (runes v).contains c

def dropWhileL (f : Nat → Bool) : List Nat → List Nat
  | [] => []
  | c :: t => if f c then dropWhileL f t else c :: t

/-- `strings.TrimLeftFunc` / `TrimRightFunc` / `TrimFunc`, as functions of the rune sequence
(`DecodeLastRuneInString` is only modelled on valid UTF-8) -/
def trimLeft (f : Nat → Bool) (s : Bytes) : Bytes := encodeAll (dropWhileL f (runes s))
def trimRight (f : Nat → Bool) (s : Bytes) : Bytes := encodeAll (dropWhileL f (runes s).reverse).reverse
def trimBoth (f : Nat → Bool) (s : Bytes) : Bytes :=
  encodeAll (dropWhileL f (dropWhileL f (runes s)).reverse).reverse

/-- which = 0 strip, 1 lstrip, 2 rstrip -/
def strStrip (which : Nat) (s : Bytes) (chars : Option Bytes) : Res :=
  let f := stripPred chars
  .ok (.str (if which = 1 then trimLeft f s else if which = 2 then trimRight f s else trimBoth f s))

/-- `String.Join` over a list/tuple of strings -/
def strJoin (sep : Bytes) (parts : List Bytes) : Res := .ok (.str (join sep parts))

def repeatBytes (s : Bytes) : Nat → Bytes
  | 0 => []
  | n + 1 => s ++ repeatBytes s n

/-- `String.M__mul__` with an int64 count -/
def strMul (s : Bytes) (n : Int) : Res := .ok (.str (repeatBytes s (if n < 0 then 0 else n.toNat)))

/-- the six rich comparisons: 0 lt, 1 le, 2 eq, 3 ne, 4 gt, 5 ge -/
def strCmp (op : Nat) (a b : Bytes) : Bool :=
  match op with
  | 0 => ltBytes a b
  | 1 => !ltBytes b a
  | 2 => a == b
  | 3 => !(a == b)
  | 4 => ltBytes b a
  | _ => !ltBytes a b

/-- `py.Iterate` over a String: one string per rune -/
def strIter (s : Bytes) : List Bytes := (runes s).map encodeRune

/-- `IndexIntCheck` + `String.M__getitem__` with an int key that fits int64: the ASCII fast path slices one
byte, the general path decodes one rune at `pos(i)` -/
def strGetItem (s : Bytes) (i : Int) : Res :=
  let length : Int := strLen s
  let i := if i < 0 then i + length else i
  if i < 0 ∨ i ≥ length then .err .index
  else if length = (s.length : Int) then
    match goSlice s i (i + 1) with
    | some b => .ok (.str b)
    | none => .panic
  else
    let t := s.drop (pos s i)
    .ok (.str (t.take (decodeRune t).2))

/-- one bound of `Slice.GetIndices` for step = 1: `sliceIndex` saturates a big int, a negative bound counts
from the end, the result is clipped to 0..length -/
def sliceBound (a : Arg) (dflt length : Int) : Int :=
  match a with
  | .absent => dflt
  | .none => dflt
  | .int v =>
    let v := if v < IntMin then IntMin else if v > IntMax then IntMax else v
    let v := if v < 0 then v + length else v
    let v := if v < 0 then 0 else v
    if v ≥ length then length else v

/-- `String.M__getitem__` with a slice key `[a:b]` (step None, i.e. 1): `s.slice(start, stop, length)` -/
def strGetSlice (s : Bytes) (a b : Arg) : Res :=
  let length : Int := strLen s
  match slice s (sliceBound a 0 length) (sliceBound b length length) length with
  | some r => .ok (.str r)
  | none => .panic

/-! ### stdlib/builtin/builtin.go -/

/-- `builtin_chr` -/
def chr (a : Arg) : Res :=
  match a with
  | .int v =>
    if v < IntMin ∨ v > IntMax then .err .overflow
    else if v < 0 ∨ v ≥ 0x110000 then .err .value
    else .ok (.str (encodeRune v.toNat))
  | _ => .err .type

/-- `builtin_ord` of a str -/
def ord (s : Bytes) : Res :=
  let d := decodeRune s
  if s.length = d.2 ∧ (d.1 ≠ runeError ∨ d.2 = 3) then .ok (.int d.1) else .err .type

/-! ### repr: py/string.go StringEscape, py/bytes.go M__repr__ -/

def hexChar (d : Nat) : Nat := if d < 10 then 48 + d else 87 + d

/-- `%0<k>x` of `n` (n < 16^k): k lower-case hex digits, most significant first -/
def hexDigits (n : Nat) : Nat → List Nat
  | 0 => []
  | k + 1 => hexDigits (n / 16) k ++ [hexChar (n % 16)]

/-- one rune of `StringEscape(_, ascii=false)` with the chosen quote -/
def escRune (isPrint : Nat → Bool) (quote : Nat) (c : Nat) : List Nat :=
  if c < 0x20 then
    if c = 9 then [92, 116] else if c = 10 then [92, 110] else if c = 13 then [92, 114]
    else [92, 120] ++ hexDigits c 2
  else if c < 0x7F then
    if c = 92 ∨ c = quote then [92, c] else [c]
  else if c < 0x100 then
    if isPrint c then [c] else [92, 120] ++ hexDigits c 2
  else if c < 0x10000 then
    if isPrint c then [c] else [92, 117] ++ hexDigits c 4
  else
    if isPrint c then [c] else [92, 85] ++ hexDigits c 8

/-- the quote `StringEscape` / `Bytes.M__repr__` choose: `"` iff the text has a `'` and no `"` -/
def chooseQuote (cs : List Nat) : Nat := if cs.contains 39 ∧ ¬ cs.contains 34 then 34 else 39

def escBody (isPrint : Nat → Bool) (quote : Nat) : List Nat → List Nat
  | [] => []
  | c :: t => escRune isPrint quote c ++ escBody isPrint quote t

/-- `StringEscape(s, false)` as the sequence of runes written to the buffer -/
def escapeRunes (isPrint : Nat → Bool) (cs : List Nat) : List Nat :=
  let q := chooseQuote cs
  [q] ++ escBody isPrint q cs ++ [q]

/-- `String.M__repr__` -/
def strRepr (isPrint : Nat → Bool) (s : Bytes) : Bytes := encodeAll (escapeRunes isPrint (runes s))

def escByte (quote : Nat) (c : Nat) : List Nat :=
  if c < 0x20 then
    if c = 9 then [92, 116] else if c = 10 then [92, 110] else if c = 13 then [92, 114]
    else [92, 120] ++ hexDigits c 2
  else if c < 0x7F then
    if c = 92 ∨ c = quote then [92, c] else [c]
  else [92, 120] ++ hexDigits c 2

def escBytesBody (quote : Nat) : List Nat → List Nat
  | [] => []
  | c :: t => escByte quote c ++ escBytesBody quote t

/-- `Bytes.M__repr__` (pure ASCII output) -/
def bytesRepr (b : Bytes) : List Nat :=
  let q := chooseQuote b
  [98, q] ++ escBytesBody q b ++ [q]

/-! ### parser/stringescape.go: DecodeEscape -/

def hexVal (c : Nat) : Option Nat :=
  if 48 ≤ c ∧ c ≤ 57 then some (c - 48)
  else if 97 ≤ c ∧ c ≤ 102 then some (c - 87)
  else if 65 ≤ c ∧ c ≤ 70 then some (c - 55)
  else none

def parseHexDigits : List Nat → Nat → Option Nat
  | [], acc => some acc
  | c :: t, acc => match hexVal c with
    | some d => parseHexDigits t (acc * 16 + d)
    | none => none

/-- `strconv.ParseUint(s, 16, 32)` on the BYTES of `s` (`string(runes[i:i+size])` is the UTF-8 text
of the runes): the empty string is a syntax error; every byte must be `0-9`, `a-f` or `A-F`
(`lower(c) = c | 0x20` maps only `A-Z` onto `a-z`, and a letter beyond `f` is a digit ≥ base) – no
sign, no underscore and no `0x` prefix because the base is given explicitly; a byte ≥ 0x80 (any part
of a non-ASCII rune) is not a digit.  A value above 2^32-1 is a range error: with the at most 8
digits `decodeHex` passes this cannot happen (16^8 - 1 = 2^32 - 1), it is modelled all the same.
`none` = `err != nil`. -/
def parseUint16 (s : List Nat) : Option Nat :=
  match s with
  | [] => none
  | _ :: _ =>
    match parseHexDigits s 0 with
    | some v => if v ≤ 4294967295 then some v else none
    | none => none

/-- `out.WriteRune(rune(cout))` / `out.WriteByte(byte(cout))`: `cout` is a `uint64` ≤ unicode.MaxRune
in `decodeHex` and a non-negative `rune` ≤ 0o777 in the octal case, so both conversions are exact
except `byte(cout)` = `cout mod 256`; `WriteRune` of a surrogate writes U+FFFD (`encodeRune`). -/
def writeCode (byteMode : Bool) (v : Nat) : Bytes :=
  if byteMode then [v % 256] else encodeRune v

def isOct (c : Nat) : Bool := 48 ≤ c ∧ c ≤ 55

/-- the main loop of `DecodeEscape` over `runes` (one step per loop iteration; fuel ≥ length) -/
def decodeAux (byteMode : Bool) : Nat → List Nat → Bytes → Except Err Bytes
  | _, [], out => .ok out
  | 0, _ :: _, _ => .error .syntax
  | f + 1, c :: rest, out =>
    if c ≠ 92 then decodeAux byteMode f rest (out ++ encodeRune c)
    else match rest with
      | [] => .error .value                       -- Trailing \ in string
      | e :: rest' =>
        let simple (r : Nat) := decodeAux byteMode f rest' (out ++ encodeRune r)
        let ignore := decodeAux byteMode f rest (out ++ [92])   -- i--; write '\\'; the character is re-read
        let hex (size : Nat) :=                                  -- decodeHex(what, i, size); i += size
          if size ≤ rest'.length then
            match parseUint16 (encodeAll (rest'.take size)) with
            | some v =>
              if v > 0x10FFFF then .error .value      -- illegal Unicode character (cout > unicode.MaxRune)
              else decodeAux byteMode f (rest'.drop size) (out ++ writeCode byteMode v)
            | none => .error .value                   -- invalid \x escape
          else .error .value                          -- truncated \x escape
        if e = 10 then decodeAux byteMode f rest' out
        else if e = 92 then simple 92
        else if e = 39 then simple 39
        else if e = 34 then simple 34
        else if e = 98 then simple 8
        else if e = 102 then simple 12
        else if e = 116 then simple 9
        else if e = 110 then simple 10
        else if e = 114 then simple 13
        else if e = 118 then simple 11
        else if e = 97 then simple 7
        else if isOct e then
          match rest' with
          | d1 :: r1 =>
            if isOct d1 then
              match r1 with
              | d2 :: r2 =>
                if isOct d2 then
                  decodeAux byteMode f r2 (out ++ writeCode byteMode (((e - 48) * 8 + (d1 - 48)) * 8 + (d2 - 48)))
                else decodeAux byteMode f r1 (out ++ writeCode byteMode ((e - 48) * 8 + (d1 - 48)))
              | [] => decodeAux byteMode f r1 (out ++ writeCode byteMode ((e - 48) * 8 + (d1 - 48)))
            else decodeAux byteMode f rest' (out ++ writeCode byteMode (e - 48))
          | [] => decodeAux byteMode f rest' (out ++ writeCode byteMode (e - 48))
        else if e = 120 then hex 2
        else if e = 117 then (if byteMode then ignore else hex 4)
        else if e = 85 then (if byteMode then ignore else hex 8)
        else ignore

/-- `DecodeEscape(in, byteMode)` -/
def decodeEscape (inBytes : Bytes) (byteMode : Bool) : Except Err Bytes :=
  if !inBytes.contains 92 then .ok inBytes
  else
    let rs := runes inBytes
    decodeAux byteMode (rs.length + 1) rs []

/-! ### parser/lexer.go: readString on one line (given as the runes `range x.line` yields) -/

inductive Lit where
  | str (b : Bytes)
  | bytes (b : Bytes)
deriving DecidableEq, Repr, Inhabited

inductive LexRes where
  | notString                       -- `return eof, nil`: some other matcher's turn
  | error                           -- SyntaxError (EOL while scanning, non-ASCII byte in a bytes literal, decode error)
  | multiline                       -- triple-quoted / continuation line: outside this model
  | ok (v : Lit) (rest : List Nat)
deriving DecidableEq, Repr, Inhabited

/-- the scanning loop for a single-quoted form: `none` = EOL before the closing quote,
`some (none)` = backslash-newline continuation (the literal goes on on the next line, raw or not:
not modelled) -/
def scan (q : Nat) : List Nat → Bool → List Nat → Option (Option (List Nat × List Nat))
  | [], _, _ => none
  | c :: t, true, buf => if c = 10 then some none else scan q t false (buf ++ [c])
  | c :: t, false, buf =>
    if c = q then some (some (buf, t))
    else if c = 10 then none
    else scan q t (c = 92) (buf ++ [c])

def isQuote (c : Nat) : Bool := c = 39 || c = 34

/-- prefix recognition of `readString`: (rawString, byteString, remaining line) -/
def stringPrefix (line : List Nat) : Option (Bool × Bool × List Nat) :=
  let isR (c : Nat) := c = 114 || c = 82
  let isB (c : Nat) := c = 98 || c = 66
  let isU (c : Nat) := c = 117 || c = 85
  match line with
  | [] => none
  | r0 :: t0 =>
    if isQuote r0 then some (false, false, line) else
    match t0 with
    | [] => none
    | r1 :: t1 =>
      if isR r0 && isQuote r1 then some (true, false, t0)
      else if isB r0 && isQuote r1 then some (false, true, t0)
      else if isU r0 && isQuote r1 then some (false, false, t0)
      else match t1 with
        | [] => none
        | r2 :: _ =>
          if ((isR r0 && isB r1) || (isB r0 && isR r1)) && isQuote r2 then some (true, true, t1) else none

/-- `readString` -/
def readString (line : List Nat) : LexRes :=
  match stringPrefix line with
  | none => .notString
  | some (raw, byteString, l) =>
    match l with
    | [] => .notString
    | q :: t =>
      if [q, q].isPrefixOf t then .multiline else
      match scan q t false [] with
      | none => .error
      | some none => .multiline
      | some (some (buf, rest)) =>
        let bufBytes := encodeAll buf
        -- "bytes can only contain ASCII literal characters." – before DecodeEscape, raw or not
        if byteString && bufBytes.any (fun b => decide (b ≥ 0x80)) then .error else
        let decoded := if raw then .ok bufBytes else decodeEscape bufBytes byteString
        match decoded with
        | .error _ => .error
        | .ok b => .ok (if byteString then .bytes b else .str b) rest

/-! ### builtin `ascii` (third round) -/

/-- one rune of `StringEscape(_, ascii=true)`: no quotes are added and nothing below U+007F is escaped
again – `builtin_ascii` applies it to the text `repr` produced -/
def asciiRune (c : Nat) : List Nat :=
  if c < 0x20 then
    if c = 9 then [92, 116] else if c = 10 then [92, 110] else if c = 13 then [92, 114]
    else [92, 120] ++ hexDigits c 2
  else if c < 0x7F then [c]
  else if c < 0x100 then [92, 120] ++ hexDigits c 2
  else if c < 0x10000 then [92, 117] ++ hexDigits c 4
  else [92, 85] ++ hexDigits c 8

def asciiRunes : List Nat → List Nat
  | [] => []
  | c :: t => asciiRune c ++ asciiRunes t

/-- `ascii(s)` for a str: `StringEscape(repr(s), true)` -/
def strAscii (isPrint : Nat → Bool) (cs : List Nat) : List Nat := asciiRunes (escapeRunes isPrint cs)

/-! ### the method table of `str` (third round) -/

/-- the keys `init()` of py/string.go puts into `StringType.Dict`: every other attribute name looked up on a
str (`py.GetAttrString`) that is not a slot (`__len__` …) is an AttributeError -/
def strMethods : List String :=
  ["endswith", "count", "find", "replace", "split", "startswith", "strip", "rstrip", "lstrip", "upper", "lower", "join"]

/-- `py.GetAttrString(String, name)` for a method name -/
def hasMethod (name : String) : Bool := strMethods.contains name

def lookupMethod (name : String) : Except Err Unit :=
  if hasMethod name then .ok () else .error .attr

/-- the methods of Python's `str` this property speaks about (index arithmetic on code points) -/
def propertyMethods : List String :=
  ["startswith", "endswith", "find", "rfind", "index", "rindex", "count", "replace", "split", "rsplit",
   "partition", "rpartition", "strip", "lstrip", "rstrip", "center", "ljust", "rjust", "zfill", "join"]


end GPy.C14
