/-
C14, second round: replace and split on encodings against the specification
(UTF-8 synchronisation from Sync.lean + the pure list facts of Generic.lean).
-/
import GPy.C14.Search
import GPy.C14.Generic
namespace GPy.C14
open Spec (Scalar)

theorem encodeAll_eq_iff (a b : List Nat) (ha : ∀ c ∈ a, Scalar c) (hb : ∀ c ∈ b, Scalar c) :
    encodeAll a = encodeAll b ↔ a = b :=
  ⟨encodeAll_inj' a b ha hb, fun h => by rw [h]⟩

/-- the model's `count` run on code points is the specification's count (non-empty needle) -/
theorem count_cp (s sub : List Nat) (hne : sub ≠ []) : count s sub = Spec.count s sub := by
  unfold count Spec.count
  have : sub.isEmpty = false := by cases sub <;> simp_all
  simp only [this, Bool.false_eq_true, if_false, countAux_eq]

/-- `strings.Replace` on encodings is `strings.Replace` on the code points (non-empty `old`) -/
theorem replace_encode (s old new : List Nat) (hs : ∀ c ∈ s, Scalar c) (hold : ∀ c ∈ old, Scalar c)
    (hnew : ∀ c ∈ new, Scalar c) (hne : old ≠ []) (n : Int) :
    replace (encodeAll s) (encodeAll old) (encodeAll new) n = encodeAll (replace s old new n) := by
  unfold replace
  have he : old.isEmpty = false := by cases old <;> simp_all
  simp only [encodeAll_eq_iff old new hold hnew, count_encode s old hs hold, count_cp s old hne, encodeAll_isEmpty, he,
    Bool.false_eq_true, if_false]
  by_cases h1 : old = new ∨ n = 0
  · simp only [h1, if_true]
  · simp only [h1, if_false]
    by_cases h2 : Spec.count s old = 0
    · simp only [h2, if_true]
    · simp only [h2, if_false]
      exact replaceAux_encode old new hne hold (s.length + 1) s hs _ _ (by omega) (by omega)

theorem strReplace_encode (s old new : List Nat) (hs : ∀ c ∈ s, Scalar c) (hold : ∀ c ∈ old, Scalar c)
    (hnew : ∀ c ∈ new, Scalar c) (cnt : Arg) :
    agrees (strReplace (encodeAll s) (encodeAll old) (encodeAll new) cnt) (Spec.strReplace s old new (argToSpec cnt)) := by
  unfold strReplace Spec.strReplace
  have harg : (∃ n, intArg cnt (-1) = .ok n ∧ Spec.ssizeArg (argToSpec cnt) (-1) = .ok n) ∨
      (∃ e e', intArg cnt (-1) = .error e ∧ Spec.ssizeArg (argToSpec cnt) (-1) = .error e' ∧ errAgrees e e') := by
    cases cnt with
    | absent => exact Or.inl ⟨-1, rfl, rfl⟩
    | none => exact Or.inr ⟨.type, .type, rfl, rfl, trivial⟩
    | int v =>
      by_cases h : v < IntMin ∨ v > IntMax
      · have h' : v < -(2 ^ 63) ∨ v ≥ 2 ^ 63 := by unfold IntMin IntMax at h; omega
        exact Or.inr ⟨.overflow, .overflow, if_pos h, if_pos h', trivial⟩
      · have h' : ¬ (v < -(2 ^ 63) ∨ v ≥ 2 ^ 63) := by unfold IntMin IntMax at h; omega
        exact Or.inl ⟨v, if_neg h, if_neg h'⟩
  rcases harg with ⟨n, h1, h2⟩ | ⟨e, e', h1, h2, h3⟩
  · rw [h1, h2]
    simp only [agrees, valAgrees]
    by_cases hne : old = []
    · -- empty `old`: insertion before every code point
      subst hne
      simp only [List.isEmpty_nil, if_true]
      have hcnt : count (encodeAll s) (encodeAll []) = s.length + 1 := by
        simp [count, encodeAll, runeCount, runes_encodeAll s hs]
      have hrc : runeCount (encodeAll s) = s.length := by simp [runeCount, runes_encodeAll s hs]
      unfold replace
      rw [hcnt, hrc]
      have hnil : encodeAll ([] : List Nat) = [] := rfl
      have hnn : ([] = encodeAll new) ↔ new = [] := by
        constructor
        · intro h; exact encodeAll_eq_nil new h.symm
        · intro h; rw [h]; rfl
      simp only [hnil, hnn, List.isEmpty_nil, if_true]
      by_cases hnew0 : new = []
      · subst hnew0; simp [interleave_nil]
      · by_cases hn0 : n = 0
        · subst hn0; simp [Spec.interleave]
        · have hcond : ¬ (new = [] ∨ n = 0) := by simp [hnew0, hn0]
          simp only [hcond, if_false, Nat.add_one_ne_zero]
          obtain hAB := fun k => replaceEmptyAux_encode new s hs ((encodeAll s).length + 1) k (by omega)
          by_cases hneg : n < 0
          · have hc : n < 0 ∨ ((s.length + 1 : Nat) : Int) < n := Or.inl hneg
            rw [if_pos hc, if_pos hneg, if_pos rfl]
            exact (hAB (s.length + 1)).2 rfl
          · by_cases hbig : ((s.length + 1 : Nat) : Int) < n
            · have hc : n < 0 ∨ ((s.length + 1 : Nat) : Int) < n := Or.inr hbig
              rw [if_pos hc, if_neg hneg, if_pos rfl]
              rw [interleave_ge new s n.toNat (by omega)]
              exact (hAB (s.length + 1)).2 rfl
            · have hc : ¬ (n < 0 ∨ ((s.length + 1 : Nat) : Int) < n) := by omega
              rw [if_neg hc, if_neg hneg]
              by_cases hk : n.toNat = s.length + 1
              · rw [if_pos hk]
                exact (hAB n.toNat).2 hk
              · rw [if_neg hk]
                exact (hAB n.toNat).1 (by omega)
    · have he : old.isEmpty = false := by cases old <;> simp_all
      simp only [he, Bool.false_eq_true, if_false]
      rw [replace_encode s old new hs hold hnew hne n, replace_generic s old new hne n]
  · rw [h1, h2]; exact h3

/-! ### split -/

theorem strSplit_encode (s : List Nat) (sep : Option (List Nat)) (hs : ∀ c ∈ s, Scalar c)
    (hsep : ∀ v, sep = some v → ∀ c ∈ v, Scalar c) (mx : Arg) (hlen : (s.length : Int) ≤ IntMax) :
    agrees (strSplit (encodeAll s) (sep.map encodeAll) mx) (Spec.strSplit s sep (argToSpec mx)) := by
  unfold strSplit Spec.strSplit
  have harg : (∃ n n', intArg mx (-2) = .ok n ∧ Spec.ssizeArg (argToSpec mx) (-1) = .ok n' ∧
        ((n < 0 ∧ n' < 0) ∨ (0 ≤ n ∧ n = n')) ∧ n ≤ IntMax) ∨
      (∃ e e', intArg mx (-2) = .error e ∧ Spec.ssizeArg (argToSpec mx) (-1) = .error e' ∧ errAgrees e e') := by
    cases mx with
    | absent => exact Or.inl ⟨-2, -1, rfl, rfl, Or.inl ⟨by omega, by omega⟩, by unfold IntMax; omega⟩
    | none => exact Or.inr ⟨.type, .type, rfl, rfl, trivial⟩
    | int v =>
      by_cases h : v < IntMin ∨ v > IntMax
      · have h' : v < -(2 ^ 63) ∨ v ≥ 2 ^ 63 := by unfold IntMin IntMax at h; omega
        exact Or.inr ⟨.overflow, .overflow, if_pos h, if_pos h', trivial⟩
      · have h' : ¬ (v < -(2 ^ 63) ∨ v ≥ 2 ^ 63) := by unfold IntMin IntMax at h; omega
        exact Or.inl ⟨v, v, if_neg h, if_neg h', by omega, by unfold IntMin IntMax at h; unfold IntMax; omega⟩
  rcases harg with ⟨n, n', h1, h2, hnn, hmax⟩ | ⟨e, e', h1, h2, h3⟩
  · rw [h1, h2]
    cases sep with
    | none =>
      -- whitespace splitting works on the runes of the string
      simp only [Option.map_none, agrees, valAgrees, fieldsN, runes_encodeAll s hs]
      rw [fieldsAux_eq_splitWs]
      rcases hnn with ⟨ha, hb⟩ | ⟨ha, hb⟩
      · simp [ha, hb]
      · subst hb
        have : ¬ n < 0 := by omega
        simp [this]
    | some v =>
      have hv := hsep v rfl
      simp only [Option.map_some, encodeAll_isEmpty]
      by_cases hve : v.isEmpty = true
      · simp [hve, agrees, errAgrees]
      · have hne : v ≠ [] := by intro h; subst h; simp at hve
        simp only [hve, Bool.false_eq_true, if_false, agrees, valAgrees]
        have key : ∀ cuts N : Nat, (s.length ≤ cuts ∧ s.length ≤ N) ∨ cuts = N →
            splitAux (encodeAll v) ((encodeAll s).length + 1) cuts [] (encodeAll s)
              = (Spec.splitOn v (s.length + 1) N s).map encodeAll := by
          intro cuts N hc
          have := splitAux_encode v hne hv (s.length + 1) s hs ((encodeAll s).length + 1) cuts [] (by omega) (by omega)
          simp only [encodeAll] at this
          rw [this, splitAux_eq_splitOn v s hne (s.length + 1) (s.length + 1) cuts (by omega) (by omega)]
          rcases hc with ⟨hc1, hc2⟩ | hc
          · rw [splitOn_limit v s hne (s.length + 1) cuts N (by omega) hc1 hc2]
          · rw [hc]
        have hbl := encodeAll_length_ge s
        unfold IntMax at hlen hmax
        unfold splitN
        rcases hnn with ⟨ha, hb⟩ | ⟨ha, hb⟩
        · have hc : ¬ (n ≥ 0 ∧ n < IntMax) := by omega
          simp only [hc, if_false, hb, if_true]
          simp only [show ((-1 : Int) = 0) = False from by simp, show ((-1 : Int) < 0) = True from by simp, if_true, if_false]
          exact key _ _ (Or.inl ⟨by omega, by omega⟩)
        · subst hb
          have hnneg : ¬ n < 0 := by omega
          simp only [hnneg, if_false]
          by_cases hmx : n < IntMax
          · have hc : n ≥ 0 ∧ n < IntMax := ⟨ha, hmx⟩
            simp only [hc, and_self, if_true]
            have h0 : ¬ (n + 1 = 0) := by omega
            have h0' : ¬ (n + 1 < 0) := by omega
            simp only [h0, h0', if_false]
            exact key _ _ (Or.inr (by omega))
          · have hc : ¬ (n ≥ 0 ∧ n < IntMax) := by omega
            simp only [hc, if_false]
            simp only [show ((-1 : Int) = 0) = False from by simp, show ((-1 : Int) < 0) = True from by simp, if_true, if_false]
            unfold IntMax at hmx
            exact key _ _ (Or.inl ⟨by omega, by omega⟩)
  · rw [h1, h2]; exact h3

end GPy.C14
