/-
C14 helper lemmas: UTF-8 encode/decode round trip, rune iteration, hex digits,
the scanning loop of the lexer and the decoding loop of DecodeEscape on the output of
StringEscape.
-/
import GPy.C14.Model
import GPy.C14.Spec
namespace GPy.C14
open Spec (Scalar)

/-! ### when a model result agrees with a specification result -/

def argToSpec : Arg → Spec.Arg
  | .absent => .absent | .none => .none | .int v => .int v

def errAgrees : Err → Spec.Err → Prop
  | .type, .type | .value, .value | .overflow, .overflow | .attr, .attr | .syntax, .syntax | .index, .index => True
  | _, _ => False

/-- the model value is the UTF-8 image of the specification value -/
def valAgrees : Val → Spec.Val → Prop
  | .str b, .str cs => b = encodeAll cs
  | .int a, .int b => a = b
  | .bool a, .bool b => a = b
  | .list xs, .list ys => xs = ys.map encodeAll
  | _, _ => False

def agrees : Res → Spec.Res → Prop
  | .ok v, .ok w => valAgrees v w
  | .err e, .error e' => errAgrees e e'
  | _, _ => False

/-! ### utf8: decode ∘ encode -/

theorem dec2 (c : Nat) (h1 : 0x80 ≤ c) (h2 : c < 0x800) (rest : Bytes) :
    decodeRune ((0xC0 + c / 64) :: (0x80 + c % 64) :: rest) = (c, 2) := by
  unfold decodeRune
  dsimp only
  repeat' split
  all_goals first | omega | (refine Prod.ext ?_ ?_ <;> first | rfl | (dsimp only; omega))

theorem dec3 (c : Nat) (h1 : 0x800 ≤ c) (h2 : c < 0x10000) (h3 : ¬ (0xD800 ≤ c ∧ c < 0xE000)) (rest : Bytes) :
    decodeRune ((0xE0 + c / 4096) :: (0x80 + c / 64 % 64) :: (0x80 + c % 64) :: rest) = (c, 3) := by
  unfold decodeRune
  dsimp only
  repeat' split
  all_goals first | omega | (refine Prod.ext ?_ ?_ <;> first | rfl | (dsimp only; omega))

theorem dec4 (c : Nat) (h4 : 0x10000 ≤ c) (h5 : c < 0x110000) (rest : Bytes) :
    decodeRune ((0xF0 + c / 262144) :: (0x80 + c / 4096 % 64) :: (0x80 + c / 64 % 64) :: (0x80 + c % 64) :: rest) = (c, 4) := by
  unfold decodeRune
  dsimp only
  repeat' split
  all_goals first | omega | (refine Prod.ext ?_ ?_ <;> first | rfl | (dsimp only; omega))

/-- `utf8.DecodeRuneInString(string(c) + rest) = (c, len(string(c)))` for every scalar value -/
theorem decodeRune_encodeRune (c : Nat) (h : Scalar c) (rest : Bytes) :
    decodeRune (encodeRune c ++ rest) = (c, (encodeRune c).length) := by
  unfold Scalar at h
  unfold encodeRune
  by_cases h1 : c < 0x80
  · simp [h1, decodeRune]
  · by_cases h2 : c < 0x800
    · simp only [h1, h2, if_true, if_false, List.cons_append, List.nil_append]
      exact dec2 c (by omega) h2 rest
    · have h3 : ¬ ((0xD800 ≤ c ∧ c < 0xE000) ∨ c > 0x10FFFF) := by omega
      by_cases h4 : c < 0x10000
      · simp only [h1, h2, h3, h4, if_true, if_false, List.cons_append, List.nil_append]
        exact dec3 c (by omega) h4 (by omega) rest
      · simp only [h1, h2, h3, h4, if_false, List.cons_append, List.nil_append]
        exact dec4 c (by omega) (by omega) rest

theorem encodeRune_length_pos (c : Nat) : 0 < (encodeRune c).length := by
  unfold encodeRune; repeat' split
  all_goals simp

theorem encodeRune_ne_nil (c : Nat) : encodeRune c ≠ [] := by
  intro h; have := encodeRune_length_pos c; rw [h] at this; simp at this

theorem runesAux_succ (f : Nat) (s : Bytes) (h : s ≠ []) :
    runesAux (f + 1) s = (decodeRune s).1 :: runesAux f (s.drop (decodeRune s).2) := by
  cases s with
  | nil => exact absurd rfl h
  | cons b t => rfl

theorem encodeAll_append (a b : List Nat) : encodeAll (a ++ b) = encodeAll a ++ encodeAll b := by
  induction a with
  | nil => rfl
  | cons c t ih => simp [encodeAll, ih]

theorem runesAux_encodeAll (cs : List Nat) (h : ∀ c ∈ cs, Scalar c) :
    ∀ f, (encodeAll cs).length ≤ f → runesAux f (encodeAll cs) = cs := by
  induction cs with
  | nil => intro f _; cases f <;> rfl
  | cons c t ih =>
    intro f hf
    have hc : Scalar c := h c (by simp)
    have ht : ∀ x ∈ t, Scalar x := fun x hx => h x (by simp [hx])
    simp only [encodeAll, List.length_append] at hf ⊢
    have hp := encodeRune_length_pos c
    cases f with
    | zero => omega
    | succ f =>
      rw [runesAux_succ _ _ (by simp [encodeRune_ne_nil]), decodeRune_encodeRune c hc]
      simp only [List.drop_left]
      rw [ih ht f (by omega)]

/-- `[]rune(string(cs)) = cs`: iterating a string yields exactly its code points -/
theorem runes_encodeAll (cs : List Nat) (h : ∀ c ∈ cs, Scalar c) : runes (encodeAll cs) = cs :=
  runesAux_encodeAll cs h _ (Nat.le_refl _)

/-! ### hex digits -/

theorem hexChar_range (d : Nat) (h : d < 16) : (48 ≤ hexChar d ∧ hexChar d ≤ 57) ∨ (97 ≤ hexChar d ∧ hexChar d ≤ 102) := by
  unfold hexChar; split <;> omega

theorem hexVal_hexChar (d : Nat) (h : d < 16) : hexVal (hexChar d) = some d := by
  unfold hexVal hexChar
  by_cases h1 : d < 10
  · simp [h1]; omega
  · simp [h1]
    have : ¬ (87 + d ≤ 57) := by omega
    simp [this]; omega

theorem hexDigits_length (n k : Nat) : (hexDigits n k).length = k := by
  induction k generalizing n with
  | zero => rfl
  | succ k ih => simp [hexDigits, ih]

/-- every character `%0kx` writes is a hex digit: not a quote, newline or backslash -/
theorem hexDigits_mem (n k : Nat) : ∀ x ∈ hexDigits n k, (48 ≤ x ∧ x ≤ 57) ∨ (97 ≤ x ∧ x ≤ 102) := by
  induction k generalizing n with
  | zero => intro x hx; simp [hexDigits] at hx
  | succ k ih =>
    intro x hx
    simp only [hexDigits, List.mem_append, List.mem_singleton] at hx
    rcases hx with hx | hx
    · exact ih _ x hx
    · subst hx; exact hexChar_range _ (Nat.mod_lt _ (by decide))

theorem parseHexDigits_append (a b : List Nat) (acc : Nat) :
    parseHexDigits (a ++ b) acc = (parseHexDigits a acc).bind (parseHexDigits b) := by
  induction a generalizing acc with
  | nil => rfl
  | cons c t ih =>
    simp only [List.cons_append, parseHexDigits]
    cases hexVal c with
    | none => rfl
    | some d => exact ih _

theorem parseHexDigits_hexDigits (n k acc : Nat) :
    parseHexDigits (hexDigits n k) acc = some (acc * 16 ^ k + n % 16 ^ k) := by
  induction k generalizing n acc with
  | zero => simp [hexDigits, parseHexDigits, Nat.mod_one]
  | succ k ih =>
    simp only [hexDigits, parseHexDigits_append, ih, Option.bind_some, parseHexDigits,
      hexVal_hexChar _ (Nat.mod_lt n (by decide : 0 < 16))]
    congr 1
    have h1 : n % 16 ^ (k + 1) = n % 16 + 16 * (n / 16 % 16 ^ k) := by
      rw [Nat.pow_succ, Nat.mul_comm, Nat.mod_mul]
    rw [h1, Nat.pow_succ]
    generalize 16 ^ k = p
    generalize n / 16 % p = r
    rw [Nat.add_mul, Nat.mul_assoc]
    omega

/-! ### the lexer's scanning loop on escaped text -/

theorem encodeRune_ascii (c : Nat) (h : c < 0x80) : encodeRune c = [c] := by simp [encodeRune, h]

theorem encodeAll_ascii (cs : List Nat) (h : ∀ c ∈ cs, c < 0x80) : encodeAll cs = cs := by
  induction cs with
  | nil => rfl
  | cons c t ih =>
    simp only [encodeAll, encodeRune_ascii c (h c (by simp)), ih (fun y hy => h y (by simp [hy]))]; rfl

/-- the text of `%0kx` is ASCII: the string `decodeHex` hands to ParseUint is the digits themselves -/
theorem encodeAll_hexDigits (n k : Nat) : encodeAll (hexDigits n k) = hexDigits n k :=
  encodeAll_ascii _ (fun x hx => by have := hexDigits_mem n k x hx; omega)

theorem parseUint16_hexDigits (n k : Nat) (hk : 0 < k) (hn : n < 16 ^ k) (h32 : n ≤ 4294967295) :
    parseUint16 (encodeAll (hexDigits n k)) = some n := by
  have hp := parseHexDigits_hexDigits n k 0
  rw [Nat.mod_eq_of_lt hn] at hp
  simp only [Nat.zero_mul, Nat.zero_add] at hp
  rw [encodeAll_hexDigits]
  have hlen := hexDigits_length n k
  generalize hexDigits n k = ds at hp hlen
  cases ds with
  | nil => simp at hlen; omega
  | cons x t => simp [parseUint16, hp, h32]

/-- the lexer's scanning loop passes over hex digits unchanged -/
theorem scan_plain (q : Nat) (xs : List Nat)
    (hx : ∀ x ∈ xs, x ≠ q ∧ x ≠ 10 ∧ x ≠ 92) (tail buf : List Nat) :
    scan q (xs ++ tail) false buf = scan q tail false (buf ++ xs) := by
  induction xs generalizing buf with
  | nil => simp
  | cons x t ih =>
    have h := hx x (by simp)
    simp only [List.cons_append, scan, h.1, h.2.1, h.2.2, if_false, decide_false]
    rw [ih (fun y hy => hx y (by simp [hy]))]
    simp

theorem scan_esc2 (q : Nat) (hq : q = 39 ∨ q = 34) (x : Nat) (hx : x ≠ 10) (tail buf : List Nat) :
    scan q (92 :: x :: tail) false buf = scan q tail false (buf ++ [92, x]) := by
  have h1 : (92 : Nat) ≠ q := by omega
  simp [scan, hx]
  intro h; omega


theorem escRune_scan (isPrint : Nat → Bool) (q : Nat) (hq : q = 39 ∨ q = 34) (c : Nat) (tail buf : List Nat) :
    scan q (escRune isPrint q c ++ tail) false buf = scan q tail false (buf ++ escRune isPrint q c) := by
  have hexok : ∀ n k, ∀ x ∈ hexDigits n k, x ≠ q ∧ x ≠ 10 ∧ x ≠ 92 := by
    intro n k x hx; have := hexDigits_mem n k x hx; omega
  have hexcase : ∀ (e : Nat) (he : e ≠ 10) n k,
      scan q (([92, e] ++ hexDigits n k) ++ tail) false buf = scan q tail false (buf ++ ([92, e] ++ hexDigits n k)) := by
    intro e he n k
    simp only [List.cons_append, List.nil_append]
    rw [scan_esc2 q hq e he, scan_plain q _ (hexok n k)]
    simp
  unfold escRune
  repeat' split
  all_goals first
    | exact hexcase _ (by decide) _ _
    | (simp only [List.cons_append, List.nil_append]; rw [scan_esc2 q hq _ (by omega)])
    | (rw [scan_plain q [c] (by intro x hx; simp at hx; subst hx; omega)])

theorem escBody_scan (isPrint : Nat → Bool) (q : Nat) (hq : q = 39 ∨ q = 34) (cs : List Nat) (tail buf : List Nat) :
    scan q (escBody isPrint q cs ++ tail) false buf = scan q tail false (buf ++ escBody isPrint q cs) := by
  induction cs generalizing buf with
  | nil => simp [escBody]
  | cons c t ih =>
    simp only [escBody, List.append_assoc]
    rw [escRune_scan isPrint q hq, ih]
    simp


/-! ### DecodeEscape on escaped text -/

theorem decodeAux_plain (bm : Bool) (f c : Nat) (h : c ≠ 92) (rest out : List Nat) :
    decodeAux bm (f + 1) (c :: rest) out = decodeAux bm f rest (out ++ encodeRune c) := by
  rw [decodeAux.eq_def]; simp [h]

theorem decodeAux_simple (bm : Bool) (f e r : Nat) (rest out : List Nat)
    (h : (e = 92 ∧ r = 92) ∨ (e = 39 ∧ r = 39) ∨ (e = 34 ∧ r = 34) ∨ (e = 116 ∧ r = 9) ∨ (e = 110 ∧ r = 10) ∨ (e = 114 ∧ r = 13)) :
    decodeAux bm (f + 1) (92 :: e :: rest) out = decodeAux bm f rest (out ++ encodeRune r) := by
  rw [decodeAux.eq_def]
  rcases h with h | h | h | h | h | h <;> (obtain ⟨h1, h2⟩ := h; subst h1; subst h2; simp)

theorem decodeAux_hex (bm : Bool) (f e k : Nat) (h : (e = 120 ∧ k = 2) ∨ (bm = false ∧ e = 117 ∧ k = 4) ∨ (bm = false ∧ e = 85 ∧ k = 8))
    (ds rest out : List Nat) (hl : ds.length = k) (v : Nat) (hv : parseUint16 (encodeAll ds) = some v) (hmax : v ≤ 0x10FFFF) :
    decodeAux bm (f + 1) (92 :: e :: (ds ++ rest)) out = decodeAux bm f rest (out ++ writeCode bm v) := by
  rw [decodeAux.eq_def]
  have htake : (ds ++ rest).take k = ds := by rw [← hl]; simp
  have hdrop : (ds ++ rest).drop k = rest := by rw [← hl]; simp
  have hmax' : ¬ (v > 0x10FFFF) := by omega
  rcases h with h | h | h
  · obtain ⟨h1, h2⟩ := h; subst h1; subst h2
    simp [isOct, htake, hdrop, hv, hmax']
    intro h; omega
  · obtain ⟨h0, h1, h2⟩ := h; subst h0; subst h1; subst h2
    simp [isOct, htake, hdrop, hv, hmax']
    intro h; omega
  · obtain ⟨h0, h1, h2⟩ := h; subst h0; subst h1; subst h2
    simp [isOct, htake, hdrop, hv, hmax']
    intro h; omega

theorem writeCode_nat (c : Nat) : writeCode false c = encodeRune c := by
  simp [writeCode]

attribute [local irreducible] decodeAux in
/-- one character of the escaped text is decoded back to that character (one loop iteration) -/
theorem escRune_decode (isPrint : Nat → Bool) (q : Nat) (hq : q = 39 ∨ q = 34) (c : Nat) (hc : c < 0x110000)
    (f : Nat) (tail out : List Nat) :
    decodeAux false (f + 1) (escRune isPrint q c ++ tail) out = decodeAux false f tail (out ++ encodeRune c) := by
  have hexcase : ∀ (e k : Nat), ((e = 120 ∧ k = 2) ∨ (false = false ∧ e = 117 ∧ k = 4) ∨ (false = false ∧ e = 85 ∧ k = 8)) →
      c < 16 ^ k → 0 < k →
      decodeAux false (f + 1) (([92, e] ++ hexDigits c k) ++ tail) out = decodeAux false f tail (out ++ encodeRune c) := by
    intro e k he hk hk0
    simp only [List.cons_append, List.nil_append]
    rw [decodeAux_hex false f e k he _ _ _ (hexDigits_length c k) c (parseUint16_hexDigits c k hk0 hk (by omega)) (by omega), writeCode_nat]
  unfold escRune
  repeat' split
  all_goals first
    | exact hexcase 120 2 (by simp) (by omega) (by omega)
    | exact hexcase 117 4 (by simp) (by omega) (by omega)
    | exact hexcase 85 8 (by simp) (by omega) (by omega)
    | (simp only [List.cons_append, List.nil_append]; exact decodeAux_simple false f _ c _ _ (by omega))
    | (simp only [List.cons_append, List.nil_append]; exact decodeAux_plain false f c (by omega) _ _)

theorem escBody_decode (isPrint : Nat → Bool) (q : Nat) (hq : q = 39 ∨ q = 34) (cs : List Nat) (hc : ∀ c ∈ cs, c < 0x110000)
    (f : Nat) (tail out : List Nat) :
    decodeAux false (f + cs.length) (escBody isPrint q cs ++ tail) out = decodeAux false f tail (out ++ encodeAll cs) := by
  induction cs generalizing out with
  | nil => simp [escBody, encodeAll]
  | cons c t ih =>
    simp only [escBody, List.append_assoc, List.length_cons, encodeAll]
    rw [← Nat.add_assoc, escRune_decode isPrint q hq c (hc c (by simp)), ih (fun x hx => hc x (by simp [hx]))]
    simp


/-! ### facts about the escaped text -/

theorem chooseQuote_cases (cs : List Nat) : chooseQuote cs = 39 ∨ chooseQuote cs = 34 := by
  unfold chooseQuote; split <;> simp

theorem scalar_of_lt (x : Nat) (h : x < 0xD800) : Scalar x := Or.inl h

theorem escRune_scalar (isPrint : Nat → Bool) (q c : Nat) (hc : Scalar c) : ∀ x ∈ escRune isPrint q c, Scalar x := by
  have hex : ∀ n k, ∀ x ∈ hexDigits n k, Scalar x := by
    intro n k x hx; have := hexDigits_mem n k x hx; exact scalar_of_lt x (by omega)
  intro x hx
  unfold escRune at hx
  repeat' split at hx
  all_goals
    simp only [List.mem_append, List.mem_cons, List.mem_nil_iff, or_false] at hx
    first
      | (rcases hx with (hx | hx) | hx <;> first | exact hex _ _ x hx | (subst hx; exact scalar_of_lt _ (by omega)))
      | (rcases hx with hx | hx <;> (subst hx; first | exact hc | exact scalar_of_lt _ (by omega)))
      | (subst hx; exact hc)

theorem escBody_scalar (isPrint : Nat → Bool) (q : Nat) (cs : List Nat) (hc : ∀ c ∈ cs, Scalar c) :
    ∀ x ∈ escBody isPrint q cs, Scalar x := by
  induction cs with
  | nil => intro x hx; simp [escBody] at hx
  | cons c t ih =>
    intro x hx
    simp only [escBody, List.mem_append] at hx
    rcases hx with hx | hx
    · exact escRune_scalar isPrint q c (hc c (by simp)) x hx
    · exact ih (fun y hy => hc y (by simp [hy])) x hx

/-- an escaped character either contains a backslash or is the character itself -/
theorem escRune_no92 (isPrint : Nat → Bool) (q c : Nat) (h : 92 ∉ escRune isPrint q c) : escRune isPrint q c = [c] := by
  unfold escRune at h ⊢
  repeat' split
  all_goals first | rfl | (exfalso; simp_all)

theorem escBody_no92 (isPrint : Nat → Bool) (q : Nat) (cs : List Nat) (h : 92 ∉ escBody isPrint q cs) : escBody isPrint q cs = cs := by
  induction cs with
  | nil => rfl
  | cons c t ih =>
    simp only [escBody, List.mem_append, not_or] at h ⊢
    rw [escRune_no92 isPrint q c h.1, ih h.2]; rfl

theorem mem92_encodeAll (body : List Nat) (h : 92 ∈ body) : 92 ∈ encodeAll body := by
  induction body with
  | nil => simp at h
  | cons x t ih =>
    simp only [encodeAll, List.mem_append]
    rcases List.mem_cons.mp h with h | h
    · left; rw [← h]; simp [encodeRune]
    · right; exact ih h

/-- the first character of a non-empty escaped body is never the quote (so `'''` cannot arise) -/
theorem escRune_head (isPrint : Nat → Bool) (q c : Nat) (hq : q = 39 ∨ q = 34) :
    ∃ x t, escRune isPrint q c = x :: t ∧ x ≠ q := by
  unfold escRune
  repeat' split
  all_goals first
    | exact ⟨92, _, rfl, by omega⟩
    | exact ⟨c, _, rfl, by omega⟩


/-! ### the round trip for str -/

theorem scalar_lt (c : Nat) (h : Scalar c) : c < 0x110000 := by unfold Scalar at h; omega

/-- `DecodeEscape` undoes the body `StringEscape` writes -/
theorem decodeEscape_escBody (isPrint : Nat → Bool) (q : Nat) (hq : q = 39 ∨ q = 34) (cs : List Nat) (hs : ∀ c ∈ cs, Scalar c) :
    decodeEscape (encodeAll (escBody isPrint q cs)) false = .ok (encodeAll cs) := by
  unfold decodeEscape
  by_cases h : (encodeAll (escBody isPrint q cs)).contains 92 = true
  · simp only [h, Bool.not_true, Bool.false_eq_true, if_false]
    rw [runes_encodeAll _ (escBody_scalar isPrint q cs hs)]
    have hfuel : (escBody isPrint q cs).length + 1 = ((escBody isPrint q cs).length + 1 - cs.length) + cs.length := by
      have : cs.length ≤ (escBody isPrint q cs).length := by
        clear h
        induction cs with
        | nil => simp
        | cons c t ih =>
          simp only [escBody, List.length_append, List.length_cons]
          obtain ⟨x, tl, he, _⟩ := escRune_head isPrint q c hq
          have := ih (fun y hy => hs y (by simp [hy]))
          rw [he]; simp; omega
      omega
    have := escBody_decode isPrint q hq cs (fun c hc => scalar_lt c (hs c hc)) ((escBody isPrint q cs).length + 1 - cs.length) [] []
    rw [List.append_nil, ← hfuel] at this
    rw [this]; simp [decodeAux]
  · have h' : (encodeAll (escBody isPrint q cs)).contains 92 = false := by simpa using h
    simp only [h', Bool.not_false, if_true]
    have : 92 ∉ escBody isPrint q cs := by
      intro hm; have := mem92_encodeAll _ hm
      simp at h'; exact h' this
    rw [escBody_no92 isPrint q cs this]

theorem isQuote_chooseQuote (cs : List Nat) : isQuote (chooseQuote cs) = true := by
  rcases chooseQuote_cases cs with h | h <;> simp [h, isQuote]

/-- reading back the literal `StringEscape` writes, followed by any text that does not start with a quote -/
theorem readString_escapeRunes (isPrint : Nat → Bool) (cs : List Nat) (hs : ∀ c ∈ cs, Scalar c) (rest : List Nat)
    (hr : ∀ r, rest.head? = some r → isQuote r = false) :
    readString (escapeRunes isPrint cs ++ rest) = .ok (.str (encodeAll cs)) rest := by
  have hq := chooseQuote_cases cs
  generalize hqd : chooseQuote cs = q at hq
  have hiq : isQuote q = true := by rw [← hqd]; exact isQuote_chooseQuote cs
  unfold escapeRunes
  simp only [hqd, List.cons_append, List.nil_append, List.append_assoc]
  unfold readString stringPrefix
  simp only [hiq, if_true]
  -- no triple quote
  have htriple : [q, q].isPrefixOf (escBody isPrint q cs ++ (q :: rest)) = false := by
    cases cs with
    | nil =>
      simp only [escBody, List.nil_append]
      cases rest with
      | nil => simp [List.isPrefixOf]
      | cons r t =>
        have := hr r rfl
        have hne : q ≠ r := by intro h; subst h; rw [hiq] at this; cases this
        simp [List.isPrefixOf, hne]
    | cons c t =>
      obtain ⟨x, tl, he, hx⟩ := escRune_head isPrint q c hq
      simp only [escBody, he, List.cons_append]
      simp [List.isPrefixOf, Ne.symm hx]
  simp only [htriple, Bool.false_eq_true, if_false]
  have hscan := escBody_scan isPrint q hq cs (q :: rest) []
  rw [hscan]
  simp only [scan, if_true, List.nil_append]
  simp only [Bool.false_and, Bool.false_eq_true, if_false, decodeEscape_escBody isPrint q hq cs hs]


/-! ### the round trip for bytes -/

theorem escByte_eq (q c : Nat) (hc : c < 256) : escByte q c = escRune (fun _ => false) q c := by
  unfold escByte escRune
  repeat' split
  all_goals first | rfl | omega | (exfalso; simp_all)

theorem escBytesBody_eq (q : Nat) (b : List Nat) (hb : ∀ c ∈ b, c < 256) : escBytesBody q b = escBody (fun _ => false) q b := by
  induction b with
  | nil => rfl
  | cons c t ih =>
    simp only [escBytesBody, escBody, escByte_eq q c (hb c (by simp)), ih (fun y hy => hb y (by simp [hy]))]

/-- everything `Bytes.M__repr__` writes is ASCII -/
theorem escRune_ascii (q c : Nat) (_hq : q = 39 ∨ q = 34) (hc : c < 256) : ∀ x ∈ escRune (fun _ => false) q c, x < 0x80 := by
  have hex : ∀ n k, ∀ x ∈ hexDigits n k, x < 0x80 := by
    intro n k x hx; have := hexDigits_mem n k x hx; omega
  intro x hx
  unfold escRune at hx
  repeat' split at hx
  all_goals
    simp only [List.mem_append, List.mem_cons, List.mem_nil_iff, or_false] at hx
    first
      | (rcases hx with (hx | hx) | hx <;> first | exact hex _ _ x hx | (subst hx; omega))
      | (rcases hx with hx | hx <;> (subst hx; omega))
      | (subst hx; omega)
      | (exfalso; simp_all)
      | omega

theorem escBody_ascii (q : Nat) (hq : q = 39 ∨ q = 34) (b : List Nat) (hb : ∀ c ∈ b, c < 256) :
    ∀ x ∈ escBody (fun _ => false) q b, x < 0x80 := by
  induction b with
  | nil => intro x hx; simp [escBody] at hx
  | cons c t ih =>
    intro x hx
    simp only [escBody, List.mem_append] at hx
    rcases hx with hx | hx
    · exact escRune_ascii q c hq (hb c (by simp)) x hx
    · exact ih (fun y hy => hb y (by simp [hy])) x hx

theorem writeCode_byte (c : Nat) (h : c < 256) : writeCode true c = [c] := by
  simp [writeCode, Nat.mod_eq_of_lt h]

attribute [local irreducible] decodeAux in
theorem escRune_decode_bytes (q : Nat) (hq : q = 39 ∨ q = 34) (c : Nat) (hc : c < 256)
    (f : Nat) (tail out : List Nat) :
    decodeAux true (f + 1) (escRune (fun _ => false) q c ++ tail) out = decodeAux true f tail (out ++ [c]) := by
  have hexcase :
      decodeAux true (f + 1) (([92, 120] ++ hexDigits c 2) ++ tail) out = decodeAux true f tail (out ++ [c]) := by
    simp only [List.cons_append, List.nil_append]
    rw [decodeAux_hex true f 120 2 (by simp) _ _ _ (hexDigits_length c 2) c (parseUint16_hexDigits c 2 (by omega) (by omega) (by omega)) (by omega),
      writeCode_byte c hc]
  unfold escRune
  repeat' split
  all_goals first
    | exact hexcase
    | (simp only [List.cons_append, List.nil_append]; rw [decodeAux_simple true f _ c _ _ (by omega), encodeRune_ascii c (by omega)])
    | (simp only [List.cons_append, List.nil_append]; rw [decodeAux_plain true f c (by omega) _ _, encodeRune_ascii c (by omega)])
    | (exfalso; simp_all; done)
    | omega

theorem escBody_decode_bytes (q : Nat) (hq : q = 39 ∨ q = 34) (b : List Nat) (hb : ∀ c ∈ b, c < 256)
    (f : Nat) (tail out : List Nat) :
    decodeAux true (f + b.length) (escBody (fun _ => false) q b ++ tail) out = decodeAux true f tail (out ++ b) := by
  induction b generalizing out with
  | nil => simp [escBody]
  | cons c t ih =>
    simp only [escBody, List.append_assoc, List.length_cons]
    rw [← Nat.add_assoc, escRune_decode_bytes q hq c (hb c (by simp)), ih (fun x hx => hb x (by simp [hx]))]
    simp



theorem escBody_length_ge (isPrint : Nat → Bool) (q : Nat) (hq : q = 39 ∨ q = 34) (cs : List Nat) :
    cs.length ≤ (escBody isPrint q cs).length := by
  induction cs with
  | nil => simp
  | cons c t ih =>
    simp only [escBody, List.length_append, List.length_cons]
    obtain ⟨x, tl, he, _⟩ := escRune_head isPrint q c hq
    rw [he]; simp; omega

theorem decodeEscape_escBytes (q : Nat) (hq : q = 39 ∨ q = 34) (b : List Nat) (hb : ∀ c ∈ b, c < 256) :
    decodeEscape (encodeAll (escBytesBody q b)) true = .ok b := by
  rw [escBytesBody_eq q b hb]
  have hascii := escBody_ascii q hq b hb
  have henc : encodeAll (escBody (fun _ => false) q b) = escBody (fun _ => false) q b := encodeAll_ascii _ hascii
  unfold decodeEscape
  by_cases h : (encodeAll (escBody (fun _ => false) q b)).contains 92 = true
  · simp only [h, Bool.not_true, Bool.false_eq_true, if_false]
    rw [runes_encodeAll _ (fun x hx => scalar_of_lt x (by have := hascii x hx; omega))]
    have hge := escBody_length_ge (fun _ => false) q hq b
    have hfuel : (escBody (fun _ => false) q b).length + 1 = ((escBody (fun _ => false) q b).length + 1 - b.length) + b.length := by omega
    have := escBody_decode_bytes q hq b hb ((escBody (fun _ => false) q b).length + 1 - b.length) [] []
    rw [List.append_nil, ← hfuel] at this
    rw [this]; simp [decodeAux]
  · have h' : (encodeAll (escBody (fun _ => false) q b)).contains 92 = false := by simpa using h
    simp only [h', Bool.not_false, if_true]
    have : 92 ∉ escBody (fun _ => false) q b := by
      intro hm; have := mem92_encodeAll _ hm
      simp at h'; exact h' this
    rw [henc, escBody_no92 _ q b this]

theorem any_ge128_false (l : List Nat) (h : ∀ x ∈ l, x < 0x80) : l.any (fun x => decide (x ≥ 0x80)) = false := by
  rw [List.any_eq_false]
  intro x hx
  have := h x hx
  simp only [decide_eq_true_eq]; omega

/-- reading back the literal `Bytes.M__repr__` writes -/
theorem readString_bytesRepr (b : List Nat) (hb : ∀ c ∈ b, c < 256) (rest : List Nat)
    (hr : ∀ r, rest.head? = some r → isQuote r = false) :
    readString (bytesRepr b ++ rest) = .ok (.bytes b) rest := by
  have hq := chooseQuote_cases b
  generalize hqd : chooseQuote b = q at hq
  have hiq : isQuote q = true := by rw [← hqd]; exact isQuote_chooseQuote b
  unfold bytesRepr
  simp only [hqd, List.cons_append, List.nil_append, List.append_assoc]
  unfold readString stringPrefix
  have h98 : isQuote 98 = false := by decide
  simp only [h98, hiq, Bool.false_eq_true, if_false]
  simp only [show ((98 : Nat) = 114) = False from by simp, show ((98 : Nat) = 82) = False from by simp, decide_false, Bool.false_and,
    Bool.false_eq_true, if_false, decide_true, Bool.true_or, Bool.true_and, if_true, Bool.or_self]
  have htriple : [q, q].isPrefixOf (escBytesBody q b ++ (q :: rest)) = false := by
    rw [escBytesBody_eq q b hb]
    cases b with
    | nil =>
      simp only [escBody, List.nil_append]
      cases rest with
      | nil => simp [List.isPrefixOf]
      | cons r t =>
        have := hr r rfl
        have hne : q ≠ r := by intro h; subst h; rw [hiq] at this; cases this
        simp [List.isPrefixOf, hne]
    | cons c t =>
      obtain ⟨x, tl, he, hx⟩ := escRune_head (fun _ => false) q c hq
      simp only [escBody, he, List.cons_append]
      simp [List.isPrefixOf, Ne.symm hx]
  simp only [htriple, Bool.false_eq_true, if_false]
  have hscan := escBody_scan (fun _ => false) q hq b (q :: rest) []
  rw [← escBytesBody_eq q b hb] at hscan
  rw [hscan]
  simp only [scan, if_true, List.nil_append]
  -- the ASCII check of a bytes literal passes: everything `Bytes.M__repr__` writes is ASCII
  have hascii : (encodeAll (escBytesBody q b)).any (fun x => decide (x ≥ 0x80)) = false := by
    rw [escBytesBody_eq q b hb, encodeAll_ascii _ (escBody_ascii q hq b hb)]
    exact any_ge128_false _ (escBody_ascii q hq b hb)
  simp only [hascii, Bool.false_eq_true, if_false, decodeEscape_escBytes q hq b hb]


/-! ### join, repetition, strip, prefix code -/

theorem join_encode (sep : List Nat) (parts : List (List Nat)) :
    join (encodeAll sep) (parts.map encodeAll) = encodeAll (Spec.joinStr sep parts) := by
  induction parts with
  | nil => rfl
  | cons x t ih =>
    cases t with
    | nil => rfl
    | cons y r =>
      simp only [List.map_cons, join, Spec.joinStr, encodeAll_append] at ih ⊢
      rw [ih]

theorem repeat_encode (s : List Nat) (n : Nat) :
    repeatBytes (encodeAll s) n = encodeAll (List.replicate n s).flatten := by
  induction n with
  | zero => rfl
  | succ n ih => simp [repeatBytes, List.replicate_succ, encodeAll_append, ih]

theorem isSpace_eq (c : Nat) : isSpace c = Spec.isSpace c := by
  unfold isSpace Spec.isSpace
  rw [Bool.eq_iff_iff]
  simp only [List.contains_cons, List.contains_nil, Bool.or_false, Bool.or_eq_true, decide_eq_true_eq, beq_iff_eq]
  omega

theorem dropWhileL_eq (f : Nat → Bool) (l : List Nat) : dropWhileL f l = l.dropWhile f := by
  induction l with
  | nil => rfl
  | cons c t ih => simp only [dropWhileL, List.dropWhile, ih]; cases f c <;> rfl

theorem stripPred_eq (chars : Option (List Nat)) (h : ∀ v, chars = some v → ∀ c ∈ v, Scalar c) :
    stripPred (chars.map encodeAll) = Spec.stripPred chars := by
  cases chars with
  | none => funext c; simp [stripPred, Spec.stripPred, isSpace_eq]
  | some v => funext c; simp [stripPred, Spec.stripPred, runes_encodeAll v (h v rfl)]

theorem encodeAll_reverse_scalars (l : List Nat) (h : ∀ c ∈ l, Scalar c) : ∀ c ∈ l.reverse, Scalar c := by
  intro c hc; exact h c (List.mem_reverse.mp hc)

/-- a valid encoding is a prefix code: the first character of a string is determined by its bytes -/
theorem encodeRune_cancel (c d : Nat) (hc : Scalar c) (hd : Scalar d) (x y : Bytes)
    (h : encodeRune c ++ x = encodeRune d ++ y) : c = d ∧ x = y := by
  have h1 := decodeRune_encodeRune c hc x
  have h2 := decodeRune_encodeRune d hd y
  rw [h] at h1
  have hcd : c = d := by have := h1.symm.trans h2; exact (Prod.mk.inj this).1
  subst hcd
  exact ⟨rfl, List.append_cancel_left h⟩

theorem prefix_encode (a b : List Nat) (ha : ∀ c ∈ a, Scalar c) (hb : ∀ c ∈ b, Scalar c) :
    encodeAll b <+: encodeAll a ↔ b <+: a := by
  constructor
  · intro ⟨z, hz⟩
    induction b generalizing a with
    | nil => exact List.nil_prefix
    | cons d b' ih =>
      cases a with
      | nil =>
        simp only [encodeAll, List.append_assoc] at hz
        exact absurd (List.append_eq_nil_iff.mp hz).1 (encodeRune_ne_nil d)
      | cons c a' =>
        simp only [encodeAll, List.append_assoc] at hz
        obtain ⟨hcd, hrest⟩ := encodeRune_cancel d c (hb d (by simp)) (ha c (by simp)) _ _ hz
        subst hcd
        have := ih a' (fun y hy => ha y (by simp [hy])) (fun y hy => hb y (by simp [hy])) hrest
        exact (List.cons_prefix_cons).mpr ⟨rfl, this⟩
  · intro ⟨w, hw⟩
    exact ⟨encodeAll w, by rw [← encodeAll_append, hw]⟩

theorem hasPrefix_encode (a b : List Nat) (ha : ∀ c ∈ a, Scalar c) (hb : ∀ c ∈ b, Scalar c) :
    hasPrefix (encodeAll a) (encodeAll b) = b.isPrefixOf a := by
  unfold hasPrefix
  rw [Bool.eq_iff_iff, List.isPrefixOf_iff_prefix, List.isPrefixOf_iff_prefix]
  exact prefix_encode a b ha hb


/-! ### pos and slice -/

theorem posAux_succ (n : Int) (f : Nat) (s : Bytes) (h : s ≠ []) (k i : Nat) :
    posAux n (f + 1) s k i =
      if (k : Int) = n then i else posAux n f (s.drop (decodeRune s).2) (k + 1) (i + (decodeRune s).2) := by
  cases s with
  | nil => exact absurd rfl h
  | cons b t => rfl

theorem posAux_encodeAll (n : Int) (cs : List Nat) (h : ∀ c ∈ cs, Scalar c) :
    ∀ (f k i : Nat), (encodeAll cs).length ≤ f → (k : Int) ≤ n →
      posAux n f (encodeAll cs) k i = i + (encodeAll (cs.take (n - k).toNat)).length := by
  induction cs with
  | nil => intro f k i _ _; cases f <;> simp [posAux, encodeAll]
  | cons c t ih =>
    intro f k i hf hk
    have hc : Scalar c := h c (by simp)
    have ht : ∀ x ∈ t, Scalar x := fun x hx => h x (by simp [hx])
    simp only [encodeAll, List.length_append] at hf
    have hp := encodeRune_length_pos c
    cases f with
    | zero => omega
    | succ f =>
      simp only [encodeAll]
      rw [posAux_succ _ _ _ (by simp [encodeRune_ne_nil]), decodeRune_encodeRune c hc]
      simp only [List.drop_left]
      by_cases hkn : (k : Int) = n
      · have : (n - (k : Int)).toNat = 0 := by omega
        simp [hkn, encodeAll]
      · simp only [hkn, if_false]
        rw [ih ht f (k + 1) _ (by omega) (by omega)]
        have h1 : (n - (k : Int)).toNat = (n - ((k + 1 : Nat) : Int)).toNat + 1 := by omega
        rw [h1, List.take_succ_cons]
        simp only [encodeAll, List.length_append]
        omega

/-- `String.pos(n)` is the byte offset of the n-th code point (the byte length when there is none) -/
theorem pos_encodeAll (cs : List Nat) (h : ∀ c ∈ cs, Scalar c) (n : Int) (hn : 0 ≤ n) :
    pos (encodeAll cs) n = (encodeAll (cs.take n.toNat)).length := by
  unfold pos
  rw [posAux_encodeAll n cs h _ 0 0 (Nat.le_refl _) (by simpa using hn)]
  simp


theorem encodeAll_length_ge (cs : List Nat) : cs.length ≤ (encodeAll cs).length := by
  induction cs with
  | nil => simp [encodeAll]
  | cons c t ih => have := encodeRune_length_pos c; simp only [encodeAll, List.length_append, List.length_cons]; omega

theorem encodeRune_len1 (c : Nat) (h : (encodeRune c).length = 1) : c < 0x80 := by
  unfold encodeRune at h
  repeat' split at h
  all_goals first | assumption | (simp at h)

/-- the ASCII fast path: as many bytes as characters means every character is one byte -/
theorem encodeAll_of_length_eq (cs : List Nat) (h : (encodeAll cs).length = cs.length) : encodeAll cs = cs := by
  induction cs with
  | nil => rfl
  | cons c t ih =>
    have h1 := encodeRune_length_pos c
    have h2 := encodeAll_length_ge t
    simp only [encodeAll, List.length_append, List.length_cons] at h
    have hc : (encodeRune c).length = 1 := by omega
    have ht : (encodeAll t).length = t.length := by omega
    simp only [encodeAll, ih ht, encodeRune_ascii c (encodeRune_len1 c hc)]; rfl

theorem encodeAll_take_drop (cs : List Nat) (i : Nat) : encodeAll cs = encodeAll (cs.take i) ++ encodeAll (cs.drop i) := by
  rw [← encodeAll_append, List.take_append_drop]

/-- `String.slice(start, stop, length)` with 0 ≤ start ≤ stop ≤ length = len(s) returns the encoding of the
code points start..stop (ASCII fast path included) and never panics -/
theorem slice_encodeAll (cs : List Nat) (h : ∀ c ∈ cs, Scalar c) (i j : Nat) (hij : i ≤ j) (hj : j ≤ cs.length) :
    slice (encodeAll cs) i j cs.length = some (encodeAll ((cs.drop i).take (j - i))) := by
  unfold slice
  by_cases h1 : (i : Int) ≥ j
  · have : j - i = 0 := by omega
    simp [h1, this, encodeAll]
  · simp only [h1, if_false]
    by_cases h2 : (cs.length : Int) = ((encodeAll cs).length : Int)
    · have hascii := encodeAll_of_length_eq cs (by omega)
      simp only [h2, if_true]
      rw [hascii]
      have hs : ∀ c ∈ (cs.drop i).take (j - i), c < 0x80 := by
        intro c hc
        have hm : c ∈ cs := List.mem_of_mem_drop (List.mem_of_mem_take hc)
        have := encodeRune_len1 c (by
          have hl : ∀ l : List Nat, encodeAll l = l → ∀ x ∈ l, (encodeRune x).length = 1 := by
            intro l
            induction l with
            | nil => intro _ x hx; simp at hx
            | cons a t ih =>
              intro hl x hx
              have ha := encodeRune_length_pos a
              have hge := encodeAll_length_ge t
              have hlen := congrArg List.length hl
              simp only [encodeAll, List.length_append, List.length_cons] at hlen
              have ha1 : (encodeRune a).length = 1 := by omega
              have hasc := encodeRune_ascii a (encodeRune_len1 a ha1)
              simp only [encodeAll, hasc, List.cons_append, List.nil_append, List.cons.injEq, true_and] at hl
              rcases List.mem_cons.mp hx with hx | hx
              · rw [hx]; exact ha1
              · exact ih hl x hx
          exact hl cs hascii c hm)
        exact this
      rw [encodeAll_ascii _ hs]
      unfold goSlice
      have hc : (0 : Int) ≤ i ∧ (i : Int) ≤ j ∧ (j : Int) ≤ (cs.length : Int) := by omega
      simp only [hc, and_self, if_true]
      congr 2
      simp
    · simp only [h2, if_false]
      by_cases h3 : (i : Int) ≤ 0 ∧ (j : Int) ≥ cs.length
      · have hi : i = 0 := by omega
        have hjl : j = cs.length := by omega
        subst hi; subst hjl
        simp
      · simp only [h3, if_false]
        rw [pos_encodeAll cs h i (by omega)]
        simp only [Int.toNat_natCast]
        have hsplit := encodeAll_take_drop cs i
        have hdrop : (encodeAll cs).drop (encodeAll (cs.take i)).length = encodeAll (cs.drop i) := by
          rw [hsplit]; simp
        rw [hdrop]
        have hds : ∀ c ∈ cs.drop i, Scalar c := fun c hc => h c (List.mem_of_mem_drop hc)
        rw [pos_encodeAll (cs.drop i) hds ((j : Int) - i) (by omega)]
        have hji : ((j : Int) - (i : Int)).toNat = j - i := by omega
        rw [hji]
        unfold goSlice
        have hsplit2 := encodeAll_take_drop (cs.drop i) (j - i)
        have hlen : (encodeAll cs).length = (encodeAll (cs.take i)).length + (encodeAll ((cs.drop i).take (j - i))).length
            + (encodeAll ((cs.drop i).drop (j - i))).length := by
          rw [hsplit, hsplit2]; simp [List.length_append]
          omega
        have hcond : (0 : Int) ≤ ((encodeAll (cs.take i)).length : Int) ∧
            ((encodeAll (cs.take i)).length : Int) ≤ (((encodeAll ((cs.drop i).take (j - i))).length + (encodeAll (cs.take i)).length : Nat) : Int) ∧
            (((encodeAll ((cs.drop i).take (j - i))).length + (encodeAll (cs.take i)).length : Nat) : Int) ≤ ((encodeAll cs).length : Int) := by
          omega
        simp only [hcond, and_self, if_true, Int.toNat_natCast]
        rw [hdrop]
        have : ((((encodeAll ((cs.drop i).take (j - i))).length + (encodeAll (cs.take i)).length : Nat) : Int) - ((encodeAll (cs.take i)).length : Int)).toNat
            = (encodeAll ((cs.drop i).take (j - i))).length := by omega
        rw [this, hsplit2]
        simp

/-! ### the hexadecimal escapes of DecodeEscape: only hex digits parse; non-ASCII bytes of a bytes literal -/

/-- the first byte of the UTF-8 text of a character that is not a hex digit is not a hex digit either -/
theorem encodeRune_head_nonhex (x : Nat) (h : hexVal x = none) : ∃ y t, encodeRune x = y :: t ∧ hexVal y = none := by
  by_cases hx : x < 0x80
  · exact ⟨x, [], by simp [encodeRune, hx], h⟩
  · unfold encodeRune
    simp only [hx, if_false]
    repeat' split
    all_goals refine ⟨_, _, rfl, ?_⟩
    all_goals (unfold hexVal; repeat' split)
    all_goals first | rfl | omega

/-- `strconv.ParseUint(string(runes), 16, 32)` succeeds only when EVERY rune is one of `0-9a-fA-F` -/
theorem parseHexDigits_encodeAll_some (ds : List Nat) (acc v : Nat) (h : parseHexDigits (encodeAll ds) acc = some v) :
    ∀ x ∈ ds, hexVal x ≠ none := by
  induction ds generalizing acc with
  | nil => intro x hx; simp at hx
  | cons d t ih =>
    intro x hx
    cases hd : hexVal d with
    | none =>
      obtain ⟨y, tl, he, hy⟩ := encodeRune_head_nonhex d hd
      simp [encodeAll, he, parseHexDigits, hy] at h
    | some dv =>
      have hlt : d < 0x80 := by
        unfold hexVal at hd
        repeat' split at hd
        all_goals first | omega | cases hd
      simp only [encodeAll, encodeRune_ascii d hlt, List.cons_append, List.nil_append, parseHexDigits, hd] at h
      rcases List.mem_cons.mp hx with hx | hx
      · subst hx; simp [hd]
      · exact ih _ h x hx

theorem parseUint16_encodeAll_some (ds : List Nat) (v : Nat) (h : parseUint16 (encodeAll ds) = some v) :
    ∀ x ∈ ds, hexVal x ≠ none := by
  unfold parseUint16 at h
  split at h
  · cases h
  · cases hp : parseHexDigits (encodeAll ds) 0 with
    | none => simp [hp] at h
    | some w => exact parseHexDigits_encodeAll_some ds 0 w hp

theorem decodeAux_plain_prefix (bm : Bool) (pre : List Nat) (hpre : 92 ∉ pre) (f : Nat) (rest out : List Nat) :
    decodeAux bm (f + pre.length) (pre ++ rest) out = decodeAux bm f rest (out ++ encodeAll pre) := by
  induction pre generalizing out with
  | nil => simp [encodeAll]
  | cons c t ih =>
    have hc : c ≠ 92 := by intro h; subst h; simp at hpre
    have ht : 92 ∉ t := by intro h; exact hpre (by simp [h])
    simp only [List.length_cons, List.cons_append, encodeAll]
    rw [← Nat.add_assoc, decodeAux_plain bm _ c hc, ih ht]
    simp

theorem encodeRune_head_nonascii (c : Nat) (h : 0x80 ≤ c) : ∃ y t, encodeRune c = y :: t ∧ 0x80 ≤ y := by
  unfold encodeRune
  have : ¬ c < 0x80 := by omega
  simp only [this, if_false]
  repeat' split
  all_goals exact ⟨_, _, rfl, by omega⟩

theorem any_ge128_encodeAll (buf : List Nat) (c : Nat) (hc : c ∈ buf) (h : 0x80 ≤ c) :
    (encodeAll buf).any (fun b => decide (b ≥ 0x80)) = true := by
  induction buf with
  | nil => simp at hc
  | cons x t ih =>
    simp only [encodeAll, List.any_append, Bool.or_eq_true]
    rcases List.mem_cons.mp hc with hx | hx
    · left
      subst hx
      obtain ⟨y, tl, he, hy⟩ := encodeRune_head_nonascii c h
      simp [he, hy]
    · right; exact ih hx

end GPy.C14
