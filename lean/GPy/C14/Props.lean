/-
C14 property theorems.  Strings are modelled as the UTF-8 byte lists the Go code stores
(`encodeAll cs` for a code-point list `cs` of Unicode scalar values); the specification
speaks about the code-point lists themselves.  Every theorem quantifies over ALL code-point
lists (any length; 1-, 2-, 3- and 4-byte characters, quotes, backslash, controls, NUL) and, for
the repr theorems, over EVERY behaviour of `strconv.IsPrint` (parameter `isPrint`).
-/
import GPy.C14.Proofs
import GPy.C14.Ops
import GPy.C14.Cmp
import GPy.C14.GetItem
import GPy.C14.Window
import GPy.C14.Ascii
import GPy.C14.Units
import GPy.C14.SpecMethods
namespace GPy.C14
open Spec (Scalar)

/-! ### UTF-8 storage is invisible -/

/-- decoding the UTF-8 encoding of any scalar value gives the value back and consumes exactly its bytes
(1–4 bytes, astral characters included) -/
theorem utf8_decode_encode (c : Nat) (h : Scalar c) (rest : Bytes) :
    decodeRune (encodeRune c ++ rest) = (c, (encodeRune c).length) := decodeRune_encodeRune c h rest

/-- `len(s)` (`String.len` = utf8.RuneCountInString) is the number of code points -/
theorem len_spec (cs : List Nat) (h : ∀ c ∈ cs, Scalar c) : strLen (encodeAll cs) = cs.length := by
  simp [strLen, runeCount, runes_encodeAll cs h]

/-- iterating a string (`py.Iterate`, `for c in s`, `list(s)`) yields its code points one by one -/
theorem iter_spec (cs : List Nat) (h : ∀ c ∈ cs, Scalar c) :
    strIter (encodeAll cs) = (Spec.strIter cs).map encodeAll := by
  simp [strIter, Spec.strIter, runes_encodeAll cs h, encodeAll]

/-- `ord(chr(i)) == i` for every scalar value -/
theorem chr_ord_inverse (v : Nat) (h : Scalar v) :
    chr (.int v) = .ok (.str (encodeRune v)) ∧ ord (encodeRune v) = .ok (.int v) := by
  have hv : v < 0x110000 := scalar_lt v h
  constructor
  · unfold chr
    have h1 : ¬ ((v : Int) < IntMin ∨ (v : Int) > IntMax) := by unfold IntMin IntMax; omega
    have h2 : ¬ ((v : Int) < 0 ∨ (v : Int) ≥ 0x110000) := by omega
    simp only [h1, h2, if_false, Int.toNat_natCast]
  · unfold ord
    have hd := decodeRune_encodeRune v h []
    rw [List.append_nil] at hd
    simp only [hd, true_and]
    by_cases hf : v = runeError
    · subst hf; decide
    · simp [hf]

/-- `chr` agrees with Python on every argument except the surrogates (C14-K01) -/
theorem chr_spec_partial (a : Arg) (hk : ∀ v, a = .int v → Spec.kfSurrogate v = false) :
    agrees (chr a) (Spec.chr (argToSpec a)) := by
  cases a with
  | absent => simp [chr, Spec.chr, argToSpec, agrees, errAgrees]
  | none => simp [chr, Spec.chr, argToSpec, agrees, errAgrees]
  | int v =>
    have := hk v rfl
    unfold Spec.kfSurrogate at this
    unfold chr Spec.chr IntMin IntMax argToSpec
    by_cases h1 : v < -9223372036854775808 ∨ v > 9223372036854775807
    · have h1' : v < -9223372036854775808 ∨ 9223372036854775808 ≤ v := by omega
      simp [h1, h1', agrees, errAgrees]
    · have h1' : ¬ (v < -9223372036854775808 ∨ 9223372036854775808 ≤ v) := by omega
      by_cases h2 : v < 0 ∨ v ≥ 0x110000
      · have h2' : v < 0 ∨ 1114112 ≤ v := by omega
        simp [h1, h1', h2', agrees, errAgrees]
      · have h2' : ¬ (v < 0 ∨ 1114112 ≤ v) := by omega
        simp [h1, h1', h2', agrees, valAgrees, encodeAll]

/-- C14-K01 witness: the model (= the code) answers U+FFFD where Python has the surrogate itself -/
theorem chr_surrogate_witness :
    chr (.int 0xD800) = .ok (.str [0xEF, 0xBF, 0xBD]) ∧ encodeAll [0xD800] = [0xEF, 0xBF, 0xBD] ∧ Spec.kfSurrogate 0xD800 = true := by
  decide

/-! ### code-point <-> byte offset translation -/

/-- `String.pos(n)` is the byte offset of the n-th code point; the byte length when the string is shorter -/
theorem pos_spec (cs : List Nat) (h : ∀ c ∈ cs, Scalar c) (n : Int) (hn : 0 ≤ n) :
    pos (encodeAll cs) n = (encodeAll (cs.take n.toNat)).length := pos_encodeAll cs h n hn

/-- `String.slice(start, stop, len(s))` for 0 ≤ start ≤ stop ≤ len(s) (what GetIndices and the adjusted
start/end of find/count/startswith/endswith supply): the encoding of the code points start..stop, on the
ASCII fast path and on the general path alike, and never a panic -/
theorem slice_spec (cs : List Nat) (h : ∀ c ∈ cs, Scalar c) (i j : Nat) (hij : i ≤ j) (hj : j ≤ cs.length) :
    slice (encodeAll cs) i j cs.length = some (encodeAll ((cs.drop i).take (j - i))) :=
  slice_encodeAll cs h i j hij hj

example : slice (encodeAll [0x61, 0x1F600, 0xE9, 0x62]) 1 3 4 = some (encodeAll [0x1F600, 0xE9]) := by decide

/-! ### join, repetition, strip -/

/-- `sep.join(parts)`: joining the stored byte strings is the encoding of the code-point level join -/
theorem join_spec (sep : List Nat) (parts : List (List Nat)) :
    agrees (strJoin (encodeAll sep) (parts.map encodeAll)) (.ok (.str (Spec.joinStr sep parts))) := by
  simp [strJoin, agrees, valAgrees, join_encode]

/-- `s * n` for every int64 `n` (negative counts give the empty string) -/
theorem mul_spec (s : List Nat) (n : Int) : agrees (strMul (encodeAll s) n) (Spec.strMul s n) := by
  unfold strMul Spec.strMul
  simp only [agrees, valAgrees]
  rw [repeat_encode]
  by_cases h : n < 0
  · have : n.toNat = 0 := by omega
    simp [h, this]
  · simp [h]

/-- strip / lstrip / rstrip, without argument (Python's whitespace set) and with a set of characters:
whole code points are removed, never parts of a multi-byte character -/
theorem strip_spec (which : Nat) (s : List Nat) (chars : Option (List Nat)) (hs : ∀ c ∈ s, Scalar c)
    (hc : ∀ v, chars = some v → ∀ c ∈ v, Scalar c) :
    agrees (strStrip which (encodeAll s) (chars.map encodeAll)) (Spec.strStrip which s chars) := by
  unfold strStrip Spec.strStrip
  simp only [agrees, valAgrees, stripPred_eq chars hc, trimLeft, trimRight, trimBoth, runes_encodeAll s hs, dropWhileL_eq]
  split <;> (try split) <;> rfl


/-! ### searching: UTF-8 is a prefix code -/

/-- two strings whose encodings start with the same bytes start with the same character: a needle aligned
at a code-point boundary matches bytewise iff it matches character by character -/
theorem utf8_prefix_code (c d : Nat) (hc : Scalar c) (hd : Scalar d) (x y : Bytes)
    (h : encodeRune c ++ x = encodeRune d ++ y) : c = d ∧ x = y := encodeRune_cancel c d hc hd x y h

/-- `strings.HasPrefix` on the stored bytes decides the code-point prefix relation (startswith without start/end) -/
theorem startswith_bytes_spec (a b : List Nat) (ha : ∀ c ∈ a, Scalar c) (hb : ∀ c ∈ b, Scalar c) :
    hasPrefix (encodeAll a) (encodeAll b) = b.isPrefixOf a := hasPrefix_encode a b ha hb

/-- Python's and Go's whitespace predicates (after the U+001C..U+001F fix) coincide on every code point -/
theorem isSpace_spec (c : Nat) : isSpace c = Spec.isSpace c := isSpace_eq c

/-! ### repr round-trips through the lexer -/

/-- **repr_roundtrip_str**: for EVERY code-point list `cs` and EVERY printability predicate, the lexer
(`readString` + `DecodeEscape`) reads the literal that `StringEscape` writes back to exactly `cs`,
leaving any following text `rest` (that does not begin with a quote) unread. -/
theorem repr_roundtrip_str (isPrint : Nat → Bool) (cs : List Nat) (hs : ∀ c ∈ cs, Scalar c) (rest : List Nat)
    (hr : ∀ r, rest.head? = some r → isQuote r = false) :
    readString (escapeRunes isPrint cs ++ rest) = .ok (.str (encodeAll cs)) rest :=
  readString_escapeRunes isPrint cs hs rest hr

/-- the same at the level of the stored bytes: `readString(range(repr(s)))` for the `py.String` holding `cs` -/
theorem repr_roundtrip_str_bytes (isPrint : Nat → Bool) (cs : List Nat) (hs : ∀ c ∈ cs, Scalar c) :
    readString (runes (strRepr isPrint (encodeAll cs))) = .ok (.str (encodeAll cs)) [] := by
  unfold strRepr
  rw [runes_encodeAll cs hs]
  have hsc : ∀ x ∈ escapeRunes isPrint cs, Scalar x := by
    intro x hx
    unfold escapeRunes at hx
    simp only [List.mem_append, List.mem_cons, List.mem_nil_iff, or_false] at hx
    rcases hx with (hx | hx) | hx
    · subst hx; rcases chooseQuote_cases cs with h | h <;> (rw [h]; exact scalar_of_lt _ (by omega))
    · exact escBody_scalar isPrint _ cs hs x hx
    · subst hx; rcases chooseQuote_cases cs with h | h <;> (rw [h]; exact scalar_of_lt _ (by omega))
  rw [runes_encodeAll _ hsc]
  have := readString_escapeRunes isPrint cs hs [] (by intro r h; simp at h)
  rwa [List.append_nil] at this

/-- **repr_roundtrip_bytes**: the literal `Bytes.M__repr__` writes reads back to the same bytes -/
theorem repr_roundtrip_bytes (b : List Nat) (hb : ∀ c ∈ b, c < 256) (rest : List Nat)
    (hr : ∀ r, rest.head? = some r → isQuote r = false) :
    readString (bytesRepr b ++ rest) = .ok (.bytes b) rest :=
  readString_bytesRepr b hb rest hr

/-- non-vacuity: a string with both quotes, a backslash, newline, NUL, a 2-byte, a 3-byte and an astral character -/
example : ∀ c ∈ [39, 34, 92, 10, 0, 0xE9, 0x20AC, 0x1F600], Scalar c := by decide
example : readString (escapeRunes (fun _ => true) [39, 34, 92, 10, 0, 0xE9, 0x1F600] ++ [44, 32]) =
    .ok (.str (encodeAll [39, 34, 92, 10, 0, 0xE9, 0x1F600])) [44, 32] := by decide

/-! ### second round: searching is code-point searching (UTF-8 self-synchronisation) -/

/-- **utf8_sync**: the encoding of a non-empty string `sub` occurs in the encoding of `s` at byte offset `k`
ONLY IF `k` is the byte offset of some code point `i` of `s` and `sub` occurs in `s` at code point `i`:
a valid needle never matches in the middle of a multi-byte character -/
theorem utf8_sync (s sub : List Nat) (hs : ∀ c ∈ s, Scalar c) (hsub : ∀ c ∈ sub, Scalar c) (hne : sub ≠ [])
    (k : Nat) (h : (encodeAll sub).isPrefixOf ((encodeAll s).drop k) = true) :
    ∃ i, i ≤ s.length ∧ k = (encodeAll (s.take i)).length ∧ sub.isPrefixOf (s.drop i) = true :=
  sync_encode s sub hs hsub hne k h

/-- the converse direction: an occurrence at a code point is an occurrence at its byte offset -/
theorem utf8_sync_conv (s sub : List Nat) (hs : ∀ c ∈ s, Scalar c) (hsub : ∀ c ∈ sub, Scalar c) (i : Nat)
    (h : sub.isPrefixOf (s.drop i) = true) :
    (encodeAll sub).isPrefixOf ((encodeAll s).drop (encodeAll (s.take i)).length) = true := by
  have : (encodeAll s).drop (encodeAll (s.take i)).length = encodeAll (s.drop i) := by
    conv => lhs; rw [encodeAll_take_drop s i]
    simp
  rw [this, isPrefixOf_encode (s.drop i) sub (fun c hc => hs c (List.mem_of_mem_drop hc)) hsub]
  exact h

-- non-vacuity: U+00E9 = C3 A9 and U+0269 = C9 A9 share their second byte, U+20AC = E2 82 AC; the needle
-- "é" occurs in "ɩé€é" at code points 1 and 3 (byte offsets 2 and 7) and nowhere else
example : (encodeAll [0xE9]).isPrefixOf ((encodeAll [0x269, 0xE9, 0x20AC, 0xE9]).drop 7) = true := by decide

/-- `sub in s` (`String.M__contains__` = strings.Contains on the stored bytes) -/
theorem contains_spec (s sub : List Nat) (hs : ∀ c ∈ s, Scalar c) (hsub : ∀ c ∈ sub, Scalar c) :
    contains (encodeAll s) (encodeAll sub) = Spec.contains s sub := by
  unfold contains Spec.contains
  rw [index_fidx, find_fidx, fidx_encode s sub hs hsub]
  cases fidx sub s <;> simp

/-- `strings.Index` on the stored bytes returns the BYTE offset of the first code-point occurrence -/
theorem index_spec (s sub : List Nat) (hs : ∀ c ∈ s, Scalar c) (hsub : ∀ c ∈ sub, Scalar c) :
    index (encodeAll s) (encodeAll sub) =
      if Spec.find s sub < 0 then -1 else ((encodeAll (s.take (Spec.find s sub).toNat)).length : Int) := by
  rw [index_fidx, find_fidx, fidx_encode s sub hs hsub]
  cases fidx sub s with
  | none => simp
  | some i =>
    have : ¬ ((i : Int) < 0) := by omega
    simp [this]

/-- **find_spec**: `s.find(sub[, start[, end]])` with start/end as CODE-POINT indices (absent, None, negative,
beyond the end, beyond int64): the code-point index of the first occurrence inside the window, or -1.
`hlen`: the string's length fits a Go int. -/
theorem find_spec (s sub : List Nat) (hs : ∀ c ∈ s, Scalar c) (hsub : ∀ c ∈ sub, Scalar c) (a b : Arg)
    (hlen : (s.length : Int) < IntMax) :
    agrees (strFind (encodeAll s) (encodeAll sub) a b) (Spec.strFind s sub (argToSpec a) (argToSpec b)) :=
  strFind_encode s sub hs hsub a b hlen

/-- **count_spec**: `s.count(sub[, start[, end]])`: non-overlapping occurrences inside the window; for the empty
needle the number of code points of the window plus one -/
theorem count_spec (s sub : List Nat) (hs : ∀ c ∈ s, Scalar c) (hsub : ∀ c ∈ sub, Scalar c) (a b : Arg)
    (hlen : (s.length : Int) < IntMax) :
    agrees (strCount (encodeAll s) (encodeAll sub) a b) (Spec.strCount s sub (argToSpec a) (argToSpec b)) :=
  strCount_encode s sub hs hsub a b hlen

-- non-vacuity of the hypotheses (2-, 3-byte characters; the length bound) and the model's answer at that point
example : (∀ c ∈ [0x269, 0xE9, 0x20AC, 0xE9], Scalar c) ∧ ((([0x269, 0xE9, 0x20AC, 0xE9] : List Nat).length : Nat) : Int) < IntMax := by decide
example : strFind (encodeAll [0x269, 0xE9, 0x20AC, 0xE9]) (encodeAll [0xE9]) (.int (-2)) .none = .ok (.int 3) := by decide
example : strCount (encodeAll [0x269, 0xE9, 0x20AC, 0xE9]) (encodeAll [0xE9]) .absent (.int (2 ^ 63)) = .ok (.int 2) := by decide

/-- **replace_spec**: `s.replace(old, new[, count])` for every count argument (absent, None → TypeError, negative,
zero, beyond int64 → OverflowError), `old` empty (insertion between code points, never inside one) or not -/
theorem replace_spec (s old new : List Nat) (hs : ∀ c ∈ s, Scalar c) (hold : ∀ c ∈ old, Scalar c)
    (hnew : ∀ c ∈ new, Scalar c) (cnt : Arg) :
    agrees (strReplace (encodeAll s) (encodeAll old) (encodeAll new) cnt) (Spec.strReplace s old new (argToSpec cnt)) :=
  strReplace_encode s old new hs hold hnew cnt

example : strReplace (encodeAll [0x1F600, 0xE9]) (encodeAll []) (encodeAll [0x2D]) .absent
    = .ok (.str (encodeAll [0x2D, 0x1F600, 0x2D, 0xE9, 0x2D])) := by decide

/-- **split_spec**: `s.split(sep[, maxsplit])` for a separator string (empty → ValueError) and for `None`
(runs of Python whitespace), every maxsplit argument. `hlen`: the string's length fits a Go int. -/
theorem split_spec (s : List Nat) (sep : Option (List Nat)) (hs : ∀ c ∈ s, Scalar c)
    (hsep : ∀ v, sep = some v → ∀ c ∈ v, Scalar c) (mx : Arg) (hlen : (s.length : Int) ≤ IntMax) :
    agrees (strSplit (encodeAll s) (sep.map encodeAll) mx) (Spec.strSplit s sep (argToSpec mx)) :=
  strSplit_encode s sep hs hsep mx hlen

example : strSplit (encodeAll [0x61, 0xE9, 0x269, 0xE9, 0x62]) (some (encodeAll [0xE9])) (.int 1)
    = .ok (.list [encodeAll [0x61], encodeAll [0x269, 0xE9, 0x62]]) := by decide

/-! ### second round: startswith / endswith with start and end -/

/-- **startswith_spec**: `s.startswith(sub or tuple of subs[, start[, end]])`, start/end code-point indices
with Python's adjustment rules; window equivalence on top of `slice_spec` -/
theorem startswith_spec (s : List Nat) (subs : List (List Nat)) (hs : ∀ c ∈ s, Scalar c)
    (hsubs : ∀ sub ∈ subs, ∀ c ∈ sub, Scalar c) (a b : Arg) (hlen : (s.length : Int) < IntMax) :
    agrees (tailMatch false (encodeAll s) (subs.map encodeAll) a b)
      (Spec.tailMatch false s subs (argToSpec a) (argToSpec b)) :=
  tailMatch_encode false s subs hs hsubs a b hlen

/-- **endswith_spec** -/
theorem endswith_spec (s : List Nat) (subs : List (List Nat)) (hs : ∀ c ∈ s, Scalar c)
    (hsubs : ∀ sub ∈ subs, ∀ c ∈ sub, Scalar c) (a b : Arg) (hlen : (s.length : Int) < IntMax) :
    agrees (tailMatch true (encodeAll s) (subs.map encodeAll) a b)
      (Spec.tailMatch true s subs (argToSpec a) (argToSpec b)) :=
  tailMatch_encode true s subs hs hsubs a b hlen

/-- suffix matching on the stored bytes decides the code-point suffix relation: a valid needle that ends where
the haystack ends starts at a code-point boundary -/
theorem endswith_bytes_spec (a b : List Nat) (ha : ∀ c ∈ a, Scalar c) (hb : ∀ c ∈ b, Scalar c) :
    hasSuffix (encodeAll a) (encodeAll b) = Spec.endsWith a b := hasSuffix_encode a b ha hb

-- U+0269 = C9 A9 ends with the byte A9 that also ends U+00E9 = C3 A9: no false suffix match
example : tailMatch true (encodeAll [0x61, 0x269]) [encodeAll [0xE9]] .absent .absent = .ok (.bool false) := by decide
example : tailMatch true (encodeAll [0x61, 0xE9, 0x62]) [encodeAll [0xE9]] (.int (-3)) (.int (-1)) = .ok (.bool true) := by decide

/-! ### second round: comparison -/

/-- **cmp_spec**: the six rich comparisons. Go compares the stored bytes; the byte order of valid UTF-8 is
the code-point order (so `'\uffff' < '\U00010000'` although UTF-16 would order them the other way) -/
theorem cmp_spec (op : Nat) (a b : List Nat) (ha : ∀ c ∈ a, Scalar c) (hb : ∀ c ∈ b, Scalar c) :
    strCmp op (encodeAll a) (encodeAll b) = Spec.strCmp op a b := strCmp_encode op a b ha hb

/-- byte-wise `<` on encodings is lexicographic `<` on code points -/
theorem lt_spec (a b : List Nat) (ha : ∀ c ∈ a, Scalar c) (hb : ∀ c ∈ b, Scalar c) :
    ltBytes (encodeAll a) (encodeAll b) = Spec.ltStr a b := ltBytes_encode a b ha hb

example : strCmp 0 (encodeAll [0xFFFF]) (encodeAll [0x10000]) = true := by decide

/-! ### second round: indexing and slicing -/

/-- **getitem_spec**: `s[i]` for every int64 `i` (negative from the end, IndexError out of range) is the one-character
string of the i-th CODE POINT, on the ASCII fast path and on the `pos` + DecodeRune path alike; never a panic -/
theorem getitem_spec (s : List Nat) (hs : ∀ c ∈ s, Scalar c) (i : Int) :
    agrees (strGetItem (encodeAll s) i) (Spec.strGetItem s i) := getitem_encode s hs i

/-- **getslice_spec**: `s[a:b]` for every pair of bounds (None, negative, beyond the end, beyond int64) is the
encoding of the code points a..b. `hlen`: the string's length fits a Go int. -/
theorem getslice_spec (s : List Nat) (hs : ∀ c ∈ s, Scalar c) (a b : Arg) (hlen : (s.length : Int) ≤ IntMax) :
    agrees (strGetSlice (encodeAll s) a b) (Spec.strGetSlice s (argToSpec a) (argToSpec b)) :=
  getslice_encode s hs a b hlen

example : strGetItem (encodeAll [0x61, 0x1F600, 0xE9]) (-2) = .ok (.str (encodeAll [0x1F600])) := by decide
example : strGetSlice (encodeAll [0x61, 0x1F600, 0xE9, 0x62]) (.int (-3)) (.int (2 ^ 64))
    = .ok (.str (encodeAll [0x1F600, 0xE9, 0x62])) := by decide

/-! ### the hexadecimal escapes accept hexadecimal digits only (fix 72d8969) and no value above U+10FFFF (fix 0ddaef1) -/

/-- **escape_nonhex_rejected**: a `\x`, `\u` or `\U` escape (the latter two in a str literal) whose window of
2 / 4 / 8 characters contains ANY character that is not a hexadecimal digit – a sign, `_`, `x`, a space,
a non-ASCII character – is a ValueError ("invalid \x escape"), whatever precedes and follows. -/
theorem escape_nonhex_rejected (bm : Bool) (f e k : Nat)
    (h : (e = 120 ∧ k = 2) ∨ (bm = false ∧ e = 117 ∧ k = 4) ∨ (bm = false ∧ e = 85 ∧ k = 8))
    (rest out : List Nat) (x : Nat) (hx : x ∈ rest.take k) (hnh : hexVal x = none) :
    decodeAux bm (f + 1) (92 :: e :: rest) out = .error .value := by
  have hp : parseUint16 (encodeAll (rest.take k)) = none := by
    cases hv : parseUint16 (encodeAll (rest.take k)) with
    | none => rfl
    | some v => exact absurd hnh (parseUint16_encodeAll_some _ v hv x hx)
  rw [decodeAux.eq_def]
  rcases h with h | h | h
  · obtain ⟨h1, h2⟩ := h; subst h1; subst h2
    simp [isOct, hp]
  · obtain ⟨h0, h1, h2⟩ := h; subst h0; subst h1; subst h2
    simp [isOct, hp]
  · obtain ⟨h0, h1, h2⟩ := h; subst h0; subst h1; subst h2
    simp [isOct, hp]

/-- non-vacuity of `escape_nonhex_rejected`: `\u12é4…` in a str literal, `\x1_` in a bytes literal -/
example : (0xE9 ∈ ([49, 50, 0xE9, 52, 39] : List Nat).take 4 ∧ hexVal 0xE9 = none) ∧ (95 ∈ ([49, 95] : List Nat).take 2 ∧ hexVal 95 = none) := by decide

/-- **escape_sign_rejected**: `\x+1`, `\x-1`, `\u+123`, `\U-0000001`: a sign where the first digit of a
hexadecimal escape is expected is a ValueError in every mode, for every following text (strconv.ParseInt
accepted it before fix 72d8969) -/
theorem escape_sign_rejected (bm : Bool) (f s : Nat) (hs : s = 43 ∨ s = 45) (rest out : List Nat) :
    decodeAux bm (f + 1) (92 :: 120 :: s :: rest) out = .error .value ∧
    decodeAux false (f + 1) (92 :: 117 :: s :: rest) out = .error .value ∧
    decodeAux false (f + 1) (92 :: 85 :: s :: rest) out = .error .value := by
  have hnh : hexVal s = none := by rcases hs with h | h <;> (subst h; decide)
  refine ⟨?_, ?_, ?_⟩
  · exact escape_nonhex_rejected bm f 120 2 (by simp) _ out s (by simp) hnh
  · exact escape_nonhex_rejected false f 117 4 (by simp) _ out s (by simp) hnh
  · exact escape_nonhex_rejected false f 85 8 (by simp) _ out s (by simp) hnh

/-- a `\U` escape whose 8 hexadecimal digits (of either case) denote a value above U+10FFFF is a ValueError -/
theorem escape_above_maxrune_rejected_digits (f : Nat) (ds rest out : List Nat) (hl : ds.length = 8) (v : Nat)
    (hv : parseUint16 (encodeAll ds) = some v) (hgt : 0x10FFFF < v) :
    decodeAux false (f + 1) (92 :: 85 :: (ds ++ rest)) out = .error .value := by
  rw [decodeAux.eq_def]
  have htake : (ds ++ rest).take 8 = ds := by rw [← hl]; simp
  simp [isOct, htake, hv, hgt, hl]

/-- **escape_above_maxrune_rejected**: `\U` followed by the 8 digits of ANY n with 0x10FFFF < n < 2^32
(`'\U00110000'` … `'\Uffffffff'`) is a ValueError ("illegal Unicode character"; U+FFFD was stored before
fix 0ddaef1) -/
theorem escape_above_maxrune_rejected (f n : Nat) (h1 : 0x10FFFF < n) (h2 : n < 2 ^ 32) (rest out : List Nat) :
    decodeAux false (f + 1) (92 :: 85 :: (hexDigits n 8 ++ rest)) out = .error .value :=
  escape_above_maxrune_rejected_digits f _ rest out (hexDigits_length n 8) n
    (parseUint16_hexDigits n 8 (by omega) (by omega) (by omega)) h1

/-- … while every value up to U+10FFFF is accepted and written as `WriteRune` writes it -/
theorem escape_upto_maxrune_accepted (f n : Nat) (h : n ≤ 0x10FFFF) (rest out : List Nat) :
    decodeAux false (f + 1) (92 :: 85 :: (hexDigits n 8 ++ rest)) out = decodeAux false f rest (out ++ encodeRune n) := by
  rw [decodeAux_hex false f 85 8 (by simp) _ _ _ (hexDigits_length n 8) n
    (parseUint16_hexDigits n 8 (by omega) (by omega) (by omega)) h, writeCode_nat]

/-- non-vacuity: n = 0x110000 (the first rejected value) and n = 2^32 - 1 (the last) -/
example : decodeAux false 20 (92 :: 85 :: (hexDigits 0x110000 8 ++ [97])) [] = .error .value :=
  escape_above_maxrune_rejected 19 0x110000 (by omega) (by omega) [97] []

example : decodeAux false 20 (92 :: 85 :: (hexDigits 0xFFFFFFFF 8 ++ [])) [] = .error .value :=
  escape_above_maxrune_rejected 19 0xFFFFFFFF (by omega) (by omega) [] []

example : hexDigits 0x110000 8 = [48, 48, 49, 49, 48, 48, 48, 48] ∧ hexDigits 0xFFFFFFFF 8 = [102, 102, 102, 102, 102, 102, 102, 102] := by decide

/-! ### … at the level of DecodeEscape and of the lexer -/

/-- `DecodeEscape` of a text whose first backslash starts `\x<sign>` is an error, whatever follows -/
theorem decodeEscape_sign_rejected (bm : Bool) (pre post : List Nat) (s : Nat) (hs : s = 43 ∨ s = 45)
    (hpre : 92 ∉ pre) (hsc : ∀ c ∈ pre ++ post, Scalar c) :
    decodeEscape (encodeAll (pre ++ 92 :: 120 :: s :: post)) bm = .error .value := by
  have hall : ∀ c ∈ pre ++ 92 :: 120 :: s :: post, Scalar c := by
    intro c hc
    simp only [List.mem_append, List.mem_cons] at hc
    rcases hc with hc | hc | hc | hc | hc
    · exact hsc c (by simp [hc])
    · subst hc; exact scalar_of_lt _ (by omega)
    · subst hc; exact scalar_of_lt _ (by omega)
    · subst hc; exact scalar_of_lt _ (by omega)
    · exact hsc c (by simp [hc])
  have h92 : (encodeAll (pre ++ 92 :: 120 :: s :: post)).contains 92 = true := by
    simp only [List.contains_eq_mem, decide_eq_true_eq]
    exact mem92_encodeAll _ (by simp)
  unfold decodeEscape
  simp only [h92, Bool.not_true, Bool.false_eq_true, if_false]
  rw [runes_encodeAll _ hall]
  have hlen : (pre ++ 92 :: 120 :: s :: post).length + 1 = (post.length + 3 + 1) + pre.length := by
    simp only [List.length_append, List.length_cons]; omega
  rw [hlen, decodeAux_plain_prefix bm pre hpre]
  exact (escape_sign_rejected bm _ s hs post _).1

/-- **literal_sign_rejected**: a str or bytes literal (any non-raw prefix the lexer recognises, either quote)
whose scanned body has `\x<sign>` as its first escape is a SyntaxError -/
theorem literal_sign_rejected (line : List Nat) (byteString : Bool) (q : Nat) (t pre post rest : List Nat) (s : Nat)
    (hs : s = 43 ∨ s = 45)
    (hp : stringPrefix line = some (false, byteString, q :: t)) (hnt : [q, q].isPrefixOf t = false)
    (hscan : scan q t false [] = some (some (pre ++ 92 :: 120 :: s :: post, rest)))
    (hpre : 92 ∉ pre) (hsc : ∀ c ∈ pre ++ post, Scalar c) :
    readString line = .error := by
  unfold readString
  simp only [hp, hnt, hscan, Bool.false_eq_true, if_false, decodeEscape_sign_rejected byteString pre post s hs hpre hsc]
  split <;> rfl

/-- the concrete literals (tests): `'\x+1'`, `b"\x-1"`, `'\u+123'`, `'\U00110000'` and (accepted) `'\U0010ffff'`, each followed by
the newline of the source line -/
example : readString [39, 92, 120, 43, 49, 39, 10] = .error := by decide

example : readString [98, 34, 92, 120, 45, 49, 34, 10] = .error := by decide

example : readString [39, 92, 117, 43, 49, 50, 51, 39, 10] = .error := by decide

example : readString [39, 92, 85, 48, 48, 49, 49, 48, 48, 48, 48, 39, 10] = .error := by decide

example : readString [39, 92, 85, 48, 48, 49, 48, 102, 102, 102, 102, 39, 10] = .ok (.str [0xF4, 0x8F, 0xBF, 0xBF]) [10] := by decide

/-- non-vacuity of `literal_sign_rejected`: the hypotheses hold for `'a\x+1'` -/
example : stringPrefix [39, 97, 92, 120, 43, 49, 39, 10] = some (false, false, 39 :: [97, 92, 120, 43, 49, 39, 10]) ∧
    [39, 39].isPrefixOf [97, 92, 120, 43, 49, 39, 10] = false ∧
    scan 39 [97, 92, 120, 43, 49, 39, 10] false [] = some (some ([97] ++ 92 :: 120 :: 43 :: [49], [10])) := by decide

/-! ### bytes literals are ASCII only -/

/-- **bytes_literal_ascii_only**: a bytes literal – ANY of the prefixes b B br Br bR BR rb rB Rb RB, raw or
not, either quote – whose body contains a character ≥ U+0080 is a SyntaxError ("bytes can only contain
ASCII literal characters"), wherever that character stands, escapes or not -/
theorem bytes_literal_ascii_only (line : List Nat) (raw : Bool) (q : Nat) (t buf rest : List Nat)
    (hp : stringPrefix line = some (raw, true, q :: t)) (hnt : [q, q].isPrefixOf t = false)
    (hscan : scan q t false [] = some (some (buf, rest))) (c : Nat) (hc : c ∈ buf) (h80 : 0x80 ≤ c) :
    readString line = .error := by
  unfold readString
  simp only [hp, hnt, hscan, Bool.false_eq_true, if_false, Bool.true_and, any_ge128_encodeAll buf c hc h80, if_true]

/-- tests: `b'é'`, `rb"\é"`, `b'\xe9'` (the escape is fine) -/
example : readString [98, 39, 0xE9, 39, 10] = .error := by decide

example : readString [114, 98, 34, 92, 0xE9, 34, 10] = .error := by decide

example : readString [98, 39, 92, 120, 101, 57, 39, 10] = .ok (.bytes [0xE9]) [10] := by decide

/-- non-vacuity of `bytes_literal_ascii_only` at `Rb'aé'` -/
example : stringPrefix [82, 98, 39, 97, 0xE9, 39] = some (true, true, 39 :: [97, 0xE9, 39]) ∧
    [39, 39].isPrefixOf [97, 0xE9, 39] = false ∧ scan 39 [97, 0xE9, 39] false [] = some (some ([97, 0xE9], [])) := by decide

/-! ### third round: windows are measured in code points; ascii(); units of py/string.go; missing methods -/

/-- **window_fit_by_codepoints**: the early-exit and length tests on the path
`s.len()` → `indexArg` → `adjustIndices` → `beg > end` → `String.slice(beg, end, size)` compare code-point counts
only: two strings with the same NUMBER OF CODE POINTS – whatever their UTF-8 byte lengths – take the same early exit
for every start/end argument (absent, None, any int incl. beyond int64), and otherwise their windows begin at the same
code-point index and hold the same number of code points; the window is never a Go slice panic. -/
theorem window_fit_by_codepoints (cs cs' : List Nat) (hs : ∀ c ∈ cs, Scalar c) (hs' : ∀ c ∈ cs', Scalar c)
    (hl : cs.length = cs'.length) (a b : Arg) (hlen : (cs.length : Int) < IntMax) :
    (window (encodeAll cs) a b = none ↔ window (encodeAll cs') a b = none) ∧
    (∀ beg w beg' w', window (encodeAll cs) a b = some (beg, some w) →
      window (encodeAll cs') a b = some (beg', some w') → beg = beg' ∧ strLen w = strLen w') ∧
    (∀ beg, window (encodeAll cs) a b ≠ some (beg, none)) :=
  window_fit_by_codepoints_aux cs cs' hs hs' hl a b hlen

-- same number of code points (2), 2 bytes against 7 bytes
example : ([0x61, 0x62] : List Nat).length = ([0x20AC, 0x1F600] : List Nat).length ∧
    (encodeAll [0x61, 0x62]).length = 2 ∧ (encodeAll [0x20AC, 0x1F600]).length = 7 := by decide

/-- the window of the model in terms of the code-point bounds CPython's ADJUST_INDICES gives: early exit iff
`start > end`; otherwise the window starts at code point `start` and is the encoding of exactly `end - start` code points -/
theorem window_codepoints (cs : List Nat) (hs : ∀ c ∈ cs, Scalar c) (a b : Arg) (hlen : (cs.length : Int) < IntMax) :
    (window (encodeAll cs) a b = none ↔ (specWin cs a b).1 > (specWin cs a b).2) ∧
    (∀ beg w, window (encodeAll cs) a b = some (beg, w) →
      beg = (specWin cs a b).1 ∧ ∃ wc : List Nat, w = some (encodeAll wc) ∧ (∀ c ∈ wc, Scalar c) ∧
        (wc.length : Int) = (specWin cs a b).2 - (specWin cs a b).1 ∧
        wc = (cs.drop (specWin cs a b).1.toNat).take ((specWin cs a b).2 - (specWin cs a b).1).toNat) :=
  window_cases cs hs a b hlen

/-- **window_fit_needle**: whether a candidate fits the window `[start:end]` is decided by CODE-POINT counts: a
candidate with more code points than the window never matches as prefix or suffix (even when it has fewer bytes than
the window), and a candidate with exactly `end - start` code points matches iff it IS the window (even when it has
more bytes than the window has code points – the situation a `len(sub) > end-beg` test gets wrong) -/
theorem window_fit_needle (cs sub : List Nat) (hs : ∀ c ∈ cs, Scalar c) (hsub : ∀ c ∈ sub, Scalar c)
    (a b : Arg) (hlen : (cs.length : Int) < IntMax) (beg : Int) (w : Bytes)
    (hw : window (encodeAll cs) a b = some (beg, some w)) :
    ((sub.length : Int) > (specWin cs a b).2 - (specWin cs a b).1 →
        hasPrefix w (encodeAll sub) = false ∧ hasSuffix w (encodeAll sub) = false) ∧
    ((sub.length : Int) = (specWin cs a b).2 - (specWin cs a b).1 →
        (hasPrefix w (encodeAll sub) = true ↔ w = encodeAll sub) ∧
        (hasSuffix w (encodeAll sub) = true ↔ w = encodeAll sub)) :=
  window_fit_needle_aux cs sub hs hsub a b hlen beg w hw

-- 'ab£cd'.startswith('£', 2, 3): the window holds 1 code point, the candidate 1 code point = 2 bytes
example : window (encodeAll [0x61, 0x62, 0xA3, 0x63, 0x64]) (.int 2) (.int 3) = some (2, some (encodeAll [0xA3])) ∧
    tailMatch false (encodeAll [0x61, 0x62, 0xA3, 0x63, 0x64]) [encodeAll [0xA3]] (.int 2) (.int 3) = .ok (.bool true) ∧
    (encodeAll [0xA3]).length = 2 := by decide

/-- `ascii(s)` (= `StringEscape(repr(s), true)`) is the repr text under the predicate "nothing is printable" … -/
theorem ascii_eq_repr_nothing_printable (isPrint : Nat → Bool) (cs : List Nat) :
    strAscii isPrint cs = escapeRunes (fun _ => false) cs := strAscii_eq isPrint cs

/-- … so it is pure ASCII … -/
theorem ascii_is_ascii (isPrint : Nat → Bool) (cs : List Nat) : ∀ x ∈ strAscii isPrint cs, x < 0x80 :=
  asciiRunes_ascii _

/-- … and a literal of `s`: **ascii_roundtrip_str**, for every string of scalar values and every `strconv.IsPrint` -/
theorem ascii_roundtrip_str (isPrint : Nat → Bool) (cs : List Nat) (hs : ∀ c ∈ cs, Scalar c) (rest : List Nat)
    (hrest : ∀ r, rest.head? = some r → isQuote r = false) :
    readString (strAscii isPrint cs ++ rest) = .ok (.str (encodeAll cs)) rest := by
  rw [strAscii_eq]; exact repr_roundtrip_str (fun _ => false) cs hs rest hrest

example : strAscii (fun _ => true) [0xE9, 39, 0x2028, 0x1F600] =
    [34, 92, 120, 101, 57, 39, 92, 117, 50, 48, 50, 56, 92, 85, 48, 48, 48, 49, 102, 54, 48, 48, 34] := by decide

/-- REGENERATED TIE (extract/c14units → Generated/Units.lean on every run): the byte/rune unit table of every
comparison and string slice/index expression of py/string.go is the reviewed one … -/
theorem units_table_pinned : Generated.facts = Units.expected := Units.units_table_pinned

/-- … **no_mixed_unit_comparison**: no comparison in py/string.go of the working tree has a byte-valued side
(`len(string)`, strings.Index, range index, pos) against a rune-valued one (`s.len()`, RuneCountInString, indexArg /
adjustIndices results, character positions), except the two `length == len(s)` ASCII tests (equalities) -/
theorem no_mixed_unit_comparison :
    ∀ f ∈ Generated.facts, f.kind = "cmp" → f.sameUnit = true ∨ f ∈ Units.allowedMixed :=
  Units.no_mixed_unit_comparison

/-- … and a string is sliced / indexed with byte offsets only, except on the ASCII fast paths -/
theorem string_index_units :
    ∀ f ∈ Generated.facts, f.kind ≠ "cmp" → Units.boundOk f.fn f.l = true ∧ Units.boundOk f.fn f.r = true :=
  Units.string_index_units

theorem allowed_mixed_are_equalities : ∀ f ∈ Units.allowedMixed, f.op = "==" ∧ f.kind = "cmp" :=
  Units.allowedMixed_eq_only

/-- the methods of the property that `str` has in gpython resolve … (partial: rfind, index, rindex, rsplit, partition,
rpartition, center, ljust, rjust, zfill are excluded – known finding C14-K02) -/
theorem property_methods_present_partial :
    ∀ m ∈ propertyMethods, m ∉ ["rfind", "index", "rindex", "rsplit", "partition", "rpartition", "center", "ljust", "rjust", "zfill"] →
      hasMethod m = true := by decide

/-- … the others are an AttributeError where Python defines a value: `'aa'.rfind('a')` is 1 -/
theorem missing_methods_witness :
    (∀ m ∈ ["rfind", "index", "rindex", "rsplit", "partition", "rpartition", "center", "ljust", "rjust", "zfill"],
      hasMethod m = false) ∧ lookupMethod "rfind" = .error .attr ∧
    Spec.strRfind [0x61, 0x61] [0x61] .absent .absent = .ok (.int 1) := ⟨by decide, rfl, rfl⟩

end GPy.C14
