/-
C14 property theorems.  Strings are modelled as the UTF-8 byte lists the Go code stores
(`encodeAll cs` for a code-point list `cs` of Unicode scalar values); the specification
speaks about the code-point lists themselves.  Every theorem quantifies over ALL code-point
lists (any length; 1-, 2-, 3- and 4-byte characters, quotes, backslash, controls, NUL) and, for
the repr theorems, over EVERY behaviour of `strconv.IsPrint` (parameter `isPrint`).
-/
import GPy.C14.Proofs
namespace GPy.C14
open Spec (Scalar)

/-! ### UTF-8 storage is invisible -/

/-- decoding the UTF-8 encoding of any scalar value gives the value back and consumes exactly its bytes
(1–4 bytes, astral characters included) -/
theorem utf8_decode_encode (c : Nat) (h : Scalar c) (rest : Bytes) :
    decodeRune (encodeRune c ++ rest) = (c, (encodeRune c).length) := decodeRune_encodeRune c h rest

/-- `len(s)` (`String.len` = utf8.RuneCountInString) is the number of code points -/
theorem len_spec (cs : List Nat) (h : ∀ c ∈ cs, Scalar c) : strLen (encodeAll cs) = cs.length := by
  simp [strLen, runeCount, runes_encodeAll cs h]

/-- iterating a string (`py.Iterate`, `for c in s`, `list(s)`) yields its code points one by one -/
theorem iter_spec (cs : List Nat) (h : ∀ c ∈ cs, Scalar c) :
    strIter (encodeAll cs) = (Spec.strIter cs).map encodeAll := by
  simp [strIter, Spec.strIter, runes_encodeAll cs h, encodeAll]

/-- `ord(chr(i)) == i` for every scalar value -/
theorem chr_ord_inverse (v : Nat) (h : Scalar v) :
    chr (.int v) = .ok (.str (encodeRune v)) ∧ ord (encodeRune v) = .ok (.int v) := by
  have hv : v < 0x110000 := scalar_lt v h
  constructor
  · unfold chr
    have h1 : ¬ ((v : Int) < IntMin ∨ (v : Int) > IntMax) := by unfold IntMin IntMax; omega
    have h2 : ¬ ((v : Int) < 0 ∨ (v : Int) ≥ 0x110000) := by omega
    simp only [h1, h2, if_false, Int.toNat_natCast]
  · unfold ord
    have hd := decodeRune_encodeRune v h []
    rw [List.append_nil] at hd
    simp only [hd, true_and]
    by_cases hf : v = runeError
    · subst hf; decide
    · simp [hf]

/-- `chr` agrees with Python on every argument except the surrogates (C14-K01) -/
theorem chr_spec_partial (a : Arg) (hk : ∀ v, a = .int v → Spec.kfSurrogate v = false) :
    agrees (chr a) (Spec.chr (argToSpec a)) := by
  cases a with
  | absent => simp [chr, Spec.chr, argToSpec, agrees, errAgrees]
  | none => simp [chr, Spec.chr, argToSpec, agrees, errAgrees]
  | int v =>
    have := hk v rfl
    unfold Spec.kfSurrogate at this
    unfold chr Spec.chr IntMin IntMax argToSpec
    by_cases h1 : v < -9223372036854775808 ∨ v > 9223372036854775807
    · have h1' : v < -9223372036854775808 ∨ 9223372036854775808 ≤ v := by omega
      simp [h1, h1', agrees, errAgrees]
    · have h1' : ¬ (v < -9223372036854775808 ∨ 9223372036854775808 ≤ v) := by omega
      by_cases h2 : v < 0 ∨ v ≥ 0x110000
      · have h2' : v < 0 ∨ 1114112 ≤ v := by omega
        simp [h1, h1', h2', agrees, errAgrees]
      · have h2' : ¬ (v < 0 ∨ 1114112 ≤ v) := by omega
        simp [h1, h1', h2', agrees, valAgrees, encodeAll]

/-- C14-K01 witness: the model (= the code) answers U+FFFD where Python has the surrogate itself -/
theorem chr_surrogate_witness :
    chr (.int 0xD800) = .ok (.str [0xEF, 0xBF, 0xBD]) ∧ encodeAll [0xD800] = [0xEF, 0xBF, 0xBD] ∧ Spec.kfSurrogate 0xD800 = true := by
  decide

/-! ### code-point <-> byte offset translation -/

/-- `String.pos(n)` is the byte offset of the n-th code point; the byte length when the string is shorter -/
theorem pos_spec (cs : List Nat) (h : ∀ c ∈ cs, Scalar c) (n : Int) (hn : 0 ≤ n) :
    pos (encodeAll cs) n = (encodeAll (cs.take n.toNat)).length := pos_encodeAll cs h n hn

/-- `String.slice(start, stop, len(s))` for 0 ≤ start ≤ stop ≤ len(s) (what GetIndices and the adjusted
start/end of find/count/startswith/endswith supply): the encoding of the code points start..stop, on the
ASCII fast path and on the general path alike, and never a panic -/
theorem slice_spec (cs : List Nat) (h : ∀ c ∈ cs, Scalar c) (i j : Nat) (hij : i ≤ j) (hj : j ≤ cs.length) :
    slice (encodeAll cs) i j cs.length = some (encodeAll ((cs.drop i).take (j - i))) :=
  slice_encodeAll cs h i j hij hj

example : slice (encodeAll [0x61, 0x1F600, 0xE9, 0x62]) 1 3 4 = some (encodeAll [0x1F600, 0xE9]) := by decide

/-! ### join, repetition, strip -/

/-- `sep.join(parts)`: joining the stored byte strings is the encoding of the code-point level join -/
theorem join_spec (sep : List Nat) (parts : List (List Nat)) :
    agrees (strJoin (encodeAll sep) (parts.map encodeAll)) (.ok (.str (Spec.joinStr sep parts))) := by
  simp [strJoin, agrees, valAgrees, join_encode]

/-- `s * n` for every int64 `n` (negative counts give the empty string) -/
theorem mul_spec (s : List Nat) (n : Int) : agrees (strMul (encodeAll s) n) (Spec.strMul s n) := by
  unfold strMul Spec.strMul
  simp only [agrees, valAgrees]
  rw [repeat_encode]
  by_cases h : n < 0
  · have : n.toNat = 0 := by omega
    simp [h, this]
  · simp [h]

/-- strip / lstrip / rstrip, without argument (Python's whitespace set) and with a set of characters:
whole code points are removed, never parts of a multi-byte character -/
theorem strip_spec (which : Nat) (s : List Nat) (chars : Option (List Nat)) (hs : ∀ c ∈ s, Scalar c)
    (hc : ∀ v, chars = some v → ∀ c ∈ v, Scalar c) :
    agrees (strStrip which (encodeAll s) (chars.map encodeAll)) (Spec.strStrip which s chars) := by
  unfold strStrip Spec.strStrip
  simp only [agrees, valAgrees, stripPred_eq chars hc, trimLeft, trimRight, trimBoth, runes_encodeAll s hs, dropWhileL_eq]
  split <;> (try split) <;> rfl


/-! ### searching: UTF-8 is a prefix code -/

/-- two strings whose encodings start with the same bytes start with the same character: a needle aligned
at a code-point boundary matches bytewise iff it matches character by character -/
theorem utf8_prefix_code (c d : Nat) (hc : Scalar c) (hd : Scalar d) (x y : Bytes)
    (h : encodeRune c ++ x = encodeRune d ++ y) : c = d ∧ x = y := encodeRune_cancel c d hc hd x y h

/-- `strings.HasPrefix` on the stored bytes decides the code-point prefix relation (startswith without start/end) -/
theorem startswith_bytes_spec (a b : List Nat) (ha : ∀ c ∈ a, Scalar c) (hb : ∀ c ∈ b, Scalar c) :
    hasPrefix (encodeAll a) (encodeAll b) = b.isPrefixOf a := hasPrefix_encode a b ha hb

/-- Python's and Go's whitespace predicates (after the U+001C..U+001F fix) coincide on every code point -/
theorem isSpace_spec (c : Nat) : isSpace c = Spec.isSpace c := isSpace_eq c

/-! ### repr round-trips through the lexer -/

/-- **repr_roundtrip_str**: for EVERY code-point list `cs` and EVERY printability predicate, the lexer
(`readString` + `DecodeEscape`) reads the literal that `StringEscape` writes back to exactly `cs`,
leaving any following text `rest` (that does not begin with a quote) unread. -/
theorem repr_roundtrip_str (isPrint : Nat → Bool) (cs : List Nat) (hs : ∀ c ∈ cs, Scalar c) (rest : List Nat)
    (hr : ∀ r, rest.head? = some r → isQuote r = false) :
    readString (escapeRunes isPrint cs ++ rest) = .ok (.str (encodeAll cs)) rest :=
  readString_escapeRunes isPrint cs hs rest hr

/-- the same at the level of the stored bytes: `readString(range(repr(s)))` for the `py.String` holding `cs` -/
theorem repr_roundtrip_str_bytes (isPrint : Nat → Bool) (cs : List Nat) (hs : ∀ c ∈ cs, Scalar c) :
    readString (runes (strRepr isPrint (encodeAll cs))) = .ok (.str (encodeAll cs)) [] := by
  unfold strRepr
  rw [runes_encodeAll cs hs]
  have hsc : ∀ x ∈ escapeRunes isPrint cs, Scalar x := by
    intro x hx
    unfold escapeRunes at hx
    simp only [List.mem_append, List.mem_cons, List.mem_nil_iff, or_false] at hx
    rcases hx with (hx | hx) | hx
    · subst hx; rcases chooseQuote_cases cs with h | h <;> (rw [h]; exact scalar_of_lt _ (by omega))
    · exact escBody_scalar isPrint _ cs hs x hx
    · subst hx; rcases chooseQuote_cases cs with h | h <;> (rw [h]; exact scalar_of_lt _ (by omega))
  rw [runes_encodeAll _ hsc]
  have := readString_escapeRunes isPrint cs hs [] (by intro r h; simp at h)
  rwa [List.append_nil] at this

/-- **repr_roundtrip_bytes**: the literal `Bytes.M__repr__` writes reads back to the same bytes -/
theorem repr_roundtrip_bytes (b : List Nat) (hb : ∀ c ∈ b, c < 256) (rest : List Nat)
    (hr : ∀ r, rest.head? = some r → isQuote r = false) :
    readString (bytesRepr b ++ rest) = .ok (.bytes b) rest :=
  readString_bytesRepr b hb rest hr

/-- non-vacuity: a string with both quotes, a backslash, newline, NUL, a 2-byte, a 3-byte and an astral character -/
example : ∀ c ∈ [39, 34, 92, 10, 0, 0xE9, 0x20AC, 0x1F600], Scalar c := by decide
example : readString (escapeRunes (fun _ => true) [39, 34, 92, 10, 0, 0xE9, 0x1F600] ++ [44, 32]) =
    .ok (.str (encodeAll [39, 34, 92, 10, 0, 0xE9, 0x1F600])) [44, 32] := by decide

end GPy.C14
