/-
C14 helper lemmas, second round: the start/end window of find / count / startswith / endswith
(model: indexArg + adjustIndices + String.slice; specification: CPython's ADJUST_INDICES),
suffix matching, and the empty-`old` case of replace.
-/
import GPy.C14.Sync
namespace GPy.C14
open Spec (Scalar)

/-! ### the window -/

/-- model and specification index adjustment agree whenever the length fits a Go int:
same stop; same "start > stop" verdict; same start whenever start ≤ stop -/
theorem adjust_model_spec (a b : Arg) (n : Nat) (hn : (n : Int) < IntMax) :
    let m := adjustIndices (indexArg a 0) (indexArg b n) n
    let se := Spec.adjust (Spec.argOr (argToSpec a) 0) (Spec.argOr (argToSpec b) n) n
    m.2 = se.2 ∧ 0 ≤ se.2 ∧ se.2 ≤ n ∧ 0 ≤ se.1 ∧ ((m.1 > m.2) ↔ (se.1 > se.2)) ∧ (se.1 ≤ se.2 → m.1 = se.1) := by
  unfold IntMax at hn
  cases a <;> cases b <;>
    simp only [adjustIndices, Spec.adjust, indexArg, Spec.argOr, argToSpec, IntMin, IntMax] <;>
    (repeat' split) <;> omega

/-- the code points the window `[start:end]` selects -/
def specWin (cs : List Nat) (a b : Arg) : Int × Int :=
  Spec.adjust (Spec.argOr (argToSpec a) 0) (Spec.argOr (argToSpec b) cs.length) cs.length

theorem window_encode (cs : List Nat) (hs : ∀ c ∈ cs, Scalar c) (a b : Arg) (hlen : (cs.length : Int) < IntMax) :
    let se := specWin cs a b
    (se.1 > se.2 → window (encodeAll cs) a b = none) ∧
    (se.1 ≤ se.2 → window (encodeAll cs) a b =
        some (se.1, some (encodeAll ((cs.drop se.1.toNat).take (se.2 - se.1).toNat)))) ∧
    0 ≤ se.1 ∧ 0 ≤ se.2 ∧ se.2 ≤ cs.length := by
  have hl : strLen (encodeAll cs) = cs.length := by simp [strLen, runeCount, runes_encodeAll cs hs]
  obtain ⟨h2, h0, hn, h1, hgt, heq⟩ := adjust_model_spec a b cs.length hlen
  simp only [specWin]
  refine ⟨?_, ?_, h1, h0, hn⟩
  · intro h
    unfold window
    simp only [hl]
    rw [if_pos (hgt.mpr h)]
  · intro h
    unfold window
    simp only [hl]
    have hng : ¬ ((adjustIndices (indexArg a 0) (indexArg b cs.length) cs.length).1 >
        (adjustIndices (indexArg a 0) (indexArg b cs.length) cs.length).2) := by
      intro hc; have := hgt.mp hc; omega
    rw [if_neg hng, heq h, h2]
    generalize (Spec.adjust (Spec.argOr (argToSpec a) 0) (Spec.argOr (argToSpec b) cs.length) cs.length).1 = st at *
    generalize (Spec.adjust (Spec.argOr (argToSpec a) 0) (Spec.argOr (argToSpec b) cs.length) cs.length).2 = en at *
    have := slice_encodeAll cs hs st.toNat en.toNat (by omega) (by omega)
    have hst : ((st.toNat : Nat) : Int) = st := by omega
    have hen : ((en.toNat : Nat) : Int) = en := by omega
    rw [hst, hen] at this
    rw [this]
    have : en.toNat - st.toNat = (en - st).toNat := by omega
    rw [this]

theorem specWindow_eq (cs : List Nat) (a b : Arg) (need : Nat) :
    Spec.window cs (argToSpec a) (argToSpec b) need =
      if (specWin cs a b).2 - (specWin cs a b).1 < (need : Int) then none
      else some ((specWin cs a b).1.toNat, (cs.drop (specWin cs a b).1.toNat).take ((specWin cs a b).2 - (specWin cs a b).1).toNat) := rfl

/-! ### find with start/end -/

theorem take_encode_boundary (w : List Nat) (i : Nat) :
    (encodeAll w).take (encodeAll (w.take i)).length = encodeAll (w.take i) := by
  conv => lhs; rw [encodeAll_take_drop w i]
  simp

theorem strFind_encode (cs sub : List Nat) (hs : ∀ c ∈ cs, Scalar c) (hsub : ∀ c ∈ sub, Scalar c) (a b : Arg)
    (hlen : (cs.length : Int) < IntMax) :
    agrees (strFind (encodeAll cs) (encodeAll sub) a b) (Spec.strFind cs sub (argToSpec a) (argToSpec b)) := by
  obtain ⟨hnone, hsome, h1, h2, h3⟩ := window_encode cs hs a b hlen
  unfold strFind Spec.strFind
  rw [specWindow_eq]
  generalize specWin cs a b = se at *
  by_cases hgt : se.1 > se.2
  · rw [hnone hgt]
    have : se.2 - se.1 < (sub.length : Int) := by omega
    simp [this, agrees, valAgrees]
  · have hle : se.1 ≤ se.2 := by omega
    rw [hsome hle]
    generalize hw : (cs.drop se.1.toNat).take (se.2 - se.1).toNat = w
    have hws : ∀ c ∈ w, Scalar c := by
      intro c hc; rw [← hw] at hc; exact hs c (List.mem_of_mem_drop (List.mem_of_mem_take hc))
    have hwl : (w.length : Int) = se.2 - se.1 := by
      rw [← hw]; simp only [List.length_take, List.length_drop]; omega
    simp only [index_fidx, find_fidx, fidx_encode w sub hws hsub]
    cases hf : fidx sub w with
    | none => by_cases hsh : se.2 - se.1 < (sub.length : Int) <;> simp [hsh, hf, agrees, valAgrees]
    | some i =>
      have hi := fidx_le sub w i hf
      have hnl : ¬ (se.2 - se.1 < (sub.length : Int)) := by omega
      simp only [hf, Option.map_some, hnl, if_false]
      have hneg : ¬ (((encodeAll (w.take i)).length : Int) < 0) := by omega
      have hneg' : ¬ ((i : Int) < 0) := by omega
      simp only [hneg, hneg', if_false, Int.toNat_natCast, take_encode_boundary, agrees, valAgrees]
      have : strLen (encodeAll (w.take i)) = i := by
        simp only [strLen, runeCount, runes_encodeAll _ (fun c hc => hws c (List.mem_of_mem_take hc)), List.length_take]
        omega
      rw [this]; omega

/-! ### count with start/end -/

theorem countAux_short (sub : List Nat) : ∀ (f : Nat) (s : List Nat), s.length < sub.length → countAux sub f s = 0 := by
  intro f
  induction f with
  | zero => intro s _; cases s <;> rfl
  | succ f ih =>
    intro s hl
    cases s with
    | nil => rfl
    | cons c t =>
      have : sub.isPrefixOf (c :: t) = false := by
        apply Bool.eq_false_iff.mpr
        intro hp
        have := (List.isPrefixOf_iff_prefix.mp hp).length_le
        omega
      simp only [countAux, this, Bool.false_eq_true, if_false]
      exact ih t (by simp only [List.length_cons] at hl; omega)

theorem count_encode (w sub : List Nat) (hw : ∀ c ∈ w, Scalar c) (hsub : ∀ c ∈ sub, Scalar c) :
    count (encodeAll w) (encodeAll sub) = Spec.count w sub := by
  unfold count Spec.count
  rw [encodeAll_isEmpty]
  by_cases he : sub.isEmpty = true
  · simp [he, runeCount, runes_encodeAll w hw]
  · have hne : sub ≠ [] := by intro h; subst h; simp at he
    simp only [he, Bool.false_eq_true, if_false]
    rw [countAux_encode sub hne hsub w.length w hw _ (Nat.le_refl _) (Nat.le_refl _)]
    -- Model.countAux and Spec.countAux are the same function
    have : ∀ f s, countAux sub f s = Spec.countAux sub f s := by
      intro f
      induction f with
      | zero => intro s; cases s <;> rfl
      | succ f ih => intro s; cases s with
        | nil => rfl
        | cons c t => simp only [countAux, Spec.countAux, ih]
    exact this _ _

theorem strCount_encode (cs sub : List Nat) (hs : ∀ c ∈ cs, Scalar c) (hsub : ∀ c ∈ sub, Scalar c) (a b : Arg)
    (hlen : (cs.length : Int) < IntMax) :
    agrees (strCount (encodeAll cs) (encodeAll sub) a b) (Spec.strCount cs sub (argToSpec a) (argToSpec b)) := by
  obtain ⟨hnone, hsome, h1, h2, h3⟩ := window_encode cs hs a b hlen
  unfold strCount Spec.strCount
  rw [specWindow_eq]
  generalize specWin cs a b = se at *
  by_cases hgt : se.1 > se.2
  · rw [hnone hgt]
    have : se.2 - se.1 < (sub.length : Int) := by omega
    simp [this, agrees, valAgrees]
  · have hle : se.1 ≤ se.2 := by omega
    rw [hsome hle]
    generalize hw : (cs.drop se.1.toNat).take (se.2 - se.1).toNat = w
    have hws : ∀ c ∈ w, Scalar c := by
      intro c hc; rw [← hw] at hc; exact hs c (List.mem_of_mem_drop (List.mem_of_mem_take hc))
    have hwl : (w.length : Int) = se.2 - se.1 := by
      rw [← hw]; simp only [List.length_take, List.length_drop]; omega
    simp only [count_encode w sub hws hsub]
    by_cases hsh : se.2 - se.1 < (sub.length : Int)
    · simp only [hsh, if_true, agrees, valAgrees]
      have hne : sub.isEmpty = false := by cases sub with
        | nil => simp at hsh; omega
        | cons _ _ => rfl
      unfold Spec.count
      simp only [hne, Bool.false_eq_true, if_false]
      have : ∀ f s, Spec.countAux sub f s = countAux sub f s := by
        intro f
        induction f with
        | zero => intro s; cases s <;> rfl
        | succ f ih => intro s; cases s with
          | nil => rfl
          | cons c t => simp only [countAux, Spec.countAux, ih]
      rw [this, countAux_short sub _ w (by omega)]; rfl
    · simp [hsh, agrees, valAgrees]

/-! ### startswith / endswith with start/end -/

theorem isPrefixOf_short (sub w : List Nat) (h : w.length < sub.length) : sub.isPrefixOf w = false := by
  apply Bool.eq_false_iff.mpr
  intro hp
  have := (List.isPrefixOf_iff_prefix.mp hp).length_le
  omega

/-- the encoding of `b` is a suffix of the encoding of `a` iff `b` is a suffix of `a` -/
theorem suffix_encode (a b : List Nat) (ha : ∀ c ∈ a, Scalar c) (hb : ∀ c ∈ b, Scalar c) :
    encodeAll b <:+ encodeAll a ↔ b <:+ a := by
  constructor
  · intro ⟨z, hz⟩
    by_cases hne : b = []
    · subst hne; exact List.nil_suffix
    · obtain ⟨nh, nt, hn, hh⟩ := needle_encodeAll b hne
      have hd : (encodeAll a).drop z.length = nh :: nt := by rw [← hz, List.drop_left, hn]
      obtain ⟨i, _, _, hrest⟩ := boundary_of_lead a z.length nh nt hd hh
      rw [← hn] at hrest
      have := encodeAll_inj' b (a.drop i) hb (fun c hc => ha c (List.mem_of_mem_drop hc)) hrest
      rw [this]; exact List.drop_suffix i a
  · intro ⟨w, hw⟩
    exact ⟨encodeAll w, by rw [← encodeAll_append, hw]⟩

theorem hasSuffix_encode (a b : List Nat) (ha : ∀ c ∈ a, Scalar c) (hb : ∀ c ∈ b, Scalar c) :
    hasSuffix (encodeAll a) (encodeAll b) = Spec.endsWith a b := by
  unfold hasSuffix Spec.endsWith
  rw [Bool.eq_iff_iff, List.isPrefixOf_iff_prefix, List.isPrefixOf_iff_prefix, List.reverse_prefix, List.reverse_prefix]
  exact suffix_encode a b ha hb

theorem any_congr_mem {α} (l : List α) (f g : α → Bool) (h : ∀ x ∈ l, f x = g x) : l.any f = l.any g := by
  induction l with
  | nil => rfl
  | cons x t ih =>
    simp only [List.any_cons, h x (by simp), ih (fun y hy => h y (by simp [hy]))]

theorem tailMatch_encode (suffix : Bool) (cs : List Nat) (subs : List (List Nat)) (hs : ∀ c ∈ cs, Scalar c)
    (hsubs : ∀ sub ∈ subs, ∀ c ∈ sub, Scalar c) (a b : Arg) (hlen : (cs.length : Int) < IntMax) :
    agrees (tailMatch suffix (encodeAll cs) (subs.map encodeAll) a b)
      (Spec.tailMatch suffix cs subs (argToSpec a) (argToSpec b)) := by
  obtain ⟨hnone, hsome, h1, h2, h3⟩ := window_encode cs hs a b hlen
  unfold tailMatch Spec.tailMatch
  simp only [specWindow_eq]
  generalize specWin cs a b = se at *
  by_cases hgt : se.1 > se.2
  · rw [hnone hgt]
    simp only [agrees, valAgrees]
    symm
    rw [List.any_eq_false]
    intro sub _
    have : se.2 - se.1 < (sub.length : Int) := by omega
    simp [this]
  · have hle : se.1 ≤ se.2 := by omega
    rw [hsome hle]
    generalize hw : (cs.drop se.1.toNat).take (se.2 - se.1).toNat = w
    have hws : ∀ c ∈ w, Scalar c := by
      intro c hc; rw [← hw] at hc; exact hs c (List.mem_of_mem_drop (List.mem_of_mem_take hc))
    have hwl : (w.length : Int) = se.2 - se.1 := by
      rw [← hw]; simp only [List.length_take, List.length_drop]; omega
    simp only [agrees, valAgrees, List.any_map]
    apply any_congr_mem
    intro sub hsub
    simp only [Function.comp]
    by_cases hsh : se.2 - se.1 < (sub.length : Int)
    · simp only [hsh, if_true]
      cases suffix with
      | false =>
        simp only [Bool.false_eq_true, if_false]
        rw [hasPrefix_encode w sub hws (hsubs sub hsub)]
        exact isPrefixOf_short sub w (by omega)
      | true =>
        simp only [if_true]
        rw [hasSuffix_encode w sub hws (hsubs sub hsub)]
        unfold Spec.endsWith
        exact isPrefixOf_short _ _ (by simp only [List.length_reverse]; omega)
    · simp only [hsh, if_false]
      cases suffix with
      | false => simp only [Bool.false_eq_true, if_false]; exact hasPrefix_encode w sub hws (hsubs sub hsub)
      | true => simp only [if_true]; exact hasSuffix_encode w sub hws (hsubs sub hsub)


/-! ### replace with an empty `old` -/

theorem replaceEmptyAux_nil (new : Bytes) (f n : Nat) : replaceEmptyAux new f n [] = [] := by cases f <;> rfl

/-- `strings.Replace(s, "", new, k)` inserts before whole code points: with `k ≤ len(s)` insertions the loop gives
`interleave`; with `k = len(s) + 1` the final insertion at the end is the one `replace` appends -/
theorem replaceEmptyAux_encode (new : List Nat) :
    ∀ (s : List Nat), (∀ c ∈ s, Scalar c) → ∀ (f n : Nat), (encodeAll s).length ≤ f →
      (n ≤ s.length → replaceEmptyAux (encodeAll new) f n (encodeAll s) = encodeAll (Spec.interleave new n s)) ∧
      (n = s.length + 1 → replaceEmptyAux (encodeAll new) f n (encodeAll s) ++ encodeAll new = encodeAll (Spec.interleave new n s)) := by
  intro s
  induction s with
  | nil =>
    intro _ f n _
    constructor
    · intro hn
      have : n = 0 := by simpa using hn
      subst this
      simp [encodeAll, replaceEmptyAux_nil, Spec.interleave]
    · intro hn
      simp only [List.length_nil, Nat.zero_add] at hn
      subst hn
      simp [encodeAll, replaceEmptyAux_nil, Spec.interleave]
  | cons c t ih =>
    intro hs f n hf
    have hc : Scalar c := hs c (by simp)
    have ht : ∀ x ∈ t, Scalar x := fun x hx => hs x (by simp [hx])
    obtain ⟨hd, tl, he, _, _⟩ := encodeRune_shape c
    have hE : encodeAll (c :: t) = hd :: (tl ++ encodeAll t) := by simp [encodeAll, he]
    have hlen : (encodeAll (c :: t)).length = (encodeRune c).length + (encodeAll t).length := by simp [encodeAll]
    have hpos := encodeRune_length_pos c
    obtain ⟨f', rfl⟩ : ∃ f', f = f' + 1 := ⟨f - 1, by omega⟩
    have hdec : decodeRune (hd :: (tl ++ encodeAll t)) = (c, (encodeRune c).length) := by
      rw [← hE]; exact decodeRune_encodeRune c hc (encodeAll t)
    cases n with
    | zero =>
      constructor
      · intro _; rw [hE]; simp only [replaceEmptyAux, if_true]; rw [← hE]; simp [Spec.interleave]
      · intro h; simp at h
    | succ n =>
      have hstep : replaceEmptyAux (encodeAll new) (f' + 1) (n + 1) (encodeAll (c :: t)) =
          encodeAll new ++ encodeRune c ++ replaceEmptyAux (encodeAll new) f' n (encodeAll t) := by
        rw [hE]
        simp only [replaceEmptyAux, Nat.add_one_ne_zero, if_false, hdec, Nat.add_sub_cancel]
        rw [← hE]
        simp [encodeAll]
      obtain ⟨ihA, ihB⟩ := ih ht f' n (by omega)
      constructor
      · intro hn
        rw [hstep, ihA (by simp only [List.length_cons] at hn; omega)]
        simp [Spec.interleave, encodeAll_append, encodeAll]
      · intro hn
        rw [hstep, List.append_assoc, ihB (by simp only [List.length_cons] at hn; omega)]
        simp [Spec.interleave, encodeAll_append, encodeAll]

end GPy.C14
