/-
C14 specification: Python's `str` is a sequence of Unicode code points.  Every
operation is defined here directly on code-point lists (`Str = List Nat`), from the
Python language reference / CPython's documented algorithms (ADJUST_INDICES for
optional start/end arguments; `end - start < len(sub)` means "no match"), with no
reference to UTF-8, bytes or the Go formulas.

Python semantics are those of 3.4 except for one point where 3.4 itself was later
declared buggy: `''.replace('', x, n)` for n > 0 is `x` (bpo-28029, fixed in 3.9).
-/
import GPy.Common.Basic
namespace GPy.C14.Spec

abbrev Str := List Nat

/-- a Unicode scalar value (what valid UTF-8 can carry) -/
def Scalar (c : Nat) : Prop := c < 0xD800 ∨ (0xE000 ≤ c ∧ c < 0x110000)
instance (c : Nat) : Decidable (Scalar c) := by unfold Scalar; exact inferInstance

inductive Err where
  | type | value | overflow | attr | syntax
deriving DecidableEq, Repr, Inhabited

/-- an optional integer argument: absent, `None`, or an (unbounded) int -/
inductive Arg where
  | absent | none | int (v : Int)
deriving DecidableEq, Repr, Inhabited

inductive Val where
  | str (s : Str)
  | int (v : Int)
  | bool (b : Bool)
  | list (xs : List Str)
deriving DecidableEq, Repr, Inhabited

abbrev Res := Except Err Val

/-- characters Python's `str.split()` / `str.strip()` / `str.isspace()` treat as whitespace
(bidirectional type WS, B or S, or category Zs; Unicode 6.3 as used by Python 3.4) -/
def isSpace (c : Nat) : Bool :=
  [0x09, 0x0A, 0x0B, 0x0C, 0x0D, 0x1C, 0x1D, 0x1E, 0x1F, 0x20, 0x85, 0xA0, 0x1680,
   0x2000, 0x2001, 0x2002, 0x2003, 0x2004, 0x2005, 0x2006, 0x2007, 0x2008, 0x2009, 0x200A,
   0x2028, 0x2029, 0x202F, 0x205F, 0x3000].contains c

/-- lowest index at which `sub` occurs in `s` (offset `off` already passed), -1 if none -/
def findFrom (sub : Str) : Str → Nat → Int
  | [], off => if sub.isEmpty then (off : Int) else -1
  | c :: t, off => if sub.isPrefixOf (c :: t) then (off : Int) else findFrom sub t (off + 1)

def find (s sub : Str) : Int := findFrom sub s 0

/-- number of non-overlapping occurrences, scanning left to right (`sub` non-empty) -/
def countAux (sub : Str) : Nat → Str → Nat
  | 0, _ => 0
  | _, [] => 0
  | f + 1, c :: t =>
    if sub.isPrefixOf (c :: t) then 1 + countAux sub f ((c :: t).drop sub.length) else countAux sub f t

def count (s sub : Str) : Nat := if sub.isEmpty then s.length + 1 else countAux sub s.length s

/-- optional start/end argument: None/absent give the default; any int is accepted (it is clamped below) -/
def argOr (a : Arg) (dflt : Int) : Int :=
  match a with
  | .int v => v
  | _ => dflt

/-- CPython's ADJUST_INDICES -/
def adjust (start stop len : Int) : Int × Int :=
  let stop := if stop > len then len else if stop < 0 then max (stop + len) 0 else stop
  let start := if start < 0 then max (start + len) 0 else start
  (start, stop)

/-- the window `s[start:end]` the search methods look at, `none` when `end - start < need` -/
def window (s : Str) (a b : Arg) (need : Nat) : Option (Nat × Str) :=
  let n : Int := s.length
  let se := adjust (argOr a 0) (argOr b n) n
  if se.2 - se.1 < (need : Int) then none
  else some (se.1.toNat, (s.drop se.1.toNat).take (se.2 - se.1).toNat)

def strFind (s sub : Str) (a b : Arg) : Res :=
  match window s a b sub.length with
  | none => .ok (.int (-1))
  | some (st, w) => let i := find w sub; .ok (.int (if i < 0 then -1 else st + i))

def strCount (s sub : Str) (a b : Arg) : Res :=
  match window s a b sub.length with
  | none => .ok (.int 0)
  | some (_, w) => .ok (.int (count w sub))

def endsWith (w sub : Str) : Bool := sub.reverse.isPrefixOf w.reverse

/-- startswith / endswith with a str or a tuple of str -/
def tailMatch (suffix : Bool) (s : Str) (subs : List Str) (a b : Arg) : Res :=
  .ok (.bool (subs.any fun sub =>
    match window s a b sub.length with
    | none => false
    | some (_, w) => if suffix then endsWith w sub else sub.isPrefixOf w))

def contains (s sub : Str) : Bool := find s sub ≥ 0

/-- an argument that must be an int fitting a C `Py_ssize_t` -/
def ssizeArg (a : Arg) (dflt : Int) : Except Err Int :=
  match a with
  | .absent => .ok dflt
  | .none => .error .type
  | .int v => if v < -(2 ^ 63) ∨ v ≥ 2 ^ 63 then .error .overflow else .ok v

/-- `s.split(sep, n)` for a non-empty `sep`: cut at the first `n` occurrences (fuel ≥ length + 1) -/
def splitOn (sep : Str) : Nat → Nat → Str → List Str
  | 0, _, s => [s]
  | f + 1, n, s =>
    if n = 0 then [s] else
    let i := find s sep
    if i < 0 then [s] else s.take i.toNat :: splitOn sep f (n - 1) (s.drop (i.toNat + sep.length))

/-- `s.split(None, n)`: runs of whitespace separate words; leading whitespace is dropped; when the
limit is reached the rest (with its trailing whitespace) is the last word -/
def splitWs : Nat → Nat → Str → List Str
  | 0, _, _ => []
  | f + 1, n, s =>
    let s' := s.dropWhile isSpace
    if s'.isEmpty then [] else
    if n = 0 then [s'] else
    let w := s'.takeWhile (fun c => !isSpace c)
    w :: splitWs f (n - 1) (s'.drop w.length)

def strSplit (s : Str) (sep : Option Str) (maxsplit : Arg) : Res :=
  match ssizeArg maxsplit (-1) with
  | .error e => .error e
  | .ok m =>
    let n : Nat := if m < 0 then s.length + 1 else m.toNat
    match sep with
    | some v => if v.isEmpty then .error .value else .ok (.list (splitOn v (s.length + 1) n s))
    | none => .ok (.list (splitWs (s.length + 1) n s))

def joinStr (sep : Str) : List Str → Str
  | [] => []
  | [x] => x
  | x :: y :: r => x ++ sep ++ joinStr sep (y :: r)

def stripPred (chars : Option Str) : Nat → Bool :=
  match chars with
  | none => isSpace
  | some v => fun c => v.contains c

/-- which = 0 strip, 1 lstrip, 2 rstrip -/
def strStrip (which : Nat) (s : Str) (chars : Option Str) : Res :=
  let f := stripPred chars
  let l (x : Str) := x.dropWhile f
  let r (x : Str) := (x.reverse.dropWhile f).reverse
  .ok (.str (if which = 1 then l s else if which = 2 then r s else r (l s)))

/-- replace the first `n` non-overlapping occurrences of a non-empty `old` -/
def replaceOn (old new : Str) : Nat → Nat → Str → Str
  | 0, _, s => s
  | f + 1, n, s =>
    if n = 0 then s else
    let i := find s old
    if i < 0 then s else s.take i.toNat ++ new ++ replaceOn old new f (n - 1) (s.drop (i.toNat + old.length))

/-- empty `old`: `new` is inserted before each of the first characters and finally at the end, `n` times at most -/
def interleave (new : Str) : Nat → Str → Str
  | 0, s => s
  | _ + 1, [] => new
  | n + 1, c :: t => new ++ c :: interleave new n t

def strReplace (s old new : Str) (cnt : Arg) : Res :=
  match ssizeArg cnt (-1) with
  | .error e => .error e
  | .ok m =>
    let n : Nat := if m < 0 then s.length + 1 else m.toNat
    .ok (.str (if old.isEmpty then interleave new n s else replaceOn old new (s.length + 1) n s))

def ltStr : Str → Str → Bool
  | _, [] => false
  | [], _ :: _ => true
  | a :: s, b :: t => if a < b then true else if b < a then false else ltStr s t

/-- 0 lt, 1 le, 2 eq, 3 ne, 4 gt, 5 ge -/
def strCmp (op : Nat) (a b : Str) : Bool :=
  match op with
  | 0 => ltStr a b
  | 1 => !ltStr b a
  | 2 => a == b
  | 3 => !(a == b)
  | 4 => ltStr b a
  | _ => !ltStr a b

def strMul (s : Str) (n : Int) : Res := .ok (.str ((List.replicate n.toNat s).flatten))

def strIter (s : Str) : List Str := s.map fun c => [c]

/-- `chr(i)`: any code point 0..0x10FFFF, surrogates included -/
def chr (a : Arg) : Res :=
  match a with
  | .int v =>
    if v < -(2 ^ 63) ∨ v ≥ 2 ^ 63 then .error .overflow
    else if v < 0 ∨ v ≥ 0x110000 then .error .value
    else .ok (.str [v.toNat])
  | _ => .error .type

def ord (s : Str) : Res :=
  match s with
  | [c] => .ok (.int c)
  | _ => .error .type

/-! ### known findings -/

/-- C14-K01: a Go string holds UTF-8, so a lone surrogate cannot be represented: `chr(0xD800..0xDFFF)`
yields U+FFFD -/
def kfSurrogate (v : Int) : Bool := 0xD800 ≤ v ∧ v < 0xE000

end GPy.C14.Spec
