/-
C14 specification: Python's `str` is a sequence of Unicode code points.  Every
operation is defined here directly on code-point lists (`Str = List Nat`), from the
Python language reference / CPython's documented algorithms (ADJUST_INDICES for
optional start/end arguments; `end - start < len(sub)` means "no match"), with no
reference to UTF-8, bytes or the Go formulas.

Python semantics are those of 3.4 except for one point where 3.4 itself was later
declared buggy: `''.replace('', x, n)` for n > 0 is `x` (bpo-28029, fixed in 3.9).
-/
import GPy.Common.Basic
namespace GPy.C14.Spec

abbrev Str := List Nat

/-- a Unicode scalar value (what valid UTF-8 can carry) -/
def Scalar (c : Nat) : Prop := c < 0xD800 ∨ (0xE000 ≤ c ∧ c < 0x110000)
instance (c : Nat) : Decidable (Scalar c) := by unfold Scalar; exact inferInstance

inductive Err where
  | type | value | overflow | attr | syntax | index
deriving DecidableEq, Repr, Inhabited

/-- an optional integer argument: absent, `None`, or an (unbounded) int -/
inductive Arg where
  | absent | none | int (v : Int)
deriving DecidableEq, Repr, Inhabited

inductive Val where
  | str (s : Str)
  | int (v : Int)
  | bool (b : Bool)
  | list (xs : List Str)
deriving DecidableEq, Repr, Inhabited

abbrev Res := Except Err Val

/-- characters Python's `str.split()` / `str.strip()` / `str.isspace()` treat as whitespace
(bidirectional type WS, B or S, or category Zs; Unicode 6.3 as used by Python 3.4) -/
def isSpace (c : Nat) : Bool :=
  [0x09, 0x0A, 0x0B, 0x0C, 0x0D, 0x1C, 0x1D, 0x1E, 0x1F, 0x20, 0x85, 0xA0, 0x1680,
   0x2000, 0x2001, 0x2002, 0x2003, 0x2004, 0x2005, 0x2006, 0x2007, 0x2008, 0x2009, 0x200A,
   0x2028, 0x2029, 0x202F, 0x205F, 0x3000].contains c

/-- lowest index at which `sub` occurs in `s` (offset `off` already passed), -1 if none -/
def findFrom (sub : Str) : Str → Nat → Int
  | [], off => if sub.isEmpty then (off : Int) else -1
  | c :: t, off => if sub.isPrefixOf (c :: t) then (off : Int) else findFrom sub t (off + 1)

def find (s sub : Str) : Int := findFrom sub s 0

/-- number of non-overlapping occurrences, scanning left to right (`sub` non-empty) -/
def countAux (sub : Str) : Nat → Str → Nat
  | 0, _ => 0
  | _, [] => 0
  | f + 1, c :: t =>
    if sub.isPrefixOf (c :: t) then 1 + countAux sub f ((c :: t).drop sub.length) else countAux sub f t

def count (s sub : Str) : Nat := if sub.isEmpty then s.length + 1 else countAux sub s.length s

/-- optional start/end argument: None/absent give the default; any int is accepted (it is clamped below) -/
def argOr (a : Arg) (dflt : Int) : Int :=
  match a with
  | .int v => v
  | _ => dflt

/-- CPython's ADJUST_INDICES -/
def adjust (start stop len : Int) : Int × Int :=
  let stop := if stop > len then len else if stop < 0 then max (stop + len) 0 else stop
  let start := if start < 0 then max (start + len) 0 else start
  (start, stop)

/-- the window `s[start:end]` the search methods look at, `none` when `end - start < need` -/
def window (s : Str) (a b : Arg) (need : Nat) : Option (Nat × Str) :=
  let n : Int := s.length
  let se := adjust (argOr a 0) (argOr b n) n
  if se.2 - se.1 < (need : Int) then none
  else some (se.1.toNat, (s.drop se.1.toNat).take (se.2 - se.1).toNat)

def strFind (s sub : Str) (a b : Arg) : Res :=
  match window s a b sub.length with
  | none => .ok (.int (-1))
  | some (st, w) => let i := find w sub; .ok (.int (if i < 0 then -1 else st + i))

def strCount (s sub : Str) (a b : Arg) : Res :=
  match window s a b sub.length with
  | none => .ok (.int 0)
  | some (_, w) => .ok (.int (count w sub))

def endsWith (w sub : Str) : Bool := sub.reverse.isPrefixOf w.reverse

/-- startswith / endswith with a str or a tuple of str -/
def tailMatch (suffix : Bool) (s : Str) (subs : List Str) (a b : Arg) : Res :=
  .ok (.bool (subs.any fun sub =>
    match window s a b sub.length with
    | none => false
    | some (_, w) => if suffix then endsWith w sub else sub.isPrefixOf w))

def contains (s sub : Str) : Bool := find s sub ≥ 0

/-- an argument that must be an int fitting a C `Py_ssize_t` -/
def ssizeArg (a : Arg) (dflt : Int) : Except Err Int :=
  match a with
  | .absent => .ok dflt
  | .none => .error .type
  | .int v => if v < -(2 ^ 63) ∨ v ≥ 2 ^ 63 then .error .overflow else .ok v

/-- `s.split(sep, n)` for a non-empty `sep`: cut at the first `n` occurrences (fuel ≥ length + 1) -/
def splitOn (sep : Str) : Nat → Nat → Str → List Str
  | 0, _, s => [s]
  | f + 1, n, s =>
    if n = 0 then [s] else
    let i := find s sep
    if i < 0 then [s] else s.take i.toNat :: splitOn sep f (n - 1) (s.drop (i.toNat + sep.length))

/-- `s.split(None, n)`: runs of whitespace separate words; leading whitespace is dropped; when the
limit is reached the rest (with its trailing whitespace) is the last word -/
def splitWs : Nat → Nat → Str → List Str
  | 0, _, _ => []
  | f + 1, n, s =>
    let s' := s.dropWhile isSpace
    if s'.isEmpty then [] else
    if n = 0 then [s'] else
    let w := s'.takeWhile (fun c => !isSpace c)
    w :: splitWs f (n - 1) (s'.drop w.length)

def strSplit (s : Str) (sep : Option Str) (maxsplit : Arg) : Res :=
  match ssizeArg maxsplit (-1) with
  | .error e => .error e
  | .ok m =>
    let n : Nat := if m < 0 then s.length + 1 else m.toNat
    match sep with
    | some v => if v.isEmpty then .error .value else .ok (.list (splitOn v (s.length + 1) n s))
    | none => .ok (.list (splitWs (s.length + 1) n s))

def joinStr (sep : Str) : List Str → Str
  | [] => []
  | [x] => x
  | x :: y :: r => x ++ sep ++ joinStr sep (y :: r)

def stripPred (chars : Option Str) : Nat → Bool :=
  match chars with
  | none => isSpace
  | some v => fun c => v.contains c

/-- which = 0 strip, 1 lstrip, 2 rstrip -/
def strStrip (which : Nat) (s : Str) (chars : Option Str) : Res :=
  let f := stripPred chars
  let l (x : Str) := x.dropWhile f
  let r (x : Str) := (x.reverse.dropWhile f).reverse
  .ok (.str (if which = 1 then l s else if which = 2 then r s else r (l s)))

/-- replace the first `n` non-overlapping occurrences of a non-empty `old` -/
def replaceOn (old new : Str) : Nat → Nat → Str → Str
  | 0, _, s => s
  | f + 1, n, s =>
    if n = 0 then s else
    let i := find s old
    if i < 0 then s else s.take i.toNat ++ new ++ replaceOn old new f (n - 1) (s.drop (i.toNat + old.length))

/-- empty `old`: `new` is inserted before each of the first characters and finally at the end, `n` times at most -/
def interleave (new : Str) : Nat → Str → Str
  | 0, s => s
  | _ + 1, [] => new
  | n + 1, c :: t => new ++ c :: interleave new n t

def strReplace (s old new : Str) (cnt : Arg) : Res :=
  match ssizeArg cnt (-1) with
  | .error e => .error e
  | .ok m =>
    let n : Nat := if m < 0 then s.length + 1 else m.toNat
    .ok (.str (if old.isEmpty then interleave new n s else replaceOn old new (s.length + 1) n s))

def ltStr : Str → Str → Bool
  | _, [] => false
  | [], _ :: _ => true
  | a :: s, b :: t => if a < b then true else if b < a then false else ltStr s t

/-- 0 lt, 1 le, 2 eq, 3 ne, 4 gt, 5 ge -/
def strCmp (op : Nat) (a b : Str) : Bool :=
  match op with
  | 0 => ltStr a b
  | 1 => !ltStr b a
  | 2 => a == b
  | 3 => !(a == b)
  | 4 => ltStr b a
  | _ => !ltStr a b

def strMul (s : Str) (n : Int) : Res := .ok (.str ((List.replicate n.toNat s).flatten))

def strIter (s : Str) : List Str := s.map fun c => [c]

/-- `s[i]`: negative indices count from the end; out of range is an IndexError; the result is a one-character string -/
def strGetItem (s : Str) (i : Int) : Res :=
  let n : Int := s.length
  let j := if i < 0 then i + n else i
  if j < 0 ∨ j ≥ n then .error .index else .ok (.str ((s.drop j.toNat).take 1))

/-- a bound of `s[a:b]`: None gives the default, negative counts from the end, clipped to 0..len -/
def bound (a : Arg) (dflt n : Int) : Int :=
  match a with
  | .int v => min (max (if v < 0 then v + n else v) 0) n
  | _ => dflt

/-- `s[a:b]` -/
def strGetSlice (s : Str) (a b : Arg) : Res :=
  let n : Int := s.length
  let i := bound a 0 n
  let j := bound b n n
  .ok (.str ((s.drop i.toNat).take (j - i).toNat))

/-- `chr(i)`: any code point 0..0x10FFFF, surrogates included -/
def chr (a : Arg) : Res :=
  match a with
  | .int v =>
    if v < -(2 ^ 63) ∨ v ≥ 2 ^ 63 then .error .overflow
    else if v < 0 ∨ v ≥ 0x110000 then .error .value
    else .ok (.str [v.toNat])
  | _ => .error .type

def ord (s : Str) : Res :=
  match s with
  | [c] => .ok (.int c)
  | _ => .error .type

/-! ### string and bytes literals (language reference 2.4.1 "String and Bytes literals")

Independent of the Go lexer: written from the lexical grammar

    stringliteral   ::=  [stringprefix](shortstring | longstring)      stringprefix ::= "r" | "u" | "R" | "U"
    bytesliteral    ::=  bytesprefix(shortbytes | longbytes)           bytesprefix  ::= "b" | "B" | "br" | "Br" | "bR" | "BR" | "rb" | "rB" | "Rb" | "RB"
    shortstring     ::=  "'" shortstringitem* "'" | '"' shortstringitem* '"'
    shortstringitem ::=  shortstringchar | stringescapeseq
    shortstringchar ::=  <any source character except "\" or newline or the quote>
    stringescapeseq ::=  "\" <any source character>

and the table of escape sequences.  Scope: ONE short (single-quoted) literal that is the whole
logical line; `none` = outside this specification (triple-quoted forms, backslash-newline
continuation, text after the closing quote, `\N{name}` in a str literal).  Every error CPython
reports for a literal (EOL while scanning, "(unicode error) truncated \xXX escape",
"(value error) invalid \x escape", "illegal Unicode character", "bytes can only contain ASCII
literal characters") is a `SyntaxError`. -/

inductive LitVal where
  | str (cs : Str)            -- code points
  | bytes (bs : List Nat)     -- byte values
deriving DecidableEq, Repr, Inhabited

def octDigit (c : Nat) : Bool := 48 ≤ c ∧ c ≤ 55

/-- value of one hexadecimal digit character `0-9 a-f A-F` -/
def hexDigit (c : Nat) : Option Nat :=
  if 48 ≤ c ∧ c ≤ 57 then some (c - 48)
  else if 97 ≤ c ∧ c ≤ 102 then some (c - 97 + 10)
  else if 65 ≤ c ∧ c ≤ 70 then some (c - 65 + 10)
  else none

/-- value of a string consisting of hexadecimal digits only (`acc` = value so far) -/
def hexNumber : List Nat → Nat → Option Nat
  | [], acc => some acc
  | c :: t, acc => match hexDigit c with
    | some d => hexNumber t (acc * 16 + d)
    | none => none

/-- the single-character escapes: `\\ \' \" \a \b \f \n \r \t \v` -/
def simpleEscape (e : Nat) : Option Nat :=
  if e = 92 then some 92 else if e = 39 then some 39 else if e = 34 then some 34
  else if e = 97 then some 7 else if e = 98 then some 8 else if e = 102 then some 12
  else if e = 110 then some 10 else if e = 114 then some 13 else if e = 116 then some 9
  else if e = 118 then some 11 else none

/-- the items of a non-raw literal body, left to right (`fuel` ≥ length + 1).  Result: the code points
(str) / byte values (bytes).  Unrecognised escapes stay in the result with their backslash. -/
def evalEscapes (isBytes : Bool) : Nat → List Nat → Option (Except Err (List Nat))
  | 0, _ => none
  | _, [] => some (.ok [])
  | f + 1, c :: rest =>
    let cons (x : Nat) (r : Option (Except Err (List Nat))) : Option (Except Err (List Nat)) :=
      r.map fun e => e.map fun l => x :: l
    if c ≠ 92 then
      -- bytes literals may only contain ASCII characters
      if isBytes ∧ c ≥ 128 then (evalEscapes isBytes f rest).map fun _ => .error .syntax
      else cons c (evalEscapes isBytes f rest)
    else match rest with
      | [] => none                                  -- the backslash escapes whatever follows the body
      | e :: r =>
        /- `\x`, `\u`, `\U`: exactly `n` hexadecimal digits must follow -/
        let hexEscape (n : Nat) : Option (Except Err (List Nat)) :=
          if r.length < n then (evalEscapes isBytes f r).map fun _ => .error .syntax
          else match hexNumber (r.take n) 0 with
            | none => (evalEscapes isBytes f (r.drop n)).map fun _ => .error .syntax
            | some v =>
              if v > 0x10FFFF then (evalEscapes isBytes f (r.drop n)).map fun _ => .error .syntax
              else cons v (evalEscapes isBytes f (r.drop n))
        let unchanged := cons 92 (evalEscapes isBytes f rest)
        if e = 10 then evalEscapes isBytes f r        -- backslash-newline is ignored
        else match simpleEscape e with
          | some v => cons v (evalEscapes isBytes f r)
          | none =>
            if octDigit e then
              -- up to three octal digits; in a bytes literal the value is taken modulo 256
              let d2 := (r.take 1).filter octDigit                                       -- a second digit, if there is one
              let d3 := if d2.isEmpty then [] else ((r.drop 1).take 1).filter octDigit    -- and a third
              let v := (e :: d2 ++ d3).foldl (fun a d => a * 8 + (d - 48)) 0
              cons (if isBytes then v % 256 else v) (evalEscapes isBytes f (r.drop (d2.length + d3.length)))
            else if e = 120 then hexEscape 2
            else if e = 117 then (if isBytes then unchanged else hexEscape 4)
            else if e = 85 then (if isBytes then unchanged else hexEscape 8)
            else if e = 78 ∧ !isBytes then none       -- \N{name}: needs the Unicode database
            else if isBytes ∧ e ≥ 128 then (evalEscapes isBytes f r).map fun _ => .error .syntax
            else unchanged

/-- the value of the body of a short literal (the text between the quotes) -/
def evalLiteral (isBytes raw : Bool) (body : List Nat) : Option (Except Err (List Nat)) :=
  if raw then
    if isBytes ∧ body.any (fun c => decide (c ≥ 128)) then some (.error .syntax) else some (.ok body)
  else evalEscapes isBytes (body.length + 1) body

/-- the items of a short string up to the closing quote: `some (some (body, rest))`;
`some none` = the line ends first ("EOL while scanning string literal"); `none` = backslash at the very
end of the line (continuation: the literal goes on on the next line) -/
def lexShort (q : Nat) : List Nat → List Nat → Option (Option (List Nat × List Nat))
  | [], _ => some none
  | [92], _ => none
  | 92 :: c :: t, body => if c = 10 then none else lexShort q t (body ++ [92, c])
  | c :: t, body =>
    if c = q then some (some (body, t))
    else if c = 10 then some none
    else lexShort q t (body ++ [c])

/-- literal prefixes of Python 3.4: (isBytes, raw, remaining text) -/
def litPrefix (text : List Nat) : Option (Bool × Bool × List Nat) :=
  let lower (c : Nat) := if 65 ≤ c ∧ c ≤ 90 then c + 32 else c
  let isQ (c : Nat) : Bool := c = 39 ∨ c = 34
  match text with
  | [] => none
  | a :: t =>
    if isQ a then some (false, false, text)
    else match t with
      | [] => none
      | b :: t' =>
        if isQ b then
          (if lower a = 114 then some (false, true, t)          -- r
           else if lower a = 117 then some (false, false, t)    -- u
           else if lower a = 98 then some (true, false, t)      -- b
           else none)
        else match t' with
          | [] => none
          | c :: _ =>
            if isQ c ∧ ((lower a = 98 ∧ lower b = 114) ∨ (lower a = 114 ∧ lower b = 98)) then some (true, true, t')  -- br / rb
            else none

/-- the value of a source line that consists of exactly one short string or bytes literal -/
def evalSource (text : List Nat) : Option (Except Err LitVal) :=
  match litPrefix text with
  | none => none
  | some (isBytes, raw, l) =>
    match l with
    | [] => none
    | q :: t =>
      if [q, q].isPrefixOf t then none else         -- triple-quoted (or an empty literal followed by another one)
      match lexShort q t [] with
      | none => none
      | some none => some (.error .syntax)
      | some (some (body, rest)) =>
        if !rest.isEmpty then none else
        (evalLiteral isBytes raw body).map fun r => r.map fun v => if isBytes then LitVal.bytes v else LitVal.str v

/-! ### known findings -/

/-- C14-K01: a Go string holds UTF-8, so a lone surrogate cannot be represented: `chr(0xD800..0xDFFF)`
yields U+FFFD -/
def kfSurrogate (v : Int) : Bool := 0xD800 ≤ v ∧ v < 0xE000

end GPy.C14.Spec
