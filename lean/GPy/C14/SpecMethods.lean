/-
C14 specification, third round: the `str` methods whose index arithmetic the property names and that
gpython does NOT implement (AttributeError: known finding C14-K02): rfind, index, rindex, rsplit,
partition, rpartition, center, ljust, rjust, zfill.  Written, like Spec.lean, on code-point lists from
the library reference / CPython's documented algorithms, so that the generated cases carry what Python
defines.  Core Lean only.
-/
import GPy.C14.Spec
namespace GPy.C14.Spec

/-- known finding C14-K02: the method names of the property that gpython's `str` does not have -/
def kfMissingMethod (name : String) : Bool :=
  ["rfind", "index", "rindex", "rsplit", "partition", "rpartition", "center", "ljust", "rjust", "zfill"].contains name

/-- highest `i ≤ k` with `sub` a prefix of `w[i:]`, -1 if none -/
def rfindFrom (sub w : Str) : Nat → Int
  | 0 => if sub.isPrefixOf w then 0 else -1
  | k + 1 => if sub.isPrefixOf (w.drop (k + 1)) then ((k + 1 : Nat) : Int) else rfindFrom sub w k

/-- highest index at which `sub` occurs in `w`, -1 if none (`''` occurs at `len(w)`) -/
def rfind (w sub : Str) : Int :=
  if sub.length > w.length then -1 else rfindFrom sub w (w.length - sub.length)

def strRfind (s sub : Str) (a b : Arg) : Res :=
  match window s a b sub.length with
  | none => .ok (.int (-1))
  | some (st, w) => let i := rfind w sub; .ok (.int (if i < 0 then -1 else st + i))

/-- `index` / `rindex`: as find / rfind, ValueError instead of -1 -/
def orValueError : Res → Res
  | .ok (.int v) => if v < 0 then .error .value else .ok (.int v)
  | r => r

def strIndex (s sub : Str) (a b : Arg) : Res := orValueError (strFind s sub a b)
def strRindex (s sub : Str) (a b : Arg) : Res := orValueError (strRfind s sub a b)

/-- `s.partition(sep)`: (head, sep, tail) around the FIRST occurrence, (s, '', '') if none -/
def partition (s sep : Str) : Except Err (Str × Str × Str) :=
  if sep.isEmpty then .error .value else
  let i := find s sep
  if i < 0 then .ok (s, [], []) else .ok (s.take i.toNat, sep, s.drop (i.toNat + sep.length))

/-- `s.rpartition(sep)`: around the LAST occurrence, ('', '', s) if none -/
def rpartition (s sep : Str) : Except Err (Str × Str × Str) :=
  if sep.isEmpty then .error .value else
  let i := rfind s sep
  if i < 0 then .ok ([], [], s) else .ok (s.take i.toNat, sep, s.drop (i.toNat + sep.length))

/-- `s.rsplit(sep, n)`: the mirror image of split (occurrences are looked for from the right) -/
def strRsplit (s : Str) (sep : Option Str) (maxsplit : Arg) : Res :=
  match strSplit s.reverse (sep.map List.reverse) maxsplit with
  | .ok (.list xs) => .ok (.list (xs.map List.reverse).reverse)
  | r => r

/-- the width argument of center / ljust / rjust / zfill is required and must fit Py_ssize_t -/
def widthArg (a : Arg) : Except Err Int :=
  match a with
  | .int v => if v < -(2 ^ 63) ∨ v ≥ 2 ^ 63 then .error .overflow else .ok v
  | _ => .error .type

/-- the fill character: default space, otherwise a str of exactly one code point -/
def fillArg (fill : Option Str) : Except Err Nat :=
  match fill with
  | none => .ok 0x20
  | some [c] => .ok c
  | some _ => .error .type

/-- which = 0 center, 1 ljust, 2 rjust.  CPython's center puts `marg/2 + (marg & width & 1)` fill
characters on the left -/
def strJust (which : Nat) (s : Str) (width : Arg) (fill : Option Str) : Res :=
  match widthArg width with
  | .error e => .error e
  | .ok w =>
    match fillArg fill with
    | .error e => .error e
    | .ok c =>
      let marg : Nat := (w - s.length).toNat
      let left : Nat := if which = 1 then 0 else if which = 2 then marg
        else marg / 2 + (if marg % 2 = 1 ∧ w % 2 = 1 then 1 else 0)
      .ok (.str (List.replicate left c ++ s ++ List.replicate (marg - left) c))

/-- `s.zfill(width)`: zeros after a leading sign -/
def strZfill (s : Str) (width : Arg) : Res :=
  match widthArg width with
  | .error e => .error e
  | .ok w =>
    let fill : Nat := (w - s.length).toNat
    match s with
    | c :: t => if c = 43 ∨ c = 45 then .ok (.str (c :: (List.replicate fill 48 ++ t)))
                else .ok (.str (List.replicate fill 48 ++ s))
    | [] => .ok (.str (List.replicate fill 48))

/-! sanity of the definitions (tests, not theorems) -/
example : strRfind [97, 97, 97] [97, 97] .absent .absent = .ok (.int 1) := by rfl
example : strRfind [97, 97, 97] [] (.int 1) (.int 2) = .ok (.int 2) := by rfl
example : strRfind [97, 97, 97] [] (.int 4) .absent = .ok (.int (-1)) := by rfl
example : rpartition [97, 97, 97] [97, 97] = .ok ([97], [97, 97], []) := by rfl
example : strRsplit [97, 97, 97] (some [97, 97]) (.int 1) = .ok (.list [[97], []]) := by rfl
example : strRsplit [32, 32, 97, 32, 98, 32] none (.int 1) = .ok (.list [[32, 32, 97], [98]]) := by rfl
example : strJust 0 [97, 98] (.int 5) none = .ok (.str [32, 32, 97, 98, 32]) := by rfl
example : strJust 0 [97, 98, 99] (.int 6) none = .ok (.str [32, 97, 98, 99, 32, 32]) := by rfl
example : strZfill [45, 97] (.int 4) = .ok (.str [45, 48, 48, 97]) := by rfl

end GPy.C14.Spec
