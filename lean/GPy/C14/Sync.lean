/-
C14 helper lemmas, second round: UTF-8 self-synchronisation.

A byte of a valid UTF-8 string is either a *lead* byte (the first byte of the encoding of a
code point) or a *continuation* byte (0x80..0xBF).  The encoding of a non-empty string begins
with a lead byte; hence it can match inside another valid string only at a code-point boundary
(`utf8_sync`).  From this, the byte-level walkers of Go's `strings` package (Index, Count,
Replace, SplitN) run on encodings do, code point by code point, what the same walkers do on the
code-point lists.
-/
import GPy.C14.Proofs
namespace GPy.C14
open Spec (Scalar)

/-- UTF-8 continuation byte -/
def isCont (b : Nat) : Bool := decide (0x80 ≤ b) && decide (b < 0xC0)

/-- every encoding is one lead byte followed by continuation bytes only (for EVERY rune value:
surrogates and values above U+10FFFF are written as EF BF BD) -/
theorem encodeRune_shape (c : Nat) :
    ∃ h t, encodeRune c = h :: t ∧ isCont h = false ∧ ∀ b ∈ t, isCont b = true := by
  unfold encodeRune
  repeat' split
  all_goals
    refine ⟨_, _, rfl, ?_, ?_⟩
    · simp only [isCont, Bool.and_eq_false_iff, decide_eq_false_iff_not] <;> omega
    · intro b hb
      simp only [isCont, Bool.and_eq_true, decide_eq_true_eq]
      simp only [List.mem_cons, List.mem_nil_iff, or_false] at hb <;> omega

/-- a needle: a byte string that begins with a lead byte (every encoding of a non-empty string) -/
def Needle (nb : Bytes) : Prop := ∃ nh nt, nb = nh :: nt ∧ isCont nh = false

theorem needle_encodeAll (sub : List Nat) (h : sub ≠ []) : Needle (encodeAll sub) := by
  cases sub with
  | nil => exact absurd rfl h
  | cons c t =>
    obtain ⟨hd, tl, he, hh, _⟩ := encodeRune_shape c
    exact ⟨hd, tl ++ encodeAll t, by simp [encodeAll, he], hh⟩

theorem needle_ne_nil {nb : Bytes} (h : Needle nb) : nb ≠ [] := by
  obtain ⟨a, b, rfl, _⟩ := h; simp

theorem needle_isEmpty {nb : Bytes} (h : Needle nb) : nb.isEmpty = false := by
  obtain ⟨a, b, rfl, _⟩ := h; rfl

theorem needle_length_pos {nb : Bytes} (h : Needle nb) : 0 < nb.length := by
  obtain ⟨a, b, rfl, _⟩ := h; simp

/-- a needle never matches at a continuation byte -/
theorem needle_noMatch {nb : Bytes} (h : Needle nb) (b : Nat) (r : Bytes) (hb : isCont b = true) :
    nb.isPrefixOf (b :: r) = false := by
  obtain ⟨nh, nt, rfl, hh⟩ := h
  have : nh ≠ b := by intro e; subst e; rw [hb] at hh; cases hh
  simp [List.isPrefixOf, this]

theorem encodeAll_eq_nil (cs : List Nat) (h : encodeAll cs = []) : cs = [] := by
  cases cs with
  | nil => rfl
  | cons c t =>
    simp only [encodeAll, List.append_eq_nil_iff] at h
    exact absurd h.1 (encodeRune_ne_nil c)

theorem encodeAll_isEmpty (cs : List Nat) : (encodeAll cs).isEmpty = cs.isEmpty := by
  cases cs with
  | nil => rfl
  | cons c t =>
    obtain ⟨hd, tl, he, _, _⟩ := encodeRune_shape c
    simp [encodeAll, he]

theorem isPrefixOf_encode (a b : List Nat) (ha : ∀ c ∈ a, Scalar c) (hb : ∀ c ∈ b, Scalar c) :
    (encodeAll b).isPrefixOf (encodeAll a) = b.isPrefixOf a := hasPrefix_encode a b ha hb

theorem encodeAll_inj' (a b : List Nat) (ha : ∀ c ∈ a, Scalar c) (hb : ∀ c ∈ b, Scalar c)
    (h : encodeAll a = encodeAll b) : a = b := by
  rw [← runes_encodeAll a ha, ← runes_encodeAll b hb, h]

/-- when `sub` is a prefix of `s`, dropping its bytes is dropping its code points -/
theorem drop_encode_prefix (sub s : List Nat) (h : sub.isPrefixOf s = true) :
    (encodeAll s).drop (encodeAll sub).length = encodeAll (s.drop sub.length) := by
  obtain ⟨r, rfl⟩ := List.isPrefixOf_iff_prefix.mp h
  simp [encodeAll_append]

/-! ### utf8_sync -/

/-- **self-synchronisation**: a position of a valid UTF-8 string at which a lead byte stands is a
code-point boundary -/
theorem boundary_of_lead (s : List Nat) :
    ∀ (k : Nat) (b : Nat) (rest : Bytes), (encodeAll s).drop k = b :: rest → isCont b = false →
      ∃ i, i ≤ s.length ∧ k = (encodeAll (s.take i)).length ∧ b :: rest = encodeAll (s.drop i) := by
  induction s with
  | nil => intro k b rest h _; simp [encodeAll] at h
  | cons c t ih =>
    intro k b rest h hb
    obtain ⟨hd, tl, he, hh, htl⟩ := encodeRune_shape c
    by_cases hk0 : k = 0
    · subst hk0
      exact ⟨0, by simp, by simp [encodeAll], by simpa using h.symm⟩
    · by_cases hk : k < (encodeRune c).length
      · -- strictly inside the encoding of `c`: a continuation byte stands there
        exfalso
        simp only [encodeAll, he, List.cons_append] at h
        rw [he] at hk
        simp only [List.length_cons] at hk
        obtain ⟨k', rfl⟩ : ∃ k', k = k' + 1 := ⟨k - 1, by omega⟩
        simp only [List.drop_succ_cons] at h
        rw [List.drop_append_of_le_length (by omega)] at h
        have hmem : b ∈ tl := by
          have : b ∈ tl.drop k' := by
            cases hd' : tl.drop k' with
            | nil =>
              have : tl.length ≤ k' := List.drop_eq_nil_iff.mp hd'
              omega
            | cons x y => rw [hd'] at h; simp only [List.cons_append, List.cons.injEq] at h; rw [h.1]; simp
          exact List.mem_of_mem_drop this
        rw [htl b hmem] at hb; cases hb
      · have hsplit : (encodeAll (c :: t)).drop k = (encodeAll t).drop (k - (encodeRune c).length) := by
          simp only [encodeAll]
          rw [List.drop_append]
          have : (encodeRune c).drop k = [] := List.drop_eq_nil_iff.mpr (by omega)
          rw [this]; rfl
        rw [hsplit] at h
        obtain ⟨i, hi, hki, hrest⟩ := ih _ b rest h hb
        refine ⟨i + 1, by simp; omega, ?_, ?_⟩
        · simp only [List.take_succ_cons, encodeAll, List.length_append]; omega
        · simpa using hrest

/-- **utf8_sync**: if the encoding of a non-empty string `sub` occurs in the encoding of `s` at byte
offset `k`, then `k` is the byte offset of a code point `i` of `s`, and `sub` occurs in `s` at `i` -/
theorem sync_encode (s sub : List Nat) (hs : ∀ c ∈ s, Scalar c) (hsub : ∀ c ∈ sub, Scalar c) (hne : sub ≠ [])
    (k : Nat) (h : (encodeAll sub).isPrefixOf ((encodeAll s).drop k) = true) :
    ∃ i, i ≤ s.length ∧ k = (encodeAll (s.take i)).length ∧ sub.isPrefixOf (s.drop i) = true := by
  obtain ⟨nh, nt, hn, hh⟩ := needle_encodeAll sub hne
  obtain ⟨z, hz⟩ := List.isPrefixOf_iff_prefix.mp h
  rw [hn] at hz
  simp only [List.cons_append] at hz
  obtain ⟨i, hi, hk, hrest⟩ := boundary_of_lead s k nh (nt ++ z) hz.symm hh
  refine ⟨i, hi, hk, ?_⟩
  rw [← isPrefixOf_encode (s.drop i) sub (fun c hc => hs c (List.mem_of_mem_drop hc)) hsub, ← hrest, hn]
  simp [List.isPrefixOf]


/-! ### Index / find -/

/-- index of the first occurrence as an `Option Nat` (the same walk as `strings.Index` / `Spec.findFrom`) -/
def fidx (sub : List Nat) : List Nat → Option Nat
  | [] => if sub.isEmpty then some 0 else none
  | c :: t => if sub.isPrefixOf (c :: t) then some 0 else (fidx sub t).map (· + 1)

theorem findFrom_fidx (sub s : List Nat) (k : Nat) :
    Spec.findFrom sub s k = match fidx sub s with | none => -1 | some i => ((k + i : Nat) : Int) := by
  induction s generalizing k with
  | nil => simp only [Spec.findFrom, fidx]; split <;> simp
  | cons c t ih =>
    simp only [Spec.findFrom, fidx]
    split
    · simp
    · rw [ih (k + 1)]
      cases fidx sub t with
      | none => rfl
      | some i => simp only [Option.map_some]; congr 1; omega

theorem indexFrom_fidx (sub s : List Nat) (k : Nat) :
    indexFrom sub s k = match fidx sub s with | none => -1 | some i => ((k + i : Nat) : Int) := by
  induction s generalizing k with
  | nil => simp only [indexFrom, fidx]; split <;> simp
  | cons c t ih =>
    simp only [indexFrom, fidx]
    split
    · simp
    · rw [ih (k + 1)]
      cases fidx sub t with
      | none => rfl
      | some i => simp only [Option.map_some]; congr 1; omega

theorem find_fidx (s sub : List Nat) :
    Spec.find s sub = match fidx sub s with | none => -1 | some i => (i : Int) := by
  unfold Spec.find; rw [findFrom_fidx]; cases fidx sub s <;> simp

theorem index_fidx (s sub : List Nat) :
    index s sub = match fidx sub s with | none => -1 | some i => (i : Int) := by
  unfold index; rw [indexFrom_fidx]; cases fidx sub s <;> simp

theorem fidx_le (sub s : List Nat) (i : Nat) (h : fidx sub s = some i) : i + sub.length ≤ s.length := by
  induction s generalizing i with
  | nil =>
    simp only [fidx] at h
    split at h
    · rename_i he; simp at h; subst h; simp at he; simp [he]
    · cases h
  | cons c t ih =>
    simp only [fidx] at h
    split at h
    · rename_i hp
      simp at h; subst h
      have := (List.isPrefixOf_iff_prefix.mp hp).length_le
      simpa using this
    · cases hf : fidx sub t with
      | none => rw [hf] at h; cases h
      | some j =>
        rw [hf] at h; simp at h; subst h
        have := ih j hf
        simp only [List.length_cons]; omega

/-- a needle's walk passes over continuation bytes -/
theorem fidx_cont {nb : Bytes} (hn : Needle nb) (l r : Bytes) (hl : ∀ b ∈ l, isCont b = true) :
    fidx nb (l ++ r) = (fidx nb r).map (· + l.length) := by
  induction l with
  | nil => simp
  | cons b t ih =>
    simp only [List.cons_append, fidx, needle_noMatch hn b (t ++ r) (hl b (by simp)), Bool.false_eq_true, if_false]
    rw [ih (fun x hx => hl x (by simp [hx]))]
    cases fidx nb r with
    | none => rfl
    | some i => simp only [Option.map_some, List.length_cons]; rfl

/-- **`strings.Index` on encodings finds the first occurrence of the code-point string**, reported as
the byte offset of that code point -/
theorem fidx_encode (s sub : List Nat) (hs : ∀ c ∈ s, Scalar c) (hsub : ∀ c ∈ sub, Scalar c) :
    fidx (encodeAll sub) (encodeAll s) = (fidx sub s).map fun i => (encodeAll (s.take i)).length := by
  by_cases hne : sub = []
  · subst hne
    cases s with
    | nil => simp [fidx, encodeAll]
    | cons c t =>
      obtain ⟨hd, tl, he, _, _⟩ := encodeRune_shape c
      simp [fidx, encodeAll, he, List.isPrefixOf]
  · have hn := needle_encodeAll sub hne
    induction s with
    | nil =>
      have : sub.isEmpty = false := by cases sub <;> simp_all
      simp [fidx, encodeAll, needle_isEmpty hn, this]
    | cons c t ih =>
      have hc : Scalar c := hs c (by simp)
      have ht : ∀ x ∈ t, Scalar x := fun x hx => hs x (by simp [hx])
      obtain ⟨hd, tl, he, _, htl⟩ := encodeRune_shape c
      have hp := isPrefixOf_encode (c :: t) sub hs hsub
      have hE : encodeAll (c :: t) = hd :: (tl ++ encodeAll t) := by simp [encodeAll, he]
      rw [hE] at hp ⊢
      simp only [fidx, hp]
      by_cases hpre : sub.isPrefixOf (c :: t) = true
      · simp [hpre, encodeAll]
      · simp only [hpre, Bool.false_eq_true, if_false]
        rw [fidx_cont hn tl _ htl, ih ht]
        cases fidx sub t with
        | none => rfl
        | some i =>
          simp only [Option.map_some, List.take_succ_cons, encodeAll, he, List.length_append, List.length_cons]
          congr 1; omega


/-! ### Count -/

theorem countAux_nil (sub : List Nat) (f : Nat) : countAux sub f [] = 0 := by cases f <;> rfl

theorem countAux_cont {nb : Bytes} (hn : Needle nb) (l r : Bytes) (hl : ∀ b ∈ l, isCont b = true) :
    ∀ f, l.length ≤ f → countAux nb f (l ++ r) = countAux nb (f - l.length) r := by
  induction l with
  | nil => intro f _; simp
  | cons b t ih =>
    intro f hf
    simp only [List.length_cons] at hf
    obtain ⟨f', rfl⟩ : ∃ f', f = f' + 1 := ⟨f - 1, by omega⟩
    simp only [List.cons_append, countAux, needle_noMatch hn b (t ++ r) (hl b (by simp)), Bool.false_eq_true, if_false]
    rw [ih (fun x hx => hl x (by simp [hx])) f' (by omega)]
    simp

theorem encodeAll_length_prefix (sub s : List Nat) (h : sub.isPrefixOf s = true) :
    (encodeAll s).length = (encodeAll sub).length + (encodeAll (s.drop sub.length)).length := by
  obtain ⟨r, rfl⟩ := List.isPrefixOf_iff_prefix.mp h
  simp [encodeAll_append]

theorem length_pos_of_ne_nil {α} (l : List α) (h : l ≠ []) : 0 < l.length := by
  cases l with
  | nil => exact absurd rfl h
  | cons _ _ => simp

/-- **`strings.Count` on encodings counts the non-overlapping occurrences of the code-point string** -/
theorem countAux_encode (sub : List Nat) (hne : sub ≠ []) (hsub : ∀ c ∈ sub, Scalar c) :
    ∀ (f : Nat) (s : List Nat), (∀ c ∈ s, Scalar c) → ∀ fb, s.length ≤ f → (encodeAll s).length ≤ fb →
      countAux (encodeAll sub) fb (encodeAll s) = countAux sub f s := by
  have hn := needle_encodeAll sub hne
  have hsl := length_pos_of_ne_nil sub hne
  have hnl := needle_length_pos hn
  intro f
  induction f with
  | zero =>
    intro s _ fb hf _
    have : s = [] := List.length_eq_zero_iff.mp (by omega)
    subst this; simp [encodeAll, countAux_nil]
  | succ f ih =>
    intro s hs fb hf hfb
    cases s with
    | nil => simp [encodeAll, countAux_nil]
    | cons c t =>
      have ht : ∀ x ∈ t, Scalar x := fun x hx => hs x (by simp [hx])
      obtain ⟨hd, tl, he, _, htl⟩ := encodeRune_shape c
      have hp := isPrefixOf_encode (c :: t) sub hs hsub
      have hE : encodeAll (c :: t) = hd :: (tl ++ encodeAll t) := by simp [encodeAll, he]
      have hlen : (encodeAll (c :: t)).length = tl.length + 1 + (encodeAll t).length := by
        rw [hE]; simp; omega
      obtain ⟨fb', rfl⟩ : ∃ fb', fb = fb' + 1 := ⟨fb - 1, by omega⟩
      by_cases hpre : sub.isPrefixOf (c :: t) = true
      · have hd' := drop_encode_prefix sub (c :: t) hpre
        have hl' := encodeAll_length_prefix sub (c :: t) hpre
        rw [hpre] at hp
        rw [hE] at hp hd'
        rw [hE]
        simp only [countAux, hp, hpre, if_true]
        rw [hd']
        rw [ih ((c :: t).drop sub.length) (fun x hx => hs x (List.mem_of_mem_drop hx)) fb' (by simp only [List.length_drop, List.length_cons] at hf ⊢; omega) (by omega)]
      · have hpre' : sub.isPrefixOf (c :: t) = false := Bool.eq_false_iff.mpr hpre
        rw [hpre'] at hp
        rw [hE] at hp
        rw [hE]
        simp only [countAux, hp, hpre', Bool.false_eq_true, if_false]
        rw [countAux_cont hn tl _ htl fb' (by omega), ih t ht _ (by simpa using hf) (by omega)]

/-! ### Replace -/

theorem replaceAux_nil (old new : List Nat) (f n : Nat) : replaceAux old new f n [] = [] := by cases f <;> rfl

theorem replaceAux_cont {nb : Bytes} (hn : Needle nb) (new l r : Bytes) (hl : ∀ b ∈ l, isCont b = true) (n : Nat) (hn0 : n ≠ 0) :
    ∀ f, l.length ≤ f → replaceAux nb new f n (l ++ r) = l ++ replaceAux nb new (f - l.length) n r := by
  induction l with
  | nil => intro f _; simp
  | cons b t ih =>
    intro f hf
    simp only [List.length_cons] at hf
    obtain ⟨f', rfl⟩ : ∃ f', f = f' + 1 := ⟨f - 1, by omega⟩
    simp only [List.cons_append, replaceAux, hn0, needle_noMatch hn b (t ++ r) (hl b (by simp)), Bool.false_eq_true, if_false]
    rw [ih (fun x hx => hl x (by simp [hx])) f' (by omega)]
    simp

/-- **the replacement loop of `strings.Replace` on encodings is the same loop on the code points** -/
theorem replaceAux_encode (old new : List Nat) (hne : old ≠ []) (hold : ∀ c ∈ old, Scalar c) :
    ∀ (f : Nat) (s : List Nat), (∀ c ∈ s, Scalar c) → ∀ fb n, s.length ≤ f → (encodeAll s).length ≤ fb →
      replaceAux (encodeAll old) (encodeAll new) fb n (encodeAll s) = encodeAll (replaceAux old new f n s) := by
  have hn := needle_encodeAll old hne
  have hsl := length_pos_of_ne_nil old hne
  have hnl := needle_length_pos hn
  intro f
  induction f with
  | zero =>
    intro s _ fb n hf _
    have : s = [] := List.length_eq_zero_iff.mp (by omega)
    subst this; simp [encodeAll, replaceAux_nil]
  | succ f ih =>
    intro s hs fb n hf hfb
    cases s with
    | nil => simp [encodeAll, replaceAux_nil]
    | cons c t =>
      have ht : ∀ x ∈ t, Scalar x := fun x hx => hs x (by simp [hx])
      obtain ⟨hd, tl, he, _, htl⟩ := encodeRune_shape c
      have hp := isPrefixOf_encode (c :: t) old hs hold
      have hE : encodeAll (c :: t) = hd :: (tl ++ encodeAll t) := by simp [encodeAll, he]
      have hlen : (encodeAll (c :: t)).length = tl.length + 1 + (encodeAll t).length := by
        rw [hE]; simp; omega
      obtain ⟨fb', rfl⟩ : ∃ fb', fb = fb' + 1 := ⟨fb - 1, by omega⟩
      by_cases hn0 : n = 0
      · subst hn0; rw [hE]; simp only [replaceAux, if_true]; rw [← hE]
      by_cases hpre : old.isPrefixOf (c :: t) = true
      · have hd' := drop_encode_prefix old (c :: t) hpre
        have hl' := encodeAll_length_prefix old (c :: t) hpre
        rw [hpre] at hp
        rw [hE] at hp hd'
        rw [hE]
        simp only [replaceAux, hn0, hp, hpre, if_true, if_false]
        rw [hd', encodeAll_append]
        rw [ih ((c :: t).drop old.length) (fun x hx => hs x (List.mem_of_mem_drop hx)) fb' (n - 1) (by simp only [List.length_drop, List.length_cons] at hf ⊢; omega) (by omega)]
      · have hpre' : old.isPrefixOf (c :: t) = false := Bool.eq_false_iff.mpr hpre
        rw [hpre'] at hp
        rw [hE] at hp
        rw [hE]
        simp only [replaceAux, hn0, hp, hpre', Bool.false_eq_true, if_false]
        rw [replaceAux_cont hn _ tl _ htl n hn0 fb' (by omega), ih t ht _ n (by simpa using hf) (by omega)]
        simp [encodeAll, he]

/-! ### Split -/

theorem splitAux_nil (sep : List Nat) (f n : Nat) (cur : List Nat) : splitAux sep f n cur [] = [cur] := by
  cases f <;> simp [splitAux]

theorem splitAux_cont {nb : Bytes} (hn : Needle nb) (l r : Bytes) (hl : ∀ b ∈ l, isCont b = true) (n : Nat) (hn0 : n ≠ 0) :
    ∀ f cur, l.length ≤ f → splitAux nb f n cur (l ++ r) = splitAux nb (f - l.length) n (cur ++ l) r := by
  induction l with
  | nil => intro f cur _; simp
  | cons b t ih =>
    intro f cur hf
    simp only [List.length_cons] at hf
    obtain ⟨f', rfl⟩ : ∃ f', f = f' + 1 := ⟨f - 1, by omega⟩
    simp only [List.cons_append, splitAux, hn0, needle_noMatch hn b (t ++ r) (hl b (by simp)), Bool.false_eq_true, if_false]
    rw [ih (fun x hx => hl x (by simp [hx])) f' _ (by omega)]
    simp

/-- **the cutting loop of `strings.SplitN` on encodings is the same loop on the code points** -/
theorem splitAux_encode (sep : List Nat) (hne : sep ≠ []) (hsep : ∀ c ∈ sep, Scalar c) :
    ∀ (f : Nat) (s : List Nat), (∀ c ∈ s, Scalar c) → ∀ fb n cur, s.length ≤ f → (encodeAll s).length ≤ fb →
      splitAux (encodeAll sep) fb n (encodeAll cur) (encodeAll s) = (splitAux sep f n cur s).map encodeAll := by
  have hn := needle_encodeAll sep hne
  have hsl := length_pos_of_ne_nil sep hne
  have hnl := needle_length_pos hn
  intro f
  induction f with
  | zero =>
    intro s _ fb n cur hf _
    have : s = [] := List.length_eq_zero_iff.mp (by omega)
    subst this; simp [encodeAll, splitAux_nil]
  | succ f ih =>
    intro s hs fb n cur hf hfb
    cases s with
    | nil => simp [encodeAll, splitAux_nil]
    | cons c t =>
      have ht : ∀ x ∈ t, Scalar x := fun x hx => hs x (by simp [hx])
      obtain ⟨hd, tl, he, _, htl⟩ := encodeRune_shape c
      have hp := isPrefixOf_encode (c :: t) sep hs hsep
      have hE : encodeAll (c :: t) = hd :: (tl ++ encodeAll t) := by simp [encodeAll, he]
      have hlen : (encodeAll (c :: t)).length = tl.length + 1 + (encodeAll t).length := by
        rw [hE]; simp; omega
      obtain ⟨fb', rfl⟩ : ∃ fb', fb = fb' + 1 := ⟨fb - 1, by omega⟩
      by_cases hn0 : n = 0
      · subst hn0; rw [hE]; simp only [splitAux, if_true]; rw [← hE]; simp [encodeAll_append]
      by_cases hpre : sep.isPrefixOf (c :: t) = true
      · have hd' := drop_encode_prefix sep (c :: t) hpre
        have hl' := encodeAll_length_prefix sep (c :: t) hpre
        rw [hpre] at hp
        rw [hE] at hp hd'
        rw [hE]
        simp only [splitAux, hn0, hp, hpre, if_true, if_false, List.map_cons]
        rw [hd']
        have := ih ((c :: t).drop sep.length) (fun x hx => hs x (List.mem_of_mem_drop hx)) fb' (n - 1) [] (by simp only [List.length_drop, List.length_cons] at hf ⊢; omega) (by omega)
        simp only [encodeAll] at this
        rw [this]
      · have hpre' : sep.isPrefixOf (c :: t) = false := Bool.eq_false_iff.mpr hpre
        rw [hpre'] at hp
        rw [hE] at hp
        rw [hE]
        simp only [splitAux, hn0, hp, hpre', Bool.false_eq_true, if_false]
        rw [splitAux_cont hn tl _ htl n hn0 fb' _ (by omega)]
        have := ih t ht (fb' - tl.length) n (cur ++ [c]) (by simpa using hf) (by omega)
        simp only [encodeAll_append, encodeAll, he, List.append_nil] at this
        simp only [List.append_assoc, List.cons_append, List.nil_append] at this ⊢
        rw [this]

end GPy.C14
