import GPy.C14.Generated.Units

/-! # C14 – byte-vs-rune units in py/string.go (regenerated fact table)

`GPy/C14/Generated/Units.lean` is rewritten on every run by `extract/c14units` from py/string.go of the
working tree: one `Fact` per comparison that involves a byte- or code-point-valued integer and one per
string slice/index expression, each with the syntactically inferred unit of both sides.

This file
 * pins the table (`units_table_pinned`): any change of a comparison / slice in py/string.go – even a
   harmless one – must be re-reviewed here,
 * proves, independently of the pin, that no comparison of the CURRENT tree mixes units
   (`no_mixed_unit_comparison`) and that strings are only sliced/indexed with byte offsets, except on the
   ASCII fast paths of `String.slice` / `String.M__getitem__` (`string_index_units`).

Everything is closed by `decide` / `rfl` (kernel evaluation); no `native_decide`, no axioms. -/

namespace GPy.C14.Units
open GPy.C14.Generated

/-- The reviewed table (output of `extract/c14units` on the reviewed tree). -/
def expected : List Fact := [
  -- fieldsN: cur is a []rune, len(cur) counts code points
  ⟨"fieldsN", 1, "cmp", ">", .rune, .lit, "len(cur)", "0"⟩,
  ⟨"fieldsN", 2, "cmp", "==", .rune, .lit, "len(cur)", "0"⟩,
  ⟨"fieldsN", 3, "cmp", ">", .rune, .lit, "len(cur)", "0"⟩,
  -- emptiness tests: bytes against 0 (0 bytes <-> 0 code points)
  ⟨"String.M__bool__", 1, "cmp", ">", .byte, .lit, "len(s)", "0"⟩,
  ⟨"String.M__mul__", 1, "cmp", "==", .byte, .lit, "len(a)", "0"⟩,
  -- allocation bound: repeat count against maxAllocSize / byte length; a quotient has no unit (unknown),
  -- and the repeat count b is a plain number: unknown vs unknown, nothing to mix
  ⟨"String.M__mul__", 2, "cmp", ">", .unknown, .unknown, "int64(b)", "int64(maxAllocSize) / int64(len(a))"⟩,
  -- pos: the per-iteration counter of `range s` against the wanted character number
  ⟨"String.pos", 1, "cmp", "==", .rune, .rune, "characterNumber", "n"⟩,
  ⟨"String.slice", 1, "cmp", ">=", .rune, .rune, "start", "stop"⟩,
  -- MIXED, legitimate: the ASCII test.  #code points = #bytes iff every character is one byte long;
  -- only ever an equality test (see allowedMixed)
  ⟨"String.slice", 2, "cmp", "==", .rune, .byte, "length", "len(s)"⟩,
  -- rune-valued bounds on a string: only reached when the ASCII test above succeeded (byte i = character i)
  ⟨"String.slice", 3, "slice", "s[:]", .rune, .rune, "start", "stop"⟩,
  ⟨"String.slice", 4, "cmp", "<=", .rune, .lit, "start", "0"⟩,
  ⟨"String.slice", 5, "cmp", ">=", .rune, .rune, "stop", "length"⟩,
  ⟨"String.slice", 6, "slice", "s[:]", .byte, .lit, "startI", ""⟩,
  ⟨"String.slice", 7, "slice", "s[:]", .byte, .byte, "startI", "stopI"⟩,
  -- MIXED, legitimate: the ASCII test again (asciiOnly := length == len(s))
  ⟨"String.M__getitem__", 1, "cmp", "==", .rune, .byte, "length", "len(s)"⟩,
  ⟨"String.M__getitem__", 2, "cmp", "<", .lit, .rune, "j", "slicelength"⟩,
  -- s[i] with a character index: inside `if asciiOnly`
  ⟨"String.M__getitem__", 3, "index", "s[]", .rune, .lit, "i", ""⟩,
  ⟨"String.M__getitem__", 4, "cmp", "<", .lit, .rune, "j", "slicelength"⟩,
  -- s[i : i+1] with a character index: inside `if asciiOnly`
  ⟨"String.M__getitem__", 5, "slice", "s[:]", .rune, .rune, "i", "i + 1"⟩,
  ⟨"String.M__getitem__", 6, "slice", "s[:]", .byte, .lit, "s.pos(i)", ""⟩,
  ⟨"String.M__getitem__", 7, "slice", "s[:]", .lit, .byte, "", "runeSize"⟩,
  ⟨"String.tailMatch", 1, "cmp", ">", .rune, .rune, "beg", "end"⟩,
  ⟨"adjustIndices", 1, "cmp", ">", .rune, .rune, "end", "length"⟩,
  ⟨"adjustIndices", 2, "cmp", "<", .rune, .lit, "end", "0"⟩,
  ⟨"adjustIndices", 3, "cmp", "<", .rune, .lit, "end", "0"⟩,
  ⟨"adjustIndices", 4, "cmp", "<", .rune, .lit, "start", "0"⟩,
  ⟨"adjustIndices", 5, "cmp", "<", .rune, .lit, "start", "0"⟩,
  ⟨"String.Count", 1, "cmp", ">", .rune, .rune, "beg", "end"⟩,
  ⟨"String.find", 1, "cmp", ">", .rune, .rune, "beg", "end"⟩,
  -- strings.Index result: byte offset (or -1) against 0, then used as a byte bound of str[:idx]
  ⟨"String.find", 2, "cmp", "<", .byte, .lit, "idx", "0"⟩,
  ⟨"String.find", 3, "slice", "str[:]", .lit, .byte, "", "idx"⟩,
  ⟨"String.Split", 1, "cmp", "==", .byte, .lit, "len(v)", "0"⟩]

/-- Do two units go together in a comparison?  A literal goes with everything except `mixed`;
    otherwise the units must be equal; `mixed` goes with nothing; `unknown` only with `unknown`/`lit`
    (so byte/rune/count against an expression the extractor cannot classify is flagged as well). -/
def _root_.GPy.C14.Generated.U.compatible : U → U → Bool
  | .mixed, _ => false
  | _, .mixed => false
  | .lit, _ => true
  | _, .lit => true
  | .byte, .byte => true
  | .rune, .rune => true
  | .count, .count => true
  | .unknown, .unknown => true
  | _, _ => false

/-- A comparison fact is fine when both sides count the same thing. -/
def _root_.GPy.C14.Generated.Fact.sameUnit (f : Fact) : Bool := U.compatible f.l f.r

/-- The only comparisons allowed to mix units: the two ASCII tests `length == len(s)`
    (code points = bytes iff the string is pure ASCII).  Equality only – an ordering test of a
    code-point count against a byte count is never meaningful. -/
def allowedMixed : List Fact := [
  ⟨"String.slice", 2, "cmp", "==", .rune, .byte, "length", "len(s)"⟩,
  ⟨"String.M__getitem__", 1, "cmp", "==", .rune, .byte, "length", "len(s)"⟩]

/-- functions that contain an ASCII fast path (guarded by the test above) in which a character index
    may be used as a byte offset -/
def asciiFastPath : List String := ["String.slice", "String.M__getitem__"]

/-- units admitted as bound of a string slice/index inside function `fn` -/
def boundOk (fn : String) : U → Bool
  | .byte => true
  | .lit => true
  | .rune => asciiFastPath.contains fn
  | _ => false

def _root_.GPy.C14.Generated.Fact.cmpOk (f : Fact) : Bool := f.kind != "cmp" || f.sameUnit || allowedMixed.contains f
def _root_.GPy.C14.Generated.Fact.indexOk (f : Fact) : Bool := f.kind == "cmp" || (boundOk f.fn f.l && boundOk f.fn f.r)

/-- every allowed mixed comparison is an equality test -/
theorem allowedMixed_eq_only : ∀ f ∈ allowedMixed, f.op = "==" ∧ f.kind = "cmp" := by decide

/-- the table produced from the working tree is the reviewed one -/
theorem units_table_pinned : Generated.facts = expected := by decide

set_option maxRecDepth 100000 in
theorem cmp_all_ok : Generated.facts.all Fact.cmpOk = true := by decide

set_option maxRecDepth 100000 in
theorem index_all_ok : Generated.facts.all Fact.indexOk = true := by decide

/-- No comparison in py/string.go relates a byte count/offset to a code-point count/index (or to an
    expression of mixed / unclassifiable unit), except the listed ASCII equality tests. -/
theorem no_mixed_unit_comparison :
    ∀ f ∈ Generated.facts, f.kind = "cmp" → f.sameUnit = true ∨ f ∈ allowedMixed := by
  intro f hf hk
  have h := List.all_eq_true.mp cmp_all_ok f hf
  simp only [Fact.cmpOk, Bool.or_eq_true, bne_iff_ne, ne_eq, List.contains_iff_mem] at h
  rcases h with (h | h) | h
  · exact absurd hk h
  · exact Or.inl h
  · exact Or.inr h

/-- Strings are sliced / indexed with byte offsets (or literals / absent bounds) only; a code-point index
    is used as an offset only in `String.slice` / `String.M__getitem__` (their ASCII fast paths). -/
theorem string_index_units :
    ∀ f ∈ Generated.facts, f.kind ≠ "cmp" → boundOk f.fn f.l = true ∧ boundOk f.fn f.r = true := by
  intro f hf hk
  have h := List.all_eq_true.mp index_all_ok f hf
  simp only [Fact.indexOk, Bool.or_eq_true, Bool.and_eq_true, beq_iff_eq] at h
  rcases h with h | h
  · exact absurd h hk
  · exact h

end GPy.C14.Units
