/-
C14, third round: the start/end window of find / count / startswith / endswith is a matter of
CODE-POINT counts only.  `String.tailMatch`, `String.Count` and `String.find` compute `size = s.len()`
(a rune count), clamp start/end against it (`adjustIndices`), leave early when `beg > end`, cut the
window with `String.slice(beg, end, size)` (whose only byte-valued test, `length == len(s)`, selects
the ASCII fast path where both units coincide) and then hand the BYTES of the window to
strings.HasPrefix / HasSuffix / Index / Count.  The lemmas below state that every early-exit and
length test along that path depends on the haystack only through its number of code points, and that
"the needle fits the window" is decided by code-point counts whatever the byte lengths are.
-/
import GPy.C14.Ops
namespace GPy.C14
open Spec (Scalar)

/-- the adjusted bounds depend on the string only through its number of code points -/
theorem specWin_len_only (cs cs' : List Nat) (a b : Arg) (h : cs.length = cs'.length) :
    specWin cs a b = specWin cs' a b := by
  unfold specWin; rw [h]

/-- the model's window on an encoded string: never a panic; the early exit is `start > end` on the
code-point bounds; otherwise it starts at code point `start` and holds exactly `end - start` code points -/
theorem window_cases (cs : List Nat) (hs : ∀ c ∈ cs, Scalar c) (a b : Arg) (hlen : (cs.length : Int) < IntMax) :
    let se := specWin cs a b
    (window (encodeAll cs) a b = none ↔ se.1 > se.2) ∧
    (∀ beg w, window (encodeAll cs) a b = some (beg, w) →
      beg = se.1 ∧ ∃ wc : List Nat, w = some (encodeAll wc) ∧ (∀ c ∈ wc, Scalar c) ∧
        (wc.length : Int) = se.2 - se.1 ∧ wc = (cs.drop se.1.toNat).take (se.2 - se.1).toNat) := by
  obtain ⟨hnone, hsome, h1, h2, h3⟩ := window_encode cs hs a b hlen
  dsimp only
  generalize specWin cs a b = se at *
  refine ⟨⟨?_, hnone⟩, ?_⟩
  · intro hn
    by_cases hle : se.1 ≤ se.2
    · rw [hsome hle] at hn; cases hn
    · omega
  · intro beg w hw
    by_cases hle : se.1 ≤ se.2
    · rw [hsome hle] at hw
      simp only [Option.some.injEq, Prod.mk.injEq] at hw
      obtain ⟨hb, hwv⟩ := hw
      refine ⟨hb.symm, _, hwv.symm, ?_, ?_, rfl⟩
      · intro c hc; exact hs c (List.mem_of_mem_drop (List.mem_of_mem_take hc))
      · simp only [List.length_take, List.length_drop]; omega
    · rw [hnone (by omega)] at hw; cases hw

/-- **window_fit_by_codepoints**: two strings with the same number of code points (whatever their UTF-8
byte lengths) take the same early exit for every start/end, and when they do not, their windows
begin at the same code-point index and hold the same number of code points -/
theorem window_fit_by_codepoints_aux (cs cs' : List Nat) (hs : ∀ c ∈ cs, Scalar c) (hs' : ∀ c ∈ cs', Scalar c)
    (hl : cs.length = cs'.length) (a b : Arg) (hlen : (cs.length : Int) < IntMax) :
    (window (encodeAll cs) a b = none ↔ window (encodeAll cs') a b = none) ∧
    (∀ beg w beg' w', window (encodeAll cs) a b = some (beg, some w) →
      window (encodeAll cs') a b = some (beg', some w') → beg = beg' ∧ strLen w = strLen w') ∧
    (∀ beg, window (encodeAll cs) a b ≠ some (beg, none)) := by
  have hlen' : (cs'.length : Int) < IntMax := by rw [← hl]; exact hlen
  obtain ⟨hn, hsm⟩ := window_cases cs hs a b hlen
  obtain ⟨hn', hsm'⟩ := window_cases cs' hs' a b hlen'
  rw [← specWin_len_only cs cs' a b hl] at hn' hsm'
  refine ⟨by rw [hn, hn'], ?_, ?_⟩
  · intro beg w beg' w' h h'
    obtain ⟨hb, wc, hw, hws, hwl, _⟩ := hsm beg (some w) h
    obtain ⟨hb', wc', hw', hws', hwl', _⟩ := hsm' beg' (some w') h'
    refine ⟨by rw [hb, hb'], ?_⟩
    simp only [Option.some.injEq] at hw hw'
    rw [hw, hw']
    simp only [strLen, runeCount, runes_encodeAll wc hws, runes_encodeAll wc' hws']
    omega
  · intro beg h
    obtain ⟨_, wc, hw, _⟩ := hsm beg none h
    cases hw

theorem isPrefixOf_same_length (sub w : List Nat) (h : sub.length = w.length) :
    sub.isPrefixOf w = true ↔ w = sub := by
  rw [List.isPrefixOf_iff_prefix]
  constructor
  · intro hp; exact (hp.eq_of_length h).symm
  · intro he; rw [he]; exact List.prefix_rfl

/-- the "does the candidate fit the window" question is answered in code points: a candidate with MORE
code points than the window never matches (even when it has fewer BYTES than the window), and a
candidate with exactly as many code points matches iff it IS the window (even when the window is
shorter in bytes than a skipped-by-byte-length test would allow) -/
theorem window_fit_needle_aux (cs sub : List Nat) (hs : ∀ c ∈ cs, Scalar c) (hsub : ∀ c ∈ sub, Scalar c)
    (a b : Arg) (hlen : (cs.length : Int) < IntMax) (beg : Int) (w : Bytes)
    (hw : window (encodeAll cs) a b = some (beg, some w)) :
    let se := specWin cs a b
    ((sub.length : Int) > se.2 - se.1 →
        hasPrefix w (encodeAll sub) = false ∧ hasSuffix w (encodeAll sub) = false) ∧
    ((sub.length : Int) = se.2 - se.1 →
        (hasPrefix w (encodeAll sub) = true ↔ w = encodeAll sub) ∧
        (hasSuffix w (encodeAll sub) = true ↔ w = encodeAll sub)) := by
  obtain ⟨_, hsm⟩ := window_cases cs hs a b hlen
  obtain ⟨_, wc, hwv, hws, hwl, _⟩ := hsm beg (some w) hw
  simp only [Option.some.injEq] at hwv
  subst hwv
  dsimp only
  generalize specWin cs a b = se at *
  refine ⟨?_, ?_⟩
  · intro hgt
    rw [hasPrefix_encode wc sub hws hsub, hasSuffix_encode wc sub hws hsub]
    refine ⟨isPrefixOf_short sub wc (by omega), ?_⟩
    unfold Spec.endsWith
    exact isPrefixOf_short _ _ (by simp only [List.length_reverse]; omega)
  · intro heq
    have hl : sub.length = wc.length := by omega
    rw [hasPrefix_encode wc sub hws hsub, hasSuffix_encode wc sub hws hsub]
    have hinj : encodeAll wc = encodeAll sub ↔ wc = sub := encodeAll_eq_iff wc sub hws hsub
    refine ⟨?_, ?_⟩
    · rw [isPrefixOf_same_length sub wc hl, hinj]
    · unfold Spec.endsWith
      rw [isPrefixOf_same_length sub.reverse wc.reverse (by simp [hl]), hinj]
      constructor
      · intro h; exact List.reverse_inj.mp h
      · intro h; rw [h]

end GPy.C14
