/-
C15 case generator: lattice of special doubles × boundary ints × every operator / conversion /
builtin, plus seeded random bit patterns.  Floats travel as 16-hex-digit bit patterns.
-/
import GPy.C15.Spec
namespace GPy.C15

def hexDigit (n : Nat) : Char := if n < 10 then Char.ofNat (48 + n) else Char.ofNat (87 + n)
def hex16 (b : Nat) : String := String.ofList ((List.range 16).map (fun i => hexDigit (b / 16 ^ (15 - i) % 16)))

def fbits (b : Nat) : String := if isNaN b then "fnan" else "f" ++ hex16 b
def cpart (b : Nat) : String := if isNaN b then "nan" else hex16 b
def cbits (re im : Nat) : String := "c" ++ cpart re ++ ":" ++ cpart im

def Err.py : Err → String
  | .zeroDiv => "E:ZeroDivisionError" | .value => "E:ValueError"
  | .type => "E:TypeError" | .overflow => "E:OverflowError"

def encObj : Obj → String
  | .int v => s!"i{v}" | .big v => s!"b{v}" | .bool b => if b then "t1" else "t0"
  | .float b => "f" ++ hex16 b
  | .cplx re im => "c" ++ hex16 re ++ ":" ++ hex16 im
  | .none => "n" | _ => "?"

partial def objV : Obj → String
  | .int v | .big v => toString v
  | .bool b => if b then "True" else "False"
  | .float b => fbits b
  | .str s => "s" ++ s
  | .pair a b => s!"({objV a}, {objV b})"
  | .none => "None" | .notImpl => "NotImplemented"
  | .cplx re im => cbits re im
  | .cplxOpaque => "complex"

partial def objR : Obj → String
  | .int _ => "i" | .big _ => "b" | .bool _ => "t" | .float _ => "f" | .str _ => "s"
  | .pair a b => objR a ++ objR b
  | .none => "n" | .notImpl => "N"
  | .cplx _ _ | .cplxOpaque => "c"

partial def svalV : SVal → String
  | .int v => toString v
  | .bool b => if b then "True" else "False"
  | .float b => fbits b
  | .str s => "s" ++ s
  | .pair a b => s!"({svalV a}, {svalV b})"
  | .cplx re im => cbits re im
  | .cplxAny => "complex"

def resV : Res → String | .error e => e.py | .ok o => objV o
def resR : Res → String | .error _ => "-" | .ok o => objR o
def sresV : SRes → String | .error e => e.py | .ok v => svalV v

def fp : FP := FP.native

/-- non-trivial operand: not a plain mid-range value -/
def ntObj : Obj → Bool
  | .int v | .big v => v.natAbs ≥ 2^53
  | .float b => expField b = 0 || expField b = 2047 || expField b ≥ 1075 || (fracField b % 2^51 == 0 && expField b < 1075 && expField b > 1020)
  | .cplx _ _ => true
  | _ => false

def mkCase (input : String) (m : Res) (s : SRes) (ops : List Obj) (always : Bool) (kf : Option String) (noR : Bool := false) : Case :=
  let nt := always || ops.any ntObj || (match s with | .error _ => true | _ => false)
  { input := input, modelV := resV m, modelR := if noR then "" else resR m, specV := sresV s,
    tags := (if nt then ["nt"] else []) ++ (match kf with | some k => ["kf=" ++ k] | none => []) }

def isFloatObj : Obj → Bool | .float _ => true | _ => false
def isBoolObj : Obj → Bool | .bool _ => true | _ => false
def isCplxObj : Obj → Bool | .cplx _ _ => true | _ => false
/-- a float or complex operand: the other operand may then be a bool (no int×bool arithmetic here: C07-K01) -/
def isFC (o : Obj) : Bool := isFloatObj o || isCplxObj o
/-- negative finite base with a finite non-integer exponent: Python answers with a complex number -/
def powComplex (a b : Obj) : Bool :=
  match convertToFloat a, convertToFloat b with
  | some x, some y => fp.lt x 0 && !isInf x && !isInf y && !isNaN y && fp.floor y != y
  | _, _ => false

/-- pow is compared only where the IEEE result is exact (Go's math.Pow and libm agree there) -/
def powExact (a b : Obj) : Bool :=
  let smallBase (x : Nat) : Bool := match decodeF x with
    | .fin _ m _ => m % 2^40 == 0 | _ => true
  let okExp (y : Nat) : Bool := match decodeF y with
    | .fin _ m e => m = 0 || (e ≤ 0 && m % 2^(-e).toNat == 0 && m / 2^(-e).toNat ≤ 4)   -- integer, |y| ≤ 4
    | _ => true
  match convertToFloat a, convertToFloat b with
  | some x, some y => smallBase x && okExp y
  | _, _ => false

def caseBin (op : BinOp) (a b : Obj) : Option Case :=
  match numOf a, numOf b with
  | some x, some y =>
    -- both bool / bool with int: C07-K01 territory
    if (isBoolObj a && !isFC b) || (isBoolObj b && !isFC a) then none else
    -- complex operands: only + - * are specified by value here
    if (isCplxObj a || isCplxObj b) && !(op == .add || op == .sub || op == .mul) then none else
    if op == .pow && !(match x, y with | .i _, .i w => w < 0 || w ≤ 8 | _, _ => true) then none else
    if op == .pow && !powExact a b && !powComplex a b && !(match x, y with | .i _, .i w => w ≥ 0 | _, _ => false) then none else
    let intint := match x, y with | .i _, .i _ => true | _, _ => false
    some (mkCase s!"bin {op.name} {encObj a} {encObj b}" (binop fp op a b) (specBin fp op x y) [a, b]
      (op == .floordiv || op == .mod) none (noR := intint && op != .truediv))
  | _, _ => none

def caseCmp (op : CmpOp) (a b : Obj) : Option Case :=
  match numOf a, numOf b with
  | some x, some y =>
    if (isBoolObj a && !isFC b) || (isBoolObj b && !isFC a) then none else
    some (mkCase s!"bin {op.name} {encObj a} {encObj b}" (richCmp fp op a b) (specCmp fp op x y) [a, b] false none)
  | _, _ => none

def caseDivmod (a b : Obj) : Option Case :=
  match numOf a, numOf b with
  | some x, some y =>
    if isBoolObj a || isBoolObj b || isCplxObj a || isCplxObj b then none else
    let kf : Option String := none
    let intint := match x, y with | .i _, .i _ => true | _, _ => false
    some (mkCase s!"bin divmod {encObj a} {encObj b}" (divmod fp a b) (specDivmod fp x y) [a, b] true kf (noR := intint))
  | _, _ => none

def specUn (op : UnOp) (a : Num) : SRes :=
  match a, op with
  | .f b, .neg => .ok (.float (if signBit b then b - 2^63 else b + 2^63))
  | .f b, .pos => .ok (.float b)
  | .f b, .abs => .ok (.float (b % 2^63))
  | .f b, .bool => .ok (.bool (!isZero b))
  | .f b, .int => (specFloatToInt b).map .int
  | .f b, .float => .ok (.float b)
  | .f b, .str => .ok (.str (specStr b))
  | .i v, .neg => .ok (.int (-v))
  | .i v, .pos => .ok (.int v)
  | .i v, .abs => .ok (.int v.natAbs)
  | .i v, .bool => .ok (.bool (v != 0))
  | .i v, .int => .ok (.int v)
  | .i v, .float => (specIntToFloat v).map .float
  | .i v, .str => .ok (.str (toString v))
  | .c re im, .neg => .ok (.cplx (if signBit re then re - 2^63 else re + 2^63) (if signBit im then im - 2^63 else im + 2^63))
  | .c re im, .pos => .ok (.cplx re im)
  | .c re im, .bool => .ok (.bool (!(isZero re && isZero im)))
  | .c _ _, .int | .c _ _, .float => .error .type
  | .c _ _, _ => .ok .cplxAny

def caseUn (op : UnOp) (a : Obj) : Option Case :=
  if isBoolObj a then none else
  if isCplxObj a && (op == .abs || op == .str) then none else
  match numOf a with
  | some x => some (mkCase s!"un {op.name} {encObj a}" (unop op a) (specUn op x) [a] (op == .str || op == .int || op == .float) none
      (noR := !isFloatObj a && (op == .neg || op == .abs)))
  | none => none

/-- `float(repr(x))` must be `x` -/
def caseRt (b : Nat) : Case :=
  mkCase s!"un rt {encObj (.float b)}" (.ok (.float b)) (.ok (.float b)) [.float b] true none

def caseRound (a : Obj) (nd : Option Int) : Option Case :=
  let ndObj : Obj := match nd with | some d => .int d | none => .none
  let ndS := match nd with | some d => s!"i{d}" | none => "-"
  match a with
  | .float b => some (mkCase s!"round {ndS} {encObj a}" (builtinRound fp a ndObj) (specRoundFloat b nd) [a] true none)
  | .int v | .big v =>
    let s : SRes := match nd with
      | none => .ok (.int v)
      | some d => if d ≥ 0 then .ok (.int v) else .ok (.int (specRoundInt v (-d).toNat))
    some (mkCase s!"round {ndS} {encObj a}" (builtinRound fp a ndObj) s [a] true none (noR := true))
  | _ => none

def svalNum : SVal → Option Num
  | .int v => some (.i v) | .float b => some (.f b) | .bool b => some (.i (if b then 1 else 0))
  | .cplx re im => some (.c re im) | _ => none

/-- builtins are folds of the operators -/
def caseSum (xs : List Obj) : Option Case :=
  if xs.any isBoolObj then none else
  match xs.mapM numOf with
  | some ns =>
    let s : SRes := ns.foldlM (fun acc n => do
      match svalNum acc with
      | some a => specBin fp .add a n
      | none => .error .type) (.int 0)
    let kf : Option String := none
    some (mkCase ("bi sum " ++ " ".intercalate (xs.map encObj)) (builtinSum fp xs) s xs true kf (noR := true))
  | none => none

def caseMinMax (isMax : Bool) (xs : List Obj) : Option Case :=
  if xs.any isBoolObj then none else
  match xs.mapM numOf with
  | some (n0 :: ns) =>
    let s : Except Err Num := ns.foldlM (fun best item => do
      let c ← specCmp fp (if isMax then .ge else .le) item best
      return if c == .bool true then item else best) n0
    let sres : SRes := s.map (fun n => match n with | .i v => .int v | .f b => .float b | .c re im => .cplx re im)
    some (mkCase ((if isMax then "bi max " else "bi min ") ++ " ".intercalate (xs.map encObj)) (builtinMinMax fp isMax xs) sres xs true none (noR := true))
  | _ => none

def caseBi2 (name : String) (c : Option Case) : Option Case :=
  c.map (fun c => { c with input := "bi " ++ name ++ " " ++ " ".intercalate ((c.input.splitOn " ").drop 2) })

/-! ### the lattice -/

def latticeFloats : List Nat := [
  0x0000000000000000, 0x8000000000000000,           -- ±0
  0x0000000000000001, 0x8000000000000001, 0x000fffffffffffff, 0x0010000000000000,   -- subnormals, min normal
  0x3ff0000000000000, 0x3fefffffffffffff, 0x3ff0000000000001, 0xbff0000000000000,   -- 1 ± ulp
  0x3fe0000000000000, 0xbfe0000000000000, 0x3ff8000000000000, 0x4004000000000000, 0x400c000000000000, 0xc004000000000000,  -- halves
  0x3fb999999999999a, 0x3fd3333333333333, 0x4005666666666666,   -- 0.1 0.3 2.675
  0x4008000000000000, 0xc008000000000000, 0x4018000000000000, 0x401c000000000000, 0x4000000000000000, 0x4010000000000000, 0x3fd0000000000000,  -- 3 -3 6 7 2 4 0.25
  0x4330000000000000, 0x4330000000000001, 0x433fffffffffffff, 0x4340000000000000, 0x4340000000000001, 0xc340000000000000,  -- 2^52, 2^53 neighbours
  0x43dfffffffffffff, 0x43e0000000000000, 0x43e0000000000001, 0xc3e0000000000000, 0xc3e0000000000001, 0x43f0000000000000, 0x43f0000000000001, -- 2^63, 2^64 neighbours
  0x4341c37937e08000, 0x4480f0cf064dd592, 0x419d6f3454800000, 0x3f1a36e2eb1c432d, 0x3f0a36e2eb1c432d, 0x430c6bf526340000, -- 1e16 1e22 123456789.125 1e-4 5e-5 1e15
  0x7e37e43c8800759c, 0x01a56e1fc2f8f359, 0x6540000000000000,  -- 1e300 1e-300 2^597
  0x7fe0000000000000, 0x7fefffffffffffff, 0xffefffffffffffff,   -- 2^1023, max
  0x7ff0000000000000, 0xfff0000000000000, 0x7ff8000000000000 ]  -- inf nan

def latticeInts : List Int := [
  0, 1, -1, 2, 3, -3, 10, 25, 35, -25, 7,
  2^53 - 1, 2^53, 2^53 + 1, -(2^53 + 1), 2^53 + 2, 2^54 + 2, 2^54 + 6,
  2^63 - 1, -(2^63), 2^63, 2^63 + 1, -(2^63) - 1, 2^63 - 513, 2^63 - 512, 2^64, 2^64 + 2^11, 2^64 + 2^11 + 1, -(2^64 + 2^11 + 1),
  10^16, 10^22, 10^22 + 1, 2^1023, 2^1024 - 2^970 - 1, 2^1024 - 2^970, -(2^1024 - 2^970), 2^1024, 2^1100 ]

def repsOf (v : Int) : List Obj :=
  if IntMin ≤ v ∧ v ≤ IntMax then [Obj.int v] else [Obj.big v]

/-- complex lattice: signed zeros in either part, 2^53 / 2^63 / 2^64 real parts (exact comparison with ints),
max, inf and nan parts -/
def latticeCplx : List Obj := [
  .cplx 0x3ff0000000000000 0x4000000000000000, .cplx 0x3ff0000000000000 0x8000000000000000, .cplx 0x8000000000000000 0,
  .cplx 0 0, .cplx 0 0x3ff0000000000000, .cplx 0xbff0000000000000 0, .cplx 0x3ff8000000000000 0xc004000000000000,
  .cplx 0x4340000000000000 0, .cplx 0x4340000000000000 0x3ff0000000000000, .cplx 0x43e0000000000000 0, .cplx 0xc3e0000000000000 0x8000000000000000,
  .cplx 0x43f0000000000000 0, .cplx 0x7fe0000000000000 0, .cplx 0x7fefffffffffffff 0x7fefffffffffffff,
  .cplx 0x7ff0000000000000 0x3ff0000000000000, .cplx 0x3ff0000000000000 0xfff0000000000000, .cplx 0x7ff8000000000000 0, .cplx 0 0x7ff8000000000000 ]

def latticeObjs : List Obj :=
  latticeFloats.map Obj.float ++ latticeInts.flatMap repsOf ++ [Obj.big 5, Obj.big (2^53 + 1), Obj.bool true, Obj.bool false] ++ latticeCplx

def randFloat (r : Rng) : Rng × Nat :=
  let (r, k) := r.nat 4
  let (r, z) := r.next
  let b := z.toNat
  if k == 0 then (r, b)    -- uniform bit pattern
  else
    -- exponent near 0 .. 70 so that ints and floats interact
    let (r, e) := r.nat 140
    (r, (b / 2^63) * 2^63 + (1023 - 70 + e) * 2^52 + b % 2^52)

def randCplx (r : Rng) : Rng × Obj :=
  let (r, re) := randFloat r
  let (r, k) := r.nat 3
  if k == 0 then (r, .cplx re 0)
  else if k == 1 then (r, .cplx re 0x8000000000000000)
  else let (r, im) := randFloat r; (r, .cplx re im)

def randInt (r : Rng) : Rng × Int :=
  let (r, k) := r.nat 8
  let (r, nb) := if k == 0 then r.nat 1100 else if k < 4 then r.nat 70 else (let (r, x) := r.nat 14; (r, 50 + x))
  let (r, m) := r.bits (nb + 1)
  let (r, s) := r.nat 2
  (r, if s == 0 then (m : Int) else -(m : Int))

def randObj (r : Rng) : Rng × Obj :=
  let (r, k) := r.nat 2
  if k == 0 then let (r, b) := randFloat r; (r, .float b)
  else let (r, v) := randInt r; (r, (repsOf v)[0]!)

def emit (c : Option Case) : IO Unit :=
  match c with
  | some c => IO.println c.line
  | none => pure ()

def allFor (a b : Obj) : IO Unit := do
  for op in BinOp.all do emit (caseBin op a b)
  for op in CmpOp.all do emit (caseCmp op a b)
  emit (caseDivmod a b)

def genMain (tier : String) (seed : Nat) : IO Unit := do
  let objs := latticeObjs
  let thorough := tier == "thorough"
  -- every lattice pair with at least one float (int × int belongs to C07, except / and ** negative)
  for a in objs do
    for b in objs do
      if isFC a || isFC b then allFor a b
      else
        emit (caseBin .truediv a b)
        emit (caseCmp .eq a b)
  let negExps : List Obj := [.int (-1), .int (-2), .int (-3)]
  for a in objs do
    for b in negExps do emit (caseBin .pow a b)
  -- conversions, text, rounding
  let nds : List (Option Int) := [none, some 0, some 1, some 2, some 15, some 17, some 300, some 1200, some (-1), some (-2), some (-16), some (-308), some (-400)]
  for a in objs do
    for op in UnOp.all do emit (caseUn op a)
    match a with
    | .float b => emit (some (caseRt b))
    | _ => pure ()
    for nd in nds do emit (caseRound a nd)
  -- int rounding: halves
  for v in ([5, 15, 25, 35, 45, 50, 150, 250, 149, 151, -5, -15, -25, 2^63 - 1, -(2^63), 2^63 + 5, 2^64 + 15, 10^22 + 5 * 10^20, 10^22 + 15 * 10^20] : List Int) do
    for d in ([-1, -2, -3, -19, -21, -22, -30] : List Int) do
      for o in repsOf v do emit (caseRound o (some d))
  -- builtins fold the operators
  let few : List Obj := (objs.filter (fun o => !isBoolObj o)).toArray.toList
  let pick : List Obj := few.filter (fun o => match o with
    | .float b => [0x8000000000000000, 0x0, 0x3ff0000000000000, 0x3fb999999999999a, 0x4340000000000000, 0x43e0000000000000, 0x7fefffffffffffff, 0x7ff0000000000000, 0xfff0000000000000, 0x7ff8000000000000, 0xc004000000000000].contains b
    | .int v | .big v => [0, 1, -3, 2^53 + 1, 2^63, 2^64 + 2^11 + 1, 2^1024].contains v
    | .cplx re im => (re, im) == (0x3ff0000000000000, 0x4000000000000000) || (re, im) == (0x4340000000000000, 0)
    | _ => false)
  for a in pick do
    emit ((caseUn .abs a).map (fun c => { c with input := "bi abs " ++ encObj a }))
    for b in pick do
      emit (caseMinMax false [a, b]); emit (caseMinMax true [a, b])
      emit (caseBi2 "divmod" (caseDivmod a b))
      emit (caseBi2 "pow" (caseBin .pow a b))
      emit (caseSum [a, b])
      if thorough then
        for c in pick do
          emit (caseSum [a, b, c]); emit (caseMinMax false [a, b, c]); emit (caseMinMax true [a, b, c])
  for a in pick do
    for b in pick do
      emit (caseSum [.int 1, a, b])
      emit (caseMinMax true [.float 0x3ff0000000000000, a, b])
  -- seeded random bit patterns and ints
  let n := if thorough then 40000 else 2500
  let mut r : Rng := ⟨seed.toUInt64⟩
  for _ in [0:n] do
    let (r1, a) := randObj r
    let (r2, b) := randObj r1
    let (r3, f) := randFloat r2
    let (r4, k) := r3.nat 40
    let (r5, c1) := randCplx r4
    let (r6, c2) := randCplx r5
    r := r6
    allFor c1 b
    allFor a c1
    allFor c1 c2
    for op in UnOp.all do emit (caseUn op c1)
    emit (caseSum [a, c1, .float f])
    allFor a b
    allFor (.float f) b
    allFor a (.float f)
    for op in UnOp.all do emit (caseUn op a)
    for op in UnOp.all do emit (caseUn op (.float f))
    emit (some (caseRt f))
    emit (caseRound (.float f) none)
    emit (caseRound (.float f) (some ((k : Int) - 20)))
    emit (caseRound a (some ((k : Int) - 20)))
    emit (caseSum [a, b, .float f])
    emit (caseMinMax false [a, b, .float f])
    emit (caseMinMax true [a, b, .float f])

end GPy.C15
