/-
C15 model: float and mixed int/float arithmetic of gpython (py/float.go, py/int.go,
py/bigint.go, py/bool.go, the dispatch of py/arithmetic.go, stdlib/builtin round/sum/min/max/
abs/pow/divmod), transliterated AFTER the `fix:` commits listed in KNOWN_FINDINGS.txt.

A double is its 64-bit pattern (`Nat < 2^64`).  `decodeF` gives the exact dyadic value
`±m·2^e` of a finite double.  IEEE hardware operations are the fields of `FP`
(parameters in theorems; `FP.native` = Lean's `Float`, the same hardware, in the driver).
Core Lean only (linked into `gpymodel`).
-/
import GPy.Common.Basic
namespace GPy.C15

inductive Err | zeroDiv | value | type | overflow
deriving DecidableEq, Repr

/-- exact value of a double: `fin neg m e` is `(-1)^neg · m · 2^e` -/
inductive FVal
  | nan
  | inf (neg : Bool)
  | fin (neg : Bool) (m : Nat) (e : Int)
deriving DecidableEq, Repr

def signBit (b : Nat) : Bool := b / 2^63 % 2 == 1
def expField (b : Nat) : Nat := b / 2^52 % 2048
def fracField (b : Nat) : Nat := b % 2^52

def decodeF (b : Nat) : FVal :=
  if expField b = 2047 then (if fracField b = 0 then .inf (signBit b) else .nan)
  else if expField b = 0 then .fin (signBit b) (fracField b) (-1074)
  else .fin (signBit b) (2^52 + fracField b) ((expField b : Int) - 1075)

def posInf : Nat := 0x7ff0000000000000
def negInf : Nat := 0xfff0000000000000
def qNaN : Nat := 0x7ff8000000000000
def signMask : Nat := 2^63
def isNaN (b : Nat) : Bool := decodeF b == .nan
def isInf (b : Nat) : Bool := b % 2^63 == posInf
def isZero (b : Nat) : Bool := b % 2^63 == 0
def withSign (neg : Bool) (mag : Nat) : Nat := if neg then mag % 2^63 + 2^63 else mag % 2^63

/-- bits of the positive double `m·2^e` where `2^52 ≤ m < 2^53` and `-1074 ≤ e ≤ 971` (normal) -/
def encodeNormal (m : Nat) (e : Int) : Nat := (e + 1075).toNat * 2^52 + (m - 2^52)

/-- bit length -/
def bitLen (n : Nat) : Nat := if n = 0 then 0 else n.log2 + 1

/-- Round-to-nearest-even conversion of a natural number to a double: the bit pattern of the
magnitude, or `none` when the rounded value is not below 2^1024 (overflow).
This is the contract of Go's `float64(int64)` (hardware) and of `big.Float.Float64`. -/
def rneNat (n : Nat) : Option Nat :=
  if n = 0 then some 0
  else if n < 2^53 then
    -- exact: normalise the mantissa to 53 bits
    let sh := 53 - bitLen n
    some (encodeNormal (n * 2^sh) (-(sh : Int)))
  else
    let sh := bitLen n - 53
    let q := n / 2^sh
    let r := n % 2^sh
    let half := 2^(sh - 1)
    let q' := if r > half || (r == half && q % 2 == 1) then q + 1 else q
    let (m, e) := if q' = 2^53 then (2^52, sh + 1) else (q', sh)
    if e > 971 then none else some (encodeNormal m (e : Int))

/-- nearest double (ties to even) of the positive rational `num/den`; `none` on overflow.
Handles subnormals.  Contract of `big.Rat.Float64`, `strconv.ParseFloat`, correctly rounded division. -/
def rneRat (num den : Nat) : Option Nat :=
  if num = 0 || den = 0 then some 0 else
  -- E with 2^E ≤ num/den < 2^(E+1)
  let E0 : Int := (bitLen num : Int) - (bitLen den : Int)
  let ge (k : Int) : Bool := if k ≥ 0 then num ≥ den * 2^k.toNat else num * 2^(-k).toNat ≥ den
  let E : Int := if ge E0 then E0 else E0 - 1
  let e : Int := if E - 52 < -1074 then -1074 else E - 52
  let (n', d') := if e ≥ 0 then (num, den * 2^e.toNat) else (num * 2^(-e).toNat, den)
  let q := n' / d'
  let r := n' % d'
  let q' := if 2 * r > d' || (2 * r == d' && q % 2 == 1) then q + 1 else q
  if q' < 2^52 then some q'   -- subnormal (e = -1074) or zero
  else
    let (m, e) := if q' = 2^53 then (2^52, e + 1) else (q', e)
    if e > 971 then none else some (encodeNormal m e)

/-- the exact value of a finite double as a fraction `num / den` of naturals (sign apart) -/
def fracOf (m : Nat) (e : Int) : Nat × Nat := if e ≥ 0 then (m * 2^e.toNat, 1) else (m, 2^(-e).toNat)

/-- signed conversion; `none` = overflow -/
def rneInt (v : Int) : Option Nat := (rneNat v.natAbs).map (withSign (v < 0))

/-! ### hardware -/

/-- IEEE-754 operations supplied by the hardware / Go's `math` package, on bit patterns. -/
structure FP where
  add : Nat → Nat → Nat
  sub : Nat → Nat → Nat
  mul : Nat → Nat → Nat
  div : Nat → Nat → Nat
  floor : Nat → Nat
  fmod : Nat → Nat → Nat          -- math.Mod
  pow : Nat → Nat → Nat           -- math.Pow
  roundEven : Nat → Nat           -- math.RoundToEven
  lt : Nat → Nat → Bool           -- a < b (false on NaN)
  eq : Nat → Nat → Bool           -- a == b (false on NaN, -0 == +0)

def ofB (b : Nat) : Float := Float.ofBits (UInt64.ofNat b)
def toB (f : Float) : Nat := if f.isNaN then qNaN else f.toBits.toNat

/-- exact `fmod` on decoded values (the result is always representable) -/
def fmodExact (a b : Nat) : Nat :=
  match decodeF a, decodeF b with
  | .nan, _ | _, .nan | .inf _, _ => qNaN
  | .fin _ _ _, .inf _ => a
  | .fin na ma ea, .fin _ mb eb =>
    if mb = 0 then qNaN else
    let e := if ea ≤ eb then ea else eb
    let x := ma * 2^(ea - e).toNat
    let y := mb * 2^(eb - e).toNat
    let r := x % y
    let (n, d) := fracOf r e
    withSign na ((rneRat n d).getD 0)

/-- `math.RoundToEven` computed exactly -/
def roundEvenExact (a : Nat) : Nat :=
  match decodeF a with
  | .fin neg m e =>
    if e ≥ 0 then a else
    let d := 2^(-e).toNat
    let q := m / d
    let r := m % d
    let q' := if 2 * r > d || (2 * r == d && q % 2 == 1) then q + 1 else q
    withSign neg ((rneNat q').getD 0)
  | _ => a

def FP.native : FP where
  add a b := toB (ofB a + ofB b)
  sub a b := toB (ofB a - ofB b)
  mul a b := toB (ofB a * ofB b)
  div a b := toB (ofB a / ofB b)
  floor a := toB (ofB a).floor
  fmod := fmodExact
  pow a b := toB (Float.pow (ofB a) (ofB b))
  roundEven := roundEvenExact
  lt a b := ofB a < ofB b
  eq a b := ofB a == ofB b

/-! ### objects -/

inductive Obj
  | int (v : Int)          -- py.Int (machine word)
  | big (v : Int)          -- *py.BigInt
  | bool (b : Bool)
  | float (bits : Nat)
  | str (s : String)
  | pair (a b : Obj)
  | none
  | notImpl
  | cplx (re im : Nat)     -- py.Complex: bit patterns of the real and imaginary parts
  | cplxOpaque             -- a complex (or complex-derived) result whose value is not modelled (cmplx.Pow, complex division)
deriving DecidableEq, Repr, Inhabited

abbrev Res := Except Err Obj

/-- `(*BigInt).MaybeInt` -/
def maybeInt (v : Int) : Obj := if IntMin ≤ v ∧ v ≤ IntMax then .int v else .big v

def typeTag : Obj → Nat
  | .int _ => 0 | .big _ => 1 | .bool _ => 2 | .float _ => 3 | .str _ => 4 | .pair _ _ => 5 | .none => 6 | .notImpl => 7
  | .cplx _ _ => 8 | .cplxOpaque => 8

/-- `(*BigInt).Float` (after the fix: one rounding, OverflowError iff the nearest float is infinite) -/
def bigFloat (v : Int) : Except Err Nat :=
  match rneInt v with
  | some b => .ok b
  | none => .error .overflow

/-- Go `Float(b)` for `b Int`: the hardware int64→float64 conversion (never overflows) -/
def i64ToFloat (v : Int) : Nat := (rneInt v).getD 0

/-- `convertToFloat` -/
def convertToFloat : Obj → Option Nat
  | .float b => some b
  | .int v => some (i64ToFloat v)
  | .big v => match bigFloat v with | .ok b => some b | .error _ => none
  | .bool b => some (if b then 0x3ff0000000000000 else 0)
  | _ => none

/-- `ConvertToBigInt` / `convertToInt` succeed exactly on int-like objects -/
def intOf : Obj → Option Int
  | .int v | .big v => some v
  | .bool b => some (if b then 1 else 0)
  | _ => none

/-- `floatNotImplemented`: what a binary float (or complex) method answers for an operand that
`convertToFloat` refused: OverflowError for an int too large for a float, else NotImplemented -/
def floatNotImplemented (other : Obj) : Except Err Obj :=
  match other with
  | .big v => match bigFloat v with | .error e => .error e | .ok _ => .ok .notImpl
  | _ => .ok .notImpl

/-- `floatPow`: math.Pow plus the cases Python defines differently -/
def floatPow (fp : FP) (x y : Nat) : Except Err Obj :=
  let finite := !isInf x && !isInf y && !isNaN x && !isNaN y
  if finite && isZero x && fp.lt y 0 then .error .zeroDiv
  else if finite && fp.lt x 0 && !(fp.eq y (fp.floor y)) then .ok .cplxOpaque   -- cmplx.Pow: value not modelled
  else
    let r := fp.pow x y
    if finite && isInf r then .error .overflow else .ok (.float r)

/-- `floatDivMod` (CPython's float_divmod) -/
def floatDivMod (fp : FP) (a b : Nat) : Except Err (Nat × Nat) :=
  if isZero b then .error .zeroDiv else
  let mod0 := fp.fmod a b
  let div0 := fp.div (fp.sub a mod0) b
  let (mod, div) :=
    if !isZero mod0 then    -- Go: mod != 0 (true for NaN)
      if (fp.lt b 0) != (fp.lt mod0 0) then (fp.add mod0 b, fp.sub div0 0x3ff0000000000000) else (mod0, div0)
    else (withSign (signBit b) 0, div0)
  let floordiv :=
    if !isZero div then
      let fl := fp.floor div
      if fp.lt 0x3fe0000000000000 (fp.sub div fl) then fp.add fl 0x3ff0000000000000 else fl
    else withSign (signBit (fp.div a b)) 0
  .ok (floordiv, mod)

/-- exact comparison of a finite double with an integer (`big.Float.Cmp` after two exact conversions) -/
def cmpFinInt (neg : Bool) (m : Nat) (e : Int) (i : Int) : Ordering :=
  let s : Int := if neg then -(m : Int) else (m : Int)
  if e ≥ 0 then compare (s * 2^e.toNat) i else compare s (i * 2^(-e).toNat)

/-- `floatCompare`: `some none` = unordered (NaN), `none` = not comparable (NotImplemented) -/
def floatCompare (fp : FP) (a : Nat) (other : Obj) : Option (Option Ordering) :=
  match other with
  | .float b =>
    some (if fp.lt a b then some .lt else if fp.lt b a then some .gt else if fp.eq a b then some .eq else none)
  | o =>
    match intOf o with
    | none => none
    | some i =>
      match decodeF a with
      | .nan => some none
      | .inf neg => some (some (if neg then .lt else .gt))
      | .fin neg m e => some (some (cmpFinInt neg m e i))

inductive CmpOp | lt | le | eq | ne | gt | ge
deriving DecidableEq, Repr

def CmpOp.name : CmpOp → String
  | .lt => "lt" | .le => "le" | .eq => "eq" | .ne => "ne" | .gt => "gt" | .ge => "ge"
def CmpOp.all : List CmpOp := [.lt, .le, .eq, .ne, .gt, .ge]
def CmpOp.swap : CmpOp → CmpOp
  | .lt => .gt | .le => .ge | .eq => .eq | .ne => .ne | .gt => .lt | .ge => .le

def CmpOp.holds (op : CmpOp) : Option Ordering → Bool
  | none => op == .ne
  | some o => match op with
    | .lt => o == .lt | .le => o != .gt | .eq => o == .eq | .ne => o != .eq | .gt => o == .gt | .ge => o != .lt

/-- `Float.M__lt__` … `M__ge__` -/
def floatCmpMethod (fp : FP) (op : CmpOp) (a : Nat) (other : Obj) : Obj :=
  match floatCompare fp a other with
  | some c => .bool (op.holds c)
  | none => .notImpl

/-- `Int`/`BigInt`/`Bool` comparison methods: only int-like operands -/
def intCmpMethod (op : CmpOp) (a : Int) (other : Obj) : Obj :=
  match intOf other with
  | some b => .bool (op.holds (some (compare a b)))
  | none => .notImpl

/-- `convertToComplex` -/
def convertToComplex : Obj → Option (Nat × Nat)
  | .cplx re im => some (re, im)
  | .float b => some (b, 0)
  | .int v => some (i64ToFloat v, 0)
  | .big v => match bigFloat v with | .ok b => some (b, 0) | .error _ => none
  | .bool b => some (if b then 0x3ff0000000000000 else 0, 0)
  | _ => none

/-- `complexEqual`: an int operand is compared exactly with the real part -/
def complexEqual (fp : FP) (re im : Nat) (other : Obj) : Option Bool :=
  match other with
  | .int _ | .big _ | .bool _ =>
    if !fp.eq im 0 then some false else     -- imag(a) != 0
    match floatCompare fp re other with
    | some (some .eq) => some true
    | _ => some false
  | o =>
    match convertToComplex o with
    | some (r2, i2) => some (fp.eq re r2 && fp.eq im i2)
    | none => none

/-- `Complex.M__lt__` … `M__ge__`: no ordering (TypeError) for numbers, `==`/`!=` by `complexEqual` -/
def cplxCmpMethod (fp : FP) (op : CmpOp) (re im : Nat) (other : Obj) : Res :=
  if op == .eq || op == .ne then
    match complexEqual fp re im other with
    | some e => .ok (.bool (if op == .eq then e else !e))
    | none => .ok .notImpl
  else
    match convertToComplex other with
    | some _ => .error .type
    | none => .ok .notImpl

/-- `py.Lt` … `py.Ne`: try a's method, then b's reflected method -/
def richCmp (fp : FP) (op : CmpOp) (a b : Obj) : Res :=
  let meth (op : CmpOp) (x y : Obj) : Res :=
    match x with
    | .float f => .ok (floatCmpMethod fp op f y)
    | .int v | .big v => .ok (intCmpMethod op v y)
    | .bool t => .ok (if op == .eq || op == .ne then intCmpMethod op (if t then 1 else 0) y else .notImpl)
    | .cplx re im => cplxCmpMethod fp op re im y
    | _ => .ok .notImpl
  match meth op a b with
  | .error e => .error e
  | .ok r1 =>
    if r1 != .notImpl then .ok r1 else
    match meth op.swap b a with
    | .error e => .error e
    | .ok r2 =>
      if r2 != .notImpl then .ok r2 else
      if (op == .eq || op == .ne) && typeTag a != typeTag b then .ok (.bool (op == .ne)) else .error .type

inductive BinOp | add | sub | mul | truediv | floordiv | mod | pow
deriving DecidableEq, Repr
def BinOp.name : BinOp → String
  | .add => "add" | .sub => "sub" | .mul => "mul" | .truediv => "truediv" | .floordiv => "floordiv" | .mod => "mod" | .pow => "pow"
def BinOp.all : List BinOp := [.add, .sub, .mul, .truediv, .floordiv, .mod, .pow]

/-- `Float.M__op__` (rev = false) and `Float.M__rop__` (rev = true): `a` is the receiver -/
def floatMethod (fp : FP) (op : BinOp) (rev : Bool) (a : Nat) (other : Obj) : Res :=
  match convertToFloat other with
  | none => floatNotImplemented other
  | some b =>
    let (x, y) := if rev then (b, a) else (a, b)    -- x op y
    match op with
    | .add => .ok (.float (fp.add x y))
    | .sub => .ok (.float (fp.sub x y))
    | .mul => .ok (.float (fp.mul x y))
    | .truediv => if isZero y then .error .zeroDiv else .ok (.float (fp.div x y))
    | .floordiv => do let (q, _) ← floatDivMod fp x y; return .float q
    | .mod => do let (_, r) ← floatDivMod fp x y; return .float r
    | .pow => floatPow fp x y

/-- `MakeFloat` on int-like objects and floats (Bool has no `__float__`) -/
def makeFloat : Obj → Except Err Nat
  | .float b => .ok b
  | .int v => .ok (i64ToFloat v)
  | .big v => bigFloat v
  | _ => .error .type

/-- integer ** integer (non-negative exponent): exact (C07) -/
def ipow (a : Int) (n : Nat) : Int := a ^ n

/-- `intTrueDiv`: the float nearest to the exact quotient (`big.Rat.Float64`), with the hardware
division as a fast path when both operands are exact floats -/
def intTrueDiv (fp : FP) (x y : Int) : Except Err Obj :=
  if y = 0 then .error .zeroDiv else
  if x = 0 then .ok (.float (withSign (y < 0) 0)) else
  if x.natAbs ≤ 2^53 && y.natAbs ≤ 2^53 then .ok (.float (fp.div (i64ToFloat x) (i64ToFloat y))) else
  match rneRat x.natAbs y.natAbs with
  | none => .error .overflow
  | some b => .ok (.float (withSign ((x < 0) != (y < 0)) b))

/-- `Int.M__op__` / `BigInt.M__op__` with the receiver `a` (`wordRecv`: receiver is a machine word) -/
def intMethod (fp : FP) (op : BinOp) (rev : Bool) (_wordRecv : Bool) (a : Int) (other : Obj) : Res :=
  match op with
  | .truediv =>
    -- `M__truediv__` / `M__rtruediv__`: int-like operands only (ConvertToBigInt)
    match intOf other with
    | none => .ok .notImpl
    | some b =>
      let (x, y) := if rev then (b, a) else (a, b)
      intTrueDiv fp x y
  | _ =>
    match intOf other with
    | none => .ok .notImpl
    | some b =>
      let (x, y) := if rev then (b, a) else (a, b)
      match op with
      | .add => .ok (maybeInt (x + y))
      | .sub => .ok (maybeInt (x - y))
      | .mul => .ok (maybeInt (x * y))
      | .floordiv => if y = 0 then .error .zeroDiv else .ok (maybeInt (Int.fdiv x y))
      | .mod => if y = 0 then .error .zeroDiv else .ok (maybeInt (Int.fmod x y))
      | .pow =>
        if y < 0 then
          -- (*BigInt).pow: negative power => floats
          match bigFloat x, bigFloat y with
          | .ok fx, .ok fy => floatPow fp fx fy
          | .error e, _ => .error e
          | _, .error e => .error e
        else .ok (maybeInt (ipow x y.toNat))
      | .truediv => .ok .notImpl

/-- Go's complex128 `*`: the plain formula on the four parts -/
def cplxMul (fp : FP) (x y : Nat × Nat) : Nat × Nat :=
  (fp.sub (fp.mul x.1 y.1) (fp.mul x.2 y.2), fp.add (fp.mul x.1 y.2) (fp.mul x.2 y.1))

/-- `Complex.M__op__` (rev = false) / `Complex.M__rop__` (rev = true); `a` is the receiver.
Only `+ - *` are modelled by value; `/ // % **` give an opaque complex. -/
def cplxMethod (fp : FP) (op : BinOp) (rev : Bool) (a : Nat × Nat) (other : Obj) : Res :=
  match convertToComplex other with
  | none => floatNotImplemented other
  | some b =>
    let (x, y) := if rev then (b, a) else (a, b)    -- x op y
    match op with
    | .add => .ok (.cplx (fp.add x.1 y.1) (fp.add x.2 y.2))
    | .sub => .ok (.cplx (fp.sub x.1 y.1) (fp.sub x.2 y.2))
    | .mul => let r := cplxMul fp x y; .ok (.cplx r.1 r.2)
    | _ => .ok .cplxOpaque

/-- `py.Add` … `py.Pow(a, b, None)`: a's method, then b's reflected method if the types differ -/
def binop (fp : FP) (op : BinOp) (a b : Obj) : Res :=
  let meth (rev : Bool) (x y : Obj) : Res :=
    match x with
    | .float f => floatMethod fp op rev f y
    | .int v => intMethod fp op rev true v y
    | .big v => intMethod fp op rev false v y
    | .cplx re im => cplxMethod fp op rev (re, im) y
    | _ => .ok .notImpl      -- Bool has no arithmetic methods (C07-K01)
  match meth false a b with
  | .error e => .error e
  | .ok r1 =>
    if r1 != .notImpl then .ok r1 else
    if typeTag a != typeTag b then
      match meth true b a with
      | .error e => .error e
      | .ok r2 => if r2 != .notImpl then .ok r2 else .error .type
    else .error .type

/-- `py.DivMod` -/
def divmod (fp : FP) (a b : Obj) : Res :=
  let meth (rev : Bool) (x y : Obj) : Res :=
    match x with
    | .float f =>
      match convertToFloat y with
      | none => floatNotImplemented y
      | some g => do
        let (p, q) := if rev then (g, f) else (f, g)
        let (d, m) ← floatDivMod fp p q
        return .pair (.float d) (.float m)
    | .int v | .big v =>
      match intOf y with
      | none => .ok .notImpl
      | some w =>
        let (p, q) := if rev then (w, v) else (v, w)
        if q = 0 then .error .zeroDiv else .ok (.pair (maybeInt (Int.fdiv p q)) (maybeInt (Int.fmod p q)))
    | _ => .ok .notImpl
  match meth false a b with
  | .error e => .error e
  | .ok r1 =>
    if r1 != .notImpl then .ok r1 else
    if typeTag a != typeTag b then
      match meth true b a with
      | .error e => .error e
      | .ok r2 => if r2 != .notImpl then .ok r2 else .error .type
    else .error .type

/-- `Float.M__int__` -/
def floatToInt (a : Nat) : Res :=
  match decodeF a with
  | .nan => .error .value
  | .inf _ => .error .overflow
  | .fin neg m e =>
    let sgn (x : Nat) : Int := if neg then -(x : Int) else (x : Int)
    -- a >= IntMin && a < IntMax (as floats: -2^63 ≤ a < 2^63), compared exactly on the decoded value
    let small : Bool := if e ≥ 0 then (m * 2^e.toNat < 2^63 || (neg && m * 2^e.toNat == 2^63)) else true
    if small then
      -- Go float64→int64 conversion truncates
      .ok (.int (sgn (if e ≥ 0 then m * 2^e.toNat else m / 2^(-e).toNat)))
    else
      -- Frexp: frac·2^53 = m (a 53-bit integer), shift = exp - 53 = e > 0
      .ok (.big (sgn (m <<< e.toNat)))

/-- `(*BigInt).M__round__` with negative digit count `-k` -/
def bigRoundNeg (a : Int) (k : Nat) : Int :=
  let negative := a < 0
  let r : Nat := a.natAbs
  let scale := 10 ^ k
  let digits := r % scale
  let r := r - digits
  let r := if 2 * digits > scale || (2 * digits == scale && (r / scale) % 2 == 1) then r + scale else r
  if negative then -(r : Int) else (r : Int)

/-- `Int.M__round__` / `BigInt.M__round__` (digits must be int-like or None) -/
def intRound (isWord : Bool) (a : Int) (digits : Obj) : Res :=
  let self : Obj := if isWord then .int a else .big a
  match digits with
  | .none => .ok self
  | .int b | .big b =>
    if digits matches .big _ && isWord then .error .type else   -- convertToInt refuses a BigInt
    if b ≥ 0 then .ok self else .ok (maybeInt (bigRoundNeg a (-b).toNat))
  | .bool _ => .ok self
  | _ => .error .type

/-- `Float.M__round__` : `rat` is the contract of the big.Rat computation:
round the exact value to a multiple of 10^-digits (half even), then the nearest double -/
def floatRound (fp : FP) (a : Nat) (digits : Obj) : Res :=
  match digits with
  | .none => floatToInt (fp.roundEven a)
  | .int d =>
    if isNaN a || isInf a || isZero a then .ok (.float a) else
    if d > 1100 then .ok (.float a) else
    if d < -310 then .ok (.float (withSign (signBit a) 0)) else
    match decodeF a with
    | .fin neg m e =>
      let (n, dn) := fracOf m e
      -- x = n/dn · 10^d
      let (n, dn) := if d ≥ 0 then (n * 10^d.toNat, dn) else (n, dn * 10^(-d).toNat)
      let q := n / dn
      let r := n % dn
      let q := if 2 * r > dn || (2 * r == dn && q % 2 == 1) then q + 1 else q
      let (rn, rd) := if d ≥ 0 then (q, 10^d.toNat) else (q * 10^(-d).toNat, 1)
      match rneRat rn rd with
      | none => .error .overflow
      | some b => .ok (.float (withSign neg b))
    | _ => .ok (.float a)
  | _ => .error .type

/-- builtin `round(number[, ndigits])` -/
def builtinRound (fp : FP) (x : Obj) (nd : Obj) : Res :=
  match x with
  | .float a => floatRound fp a nd
  | .int v => intRound true v nd
  | .big v => intRound false v nd
  | _ => .error .type

/-! ### text form -/

def natDigits (n : Nat) : List Nat := (Nat.toDigits 10 n).map (fun c => c.toNat - 48)

/-- decimal digits `ds` (no leading zero unless the value is 0) and decimal point position:
value = 0.d1d2d3… × 10^decpt.  Shortest digit string that reads back as the same double,
closest to the exact value among the shortest: the contract of `strconv.FormatFloat(f, 'e'/'f', -1, 64)`. -/
def shortest (m : Nat) (e : Int) : Nat × Int := Id.run do
  if m = 0 then return (0, 1)
  let (num, den) := fracOf m e
  let target := rneRat num den
  -- decimal exponent k10 with 10^(k10-1) ≤ x < 10^k10
  let mut k10 : Int := 0
  let ge10 (k : Int) : Bool := if k ≥ 0 then num ≥ den * 10^k.toNat else num * 10^(-k).toNat ≥ den
  -- estimate from the binary exponent then adjust
  let est : Int := (((bitLen num : Int) - (bitLen den : Int)) * 30103) / 100000
  k10 := est - 2
  while ge10 k10 do k10 := k10 + 1
  -- now x < 10^k10 and x ≥ 10^(k10-1)
  for nd in [1:18] do
    -- D = x / 10^(k10-nd) rounded; candidates D-1, D, D+1
    let s : Int := k10 - nd
    let (n', d') := if s ≥ 0 then (num, den * 10^s.toNat) else (num * 10^(-s).toNat, den)
    let q := n' / d'
    let r := n' % d'
    let D := if 2 * r ≥ d' then q + 1 else q
    let mut best : Option (Nat × Nat) := none   -- (candidate, |candidate·d' - n'|)
    for c in [D - 1, D, D + 1] do
      if c = 0 then continue
      let (cn, cd) := if s ≥ 0 then (c * 10^s.toNat, 1) else (c, 10^(-s).toNat)
      if rneRat cn cd == target then
        let err := if c * d' ≥ n' then c * d' - n' else n' - c * d'
        match best with
        | some (_, e0) => if err < e0 || (err == e0 && c % 2 == 0) then best := some (c, err)   -- ties: even digit
        | none => best := some (c, err)
    match best with
    | some (c, _) =>
      -- strip trailing zeros (c may be 10^nd)
      let mut c := c
      let mut dp : Int := k10
      if c ≥ 10^nd then dp := dp + 1
      while c % 10 == 0 do c := c / 10
      return (c, dp)
    | none => pure ()
  return (0, 0)

def digitsStr (c : Nat) : String := toString c

/-- `%e`-style with the shortest digits: d[.ddd]e±XX (at least two exponent digits) -/
def fmtE (c : Nat) (decpt : Int) : String :=
  let ds := digitsStr c
  let x := decpt - 1
  let mant := if ds.length ≤ 1 then ds else (ds.take 1).toString ++ "." ++ (ds.drop 1).toString
  let ax := x.natAbs
  mant ++ "e" ++ (if x < 0 then "-" else "+") ++ (if ax < 10 then "0" else "") ++ toString ax

/-- `%f`-style with the shortest digits -/
def fmtF (c : Nat) (decpt : Int) : String :=
  let ds := digitsStr c
  if c = 0 then "0" else
  if decpt ≤ 0 then "0." ++ String.ofList (List.replicate (-decpt).toNat '0') ++ ds
  else if decpt.toNat ≥ ds.length then ds ++ String.ofList (List.replicate (decpt.toNat - ds.length) '0')
  else (ds.take decpt.toNat).toString ++ "." ++ (ds.drop decpt.toNat).toString

/-- `Float.M__str__` / `M__repr__` (after the fix); `digits` is the strconv contract -/
def floatStr (digits : Nat → Int → Nat × Int) (a : Nat) : String :=
  match decodeF a with
  | .nan => "nan"
  | .inf neg => if neg then "-inf" else "inf"
  | .fin neg m e =>
    let (c, decpt) := digits m e
    let exp := decpt - 1          -- the exponent strconv prints in 'e' format (0 for zero)
    let exp := if c = 0 then 0 else exp
    let body :=
      if exp ≥ -4 && exp < 16 then
        let s := fmtF c decpt
        if s.contains '.' then s else s ++ ".0"
      else fmtE c decpt
    (if neg then "-" else "") ++ body

/-! ### unary operations and builtins -/

inductive UnOp | neg | pos | abs | bool | int | float | str
deriving DecidableEq, Repr
def UnOp.name : UnOp → String
  | .neg => "neg" | .pos => "pos" | .abs => "abs" | .bool => "bool" | .int => "int" | .float => "float" | .str => "str"
def UnOp.all : List UnOp := [.neg, .pos, .abs, .bool, .int, .float, .str]

def unop (op : UnOp) (a : Obj) : Res :=
  match a with
  | .float f =>
    match op with
    | .neg => .ok (.float (if signBit f then f - 2^63 else f + 2^63))
    | .pos => .ok a
    | .abs => .ok (.float (f % 2^63))
    | .bool => .ok (.bool (!isZero f))       -- a != 0 (true for NaN)
    | .int => floatToInt f
    | .float => .ok a
    | .str => .ok (.str (floatStr shortest f))
  | .int v | .big v =>
    match op with
    | .neg => .ok (maybeInt (-v))
    | .pos => .ok a
    | .abs => .ok (maybeInt v.natAbs)
    | .bool => .ok (.bool (v != 0))
    | .int => .ok a
    | .float => (makeFloat a).map .float
    | .str => .ok (.str (toString v))
  | .cplx re im =>
    let flip (f : Nat) : Nat := if signBit f then f - 2^63 else f + 2^63
    match op with
    | .neg => .ok (.cplx (flip re) (flip im))
    | .pos => .ok a
    | .bool => .ok (.bool (!(isZero re && isZero im)))     -- a != 0
    | .abs => .ok .cplxOpaque                               -- cmplx.Abs: not modelled
    | .str => .ok .cplxOpaque                               -- text form of a complex: not modelled
    | .int | .float => .error .type
  | _ => .error .type

/-- `builtin_abs`: `py.Abs` -/
def builtinAbs (x : Obj) : Res := unop .abs x
/-- `builtin_pow(x, y)`: `py.Pow(x, y, None)` -/
def builtinPow (fp : FP) (x y : Obj) : Res := binop fp .pow x y
/-- `builtin_divmod`: `py.DivMod`, packed into a tuple -/
def builtinDivmod (fp : FP) (x y : Obj) : Res := divmod fp x y

/-- `builtin_sum` over a list: left fold of `py.Add` from `Int(0)` -/
def builtinSum (fp : FP) (xs : List Obj) : Res :=
  xs.foldlM (fun acc x => binop fp .add acc x) (.int 0)

/-- `min_max`: keep the first; replace when `cmp(item, best)` is True (`Le` for min, `Ge` for max) -/
def builtinMinMax (fp : FP) (isMax : Bool) (xs : List Obj) : Res :=
  match xs with
  | [] => .error .value
  | x :: rest =>
    rest.foldlM (fun best item => do
      let c ← richCmp fp (if isMax then .ge else .le) item best
      return if c == .bool true then item else best) x

end GPy.C15
