/- helper lemmas for C15 -/
import GPy.C15.Spec
import Mathlib.Tactic.Linarith
import Mathlib.Tactic.SplitIfs
namespace GPy.C15

theorem bitLen_bounds {n : Nat} (h : n ≠ 0) : 2 ^ (bitLen n - 1) ≤ n ∧ n < 2 ^ bitLen n := by
  unfold bitLen
  simp only [h, if_false, Nat.add_sub_cancel]
  exact ⟨Nat.log2_self_le h, Nat.lt_log2_self⟩

/-- decoding a normal encoding gives back mantissa and exponent -/
theorem decode_encodeNormal (m : Nat) (e : Int) (hm : 2^52 ≤ m ∧ m < 2^53) (he : -1074 ≤ e ∧ e ≤ 971) :
    decodeF (encodeNormal m e) = .fin false m e := by
  obtain ⟨k, hk⟩ : ∃ k : Nat, (e + 1075) = (k : Int) := ⟨(e + 1075).toNat, by omega⟩
  have hk1 : 1 ≤ k ∧ k ≤ 2046 := by omega
  have hb : encodeNormal m e = k * 2^52 + (m - 2^52) := by
    unfold encodeNormal; rw [hk]; simp
  have hlt : m - 2^52 < 2^52 := by omega
  have h1 : expField (encodeNormal m e) = k := by
    unfold expField; rw [hb]; omega
  have h2 : fracField (encodeNormal m e) = m - 2^52 := by
    unfold fracField; rw [hb]; omega
  have h3 : signBit (encodeNormal m e) = false := by
    unfold signBit; rw [hb]
    have : (k * 2^52 + (m - 2^52)) / 2^63 % 2 = 0 := by omega
    rw [this]; rfl
  have hk' : ¬ k = 2047 := by omega
  have h0 : ¬ k = 0 := by omega
  have he' : (k : Int) - 1075 = e := by omega
  have hm' : 2^52 + (m - 2^52) = m := by omega
  simp only [decodeF, h1, h2, h3, hk', h0, if_false, he', hm']

/-- the rounding step of `rneNat` on `n = q·P + r`, `P = 2·half` -/
theorem rne_core (n q r P half sh : Nat) (hn : n = q * P + r) (hr : r < P) (hP : P = 2 * half)
    (hPs : P = 2 ^ sh) (hq : 2^52 ≤ q ∧ q < 2^53) :
    let q' := if r > half || (r == half && q % 2 == 1) then q + 1 else q
    let me := if q' = 2^53 then (2^52, sh + 1) else (q', sh)
    IsNearestEven n me.1 me.2 := by
  intro q' me
  have hsucc : (q + 1) * P = q * P + P := Nat.succ_mul q P
  have hpow : 2 ^ (sh + 1) = 2 * P := by rw [hPs, Nat.pow_succ]; omega
  by_cases hup : (r > half || (r == half && q % 2 == 1)) = true
  · have hq' : q' = q + 1 := by simp only [q', hup, if_true]
    have hup' : r > half ∨ (r = half ∧ q % 2 = 1) := by
      simp only [Bool.or_eq_true, Bool.and_eq_true, decide_eq_true_eq, beq_iff_eq] at hup; exact hup
    by_cases h53 : q + 1 = 2^53
    · have : me = (2^52, sh + 1) := by simp only [me, hq', h53, if_true]
      rw [this]; simp only [IsNearestEven]
      have h2 : 2^52 * 2^(sh+1) = q * P + P := by
        rw [hpow, ← hsucc, h53]; omega
      rw [h2, hpow]
      refine ⟨by omega, by omega, by omega, by omega, fun _ => by norm_num⟩
    · have : me = (q + 1, sh) := by simp only [me, hq', h53, if_false]
      rw [this]; simp only [IsNearestEven]
      rw [← hPs, hsucc]
      refine ⟨by omega, by omega, by omega, by omega, fun h => by omega⟩
  · have hq' : q' = q := by simp only [q', hup, if_false]; rfl
    have hup' : ¬ (r > half ∨ (r = half ∧ q % 2 = 1)) := by
      simp only [Bool.or_eq_true, Bool.and_eq_true, decide_eq_true_eq, beq_iff_eq] at hup; exact hup
    have h53 : ¬ q = 2^53 := by omega
    have : me = (q, sh) := by simp only [me, hq', h53, if_false]
    rw [this]; simp only [IsNearestEven]
    rw [← hPs]
    refine ⟨by omega, by omega, by omega, by omega, fun h => by omega⟩

/-- `Float.M__int__` truncates: every finite double, both code branches -/
theorem floatToInt_trunc_aux (a : Nat) (neg : Bool) (m : Nat) (e : Int) (h : decodeF a = .fin neg m e) :
    let mag : Nat := if e ≥ 0 then m * 2^e.toNat else m / 2^(-e).toNat
    let v : Int := if neg then -(mag : Int) else (mag : Int)
    floatToInt a = .ok (.int v) ∨ floatToInt a = .ok (.big v) := by
  intro mag v
  unfold floatToInt
  rw [h]
  by_cases he : e ≥ 0
  · simp only [he, if_true, Nat.shiftLeft_eq, mag, v]
    split
    · first | exact Or.inl rfl | simp
    · first | exact Or.inr rfl | simp
  · simp only [he, if_false, if_true, mag, v]
    first | exact Or.inl rfl | simp

end GPy.C15
