/-
C15 proofs: exact float/int comparison (`cmp_int_float_exact`) and round-half-even of
`int.__round__` with negative ndigits (`round_half_even_int`).
-/
import GPy.C15.Proofs
import Mathlib.Tactic.Linarith
import Mathlib.Tactic.SplitIfs
import Mathlib.Tactic.Ring
import Mathlib.Tactic.NormNum
import Mathlib.Tactic.FieldSimp
import Mathlib.Tactic.Positivity
import Mathlib.Tactic.Push
import Mathlib.Algebra.Order.Field.Basic
import Mathlib.Algebra.Order.Field.Rat
import Mathlib.Data.Rat.Cast.Order
namespace GPy.C15

/-! ## GOAL 1: comparison -/

theorem compare_int_ite (a b : Int) :
    compare a b = if a < b then Ordering.lt else if b < a then .gt else .eq := by
  rcases lt_trichotomy a b with h | h | h
  · rw [if_pos h]; exact compare_lt_iff_lt.mpr h
  · subst h; simp
  · rw [if_neg (not_lt.mpr h.le), if_pos h]; exact compare_gt_iff_gt.mpr h

/-- transfer of a three-way comparison along order-equivalent pairs -/
theorem compare_int_transfer (a b : Int) (x y : Rat) (h1 : a < b ↔ x < y) (h2 : b < a ↔ y < x) :
    compare a b = if x < y then Ordering.lt else if y < x then .gt else .eq := by
  rw [compare_int_ite]
  by_cases hab : a < b
  · rw [if_pos hab, if_pos (h1.mp hab)]
  · rw [if_neg hab, if_neg (fun h => hab (h1.mpr h))]
    by_cases hba : b < a
    · rw [if_pos hba, if_pos (h2.mp hba)]
    · rw [if_neg hba, if_neg (fun h => hba (h2.mpr h))]

theorem ratOf_nonneg_exp (neg : Bool) (m : Nat) (e : Int) (he : e ≥ 0) :
    ratOf neg m e = (((if neg then -(m : Int) else (m : Int)) * 2 ^ e.toNat : Int) : Rat) := by
  unfold ratOf
  simp only [he, if_true]
  cases neg <;> simp

theorem ratOf_neg_exp (neg : Bool) (m : Nat) (e : Int) (he : ¬ e ≥ 0) :
    ratOf neg m e = (((if neg then -(m : Int) else (m : Int)) : Int) : Rat) / (2 : Rat) ^ (-e).toNat := by
  unfold ratOf
  simp only [he, if_false]
  cases neg <;> simp [neg_div]

/-- the integer cross-multiplication of the model is the comparison of the exact rational value -/
theorem cmpFinInt_exact (neg : Bool) (m : Nat) (e : Int) (i : Int) :
    cmpFinInt neg m e i =
      (let x := ratOf neg m e; if x < (i : Rat) then Ordering.lt else if (i : Rat) < x then .gt else .eq) := by
  unfold cmpFinInt
  by_cases he : e ≥ 0
  · simp only [he, if_true]
    rw [ratOf_nonneg_exp neg m e he]
    exact compare_int_transfer _ _ _ _ Int.cast_lt.symm Int.cast_lt.symm
  · simp only [he, if_false]
    rw [ratOf_neg_exp neg m e he]
    have hp : (0 : Rat) < (2 : Rat) ^ (-e).toNat := by positivity
    apply compare_int_transfer
    · rw [div_lt_iff₀ hp]
      rw [← Int.cast_lt (R := Rat)]
      push_cast
      exact Iff.rfl
    · rw [lt_div_iff₀ hp]
      rw [← Int.cast_lt (R := Rat)]
      push_cast
      exact Iff.rfl

theorem specCmpFloatInt_eq (a : Nat) (i : Int) :
    specCmpFloatInt a i =
      match decodeF a with
      | .nan => none
      | .inf neg => some (if neg then .lt else .gt)
      | .fin neg m e => some (cmpFinInt neg m e i) := by
  unfold specCmpFloatInt
  cases decodeF a with
  | nan => rfl
  | inf neg => rfl
  | fin neg m e => simp only [cmpFinInt_exact]

/-- ∀ doubles (incl. ±inf, nan), ∀ ints in either representation -/
theorem floatCompare_int_exact (fp : FP) (a : Nat) (i : Int) :
    floatCompare fp a (.int i) = some (specCmpFloatInt a i) ∧
    floatCompare fp a (.big i) = some (specCmpFloatInt a i) := by
  rw [specCmpFloatInt_eq]
  constructor <;>
  · simp only [floatCompare, intOf]
    cases decodeF a <;> rfl

theorem floatCmpMethod_int (fp : FP) (op : CmpOp) (a : Nat) (i : Int) :
    floatCmpMethod fp op a (.int i) = .bool (op.holds (specCmpFloatInt a i)) ∧
    floatCmpMethod fp op a (.big i) = .bool (op.holds (specCmpFloatInt a i)) := by
  unfold floatCmpMethod
  rw [(floatCompare_int_exact fp a i).1, (floatCompare_int_exact fp a i).2]
  exact ⟨rfl, rfl⟩

theorem intCmpMethod_float (op : CmpOp) (i : Int) (a : Nat) :
    intCmpMethod op i (.float a) = .notImpl := rfl

/-- all six operators, both operand orders, through the dispatch `richCmp` -/
theorem richCmp_float_int_exact (fp : FP) (op : CmpOp) (a : Nat) (i : Int) :
    richCmp fp op (.float a) (.int i) = .ok (.bool (op.holds (specCmpFloatInt a i))) ∧
    richCmp fp op (.float a) (.big i) = .ok (.bool (op.holds (specCmpFloatInt a i))) ∧
    richCmp fp op (.int i) (.float a) = .ok (.bool (op.swap.holds (specCmpFloatInt a i))) ∧
    richCmp fp op (.big i) (.float a) = .ok (.bool (op.swap.holds (specCmpFloatInt a i))) := by
  refine ⟨?_, ?_, ?_, ?_⟩
  · simp [richCmp, (floatCmpMethod_int fp op a i).1]
  · simp [richCmp, (floatCmpMethod_int fp op a i).2]
  · simp [richCmp, intCmpMethod_float, (floatCmpMethod_int fp op.swap a i).1]
  · simp [richCmp, intCmpMethod_float, (floatCmpMethod_int fp op.swap a i).2]

/-- the spec returns literally the same expression (link to `specCmp`) -/
theorem specCmp_float_int (fp : FP) (op : CmpOp) (a : Nat) (i : Int) :
    specCmp fp op (.f a) (.i i) = .ok (.bool (op.holds (specCmpFloatInt a i))) := rfl

theorem specCmp_int_float (fp : FP) (op : CmpOp) (a : Nat) (i : Int) :
    specCmp fp op (.i i) (.f a) = .ok (.bool (op.swap.holds (specCmpFloatInt a i))) := rfl

/-! ## GOAL 2: `int.__round__` with negative ndigits -/

/-- `bigRoundNeg` with the scale as a parameter -/
def bigRoundS (a : Int) (scale : Nat) : Int :=
  let negative := a < 0
  let r : Nat := a.natAbs
  let digits := r % scale
  let r := r - digits
  let r := if 2 * digits > scale || (2 * digits == scale && (r / scale) % 2 == 1) then r + scale else r
  if negative then -(r : Int) else (r : Int)

theorem bigRoundNeg_eq_S (a : Int) (k : Nat) : bigRoundNeg a k = bigRoundS a (10 ^ k) := rfl

/-- `specRoundInt` with the scale as a parameter -/
def specRoundS (a : Int) (s : Int) : Int :=
  let q := a / s
  let r := a % s
  if 2 * r < s then q * s else if 2 * r > s then (q + 1) * s else if q % 2 = 0 then q * s else (q + 1) * s

theorem specRoundInt_eq_S (a : Int) (k : Nat) : specRoundInt a k = specRoundS a (((10 ^ k : Nat) : Int)) := by
  have : (((10 ^ k : Nat) : Int)) = (10 : Int) ^ k := by push_cast; rfl
  rw [this]; rfl

/-- the natural-number rounding step -/
theorem roundNat_core (r s : Nat) (hs : 0 < s) :
    (if 2 * (r % s) > s || (2 * (r % s) == s && ((r - r % s) / s) % 2 == 1) then (r - r % s) + s else (r - r % s))
      = s * (if 2 * (r % s) > s ∨ (2 * (r % s) = s ∧ (r / s) % 2 = 1) then r / s + 1 else r / s) := by
  have h := Nat.div_add_mod r s
  have h1 : r - r % s = s * (r / s) := by omega
  have h2 : (s * (r / s)) / s = r / s := Nat.mul_div_cancel_left _ hs
  rw [h1, h2]
  simp only [Bool.or_eq_true, Bool.and_eq_true, decide_eq_true_eq, beq_iff_eq]
  split_ifs
  · rw [Nat.mul_add, Nat.mul_one]
  · rfl

theorem bigRoundS_eq (a : Int) (s : Nat) (hs : 0 < s) :
    ∃ q d : Nat, a.natAbs = s * q + d ∧ d < s ∧
      bigRoundS a s = (if a < 0 then -1 else 1) *
        ((s : Int) * (if 2 * d > s ∨ (2 * d = s ∧ q % 2 = 1) then (q : Int) + 1 else q)) := by
  refine ⟨a.natAbs / s, a.natAbs % s, (Nat.div_add_mod _ _).symm, Nat.mod_lt _ hs, ?_⟩
  unfold bigRoundS
  simp only [roundNat_core a.natAbs s hs]
  by_cases ha : a < 0
  · simp only [ha, if_true]
    split_ifs <;> push_cast <;> ring
  · simp only [ha, if_false]
    split_ifs <;> push_cast <;> ring

theorem IsRoundHalfEven_neg {a R s : Int} (hs : 0 < s) (h : IsRoundHalfEven a R s) :
    IsRoundHalfEven (-a) (-R) s := by
  obtain ⟨⟨c, hc⟩, h2, h3, h4⟩ := h
  have hR : R / s = c := by rw [hc]; exact Int.mul_ediv_cancel_left _ (ne_of_gt hs)
  have hR' : (-R) / s = -c := by
    rw [hc, ← Int.mul_neg]; exact Int.mul_ediv_cancel_left _ (ne_of_gt hs)
  refine ⟨⟨-c, by rw [hc, Int.mul_neg]⟩, by omega, by omega, ?_⟩
  intro ht
  rw [hR']
  have : c % 2 = 0 := by
    rw [← hR]; apply h4; omega
  omega

theorem IsRoundHalfEven_pos (s q d : Int) (hs : 0 < s) (hd0 : 0 ≤ d) (hd : d < s) :
    IsRoundHalfEven (s * q + d) (s * (if 2 * d > s ∨ (2 * d = s ∧ q % 2 = 1) then q + 1 else q)) s := by
  refine ⟨⟨_, rfl⟩, ?_⟩
  rw [Int.mul_ediv_cancel_left _ (ne_of_gt hs)]
  split_ifs with hc
  · rw [Int.mul_add, Int.mul_one]
    generalize s * q = t
    refine ⟨by omega, by omega, fun _ => by omega⟩
  · generalize s * q = t
    refine ⟨by omega, by omega, fun _ => by omega⟩

theorem bigRoundS_half_even (a : Int) (s : Nat) (hs : 0 < s) : IsRoundHalfEven a (bigRoundS a s) s := by
  obtain ⟨q, d, hqd, hd, hR⟩ := bigRoundS_eq a s hs
  have hs' : (0 : Int) < (s : Int) := by exact_mod_cast hs
  have hd0 : (0 : Int) ≤ (d : Int) := Int.natCast_nonneg d
  have hd' : (d : Int) < (s : Int) := by exact_mod_cast hd
  have hpos := IsRoundHalfEven_pos (s : Int) q d hs' hd0 hd'
  have hcond : ((2 * (d : Int) > (s : Int) ∨ (2 * (d : Int) = (s : Int) ∧ (q : Int) % 2 = 1))) ↔
      (2 * d > s ∨ (2 * d = s ∧ q % 2 = 1)) := by omega
  simp only [hcond] at hpos
  have habs : ((a.natAbs : Nat) : Int) = (s : Int) * q + d := by rw [hqd]; push_cast; ring
  rw [hR]
  by_cases ha : a < 0
  · have haa : a = -((s : Int) * q + d) := by omega
    simp only [ha, if_true, neg_one_mul]
    rw [haa]
    exact IsRoundHalfEven_neg hs' hpos
  · have haa : a = (s : Int) * q + d := by omega
    simp only [ha, if_false, one_mul]
    rw [haa]
    exact hpos

theorem bigRoundNeg_half_even (a : Int) (k : Nat) : IsRoundHalfEven a (bigRoundNeg a k) (10 ^ k) := by
  have h := bigRoundS_half_even a (10 ^ k) (Nat.pow_pos (by decide))
  rw [bigRoundNeg_eq_S]
  have : (((10 ^ k : Nat) : Int)) = (10 : Int) ^ k := by push_cast; rfl
  rw [this] at h
  exact h

/-- floor division data determine `specRoundS` -/
theorem specRoundS_of (a s Q r : Int) (hs : 0 < s) (h : r + s * Q = a) (hr0 : 0 ≤ r) (hr : r < s) :
    specRoundS a s =
      if 2 * r < s then Q * s else if 2 * r > s then (Q + 1) * s else if Q % 2 = 0 then Q * s else (Q + 1) * s := by
  obtain ⟨h1, h2⟩ := (Int.ediv_emod_unique hs).mpr ⟨h, hr0, hr⟩
  unfold specRoundS
  simp only [h1, h2]

theorem bigRoundS_eq_spec (a : Int) (s : Nat) (hs : 0 < s) : bigRoundS a s = specRoundS a s := by
  obtain ⟨q, d, hqd, hd, hR⟩ := bigRoundS_eq a s hs
  have hs' : (0 : Int) < (s : Int) := by exact_mod_cast hs
  have hd' : (d : Int) < (s : Int) := by exact_mod_cast hd
  have habs : ((a.natAbs : Nat) : Int) = (s : Int) * q + d := by rw [hqd]; push_cast; ring
  have hcond : (2 * d > s ∨ (2 * d = s ∧ q % 2 = 1)) ↔
      ((2 * (d : Int) > (s : Int) ∨ (2 * (d : Int) = (s : Int) ∧ (q : Int) % 2 = 1))) := by omega
  rw [hR]
  simp only [hcond]
  by_cases ha : a < 0
  · simp only [ha, if_true, neg_one_mul]
    by_cases hd00 : d = 0
    · have haa : (0 : Int) + (s : Int) * (-(q : Int)) = a := by
        have : a = -((s : Int) * q + d) := by omega
        rw [this, hd00]; push_cast; ring
      rw [specRoundS_of a s (-(q : Int)) 0 hs' haa (le_refl _) hs']
      subst hd00
      have e1 : (-(q : Int)) * (s : Int) = -((s : Int) * q) := by ring
      rw [e1]
      simp only [Nat.cast_zero] at *
      rw [if_neg (by omega), if_pos (by omega)]
    · have haa : ((s : Int) - d) + (s : Int) * (-((q : Int) + 1)) = a := by
        have : a = -((s : Int) * q + d) := by omega
        rw [this]; ring
      rw [specRoundS_of a s (-((q : Int) + 1)) ((s : Int) - d) hs' haa (by omega) (by omega)]
      have e1 : (-((q : Int) + 1)) * (s : Int) = -((s : Int) * ((q : Int) + 1)) := by ring
      have e2 : (-((q : Int) + 1) + 1) * (s : Int) = -((s : Int) * (q : Int)) := by ring
      rw [e1, e2]
      split_ifs <;> first | rfl | omega
  · simp only [ha, if_false, one_mul]
    have haa : (d : Int) + (s : Int) * (q : Int) = a := by omega
    rw [specRoundS_of a s q d hs' haa (Int.natCast_nonneg d) hd']
    have e1 : (q : Int) * (s : Int) = (s : Int) * q := by ring
    have e2 : ((q : Int) + 1) * (s : Int) = (s : Int) * ((q : Int) + 1) := by ring
    rw [e1, e2]
    split_ifs <;> first | rfl | omega

theorem bigRoundNeg_eq_spec (a : Int) (k : Nat) : bigRoundNeg a k = specRoundInt a k := by
  rw [bigRoundNeg_eq_S, specRoundInt_eq_S]
  exact bigRoundS_eq_spec a (10 ^ k) (Nat.pow_pos (by decide))

/-- the method: a negative int ndigits `-k` (k ≥ 1) on either representation rounds half to even -/
theorem intRound_neg (isWord : Bool) (a : Int) (k : Nat) (hk : 1 ≤ k) :
    intRound isWord a (.int (-(k : Int))) = .ok (maybeInt (bigRoundNeg a k)) := by
  simp only [intRound, Int.neg_neg, Int.toNat_natCast]
  simp
  intro h0; omega

/-- `BigInt` receiver with a `BigInt` digit count (a word receiver refuses it: `convertToInt`) -/
theorem intRound_neg_big (a : Int) (k : Nat) (hk : 1 ≤ k) :
    intRound false a (.big (-(k : Int))) = .ok (maybeInt (bigRoundNeg a k)) := by
  simp only [intRound, Int.neg_neg, Int.toNat_natCast]
  simp
  intro h0; omega

/-- non-negative or `None` ndigits return the int unchanged -/
theorem intRound_nonneg (isWord : Bool) (a : Int) (b : Int) (hb : 0 ≤ b) :
    intRound isWord a (.int b) = .ok (if isWord then .int a else .big a) := by
  simp [intRound, hb]

theorem intRound_none (isWord : Bool) (a : Int) :
    intRound isWord a .none = .ok (if isWord then .int a else .big a) := rfl

/-- combined statement: the value returned by the method satisfies the round-half-even predicate -/
theorem intRound_neg_half_even (isWord : Bool) (a : Int) (k : Nat) (hk : 1 ≤ k) :
    ∃ R, intRound isWord a (.int (-(k : Int))) = .ok (maybeInt R) ∧ IsRoundHalfEven a R (10 ^ k) ∧
      R = specRoundInt a k :=
  ⟨bigRoundNeg a k, intRound_neg isWord a k hk, bigRoundNeg_half_even a k, bigRoundNeg_eq_spec a k⟩


end GPy.C15
