/-
C15 proofs: float `%` / `divmod` (`floatDivMod`, CPython's float_divmod as coded in gpython).
`floordiv_mod_sign_aux`: the modulo takes the sign of the divisor, for every hardware satisfying `FPContract`.
`divmod_identity_partial_aux`: `a = k·b + ρ` with ρ the floored remainder; the returned double is ρ or the
single hardware sum `fmod(a,b) + b` whose exact value is ρ.  (The quotient double is not covered.)
-/
import GPy.C15.Proofs
import Mathlib.Tactic.Linarith
import Mathlib.Tactic.SplitIfs
import Mathlib.Tactic.Ring
import Mathlib.Tactic.NormNum
import Mathlib.Tactic.FieldSimp
import Mathlib.Tactic.Positivity
import Mathlib.Tactic.Push
import Mathlib.Algebra.Order.Field.Basic
import Mathlib.Algebra.Order.Field.Rat
import Mathlib.Data.Rat.Cast.Order
namespace GPy.C15

/-! ### helper facts on bit patterns -/

theorem ratOf_eq_zero_iff (neg : Bool) (m : Nat) (e : Int) : ratOf neg m e = 0 ↔ m = 0 := by
  unfold ratOf
  by_cases he : e ≥ 0 <;> cases neg <;> simp [he]

/-- (H1) the bit pattern `0` is `+0.0` -/
theorem valOf_zero : valOf 0 = some 0 := by
  have h : decodeF 0 = .fin false 0 (-1074) := by decide
  unfold valOf
  rw [h]
  exact congrArg some ((ratOf_eq_zero_iff _ _ _).mpr rfl)

/-- (H2) `isZero` is "the exact value is zero" on finite doubles -/
theorem isZero_iff_val {x : Nat} {v : Rat} (h : valOf x = some v) : isZero x = true ↔ v = 0 := by
  unfold valOf decodeF at h
  by_cases h1 : expField x = 2047
  · by_cases h2 : fracField x = 0 <;> simp [h1, h2] at h
  · by_cases h3 : expField x = 0
    · simp only [h3, if_true] at h
      injection h with h
      subst h
      rw [ratOf_eq_zero_iff]
      unfold isZero
      unfold expField at h3
      unfold fracField
      simp only [beq_iff_eq]
      omega
    · simp only [h1, h3, if_false] at h
      injection h with h
      subst h
      rw [ratOf_eq_zero_iff]
      unfold isZero
      unfold expField at h3
      simp only [beq_iff_eq]
      constructor
      · intro h; exfalso; omega
      · intro h; exfalso; omega

/-- (H3) signed zeros -/
theorem valOf_withSign_zero (s : Bool) : valOf (withSign s 0) = some 0 := by
  cases s
  · exact valOf_zero
  · have h : decodeF (withSign true 0) = .fin true 0 (-1074) := by decide
    unfold valOf
    rw [h]
    exact congrArg some ((ratOf_eq_zero_iff _ _ _).mpr rfl)

theorem signBit_withSign_zero (s : Bool) : signBit (withSign s 0) = s := by
  cases s <;> decide

theorem isZero_withSign_zero (s : Bool) : isZero (withSign s 0) = true := by
  cases s <;> decide

/-! ### the remainder component of `floatDivMod` -/

/-- the second component of `floatDivMod` when the divisor is not a zero -/
theorem floatDivMod_snd (fp : FP) (a b : Nat) (hbz : isZero b = false) :
    ∃ q, floatDivMod fp a b = .ok (q,
      if !isZero (fp.fmod a b) then
        (if (fp.lt b 0) != (fp.lt (fp.fmod a b) 0) then fp.add (fp.fmod a b) b else fp.fmod a b)
      else withSign (signBit b) 0) := by
  unfold floatDivMod
  simp only [hbz, Bool.false_eq_true, if_false]
  split_ifs <;> exact ⟨_, rfl⟩

theorem sq_lt_bounds {vm vb : Rat} (h : vm * vm < vb * vb) :
    (0 < vb → -vb < vm ∧ vm < vb) ∧ (vb < 0 → vb < vm ∧ vm < -vb) := by
  have h' : |vm| < |vb| := abs_lt_iff_mul_self_lt.mpr h
  constructor
  · intro hp
    rw [abs_of_pos hp] at h'
    exact abs_lt.mp h'
  · intro hn
    rw [abs_of_neg hn] at h'
    have := abs_lt.mp h'
    rw [neg_neg] at this
    exact this

/-- case analysis of `floatDivMod` under the hardware contract: `vm` is the exact value of
`fmod(a,b)`; the remainder returned is a signed zero, `fmod(a,b)` itself, or `fmod(a,b) + b` -/
theorem floatDivMod_cases (fp : FP) (hc : FPContract fp) (a b : Nat) (va vb : Rat)
    (ha : valOf a = some va) (hb : valOf b = some vb) (hb0 : vb ≠ 0) :
    ∃ (q r : Nat) (vm : Rat) (t : Int), floatDivMod fp a b = .ok (q, r) ∧
      valOf (fp.fmod a b) = some vm ∧ va = (t : Rat) * vb + vm ∧
      (0 < vb → -vb < vm ∧ vm < vb) ∧ (vb < 0 → vb < vm ∧ vm < -vb) ∧
      ((vm = 0 ∧ r = withSign (signBit b) 0) ∨
       (((0 < vb ∧ 0 < vm) ∨ (vb < 0 ∧ vm < 0)) ∧ r = fp.fmod a b) ∨
       (((0 < vb ∧ vm < 0) ∨ (vb < 0 ∧ 0 < vm)) ∧ r = fp.add (fp.fmod a b) b)) := by
  have hbz : isZero b = false := by
    cases hz : isZero b with
    | false => rfl
    | true => exact absurd ((isZero_iff_val hb).mp hz) hb0
  obtain ⟨vm, t, hm, hEq, hlt, _, _⟩ := hc.fmod_exact a b va vb ha hb hb0
  have hltb : fp.lt b 0 = decide (vb < 0) := hc.lt_exact b 0 vb 0 hb valOf_zero
  have hltm : fp.lt (fp.fmod a b) 0 = decide (vm < 0) := hc.lt_exact _ 0 vm 0 hm valOf_zero
  obtain ⟨q, hq⟩ := floatDivMod_snd fp a b hbz
  rw [hltb, hltm] at hq
  have hmz : isZero (fp.fmod a b) = true ↔ vm = 0 := isZero_iff_val hm
  obtain ⟨hbp, hbn⟩ := sq_lt_bounds hlt
  by_cases hz : vm = 0
  · have h1 : isZero (fp.fmod a b) = true := hmz.mpr hz
    simp only [h1, Bool.not_true, Bool.false_eq_true, if_false] at hq
    exact ⟨q, _, vm, t, hq, hm, hEq, hbp, hbn, Or.inl ⟨hz, rfl⟩⟩
  · have h1 : isZero (fp.fmod a b) = false := by
      cases h : isZero (fp.fmod a b) with
      | false => rfl
      | true => exact absurd (hmz.mp h) hz
    simp only [h1, Bool.not_false, if_true] at hq
    rcases lt_or_gt_of_ne hb0 with hvb | hvb
    · have hvb' : ¬ 0 < vb := not_lt.mpr hvb.le
      rcases lt_or_gt_of_ne hz with hvm | hvm
      · simp only [hvb, hvm, decide_true, bne_self_eq_false, Bool.false_eq_true, if_false] at hq
        exact ⟨q, _, vm, t, hq, hm, hEq, hbp, hbn, Or.inr (Or.inl ⟨Or.inr ⟨hvb, hvm⟩, rfl⟩)⟩
      · have hvm' : ¬ vm < 0 := not_lt.mpr (le_of_lt hvm)
        simp only [hvb, hvm', decide_true, decide_false, Bool.true_bne, Bool.not_false, if_true] at hq
        exact ⟨q, _, vm, t, hq, hm, hEq, hbp, hbn, Or.inr (Or.inr ⟨Or.inr ⟨hvb, hvm⟩, rfl⟩)⟩
    · have hvb' : ¬ vb < 0 := not_lt.mpr (le_of_lt hvb)
      rcases lt_or_gt_of_ne hz with hvm | hvm
      · simp only [hvb', hvm, decide_true, decide_false, Bool.false_bne, if_true] at hq
        exact ⟨q, _, vm, t, hq, hm, hEq, hbp, hbn, Or.inr (Or.inr ⟨Or.inl ⟨hvb, hvm⟩, rfl⟩)⟩
      · have hvm' : ¬ vm < 0 := not_lt.mpr (le_of_lt hvm)
        simp only [hvb', hvm', decide_false, bne_self_eq_false, Bool.false_eq_true, if_false] at hq
        exact ⟨q, _, vm, t, hq, hm, hEq, hbp, hbn, Or.inr (Or.inl ⟨Or.inl ⟨hvb, hvm⟩, rfl⟩)⟩

/-! ### THEOREM 1 -/

/-- the modulo takes the sign of the divisor (a zero modulo takes its sign bit) -/
theorem floordiv_mod_sign_aux (fp : FP) (hc : FPContract fp) (a b : Nat) (va vb : Rat)
    (ha : valOf a = some va) (hb : valOf b = some vb) (hb0 : vb ≠ 0) :
    ∃ q r vr, floatDivMod fp a b = .ok (q, r) ∧ valOf r = some vr ∧
      (0 < vb → 0 ≤ vr ∧ vr ≤ vb) ∧ (vb < 0 → vb ≤ vr ∧ vr ≤ 0) ∧
      (vr = 0 → signBit r = signBit b) := by
  obtain ⟨q, r, vm, t, hq, hm, _, hbp, hbn, hcase⟩ := floatDivMod_cases fp hc a b va vb ha hb hb0
  rcases hcase with ⟨_, hr⟩ | ⟨hs, hr⟩ | ⟨hs, hr⟩
  · subst hr
    exact ⟨q, _, 0, hq, valOf_withSign_zero _, fun h => ⟨le_refl _, h.le⟩, fun h => ⟨h.le, le_refl _⟩,
      fun _ => signBit_withSign_zero _⟩
  · subst hr
    refine ⟨q, _, vm, hq, hm, ?_, ?_, ?_⟩
    · intro hp
      rcases hs with ⟨_, h2⟩ | ⟨h1, _⟩
      · exact ⟨h2.le, (hbp hp).2.le⟩
      · exact absurd hp (not_lt.mpr h1.le)
    · intro hn
      rcases hs with ⟨h1, _⟩ | ⟨_, h2⟩
      · exact absurd hn (not_lt.mpr h1.le)
      · exact ⟨(hbn hn).1.le, h2.le⟩
    · intro h0
      rcases hs with ⟨_, h2⟩ | ⟨_, h2⟩
      · exact absurd h0 (ne_of_gt h2)
      · exact absurd h0 (ne_of_lt h2)
  · subst hr
    have hprod : vm * vb ≤ 0 := by
      rcases hs with ⟨h1, h2⟩ | ⟨h1, h2⟩
      · exact (mul_neg_of_neg_of_pos h2 h1).le
      · exact (mul_neg_of_pos_of_neg h2 h1).le
    obtain ⟨z, hz1, hz2, hz3⟩ := hc.add_opposite (fp.fmod a b) b vm vb hm hb hprod
    have hw0 := hz3 0 0 valOf_zero
    have hwb := hz3 b vb hb
    refine ⟨q, _, z, hq, hz1, ?_, ?_, ?_⟩
    · intro hp
      rcases hs with ⟨_, h2⟩ | ⟨h1, _⟩
      · have := (hbp hp).1
        exact ⟨hw0.1 (by linarith), hwb.2 (by linarith)⟩
      · exact absurd hp (not_lt.mpr h1.le)
    · intro hn
      rcases hs with ⟨h1, _⟩ | ⟨_, h2⟩
      · exact absurd hn (not_lt.mpr h1.le)
      · have := (hbn hn).2
        exact ⟨hwb.1 (by linarith), hw0.2 (by linarith)⟩
    · intro h0
      exfalso
      refine hz2 ?_ h0
      rcases hs with ⟨h1, _⟩ | ⟨h1, _⟩
      · have := (hbp h1).1
        exact ne_of_gt (by linarith)
      · have := (hbn h1).2
        exact ne_of_lt (by linarith)

/-! ### THEOREM 2 -/

/-- the divmod identity for the remainder: `a = k·b + ρ`, ρ the floored remainder (sign of `b`,
`|ρ| < |b|`); the double returned for `%` is ρ itself, or the single hardware addition
`fmod(a,b) + b` of two doubles whose exact sum is ρ.  The quotient double is not covered. -/
theorem divmod_identity_partial_aux (fp : FP) (hc : FPContract fp) (a b : Nat) (va vb : Rat)
    (ha : valOf a = some va) (hb : valOf b = some vb) (hb0 : vb ≠ 0) :
    ∃ (k : Int) (ρ : Rat) (q r : Nat), floatDivMod fp a b = .ok (q, r) ∧
      va = (k : Rat) * vb + ρ ∧ (0 < vb → 0 ≤ ρ ∧ ρ < vb) ∧ (vb < 0 → vb < ρ ∧ ρ ≤ 0) ∧
      (valOf r = some ρ ∨ ∃ vm, valOf (fp.fmod a b) = some vm ∧ r = fp.add (fp.fmod a b) b ∧ vm + vb = ρ) := by
  obtain ⟨q, r, vm, t, hq, hm, hEq, hbp, hbn, hcase⟩ := floatDivMod_cases fp hc a b va vb ha hb hb0
  rcases hcase with ⟨hz, hr⟩ | ⟨hs, hr⟩ | ⟨hs, hr⟩
  · subst hr
    refine ⟨t, 0, q, _, hq, ?_, fun h => ⟨le_refl _, h⟩, fun h => ⟨h, le_refl _⟩,
      Or.inl (valOf_withSign_zero _)⟩
    rw [hEq, hz]
  · subst hr
    refine ⟨t, vm, q, _, hq, hEq, ?_, ?_, Or.inl hm⟩
    · intro hp
      rcases hs with ⟨_, h2⟩ | ⟨h1, _⟩
      · exact ⟨h2.le, (hbp hp).2⟩
      · exact absurd hp (not_lt.mpr h1.le)
    · intro hn
      rcases hs with ⟨h1, _⟩ | ⟨_, h2⟩
      · exact absurd hn (not_lt.mpr h1.le)
      · exact ⟨(hbn hn).1, h2.le⟩
  · subst hr
    refine ⟨t - 1, vm + vb, q, _, hq, ?_, ?_, ?_, Or.inr ⟨vm, hm, rfl, rfl⟩⟩
    · rw [hEq]; push_cast; ring
    · intro hp
      rcases hs with ⟨_, h2⟩ | ⟨h1, _⟩
      · have := (hbp hp).1
        exact ⟨by linarith, by linarith⟩
      · exact absurd hp (not_lt.mpr h1.le)
    · intro hn
      rcases hs with ⟨h1, _⟩ | ⟨_, h2⟩
      · exact absurd hn (not_lt.mpr h1.le)
      · have := (hbn hn).2
        exact ⟨by linarith, by linarith⟩

/-! ### corollary: the integer of the identity is the floor of the exact quotient -/

/-- `a = k·b + ρ` with ρ of the sign of `b` and `|ρ| < |b|` determines `k = ⌊a / b⌋` -/
theorem floor_of_divmod_identity (va vb ρ : Rat) (k : Int) (hb0 : vb ≠ 0) (h : va = (k : Rat) * vb + ρ)
    (hp : 0 < vb → 0 ≤ ρ ∧ ρ < vb) (hn : vb < 0 → vb < ρ ∧ ρ ≤ 0) : k = (va / vb).floor := by
  have hq : va / vb = k + ρ / vb := by rw [h]; field_simp
  have h0 : 0 ≤ ρ / vb ∧ ρ / vb < 1 := by
    rcases lt_or_gt_of_ne hb0 with hvb | hvb
    · obtain ⟨h1, h2⟩ := hn hvb
      exact ⟨div_nonneg_of_nonpos h2 hvb.le, by rw [div_lt_one_of_neg hvb]; exact h1⟩
    · obtain ⟨h1, h2⟩ := hp hvb
      exact ⟨div_nonneg h1 hvb.le, by rw [div_lt_one hvb]; exact h2⟩
  apply le_antisymm
  · rw [Rat.le_floor_iff, hq]; linarith
  · by_contra hc
    have h1 : k + 1 ≤ (va / vb).floor := by omega
    rw [Rat.le_floor_iff, hq] at h1
    push_cast at h1
    linarith

/-- `divmod_identity_partial_aux` with `k = ⌊a / b⌋` (Python's floor division on the exact values)
and hence `ρ = a - b·⌊a / b⌋` -/
theorem divmod_identity_floor_aux (fp : FP) (hc : FPContract fp) (a b : Nat) (va vb : Rat)
    (ha : valOf a = some va) (hb : valOf b = some vb) (hb0 : vb ≠ 0) :
    ∃ (ρ : Rat) (q r : Nat), floatDivMod fp a b = .ok (q, r) ∧
      ρ = va - vb * (((va / vb).floor : Int) : Rat) ∧
      (valOf r = some ρ ∨ ∃ vm, valOf (fp.fmod a b) = some vm ∧ r = fp.add (fp.fmod a b) b ∧ vm + vb = ρ) := by
  obtain ⟨k, ρ, q, r, hq, hEq, hp, hn, hr⟩ := divmod_identity_partial_aux fp hc a b va vb ha hb hb0
  have hk := floor_of_divmod_identity va vb ρ k hb0 hEq hp hn
  refine ⟨ρ, q, r, hq, ?_, hr⟩
  rw [← hk, hEq]; ring


end GPy.C15
