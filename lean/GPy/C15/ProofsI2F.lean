import GPy.C15.Proofs
import Mathlib.Tactic.Linarith
import Mathlib.Tactic.SplitIfs
namespace GPy.C15

/-- the rounded (mantissa, exponent) pair computed by `rneNat` on large inputs -/
def rnePair (n : Nat) : Nat × Nat :=
  let sh := bitLen n - 53
  let q := n / 2^sh
  let r := n % 2^sh
  let half := 2^(sh - 1)
  let q' := if r > half || (r == half && q % 2 == 1) then q + 1 else q
  if q' = 2^53 then (2^52, sh + 1) else (q', sh)

theorem rneNat_large_unfold (n : Nat) (h : 2^53 ≤ n) :
    rneNat n = if (rnePair n).2 > 971 then none
      else some (encodeNormal (rnePair n).1 ((rnePair n).2 : Int)) := by
  have hn0 : ¬ n = 0 := by
    intro h0; rw [h0] at h; exact absurd h (by norm_num)
  have hlt : ¬ n < 2^53 := Nat.not_lt.2 h
  unfold rneNat rnePair
  rw [if_neg hn0, if_neg hlt]

theorem bitLen_ge54 {n : Nat} (h : 2^53 ≤ n) : 54 ≤ bitLen n := by
  have hn0 : n ≠ 0 := by
    intro h0; rw [h0] at h; exact absurd h (by norm_num)
  have hb := (bitLen_bounds hn0).2
  by_contra hlt
  have h1 : bitLen n ≤ 53 := by omega
  have h2 : 2^bitLen n ≤ 2^53 := Nat.pow_le_pow_right (by norm_num) h1
  exact absurd (Nat.lt_of_lt_of_le hb h2) (Nat.not_lt.2 h)

/-- shape facts for large `n`: `bitLen n = sh + 53`, `2^(52+sh) ≤ n < 2^(53+sh)`, `2^52 ≤ q < 2^53` -/
theorem large_facts {n : Nat} (h : 2^53 ≤ n) :
    1 ≤ bitLen n - 53 ∧ 2^52 * 2^(bitLen n - 53) ≤ n ∧ n < 2^53 * 2^(bitLen n - 53) ∧
    2^52 ≤ n / 2^(bitLen n - 53) ∧ n / 2^(bitLen n - 53) < 2^53 := by
  have hL := bitLen_ge54 h
  have hn0 : n ≠ 0 := by
    intro h0; rw [h0] at h; exact absurd h (by norm_num)
  obtain ⟨hlo, hhi⟩ := bitLen_bounds hn0
  obtain ⟨sh, hsh⟩ : ∃ sh, bitLen n = sh + 53 := ⟨bitLen n - 53, by omega⟩
  rw [hsh] at hlo hhi ⊢
  simp only [Nat.add_sub_cancel]
  have e1 : sh + 53 - 1 = 52 + sh := by omega
  rw [e1, Nat.pow_add] at hlo
  rw [Nat.add_comm, Nat.pow_add] at hhi
  have hpos : 0 < 2^sh := Nat.two_pow_pos _
  exact ⟨by omega, hlo, hhi, (Nat.le_div_iff_mul_le hpos).2 hlo, (Nat.div_lt_iff_lt_mul hpos).2 hhi⟩

theorem rnePair_nearest (n : Nat) (h : 2^53 ≤ n) :
    IsNearestEven n (rnePair n).1 (rnePair n).2 := by
  obtain ⟨hsh, -, -, hq1, hq2⟩ := large_facts h
  have hP : 2^(bitLen n - 53) = 2 * 2^(bitLen n - 53 - 1) := by
    obtain ⟨k, hk⟩ : ∃ k, bitLen n - 53 = k + 1 := ⟨bitLen n - 53 - 1, by omega⟩
    rw [hk, Nat.pow_succ, Nat.add_sub_cancel, Nat.mul_comm]
  exact rne_core n (n / 2^(bitLen n - 53)) (n % 2^(bitLen n - 53)) (2^(bitLen n - 53))
    (2^(bitLen n - 53 - 1)) (bitLen n - 53)
    (by rw [Nat.mul_comm]; exact (Nat.div_add_mod n _).symm)
    (Nat.mod_lt _ (Nat.two_pow_pos _)) hP rfl ⟨hq1, hq2⟩

theorem two_pow_split (a b c : Nat) (h : c = a + b) : (2:Nat)^c = 2^a * 2^b := by
  subst h; exact Nat.pow_add 2 a b

theorem two_pow_pos' (k : Nat) : 0 < (2:Nat)^k := Nat.two_pow_pos k

theorem two_pow_mono (a b : Nat) (h : a ≤ b) : (2:Nat)^a ≤ 2^b :=
  Nat.pow_le_pow_right (by norm_num) h

/-- the overflow test of `rneNat` on abstract powers: `H = 2^970`, `X = 2^sh`, `hf = 2^(sh-1)` -/
theorem pair_overflow_abs (H X hf n sh q r : Nat) (hH : 0 < H)
    (hcase : (sh < 971 ∧ X ≤ H) ∨ (sh = 971 ∧ X = 2 * H ∧ hf = H) ∨ (971 < sh ∧ 4 * H ≤ X))
    (hn : n = q * X + r) (hr : r < X) (hq1 : 2^52 ≤ q) (hq2 : q < 2^53) :
    (if (if r > hf || (r == hf && q % 2 == 1) then q + 1 else q) = 2^53
      then ((2:Nat)^52, sh + 1)
      else ((if r > hf || (r == hf && q % 2 == 1) then q + 1 else q), sh)).2 > 971
    ↔ 2^54 * H - H ≤ n := by
  have ht1 : 2^52 * X ≤ q * X := Nat.mul_le_mul_right _ hq1
  have ht2 : (q ≤ 2^53 - 2 ∧ q * X ≤ (2^53 - 2) * X) ∨
      (q = 2^53 - 1 ∧ q * X = (2^53 - 1) * X) := by
    by_cases hq : q = 2^53 - 1
    · exact Or.inr ⟨hq, by rw [hq]⟩
    · have : q ≤ 2^53 - 2 := by omega
      exact Or.inl ⟨this, Nat.mul_le_mul_right _ this⟩
  generalize q * X = t at *
  rcases hcase with ⟨hlt, hX⟩ | ⟨heq, hX, hhf⟩ | ⟨hgt, hX⟩
  · split_ifs <;> dsimp only <;> constructor <;> intro h <;> omega
  · subst heq hhf hX
    split_ifs with c1 c2 c2 <;>
      simp only [Bool.or_eq_true, Bool.and_eq_true, decide_eq_true_eq, beq_iff_eq] at c1 <;>
      dsimp only <;> constructor <;> intro h <;> omega
  · split_ifs <;> dsimp only <;> constructor <;> intro h <;> omega

theorem pair_overflow (n sh q r : Nat) (hn : n = q * 2^sh + r) (hr : r < 2^sh)
    (hq1 : 2^52 ≤ q) (hq2 : q < 2^53) :
    (if (if r > 2^(sh-1) || (r == 2^(sh-1) && q % 2 == 1) then q + 1 else q) = 2^53
      then ((2:Nat)^52, sh + 1)
      else ((if r > 2^(sh-1) || (r == 2^(sh-1) && q % 2 == 1) then q + 1 else q), sh)).2 > 971
    ↔ 2^1024 - 2^970 ≤ n := by
  have e1024 : (2:Nat)^1024 = 2^54 * 2^970 := two_pow_split 54 970 1024 rfl
  rw [e1024]
  refine pair_overflow_abs (2^970) (2^sh) (2^(sh-1)) n sh q r (two_pow_pos' 970) ?_ hn hr hq1 hq2
  rcases Nat.lt_trichotomy sh 971 with hlt | heq | hgt
  · exact Or.inl ⟨hlt, two_pow_mono sh 970 (Nat.le_of_lt_succ hlt)⟩
  · refine Or.inr (Or.inl ⟨heq, ?_, ?_⟩)
    · rw [heq, two_pow_split 1 970 971 rfl, Nat.pow_one]
    · rw [heq]
  · refine Or.inr (Or.inr ⟨hgt, ?_⟩)
    have hX := two_pow_mono 972 sh hgt
    rw [two_pow_split 2 970 972 rfl, show (2:Nat)^2 = 4 from rfl] at hX
    exact hX

theorem rnePair_overflow (n : Nat) (h : 2^53 ≤ n) :
    (rnePair n).2 > 971 ↔ 2^1024 - 2^970 ≤ n := by
  obtain ⟨-, -, -, hq1, hq2⟩ := large_facts h
  unfold rnePair
  dsimp only
  exact pair_overflow n (bitLen n - 53) (n / 2^(bitLen n - 53)) (n % 2^(bitLen n - 53))
    (by rw [Nat.mul_comm]; exact (Nat.div_add_mod n _).symm)
    (Nat.mod_lt _ (Nat.two_pow_pos _)) hq1 hq2

theorem thr_abs (H : Nat) (hH : 0 < H) : 2^53 ≤ 2^54 * H - H := by omega

theorem thr_ge : 2^53 ≤ 2^1024 - 2^970 := by
  have h := thr_abs (2^970) (two_pow_pos' 970)
  rw [← two_pow_split 54 970 1024 rfl] at h
  exact h

/-- small n: exact -/
theorem rneNat_small (n : Nat) (h0 : n ≠ 0) (h : n < 2^53) :
    ∃ sh : Nat, rneNat n = some (encodeNormal (n * 2^sh) (-(sh : Int))) ∧
      2^52 ≤ n * 2^sh ∧ n * 2^sh < 2^53 ∧ sh ≤ 52 ∧
      decodeF (encodeNormal (n * 2^sh) (-(sh : Int))) = .fin false (n * 2^sh) (-(sh : Int)) := by
  obtain ⟨hlo, hhi⟩ := bitLen_bounds h0
  have hL1 : 1 ≤ bitLen n := by
    by_contra hc
    have h0' : bitLen n = 0 := by omega
    rw [h0'] at hhi
    omega
  have hL53 : bitLen n ≤ 53 := by
    by_contra hc
    have h1 : 53 ≤ bitLen n - 1 := by omega
    have h2 := two_pow_mono 53 (bitLen n - 1) h1
    omega
  have e52 : 2^(bitLen n - 1) * 2^(53 - bitLen n) = 2^52 := by
    rw [← Nat.pow_add]; congr 1; omega
  have e53 : 2^(bitLen n) * 2^(53 - bitLen n) = 2^53 := by
    rw [← Nat.pow_add]; congr 1; omega
  have hpos : 0 < 2^(53 - bitLen n) := two_pow_pos' _
  have b1 : 2^52 ≤ n * 2^(53 - bitLen n) := by
    rw [← e52]; exact Nat.mul_le_mul_right _ hlo
  have b2 : n * 2^(53 - bitLen n) < 2^53 := by
    rw [← e53]; exact Nat.mul_lt_mul_of_pos_right hhi hpos
  refine ⟨53 - bitLen n, ?_, b1, b2, by omega, ?_⟩
  · unfold rneNat
    rw [if_neg h0, if_pos h]
  · exact decode_encodeNormal _ _ ⟨b1, b2⟩ ⟨by omega, by omega⟩

/-- large n: overflow exactly from 2^1024 - 2^970 on -/
theorem rneNat_overflow_iff (n : Nat) (h : 2^53 ≤ n) : rneNat n = none ↔ 2^1024 - 2^970 ≤ n := by
  rw [rneNat_large_unfold n h, ← rnePair_overflow n h]
  split_ifs with c
  · exact ⟨fun _ => c, fun _ => rfl⟩
  · exact ⟨fun hc => (by cases hc), fun hc => absurd hc c⟩

/-- large n: the result decodes to a correctly rounded (mantissa, exponent) -/
theorem rneNat_large (n b : Nat) (h : 2^53 ≤ n) (hb : rneNat n = some b) :
    ∃ m k : Nat, decodeF b = .fin false m (k : Int) ∧ IsNearestEven n m k := by
  rw [rneNat_large_unfold n h] at hb
  have hne := rnePair_nearest n h
  split_ifs at hb with c
  injection hb with hb
  subst hb
  refine ⟨(rnePair n).1, (rnePair n).2, ?_, hne⟩
  exact decode_encodeNormal _ _ ⟨hne.1, hne.2.1⟩ ⟨by omega, by omega⟩

/-- all n: none ↔ n ≥ 2^1024 - 2^970 -/
theorem rneNat_none_iff (n : Nat) : rneNat n = none ↔ 2^1024 - 2^970 ≤ n := by
  have hthr := thr_ge
  by_cases h : 2^53 ≤ n
  · exact rneNat_overflow_iff n h
  · have hlt : n < 2^53 := Nat.lt_of_not_le h
    have hR : ¬ 2^1024 - 2^970 ≤ n := fun hc => h (Nat.le_trans hthr hc)
    by_cases h0 : n = 0
    · subst h0
      exact ⟨fun hc => (by simp [rneNat] at hc), fun hc => absurd hc hR⟩
    · obtain ⟨sh, hs, -⟩ := rneNat_small n h0 hlt
      rw [hs]
      exact ⟨fun hc => (by cases hc), fun hc => absurd hc hR⟩

/-- signed: `rneInt` / `bigFloat` overflow exactly when |v| ≥ 2^1024 - 2^970 -/
theorem bigFloat_overflow_iff (v : Int) :
    bigFloat v = .error .overflow ↔ 2^1024 - 2^970 ≤ v.natAbs := by
  rw [← rneNat_none_iff]
  unfold bigFloat rneInt
  cases hr : rneNat v.natAbs with
  | none => simp
  | some b => simp


end GPy.C15
