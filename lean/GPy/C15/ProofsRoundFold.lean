/-
C15 proofs: the builtins `sum`/`min`/`max`/`abs`/`pow`/`divmod` are folds of the operators
(`builtin_agrees_with_operator`), `round(x)` of a finite float is Python's round-half-even
integer relative to the hardware contract (`round_half_even_float`), and the rounding step of
`round(x, d)` is half-even (`round_digits_step`).
-/
import GPy.C15.Proofs
import Mathlib.Tactic.Linarith
import Mathlib.Tactic.SplitIfs
import Mathlib.Tactic.Ring
import Mathlib.Tactic.NormNum
import Mathlib.Tactic.FieldSimp
import Mathlib.Tactic.Positivity
import Mathlib.Tactic.Push
import Mathlib.Algebra.Order.Field.Basic
import Mathlib.Algebra.Order.Field.Rat
import Mathlib.Data.Rat.Cast.Order
namespace GPy.C15

/-! ## PART A: builtins are folds of the operators -/

theorem builtinSum_nil (fp : FP) : builtinSum fp [] = .ok (.int 0) := rfl

theorem builtinSum_snoc (fp : FP) (xs : List Obj) (x : Obj) :
    builtinSum fp (xs ++ [x]) = (builtinSum fp xs >>= fun acc => binop fp .add acc x) := by
  unfold builtinSum
  rw [List.foldlM_append]
  simp [List.foldlM_cons, List.foldlM_nil]

theorem builtinMinMax_single (fp : FP) (isMax : Bool) (x : Obj) :
    builtinMinMax fp isMax [x] = .ok x := rfl

theorem builtinMinMax_snoc (fp : FP) (isMax : Bool) (x : Obj) (xs : List Obj) (y : Obj) :
    builtinMinMax fp isMax (x :: xs ++ [y]) =
      (builtinMinMax fp isMax (x :: xs) >>= fun best => do
        let c ← richCmp fp (if isMax then .ge else .le) y best
        return if c == .bool true then y else best) := by
  show builtinMinMax fp isMax (x :: (xs ++ [y])) = _
  simp only [builtinMinMax]
  rw [List.foldlM_append]
  simp [List.foldlM_cons, List.foldlM_nil]

/-- a fold whose step returns the item, the accumulator, or an error returns the start or a member -/
theorem foldlM_select_mem (f : Obj → Obj → Res)
    (hf : ∀ best item r, f best item = .ok r → r = item ∨ r = best)
    (rest : List Obj) (best r : Obj) (h : rest.foldlM f best = .ok r) : r = best ∨ r ∈ rest := by
  induction rest generalizing best with
  | nil =>
    simp only [List.foldlM_nil, pure, Except.pure] at h
    injection h with h
    exact Or.inl h.symm
  | cons item rest ih =>
    rw [List.foldlM_cons] at h
    cases hfb : f best item with
    | error e => rw [hfb] at h; simp [bind, Except.bind] at h
    | ok b =>
      rw [hfb] at h
      simp only [bind, Except.bind] at h
      rcases ih b h with h1 | h1
      · rcases hf best item b hfb with h2 | h2
        · right; rw [h1, h2]; exact List.mem_cons_self
        · left; rw [h1, h2]
      · right; exact List.mem_cons_of_mem _ h1

/-- min/max return one of their arguments -/
theorem builtinMinMax_mem (fp : FP) (isMax : Bool) (xs : List Obj) (r : Obj)
    (h : builtinMinMax fp isMax xs = .ok r) : r ∈ xs := by
  cases xs with
  | nil => simp [builtinMinMax] at h
  | cons x rest =>
    simp only [builtinMinMax] at h
    have := foldlM_select_mem _ ?_ rest x r h
    · rcases this with h1 | h1
      · rw [h1]; exact List.mem_cons_self
      · exact List.mem_cons_of_mem _ h1
    · intro best item r' hr
      cases hc : richCmp fp (if isMax then .ge else .le) item best with
      | error e => rw [hc] at hr; simp [bind, Except.bind] at hr
      | ok c =>
        rw [hc] at hr
        simp only [bind, Except.bind, pure, Except.pure] at hr
        injection hr with hr
        by_cases hcb : (c == Obj.bool true) = true
        · left; rw [← hr, if_pos hcb]
        · right; rw [← hr, if_neg hcb]

theorem builtin_abs_pow_divmod (fp : FP) (x y : Obj) :
    builtinAbs x = unop .abs x ∧ builtinPow fp x y = binop fp .pow x y ∧
      builtinDivmod fp x y = divmod fp x y := ⟨rfl, rfl, rfl⟩

/-- the conjunction under the DESIGN name -/
theorem builtin_agrees_with_operator_aux (fp : FP) :
    (∀ xs x, builtinSum fp (xs ++ [x]) = (builtinSum fp xs >>= fun acc => binop fp .add acc x)) ∧
    builtinSum fp [] = .ok (.int 0) ∧
    (∀ isMax x, builtinMinMax fp isMax [x] = .ok x) ∧
    (∀ isMax x xs y, builtinMinMax fp isMax (x :: xs ++ [y]) =
      (builtinMinMax fp isMax (x :: xs) >>= fun best => do
        let c ← richCmp fp (if isMax then .ge else .le) y best
        return if c == .bool true then y else best)) ∧
    (∀ x y, builtinAbs x = unop .abs x ∧ builtinPow fp x y = binop fp .pow x y ∧
      builtinDivmod fp x y = divmod fp x y) :=
  ⟨builtinSum_snoc fp, builtinSum_nil fp, builtinMinMax_single fp, builtinMinMax_snoc fp,
    builtin_abs_pow_divmod fp⟩

/-! ## PART B: `round(x)` -/

/-- an exact dyadic quotient that is an integer: the Nat division recovers it -/
theorem nat_div_pow_of_rat_eq (m k : Nat) (M : Int)
    (h : (m : Rat) / ((2 ^ k : Nat) : Rat) = (M : Rat)) : ((m / 2 ^ k : Nat) : Int) = M := by
  have hpos : (0 : Rat) < ((2 ^ k : Nat) : Rat) := by
    have : 0 < 2 ^ k := Nat.pos_of_ne_zero (by positivity)
    exact_mod_cast this
  have h2 : (m : Rat) = (M : Rat) * ((2 ^ k : Nat) : Rat) := by
    rw [← h]; field_simp
  have h3 : (m : Int) = M * ((2 ^ k : Nat) : Int) := by exact_mod_cast h2
  have hne : ((2 ^ k : Nat) : Int) ≠ 0 := by
    have : 0 < 2 ^ k := Nat.pos_of_ne_zero (by positivity)
    exact_mod_cast this.ne'
  rw [Int.natCast_ediv, h3, Int.mul_ediv_cancel _ hne]

/-- the truncated integer of a double whose exact value is an integer is that integer -/
theorem trunc_of_integral (neg : Bool) (m : Nat) (e : Int) (N : Int)
    (h : ratOf neg m e = (N : Rat)) :
    (if neg then -(((if e ≥ 0 then m * 2 ^ e.toNat else m / 2 ^ (-e).toNat : Nat)) : Int)
      else (((if e ≥ 0 then m * 2 ^ e.toNat else m / 2 ^ (-e).toNat : Nat)) : Int)) = N := by
  unfold ratOf at h
  by_cases he : e ≥ 0
  · simp only [he, if_true] at h ⊢
    cases neg with
    | false =>
      simp only [Bool.false_eq_true, if_false] at h ⊢
      have : (((m * 2 ^ e.toNat : Nat) : Int) : Rat) = (N : Rat) := by
        rw [← h]; push_cast; ring
      exact Int.cast_injective this
    | true =>
      simp only [if_true] at h ⊢
      have : ((-((m * 2 ^ e.toNat : Nat) : Int) : Int) : Rat) = (N : Rat) := by
        rw [← h]; push_cast; ring
      exact Int.cast_injective this
  · simp only [he, if_false] at h ⊢
    cases neg with
    | false =>
      simp only [Bool.false_eq_true, if_false] at h ⊢
      exact nat_div_pow_of_rat_eq m _ N h
    | true =>
      simp only [if_true] at h ⊢
      have h' : (m : Rat) / ((2 ^ (-e).toNat : Nat) : Rat) = ((-N : Int) : Rat) := by
        rw [Int.cast_neg, ← h, neg_neg]
      rw [nat_div_pow_of_rat_eq m _ (-N) h']; ring

/-- round(x) for a finite float is exactly Python's round-half-even integer of the exact value
(as Int or BigInt) -/
theorem round_half_even_float_aux (fp : FP) (hc : FPContract fp) (a : Nat) (va : Rat)
    (ha : valOf a = some va) :
    floatRound fp a .none = .ok (.int (roundHalfEvenRat va)) ∨
      floatRound fp a .none = .ok (.big (roundHalfEvenRat va)) := by
  show floatToInt (fp.roundEven a) = _ ∨ floatToInt (fp.roundEven a) = _
  have hval := (hc.roundEven_exact a va ha).1
  unfold valOf at hval
  cases hdec : decodeF (fp.roundEven a) with
  | nan => rw [hdec] at hval; simp at hval
  | inf s => rw [hdec] at hval; simp at hval
  | fin neg m e =>
    rw [hdec] at hval
    simp only [Option.some.injEq] at hval
    have ht := floatToInt_trunc_aux (fp.roundEven a) neg m e hdec
    simp only at ht
    rw [trunc_of_integral neg m e _ hval] at ht
    exact ht

/-! ## PART C: the rounding step of `round(x, d)` -/

theorem round_digits_step (n dn : Nat) (hd : 0 < dn) :
    let q := n / dn
    let r := n % dn
    let q' := if 2 * r > dn || (2 * r == dn && q % 2 == 1) then q + 1 else q
    2 * (q' * dn) ≤ 2 * n + dn ∧ 2 * n ≤ 2 * (q' * dn) + dn ∧
    ((2 * (q' * dn) = 2 * n + dn ∨ 2 * n = 2 * (q' * dn) + dn) → q' % 2 = 0) := by
  intro q r q'
  have hdm : q * dn + r = n := by
    have := Nat.div_add_mod n dn
    rw [Nat.mul_comm] at this; exact this
  have hr : r < dn := Nat.mod_lt n hd
  have hsucc : (q + 1) * dn = q * dn + dn := Nat.succ_mul q dn
  by_cases hup : (2 * r > dn || (2 * r == dn && q % 2 == 1)) = true
  · have hq' : q' = q + 1 := by simp only [q', hup, if_true]
    have hup' : 2 * r > dn ∨ (2 * r = dn ∧ q % 2 = 1) := by
      simp only [Bool.or_eq_true, Bool.and_eq_true, decide_eq_true_eq, beq_iff_eq] at hup; exact hup
    rw [hq', hsucc]
    generalize q * dn = t at *
    refine ⟨by omega, by omega, fun h => by omega⟩
  · have hq' : q' = q := by simp only [q', hup]; rfl
    have hup' : ¬ (2 * r > dn ∨ (2 * r = dn ∧ q % 2 = 1)) := by
      simp only [Bool.or_eq_true, Bool.and_eq_true, decide_eq_true_eq, beq_iff_eq] at hup; exact hup
    rw [hq']
    generalize q * dn = t at *
    refine ⟨by omega, by omega, fun h => by omega⟩


end GPy.C15
