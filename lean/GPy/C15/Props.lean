/-
C15 property theorems.  Hardware operations (`FP`) are parameters: every theorem that mentions
`fp` holds for EVERY implementation of the IEEE operations.
-/
import GPy.C15.ProofsI2F
import GPy.C15.ProofsCmpRound
import GPy.C15.ProofsDivMod
import GPy.C15.ProofsRoundFold
namespace GPy.C15

/-- **int → float is correctly rounded** (the rounding step, all sizes): for `n = q·2^sh + r` with a
53-bit quotient, the mantissa/exponent chosen by `rneNat` is within half an ulp of `n`, and an
exact tie is resolved to the even mantissa; the carry into the next binade (`q' = 2^53`) included. -/
theorem int_to_float_rounding_step (n q r sh : Nat) (hsh : 1 ≤ sh) (hn : n = q * 2^sh + r) (hr : r < 2^sh)
    (hq : 2^52 ≤ q ∧ q < 2^53) :
    let half := 2^(sh-1)
    let q' := if r > half || (r == half && q % 2 == 1) then q + 1 else q
    let me := if q' = 2^53 then (2^52, sh + 1) else (q', sh)
    IsNearestEven n me.1 me.2 := by
  have hP : 2^sh = 2 * 2^(sh-1) := by
    obtain ⟨k, rfl⟩ : ∃ k, sh = k + 1 := ⟨sh - 1, by omega⟩
    rw [Nat.pow_succ]; simp; omega
  exact rne_core n q r (2^sh) (2^(sh-1)) sh hn hr hP rfl hq

example : IsNearestEven (2^64 + 2^11 + 1) (2^52 + 1) 12 := by
  unfold IsNearestEven; refine ⟨by norm_num, by norm_num, by norm_num, by norm_num, ?_⟩
  intro h; rcases h with h | h <;> norm_num at h

/-- the bit pattern produced for a normal result decodes to exactly that mantissa and exponent -/
theorem encode_decode_normal (m : Nat) (e : Int) (hm : 2^52 ≤ m ∧ m < 2^53) (he : -1074 ≤ e ∧ e ≤ 971) :
    decodeF (encodeNormal m e) = .fin false m e := decode_encodeNormal m e hm he

set_option maxRecDepth 100000 in
/-- test (fixed defect, commit 2240279): the nearest double of 2^64+2^11+1 is 2^64+2^12, not 2^64 -/
theorem int_to_float_double_rounding_witness :
    rneNat (2^64 + 2^11 + 1) = some 0x43f0000000000001 ∧ rneNat (2^64 + 2^11) = some 0x43f0000000000000 := by
  constructor <;> rfl

set_option maxRecDepth 100000 in
/-- OverflowError exactly from 2^1024 - 2^970 on (boundary points) -/
theorem int_to_float_overflow_boundary_witness :
    rneNat (2^1024 - 2^970) = none ∧ rneNat (2^1024 - 2^970 - 1) = some 0x7fefffffffffffff ∧ rneNat (2^1023) = some 0x7fe0000000000000 := by
  refine ⟨?_, ?_, ?_⟩ <;> rfl

/-- **float → int truncates** for every finite double, whichever representation is produced -/
theorem float_to_int_trunc (a : Nat) (neg : Bool) (m : Nat) (e : Int) (h : decodeF a = .fin neg m e) :
    let mag : Nat := if e ≥ 0 then m * 2^e.toNat else m / 2^(-e).toNat
    let v : Int := if neg then -(mag : Int) else (mag : Int)
    floatToInt a = .ok (.int v) ∨ floatToInt a = .ok (.big v) := floatToInt_trunc_aux a neg m e h

/-- int(nan) raises ValueError, int(±inf) OverflowError -/
theorem float_to_int_nonfinite (a : Nat) :
    (decodeF a = .nan → floatToInt a = .error .value) ∧ (∀ s, decodeF a = .inf s → floatToInt a = .error .overflow) := by
  constructor
  · intro h; unfold floatToInt; rw [h]
  · intro s h; unfold floatToInt; rw [h]

/-- **division by a zero float raises ZeroDivisionError** for `/ // % divmod`, whatever the hardware does -/
theorem zero_division_raises (fp : FP) (a b : Nat) (hb : isZero b = true) :
    floatDivMod fp a b = .error .zeroDiv
    ∧ floatMethod fp .truediv false a (.float b) = .error .zeroDiv
    ∧ floatMethod fp .floordiv false a (.float b) = .error .zeroDiv
    ∧ floatMethod fp .mod false a (.float b) = .error .zeroDiv
    ∧ divmod fp (.float a) (.float b) = .error .zeroDiv := by
  have h1 : floatDivMod fp a b = .error .zeroDiv := by unfold floatDivMod; simp [hb]
  refine ⟨h1, ?_, ?_, ?_, ?_⟩
  · simp [floatMethod, convertToFloat, hb]
  · simp [floatMethod, convertToFloat, h1]
  · simp [floatMethod, convertToFloat, h1]
  · simp [divmod, convertToFloat, h1]

/-- an int zero divisor is converted to +0.0, so `x // 0`, `x % 0` raise as well -/
theorem zero_int_converts_to_zero : convertToFloat (.int 0) = some 0 ∧ isZero 0 = true := by decide

/-- **inf / nan spellings**: whatever digits strconv supplies -/
theorem str_special_values (digits : Nat → Int → Nat × Int) (a : Nat) :
    (decodeF a = .nan → floatStr digits a = "nan")
    ∧ (decodeF a = .inf false → floatStr digits a = "inf")
    ∧ (decodeF a = .inf true → floatStr digits a = "-inf") := by
  refine ⟨?_, ?_, ?_⟩ <;> intro h <;> unfold floatStr <;> rw [h] <;> rfl

/-- a finite negative double (including -0.0) prints a leading minus sign -/
theorem str_negative_sign (digits : Nat → Int → Nat × Int) (a m : Nat) (e : Int) (h : decodeF a = .fin true m e) :
    ∃ body, floatStr digits a = "-" ++ body := by
  unfold floatStr; rw [h]; exact ⟨_, rfl⟩

set_option maxRecDepth 100000 in
/-- comparison of a float with an int never rounds the int: 2^53 (as a double) < 2^53+1, and the
double nearest to 2^53+1 is 2^53 itself (the pre-fix code answered `==`; fixed in 55e5754) -/
theorem cmp_int_float_witness :
    decodeF 0x4340000000000000 = .fin false (2^52) 1
    ∧ cmpFinInt false (2^52) 1 (2^53 + 1) = .lt
    ∧ rneInt (2^53 + 1) = some 0x4340000000000000 := by
  refine ⟨?_, ?_, ?_⟩ <;> rfl

/-! ## second round: end-to-end conversion, exact comparison, half-even rounding, floor division,
builtin folds -/

/-- **int → float is correctly rounded, end to end, for every natural number** (the magnitude; the sign
is copied by `rneInt`).  `rneNat` is the contract of `big.Float.Float64` / the hardware `int64 → float64`
conversion as used by `(*BigInt).Float` and `convertToFloat`.
* overflow (OverflowError) exactly from `2^1024 − 2^970` on;
* below `2^53` the value is represented exactly (`n = (n·2^sh)·2^(−sh)` with a normalised 53-bit mantissa);
* from `2^53` on the resulting bit pattern decodes to `m·2^k` with `IsNearestEven n m k`: within half a
  unit in the last place of `n`, exact ties to the even mantissa. -/
theorem int_to_float_correctly_rounded (n : Nat) (h0 : n ≠ 0) :
    (rneNat n = none ↔ 2^1024 - 2^970 ≤ n) ∧
    (∀ b, rneNat n = some b →
      (n < 2^53 → ∃ sh : Nat, sh ≤ 52 ∧ decodeF b = .fin false (n * 2^sh) (-(sh : Int)) ∧
        2^52 ≤ n * 2^sh ∧ n * 2^sh < 2^53) ∧
      (2^53 ≤ n → ∃ m k : Nat, decodeF b = .fin false m (k : Int) ∧ IsNearestEven n m k)) := by
  refine ⟨rneNat_none_iff n, fun b hb => ⟨fun hlt => ?_, fun hge => rneNat_large n b hge hb⟩⟩
  obtain ⟨sh, hs, b1, b2, hsh, hdec⟩ := rneNat_small n h0 hlt
  rw [hs] at hb
  injection hb with hb
  subst hb
  exact ⟨sh, hsh, hdec, b1, b2⟩

example : (2:Nat)^53 ≤ 2^64 + 2^11 + 1 ∧ 2^64 + 2^11 + 1 ≠ 0 := by constructor <;> norm_num

/-- **OverflowError threshold, every integer**: `float(v)` (`(*BigInt).Float`) fails exactly when
`|v| ≥ 2^1024 − 2^970`, i.e. when the nearest double would be infinite -/
theorem int_to_float_overflow_iff (v : Int) :
    bigFloat v = .error .overflow ↔ 2^1024 - 2^970 ≤ v.natAbs := bigFloat_overflow_iff v

/-- **comparisons between ints of any size and floats are exact** (∀ ℤ, ∀ 64-bit patterns including
±inf and nan, all six operators, both operand orders, both int representations): the model of the
repaired `floatCompare` and of the dispatch in `py.Lt … py.Ne` equals the comparison of the exact
rational value of the double with the integer (`specCmpFloatInt`, defined on `Rat`). -/
theorem cmp_int_float_exact (fp : FP) (op : CmpOp) (a : Nat) (i : Int) :
    floatCompare fp a (.int i) = some (specCmpFloatInt a i) ∧
    floatCompare fp a (.big i) = some (specCmpFloatInt a i) ∧
    richCmp fp op (.float a) (.int i) = .ok (.bool (op.holds (specCmpFloatInt a i))) ∧
    richCmp fp op (.float a) (.big i) = .ok (.bool (op.holds (specCmpFloatInt a i))) ∧
    richCmp fp op (.int i) (.float a) = .ok (.bool (op.swap.holds (specCmpFloatInt a i))) ∧
    richCmp fp op (.big i) (.float a) = .ok (.bool (op.swap.holds (specCmpFloatInt a i))) :=
  ⟨(floatCompare_int_exact fp a i).1, (floatCompare_int_exact fp a i).2, richCmp_float_int_exact fp op a i⟩

/-- the cross-multiplication on integers that the model performs for a finite double is the
three-way comparison of the rationals -/
theorem cmp_fin_int_exact (neg : Bool) (m : Nat) (e : Int) (i : Int) :
    cmpFinInt neg m e i =
      (let x := ratOf neg m e; if x < (i : Rat) then Ordering.lt else if (i : Rat) < x then .gt else .eq) :=
  cmpFinInt_exact neg m e i

/-- **round(int, -k) rounds half to even** (∀ a ∈ ℤ, ∀ k ≥ 1, both representations): the result is the
multiple of `10^k` nearest to `a`, an exact half going to the even multiple (`IsRoundHalfEven`,
declarative), and it equals the independent arithmetic definition `specRoundInt`. -/
theorem round_half_even_int (isWord : Bool) (a : Int) (k : Nat) (hk : 1 ≤ k) :
    ∃ R, intRound isWord a (.int (-(k : Int))) = .ok (maybeInt R) ∧ IsRoundHalfEven a R (10 ^ k) ∧
      R = specRoundInt a k := intRound_neg_half_even isWord a k hk

example : bigRoundNeg 25 1 = 20 ∧ bigRoundNeg 35 1 = 40 ∧ bigRoundNeg (-15) 1 = -20 := by decide

/-- `round(int, n)` for `n ≥ 0` or `None` is the int itself -/
theorem round_int_nonneg (isWord : Bool) (a b : Int) (hb : 0 ≤ b) :
    intRound isWord a (.int b) = .ok (if isWord then .int a else .big a) ∧
    intRound isWord a .none = .ok (if isWord then .int a else .big a) :=
  ⟨intRound_nonneg isWord a b hb, intRound_none isWord a⟩

/-- **modulo takes the sign of the divisor** — relative to the hardware contract `FPContract`
(fmod exact, `<` exact, a sum of opposite-sign doubles rounds monotonically and is zero only when exact):
for finite `a`, finite non-zero `b`, `divmod`/`%` return a finite remainder between `0` and `b`
(inclusive of `b` only through the final rounding of `fmod + b`, as in CPython), and a zero remainder
carries the sign bit of `b`. -/
theorem floordiv_mod_sign (fp : FP) (hc : FPContract fp) (a b : Nat) (va vb : Rat)
    (ha : valOf a = some va) (hb : valOf b = some vb) (hb0 : vb ≠ 0) :
    ∃ q r vr, floatDivMod fp a b = .ok (q, r) ∧ valOf r = some vr ∧
      (0 < vb → 0 ≤ vr ∧ vr ≤ vb) ∧ (vb < 0 → vb ≤ vr ∧ vr ≤ 0) ∧
      (vr = 0 → signBit r = signBit b) := floordiv_mod_sign_aux fp hc a b va vb ha hb hb0

/-- **divmod identity (remainder part)** — relative to `FPContract`: there are an integer `k` and the
exact floored remainder `ρ` with `a = k·b + ρ`, `ρ` of the sign of `b`, `|ρ| < |b|`; the double returned
for `%` is `ρ` itself or the single hardware addition `fmod(a,b) + b` whose exact value is `ρ`.
EXCLUDED (hence `_partial`): the quotient double, which is the rounded hardware quotient
`(a − mod)/b` adjusted to an integer — exact only when that division is. -/
theorem divmod_identity_partial (fp : FP) (hc : FPContract fp) (a b : Nat) (va vb : Rat)
    (ha : valOf a = some va) (hb : valOf b = some vb) (hb0 : vb ≠ 0) :
    ∃ (k : Int) (ρ : Rat) (q r : Nat), floatDivMod fp a b = .ok (q, r) ∧
      va = (k : Rat) * vb + ρ ∧ (0 < vb → 0 ≤ ρ ∧ ρ < vb) ∧ (vb < 0 → vb < ρ ∧ ρ ≤ 0) ∧
      (valOf r = some ρ ∨ ∃ vm, valOf (fp.fmod a b) = some vm ∧ r = fp.add (fp.fmod a b) b ∧ vm + vb = ρ) :=
  divmod_identity_partial_aux fp hc a b va vb ha hb hb0

set_option maxRecDepth 100000 in
/-- the hypotheses of the two theorems above are satisfiable at a non-trivial point: 7.0 and -3.0 are
finite and the divisor is not zero -/
example : ∃ va vb, valOf 0x401c000000000000 = some va ∧ valOf 0xc008000000000000 = some vb ∧ vb ≠ 0 := by
  have h1 : decodeF 0x401c000000000000 = .fin false (7 * 2^50) (-50) := by rfl
  have h2 : decodeF 0xc008000000000000 = .fin true (3 * 2^51) (-51) := by rfl
  refine ⟨ratOf false (7 * 2^50) (-50), ratOf true (3 * 2^51) (-51), ?_, ?_, ?_⟩
  · unfold valOf; rw [h1]
  · unfold valOf; rw [h2]
  · intro h; have := (ratOf_eq_zero_iff _ _ _).mp h; norm_num at this

/-- **round(x) rounds half to even** — relative to `FPContract` (`math.RoundToEven` exact): for every
finite double the result is the integer `roundHalfEvenRat` of its exact value, as an Int or a BigInt -/
theorem round_half_even_float (fp : FP) (hc : FPContract fp) (a : Nat) (va : Rat) (ha : valOf a = some va) :
    floatRound fp a .none = .ok (.int (roundHalfEvenRat va)) ∨
      floatRound fp a .none = .ok (.big (roundHalfEvenRat va)) := round_half_even_float_aux fp hc a va ha

/-- the rounding step of `round(x, d)`: the integer chosen for the exact fraction `n/dn` is within a
half of it, an exact half going to the even integer -/
theorem round_half_even_float_digits_step (n dn : Nat) (hd : 0 < dn) :
    let q := n / dn
    let r := n % dn
    let q' := if 2 * r > dn || (2 * r == dn && q % 2 == 1) then q + 1 else q
    2 * (q' * dn) ≤ 2 * n + dn ∧ 2 * n ≤ 2 * (q' * dn) + dn ∧
    ((2 * (q' * dn) = 2 * n + dn ∨ 2 * n = 2 * (q' * dn) + dn) → q' % 2 = 0) := round_digits_step n dn hd

/-- **builtins fold the operators** (∀ lists, ∀ hardware): `sum` is the left fold of `+` from `0`,
`min`/`max` the left fold of the `<=` / `>=` selection, `abs`/`pow`/`divmod` are the operators -/
theorem builtin_agrees_with_operator (fp : FP) :
    (∀ xs x, builtinSum fp (xs ++ [x]) = (builtinSum fp xs >>= fun acc => binop fp .add acc x)) ∧
    builtinSum fp [] = .ok (.int 0) ∧
    (∀ isMax x, builtinMinMax fp isMax [x] = .ok x) ∧
    (∀ isMax x xs y, builtinMinMax fp isMax (x :: xs ++ [y]) =
      (builtinMinMax fp isMax (x :: xs) >>= fun best => do
        let c ← richCmp fp (if isMax then .ge else .le) y best
        return if c == .bool true then y else best)) ∧
    (∀ x y, builtinAbs x = unop .abs x ∧ builtinPow fp x y = binop fp .pow x y ∧
      builtinDivmod fp x y = divmod fp x y) := builtin_agrees_with_operator_aux fp

/-- `min` / `max` return one of their arguments -/
theorem builtin_minmax_returns_argument (fp : FP) (isMax : Bool) (xs : List Obj) (r : Obj)
    (h : builtinMinMax fp isMax xs = .ok r) : r ∈ xs := builtinMinMax_mem fp isMax xs r h

/-- the repaired `float op huge-int` raises OverflowError for every operator: an int operand that
`convertToFloat` refuses because its nearest double is infinite (`|v| ≥ 2^1024 − 2^970`) -/
theorem float_arith_huge_int_overflow (fp : FP) (op : BinOp) (rev : Bool) (a : Nat) (v : Int)
    (h : 2^1024 - 2^970 ≤ v.natAbs) : floatMethod fp op rev a (.big v) = .error .overflow := by
  have hb : bigFloat v = .error .overflow := (bigFloat_overflow_iff v).mpr h
  simp [floatMethod, convertToFloat, floatNotImplemented, hb]

/-- the remainder of `%`/`divmod` is (the hardware rounding of) Python's exact floored remainder `a − b·⌊a/b⌋` — relative to `FPContract` -/
theorem divmod_identity_floor (fp : FP) (hc : FPContract fp) (a b : Nat) (va vb : Rat)
    (ha : valOf a = some va) (hb : valOf b = some vb) (hb0 : vb ≠ 0) :
    ∃ (ρ : Rat) (q r : Nat), floatDivMod fp a b = .ok (q, r) ∧
      ρ = va - vb * (((va / vb).floor : Int) : Rat) ∧
      (valOf r = some ρ ∨ ∃ vm, valOf (fp.fmod a b) = some vm ∧ r = fp.add (fp.fmod a b) b ∧ vm + vb = ρ) :=
  divmod_identity_floor_aux fp hc a b va vb ha hb hb0

end GPy.C15
