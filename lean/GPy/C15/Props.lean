/-
C15 property theorems.  Hardware operations (`FP`) are parameters: every theorem that mentions
`fp` holds for EVERY implementation of the IEEE operations.
-/
import GPy.C15.Proofs
namespace GPy.C15

/-- **int → float is correctly rounded** (the rounding step, all sizes): for `n = q·2^sh + r` with a
53-bit quotient, the mantissa/exponent chosen by `rneNat` is within half an ulp of `n`, and an
exact tie is resolved to the even mantissa; the carry into the next binade (`q' = 2^53`) included. -/
theorem int_to_float_rounding_step (n q r sh : Nat) (hsh : 1 ≤ sh) (hn : n = q * 2^sh + r) (hr : r < 2^sh)
    (hq : 2^52 ≤ q ∧ q < 2^53) :
    let half := 2^(sh-1)
    let q' := if r > half || (r == half && q % 2 == 1) then q + 1 else q
    let me := if q' = 2^53 then (2^52, sh + 1) else (q', sh)
    IsNearestEven n me.1 me.2 := by
  have hP : 2^sh = 2 * 2^(sh-1) := by
    obtain ⟨k, rfl⟩ : ∃ k, sh = k + 1 := ⟨sh - 1, by omega⟩
    rw [Nat.pow_succ]; simp; omega
  exact rne_core n q r (2^sh) (2^(sh-1)) sh hn hr hP rfl hq

example : IsNearestEven (2^64 + 2^11 + 1) (2^52 + 1) 12 := by
  unfold IsNearestEven; refine ⟨by norm_num, by norm_num, by norm_num, by norm_num, ?_⟩
  intro h; rcases h with h | h <;> norm_num at h

/-- the bit pattern produced for a normal result decodes to exactly that mantissa and exponent -/
theorem encode_decode_normal (m : Nat) (e : Int) (hm : 2^52 ≤ m ∧ m < 2^53) (he : -1074 ≤ e ∧ e ≤ 971) :
    decodeF (encodeNormal m e) = .fin false m e := decode_encodeNormal m e hm he

set_option maxRecDepth 100000 in
/-- test (fixed defect, commit 2240279): the nearest double of 2^64+2^11+1 is 2^64+2^12, not 2^64 -/
theorem int_to_float_double_rounding_witness :
    rneNat (2^64 + 2^11 + 1) = some 0x43f0000000000001 ∧ rneNat (2^64 + 2^11) = some 0x43f0000000000000 := by
  constructor <;> rfl

set_option maxRecDepth 100000 in
/-- OverflowError exactly from 2^1024 - 2^970 on (boundary points) -/
theorem int_to_float_overflow_boundary_witness :
    rneNat (2^1024 - 2^970) = none ∧ rneNat (2^1024 - 2^970 - 1) = some 0x7fefffffffffffff ∧ rneNat (2^1023) = some 0x7fe0000000000000 := by
  refine ⟨?_, ?_, ?_⟩ <;> rfl

/-- **float → int truncates** for every finite double, whichever representation is produced -/
theorem float_to_int_trunc (a : Nat) (neg : Bool) (m : Nat) (e : Int) (h : decodeF a = .fin neg m e) :
    let mag : Nat := if e ≥ 0 then m * 2^e.toNat else m / 2^(-e).toNat
    let v : Int := if neg then -(mag : Int) else (mag : Int)
    floatToInt a = .ok (.int v) ∨ floatToInt a = .ok (.big v) := by
  intro mag v
  unfold floatToInt
  rw [h]
  by_cases he : e ≥ 0
  · simp only [he, if_true, Nat.shiftLeft_eq, mag, v]
    split
    · first | exact Or.inl rfl | simp
    · first | exact Or.inr rfl | simp
  · simp only [he, if_false, if_true, mag, v]
    first | exact Or.inl rfl | simp

/-- int(nan) raises ValueError, int(±inf) OverflowError -/
theorem float_to_int_nonfinite (a : Nat) :
    (decodeF a = .nan → floatToInt a = .error .value) ∧ (∀ s, decodeF a = .inf s → floatToInt a = .error .overflow) := by
  constructor
  · intro h; unfold floatToInt; rw [h]
  · intro s h; unfold floatToInt; rw [h]

/-- **division by a zero float raises ZeroDivisionError** for `/ // % divmod`, whatever the hardware does -/
theorem zero_division_raises (fp : FP) (a b : Nat) (hb : isZero b = true) :
    floatDivMod fp a b = .error .zeroDiv
    ∧ floatMethod fp .truediv false a (.float b) = .error .zeroDiv
    ∧ floatMethod fp .floordiv false a (.float b) = .error .zeroDiv
    ∧ floatMethod fp .mod false a (.float b) = .error .zeroDiv
    ∧ divmod fp (.float a) (.float b) = .error .zeroDiv := by
  have h1 : floatDivMod fp a b = .error .zeroDiv := by unfold floatDivMod; simp [hb]
  refine ⟨h1, ?_, ?_, ?_, ?_⟩
  · simp [floatMethod, convertToFloat, hb]
  · simp [floatMethod, convertToFloat, h1]
  · simp [floatMethod, convertToFloat, h1]
  · simp [divmod, convertToFloat, h1]

/-- an int zero divisor is converted to +0.0, so `x // 0`, `x % 0` raise as well -/
theorem zero_int_converts_to_zero : convertToFloat (.int 0) = some 0 ∧ isZero 0 = true := by decide

/-- **inf / nan spellings**: whatever digits strconv supplies -/
theorem str_special_values (digits : Nat → Int → Nat × Int) (a : Nat) :
    (decodeF a = .nan → floatStr digits a = "nan")
    ∧ (decodeF a = .inf false → floatStr digits a = "inf")
    ∧ (decodeF a = .inf true → floatStr digits a = "-inf") := by
  refine ⟨?_, ?_, ?_⟩ <;> intro h <;> unfold floatStr <;> rw [h] <;> rfl

/-- a finite negative double (including -0.0) prints a leading minus sign -/
theorem str_negative_sign (digits : Nat → Int → Nat × Int) (a m : Nat) (e : Int) (h : decodeF a = .fin true m e) :
    ∃ body, floatStr digits a = "-" ++ body := by
  unfold floatStr; rw [h]; exact ⟨_, rfl⟩

set_option maxRecDepth 100000 in
/-- comparison of a float with an int never rounds the int: 2^53 (as a double) < 2^53+1, and the
double nearest to 2^53+1 is 2^53 itself (the pre-fix code answered `==`; fixed in 55e5754) -/
theorem cmp_int_float_witness :
    decodeF 0x4340000000000000 = .fin false (2^52) 1
    ∧ cmpFinInt false (2^52) 1 (2^53 + 1) = .lt
    ∧ rneInt (2^53 + 1) = some 0x4340000000000000 := by
  refine ⟨?_, ?_, ?_⟩ <;> rfl

end GPy.C15
