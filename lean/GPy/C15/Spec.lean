/-
C15 specification: what Python defines for float and mixed int/float arithmetic, written on
exact values (`Rat`, `Int`) independently of the Go formulas.  Hardware operations on two
doubles (+ - * / floor pow) are IEEE-754 and come from `FP`.  Core Lean only.
-/
import GPy.C15.Model
namespace GPy.C15

/-- exact rational value of a finite double -/
def ratOf (neg : Bool) (m : Nat) (e : Int) : Rat :=
  let v : Rat := if e ≥ 0 then (m : Rat) * ((2 ^ e.toNat : Nat) : Rat) else (m : Rat) / ((2 ^ (-e).toNat : Nat) : Rat)
  if neg then -v else v

/-- nearest double (ties to even) of a rational; `none` = overflow (|rounded| ≥ 2^1024) -/
def rneOfRat (x : Rat) : Option Nat :=
  (rneRat x.num.natAbs x.den).map (withSign (x < 0))

/-- Python `float(i)`: correctly rounded or OverflowError -/
def specIntToFloat (i : Int) : Except Err Nat :=
  match rneOfRat (i : Rat) with
  | some b => .ok b
  | none => .error .overflow

/-- Python `int(f)`: truncation toward zero; ValueError for nan, OverflowError for inf -/
def specFloatToInt (a : Nat) : Except Err Int :=
  match decodeF a with
  | .nan => .error .value
  | .inf _ => .error .overflow
  | .fin neg m e => let x := ratOf neg m e; .ok (Int.tdiv x.num x.den)

/-- exact comparison of a double with an integer: `none` = unordered -/
def specCmpFloatInt (a : Nat) (i : Int) : Option Ordering :=
  match decodeF a with
  | .nan => none
  | .inf neg => some (if neg then .lt else .gt)
  | .fin neg m e => let x := ratOf neg m e; some (if x < (i : Rat) then .lt else if (i : Rat) < x then .gt else .eq)

/-- round half to even of a rational to an integer -/
def roundHalfEvenRat (x : Rat) : Int :=
  let q := x.floor
  let f := x - q
  if f < 1/2 then q else if f > 1/2 then q + 1 else if q % 2 = 0 then q else q + 1

/-- Python `round(i, -k)`: the multiple of 10^k nearest to `i`, halves to the even multiple -/
def specRoundInt (a : Int) (k : Nat) : Int :=
  let s : Int := 10 ^ k
  let q := a / s          -- floor (s > 0)
  let r := a % s          -- 0 ≤ r < s
  if 2 * r < s then q * s else if 2 * r > s then (q + 1) * s else if q % 2 = 0 then q * s else (q + 1) * s

/-- spec-level values -/
inductive SVal
  | int (v : Int) | bool (b : Bool) | float (bits : Nat) | str (s : String) | pair (a b : SVal)
  | cplx (re im : Nat)   -- a complex number, both parts as bit patterns
  | cplxAny              -- "a complex number" (value outside this specification)
deriving DecidableEq, Repr, Inhabited

abbrev SRes := Except Err SVal

/-- a numeric operand as the spec sees it: an exact integer, a double, or a complex number (two doubles) -/
inductive Num | i (v : Int) | f (bits : Nat) | c (re im : Nat)
deriving DecidableEq, Repr

def numOf : Obj → Option Num
  | .int v | .big v => some (.i v)
  | .bool b => some (.i (if b then 1 else 0))
  | .float b => some (.f b)
  | .cplx re im => some (.c re im)
  | _ => none

def Num.toFloat : Num → Except Err Nat
  | .f b => .ok b
  | .i v => specIntToFloat v
  | .c _ _ => .error .type       -- float(complex) is a TypeError

/-- Python converts a real operand of a complex operation to `complex(float(x), 0.0)` -/
def Num.toComplex : Num → Except Err (Nat × Nat)
  | .c re im => .ok (re, im)
  | .f b => .ok (b, 0)
  | .i v => do let b ← specIntToFloat v; return (b, 0)

def Num.isComplex : Num → Bool | .c _ _ => true | _ => false

/-- Python `complex == x` (Objects/complexobject.c complex_richcompare): an int is compared exactly
with the real part when the imaginary part is zero; a float with the real part; `none` for NaN never arises:
equality is simply false -/
def specComplexEq (fp : FP) (re im : Nat) : Num → Bool
  | .i y => fp.eq im 0 && specCmpFloatInt re y == some .eq
  | .f y => fp.eq re y && fp.eq im 0
  | .c r2 i2 => fp.eq re r2 && fp.eq im i2

def specCmp (fp : FP) (op : CmpOp) (a b : Num) : SRes :=
  match a, b with
  | .c re im, y | y, .c re im =>
    -- no ordering on complex numbers; == and != are symmetric
    match op with
    | .eq => .ok (.bool (specComplexEq fp re im y))
    | .ne => .ok (.bool (!specComplexEq fp re im y))
    | _ => .error .type
  | .i x, .i y => .ok (.bool (op.holds (some (compare x y))))
  | .f x, .i y => .ok (.bool (op.holds (specCmpFloatInt x y)))
  | .i x, .f y => .ok (.bool (op.swap.holds (specCmpFloatInt y x)))
  | .f x, .f y =>
    .ok (.bool (op.holds (if fp.lt x y then some .lt else if fp.lt y x then some .gt else if fp.eq x y then some .eq else none)))

/-- Python's float `%`: the exact floored remainder rounded once; sign of the divisor; zero takes the divisor's sign -/
def specFloatMod (a b : Nat) : Except Err Nat :=
  match decodeF a, decodeF b with
  | _, .fin _ 0 _ => .error .zeroDiv
  | .nan, _ | _, .nan | .inf _, _ => .ok qNaN
  | .fin na ma _, .inf nb => .ok (if ma = 0 then withSign nb 0 else if na = nb then a else b)
  | .fin na ma ea, .fin nb mb eb =>
    let x := ratOf na ma ea
    let y := ratOf nb mb eb
    let r := x - y * ((x / y).floor : Rat)
    if r = 0 then .ok (withSign nb 0) else
    match rneOfRat r with
    | some bits => .ok bits
    | none => .ok qNaN

/-- Python's float divmod (Objects/floatobject.c float_divmod) over the hardware operations -/
def specFloatDivMod (fp : FP) (vx wx : Nat) : Except Err (Nat × Nat) :=
  if isZero wx then .error .zeroDiv else
  let one := 0x3ff0000000000000
  let mod := fp.fmod vx wx
  let div := fp.div (fp.sub vx mod) wx
  let (mod, div) :=
    if !isZero mod then
      (if fp.lt wx 0 != fp.lt mod 0 then (fp.add mod wx, fp.sub div one) else (mod, div))
    else (withSign (signBit wx) 0, div)
  let floordiv :=
    if !isZero div then
      let f := fp.floor div
      if fp.lt 0x3fe0000000000000 (fp.sub div f) then fp.add f one else f
    else withSign (signBit (fp.div vx wx)) 0
  .ok (floordiv, mod)

/-- int / int: the correctly rounded quotient -/
def specIntTrueDiv (x y : Int) : Except Err Nat :=
  if y = 0 then .error .zeroDiv else
  let q : Rat := (x : Rat) / (y : Rat)
  if q = 0 then .ok (withSign (y < 0) 0) else      -- 0 / -1 is -0.0
  match rneOfRat q with
  | some b => .ok b
  | none => .error .overflow

/-- float ** float where Python defines more than the IEEE function (Objects/floatobject.c float_pow):
0.0 ** negative finite → ZeroDivisionError; negative finite ** non-integer → a complex number;
finite operands with an infinite result → OverflowError -/
def specPow (fp : FP) (x y : Nat) : SRes :=
  if isZero x && fp.lt y 0 && !isInf y then .error .zeroDiv
  else if fp.lt x 0 && !isInf x && !isInf y && !isNaN y && fp.floor y != y then .ok .cplxAny
  else
    let r := fp.pow x y
    if isInf r && !isInf x && !isInf y && !isZero x then .error .overflow else .ok (.float r)

def specBin (fp : FP) (op : BinOp) (a b : Num) : SRes :=
  match a, b with
  | .i x, .i y =>
    match op with
    | .add => .ok (.int (x + y)) | .sub => .ok (.int (x - y)) | .mul => .ok (.int (x * y))
    | .floordiv => if y = 0 then .error .zeroDiv else .ok (.int (Int.fdiv x y))
    | .mod => if y = 0 then .error .zeroDiv else .ok (.int (Int.fmod x y))
    | .truediv => (specIntTrueDiv x y).map .float
    | .pow =>
      if y ≥ 0 then .ok (.int (x ^ y.toNat)) else do
        let fx ← specIntToFloat x
        let fy ← specIntToFloat y
        specPow fp fx fy
  | _, _ =>
   if a.isComplex || b.isComplex then do
    -- complex arithmetic on the four parts (Objects/complexobject.c _Py_c_sum/_Py_c_diff/_Py_c_prod)
    let x ← a.toComplex
    let y ← b.toComplex
    match op with
    | .add => return .cplx (fp.add x.1 y.1) (fp.add x.2 y.2)
    | .sub => return .cplx (fp.sub x.1 y.1) (fp.sub x.2 y.2)
    | .mul => return .cplx (fp.sub (fp.mul x.1 y.1) (fp.mul x.2 y.2)) (fp.add (fp.mul x.1 y.2) (fp.mul x.2 y.1))
    | _ => return .cplxAny
   else do
    let x ← a.toFloat
    let y ← b.toFloat
    match op with
    | .add => return .float (fp.add x y)
    | .sub => return .float (fp.sub x y)
    | .mul => return .float (fp.mul x y)
    | .truediv => if isZero y then .error .zeroDiv else return .float (fp.div x y)
    | .floordiv => do let (q, _) ← specFloatDivMod fp x y; return .float q
    | .mod => (specFloatMod x y).map .float
    | .pow => specPow fp x y

def specDivmod (fp : FP) (a b : Num) : SRes :=
  match a, b with
  | .i x, .i y => if y = 0 then .error .zeroDiv else .ok (.pair (.int (Int.fdiv x y)) (.int (Int.fmod x y)))
  | _, _ => do
    let x ← a.toFloat
    let y ← b.toFloat
    let (q, _) ← specFloatDivMod fp x y
    let r ← specFloatMod x y
    return .pair (.float q) (.float r)

/-- Python `round(x[, n])` for a float -/
def specRoundFloat (a : Nat) (nd : Option Int) : SRes :=
  match decodeF a, nd with
  | .nan, none => .error .value
  | .inf _, none => .error .overflow
  | .fin neg m e, none => .ok (.int (roundHalfEvenRat (ratOf neg m e)))
  | .fin neg m e, some d =>
    if m = 0 then .ok (.float a) else
    let x := ratOf neg m e
    let p : Rat := ((10 ^ d.natAbs : Nat) : Rat)
    let y : Rat := if d ≥ 0 then (roundHalfEvenRat (x * p) : Rat) / p else (roundHalfEvenRat (x / p) : Rat) * p
    if y = 0 then .ok (.float (withSign neg 0)) else
    match rneOfRat y with
    | some b => .ok (.float b)
    | none => .error .overflow
  | _, some _ => .ok (.float a)

/-- Python repr/str of a float: `inf`, `-inf`, `nan`; otherwise the shortest digits that read back,
fixed notation iff 1e-4 ≤ |x| < 1e16, always with a `.0` or an exponent -/
def specStr (a : Nat) : String :=
  match decodeF a with
  | .nan => "nan"
  | .inf neg => if neg then "-inf" else "inf"
  | .fin neg m e =>
    let sgn := if neg then "-" else ""
    if m = 0 then sgn ++ "0.0" else
    let (c, decpt) := shortest m e
    let ds := toString c
    let n : Int := ds.length
    let body :=
      if -4 < decpt && decpt ≤ 16 then
        if decpt ≤ 0 then "0." ++ String.ofList (List.replicate (-decpt).toNat '0') ++ ds
        else if decpt ≥ n then ds ++ String.ofList (List.replicate (decpt - n).toNat '0') ++ ".0"
        else String.ofList (ds.toList.take decpt.toNat) ++ "." ++ String.ofList (ds.toList.drop decpt.toNat)
      else
        let x := decpt - 1
        let mant := if n = 1 then ds else String.ofList (ds.toList.take 1) ++ "." ++ String.ofList (ds.toList.drop 1)
        mant ++ "e" ++ (if x < 0 then "-" else "+") ++ (if x.natAbs < 10 then "0" else "") ++ toString x.natAbs
    sgn ++ body

/-- `m·2^e` is `n` correctly rounded to 53 bits: within half a unit in the last place (`2^e`),
an exact tie only with an even mantissa -/
def IsNearestEven (n m e : Nat) : Prop :=
  2^52 ≤ m ∧ m < 2^53 ∧ 2 * (m * 2^e) ≤ 2 * n + 2^e ∧ 2 * n ≤ 2 * (m * 2^e) + 2^e ∧
  ((2 * (m * 2^e) = 2 * n + 2^e ∨ 2 * n = 2 * (m * 2^e) + 2^e) → m % 2 = 0)

/-- `R` is `a` rounded to a multiple of `s`, halves to the even multiple -/
def IsRoundHalfEven (a R s : Int) : Prop :=
  s ∣ R ∧ 2 * (R - a) ≤ s ∧ 2 * (a - R) ≤ s ∧ ((2 * (R - a) = s ∨ 2 * (a - R) = s) → (R / s) % 2 = 0)

/-! ### the abstract hardware contract (hypotheses of the floor-division / rounding theorems) -/

/-- exact rational value of a finite double (`none` for inf / nan) -/
def valOf (b : Nat) : Option Rat :=
  match decodeF b with
  | .fin neg m e => some (ratOf neg m e)
  | _ => none

/-- What the theorems about `//`, `%`, `divmod` and `round` assume of the hardware / Go `math` operations.
Every clause is a consequence of IEEE-754 correct rounding (C `fmod`, `floor` and `rint` are exact by
definition; a sum of two doubles of opposite sign cannot overflow, never underflows to zero unless it
is zero, and rounding is monotone).  NOT proved here: trusted, and exercised by the correspondence run. -/
structure FPContract (fp : FP) : Prop where
  /-- `math.Mod` is exact: `a = t·b + r` for an integer `t`, `|r| < |b|`, `r` has the sign of `a` (or is zero) -/
  fmod_exact : ∀ a b va vb, valOf a = some va → valOf b = some vb → vb ≠ 0 →
    ∃ (r : Rat) (t : Int), valOf (fp.fmod a b) = some r ∧ va = (t : Rat) * vb + r ∧ r * r < vb * vb ∧
      (0 ≤ va → 0 ≤ r) ∧ (va ≤ 0 → r ≤ 0)
  /-- `<` on finite doubles is the exact comparison of their values -/
  lt_exact : ∀ a b va vb, valOf a = some va → valOf b = some vb → fp.lt a b = decide (va < vb)
  /-- `math.Floor` is exact -/
  floor_exact : ∀ a va, valOf a = some va → valOf (fp.floor a) = some ((va.floor : Int) : Rat)
  /-- `math.RoundToEven` is exact (nearest integer, halves to even) and keeps the sign bit -/
  roundEven_exact : ∀ a va, valOf a = some va →
    valOf (fp.roundEven a) = some ((roundHalfEvenRat va : Int) : Rat) ∧ signBit (fp.roundEven a) = signBit a
  /-- `x + y` for finite operands of opposite sign: finite, zero only if exactly zero, and monotone
  with respect to every representable bound of the exact sum -/
  add_opposite : ∀ x y vx vy, valOf x = some vx → valOf y = some vy → vx * vy ≤ 0 →
    ∃ z, valOf (fp.add x y) = some z ∧ (vx + vy ≠ 0 → z ≠ 0) ∧
      ∀ w vw, valOf w = some vw → (vw ≤ vx + vy → vw ≤ z) ∧ (vx + vy ≤ vw → z ≤ vw)

end GPy.C15
