/-
C16 case generator.  A case = a class hierarchy (written base lists + members of
every class body), some instances, and a history of attribute reads / writes /
deletes / isinstance tests.  Families:

  mro   every class DAG with ≤ n user classes and ≤ 3 bases each, every base order
        (`object` may be written explicitly), cut after the first rejected class;
        + isinstance / IsSubtype of the last class against every class
  look  every accepted hierarchy with ≤ 3 (thorough: 4 classes with {absent, value, classmethod}) user classes × every placement of one name
        as {absent, value, function, classmethod, staticmethod} in every class ×
        a read of the name on every class and on an instance of every class
  seq   the diamond K1; K2(K1); K3(K1); K4(K2,K3): every history of ≤ 3 operations
        (read/write/delete × 5 objects) followed by a read-out of every object
  hist  VERIF_SEED-derived hierarchies (≤ 6 classes), placements of 2 names × 4 kinds,
        ≤ 3 instances, histories of ≤ 10 operations
  hook  (round 2) every accepted hierarchy with ≤ 2 (thorough: 3) user classes × every subset of the hooks
        {__getattr__, __setattr__, __init__} (as functions; also one non-callable value) in every class ×
        reads of a defined and of a missing name, writes and read-back on every class and instance
  isin  (round 2) isinstance with every tuple of ≤ 2 (thorough: 3) elements drawn from the classes and an instance
        of the diamond, for an instance of every class; `IsSubtype` with an instance receiver (Go API, Base chain)
  api   (round 2) `look`/`hook` hierarchies with ≤ 2 classes and every 4th `hist` case again, the classes built by
        calling `py.TypeNew` directly and the operations done with py.GetAttrString/SetAttrString/DeleteAttrString
Hook members are written with the one-letter names G/S/I (= __getattr__/__setattr__/__init__).
-/
import GPy.C16.Model
namespace GPy.C16

structure Decl where
  written : List Nat                 -- class ids (0 = object, K_d = d + 1)
  members : List (String × Char)     -- kind: v f c s
deriving Repr, Inhabited

/-- one-letter member names of the hooks -/
def fullName (n : String) : String :=
  match n with
  | "G" => "__getattr__" | "S" => "__setattr__" | "I" => "__init__" | n => n

inductive Op where
  | isinstT (i : Nat) (tuple : Bool) (args : List Ref)   -- isinstance(i, a) / isinstance(i, (a1, …))
  | issubI (i : Nat) (b : Nat)                           -- Go API: inst.IsSubtype(cls)
  | get (o : Ref) (name : String)
  | set (o : Ref) (name : String) (v : Val) (enc : String)
  | del (o : Ref) (name : String)
  | isinst (i : Nat) (c : Nat)
  | issub (a b : Nat)
deriving Repr, Inhabited

def clsName (c : Nat) : String := if c == 0 then "O" else s!"K{c - 1}"
def refName : Ref → String
  | .cls c => s!"K{c - 1}"
  | .inst i => s!"i{i + 1}"
def refShow : Ref → String
  | .cls c => clsName c
  | .inst i => s!"i{i + 1}"

def mkVal (kind : Char) (tag : String) : Val :=
  match kind with
  | 'v' => .plain tag | 'f' => .func tag | 'c' => .cmeth tag | _ => .smeth tag

def Decl.dict (d : Decl) (k : Nat) : Dict :=
  d.members.foldl (fun acc (m : String × Char) => acc.set (fullName m.1) (mkVal m.2 s!"K{k}.{fullName m.1}")) []

def Decl.enc (d : Decl) : String :=
  (if d.written.isEmpty then "-" else String.join (d.written.map (fun c => toString (c - (if c == 0 then 0 else 1)))))
  ++ "/" ++ (if d.members.isEmpty then "-" else String.join (d.members.map (fun m => m.1 ++ m.2.toString)))

def Op.enc : Op → String
  | .get o n => s!"g{refName o}.{n}"
  | .set o n _ e => s!"s{refName o}.{n}={e}"
  | .del o n => s!"d{refName o}.{n}"
  | .isinst i c => s!"n{refName (.inst i)}.K{c - 1}"
  | .issub a b => s!"uK{a - 1}.K{b - 1}"
  | .isinstT i false args => s!"n{refName (.inst i)}." ++ ",".intercalate (args.map refName)
  | .isinstT i true args => s!"N{refName (.inst i)}." ++ (if args.isEmpty then "-" else ",".intercalate (args.map refName))
  | .issubI i b => s!"U{refName (.inst i)}.K{b - 1}"

def errName : Err → String
  | .type => "E:TypeError" | .attr => "E:AttributeError"

/-! ### model side -/

def rvalV : RVal → String
  | .raw (.plain t) => s!"v:{t}"
  | .raw (.func t) => s!"call:{t}()"
  | .raw (.cmeth _) => "uncallable:classmethod"
  | .raw (.smeth _) => "uncallable:staticmethod"
  | .bound self fn => s!"call:{fn}({refShow self})"
  | .hooked fn self key => s!"hook:{fn}({refShow self} {key})"
def rvalR : RVal → String
  | .raw (.plain _) => "str" | .raw (.func _) => "fn" | .raw (.cmeth _) => "cm" | .raw (.smeth _) => "sm"
  | .bound _ _ => "bm"
  | .hooked _ _ _ => "tup"

def valShow : Val → String
  | .plain t => t | .func t => t | .cmeth t => "cm:" ++ t | .smeth t => "sm:" ++ t
def logStr (l : List HookCall) : String :=
  ";".intercalate (l.map (fun h => s!"{h.fn}({refShow h.self} {h.key}" ++ (match h.val with | some v => " " ++ valShow v | none => "") ++ ")"))
def exceptStr : Except Err Bool → String
  | .ok true => "True" | .ok false => "False" | .error .type => "E:TypeError" | .error .attr => "E:AttributeError"
def sresStr : SRes Bool → String
  | .ok true => "True" | .ok false => "False" | .typeError => "E:TypeError" | .attrError => "E:AttributeError"

def mroStr (k : Nat) (mro : List Nat) : String := s!"K{k}=" ++ ".".intercalate (mro.map clsName)

def boolStr (b : Bool) : String := if b then "True" else "False"

def modelRun (decls : List Decl) (insts : List Nat) (ops : List Op) : String × String := Id.run do
  let mut s := State.init
  let mut v : List String := []
  let mut k := 1
  for d in decls do
    match typeNew s d.written (d.dict k) with
    | .error e => return (";".intercalate (v ++ [s!"K{k}={errName e}"]) ++ "|", "-")
    | .ok s' =>
      s := s'
      v := v ++ [mroStr k (s.cmro (k + 1))]
    k := k + 1
  for c in insts do
    match newInstance s c with
    | .ok s' => s := s'
    | .error e => return (";".intercalate v ++ "|inst:" ++ errName e, "-")
    | .unmodelled => return (";".intercalate v ++ "|inst:unmodelled", "-")
  let mut ov : List String := []
  let mut r : List String := []
  for op in ops do
    match op with
    | .get o n =>
      match getAttrString s o n with
      | .ok x => ov := ov ++ [rvalV x]; r := r ++ [rvalR x]
      | .error e => ov := ov ++ [errName e]; r := r ++ ["-"]
      | .unmodelled => ov := ov ++ ["unmodelled"]; r := r ++ ["-"]
    | .set o n x _ =>
      match setAttrString s o n x with
      | .ok s' => s := s'; ov := ov ++ ["ok"]
      | .error e => ov := ov ++ [errName e]
      | .unmodelled => ov := ov ++ ["unmodelled"]
    | .del o n =>
      match deleteAttrString s o n with
      | .ok s' => s := s'; ov := ov ++ ["ok"]
      | .error e => ov := ov ++ [errName e]
      | .unmodelled => ov := ov ++ ["unmodelled"]
    | .isinst i c => ov := ov ++ [boolStr (isInstance s i c)]
    | .issub a b => ov := ov ++ [boolStr (isSubtype s a b)]
    | .isinstT i false [a] => ov := ov ++ [exceptStr (isInstance1 s i a)]
    | .isinstT i _ args => ov := ov ++ [exceptStr (isInstanceT s i args)]
    | .issubI i b => ov := ov ++ [boolStr (isSubtypeInst s i b)]
  return (";".intercalate v ++ "|" ++ ";".intercalate ov ++ "|" ++ logStr s.log, ";".intercalate r)

/-! ### spec side -/

def svalV : SVal → String
  | .value t => s!"v:{t}"
  | .call fn none => s!"call:{fn}()"
  | .call fn (some r) => s!"call:{fn}({refShow r})"
  | .descr (.cmeth _) => "uncallable:classmethod"
  | .descr (.smeth _) => "uncallable:staticmethod"
  | .descr _ => "?"
  | .hookResult fn self key => s!"hook:{fn}({refShow self} {key})"

/-- ancestor-or-self by reachability over the direct-base relation (fuel = number of classes) -/
def reach (bases : Nat → List Nat) : Nat → Nat → Nat → Bool
  | 0, c, a => c == a
  | fuel + 1, c, a => c == a || (bases c).any (fun b => reach bases fuel b a)

structure SpecOut where
  v : String
  rejected : Bool
  reads : List String

def specRun (decls : List Decl) (insts : List Nat) (ops : List Op) : SpecOut := Id.run do
  let mut tbl := builtinTable
  let mut v : List String := []
  let mut k := 1
  let mut nsInit : List (Ref × Dict) := []
  let mut hier : List (List Nat) := [[], [0]]
  for d in decls do
    match c3Step tbl tbl.length d.written with
    | none => return { v := ";".intercalate (v ++ [s!"K{k}=E:TypeError"]) ++ "|", rejected := true, reads := [] }
    | some lin =>
      tbl := tbl ++ [lin]
      hier := hier ++ [effBases d.written]
      v := v ++ [mroStr k lin]
      nsInit := nsInit ++ [(Ref.cls (k + 1), d.dict k)]
    k := k + 1
  let tblF := tbl
  let hierF := hier
  let instsF := insts
  let ns0 : Ref → String → Option Val := fun r n => ((nsInit.lookup r).getD []).lookup n
  let mut S : SState := { mro := fun c => tblF[c]?.getD [], clsOf := fun i => instsF[i]?.getD 0, ns := ns0 }
  let mut log : List HookCall := []
  for i in [0:insts.length] do
    match specInit S log i with
    | .ok (S', log') => S := S'; log := log'
    | .typeError => return { v := ";".intercalate v ++ "|inst:E:TypeError", rejected := false, reads := [] }
    | .attrError => return { v := ";".intercalate v ++ "|inst:E:AttributeError", rejected := false, reads := [] }
  let mut ov : List String := []
  let mut reads : List String := []
  for op in ops do
    match op with
    | .get o n =>
      match specReadH S o n with
      | .ok x => ov := ov ++ [svalV x]; reads := reads ++ [svalV x]
      | .attrError => ov := ov ++ ["E:AttributeError"]
      | .typeError => ov := ov ++ ["E:TypeError"]
    | .set o n x _ =>
      match specWriteH S log o n x with
      | .ok (S', log') => S := S'; log := log'; ov := ov ++ ["ok"]
      | .typeError => ov := ov ++ ["E:TypeError"]
      | .attrError => ov := ov ++ ["E:AttributeError"]
    | .del o n =>
      match specDelete S o n with
      | .ok S' => S := S'; ov := ov ++ ["ok"]
      | _ => ov := ov ++ ["E:AttributeError"]
    | .isinst i c => ov := ov ++ [boolStr (reach (fun c => hierF[c]?.getD []) hierF.length (instsF[i]?.getD 0) c)]
    | .issub a b => ov := ov ++ [boolStr (reach (fun c => hierF[c]?.getD []) hierF.length a b)]
    | .isinstT i false [a] => ov := ov ++ [sresStr (specIsInstance1 S i a)]
    | .isinstT i _ args => ov := ov ++ [sresStr (specIsInstanceT S i args)]
    | .issubI i b =>
      -- not a Python-level operation: the Go API's Base-chain walk is SOUND for ancestry (theorem baseChain_sound)
      -- but follows first bases only; the specification side states the chain itself
      let rec chain (fuel c : Nat) : Bool := match fuel with
        | 0 => b == 0
        | fuel + 1 => c == b || (match (hierF[c]?.getD []).head? with | some c' => chain fuel c' | none => b == 0)
      ov := ov ++ [boolStr (chain hierF.length (instsF[i]?.getD 0))]
  return { v := ";".intercalate v ++ "|" ++ ";".intercalate ov ++ "|" ++ logStr log, rejected := false, reads := reads }

/-! ### cases -/

def mkCase (family : String) (decls : List Decl) (insts : List Nat) (ops : List Op) : Case :=
  let (mv, mr) := modelRun decls insts ops
  let sp := specRun decls insts ops
  let mi := decls.any (fun d => d.written.length ≥ 2)
  let bindT := sp.reads.any (fun r => r.startsWith "call:")
  -- a read that resolved to a definition in a class other than the one named by the read target's own class
  let shadow := ops.any (fun o => match o with | .set .. => true | .del .. => true | _ => false)
  let hookT := sp.reads.any (fun r => r.startsWith "hook:") || !(sp.v.endsWith "|") || (sp.v.splitOn "|inst:").length > 1
  let tupT := ops.any (fun o => match o with | .isinstT _ true _ => true | _ => false)
  let tags := (if sp.rejected then ["rej"] else []) ++ (if mi then ["mi"] else []) ++ (if bindT then ["bind"] else [])
    ++ (if shadow then ["write"] else []) ++ (if hookT && !sp.rejected then ["hook"] else []) ++ (if tupT then ["tuple"] else [])
  let nt := sp.rejected || mi || bindT || shadow || (hookT && !sp.rejected) || tupT
  let input := family ++ " " ++ ";".intercalate (decls.map Decl.enc) ++ " "
    ++ (if insts.isEmpty then "-" else String.join (insts.map (fun c => toString (c - 1)))) ++ " "
    ++ (if ops.isEmpty then "-" else ";".intercalate (ops.map Op.enc))
  { input := input, modelV := mv, modelR := mr, specV := sp.v, tags := (if nt then ["nt"] else []) ++ tags }

def emit (c : Case) : IO Unit := IO.println c.line

/-- all ordered selections of ≤ 3 distinct elements -/
def selections (opts : List Nat) : List (List Nat) :=
  [[]] ++ opts.map (fun a => [a])
  ++ opts.flatMap (fun a => (opts.filter (· != a)).map (fun b => [a, b]))
  ++ opts.flatMap (fun a => (opts.filter (· != a)).flatMap (fun b => ((opts.filter (fun c => c != a && c != b)).map (fun c => [a, b, c]))))

/-- candidate base ids for user class number k (1-based): object and K1..K(k-1) -/
def baseOpts (k : Nat) : List Nat := 0 :: (List.range (k - 1)).map (· + 2)

def accepted (decls : List Decl) : Bool := !(specRun decls [] []).rejected

/-- family `mro`: DFS over all hierarchies, cut at the first rejection -/
partial def genMro (n : Nat) (decls : List Decl) : IO Unit := do
  let k := decls.length + 1
  for sel in selections (baseOpts k) do
    let ds := decls ++ [{ written := sel, members := [] }]
    if !accepted ds then emit (mkCase "mro" ds [] [])
    else if k == n then
      let last := k + 1
      let ops := ((List.range (k + 1)).map (fun c => Op.isinst 0 (if c == 0 then 0 else c + 1)))
        ++ ((List.range k).map (fun c => Op.issub last (c + 2))) ++ ((List.range k).map (fun c => Op.issub (c + 2) last))
      emit (mkCase "mro" ds [last] ops)
    else genMro n ds

/-- all accepted hierarchies with exactly n user classes (no members) -/
partial def acceptedHiers (n : Nat) (decls : List Decl) : List (List Decl) :=
  let k := decls.length + 1
  (selections (baseOpts k)).flatMap (fun sel =>
    let ds := decls ++ [{ written := sel, members := [] }]
    if !accepted ds then [] else if k == n then [ds] else acceptedHiers n ds)

def kinds : List (Option Char) := [none, some 'v', some 'f', some 'c', some 's']

/-- all placements of name `a` over n classes -/
def placements (kinds : List (Option Char)) : Nat → List (List (Option Char))
  | 0 => [[]]
  | n + 1 => (placements kinds n).flatMap (fun p => kinds.map (fun k => p ++ [k]))

def genLook (n : Nat) (kinds : List (Option Char) := kinds) : IO Unit := do
  for h in acceptedHiers n [] do
    for p in placements kinds n do
      let ds := (h.zip p).map (fun (d, k) => { d with members := match k with | some c => [("a", c)] | none => [] })
      let insts := (List.range n).map (· + 2)
      let ops := ((List.range n).map (fun c => Op.get (.cls (c + 2)) "a")) ++ ((List.range n).map (fun i => Op.get (.inst i) "a"))
      emit (mkCase "look" ds insts ops)

def diamond : List Decl :=
  [ { written := [], members := [("a", 'v'), ("m", 'f')] }, { written := [2], members := [] },
    { written := [2], members := [("a", 'v')] }, { written := [3, 4], members := [] } ]

def genSeq (len : Nat) : IO Unit := do
  let objs : List Ref := [.cls 2, .cls 4, .cls 5, .inst 0, .inst 1]
  let readout : List Op := ([Ref.cls 2, .cls 3, .cls 4, .cls 5, .inst 0, .inst 1, .inst 2]).map (fun o => Op.get o "a")
  let basic : List Op := objs.flatMap (fun o => [Op.get o "a", Op.set o "a" (.plain "w") "w", Op.del o "a"])
  let rec go (n : Nat) (pre : List Op) : IO Unit := do
    match n with
    | 0 => pure ()
    | n + 1 =>
      for (o, idx) in basic.zipIdx do
        let o' := match o with
          | .set r nm _ _ => Op.set r nm (.plain s!"w{pre.length}{idx}") s!"w{pre.length}{idx}"
          | o => o
        let ops := pre ++ [o']
        emit (mkCase "seq" diamond [5, 5, 4] (ops ++ readout))
        go n ops
  go len []


/-! ### round 2 families -/

/-- all subsets of the hook members -/
def hookSets : List (List (String × Char)) :=
  [[], [("G", 'f')], [("S", 'f')], [("I", 'f')], [("G", 'f'), ("S", 'f')], [("G", 'f'), ("I", 'f')], [("S", 'f'), ("I", 'f')],
   [("G", 'f'), ("S", 'f'), ("I", 'f')]]

def hookPlacements : Nat → List (List (List (String × Char)))
  | 0 => [[]]
  | n + 1 => (hookPlacements n).flatMap (fun p => hookSets.map (fun k => p ++ [k]))

def hookOps (n : Nat) : List Op :=
  let objs : List Ref := ((List.range n).map (fun c => Ref.cls (c + 2))) ++ ((List.range n).map (fun i => Ref.inst i))
  (objs.flatMap (fun o => [Op.get o "a", Op.get o "z"]))
  ++ (objs.flatMap (fun o => [Op.set o "b" (.plain s!"w{refName o}") s!"w{refName o}", Op.get o "b"]))
  ++ ((List.range n).map (fun i => Op.get (.inst i) "b"))

def genHook (family : String) (n : Nat) : IO Unit := do
  for h in acceptedHiers n [] do
    for p in hookPlacements n do
      let ds := (h.zip p).zipIdx.map (fun ((d, k), idx) =>
        { d with members := (if idx == 0 then [("a", 'v')] else []) ++ k })
      emit (mkCase family ds ((List.range n).map (· + 2)) (hookOps n))
  -- a hook that is not callable, a hook reached only through a second base
  for nm in ["G", "S", "I"] do
    emit (mkCase family [{ written := [], members := [(nm, 'v')] }, { written := [2], members := [] }] [2, 3] (hookOps 2))
  for nm in ["G", "S", "I"] do
    emit (mkCase family [{ written := [], members := [] }, { written := [], members := [(nm, 'f')] }, { written := [2, 3], members := [] },
      { written := [3, 2], members := [(nm, 'f')] }] [2, 3, 4, 5] (hookOps 4))

/-- all lists of exactly `k` elements over `opts` -/
def tuplesOf (opts : List Ref) : Nat → List (List Ref)
  | 0 => [[]]
  | k + 1 => (tuplesOf opts k).flatMap (fun t => opts.map (fun o => t ++ [o]))

def genIsin (maxLen : Nat) : IO Unit := do
  let ds : List Decl := diamond.map (fun d => { d with members := [] })
  let insts := [2, 3, 4, 5]
  let opts : List Ref := [.cls 0, .cls 2, .cls 3, .cls 4, .cls 5, .inst 0]
  for i in [0:4] do
    let single := opts.map (fun a => Op.isinstT i false [a])
    let tuples := (List.range (maxLen + 1)).flatMap (fun k => (tuplesOf opts k).map (fun t => Op.isinstT i true t))
    let chainOps := [0, 2, 3, 4, 5].map (fun b => Op.issubI i b)
    -- chunks of 40 operations per case
    let all := single ++ chainOps ++ tuples
    let mut rest := all
    while !rest.isEmpty do
      emit (mkCase "isin" ds insts (rest.take 40))
      rest := rest.drop 40

def genApi (n : Nat) : IO Unit := do
  for k in [1:n+1] do
    for h in acceptedHiers k [] do
      for p in placements kinds k do
        let ds := (h.zip p).map (fun (d, kd) => { d with members := match kd with | some c => [("a", c)] | none => [] })
        let insts := (List.range k).map (· + 2)
        let ops := ((List.range k).map (fun c => Op.get (.cls (c + 2)) "a")) ++ ((List.range k).map (fun i => Op.get (.inst i) "a"))
          ++ [Op.isinstT 0 true [.cls (k + 1), .cls 0], Op.issubI 0 2, Op.issub (k + 1) 2]
        emit (mkCase "api" ds insts ops)
  genHook "api" 2

/-! random histories -/

def randDecls (r : Rng) (n : Nat) : Rng × List Decl := Id.run do
  let mut r := r
  let mut ds : List Decl := []
  for k in [1:n+1] do
    -- bases: retry until accepted (the empty list is always accepted)
    let mut chosen : List Nat := []
    for _ in [0:4] do
      let opts := baseOpts k
      let (r1, nb) := r.nat 4
      r := r1
      let mut sel : List Nat := []
      for _ in [0:nb] do
        let (r2, i) := r.nat opts.length
        r := r2
        let b := opts[i]!
        -- prefer user classes over an explicit `object`
        if !sel.contains b && (b != 0 || nb == 1) then sel := sel ++ [b]
      if accepted (ds ++ [{ written := sel, members := [] }]) then
        chosen := sel
        break
    let mut mem : List (String × Char) := []
    for nm in ["a", "b"] do
      let (r3, kd) := r.nat 7
      r := r3
      match kd with
      | 0 => mem := mem ++ [(nm, 'v')]
      | 1 => mem := mem ++ [(nm, 'f')]
      | 2 => mem := mem ++ [(nm, 'c')]
      | 3 => mem := mem ++ [(nm, 's')]
      | _ => pure ()
    for nm in ["G", "S", "I"] do
      let (r4, hk) := r.nat 12
      r := r4
      if hk == 0 then mem := mem ++ [(nm, 'f')]
    ds := ds ++ [{ written := chosen, members := mem }]
  return (r, ds)

def randOps (r : Rng) (ncls ninst len : Nat) : Rng × List Op := Id.run do
  let mut r := r
  let mut ops : List Op := []
  for j in [0:len] do
    let (r1, isInst) := r.nat 2
    let (r2, oi) := r1.nat (if isInst == 1 then ninst else ncls)
    let (r3, ni) := r2.nat 5
    let (r4, kind) := r3.nat 11
    let (r5, vk) := r4.nat 6
    let (r6, ci) := r5.nat (ncls + 1)
    r := r6
    let o : Ref := if isInst == 1 then .inst oi else .cls (oi + 2)
    let nm := if ni < 2 then "a" else if ni < 4 then "b" else "z"
    let (r7, tlen) := r6.nat 4
    let mut rr := r7
    let mut targs : List Ref := []
    for _ in [0:tlen] do
      let (r8, pick) := rr.nat (ncls + 2)
      rr := r8
      targs := targs ++ [if pick == 0 then Ref.cls 0 else if pick ≤ ncls then Ref.cls (pick + 1) else Ref.inst 0]
    r := rr
    let g := j % 3
    let op : Op :=
      if kind < 4 then .get o nm
      else if kind < 7 then
        match vk with
        | 0 | 1 | 2 => .set o nm (.plain s!"w{j}") s!"w{j}"
        | 3 => .set o nm (.func s!"g{g}") s!"g{g}"
        | 4 => .set o nm (.cmeth s!"g{g}") s!"c{g}"
        | _ => .set o nm (.smeth s!"g{g}") s!"t{g}"
      else if kind < 9 then .del o nm
      else if kind < 10 then .isinst (if isInst == 1 then oi else 0) (if ci == 0 then 0 else ci + 1)
      else .isinstT (if isInst == 1 then oi else 0) true targs
    ops := ops ++ [op]
  return (r, ops)

def genHist (seed count maxCls : Nat) : IO Unit := do
  let mut r : Rng := ⟨seed.toUInt64 * 7919 + 16⟩
  for cnt in [0:count] do
    let (r1, n) := r.nat maxCls
    let n := n + 1
    let (r2, ds) := randDecls r1 n
    let (r3, ninst) := r2.nat 3
    let ninst := ninst + 1
    let mut insts : List Nat := []
    let mut r4 := r3
    for _ in [0:ninst] do
      let (r5, c) := r4.nat n
      r4 := r5
      insts := insts ++ [c + 2]
    let (r6, len) := r4.nat 10
    let (r7, ops) := randOps r6 n ninst (len + 1)
    r := r7
    let readout : List Op := ((List.range n).map (fun c => Op.get (.cls (c + 2)) "a")) ++ ((List.range ninst).map (fun i => Op.get (.inst i) "a"))
      ++ ((List.range ninst).map (fun i => Op.get (.inst i) "b"))
    emit (mkCase "hist" ds insts (ops ++ readout))
    if cnt % 4 == 0 then emit (mkCase "api" ds insts (ops ++ readout))

def genMain (tier : String) (seed : Nat) : IO Unit := do
  let thorough := tier == "thorough"
  genMro (if thorough then 5 else 4) []
  for n in [1:4] do genLook n
  if thorough then genLook 4 [none, some 'v', some 'c']
  genSeq (if thorough then 3 else 2)
  genHook "hook" 1
  genHook "hook" 2
  if thorough then genHook "hook" 3
  genIsin (if thorough then 3 else 2)
  genApi 2
  genHist seed (if thorough then 200000 else 8000) 6

end GPy.C16
