/-
C16 case generator.  A case = a class hierarchy (written base lists + members of
every class body), some instances, and a history of attribute reads / writes /
deletes / isinstance tests.  Families:

  mro   every class DAG with ≤ n user classes and ≤ 3 bases each, every base order
        (`object` may be written explicitly), cut after the first rejected class;
        + isinstance / IsSubtype of the last class against every class
  look  every accepted hierarchy with ≤ 3 (thorough: 4 classes with {absent, value, classmethod}) user classes × every placement of one name
        as {absent, value, function, classmethod, staticmethod} in every class ×
        a read of the name on every class and on an instance of every class
  seq   the diamond K1; K2(K1); K3(K1); K4(K2,K3): every history of ≤ 3 operations
        (read/write/delete × 5 objects) followed by a read-out of every object
  hist  VERIF_SEED-derived hierarchies (≤ 6 classes), placements of 2 names × 4 kinds,
        ≤ 3 instances, histories of ≤ 10 operations
-/
import GPy.C16.Model
namespace GPy.C16

structure Decl where
  written : List Nat                 -- class ids (0 = object, K_d = d + 1)
  members : List (String × Char)     -- kind: v f c s
deriving Repr, Inhabited

inductive Op where
  | get (o : Ref) (name : String)
  | set (o : Ref) (name : String) (v : Val) (enc : String)
  | del (o : Ref) (name : String)
  | isinst (i : Nat) (c : Nat)
  | issub (a b : Nat)
deriving Repr, Inhabited

def clsName (c : Nat) : String := if c == 0 then "O" else s!"K{c - 1}"
def refName : Ref → String
  | .cls c => s!"K{c - 1}"
  | .inst i => s!"i{i + 1}"
def refShow : Ref → String
  | .cls c => clsName c
  | .inst i => s!"i{i + 1}"

def mkVal (kind : Char) (tag : String) : Val :=
  match kind with
  | 'v' => .plain tag | 'f' => .func tag | 'c' => .cmeth tag | _ => .smeth tag

def Decl.dict (d : Decl) (k : Nat) : Dict :=
  d.members.foldl (fun acc (m : String × Char) => acc.set m.1 (mkVal m.2 s!"K{k}.{m.1}")) []

def Decl.enc (d : Decl) : String :=
  (if d.written.isEmpty then "-" else String.join (d.written.map (fun c => toString (c - (if c == 0 then 0 else 1)))))
  ++ "/" ++ (if d.members.isEmpty then "-" else String.join (d.members.map (fun m => m.1 ++ m.2.toString)))

def Op.enc : Op → String
  | .get o n => s!"g{refName o}.{n}"
  | .set o n _ e => s!"s{refName o}.{n}={e}"
  | .del o n => s!"d{refName o}.{n}"
  | .isinst i c => s!"n{refName (.inst i)}.K{c - 1}"
  | .issub a b => s!"uK{a - 1}.K{b - 1}"

def errName : Err → String
  | .type => "E:TypeError" | .attr => "E:AttributeError"

/-! ### model side -/

def rvalV : RVal → String
  | .raw (.plain t) => s!"v:{t}"
  | .raw (.func t) => s!"call:{t}()"
  | .raw (.cmeth _) => "uncallable:classmethod"
  | .raw (.smeth _) => "uncallable:staticmethod"
  | .bound self fn => s!"call:{fn}({refShow self})"
def rvalR : RVal → String
  | .raw (.plain _) => "str" | .raw (.func _) => "fn" | .raw (.cmeth _) => "cm" | .raw (.smeth _) => "sm"
  | .bound _ _ => "bm"

def mroStr (k : Nat) (mro : List Nat) : String := s!"K{k}=" ++ ".".intercalate (mro.map clsName)

def boolStr (b : Bool) : String := if b then "True" else "False"

def modelRun (decls : List Decl) (insts : List Nat) (ops : List Op) : String × String := Id.run do
  let mut s := State.init
  let mut v : List String := []
  let mut k := 1
  for d in decls do
    match typeNew s d.written (d.dict k) with
    | .error e => return (";".intercalate (v ++ [s!"K{k}={errName e}"]) ++ "|", "-")
    | .ok s' =>
      s := s'
      v := v ++ [mroStr k (s.cmro (k + 1))]
    k := k + 1
  for c in insts do
    match newInstance s c with
    | .ok s' => s := s'
    | _ => return (";".intercalate v ++ "|inst:unmodelled", "-")
  let mut ov : List String := []
  let mut r : List String := []
  for op in ops do
    match op with
    | .get o n =>
      match getAttrString s o n with
      | .ok x => ov := ov ++ [rvalV x]; r := r ++ [rvalR x]
      | .error e => ov := ov ++ [errName e]; r := r ++ ["-"]
      | .unmodelled => ov := ov ++ ["unmodelled"]; r := r ++ ["-"]
    | .set o n x _ =>
      match setAttrString s o n x with
      | .ok s' => s := s'; ov := ov ++ ["ok"]
      | .error e => ov := ov ++ [errName e]
      | .unmodelled => ov := ov ++ ["unmodelled"]
    | .del o n =>
      match deleteAttrString s o n with
      | .ok s' => s := s'; ov := ov ++ ["ok"]
      | .error e => ov := ov ++ [errName e]
      | .unmodelled => ov := ov ++ ["unmodelled"]
    | .isinst i c => ov := ov ++ [boolStr (isInstance s i c)]
    | .issub a b => ov := ov ++ [boolStr (isSubtype s a b)]
  return (";".intercalate v ++ "|" ++ ";".intercalate ov, ";".intercalate r)

/-! ### spec side -/

def svalV : SVal → String
  | .value t => s!"v:{t}"
  | .call fn none => s!"call:{fn}()"
  | .call fn (some r) => s!"call:{fn}({refShow r})"
  | .descr (.cmeth _) => "uncallable:classmethod"
  | .descr (.smeth _) => "uncallable:staticmethod"
  | .descr _ => "?"

/-- ancestor-or-self by reachability over the direct-base relation (fuel = number of classes) -/
def reach (bases : Nat → List Nat) : Nat → Nat → Nat → Bool
  | 0, c, a => c == a
  | fuel + 1, c, a => c == a || (bases c).any (fun b => reach bases fuel b a)

structure SpecOut where
  v : String
  rejected : Bool
  reads : List String

def specRun (decls : List Decl) (insts : List Nat) (ops : List Op) : SpecOut := Id.run do
  let mut tbl := builtinTable
  let mut v : List String := []
  let mut k := 1
  let mut nsInit : List (Ref × Dict) := []
  let mut hier : List (List Nat) := [[], [0]]
  for d in decls do
    match c3Step tbl tbl.length d.written with
    | none => return { v := ";".intercalate (v ++ [s!"K{k}=E:TypeError"]) ++ "|", rejected := true, reads := [] }
    | some lin =>
      tbl := tbl ++ [lin]
      hier := hier ++ [effBases d.written]
      v := v ++ [mroStr k lin]
      nsInit := nsInit ++ [(Ref.cls (k + 1), d.dict k)]
    k := k + 1
  let tblF := tbl
  let hierF := hier
  let instsF := insts
  let ns0 : Ref → String → Option Val := fun r n => ((nsInit.lookup r).getD []).lookup n
  let mut S : SState := { mro := fun c => tblF[c]?.getD [], clsOf := fun i => instsF[i]?.getD 0, ns := ns0 }
  let mut ov : List String := []
  let mut reads : List String := []
  for op in ops do
    match op with
    | .get o n =>
      match specRead S o n with
      | .ok x => ov := ov ++ [svalV x]; reads := reads ++ [svalV x]
      | .attrError => ov := ov ++ ["E:AttributeError"]
      | .typeError => ov := ov ++ ["E:TypeError"]
    | .set o n x _ => S := specWrite S o n x; ov := ov ++ ["ok"]
    | .del o n =>
      match specDelete S o n with
      | .ok S' => S := S'; ov := ov ++ ["ok"]
      | _ => ov := ov ++ ["E:AttributeError"]
    | .isinst i c => ov := ov ++ [boolStr (reach (fun c => hierF[c]?.getD []) hierF.length (instsF[i]?.getD 0) c)]
    | .issub a b => ov := ov ++ [boolStr (reach (fun c => hierF[c]?.getD []) hierF.length a b)]
  return { v := ";".intercalate v ++ "|" ++ ";".intercalate ov, rejected := false, reads := reads }

/-! ### cases -/

def mkCase (family : String) (decls : List Decl) (insts : List Nat) (ops : List Op) : Case :=
  let (mv, mr) := modelRun decls insts ops
  let sp := specRun decls insts ops
  let mi := decls.any (fun d => d.written.length ≥ 2)
  let bindT := sp.reads.any (fun r => r.startsWith "call:")
  -- a read that resolved to a definition in a class other than the one named by the read target's own class
  let shadow := ops.any (fun o => match o with | .set .. => true | .del .. => true | _ => false)
  let tags := (if sp.rejected then ["rej"] else []) ++ (if mi then ["mi"] else []) ++ (if bindT then ["bind"] else [])
    ++ (if shadow then ["write"] else [])
  let nt := sp.rejected || mi || bindT || shadow
  let input := family ++ " " ++ ";".intercalate (decls.map Decl.enc) ++ " "
    ++ (if insts.isEmpty then "-" else String.join (insts.map (fun c => toString (c - 1)))) ++ " "
    ++ (if ops.isEmpty then "-" else ";".intercalate (ops.map Op.enc))
  { input := input, modelV := mv, modelR := mr, specV := sp.v, tags := (if nt then ["nt"] else []) ++ tags }

def emit (c : Case) : IO Unit := IO.println c.line

/-- all ordered selections of ≤ 3 distinct elements -/
def selections (opts : List Nat) : List (List Nat) :=
  [[]] ++ opts.map (fun a => [a])
  ++ opts.flatMap (fun a => (opts.filter (· != a)).map (fun b => [a, b]))
  ++ opts.flatMap (fun a => (opts.filter (· != a)).flatMap (fun b => ((opts.filter (fun c => c != a && c != b)).map (fun c => [a, b, c]))))

/-- candidate base ids for user class number k (1-based): object and K1..K(k-1) -/
def baseOpts (k : Nat) : List Nat := 0 :: (List.range (k - 1)).map (· + 2)

def accepted (decls : List Decl) : Bool := !(specRun decls [] []).rejected

/-- family `mro`: DFS over all hierarchies, cut at the first rejection -/
partial def genMro (n : Nat) (decls : List Decl) : IO Unit := do
  let k := decls.length + 1
  for sel in selections (baseOpts k) do
    let ds := decls ++ [{ written := sel, members := [] }]
    if !accepted ds then emit (mkCase "mro" ds [] [])
    else if k == n then
      let last := k + 1
      let ops := ((List.range (k + 1)).map (fun c => Op.isinst 0 (if c == 0 then 0 else c + 1)))
        ++ ((List.range k).map (fun c => Op.issub last (c + 2))) ++ ((List.range k).map (fun c => Op.issub (c + 2) last))
      emit (mkCase "mro" ds [last] ops)
    else genMro n ds

/-- all accepted hierarchies with exactly n user classes (no members) -/
partial def acceptedHiers (n : Nat) (decls : List Decl) : List (List Decl) :=
  let k := decls.length + 1
  (selections (baseOpts k)).flatMap (fun sel =>
    let ds := decls ++ [{ written := sel, members := [] }]
    if !accepted ds then [] else if k == n then [ds] else acceptedHiers n ds)

def kinds : List (Option Char) := [none, some 'v', some 'f', some 'c', some 's']

/-- all placements of name `a` over n classes -/
def placements (kinds : List (Option Char)) : Nat → List (List (Option Char))
  | 0 => [[]]
  | n + 1 => (placements kinds n).flatMap (fun p => kinds.map (fun k => p ++ [k]))

def genLook (n : Nat) (kinds : List (Option Char) := kinds) : IO Unit := do
  for h in acceptedHiers n [] do
    for p in placements kinds n do
      let ds := (h.zip p).map (fun (d, k) => { d with members := match k with | some c => [("a", c)] | none => [] })
      let insts := (List.range n).map (· + 2)
      let ops := ((List.range n).map (fun c => Op.get (.cls (c + 2)) "a")) ++ ((List.range n).map (fun i => Op.get (.inst i) "a"))
      emit (mkCase "look" ds insts ops)

def diamond : List Decl :=
  [ { written := [], members := [("a", 'v'), ("m", 'f')] }, { written := [2], members := [] },
    { written := [2], members := [("a", 'v')] }, { written := [3, 4], members := [] } ]

def genSeq (len : Nat) : IO Unit := do
  let objs : List Ref := [.cls 2, .cls 4, .cls 5, .inst 0, .inst 1]
  let readout : List Op := ([Ref.cls 2, .cls 3, .cls 4, .cls 5, .inst 0, .inst 1, .inst 2]).map (fun o => Op.get o "a")
  let basic : List Op := objs.flatMap (fun o => [Op.get o "a", Op.set o "a" (.plain "w") "w", Op.del o "a"])
  let rec go (n : Nat) (pre : List Op) : IO Unit := do
    match n with
    | 0 => pure ()
    | n + 1 =>
      for (o, idx) in basic.zipIdx do
        let o' := match o with
          | .set r nm _ _ => Op.set r nm (.plain s!"w{pre.length}{idx}") s!"w{pre.length}{idx}"
          | o => o
        let ops := pre ++ [o']
        emit (mkCase "seq" diamond [5, 5, 4] (ops ++ readout))
        go n ops
  go len []

/-! random histories -/

def randDecls (r : Rng) (n : Nat) : Rng × List Decl := Id.run do
  let mut r := r
  let mut ds : List Decl := []
  for k in [1:n+1] do
    -- bases: retry until accepted (the empty list is always accepted)
    let mut chosen : List Nat := []
    for _ in [0:4] do
      let opts := baseOpts k
      let (r1, nb) := r.nat 4
      r := r1
      let mut sel : List Nat := []
      for _ in [0:nb] do
        let (r2, i) := r.nat opts.length
        r := r2
        let b := opts[i]!
        -- prefer user classes over an explicit `object`
        if !sel.contains b && (b != 0 || nb == 1) then sel := sel ++ [b]
      if accepted (ds ++ [{ written := sel, members := [] }]) then
        chosen := sel
        break
    let mut mem : List (String × Char) := []
    for nm in ["a", "b"] do
      let (r3, kd) := r.nat 7
      r := r3
      match kd with
      | 0 => mem := mem ++ [(nm, 'v')]
      | 1 => mem := mem ++ [(nm, 'f')]
      | 2 => mem := mem ++ [(nm, 'c')]
      | 3 => mem := mem ++ [(nm, 's')]
      | _ => pure ()
    ds := ds ++ [{ written := chosen, members := mem }]
  return (r, ds)

def randOps (r : Rng) (ncls ninst len : Nat) : Rng × List Op := Id.run do
  let mut r := r
  let mut ops : List Op := []
  for j in [0:len] do
    let (r1, isInst) := r.nat 2
    let (r2, oi) := r1.nat (if isInst == 1 then ninst else ncls)
    let (r3, ni) := r2.nat 2
    let (r4, kind) := r3.nat 10
    let (r5, vk) := r4.nat 6
    let (r6, ci) := r5.nat (ncls + 1)
    r := r6
    let o : Ref := if isInst == 1 then .inst oi else .cls (oi + 2)
    let nm := if ni == 0 then "a" else "b"
    let g := j % 3
    let op : Op :=
      if kind < 4 then .get o nm
      else if kind < 7 then
        match vk with
        | 0 | 1 | 2 => .set o nm (.plain s!"w{j}") s!"w{j}"
        | 3 => .set o nm (.func s!"g{g}") s!"g{g}"
        | 4 => .set o nm (.cmeth s!"g{g}") s!"c{g}"
        | _ => .set o nm (.smeth s!"g{g}") s!"t{g}"
      else if kind < 9 then .del o nm
      else .isinst (if isInst == 1 then oi else 0) (if ci == 0 then 0 else ci + 1)
    ops := ops ++ [op]
  return (r, ops)

def genHist (seed count maxCls : Nat) : IO Unit := do
  let mut r : Rng := ⟨seed.toUInt64 * 7919 + 16⟩
  for _ in [0:count] do
    let (r1, n) := r.nat maxCls
    let n := n + 1
    let (r2, ds) := randDecls r1 n
    let (r3, ninst) := r2.nat 3
    let ninst := ninst + 1
    let mut insts : List Nat := []
    let mut r4 := r3
    for _ in [0:ninst] do
      let (r5, c) := r4.nat n
      r4 := r5
      insts := insts ++ [c + 2]
    let (r6, len) := r4.nat 10
    let (r7, ops) := randOps r6 n ninst (len + 1)
    r := r7
    let readout : List Op := ((List.range n).map (fun c => Op.get (.cls (c + 2)) "a")) ++ ((List.range ninst).map (fun i => Op.get (.inst i) "a"))
      ++ ((List.range ninst).map (fun i => Op.get (.inst i) "b"))
    emit (mkCase "hist" ds insts (ops ++ readout))

def genMain (tier : String) (seed : Nat) : IO Unit := do
  let thorough := tier == "thorough"
  genMro (if thorough then 5 else 4) []
  for n in [1:4] do genLook n
  if thorough then genLook 4 [none, some 'v', some 'c']
  genSeq (if thorough then 3 else 2)
  genHist seed (if thorough then 200000 else 8000) 6

end GPy.C16
