/-
C16 helper lemmas, round 2 (model widening): user hooks `__getattr__` / `__setattr__` / `__init__`
found on the TYPE of the object along its MRO, the states reachable with such hooks, the tuple form
of isinstance.
-/
import GPy.C16.Reach
namespace GPy.C16

/-! ### user hooks `__getattr__`, `__setattr__`, `__init__` (round 2) -/

/-- the hooks the model follows -/
def userHooks : List String := ["__getattr__", "__setattr__", "__init__"]
/-- the hooks it does not follow -/
def badHooks : List String := ["__getattribute__", "__delattr__"]

def IsFuncOrPlain : Val → Prop
  | .func _ => True
  | .plain _ => True
  | _ => False

/-- a class dictionary the hook theorems speak about: no `__getattribute__`/`__delattr__`; the hooks
`__getattr__`/`__setattr__`/`__init__`, where defined, are plain functions or non-callable values
(not classmethod/staticmethod objects) -/
def DictHooksOK (d : Dict) : Prop :=
  (∀ h ∈ badHooks, d.get h = none) ∧ ∀ h ∈ userHooks, ∀ v, d.get h = some v → IsFuncOrPlain v

def ClsDictsOK (s : State) : Prop := ∀ c, DictHooksOK (s.cdict c)

def AgreesH (m : Res RVal) (sp : SRes SVal) : Prop :=
  match m with
  | .ok v => sp = .ok (absR v)
  | .error .attr => sp = .attrError
  | .error .type => sp = .typeError
  | .unmodelled => False

theorem lookup_some_mem (s : State) : ∀ (lin : List Nat) (n : String) (v : Val), lookup s lin n = some v →
    ∃ c, (s.cdict c).get n = some v := by
  intro lin
  induction lin with
  | nil => intro n v h; cases h
  | cons b rest ih =>
    intro n v h
    rw [lookup] at h
    cases hg : (s.cdict b).get n with
    | some w => rw [hg] at h; cases h; exact ⟨b, hg⟩
    | none => rw [hg] at h; exact ih n v h

theorem lookup_bad_none {s : State} (hd : ClsDictsOK s) (lin : List Nat) {h : String} (hh : h ∈ badHooks) :
    lookup s lin h = none :=
  lookup_none_of_dicts s lin h (fun c => (hd c).1 h hh)

/-- the hook an instance's special-method call reaches = first definition along the MRO of its class -/
theorem hookOf_inst {s : State} (i : Nat) (n : String)
    (hhead : (s.cmro (s.typeOf (.inst i))).head? = some (s.typeOf (.inst i))) :
    hookOf s (.inst i) n = lookup s (s.cmro (s.typeOf (.inst i))) n :=
  native_eq_lookup s _ n hhead

/-- a class object's special-method calls go to the metatype `type`, which defines none -/
theorem hookOf_cls {s : State} (hs : Shape s) (c : Nat) (n : String) : hookOf s (.cls c) n = none :=
  meta_none hs c n

theorem getAttrH_inst {s : State} {S : SState} (h : Rel s S) (hd : ClsDictsOK s) (i : Nat) (key : String)
    (hkey : key ∉ goSpecial) (hhead : (s.cmro (s.typeOf (.inst i))).head? = some (s.typeOf (.inst i))) :
    AgreesH (getAttrString s (.inst i) key) (specReadH S (.inst i) key) := by
  have hk : goSpecial.contains key = false := by simpa using hkey
  unfold getAttrString specReadH specRead specHook
  simp only [hookOf_inst i _ hhead, lookup_bad_none hd _ (by decide : "__getattribute__" ∈ badHooks),
    Option.isSome_none, Bool.false_eq_true, if_false, hk]
  rw [h.ns (.inst i) key, h.cls i, h.mro, ← lookup_eq_firstDef h, ← lookup_eq_firstDef h, native_eq_lookup s _ key hhead]
  cases (s.dictOf (.inst i)).get key with
  | some v => simp [AgreesH, absR_raw]
  | none =>
    cases lookup s (s.cmro (s.typeOf (.inst i))) key with
    | some v => simp [AgreesH, absR_descrGet]
    | none =>
      cases hl : lookup s (s.cmro (s.typeOf (.inst i))) "__getattr__" with
      | none => simp [AgreesH]
      | some v =>
        obtain ⟨c, hc⟩ := lookup_some_mem s _ _ _ hl
        have := (hd c).2 "__getattr__" (by decide) v hc
        cases v with
        | func f => simp [AgreesH, absR]
        | plain t => simp [AgreesH]
        | cmeth t => exact this.elim
        | smeth t => exact this.elim

theorem getAttrH_cls {s : State} {S : SState} (h : Rel s S) (hs : Shape s) (c : Nat) (key : String)
    (hkey : key ∉ goSpecial) (hhead : (s.cmro c).head? = some c) :
    AgreesH (getAttrString s (.cls c) key) (specReadH S (.cls c) key) := by
  have hk : goSpecial.contains key = false := by simpa using hkey
  have hne : (s.cmro c != []) = true := by
    cases hm : s.cmro c with
    | nil => rw [hm] at hhead; cases hhead
    | cons => rfl
  have hmeta := meta_none hs c key
  unfold getAttrString specReadH specRead specHook
  simp only [hookOf_cls hs, Option.isSome_none, Bool.false_eq_true, if_false, hk, hne, if_true]
  rw [h.mro, ← lookup_eq_firstDef h]
  cases hl : lookup s (s.cmro c) key with
  | some v => simp [AgreesH, absR_descrGet]
  | none =>
    have hown : (s.dictOf (.cls c)).get key = none := by
      have := native_eq_lookup s c key hhead
      rw [hl] at this
      unfold nativeGetAttrOrNil at this
      show (s.cdict c).get key = none
      cases hg : (s.cdict c).get key with
      | none => rfl
      | some v => rw [hg] at this; cases this
    simp [AgreesH, hown, hmeta]

theorem readH_agrees {s : State} {S : SState} (h : Rel s S) (hs : Shape s) (hd : ClsDictsOK s) (r : Ref) (k : String)
    (hv : Valid s r) (hk : k ∉ goSpecial) : AgreesH (getAttrString s r k) (specReadH S r k) := by
  cases r with
  | cls c => exact getAttrH_cls h hs c k hk (hs.heads c hv)
  | inst i => exact getAttrH_inst h hd i k hk (hs.heads _ (hs.instCls i hv))

/-! writes with `__setattr__` -/

theorem rel_log {s : State} {S : SState} (h : Rel s S) (l : List HookCall) : Rel { s with log := l } S :=
  ⟨h.mro, h.cls, h.ns⟩

/-- what a write step and the specification's write step produce -/
def StepAgrees (m : Res State) (sp : SRes (SState × List HookCall)) : Prop :=
  match m, sp with
  | .ok s', .ok (S', log') => Rel s' S' ∧ s'.log = log'
  | .error .type, .typeError => True
  | _, _ => False

theorem log_setDict (s : State) (r : Ref) (f : Dict → Dict) : (setDict s r f).log = s.log := by
  cases r <;> rfl

theorem setAttrH_spec {s : State} {S : SState} (h : Rel s S) (hs : Shape s) (hd : ClsDictsOK s) (r : Ref)
    (hv : Valid s r) (k : String) (v : Val) :
    StepAgrees (setAttrString s r k v) (specWriteH S s.log r k v) := by
  unfold setAttrString specWriteH specHook
  cases r with
  | cls c =>
    simp only [hookOf_cls hs]
    exact ⟨rel_set h _ hv k v, log_setDict _ _ _⟩
  | inst i =>
    have hhead := hs.heads _ (hs.instCls i hv)
    simp only [hookOf_inst i _ hhead]
    rw [h.cls i, h.mro, ← lookup_eq_firstDef h]
    cases hl : lookup s (s.cmro (s.typeOf (.inst i))) "__setattr__" with
    | none => exact ⟨rel_set h _ hv k v, log_setDict _ _ _⟩
    | some w =>
      obtain ⟨c, hc⟩ := lookup_some_mem s _ _ _ hl
      have := (hd c).2 "__setattr__" (by decide) w hc
      cases w with
      | func f => exact ⟨rel_log h _, rfl⟩
      | plain t => trivial
      | cmeth t => exact this.elim
      | smeth t => exact this.elim

/-! instantiation with `__init__` -/

theorem cdict_addInst (s : State) (o : IObj) (c : Nat) : (s.addInst o).cdict c = s.cdict c := rfl
theorem cmro_addInst (s : State) (o : IObj) (c : Nat) : (s.addInst o).cmro c = s.cmro c := rfl

theorem clsDictsOK_addInst {s : State} (hd : ClsDictsOK s) (o : IObj) : ClsDictsOK (s.addInst o) := hd

theorem typeOf_new_inst (s : State) (c : Nat) :
    (s.addInst { cls := c, dict := [] }).typeOf (.inst s.insts.length) = c := by
  simp [State.typeOf, State.addInst]

/-- `ObjectInit`'s lookup `t.GetAttrOrNil("__init__")` on the class = first definition along the class's MRO -/
theorem getAttrOrNil_cls {s : State} (hs : Shape s) {c : Nat} (hc : c < s.classes.length) (n : String) :
    getAttrOrNil s (.cls c) n = lookup s (s.cmro c) n := by
  have hhead := hs.heads c hc
  unfold getAttrOrNil
  show (match (s.cdict c).get n with
    | some v => some v
    | none => match (s.cdict (s.typeOf (.cls c))).get n with
      | some v => some v
      | none => lookup s (s.cmro c) n) = _
  rw [hs.metaT c, hs.typeDict]
  cases hm : s.cmro c with
  | nil => rw [hm] at hhead; cases hhead
  | cons a rest =>
    rw [hm] at hhead
    simp only [List.head?_cons, Option.some.injEq] at hhead
    subst hhead
    rw [lookup]
    cases (s.cdict a).get n <;> rfl

theorem newInstanceH_spec {s : State} {S' : SState} (hs : Shape s) (hd : ClsDictsOK s) (c : Nat)
    (hc : c < s.classes.length) (h : Rel (s.addInst { cls := c, dict := [] }) S') :
    StepAgrees (newInstance s c) (specInit S' s.log s.insts.length) := by
  have hs' := shape_addInst hs hc
  have hv : Valid (s.addInst { cls := c, dict := [] }) (.inst s.insts.length) := by
    simp [Valid, State.addInst]
  have hcl : S'.clsOf s.insts.length = c := by rw [h.cls, typeOf_new_inst]
  unfold newInstance specInit
  show StepAgrees (match getAttrOrNil (s.addInst { cls := c, dict := [] }) (.cls c) "__init__" with
    | none => .ok (s.addInst { cls := c, dict := [] })
    | some (.func f) => setAttrString (s.addInst { cls := c, dict := [] }) (.inst s.insts.length) "a" (.plain f)
    | some (.plain _) => .error .type
    | some _ => .unmodelled) _
  rw [getAttrOrNil_cls hs' hc, hcl, h.mro, ← lookup_eq_firstDef h]
  cases hl : lookup (s.addInst { cls := c, dict := [] }) ((s.addInst { cls := c, dict := [] }).cmro c) "__init__" with
  | none => exact ⟨h, rfl⟩
  | some w =>
    obtain ⟨k, hk⟩ := lookup_some_mem _ _ _ _ hl
    have := (hd k).2 "__init__" (by decide) w hk
    cases w with
    | func f => exact setAttrH_spec h hs' hd _ hv "a" (.plain f)
    | plain t => trivial
    | cmeth t => exact this.elim
    | smeth t => exact this.elim

/-! ### invariants of the states reachable WITH hooks -/

theorem bad_sub {h : String} (hh : h ∈ badHooks) : h ∈ hookNames := by
  simp only [badHooks, List.mem_cons, List.not_mem_nil, or_false] at hh
  rcases hh with rfl | rfl <;> decide

theorem user_sub {h : String} (hh : h ∈ userHooks) : h ∈ hookNames := by
  simp only [userHooks, List.mem_cons, List.not_mem_nil, or_false] at hh
  rcases hh with rfl | rfl | rfl <;> decide

theorem dictHooksOK_set {d : Dict} (hd : DictHooksOK d) {k : String} (hk : k ∉ hookNames) (v : Val) :
    DictHooksOK (d.set k v) := by
  refine ⟨fun h hh => ?_, fun h hh w hw => ?_⟩
  · have : h ≠ k := fun e => hk (e ▸ bad_sub hh)
    rw [Dict.get_set, if_neg this]; exact hd.1 h hh
  · have : h ≠ k := fun e => hk (e ▸ user_sub hh)
    rw [Dict.get_set, if_neg this] at hw; exact hd.2 h hh w hw

theorem dictHooksOK_del {d : Dict} (hd : DictHooksOK d) (k : String) : DictHooksOK (d.del k) := by
  refine ⟨fun h hh => ?_, fun h hh w hw => ?_⟩
  · rw [Dict.get_del]; split
    · rfl
    · exact hd.1 h hh
  · rw [Dict.get_del] at hw
    split at hw
    · cases hw
    · exact hd.2 h hh w hw

theorem dictHooksOK_nil : DictHooksOK [] := ⟨fun _ _ => rfl, fun _ _ _ h => by cases h⟩

theorem clsDictsOK_setDict {s : State} (hd : ClsDictsOK s) (r : Ref) (hv : Valid s r) (f : Dict → Dict)
    (hf : ∀ d, DictHooksOK d → DictHooksOK (f d)) : ClsDictsOK (setDict s r f) := by
  intro c
  show DictHooksOK ((setDict s r f).dictOf (.cls c))
  rw [dictOf_setDict s r f hv]
  split
  · rename_i h; subst h; exact hf _ (hd c)
  · exact hd c

theorem clsDictsOK_addClass {s : State} (hd : ClsDictsOK s) (o : TObj) (ho : DictHooksOK o.dict) :
    ClsDictsOK (s.addClass o) := by
  intro c
  by_cases hlt : c < s.classes.length
  · rw [cdict_addClass_lt s o hlt]; exact hd c
  · by_cases he : c = s.classes.length
    · subst he; rw [cdict_addClass_eq]; exact ho
    · rw [cdict_ge]
      · exact dictHooksOK_nil
      · simp [State.addClass]; omega

theorem shape_log {s : State} (hs : Shape s) (l : List HookCall) : Shape { s with log := l } :=
  ⟨hs.two, hs.heads, hs.instCls, hs.metaT, hs.typeMro, hs.objDict, hs.typeDict⟩

theorem init_clsDictsOK : ClsDictsOK State.init := by
  intro c
  match c with
  | 0 => exact dictHooksOK_nil
  | 1 => exact dictHooksOK_nil
  | c + 2 => exact dictHooksOK_nil

/-- the states a program reaches when class bodies may define `__getattr__`/`__setattr__`/`__init__`
(as functions or non-callable values; not `__getattribute__`/`__delattr__`) -/
inductive ReachableH : State → Prop where
  | init : ReachableH State.init
  | cls {s s' : State} (w : List Nat) (d : Dict) : ReachableH s →
      (∀ b ∈ effBases w, b < s.classes.length ∧ b ≠ 1) → DictHooksOK d → typeNew s w d = .ok s' → ReachableH s'
  | inst {s s' : State} (c : Nat) : ReachableH s → 2 ≤ c → c < s.classes.length → newInstance s c = .ok s' → ReachableH s'
  | set {s s' : State} (r : Ref) (k : String) (v : Val) : ReachableH s → OpOK s (.set r k v) →
      setAttrString s r k v = .ok s' → ReachableH s'
  | del {s s' : State} (r : Ref) (k : String) : ReachableH s → OpOK s (.del r k) →
      deleteAttrString s r k = .ok s' → ReachableH s'

/-- the invariant: shape, admissible hook definitions, C3 table -/
structure InvH (s : State) : Prop where
  shape : Shape s
  dicts : ClsDictsOK s
  built : Built s.H s.T
  baseHead : BaseHead s

theorem invH_setDict {s : State} (hi : InvH s) (r : Ref) (hv : Valid s r) (h0 : r ≠ .cls 0) (h1 : r ≠ .cls 1)
    (f : Dict → Dict) (hf : ∀ d, DictHooksOK d → DictHooksOK (f d)) : InvH (setDict s r f) :=
  ⟨shape_setDict hi.shape r hv h0 h1 f, clsDictsOK_setDict hi.dicts r hv f hf, by rw [H_setDict, T_setDict]; exact hi.built,
    baseHead_setDict hi.baseHead r f⟩

theorem invH_log {s : State} (hi : InvH s) (l : List HookCall) : InvH { s with log := l } :=
  ⟨shape_log hi.shape l, hi.dicts, hi.built, hi.baseHead⟩

theorem invH_addInst {s : State} (hi : InvH s) {c : Nat} (hc : c < s.classes.length) :
    InvH (s.addInst { cls := c, dict := [] }) :=
  ⟨shape_addInst hi.shape hc, hi.dicts, hi.built, hi.baseHead⟩

theorem invH_set {s s' : State} (hi : InvH s) {r : Ref} (hv : Valid s r) (h0 : r ≠ .cls 0) (h1 : r ≠ .cls 1)
    {k : String} (hk : k ∉ hookNames) {v : Val} (h : setAttrString s r k v = .ok s') : InvH s' := by
  unfold setAttrString at h
  split at h
  · cases h; exact invH_setDict hi r hv h0 h1 _ (fun d hd => dictHooksOK_set hd hk v)
  · cases h; exact invH_log hi _
  · cases h
  · cases h

theorem hookOf_bad_none {s : State} (hs : Shape s) (hd : ClsDictsOK s) (r : Ref) (hv : Valid s r) {h : String}
    (hh : h ∈ badHooks) : hookOf s r h = none := by
  cases r with
  | cls c => exact hookOf_cls hs c h
  | inst i => rw [hookOf_inst i h (hs.heads _ (hs.instCls i hv))]; exact lookup_bad_none hd _ hh

theorem invH_del {s s' : State} (hi : InvH s) {r : Ref} (hv : Valid s r) (h0 : r ≠ .cls 0) (h1 : r ≠ .cls 1)
    {k : String} (h : deleteAttrString s r k = .ok s') : InvH s' := by
  unfold deleteAttrString at h
  simp only [hookOf_bad_none hi.shape hi.dicts r hv (by decide : "__delattr__" ∈ badHooks), Option.isSome_none,
    Bool.false_eq_true, if_false] at h
  split at h
  · cases h; exact invH_setDict hi r hv h0 h1 _ (fun d hd => dictHooksOK_del hd k)
  · cases h

theorem invH_newInstance {s s' : State} (hi : InvH s) {c : Nat} (hc : c < s.classes.length)
    (h : newInstance s c = .ok s') : InvH s' := by
  have hi' := invH_addInst hi hc
  have hv : Valid (s.addInst { cls := c, dict := [] }) (.inst s.insts.length) := by simp [Valid, State.addInst]
  unfold newInstance at h
  change (match getAttrOrNil (s.addInst { cls := c, dict := [] }) (.cls c) "__init__" with
    | none => Res.ok (s.addInst { cls := c, dict := [] })
    | some (.func f) => setAttrString (s.addInst { cls := c, dict := [] }) (.inst s.insts.length) "a" (.plain f)
    | some (.plain _) => .error .type
    | some _ => .unmodelled) = .ok s' at h
  split at h
  · cases h; exact hi'
  · exact invH_set hi' hv (by simp) (by simp) (by decide) h
  · cases h
  · cases h

theorem reachableH_inv {s : State} (h : ReachableH s) : InvH s := by
  induction h with
  | init => exact ⟨init_shape, init_clsDictsOK, Built.base, rfl⟩
  | cls w d _ hb hd hnew ih =>
    have hb' : ∀ b ∈ effBases w, b < _ := fun b hm => (hb b hm).1
    refine ⟨shape_typeNew ih.shape hb' hnew, ?_, ?_, ?_⟩
    · obtain ⟨r, rfl⟩ := typeNew_ok hb' hnew
      exact clsDictsOK_addClass ih.dicts _ hd
    · rw [typeNew_eq _ w d hb'] at hnew
      cases hstep : c3Step _ _ w with
      | none => rw [hstep] at hnew; cases hnew
      | some lin =>
        rw [hstep] at hnew
        simp only [Except.ok.injEq] at hnew
        subst hnew
        simpa [State.H, State.T, newClass] using Built.step ih.built hstep
    · obtain ⟨r, rfl⟩ := typeNew_ok hb' hnew
      have hbh := ih.baseHead
      unfold BaseHead at *
      simp [State.addClass, hbh, newClass]
  | inst c _ _ hc hnew ih => exact invH_newInstance ih hc hnew
  | set r k v _ hop hset ih =>
    obtain ⟨hv, h0, h1, _, hhook⟩ := hop
    exact invH_set ih hv h0 h1 hhook hset
  | del r k _ hop hdel ih =>
    obtain ⟨hv, h0, h1, _, _⟩ := hop
    exact invH_del ih hv h0 h1 hdel

/-- a state reachable without hooks is reachable with hooks allowed -/
theorem dictNoHooks_ok {d : Dict} (h : DictNoHooks d) : DictHooksOK d :=
  ⟨fun n hn => h n (bad_sub hn), fun n hn v hv => by rw [h n (user_sub hn)] at hv; cases hv⟩

theorem reachable_reachableH {s : State} (h : Reachable s) : ReachableH s := by
  induction h with
  | init => exact .init
  | cls w d _ hb hd hnew ih => exact .cls w d ih hb (dictNoHooks_ok hd) hnew
  | inst c _ h2 hc hnew ih => exact .inst c ih h2 hc hnew
  | set r k v _ hop hset ih => exact .set r k v ih hop hset
  | del r k _ hop hdel ih => exact .del r k ih hop hdel

/-! ### isinstance with a tuple -/

def AgreesB (m : Except Err Bool) (sp : SRes Bool) : Prop :=
  match m, sp with
  | .ok b, .ok b' => b = b'
  | .error .type, .typeError => True
  | _, _ => False

theorem isInstance_eq_spec {s : State} (hs : Shape s) {i : Nat} (hi : i < s.insts.length) (c : Nat) :
    isInstance s i c = specIsInstance { mro := s.cmro, clsOf := fun i => s.typeOf (.inst i), ns := fun r n => (s.dictOf r).get n } i c := by
  unfold isInstance specIsInstance
  exact isSubtype_eq_mro hs (hs.instCls i hi) c

theorem isInstance1_agrees {s : State} (hs : Shape s) {i : Nat} (hi : i < s.insts.length) (a : Ref) :
    AgreesB (isInstance1 s i a)
      (specIsInstance1 { mro := s.cmro, clsOf := fun i => s.typeOf (.inst i), ns := fun r n => (s.dictOf r).get n } i a) := by
  cases a with
  | cls c => exact isInstance_eq_spec hs hi c
  | inst j => trivial

theorem isInstanceT_agrees {s : State} (hs : Shape s) {i : Nat} (hi : i < s.insts.length) (args : List Ref) :
    AgreesB (isInstanceT s i args)
      (specIsInstanceT { mro := s.cmro, clsOf := fun i => s.typeOf (.inst i), ns := fun r n => (s.dictOf r).get n } i args) := by
  induction args with
  | nil => rfl
  | cons a rest ih =>
    have h1 := isInstance1_agrees hs hi a
    unfold isInstanceT specIsInstanceT
    cases hm : isInstance1 s i a with
    | error e =>
      rw [hm] at h1
      cases e with
      | attr => simp [AgreesB] at h1
      | type =>
        revert h1
        cases specIsInstance1 _ i a <;> simp [AgreesB]
    | ok b =>
      rw [hm] at h1
      revert h1
      cases hsp : specIsInstance1 _ i a with
      | ok b' =>
        intro h1
        have : b = b' := h1
        subst this
        cases b
        · exact ih
        · rfl
      | attrError => simp [AgreesB]
      | typeError => simp [AgreesB]

end GPy.C16
