/-
C16 model: hand transliteration of the Go code that builds classes and resolves
attributes (after the three `fix:` commits of this kernel).

  py/type.go      tail_contains, check_duplicates, pmerge, mro_implementation,
                  mro_internal/Ready/TypeNew (as far as they fill Bases, Base, Dict, Mro),
                  IsSubtype, Lookup, NativeGetAttrOrNil, GetAttrOrNil, Alloc/ObjectNew
  py/internal.go  GetAttrString, SetAttrString, DeleteAttrString
  py/function.go, py/classmethod.go, py/staticmethod.go   M__get__
  stdlib/builtin  isinstance

Go objects: classes and instances are both `*py.Type`; they are kept in two
tables here (`Ref.cls i` / `Ref.inst i`), identity = (table, index).  Class
`0` = `ObjectType`, class `1` = `TypeType`.  Go maps ↦ association lists with
unique keys (`Dict`).  Outcomes the model does not follow (user hooks
`__getattribute__`/`__getattr__`/`__setattr__`/`__delattr__`/`__init__`, the reflective
`M__xxx__` lookup for dunder names) are the distinct result `unmodelled`.
-/
import GPy.C16.Spec
namespace GPy.C16

abbrev Dict := List (String × Val)

def Dict.get (d : Dict) (k : String) : Option Val := d.lookup k
def Dict.set (d : Dict) (k : String) (v : Val) : Dict := (k, v) :: d.filter (fun e => e.1 != k)
def Dict.del (d : Dict) (k : String) : Dict := d.filter (fun e => e.1 != k)

/-- a class object (`*py.Type` with `Mro != nil`) -/
structure TObj where
  typ : Nat          -- ObjectType: the metatype (always `1` here)
  bases : List Nat   -- Bases
  base : Option Nat  -- Base
  mro : List Nat     -- Mro
  dict : Dict        -- Dict
deriving Repr, Inhabited

/-- an instance of a user class (`*py.Type` made by `Alloc`: `Mro == nil`) -/
structure IObj where
  cls : Nat          -- ObjectType
  dict : Dict
deriving Repr, Inhabited

structure State where
  classes : List TObj
  insts : List IObj
  /-- the calls of user hook functions made so far (`__setattr__`), in order; the functions are not looked into -/
  log : List HookCall := []
deriving Repr, Inhabited

inductive Err where
  | type | attr
deriving DecidableEq, Repr, Inhabited

/-- `object` and `type` after their `Ready()` in `init()` (dunder entries of the dictionaries are not represented) -/
def State.init : State :=
  { classes := [ { typ := 1, bases := [], base := none, mro := [0], dict := [] },
                 { typ := 1, bases := [0], base := some 0, mro := [1, 0], dict := [] } ],
    insts := [] }

def State.cdict (s : State) (c : Nat) : Dict := (s.classes[c]?.map (·.dict)).getD []
def State.cmro (s : State) (c : Nat) : List Nat := (s.classes[c]?.map (·.mro)).getD []

/-- `t.Dict` -/
def State.dictOf (s : State) : Ref → Dict
  | .cls c => s.cdict c
  | .inst i => (s.insts[i]?.map (·.dict)).getD []
/-- `t.Type()` -/
def State.typeOf (s : State) : Ref → Nat
  | .cls c => (s.classes[c]?.map (·.typ)).getD 1
  | .inst i => (s.insts[i]?.map (·.cls)).getD 0
/-- `t.Mro` (nil for instances) -/
def State.mroOf (s : State) : Ref → List Nat
  | .cls c => s.cmro c
  | .inst _ => []

/-! ### C3 (py/type.go) -/

/-- `tail_contains(list, whence, o)` -/
def tailContains (l : List Nat) (whence : Nat) (o : Nat) : Bool := (l.drop (whence + 1)).contains o

/-- `check_duplicates` (true = the TypeError is raised) -/
def checkDuplicates : List Nat → Bool
  | [] => false
  | o :: rest => rest.contains o || checkDuplicates rest

/-- `to_merge[i]` paired with `remain[i]` -/
abbrev MSt := List (List Nat × Nat)

/-- the measure that proves termination of `pmerge`: Σ (len − remain) -/
def MSt.measure (st : MSt) : Nat := (st.map (fun e => e.1.length - e.2)).sum

/-- one pass of the `for i` loop of `pmerge` from position `i` on:
the candidate chosen (if any) and `empty_cnt` -/
def scan (all : MSt) : MSt → Nat → Option Nat × Nat
  | [], e => (none, e)
  | (cur, r) :: rest, e =>
    if r ≥ cur.length then scan all rest (e + 1)
    else
      let candidate := cur[r]!
      if all.any (fun j => tailContains j.1 j.2 candidate) then scan all rest e   -- goto skip
      else (some candidate, e)

/-- the `for j` loop after `acc.Append(candidate)` -/
def advance (st : MSt) (candidate : Nat) : MSt :=
  st.map (fun j => if j.2 < j.1.length && j.1[j.2]! == candidate then (j.1, j.2 + 1) else j)

theorem scan_some {all : MSt} {l : MSt} {e : Nat} {c : Nat} {e' : Nat} (h : scan all l e = (some c, e')) :
    ∃ j ∈ l, j.2 < j.1.length ∧ j.1[j.2]! = c := by
  induction l generalizing e with
  | nil => simp [scan] at h
  | cons hd tl ih =>
    obtain ⟨cur, r⟩ := hd
    simp only [scan] at h
    split at h
    · obtain ⟨j, hj, hp⟩ := ih h; exact ⟨j, List.mem_cons_of_mem _ hj, hp⟩
    · split at h
      · obtain ⟨j, hj, hp⟩ := ih h; exact ⟨j, List.mem_cons_of_mem _ hj, hp⟩
      · simp only [Prod.mk.injEq, Option.some.injEq] at h
        exact ⟨(cur, r), List.mem_cons_self, by simp only; omega, h.1⟩

theorem advance_measure_le (st : MSt) (c : Nat) : (advance st c).measure ≤ st.measure := by
  induction st with
  | nil => simp [advance, MSt.measure]
  | cons hd tl ih =>
    simp only [advance, MSt.measure, List.map_cons, List.sum_cons] at *
    split <;> (try dsimp only) <;> omega

theorem advance_measure_lt (st : MSt) (c : Nat) (h : ∃ j ∈ st, j.2 < j.1.length ∧ j.1[j.2]! = c) :
    (advance st c).measure < st.measure := by
  induction st with
  | nil => obtain ⟨j, hj, _⟩ := h; cases hj
  | cons hd tl ih =>
    have hle := advance_measure_le tl c
    obtain ⟨j, hj, hlt, heq⟩ := h
    simp only [advance, MSt.measure, List.map_cons, List.sum_cons] at *
    rcases List.mem_cons.mp hj with rfl | hin
    · simp only [hlt, heq, decide_true, beq_self_eq_true, Bool.and_self, if_true]
      omega
    · have := ih ⟨j, hin, hlt, heq⟩
      split <;> (try dsimp only) <;> omega

/-- `pmerge(acc, to_merge)`: the `again:` loop.  `.error .type` = `set_mro_error` -/
def pmergeLoop (acc : List Nat) (st : MSt) : Except Err (List Nat) :=
  match _h : scan st st 0 with
  | (some candidate, _) => pmergeLoop (acc ++ [candidate]) (advance st candidate)   -- goto again
  | (none, emptyCnt) => if emptyCnt == st.length then .ok acc else .error .type
termination_by st.measure
decreasing_by exact advance_measure_lt st candidate (scan_some _h)

def pmerge (acc : List Nat) (toMerge : List (List Nat)) : Except Err (List Nat) :=
  pmergeLoop acc (toMerge.map (fun l => (l, 0)))   -- remain := make([]int, to_merge_size)

/-- `mro_implementation` for the new type `t` with `t.Bases = bases` -/
def mroImplementation (s : State) (t : Nat) (bases : List Nat) : Except Err (List Nat) :=
  let toMerge := bases.map s.cmro                   -- SequenceList(base.Mro) for each base
  if checkDuplicates bases then .error .type else
  pmerge [t] (toMerge ++ [bases])

/-- `IsSubtype`: walk of the stored MRO; the `Base` chain when the MRO is empty -/
def baseChain (s : State) : Nat → Nat → Nat → Bool
  | 0, _, b => b == 0
  | fuel + 1, a, b =>
    if a == b then true else
    match (s.classes[a]?.bind (·.base)) with
    | some a' => baseChain s fuel a' b
    | none => b == 0

def isSubtype (s : State) (a b : Nat) : Bool :=
  let mro := s.cmro a
  if mro.length != 0 then mro.contains b else baseChain s s.classes.length a b

/-- `TypeNew` (via `builtin___build_class__`, metatype `type`) followed by `Ready`:
allocates class number `s.classes.length`.  Not followed: metaclass calculation
(all bases here have metatype `type`), `__slots__`, `best_base` layout conflicts
(`solid_base` is always `object`), the `mro` hook of a metatype. -/
def typeNew (s : State) (written : List Nat) (dict : Dict) : Except Err State :=
  let bases := if written.length == 0 then [0] else written   -- "Adjust for empty tuple bases"
  let t := s.classes.length
  match mroImplementation s t bases with
  | .error e => .error e
  | .ok mro => .ok { s with classes := s.classes ++ [{ typ := 1, bases := bases, base := bases.head?, mro := mro, dict := dict }] }

/-! ### attribute access (py/type.go, py/internal.go) -/

/-- `(*Type).Lookup`: first dictionary along the stored MRO that has the name -/
def lookup (s : State) : List Nat → String → Option Val
  | [], _ => none
  | b :: rest, name =>
    match (s.cdict b).get name with
    | some v => some v
    | none => lookup s rest name

/-- `NativeGetAttrOrNil` on class `t` -/
def nativeGetAttrOrNil (s : State) (t : Nat) (name : String) : Option Val :=
  match (s.cdict t).get name with
  | some v => some v
  | none => lookup s (s.cmro t) name

/-- `GetAttrOrNil` on the object `o` (a `*Type`: class or instance) -/
def getAttrOrNil (s : State) (o : Ref) (name : String) : Option Val :=
  match (s.dictOf o).get name with
  | some v => some v
  | none =>
    match (s.cdict (s.typeOf o)).get name with
    | some v => some v
    | none => lookup s (s.mroOf o) name

/-- what an attribute read returns: a stored object, or a `*BoundMethod{Self, Method}` -/
inductive RVal where
  | raw (v : Val)
  | bound (self : Ref) (fn : String)
  | hooked (fn : String) (self : Ref) (key : String)   -- the result of `Call(fn, (self, key))` for a user `__getattr__`
deriving DecidableEq, Repr, Inhabited

/-- `M__get__(instance, owner)` of Function / ClassMethod / StaticMethod; `instance = none` is `py.None` -/
def descrGet (v : Val) (inst : Option Ref) (owner : Nat) : RVal :=
  match v with
  | .plain t => .raw (.plain t)              -- no I__get__
  | .func t => match inst with
    | some i => .bound i t                   -- instance != None
    | none => .raw (.func t)
  | .cmeth t => .bound (.cls owner) t        -- NewBoundMethod(owner, c.Callable)
  | .smeth t => .raw (.func t)               -- c.Callable

inductive Res (α : Type) where
  | ok (v : α)
  | error (e : Err)
  | unmodelled
deriving Repr, Inhabited

/-- dunder names for which `reflect` finds a Go method `M<key>` on `*py.Type` -/
def goSpecial : List String := ["__call__", "__eq__", "__ne__", "__str__", "__repr__"]

/-- `TypeCall(self, name, …)` → `(*Type).CallMethod(name)`: which function a special method call reaches.
After the round-2 `fix:` the method is looked up on `self.Type()` (its dictionary, then its MRO) – before,
`self.GetAttrOrNil(name)` looked in the object's own dictionary, the type's own dictionary and the object's
own MRO (nil for an instance), so inherited hooks were missed and a class's hooks applied to the class itself. -/
def hookOf (s : State) (self : Ref) (name : String) : Option Val :=
  nativeGetAttrOrNil s (s.typeOf self) name

/-- `GetAttrString(self, key)` for `self` a class or an instance of a user class -/
def getAttrString (s : State) (self : Ref) (key : String) : Res RVal :=
  -- TypeCall1(self, "__getattribute__", key)
  if (hookOf s self "__getattribute__").isSome then .unmodelled else
  if goSpecial.contains key then .unmodelled else
  -- a class object: its own MRO, bound with __get__(None, cls)
  let viaCls : Option RVal :=
    match self with
    | .cls c => if s.cmro c != [] then (lookup s (s.cmro c) key).map (fun v => descrGet v none c) else none
    | .inst _ => none
  match viaCls with
  | some r => .ok r
  | none =>
    -- instance dictionary
    match (s.dictOf self).get key with
    | some v => .ok (.raw v)
    | none =>
      -- the type's dictionary etc, __get__(self, t)
      let t := s.typeOf self
      match nativeGetAttrOrNil s t key with
      | some v => .ok (descrGet v (some self) t)
      | none =>
        -- TypeCall1(self, "__getattr__", key): Call(fn, (self, key))
        match hookOf s self "__getattr__" with
        | none => .error .attr
        | some (.func f) => .ok (.hooked f self key)
        | some (.plain _) => .error .type        -- 'str' object is not callable
        | some _ => .unmodelled                  -- a classmethod/staticmethod object as hook

/-- `SetAttrString(self, key, value)` -/
def setDict (s : State) (self : Ref) (f : Dict → Dict) : State :=
  match self with
  | .cls c => { s with classes := s.classes.modify c (fun o => { o with dict := f o.dict }) }
  | .inst i => { s with insts := s.insts.modify i (fun o => { o with dict := f o.dict }) }

def setAttrString (s : State) (self : Ref) (key : String) (v : Val) : Res State :=
  -- setter := self.Type().NativeGetAttrOrNil(key): only a *Property has M__set__; none is modelled
  -- TypeCall2(self, "__setattr__", key, value): the user function is called INSTEAD of storing
  match hookOf s self "__setattr__" with
  | none => .ok (setDict s self (fun d => d.set key v))
  | some (.func f) => .ok { s with log := s.log ++ [⟨f, self, key, some v⟩] }
  | some (.plain _) => .error .type
  | some _ => .unmodelled

/-- `DeleteAttrString(self, key)` -/
def deleteAttrString (s : State) (self : Ref) (key : String) : Res State :=
  if (hookOf s self "__delattr__").isSome then .unmodelled else
  match (s.dictOf self).get key with
  | some _ => .ok (setDict s self (fun d => d.del key))
  | none => .error .attr

/-- `Type.M__call__` → `ObjectNew` → `Alloc`, then `ObjectInit`: `t.GetAttrOrNil("__init__")` on the CLASS
(its dictionary, the metatype's dictionary, its MRO) and `Call(init, (self))` with the raw function.
The body of an `__init__` function with tag `f` is, by the convention of the generated cases,
`self.a = '<f>'` – one `SetAttrString` on the new instance (which may reach `__setattr__`). -/
def newInstance (s : State) (c : Nat) : Res State :=
  let i := s.insts.length
  let s' := { s with insts := s.insts ++ [{ cls := c, dict := [] }] }
  match getAttrOrNil s' (.cls c) "__init__" with
  | none => .ok s'
  | some (.func f) => setAttrString s' (.inst i) "a" (.plain f)
  | some (.plain _) => .error .type
  | some _ => .unmodelled

/-- builtin `isinstance(obj, cls)` for an instance `i` and a class `c` -/
def isInstance (s : State) (i : Nat) (c : Nat) : Bool := isSubtype s (s.typeOf (.inst i)) c

/-- builtin `isinstance(obj, a)` with a single second argument (after the round-2 fixes): a `*py.Type`
without MRO (an instance of a user class) is not a class -/
def isInstance1 (s : State) (i : Nat) : Ref → Except Err Bool
  | .cls c => .ok (isInstance s i c)
  | .inst _ => .error .type

/-- builtin `isinstance(obj, (a1, …, an))`: the `for idx := range class_tuple` loop; errors propagate -/
def isInstanceT (s : State) (i : Nat) : List Ref → Except Err Bool
  | [] => .ok false
  | a :: rest =>
    match isInstance1 s i a with
    | .error e => .error e
    | .ok true => .ok true
    | .ok false => isInstanceT s i rest

/-- `(*Type).IsSubtype` called through the Go API with an INSTANCE as receiver: `Mro` is nil, so the
`Base` chain is walked; `Alloc` set the instance's `Base` to its class (`b` is a class, so the first
comparison `a == b` fails) -/
def isSubtypeInst (s : State) (i : Nat) (b : Nat) : Bool :=
  baseChain s s.classes.length (s.typeOf (.inst i)) b

end GPy.C16
