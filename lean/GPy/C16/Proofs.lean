/-
C16 helper lemmas: facts about the C3 merge of the specification, the
simulation between `pmerge` (remain indices) and the merge, tables of
linearisations, and the refinement of the attribute algorithms.
Property theorems live in Props.lean.
-/
import GPy.C16.Model
import Mathlib.Data.List.Nodup
namespace GPy.C16

/-! ### the merge of the specification -/

theorem c3merge_eq (seqs : List (List Nat)) :
    c3merge seqs = if seqs.all List.isEmpty then some [] else
      match pick seqs with
      | none => none
      | some c => (c3merge (strike c seqs)).map (c :: ·) := by
  rw [c3merge]
  split
  · rfl
  · split <;> simp_all

theorem goodHead_iff {seqs : List (List Nat)} {c : Nat} :
    goodHead seqs c = true ↔ ∀ s ∈ seqs, c ∉ s.tail := by
  simp [goodHead]

theorem pick_good {seqs : List (List Nat)} {c : Nat} (h : pick seqs = some c) : goodHead seqs c = true := by
  unfold pick at h
  exact List.find?_some h

theorem pick_none {seqs : List (List Nat)} (h : pick seqs = none) :
    ∀ s ∈ seqs, ∀ c, s.head? = some c → goodHead seqs c = false := by
  intro s hs c hc
  unfold pick at h
  rw [List.find?_eq_none] at h
  have := h c (List.mem_filterMap.mpr ⟨s, hs, hc⟩)
  simpa using this

/-- striking a good head removes it where it is the head and changes nothing else -/
theorem filter_good {s : List Nat} {c : Nat} (h : c ∉ s.tail) :
    s.filter (· != c) = if s.head? = some c then s.tail else s := by
  cases s with
  | nil => simp
  | cons a t =>
    simp only [List.tail_cons] at h
    have ht : t.filter (· != c) = t := by
      rw [List.filter_eq_self]; intro x hx; simp; rintro rfl; exact h hx
    by_cases hac : a = c
    · subst hac; simp [ht]
    · simp [List.filter_cons, hac, ht]

theorem mem_strike {c : Nat} {seqs : List (List Nat)} {s' : List Nat} (h : s' ∈ strike c seqs) :
    ∃ s ∈ seqs, s' = s.filter (· != c) := by
  unfold strike at h
  obtain ⟨s, hs, rfl⟩ := List.mem_map.mp h
  exact ⟨s, hs, rfl⟩

theorem strike_mem {c : Nat} {seqs : List (List Nat)} {s : List Nat} (h : s ∈ seqs) :
    s.filter (· != c) ∈ strike c seqs := List.mem_map.mpr ⟨s, h, rfl⟩

/-- every input sequence is a sublist of the merge result -/
theorem c3merge_sublist : ∀ (seqs : List (List Nat)) (r : List Nat), c3merge seqs = some r →
    ∀ s ∈ seqs, s.Sublist r := by
  intro seqs
  induction seqs using c3merge.induct with
  | case1 x hx =>
    intro r hr s hs
    rw [c3merge_eq, if_pos hx] at hr
    have : s.isEmpty = true := (List.all_eq_true.mp hx) s hs
    rw [List.isEmpty_iff] at this
    subst this; exact List.nil_sublist _
  | case2 x hx hp =>
    intro r hr
    rw [c3merge_eq, if_neg hx, hp] at hr; cases hr
  | case3 x hx c hp ih =>
    intro r hr s hs
    rw [c3merge_eq, if_neg hx, hp] at hr
    simp only [Option.map_eq_some_iff] at hr
    obtain ⟨r', hr', rfl⟩ := hr
    have hsub := ih r' hr' _ (strike_mem (c := c) hs)
    have hgood := (goodHead_iff.mp (pick_good hp)) s hs
    rw [filter_good hgood] at hsub
    split at hsub
    · rename_i hh
      cases s with
      | nil => cases hh
      | cons a t =>
        simp only [List.head?_cons, Option.some.injEq] at hh
        subst hh
        exact List.cons_sublist_cons.mpr hsub
    · exact List.Sublist.cons _ hsub

/-- the merge result contains nothing but elements of the inputs -/
theorem c3merge_mem : ∀ (seqs : List (List Nat)) (r : List Nat), c3merge seqs = some r →
    ∀ x ∈ r, ∃ s ∈ seqs, x ∈ s := by
  intro seqs
  induction seqs using c3merge.induct with
  | case1 x hx =>
    intro r hr y hy
    rw [c3merge_eq, if_pos hx] at hr
    cases hr; cases hy
  | case2 x hx hp =>
    intro r hr
    rw [c3merge_eq, if_neg hx, hp] at hr; cases hr
  | case3 x hx c hp ih =>
    intro r hr y hy
    rw [c3merge_eq, if_neg hx, hp] at hr
    simp only [Option.map_eq_some_iff] at hr
    obtain ⟨r', hr', rfl⟩ := hr
    rcases List.mem_cons.mp hy with rfl | hy'
    · obtain ⟨s, hs, hh⟩ := pick_head hp
      exact ⟨s, hs, List.mem_of_mem_head? hh⟩
    · obtain ⟨s', hs', hys'⟩ := ih r' hr' y hy'
      obtain ⟨s, hs, rfl⟩ := mem_strike hs'
      exact ⟨s, hs, (List.mem_filter.mp hys').1⟩

/-- the merge result has no duplicates – for ANY input -/
theorem c3merge_nodup : ∀ (seqs : List (List Nat)) (r : List Nat), c3merge seqs = some r → r.Nodup := by
  intro seqs
  induction seqs using c3merge.induct with
  | case1 x hx =>
    intro r hr
    rw [c3merge_eq, if_pos hx] at hr
    cases hr; exact List.nodup_nil
  | case2 x hx hp =>
    intro r hr
    rw [c3merge_eq, if_neg hx, hp] at hr; cases hr
  | case3 x hx c hp ih =>
    intro r hr
    rw [c3merge_eq, if_neg hx, hp] at hr
    simp only [Option.map_eq_some_iff] at hr
    obtain ⟨r', hr', rfl⟩ := hr
    refine List.nodup_cons.mpr ⟨?_, ih r' hr'⟩
    intro hc
    obtain ⟨s', hs', hcs'⟩ := c3merge_mem _ _ hr' c hc
    obtain ⟨s, _, rfl⟩ := mem_strike hs'
    simpa using (List.mem_filter.mp hcs').2

/-- a common duplicate-free super-sequence of sequences that are not all empty
has a first element that is a legal candidate -/
theorem exists_good_head : ∀ (l : List Nat) (seqs : List (List Nat)), l.Nodup →
    (∀ s ∈ seqs, s.Sublist l) → (∃ s ∈ seqs, s ≠ []) →
    ∃ s ∈ seqs, ∃ c, s.head? = some c ∧ goodHead seqs c = true := by
  intro l
  induction l with
  | nil =>
    intro seqs _ hsub ⟨s, hs, hne⟩
    exact absurd (List.sublist_nil.mp (hsub s hs)) hne
  | cons x l' ih =>
    intro seqs hnd hsub hne
    obtain ⟨hxl, hnd'⟩ := List.nodup_cons.mp hnd
    by_cases hex : ∃ s ∈ seqs, s.head? = some x
    · obtain ⟨s, hs, hh⟩ := hex
      refine ⟨s, hs, x, hh, goodHead_iff.mpr ?_⟩
      intro sj hsj hmem
      have hj := hsub sj hsj
      cases sj with
      | nil => simp at hmem
      | cons a t =>
        simp only [List.tail_cons] at hmem
        have ht : t.Sublist l' := by
          rcases List.sublist_cons_iff.mp hj with h1 | ⟨r, hr, h2⟩
          · exact (List.sublist_cons_self a t).trans h1
          · cases hr; exact h2
        exact hxl (ht.subset hmem)
    · have hsub' : ∀ s ∈ seqs, s.Sublist l' := by
        intro s hs
        rcases List.sublist_cons_iff.mp (hsub s hs) with h1 | ⟨r, hr, _⟩
        · exact h1
        · exact absurd ⟨s, hs, by rw [hr]; rfl⟩ hex
      exact ih seqs hnd' hsub' hne

theorem not_all_empty {seqs : List (List Nat)} (h : ¬ seqs.all List.isEmpty = true) : ∃ s ∈ seqs, s ≠ [] := by
  simp only [List.all_eq_true, not_forall] at h
  obtain ⟨s, hs, hne⟩ := h
  exact ⟨s, hs, by intro h; subst h; simp at hne⟩

/-- the merge fails only when the inputs have no common duplicate-free super-sequence -/
theorem c3merge_none : ∀ (seqs : List (List Nat)), c3merge seqs = none →
    ¬ ∃ l : List Nat, l.Nodup ∧ ∀ s ∈ seqs, s.Sublist l := by
  intro seqs
  induction seqs using c3merge.induct with
  | case1 x hx =>
    intro hr
    rw [c3merge_eq, if_pos hx] at hr; cases hr
  | case2 x hx hp =>
    intro _ ⟨l, hnd, hsub⟩
    obtain ⟨s, hs, c, hh, hg⟩ := exists_good_head l x hnd hsub (not_all_empty hx)
    have := pick_none hp s hs c hh
    rw [hg] at this; cases this
  | case3 x hx c hp ih =>
    intro hr ⟨l, hnd, hsub⟩
    rw [c3merge_eq, if_neg hx, hp] at hr
    simp only [Option.map_eq_none_iff] at hr
    apply ih hr
    refine ⟨l.filter (· != c), hnd.filter _, ?_⟩
    intro s' hs'
    obtain ⟨s, hs, rfl⟩ := mem_strike hs'
    exact (hsub s hs).filter _

/-! ### `pmerge` simulates the merge -/

/-- the sequences that remain: `to_merge[i][remain[i]:]` -/
def absSt (st : MSt) : List (List Nat) := st.map (fun e => e.1.drop e.2)

theorem tailContains_eq (l : List Nat) (r c : Nat) : tailContains l r c = (l.drop r).tail.contains c := by
  simp [tailContains, List.tail_drop]

theorem absSt_cons (hd : List Nat × Nat) (tl : MSt) : absSt (hd :: tl) = List.drop hd.2 hd.1 :: absSt tl := rfl

theorem goodHead_cons (s : List Nat) (seqs : List (List Nat)) (c : Nat) :
    goodHead (s :: seqs) c = (!(s.tail.contains c) && goodHead seqs c) := rfl

theorem any_tailContains (all : MSt) (c : Nat) :
    all.any (fun j => tailContains j.1 j.2 c) = !goodHead (absSt all) c := by
  induction all with
  | nil => rfl
  | cons hd tl ih =>
    rw [List.any_cons, ih, absSt_cons, goodHead_cons, tailContains_eq]
    cases (List.drop hd.2 hd.1).tail.contains c <;> cases goodHead (absSt tl) c <;> rfl

theorem scan_fst (all : MSt) : ∀ (l : MSt) (e : Nat),
    (scan all l e).1 = ((absSt l).filterMap List.head?).find? (goodHead (absSt all)) := by
  intro l
  induction l with
  | nil => intro e; simp [scan, absSt]
  | cons hd tl ih =>
    intro e
    obtain ⟨cur, r⟩ := hd
    simp only [scan]
    split
    · rename_i hge
      rw [ih, absSt_cons]
      simp only [List.drop_eq_nil_of_le hge, List.filterMap_cons, List.head?_nil]
    · rename_i hlt
      have hlt' : r < cur.length := by omega
      have hd : List.drop r cur = cur[r] :: List.drop (r + 1) cur := List.drop_eq_getElem_cons hlt'
      have hget : cur[r]! = cur[r] := by simp [hlt']
      rw [hget, any_tailContains, absSt_cons]
      simp only [hd, List.filterMap_cons, List.head?_cons, List.find?_cons]
      by_cases hg : goodHead (absSt all) cur[r] = true
      · simp [hg]
      · have hg' : goodHead (absSt all) cur[r] = false := by simpa using hg
        simp [hg', ih]

theorem scan_snd (all : MSt) : ∀ (l : MSt) (e : Nat), (scan all l e).1 = none →
    (scan all l e).2 = e + (l.filter (fun j => decide (j.2 ≥ j.1.length))).length := by
  intro l
  induction l with
  | nil => intro e _; simp [scan]
  | cons hd tl ih =>
    intro e h
    obtain ⟨cur, r⟩ := hd
    simp only [scan] at h ⊢
    split
    · rename_i hge
      rw [if_pos hge] at h
      rw [ih _ h]
      simp [List.filter_cons, hge]; omega
    · rename_i hlt
      rw [if_neg hlt] at h
      split
      · rename_i hb
        rw [if_pos hb] at h
        rw [ih _ h]
        simp [List.filter_cons, hlt]
      · rename_i hb
        rw [if_neg hb] at h
        cases h

theorem all_empty_iff (st : MSt) :
    ((st.filter (fun j => decide (j.2 ≥ j.1.length))).length = st.length) ↔ (absSt st).all List.isEmpty = true := by
  induction st with
  | nil => simp [absSt]
  | cons hd tl ih =>
    have hle := List.length_filter_le (fun j : List Nat × Nat => decide (j.2 ≥ j.1.length)) tl
    rw [absSt_cons, List.all_cons, List.filter_cons]
    by_cases h : hd.2 ≥ hd.1.length
    · have hnil : List.drop hd.2 hd.1 = [] := List.drop_eq_nil_of_le h
      simp only [h, decide_true, if_true, List.length_cons, hnil, List.isEmpty_nil, Bool.true_and]
      rw [← ih]; omega
    · have hne : (List.drop hd.2 hd.1).isEmpty = false := by
        cases hd' : List.drop hd.2 hd.1 with
        | nil => rw [List.drop_eq_nil_iff] at hd'; omega
        | cons => rfl
      have hdec : decide (hd.2 ≥ hd.1.length) = false := by simp [h]
      rw [hdec, hne]
      simp only [Bool.false_eq_true, if_false, Bool.false_and, List.length_cons, iff_false]
      omega

theorem advance_abs (st : MSt) (c : Nat) (hg : goodHead (absSt st) c = true) :
    absSt (advance st c) = strike c (absSt st) := by
  have hg' := goodHead_iff.mp hg
  unfold absSt advance strike
  rw [List.map_map, List.map_map]
  apply List.map_congr_left
  intro j hj
  have hgj : c ∉ (List.drop j.2 j.1).tail := hg' _ (List.mem_map.mpr ⟨j, hj, rfl⟩)
  simp only [Function.comp]
  rw [filter_good hgj]
  by_cases hlt : j.2 < j.1.length
  · have hd : List.drop j.2 j.1 = j.1[j.2] :: List.drop (j.2 + 1) j.1 := List.drop_eq_getElem_cons hlt
    have hget : j.1[j.2]! = j.1[j.2] := by simp [hlt]
    rw [hget]
    by_cases heq : j.1[j.2] = c
    · have hcond : (decide (j.2 < j.1.length) && j.1[j.2] == c) = true := by simp [hlt, heq]
      rw [if_pos hcond, hd, List.head?_cons, heq, if_pos rfl, List.tail_cons]
    · have hcond : ¬ (decide (j.2 < j.1.length) && j.1[j.2] == c) = true := by simp [hlt, heq]
      rw [if_neg hcond, hd, List.head?_cons, if_neg (by simpa using heq)]
  · have hnil : List.drop j.2 j.1 = [] := List.drop_eq_nil_of_le (by omega)
    have hcond : ¬ (decide (j.2 < j.1.length) && j.1[j.2]! == c) = true := by simp [hlt]
    rw [if_neg hcond, hnil]; rfl

/-- `pmerge` computes the C3 merge: same result on success, TypeError exactly when the merge fails -/
theorem pmergeLoop_eq : ∀ (acc : List Nat) (st : MSt),
    pmergeLoop acc st = match c3merge (absSt st) with
      | some r => .ok (acc ++ r)
      | none => .error .type := by
  intro acc st
  induction acc, st using pmergeLoop.induct with
  | case1 acc st cand e hscan ih =>
    rw [pmergeLoop]
    split
    · rename_i c' e' hs
      rw [hscan] at hs
      simp only [Prod.mk.injEq, Option.some.injEq] at hs
      obtain ⟨rfl, rfl⟩ := hs
      rw [ih]
      have hfst := scan_fst st st 0
      rw [hscan] at hfst
      have hpick : pick (absSt st) = some cand := hfst.symm
      have hne : ¬ (absSt st).all List.isEmpty = true := by
        intro hall
        obtain ⟨s, hs, hh⟩ := pick_head hpick
        have := (List.all_eq_true.mp hall) s hs
        rw [List.isEmpty_iff] at this; subst this; cases hh
      rw [advance_abs st cand (pick_good hpick)]
      rw [c3merge_eq (absSt st), if_neg hne, hpick]
      show _ = match Option.map (fun x => cand :: x) (c3merge (strike cand (absSt st))) with
        | some r => Except.ok (acc ++ r)
        | none => Except.error Err.type
      generalize c3merge (strike cand (absSt st)) = o
      cases o <;> simp
    · rename_i e' hs
      rw [hscan] at hs; cases hs
  | case2 acc st e hscan he =>
    rw [pmergeLoop]
    split
    · rename_i c' e' hs
      rw [hscan] at hs; cases hs
    · rename_i e' hs
      rw [hscan] at hs
      simp only [Prod.mk.injEq, true_and] at hs
      subst hs
      rw [if_pos he]
      have hsnd := scan_snd st st 0 (by rw [hscan])
      rw [hscan] at hsnd
      simp only [Nat.zero_add] at hsnd
      have hall : (absSt st).all List.isEmpty = true := (all_empty_iff st).mp (by rw [← hsnd]; simpa using he)
      rw [c3merge_eq, if_pos hall]
      simp
  | case3 acc st e hscan he =>
    rw [pmergeLoop]
    split
    · rename_i c' e' hs
      rw [hscan] at hs; cases hs
    · rename_i e' hs
      rw [hscan] at hs
      simp only [Prod.mk.injEq, true_and] at hs
      subst hs
      rw [if_neg he]
      have hsnd := scan_snd st st 0 (by rw [hscan])
      rw [hscan] at hsnd
      simp only [Nat.zero_add] at hsnd
      have hall : ¬ (absSt st).all List.isEmpty = true := by
        intro h
        have := (all_empty_iff st).mpr h
        apply he; simp; omega
      have hfst := scan_fst st st 0
      rw [hscan] at hfst
      have hpick : pick (absSt st) = none := hfst.symm
      rw [c3merge_eq, if_neg hall, hpick]

theorem absSt_init (tm : List (List Nat)) : absSt (tm.map (fun l => (l, 0))) = tm := by
  induction tm with
  | nil => rfl
  | cons a t ih => simp only [List.map_cons, absSt_cons, List.drop_zero, ih]

theorem checkDuplicates_eq_hasDup (l : List Nat) : checkDuplicates l = hasDup l := by
  induction l with
  | nil => rfl
  | cons a t ih => simp [checkDuplicates, hasDup, ih]

theorem hasDup_false_iff (l : List Nat) : hasDup l = false ↔ l.Nodup := by
  induction l with
  | nil => simp [hasDup]
  | cons a t ih => simp [hasDup, List.nodup_cons, ih]

/-! ### tables of linearisations -/

/-- class `c` of the table is the C3 linearisation of its bases -/
def LinOK (H tbl : List (List Nat)) (c : Nat) : Prop :=
  (basesOf H c).Nodup ∧ (∀ b ∈ basesOf H c, b < c) ∧
  ∃ r, c3merge ((basesOf H c).map (linOf tbl) ++ [basesOf H c]) = some r ∧ linOf tbl c = c :: r

def GoodTable (H tbl : List (List Nat)) : Prop :=
  H.length = tbl.length ∧ ∀ c < tbl.length, LinOK H tbl c

theorem c3Step_some {tbl : List (List Nat)} {i : Nat} {written lin : List Nat}
    (h : c3Step tbl i written = some lin) :
    (effBases written).Nodup ∧ (∀ b ∈ effBases written, b < tbl.length) ∧
    ∃ r, c3merge ((effBases written).map (linOf tbl) ++ [effBases written]) = some r ∧ lin = i :: r := by
  unfold c3Step at h
  simp only at h
  split at h
  · cases h
  · rename_i hd
    split at h
    · cases h
    · rename_i hany
      simp only [Option.map_eq_some_iff] at h
      obtain ⟨r, hr, rfl⟩ := h
      refine ⟨(hasDup_false_iff _).mp (by simpa using hd), ?_, r, hr, rfl⟩
      intro b hb
      simp only [List.any_eq_true, not_exists, not_and] at hany
      have := hany b hb
      simpa using this

theorem linOf_append_lt {tbl : List (List Nat)} {lin : List Nat} {c : Nat} (h : c < tbl.length) :
    linOf (tbl ++ [lin]) c = linOf tbl c := by
  simp [linOf, List.getElem?_append_left h]

theorem linOf_append_eq (tbl : List (List Nat)) (lin : List Nat) : linOf (tbl ++ [lin]) tbl.length = lin := by
  simp [linOf]

theorem c3merge_builtin0 : c3merge ([] ++ [[]]) = some [] := by
  rw [c3merge_eq]; rfl

theorem c3merge_builtin1 : c3merge ([[0]] ++ [[0]]) = some [0] := by
  rw [c3merge_eq]
  have h1 : ([[0]] ++ [[0]] : List (List Nat)).all List.isEmpty = false := by decide
  have h2 : pick ([[0]] ++ [[0]]) = some 0 := by decide
  have h3 : strike 0 ([[0]] ++ [[0]]) = [[], []] := by decide
  simp only [h1, h2, h3, Bool.false_eq_true, if_false]
  rw [c3merge_eq]; rfl

theorem built_good {H tbl : List (List Nat)} (h : Built H tbl) : GoodTable H tbl := by
  induction h with
  | base =>
    refine ⟨rfl, ?_⟩
    intro c hc
    have : c = 0 ∨ c = 1 := by simp [builtinTable] at hc; omega
    rcases this with rfl | rfl
    · exact ⟨by simp [basesOf], by simp [basesOf], [], by simpa [basesOf] using c3merge_builtin0, rfl⟩
    · refine ⟨by simp [basesOf], by simp [basesOf], [0], ?_, rfl⟩
      simpa [basesOf, linOf, builtinTable] using c3merge_builtin1
  | @step H tbl written lin _ hstep ih =>
    obtain ⟨hlen, hok⟩ := ih
    obtain ⟨hnd, hlt, r, hr, hlin⟩ := c3Step_some hstep
    refine ⟨by simp [hlen], ?_⟩
    intro c hc
    simp only [List.length_append, List.length_singleton] at hc
    by_cases hc' : c < tbl.length
    · obtain ⟨h1, h2, r', hr', hl'⟩ := hok c hc'
      have hb : basesOf (H ++ [effBases written]) c = basesOf H c := by
        simp [basesOf, List.getElem?_append_left (hlen ▸ hc')]
      rw [LinOK, hb, linOf_append_lt hc']
      refine ⟨h1, h2, r', ?_, hl'⟩
      rw [← hr']
      congr 2
      apply List.map_congr_left
      intro b hb'
      exact linOf_append_lt (by have := h2 b hb'; omega)
    · have hceq : c = tbl.length := by omega
      subst hceq
      have hb : basesOf (H ++ [effBases written]) tbl.length = effBases written := by
        simp [basesOf, ← hlen]
      rw [LinOK, hb, linOf_append_eq]
      refine ⟨hnd, hlt, r, ?_, hlin⟩
      rw [← hr]
      congr 2
      apply List.map_congr_left
      intro b hb'
      exact linOf_append_lt (hlt b hb')

section table
variable {H tbl : List (List Nat)} (g : GoodTable H tbl)
include g

theorem good_head {c : Nat} (hc : c < tbl.length) : (linOf tbl c).head? = some c := by
  obtain ⟨_, _, r, _, hl⟩ := g.2 c hc
  rw [hl]; rfl

theorem good_self_mem {c : Nat} (hc : c < tbl.length) : c ∈ linOf tbl c := by
  obtain ⟨_, _, r, _, hl⟩ := g.2 c hc
  rw [hl]; exact List.mem_cons_self

theorem good_local_precedence {c : Nat} (hc : c < tbl.length) : (basesOf H c).Sublist (linOf tbl c).tail := by
  obtain ⟨_, _, r, hr, hl⟩ := g.2 c hc
  rw [hl]
  exact c3merge_sublist _ _ hr _ (by simp)

theorem good_monotone {c b : Nat} (hc : c < tbl.length) (hb : b ∈ basesOf H c) :
    (linOf tbl b).Sublist (linOf tbl c).tail := by
  obtain ⟨_, _, r, hr, hl⟩ := g.2 c hc
  rw [hl]
  exact c3merge_sublist _ _ hr _ (by simp; exact Or.inl ⟨b, hb, rfl⟩)

theorem good_mem_iff {c : Nat} (hc : c < tbl.length) (x : Nat) :
    x ∈ linOf tbl c ↔ x = c ∨ ∃ b ∈ basesOf H c, x ∈ linOf tbl b := by
  obtain ⟨_, hlt, r, hr, hl⟩ := g.2 c hc
  constructor
  · intro hx
    rw [hl] at hx
    rcases List.mem_cons.mp hx with rfl | hx'
    · exact Or.inl rfl
    · right
      obtain ⟨s, hs, hxs⟩ := c3merge_mem _ _ hr x hx'
      rcases List.mem_append.mp hs with hs1 | hs2
      · obtain ⟨b, hb, rfl⟩ := List.mem_map.mp hs1
        exact ⟨b, hb, hxs⟩
      · simp only [List.mem_singleton] at hs2
        subst hs2
        exact ⟨x, hxs, good_self_mem g (by have := hlt x hxs; omega)⟩
  · rintro (rfl | ⟨b, hb, hxb⟩)
    · exact good_self_mem g hc
    · exact (List.tail_sublist _).subset ((good_monotone g hc hb).subset hxb)

theorem good_bound : ∀ (c : Nat), c < tbl.length → ∀ x ∈ linOf tbl c, x ≤ c := by
  intro c
  induction c using Nat.strongRecOn with
  | _ c ih =>
    intro hc x hx
    rcases (good_mem_iff g hc x).mp hx with rfl | ⟨b, hb, hxb⟩
    · exact Nat.le_refl _
    · have hbc := (g.2 c hc).2.1 b hb
      have := ih b hbc (by omega) x hxb
      omega

theorem good_nodup {c : Nat} (hc : c < tbl.length) : (linOf tbl c).Nodup := by
  obtain ⟨_, hlt, r, hr, hl⟩ := g.2 c hc
  rw [hl]
  refine List.nodup_cons.mpr ⟨?_, c3merge_nodup _ _ hr⟩
  intro hcr
  have hmem : c ∈ linOf tbl c := good_self_mem g hc
  obtain ⟨s, hs, hcs⟩ := c3merge_mem _ _ hr c hcr
  rcases List.mem_append.mp hs with hs1 | hs2
  · obtain ⟨b, hb, rfl⟩ := List.mem_map.mp hs1
    have hbc := hlt b hb
    have := good_bound g b (by omega) c hcs
    omega
  · simp only [List.mem_singleton] at hs2
    subst hs2
    have := hlt c hcs
    omega

theorem good_complete : ∀ (c : Nat), c < tbl.length → ∀ x, x ∈ linOf tbl c ↔ Anc (basesOf H) c x := by
  intro c
  induction c using Nat.strongRecOn with
  | _ c ih =>
    intro hc x
    constructor
    · intro hx
      rcases (good_mem_iff g hc x).mp hx with rfl | ⟨b, hb, hxb⟩
      · exact Anc.refl _
      · have hbc := (g.2 c hc).2.1 b hb
        exact Anc.step hb ((ih b hbc (by omega) x).mp hxb)
    · intro ha
      cases ha with
      | refl => exact good_self_mem g hc
      | step hb hrest =>
        rename_i b
        have hbc := (g.2 c hc).2.1 b hb
        exact (good_mem_iff g hc x).mpr (Or.inr ⟨b, hb, (ih b hbc (by omega) x).mpr hrest⟩)

end table

/-- a class is rejected exactly when a base is repeated, or is not a class defined before,
or no duplicate-free order extends the linearisations of all bases and the written base order -/
theorem c3Step_none_iff (tbl : List (List Nat)) (i : Nat) (written : List Nat) :
    c3Step tbl i written = none ↔
      (¬ (effBases written).Nodup ∨ (∃ b ∈ effBases written, b ≥ tbl.length) ∨
       ¬ ∃ l : List Nat, l.Nodup ∧ ∀ s ∈ (effBases written).map (linOf tbl) ++ [effBases written], s.Sublist l) := by
  unfold c3Step
  simp only
  split
  · rename_i hd
    have : ¬ (effBases written).Nodup := by
      rw [← hasDup_false_iff]; simp [hd]
    simp [this]
  · rename_i hd
    have hnd : (effBases written).Nodup := (hasDup_false_iff _).mp (by simpa using hd)
    split
    · rename_i hany
      simp only [List.any_eq_true, decide_eq_true_eq] at hany
      simp only [true_iff]
      exact Or.inr (Or.inl hany)
    · rename_i hany
      simp only [List.any_eq_true, decide_eq_true_eq] at hany
      simp only [Option.map_eq_none_iff, hnd, not_true_eq_false, hany, false_or]
      constructor
      · exact c3merge_none _
      · intro hno
        cases hm : c3merge (List.map (fun b => tbl[b]?.getD []) (effBases written) ++ [effBases written]) with
        | none => rfl
        | some r =>
          exact absurd ⟨r, c3merge_nodup _ _ hm, c3merge_sublist _ _ hm⟩ hno

/-! ### the model builds the table of the specification -/

/-- hierarchy (base lists) and table of stored MROs of a model state -/
def State.H (s : State) : List (List Nat) := s.classes.map (·.bases)
def State.T (s : State) : List (List Nat) := s.classes.map (·.mro)

theorem cmro_eq_linOf (s : State) (c : Nat) : s.cmro c = linOf s.T c := by
  simp [State.cmro, linOf, State.T, List.getElem?_map]

theorem effBases_eq (w : List Nat) : (if (w.length == 0) = true then [0] else w) = effBases w := by
  unfold effBases; cases w <;> simp

/-- the class the model allocates for accepted bases -/
def newClass (w : List Nat) (lin : List Nat) (d : Dict) : TObj :=
  { typ := 1, bases := effBases w, base := (effBases w).head?, mro := lin, dict := d }

theorem typeNew_eq (s : State) (w : List Nat) (d : Dict) (hb : ∀ b ∈ effBases w, b < s.classes.length) :
    typeNew s w d = match c3Step s.T s.T.length w with
      | some lin => .ok { s with classes := s.classes ++ [newClass w lin d] }
      | none => .error .type := by
  have hlen : s.T.length = s.classes.length := by simp [State.T]
  unfold typeNew mroImplementation c3Step pmerge
  simp only [effBases_eq, checkDuplicates_eq_hasDup]
  cases hd : hasDup (effBases w)
  · have hany : (effBases w).any (fun b => decide (b ≥ s.T.length)) = false := by
      rw [List.any_eq_false]; intro b hb'; have := hb b hb'; simp; omega
    simp only [Bool.false_eq_true, if_false, hany]
    rw [pmergeLoop_eq, absSt_init]
    have hmap : List.map s.cmro (effBases w) = List.map (fun b => s.T[b]?.getD []) (effBases w) := by
      apply List.map_congr_left; intro b _; exact cmro_eq_linOf s b
    rw [hmap]
    cases c3merge (List.map (fun b => s.T[b]?.getD []) (effBases w) ++ [effBases w]) with
    | none => rfl
    | some r => simp [newClass, hlen]
  · simp

/-! ### attribute access refines the per-object namespaces of the specification -/

/-- what the property observes of a read result -/
def absR : RVal → SVal
  | .raw (.plain t) => .value t
  | .raw (.func t) => .call t none
  | .raw (.cmeth t) => .descr (.cmeth t)
  | .raw (.smeth t) => .descr (.smeth t)
  | .bound self fn => .call fn (some self)
  | .hooked fn self key => .hookResult fn self key

/-- the Python-level state a model state stands for -/
structure Rel (s : State) (S : SState) : Prop where
  mro : ∀ c, S.mro c = s.cmro c
  cls : ∀ i, S.clsOf i = s.typeOf (.inst i)
  ns : ∀ r n, S.ns r n = (s.dictOf r).get n

theorem absR_descrGet (v : Val) (inst : Option Ref) (owner : Nat) :
    absR (descrGet v inst owner) = bind v inst owner := by
  cases v <;> cases inst <;> rfl

theorem absR_raw (v : Val) : absR (.raw v) = unbound v := by cases v <;> rfl

theorem lookup_eq_firstDef {s : State} {S : SState} (h : Rel s S) (lin : List Nat) (n : String) :
    lookup s lin n = firstDef S lin n := by
  induction lin with
  | nil => rfl
  | cons b rest ih =>
    have hns : S.ns (.cls b) n = (s.cdict b).get n := h.ns (.cls b) n
    unfold firstDef at *
    rw [lookup, List.filterMap_cons, hns]
    cases (s.cdict b).get n with
    | none => exact ih
    | some v => rfl

theorem native_eq_lookup (s : State) (c : Nat) (n : String) (hh : (s.cmro c).head? = some c) :
    nativeGetAttrOrNil s c n = lookup s (s.cmro c) n := by
  unfold nativeGetAttrOrNil
  cases hm : s.cmro c with
  | nil => rw [hm] at hh; cases hh
  | cons a rest =>
    rw [hm] at hh
    simp only [List.head?_cons, Option.some.injEq] at hh
    subst hh
    rw [lookup]
    cases (s.cdict a).get n <;> rfl

/-- names that make `GetAttrString`/`SetAttrString`/`DeleteAttrString`/instance creation leave the model -/
def hookNames : List String := ["__getattribute__", "__getattr__", "__setattr__", "__delattr__", "__init__"]

/-- no dictionary of the state defines a hook -/
def NoHooks (s : State) : Prop := ∀ (r : Ref) (h : String), h ∈ hookNames → (s.dictOf r).get h = none

theorem lookup_none_of_dicts (s : State) (lin : List Nat) (n : String) (h : ∀ c, (s.cdict c).get n = none) :
    lookup s lin n = none := by
  induction lin with
  | nil => rfl
  | cons b rest ih => rw [lookup, h b]; exact ih

theorem getAttrOrNil_hook {s : State} (hn : NoHooks s) (r : Ref) {h : String} (hh : h ∈ hookNames) :
    getAttrOrNil s r h = none := by
  have hc : ∀ c, (s.cdict c).get h = none := fun c => hn (.cls c) h hh
  unfold getAttrOrNil
  rw [hn r h hh, hc, lookup_none_of_dicts s _ h hc]

theorem hookOf_none {s : State} (hn : NoHooks s) (r : Ref) {h : String} (hh : h ∈ hookNames) :
    hookOf s r h = none := by
  have hc : ∀ c, (s.cdict c).get h = none := fun c => hn (.cls c) h hh
  unfold hookOf nativeGetAttrOrNil
  rw [hc, lookup_none_of_dicts s _ h hc]

/-- result of the model's read against the result the specification defines -/
def Agrees (m : Res RVal) (sp : SRes SVal) : Prop :=
  match m with
  | .ok v => sp = .ok (absR v)
  | .error .attr => sp = .attrError
  | .error .type => False
  | .unmodelled => False

theorem getAttr_inst {s : State} {S : SState} (h : Rel s S) (hn : NoHooks s) (i : Nat) (key : String)
    (hkey : key ∉ goSpecial) (hhead : (s.cmro (s.typeOf (.inst i))).head? = some (s.typeOf (.inst i))) :
    Agrees (getAttrString s (.inst i) key) (specRead S (.inst i) key) := by
  have hk : goSpecial.contains key = false := by simpa using hkey
  unfold getAttrString specRead
  simp only [hookOf_none hn _ (by decide : "__getattribute__" ∈ hookNames),
    hookOf_none hn _ (by decide : "__getattr__" ∈ hookNames), Option.isSome_none, Bool.false_eq_true, if_false, hk]
  rw [h.ns (.inst i) key, h.cls i, h.mro, ← lookup_eq_firstDef h, native_eq_lookup s _ key hhead]
  cases (s.dictOf (.inst i)).get key with
  | some v => simp [Agrees, absR_raw]
  | none =>
    cases lookup s (s.cmro (s.typeOf (.inst i))) key with
    | some v => simp [Agrees, absR_descrGet]
    | none => simp [Agrees]

theorem getAttr_cls {s : State} {S : SState} (h : Rel s S) (hn : NoHooks s) (c : Nat) (key : String)
    (hkey : key ∉ goSpecial) (hhead : (s.cmro c).head? = some c)
    (hmeta : nativeGetAttrOrNil s (s.typeOf (.cls c)) key = none) :
    Agrees (getAttrString s (.cls c) key) (specRead S (.cls c) key) := by
  have hk : goSpecial.contains key = false := by simpa using hkey
  have hne : (s.cmro c != []) = true := by
    cases hm : s.cmro c with
    | nil => rw [hm] at hhead; cases hhead
    | cons => rfl
  unfold getAttrString specRead
  simp only [hookOf_none hn _ (by decide : "__getattribute__" ∈ hookNames),
    hookOf_none hn _ (by decide : "__getattr__" ∈ hookNames), Option.isSome_none, Bool.false_eq_true, if_false, hk, hne, if_true]
  rw [h.mro, ← lookup_eq_firstDef h]
  cases hl : lookup s (s.cmro c) key with
  | some v => simp [Agrees, absR_descrGet]
  | none =>
    have hown : (s.dictOf (.cls c)).get key = none := by
      have := native_eq_lookup s c key hhead
      rw [hl] at this
      unfold nativeGetAttrOrNil at this
      show (s.cdict c).get key = none
      cases hg : (s.cdict c).get key with
      | none => rfl
      | some v => rw [hg] at this; cases this
    simp [Agrees, hown, hmeta]

/-! writes and deletes -/

theorem lookup_filter_ne (d : Dict) (k k' : String) :
    List.lookup k' (d.filter (fun e => e.1 != k)) = if k' = k then none else List.lookup k' d := by
  induction d with
  | nil => simp
  | cons e rest ih =>
    obtain ⟨a, b⟩ := e
    by_cases hak : a = k
    · subst hak
      simp only [List.filter_cons, bne_self_eq_false, Bool.false_eq_true, if_false, ih, List.lookup_cons]
      by_cases hk : k' = a
      · simp [hk]
      · have : (k' == a) = false := by simpa using hk
        simp [hk, this]
    · have hne : (a != k) = true := by simpa using hak
      simp only [List.filter_cons, hne, if_true, List.lookup_cons, ih]
      by_cases hk : k' = k
      · subst hk
        have : (k' == a) = false := by simpa using (fun h : k' = a => hak h.symm)
        simp [this]
      · simp [hk]

theorem Dict.get_set (d : Dict) (k : String) (v : Val) (k' : String) :
    (d.set k v).get k' = if k' = k then some v else d.get k' := by
  unfold Dict.set Dict.get
  rw [List.lookup_cons, lookup_filter_ne]
  by_cases hk : k' = k
  · simp [hk]
  · have : (k' == k) = false := by simpa using hk
    simp [hk, this]

theorem Dict.get_del (d : Dict) (k : String) (k' : String) :
    (d.del k).get k' = if k' = k then none else d.get k' := lookup_filter_ne d k k'

/-- the object exists -/
def Valid (s : State) : Ref → Prop
  | .cls c => c < s.classes.length
  | .inst i => i < s.insts.length

theorem dictOf_setDict (s : State) (r : Ref) (f : Dict → Dict) (hv : Valid s r) (r' : Ref) :
    (setDict s r f).dictOf r' = if r' = r then f (s.dictOf r) else s.dictOf r' := by
  cases r with
  | cls c =>
    cases r' with
    | cls c' =>
      simp only [setDict, State.dictOf, State.cdict, List.getElem?_modify, Ref.cls.injEq]
      have hv' : c < s.classes.length := hv
      by_cases hcc : c' = c
      · subst hcc; simp [List.getElem?_eq_getElem hv']
      · have : ¬ c = c' := fun h => hcc h.symm
        cases s.classes[c']? <;> simp [hcc, this]
    | inst i' => simp [setDict, State.dictOf]
  | inst i =>
    cases r' with
    | cls c' => simp [setDict, State.dictOf, State.cdict]
    | inst i' =>
      simp only [setDict, State.dictOf, List.getElem?_modify, Ref.inst.injEq]
      have hv' : i < s.insts.length := hv
      by_cases hii : i' = i
      · subst hii; simp [List.getElem?_eq_getElem hv']
      · have : ¬ i = i' := fun h => hii h.symm
        cases s.insts[i']? <;> simp [hii, this]

theorem cmro_setDict (s : State) (r : Ref) (f : Dict → Dict) (c : Nat) : (setDict s r f).cmro c = s.cmro c := by
  cases r with
  | cls c0 =>
    simp only [setDict, State.cmro, List.getElem?_modify]
    cases s.classes[c]? with
    | none => rfl
    | some o => by_cases h : c0 = c <;> simp [h]
  | inst i => rfl

theorem typeOf_setDict (s : State) (r : Ref) (f : Dict → Dict) (r' : Ref) : (setDict s r f).typeOf r' = s.typeOf r' := by
  cases r with
  | cls c0 =>
    cases r' with
    | cls c =>
      simp only [setDict, State.typeOf, List.getElem?_modify]
      cases s.classes[c]? with
      | none => rfl
      | some o => by_cases h : c0 = c <;> simp [h]
    | inst i => rfl
  | inst i0 =>
    cases r' with
    | cls c => rfl
    | inst i =>
      simp only [setDict, State.typeOf, List.getElem?_modify]
      cases s.insts[i]? with
      | none => rfl
      | some o => by_cases h : i0 = i <;> simp [h]

theorem rel_set {s : State} {S : SState} (h : Rel s S) (r : Ref) (hv : Valid s r) (k : String) (v : Val) :
    Rel (setDict s r (fun d => d.set k v)) (specWrite S r k v) := by
  refine ⟨fun c => ?_, fun i => ?_, fun r' n => ?_⟩
  · rw [cmro_setDict]; exact h.mro c
  · rw [typeOf_setDict]; exact h.cls i
  · rw [dictOf_setDict s r _ hv r']
    simp only [specWrite, setNs]
    by_cases hr : r' = r
    · subst hr
      rw [if_pos rfl, Dict.get_set]
      by_cases hn : n = k
      · simp [hn]
      · simp [hn, h.ns]
    · simp [hr, h.ns]

theorem rel_del {s : State} {S : SState} (h : Rel s S) (r : Ref) (hv : Valid s r) (k : String) :
    Rel (setDict s r (fun d => d.del k)) { S with ns := setNs S.ns r k none } := by
  refine ⟨fun c => ?_, fun i => ?_, fun r' n => ?_⟩
  · rw [cmro_setDict]; exact h.mro c
  · rw [typeOf_setDict]; exact h.cls i
  · rw [dictOf_setDict s r _ hv r']
    simp only [setNs]
    by_cases hr : r' = r
    · subst hr
      rw [if_pos rfl, Dict.get_del]
      by_cases hn : n = k
      · simp [hn]
      · simp [hn, h.ns]
    · simp [hr, h.ns]

theorem noHooks_set {s : State} (hn : NoHooks s) (r : Ref) (hv : Valid s r) (k : String) (v : Val)
    (hk : k ∉ hookNames) : NoHooks (setDict s r (fun d => d.set k v)) := by
  intro r' h hh
  rw [dictOf_setDict s r _ hv r']
  by_cases hr : r' = r
  · subst hr
    rw [if_pos rfl, Dict.get_set]
    have : h ≠ k := fun e => hk (e ▸ hh)
    simp [this, hn r' h hh]
  · simp [hr, hn r' h hh]

theorem noHooks_del {s : State} (hn : NoHooks s) (r : Ref) (hv : Valid s r) (k : String) :
    NoHooks (setDict s r (fun d => d.del k)) := by
  intro r' h hh
  rw [dictOf_setDict s r _ hv r']
  by_cases hr : r' = r
  · subst hr
    rw [if_pos rfl, Dict.get_del]
    split <;> simp [hn r' h hh]
  · simp [hr, hn r' h hh]

/-! ### histories of reads, writes and deletes -/

inductive AOp where
  | get (r : Ref) (k : String)
  | set (r : Ref) (k : String) (v : Val)
  | del (r : Ref) (k : String)

def AOp.ref : AOp → Ref
  | .get r _ => r | .set r _ _ => r | .del r _ => r
def AOp.key : AOp → String
  | .get _ k => k | .set _ k _ => k | .del _ k => k

inductive Obs where
  | read (x : SRes SVal)
  | done
  | attrError
deriving DecidableEq

/-- the history as Python defines it: per-object namespaces, reads through the linearisation -/
def runSpec (S : SState) : List AOp → List Obs
  | [] => []
  | .get r k :: rest => .read (specRead S r k) :: runSpec S rest
  | .set r k v :: rest => .done :: runSpec (specWrite S r k v) rest
  | .del r k :: rest =>
    match specDelete S r k with
    | .ok S' => .done :: runSpec S' rest
    | _ => .attrError :: runSpec S rest

def obsOf : Res RVal → Option Obs
  | .ok v => some (.read (.ok (absR v)))
  | .error .attr => some (.read .attrError)
  | _ => none

/-- the history on the model of the Go code (`none` = an operation left the model) -/
def runModel (s : State) : List AOp → Option (List Obs)
  | [] => some []
  | .get r k :: rest =>
    match obsOf (getAttrString s r k), runModel s rest with
    | some o, some os => some (o :: os)
    | _, _ => none
  | .set r k v :: rest =>
    match setAttrString s r k v with
    | .ok s' => (runModel s' rest).map (Obs.done :: ·)
    | _ => none
  | .del r k :: rest =>
    match deleteAttrString s r k with
    | .ok s' => (runModel s' rest).map (Obs.done :: ·)
    | .error _ => (runModel s rest).map (Obs.attrError :: ·)
    | .unmodelled => none

/-- shape of a state made of `object`, `type`, user classes with metatype `type` and their instances -/
structure Shape (s : State) : Prop where
  two : 2 ≤ s.classes.length
  heads : ∀ c, c < s.classes.length → (s.cmro c).head? = some c
  instCls : ∀ i, i < s.insts.length → s.typeOf (.inst i) < s.classes.length
  metaT : ∀ c, s.typeOf (.cls c) = 1
  typeMro : s.cmro 1 = [1, 0]
  objDict : s.cdict 0 = []
  typeDict : s.cdict 1 = []

/-- an operation the theorems speak about: on an existing user class or instance, name not a dunder hook -/
def OpOK (s : State) (op : AOp) : Prop :=
  Valid s op.ref ∧ op.ref ≠ .cls 0 ∧ op.ref ≠ .cls 1 ∧ op.key ∉ goSpecial ∧ op.key ∉ hookNames

theorem valid_setDict {s : State} (r : Ref) (f : Dict → Dict) (r' : Ref) : Valid (setDict s r f) r' ↔ Valid s r' := by
  cases r <;> cases r' <;> simp [Valid, setDict, List.length_modify]

theorem shape_setDict {s : State} (hs : Shape s) (r : Ref) (hv : Valid s r) (h0 : r ≠ .cls 0) (h1 : r ≠ .cls 1)
    (f : Dict → Dict) : Shape (setDict s r f) := by
  have hlenC : (setDict s r f).classes.length = s.classes.length := by cases r <;> simp [setDict, List.length_modify]
  have hlenI : (setDict s r f).insts.length = s.insts.length := by cases r <;> simp [setDict, List.length_modify]
  refine ⟨by rw [hlenC]; exact hs.two, ?_, ?_, ?_, ?_, ?_, ?_⟩
  · intro c hc; rw [cmro_setDict]; exact hs.heads c (hlenC ▸ hc)
  · intro i hi; rw [typeOf_setDict, hlenC]; exact hs.instCls i (hlenI ▸ hi)
  · intro c; rw [typeOf_setDict]; exact hs.metaT c
  · rw [cmro_setDict]; exact hs.typeMro
  · show (setDict s r f).dictOf (.cls 0) = []
    rw [dictOf_setDict s r f hv, if_neg (Ne.symm h0)]; exact hs.objDict
  · show (setDict s r f).dictOf (.cls 1) = []
    rw [dictOf_setDict s r f hv, if_neg (Ne.symm h1)]; exact hs.typeDict

theorem meta_none {s : State} (hs : Shape s) (c : Nat) (key : String) :
    nativeGetAttrOrNil s (s.typeOf (.cls c)) key = none := by
  rw [hs.metaT c]
  unfold nativeGetAttrOrNil
  rw [hs.typeMro, lookup, lookup, lookup, hs.typeDict, hs.objDict]
  rfl

theorem agrees_obs {m : Res RVal} {sp : SRes SVal} (h : Agrees m sp) : obsOf m = some (.read sp) := by
  cases m with
  | ok v => simp only [Agrees] at h; subst h; rfl
  | error e => cases e <;> simp only [Agrees] at h; subst h; rfl
  | unmodelled => cases h

theorem read_agrees {s : State} {S : SState} (h : Rel s S) (hn : NoHooks s) (hs : Shape s) (r : Ref) (k : String)
    (hv : Valid s r) (hk : k ∉ goSpecial) : Agrees (getAttrString s r k) (specRead S r k) := by
  cases r with
  | cls c => exact getAttr_cls h hn c k hk (hs.heads c hv) (meta_none hs c k)
  | inst i => exact getAttr_inst h hn i k hk (hs.heads _ (hs.instCls i hv))

/-- **refinement**: every history of reads, writes and deletes on classes and instances gives on the
model of the Go code exactly the observations Python's per-object namespaces give -/
theorem runModel_eq_runSpec : ∀ (ops : List AOp) (s : State) (S : SState), Rel s S → NoHooks s → Shape s →
    (∀ op ∈ ops, OpOK s op) → runModel s ops = some (runSpec S ops) := by
  intro ops
  induction ops with
  | nil => intros; rfl
  | cons op rest ih =>
    intro s S h hn hs hops
    obtain ⟨hv, h0, h1, hk, hhook⟩ := hops op List.mem_cons_self
    have hrest : ∀ op' ∈ rest, OpOK s op' := fun op' ho => hops op' (List.mem_cons_of_mem _ ho)
    cases op with
    | get r k =>
      have ha := agrees_obs (read_agrees h hn hs r k hv hk)
      simp only [runModel, runSpec, ha, ih s S h hn hs hrest]
    | set r k v =>
      have hset : setAttrString s r k v = .ok (setDict s r (fun d => d.set k v)) := by
        unfold setAttrString
        simp [hookOf_none hn r (by decide : "__setattr__" ∈ hookNames)]
      have hrest' : ∀ op' ∈ rest, OpOK (setDict s r (fun d => d.set k v)) op' := by
        intro op' ho
        obtain ⟨a, b⟩ := hrest op' ho
        exact ⟨(valid_setDict r _ _).mpr a, b⟩
      simp only [runModel, runSpec, hset]
      rw [ih _ _ (rel_set h r hv k v) (noHooks_set hn r hv k v hhook) (shape_setDict hs r hv h0 h1 _) hrest']
      rfl
    | del r k =>
      have hns : S.ns r k = (s.dictOf r).get k := h.ns r k
      cases hg : (s.dictOf r).get k with
      | some v =>
        have hdel : deleteAttrString s r k = .ok (setDict s r (fun d => d.del k)) := by
          unfold deleteAttrString
          simp [hookOf_none hn r (by decide : "__delattr__" ∈ hookNames), hg]
        have hrest' : ∀ op' ∈ rest, OpOK (setDict s r (fun d => d.del k)) op' := by
          intro op' ho
          obtain ⟨a, b⟩ := hrest op' ho
          exact ⟨(valid_setDict r _ _).mpr a, b⟩
        simp only [runModel, runSpec, hdel, specDelete, hns, hg]
        rw [ih _ _ (rel_del h r hv k) (noHooks_del hn r hv k) (shape_setDict hs r hv h0 h1 _) hrest']
        rfl
      | none =>
        have hdel : deleteAttrString s r k = .error .attr := by
          unfold deleteAttrString
          simp [hookOf_none hn r (by decide : "__delattr__" ∈ hookNames), hg]
        simp only [runModel, runSpec, hdel, specDelete, hns, hg]
        rw [ih s S h hn hs hrest]
        rfl

/-- `isinstance` walks the stored MRO, which holds exactly the ancestors -/
theorem isInstance_iff {s : State} (hB : Built s.H s.T) (i : Nat) (hi : s.typeOf (.inst i) < s.classes.length) (c : Nat) :
    isInstance s i c = true ↔ Anc (basesOf s.H) (s.typeOf (.inst i)) c := by
  have hlen : s.T.length = s.classes.length := by simp [State.T]
  have g := built_good hB
  have hi' : s.typeOf (.inst i) < s.T.length := by omega
  rw [← good_complete g _ hi' c, ← cmro_eq_linOf]
  unfold isInstance isSubtype
  have hne : (s.cmro (s.typeOf (.inst i))).length ≠ 0 := by
    have := good_self_mem g hi'
    rw [← cmro_eq_linOf] at this
    intro h0
    rw [List.length_eq_zero_iff] at h0
    rw [h0] at this; cases this
  simp [hne]

end GPy.C16
