/-
C16 property theorems: attribute lookup follows the instance, then the C3 MRO;
methods bind correctly; a hierarchy without a consistent linearisation is rejected.

Every theorem is universally quantified: over all lists of sequences (merge
level), over all finite hierarchies built class by class with any number of
classes and bases (`Built H tbl`), over all model states and attribute names
(lookup level).  Helper lemmas are in Proofs.lean.
-/
import GPy.C16.Hooks
namespace GPy.C16

/-! ### `pmerge` (py/type.go) is the C3 merge -/

/-- `pmerge(acc, to_merge)` appends the C3 merge of `to_merge` to `acc`, and raises
TypeError exactly when the merge of the specification fails – for every input. -/
theorem pmerge_eq_c3 (acc : List Nat) (toMerge : List (List Nat)) :
    pmerge acc toMerge = match c3merge toMerge with
      | some r => .ok (acc ++ r)
      | none => .error .type := by
  unfold pmerge
  rw [pmergeLoop_eq, absSt_init]
  cases c3merge toMerge <;> rfl

/-- every input sequence (each base's MRO, and the base list) is a sublist of the merge -/
theorem c3_merge_sublist (seqs : List (List Nat)) (r : List Nat) (h : c3merge seqs = some r) :
    ∀ s ∈ seqs, s.Sublist r := c3merge_sublist seqs r h

/-- the merge never repeats a class, whatever the inputs -/
theorem c3_merge_nodup (seqs : List (List Nat)) (r : List Nat) (h : c3merge seqs = some r) : r.Nodup :=
  c3merge_nodup seqs r h

/-- the merge contains exactly the members of the inputs -/
theorem c3_merge_mem_iff (seqs : List (List Nat)) (r : List Nat) (h : c3merge seqs = some r) (x : Nat) :
    x ∈ r ↔ ∃ s ∈ seqs, x ∈ s :=
  ⟨c3merge_mem seqs r h x, fun ⟨s, hs, hx⟩ => (c3merge_sublist seqs r h s hs).subset hx⟩

/-- the merge fails **iff** no duplicate-free list has every input as a sublist -/
theorem c3_merge_reject_iff (seqs : List (List Nat)) :
    c3merge seqs = none ↔ ¬ ∃ l : List Nat, l.Nodup ∧ ∀ s ∈ seqs, s.Sublist l := by
  constructor
  · exact c3merge_none seqs
  · intro hno
    cases hm : c3merge seqs with
    | none => rfl
    | some r => exact absurd ⟨r, c3merge_nodup _ _ hm, c3merge_sublist _ _ hm⟩ hno

/-- the same for the Go function: `pmerge` raises TypeError iff the inputs have no
common duplicate-free super-sequence -/
theorem pmerge_reject_iff (acc : List Nat) (toMerge : List (List Nat)) :
    pmerge acc toMerge = .error .type ↔ ¬ ∃ l : List Nat, l.Nodup ∧ ∀ s ∈ toMerge, s.Sublist l := by
  rw [pmerge_eq_c3, ← c3_merge_reject_iff]
  cases c3merge toMerge <;> simp

example : c3merge [[2, 0], [3, 0], [2, 3]] ≠ none := by
  rw [Ne, c3_merge_reject_iff]; exact fun h => h ⟨[2, 3, 0], by decide, by decide⟩

/-! ### the linearisation of every accepted hierarchy (any number of classes and bases) -/

section hierarchy
variable {H tbl : List (List Nat)} (hb : Built H tbl) {c : Nat} (hc : c < tbl.length)
include hb hc

/-- the class comes first -/
theorem c3_head : (linOf tbl c).head? = some c := good_head (built_good hb) hc

/-- no class appears twice -/
theorem c3_nodup : (linOf tbl c).Nodup := good_nodup (built_good hb) hc

/-- the linearisation holds exactly the ancestors-or-self of the class -/
theorem c3_complete (x : Nat) : x ∈ linOf tbl c ↔ Anc (basesOf H) c x := good_complete (built_good hb) c hc x

/-- local precedence order: the direct bases keep their written order -/
theorem c3_local_precedence : (basesOf H c).Sublist (linOf tbl c).tail := good_local_precedence (built_good hb) hc

/-- monotonicity: the linearisation of every direct base is a sublist -/
theorem c3_monotone {b : Nat} (hbase : b ∈ basesOf H c) : (linOf tbl b).Sublist (linOf tbl c) :=
  (good_monotone (built_good hb) hc hbase).trans (List.tail_sublist _)

end hierarchy

/-- the diamond `K2; K3(K2); K4(K2); K5(K3,K4)` is an accepted hierarchy (hypotheses are satisfiable) -/
theorem c3_diamond_witness :
    ∃ tbl, Built [[], [0], [0], [2], [2], [3, 4]] tbl ∧ linOf tbl 5 = [5, 3, 4, 2, 0] := by
  have s2 : c3Step builtinTable 2 [] = some [2, 0] := by
    simp [c3Step, effBases, hasDup, builtinTable, c3merge_eq, pick, goodHead, strike]
  have s3 : c3Step (builtinTable ++ [[2, 0]]) 3 [2] = some [3, 2, 0] := by
    simp [c3Step, effBases, hasDup, builtinTable, c3merge_eq, pick, goodHead, strike]
  have s4 : c3Step (builtinTable ++ [[2, 0]] ++ [[3, 2, 0]]) 4 [2] = some [4, 2, 0] := by
    simp [c3Step, effBases, hasDup, builtinTable, c3merge_eq, pick, goodHead, strike]
  have s5 : c3Step (builtinTable ++ [[2, 0]] ++ [[3, 2, 0]] ++ [[4, 2, 0]]) 5 [3, 4] = some [5, 3, 4, 2, 0] := by
    simp [c3Step, effBases, hasDup, builtinTable, c3merge_eq, pick, goodHead, strike]
  exact ⟨_, Built.step (Built.step (Built.step (Built.step Built.base s2) s3) s4) s5, rfl⟩

/-- a class statement is rejected **iff** a base is repeated, or is not an earlier class, or no
duplicate-free order extends every base's linearisation and the written base order -/
theorem c3_reject_iff (tbl : List (List Nat)) (i : Nat) (written : List Nat) :
    c3Step tbl i written = none ↔
      (¬ (effBases written).Nodup ∨ (∃ b ∈ effBases written, b ≥ tbl.length) ∨
       ¬ ∃ l : List Nat, l.Nodup ∧ ∀ s ∈ (effBases written).map (linOf tbl) ++ [effBases written], s.Sublist l) :=
  c3Step_none_iff tbl i written

/-- `class K(object, K2)` is rejected -/
theorem c3_reject_witness : c3Step (builtinTable ++ [[2, 0]]) 3 [0, 2] = none := by
  simp [c3Step, effBases, hasDup, builtinTable, c3merge_eq, pick, goodHead, strike]

/-! ### the Go code stores exactly that linearisation -/

/-- `TypeNew`/`Ready`/`mro_internal`/`mro_implementation`: the new class gets the C3
linearisation of the specification as its stored `Mro`, and the class statement
fails with TypeError exactly when the specification rejects it. -/
theorem mro_eq_c3 (s : State) (w : List Nat) (d : Dict) (hbases : ∀ b ∈ effBases w, b < s.classes.length) :
    typeNew s w d = match c3Step s.T s.T.length w with
      | some lin => .ok { s with classes := s.classes ++ [newClass w lin d] }
      | none => .error .type := typeNew_eq s w d hbases

/-- class creation keeps the state's hierarchy an accepted hierarchy with its C3 table -/
theorem typeNew_preserves_built (s s' : State) (w : List Nat) (d : Dict)
    (hbases : ∀ b ∈ effBases w, b < s.classes.length) (hB : Built s.H s.T) (h : typeNew s w d = .ok s') :
    Built s'.H s'.T := by
  rw [typeNew_eq s w d hbases] at h
  cases hstep : c3Step s.T s.T.length w with
  | none => rw [hstep] at h; cases h
  | some lin =>
    rw [hstep] at h
    simp only [Except.ok.injEq] at h
    subst h
    simpa [State.H, State.T, newClass] using Built.step hB hstep

theorem init_built : Built State.init.H State.init.T := Built.base

/-! ### attribute reads: instance namespace first, then the first definition along the MRO -/

/-- the Python-level state a model state stands for (per-object namespaces, linearisations, classes of instances) -/
def absState (s : State) : SState :=
  { mro := s.cmro, clsOf := fun i => s.typeOf (.inst i), ns := fun r n => (s.dictOf r).get n }

theorem rel_absState (s : State) : Rel s (absState s) := ⟨fun _ => rfl, fun _ => rfl, fun _ _ => rfl⟩

/-- `GetAttrString` on an instance: the instance's own attribute first (unbound), otherwise the first
definition along the MRO of its class, bound to the instance; AttributeError when there is none. -/
theorem lookup_spec (s : State) (hn : NoHooks s) (hs : Shape s) (i : Nat) (hi : i < s.insts.length)
    (key : String) (hkey : key ∉ goSpecial) :
    Agrees (getAttrString s (.inst i) key) (specRead (absState s) (.inst i) key) :=
  read_agrees (rel_absState s) hn hs (.inst i) key hi hkey

/-- `GetAttrString` on a class object: the first definition along the class's OWN linearisation
(not the metatype's), bound with no instance – holds after the `fix:` commits of this kernel. -/
theorem class_lookup_spec (s : State) (hn : NoHooks s) (hs : Shape s) (c : Nat) (hc : c < s.classes.length)
    (key : String) (hkey : key ∉ goSpecial) :
    Agrees (getAttrString s (.cls c) key) (specRead (absState s) (.cls c) key) :=
  read_agrees (rel_absState s) hn hs (.cls c) key hc hkey

/-- binding rules: what `M__get__` builds is what Python's descriptor protocol defines -/
theorem bind_spec (v : Val) (inst : Option Ref) (owner : Nat) : absR (descrGet v inst owner) = bind v inst owner :=
  absR_descrGet v inst owner

/-- a plain function found on the class binds the instance; read on the class it stays a function -/
theorem bind_function (t : String) (r : Ref) (owner : Nat) :
    absR (descrGet (.func t) (some r) owner) = .call t (some r) ∧ absR (descrGet (.func t) none owner) = .call t none :=
  ⟨rfl, rfl⟩

/-- a classmethod binds the class, through an instance or through the class -/
theorem bind_classmethod (t : String) (inst : Option Ref) (owner : Nat) :
    absR (descrGet (.cmeth t) inst owner) = .call t (some (.cls owner)) := by cases inst <;> rfl

/-- a staticmethod binds nothing -/
theorem bind_staticmethod (t : String) (inst : Option Ref) (owner : Nat) :
    absR (descrGet (.smeth t) inst owner) = .call t none := by cases inst <;> rfl

/-- **writes and deletes are local to the object; class attributes are shared until shadowed**:
for EVERY history of reads/writes/deletes on user classes and instances, the Go algorithms give the
observations of Python's per-object namespaces read through the C3 linearisation. -/
theorem write_local (ops : List AOp) (s : State) (hn : NoHooks s) (hs : Shape s) (hops : ∀ op ∈ ops, OpOK s op) :
    runModel s ops = some (runSpec (absState s) ops) :=
  runModel_eq_runSpec ops s (absState s) (rel_absState s) hn hs hops

/-- isinstance ⇔ the class is an ancestor-or-self of the instance's class -/
theorem isinstance_iff_ancestor (s : State) (hB : Built s.H s.T) (i : Nat)
    (hi : s.typeOf (.inst i) < s.classes.length) (c : Nat) :
    isInstance s i c = true ↔ Anc (basesOf s.H) (s.typeOf (.inst i)) c := isInstance_iff hB i hi c

/-! ### round 2: `Shape`, `NoHooks` and `Built` are invariants – the lookup theorems hold in EVERY reachable state -/

/-- a class statement keeps the `Shape` hypothesis -/
theorem typeNew_preserves_shape {s s' : State} {w : List Nat} {d : Dict} (hs : Shape s)
    (hb : ∀ b ∈ effBases w, b < s.classes.length) (h : typeNew s w d = .ok s') : Shape s' := shape_typeNew hs hb h

/-- a class statement whose body defines no hook keeps the `NoHooks` hypothesis -/
theorem typeNew_preserves_noHooks {s s' : State} {w : List Nat} {d : Dict} (hn : NoHooks s) (hd : DictNoHooks d)
    (hb : ∀ b ∈ effBases w, b < s.classes.length) (h : typeNew s w d = .ok s') : NoHooks s' := noHooks_typeNew hn hd hb h

/-- `K()` keeps both hypotheses, and (without hooks) always succeeds -/
theorem newInstance_preserves {s s' : State} {c : Nat} (hs : Shape s) (hn : NoHooks s) (hc : c < s.classes.length)
    (h : newInstance s c = .ok s') : Shape s' ∧ NoHooks s' := by
  have := newInstance_ok hn h
  subst this
  exact ⟨shape_addInst hs hc, noHooks_addInst hn c⟩

theorem newInstance_total {s : State} (hn : NoHooks s) (c : Nat) : ∃ s', newInstance s c = .ok s' :=
  ⟨_, newInstance_noHooks hn c⟩

/-- every state reached from the interpreter's start by class statements, instantiations, attribute writes
and deletes satisfies every hypothesis of the lookup theorems, and its stored MROs are the C3 table of its hierarchy -/
theorem reachable_invariants {s : State} (h : Reachable s) : Shape s ∧ NoHooks s ∧ Built s.H s.T ∧ BaseHead s :=
  reachable_inv h

/-- **attribute reads in every reachable state** (no hypothesis on the state other than reachability):
the object's own attribute first, otherwise the first definition along the stored MRO of its class, bound per kind -/
theorem reachable_lookup_spec {s : State} (h : Reachable s) (r : Ref) (hv : Valid s r) (key : String)
    (hkey : key ∉ goSpecial) : Agrees (getAttrString s r key) (specRead (absState s) r key) :=
  read_agrees (rel_absState s) (reachable_inv h).2.1 (reachable_inv h).1 r key hv hkey

/-- the Python-level state whose linearisations are those of the table `tbl` -/
def c3State (s : State) (tbl : List (List Nat)) : SState :=
  { mro := linOf tbl, clsOf := fun i => s.typeOf (.inst i), ns := fun r n => (s.dictOf r).get n }

/-- **lookup follows the instance, then C3** – `lookup_spec` packaged with `mro_eq_c3`: in every reachable state
the hierarchy has exactly one table of C3 linearisations (`Built`, the specification's class-by-class
acceptance), and every attribute read agrees with Python's rule evaluated over THAT table. -/
theorem reachable_lookup_c3 {s : State} (h : Reachable s) :
    ∃ tbl, Built s.H tbl ∧ (∀ tbl', Built s.H tbl' → tbl' = tbl) ∧
      ∀ (r : Ref) (key : String), Valid s r → key ∉ goSpecial →
        Agrees (getAttrString s r key) (specRead (c3State s tbl) r key) := by
  obtain ⟨hs, hn, hB, _⟩ := reachable_inv h
  refine ⟨s.T, hB, fun tbl' h' => built_unique h' hB, fun r key hv hkey => ?_⟩
  have : c3State s s.T = absState s := by
    unfold c3State absState
    congr 1
    funext c; exact (cmro_eq_linOf s c).symm
  rw [this]
  exact read_agrees (rel_absState s) hn hs r key hv hkey

/-- `write_local` in every reachable state -/
theorem reachable_write_local {s : State} (h : Reachable s) (ops : List AOp) (hops : ∀ op ∈ ops, OpOK s op) :
    runModel s ops = some (runSpec (absState s) ops) :=
  write_local ops s (reachable_inv h).2.1 (reachable_inv h).1 hops

/-- `isinstance` in every reachable state -/
theorem reachable_isinstance_iff {s : State} (h : Reachable s) (i : Nat) (hi : i < s.insts.length) (c : Nat) :
    isInstance s i c = true ↔ Anc (basesOf s.H) (s.typeOf (.inst i)) c :=
  isInstance_iff (reachable_inv h).2.2.1 i ((reachable_inv h).1.instCls i hi) c

/-- the diamond `K2; K3(K2); K4(K2); K5(K3, K4)` as the model builds it -/
def diamondState : State :=
  { classes := State.init.classes ++ [newClass [] [2, 0] [], newClass [2] [3, 2, 0] [], newClass [2] [4, 2, 0] [],
      newClass [3, 4] [5, 3, 4, 2, 0] []], insts := [] }

theorem diamond_reachable : Reachable diamondState := by
  have nh : DictNoHooks [] := fun _ _ => rfl
  have e2 : typeNew State.init [] [] = .ok (State.init.addClass (newClass [] [2, 0] [])) := by
    rw [mro_eq_c3 _ _ _ (by decide)]
    have : c3Step State.init.T State.init.T.length [] = some [2, 0] := by
      simp [c3Step, effBases, hasDup, State.init, State.T, c3merge_eq, pick, goodHead, strike]
    rw [this]; rfl
  have r2 := Reachable.cls [] [] Reachable.init (by decide) nh e2
  have e3 : typeNew (State.init.addClass (newClass [] [2, 0] [])) [2] []
      = .ok ((State.init.addClass (newClass [] [2, 0] [])).addClass (newClass [2] [3, 2, 0] [])) := by
    rw [mro_eq_c3 _ _ _ (by decide)]
    have : c3Step (State.init.addClass (newClass [] [2, 0] [])).T (State.init.addClass (newClass [] [2, 0] [])).T.length [2]
        = some [3, 2, 0] := by
      simp [c3Step, effBases, hasDup, State.init, State.addClass, newClass, State.T, c3merge_eq, pick, goodHead, strike]
    rw [this]; rfl
  have r3 := Reachable.cls [2] [] r2 (by decide) nh e3
  have e4 : typeNew ((State.init.addClass (newClass [] [2, 0] [])).addClass (newClass [2] [3, 2, 0] [])) [2] []
      = .ok (((State.init.addClass (newClass [] [2, 0] [])).addClass (newClass [2] [3, 2, 0] [])).addClass (newClass [2] [4, 2, 0] [])) := by
    rw [mro_eq_c3 _ _ _ (by decide)]
    have : c3Step ((State.init.addClass (newClass [] [2, 0] [])).addClass (newClass [2] [3, 2, 0] [])).T
        ((State.init.addClass (newClass [] [2, 0] [])).addClass (newClass [2] [3, 2, 0] [])).T.length [2] = some [4, 2, 0] := by
      simp [c3Step, effBases, hasDup, State.init, State.addClass, newClass, State.T, c3merge_eq, pick, goodHead, strike]
    rw [this]; rfl
  have r4 := Reachable.cls [2] [] r3 (by decide) nh e4
  have e5 : typeNew (((State.init.addClass (newClass [] [2, 0] [])).addClass (newClass [2] [3, 2, 0] [])).addClass (newClass [2] [4, 2, 0] [])) [3, 4] []
      = .ok diamondState := by
    rw [mro_eq_c3 _ _ _ (by decide)]
    have : c3Step (((State.init.addClass (newClass [] [2, 0] [])).addClass (newClass [2] [3, 2, 0] [])).addClass (newClass [2] [4, 2, 0] [])).T
        (((State.init.addClass (newClass [] [2, 0] [])).addClass (newClass [2] [3, 2, 0] [])).addClass (newClass [2] [4, 2, 0] [])).T.length [3, 4]
        = some [5, 3, 4, 2, 0] := by
      simp [c3Step, effBases, hasDup, State.init, State.addClass, newClass, State.T, c3merge_eq, pick, goodHead, strike]
    rw [this]; rfl
  exact Reachable.cls [3, 4] [] r4 (by decide) nh e5

/-! ### the `Base`-chain branch of `IsSubtype` -/

/-- on a class object of a reachable state `IsSubtype` never walks the `Base` chain: it is the
membership test on the stored MRO (the chain is taken only for receivers without MRO, i.e. instances
handed to `IsSubtype` through the Go API) -/
theorem isSubtype_never_baseChain {s : State} (h : Reachable s) {a : Nat} (ha : a < s.classes.length) (b : Nat) :
    isSubtype s a b = (s.cmro a).contains b := isSubtype_eq_mro (reachable_inv h).1 ha b

/-- where the `Base` chain is walked it reports ancestors only (sound for every fuel) … -/
theorem baseChain_sound {s : State} (h : Reachable s) (fuel a b : Nat) (ha : a < s.classes.length)
    (hc : baseChain s fuel a b = true) : Anc (basesOf s.H) a b :=
  baseChain_anc (reachable_inv h).2.2.1 (reachable_inv h).2.2.2 b fuel a ha hc

/-- … but not all of them: it follows first bases only.  In the diamond `K5(K3, K4)` the second base `K4`
is an ancestor that the chain misses (`isSubtype`, which reads the MRO, finds it). -/
theorem baseChain_incomplete_witness :
    ∃ s, Reachable s ∧ baseChain s s.classes.length 5 4 = false ∧ isSubtype s 5 4 = true ∧ Anc (basesOf s.H) 5 4 := by
  have hr : Reachable diamondState := diamond_reachable
  exact ⟨diamondState, hr, by decide, by decide, Anc.step (b := 4) (by decide) (Anc.refl 4)⟩

/-! non-vacuity: the state after `class K2: a = f; i0 = K2()` satisfies every hypothesis above -/

def demoState : State :=
  { classes := State.init.classes ++ [newClass [] [2, 0] [("a", .func "K2.a")]], insts := [{ cls := 2, dict := [] }] }

theorem demo_from_code : typeNew State.init [] [("a", .func "K2.a")] = .ok { demoState with insts := [] } := by
  rw [mro_eq_c3 _ _ _ (by decide)]
  have : c3Step State.init.T State.init.T.length [] = some [2, 0] := by
    simp [c3Step, effBases, hasDup, State.init, State.T, c3merge_eq, pick, goodHead, strike]
  rw [this]; rfl

theorem demo_shape : Shape demoState := by
  refine ⟨by decide, ?_, ?_, ?_, rfl, rfl, rfl⟩
  · intro c hc
    have : c = 0 ∨ c = 1 ∨ c = 2 := by simp [demoState, State.init] at hc; omega
    rcases this with rfl | rfl | rfl <;> rfl
  · intro i hi
    have : i = 0 := by simp [demoState] at hi; omega
    subst this; decide
  · intro c
    match c with
    | 0 => rfl
    | 1 => rfl
    | 2 => rfl
    | c + 3 => rfl

theorem demo_noHooks : NoHooks demoState := by
  intro r h hh
  cases r with
  | cls c =>
    match c with
    | 0 => rfl
    | 1 => rfl
    | 2 =>
      simp only [hookNames, List.mem_cons, List.not_mem_nil, or_false] at hh
      rcases hh with rfl | rfl | rfl | rfl | rfl <;> decide
    | c + 3 => rfl
  | inst i =>
    match i with
    | 0 => rfl
    | i + 1 => rfl

/-- the function defined in the class body, read through the instance, is bound to the instance;
after `i0.a = w` the instance shadows it while the class still sees the function -/
theorem demo_history :
    runModel demoState [.get (.inst 0) "a", .set (.inst 0) "a" (.plain "w"), .get (.inst 0) "a", .get (.cls 2) "a"]
      = some [.read (.ok (.call "K2.a" (some (.inst 0)))), .done, .read (.ok (.value "w")), .read (.ok (.call "K2.a" none))] := by
  decide

/-- the demo state is reachable: `class K2: a = f` then `K2()` -/
theorem demo_reachable : Reachable demoState := by
  have h1 : Reachable { demoState with insts := [] } :=
    Reachable.cls [] [("a", .func "K2.a")] Reachable.init (by decide)
      (by intro h hh; simp only [hookNames, List.mem_cons, List.not_mem_nil, or_false] at hh
          rcases hh with rfl | rfl | rfl | rfl | rfl <;> decide) demo_from_code
  exact Reachable.inst 2 h1 (by decide) (by decide) (newInstance_noHooks (reachable_inv h1).2.1 2)

/-! ### round 2 (model widening): user hooks are found on the TYPE of the object, along its MRO -/

/-- **attribute reads with `__getattr__`** in every state reachable when class bodies may define the hooks
`__getattr__`/`__setattr__`/`__init__`: ordinary lookup first (instance, then C3 MRO, bound per kind); only when
that fails the `__getattr__` found along the MRO of the INSTANCE'S CLASS is called with `(instance, name)` – also when
it is inherited; a read on a CLASS object never reaches the hooks its body defines (holds after the round-2 `fix:`). -/
theorem reachableH_lookup_spec {s : State} (h : ReachableH s) (r : Ref) (hv : Valid s r) (key : String)
    (hkey : key ∉ goSpecial) : AgreesH (getAttrString s r key) (specReadH (absState s) r key) :=
  readH_agrees (rel_absState s) (reachableH_inv h).shape (reachableH_inv h).dicts r key hv hkey

/-- **writes with `__setattr__`**: `obj.k = v` on an instance whose class (or a base along its MRO) defines
`__setattr__` calls that function with `(instance, k, v)` INSTEAD of storing; on a class object, and without a hook,
the write goes to the object's own namespace only. -/
theorem setattr_hook_spec {s : State} (h : ReachableH s) (r : Ref) (hv : Valid s r) (k : String) (v : Val) :
    StepAgrees (setAttrString s r k v) (specWriteH (absState s) s.log r k v) :=
  setAttrH_spec (rel_absState s) (reachableH_inv h).shape (reachableH_inv h).dicts r hv k v

/-- **instantiation with `__init__`**: `K()` makes a fresh instance with an empty namespace and runs the
`__init__` found along the MRO of `K` (own or inherited) on it; its write goes through `__setattr__` like any other. -/
theorem init_hook_spec {s : State} (h : ReachableH s) (c : Nat) (hc : c < s.classes.length) :
    StepAgrees (newInstance s c) (specInit (absState (s.addInst { cls := c, dict := [] })) s.log s.insts.length) :=
  newInstanceH_spec (reachableH_inv h).shape (reachableH_inv h).dicts c hc (rel_absState _)

/-- the invariants (incl. the C3 table) hold in every state reachable with hooks; the hook-free reachable states are among them -/
theorem reachableH_invariants {s : State} (h : ReachableH s) : Shape s ∧ ClsDictsOK s ∧ Built s.H s.T :=
  ⟨(reachableH_inv h).shape, (reachableH_inv h).dicts, (reachableH_inv h).built⟩

/-- `IsSubtype` called through the Go API with an INSTANCE as receiver (no MRO: the `Base` chain is walked,
`Alloc` having set the instance's `Base` to its class) reports only ancestors of the instance's class -/
theorem isSubtypeInst_sound {s : State} (h : ReachableH s) {i : Nat} (hi : i < s.insts.length) (b : Nat)
    (hc : isSubtypeInst s i b = true) : Anc (basesOf s.H) (s.typeOf (.inst i)) b :=
  baseChain_anc (reachableH_inv h).built (reachableH_inv h).baseHead b _ _ ((reachableH_inv h).shape.instCls i hi) hc

theorem reachable_sub_reachableH {s : State} (h : Reachable s) : ReachableH s := reachable_reachableH h

/-- without hooks the hook-aware specification is the plain one -/
theorem specReadH_noHooks (S : SState) (r : Ref) (name : String) (hn : specHook S r "__getattr__" = none) :
    specReadH S r name = specRead S r name := by
  unfold specReadH
  rw [hn]
  cases specRead S r name <;> rfl

/-! ### isinstance with a tuple -/

/-- `isinstance(i, (a1, …, an))`: left to right, True at the first class that is an ancestor-or-self of the
instance's class, TypeError at the first element reached that is not a class, False otherwise
(holds after the round-2 `fix:` commits: errors were swallowed, instances were accepted as classes). -/
theorem isinstance_tuple_spec {s : State} (h : ReachableH s) {i : Nat} (hi : i < s.insts.length) (args : List Ref) :
    AgreesB (isInstanceT s i args) (specIsInstanceT (absState s) i args) :=
  isInstanceT_agrees (reachableH_inv h).shape hi args

/-- for a tuple of classes: True iff SOME element is an ancestor-or-self of the instance's class -/
theorem isinstance_tuple_iff {s : State} (h : ReachableH s) {i : Nat} (hi : i < s.insts.length) (cs : List Nat) :
    isInstanceT s i (cs.map Ref.cls) = .ok true ↔ ∃ c ∈ cs, Anc (basesOf s.H) (s.typeOf (.inst i)) c := by
  have hB := (reachableH_inv h).built
  have hc := (reachableH_inv h).shape.instCls i hi
  induction cs with
  | nil => simp [isInstanceT]
  | cons c rest ih =>
    have hiff := isInstance_iff hB i hc c
    simp only [List.map_cons, isInstanceT, isInstance1, List.mem_cons, exists_eq_or_imp]
    cases hb : isInstance s i c with
    | true => simp [hiff.mp hb]
    | false =>
      have : ¬ Anc (basesOf s.H) (s.typeOf (.inst i)) c := fun ha => by rw [hiff.mpr ha] at hb; cases hb
      simp [this, ih]

/-! ### non-vacuity for the hooks: `class K2: a = 'v'; def __getattr__…; def __setattr__…; def __init__…` and `class K3(K2): pass` -/

def hookState0 : State :=
  { classes := State.init.classes ++ [newClass [] [2, 0] [("__init__", .func "K2.__init__"), ("__setattr__", .func "K2.__setattr__"),
      ("__getattr__", .func "K2.__getattr__")], newClass [2] [3, 2, 0] []], insts := [] }

theorem hookState0_reachable : ReachableH hookState0 := by
  have ok : DictHooksOK [("__init__", .func "K2.__init__"), ("__setattr__", .func "K2.__setattr__"), ("__getattr__", .func "K2.__getattr__")] := by
    refine ⟨fun h hh => ?_, fun h hh v hv => ?_⟩
    · simp only [badHooks, List.mem_cons, List.not_mem_nil, or_false] at hh
      rcases hh with rfl | rfl <;> decide
    · simp only [userHooks, List.mem_cons, List.not_mem_nil, or_false] at hh
      rcases hh with rfl | rfl | rfl <;> (simp [Dict.get, List.lookup] at hv; subst hv; trivial)
  have e2 : typeNew State.init [] [("__init__", .func "K2.__init__"), ("__setattr__", .func "K2.__setattr__"), ("__getattr__", .func "K2.__getattr__")]
      = .ok (State.init.addClass (newClass [] [2, 0] [("__init__", .func "K2.__init__"), ("__setattr__", .func "K2.__setattr__"), ("__getattr__", .func "K2.__getattr__")])) := by
    rw [mro_eq_c3 _ _ _ (by decide)]
    have : c3Step State.init.T State.init.T.length [] = some [2, 0] := by
      simp [c3Step, effBases, hasDup, State.init, State.T, c3merge_eq, pick, goodHead, strike]
    rw [this]; rfl
  have r2 := ReachableH.cls [] _ ReachableH.init (by decide) ok e2
  have e3 : typeNew (State.init.addClass (newClass [] [2, 0] [("__init__", .func "K2.__init__"), ("__setattr__", .func "K2.__setattr__"), ("__getattr__", .func "K2.__getattr__")])) [2] []
      = .ok hookState0 := by
    rw [mro_eq_c3 _ _ _ (by decide)]
    have : c3Step (State.init.addClass (newClass [] [2, 0] [("__init__", .func "K2.__init__"), ("__setattr__", .func "K2.__setattr__"), ("__getattr__", .func "K2.__getattr__")])).T
        (State.init.addClass (newClass [] [2, 0] [("__init__", .func "K2.__init__"), ("__setattr__", .func "K2.__setattr__"), ("__getattr__", .func "K2.__getattr__")])).T.length [2] = some [3, 2, 0] := by
      simp [c3Step, effBases, hasDup, State.init, State.addClass, newClass, State.T, c3merge_eq, pick, goodHead, strike]
    rw [this]; rfl
  exact ReachableH.cls [2] [] r2 (by decide) dictHooksOK_nil e3

/-- `K3()` runs the INHERITED `__init__`, whose write is intercepted by the INHERITED `__setattr__`; reading a
missing name on the instance reaches the inherited `__getattr__`; reading it on the class `K3` is an AttributeError -/
theorem hook_inherited_witness :
    ∃ s', newInstance hookState0 3 = .ok s' ∧
      s'.log = [⟨"K2.__setattr__", .inst 0, "a", some (.plain "K2.__init__")⟩] ∧
      (∃ v, getAttrString s' (.inst 0) "z" = .ok v ∧ v = .hooked "K2.__getattr__" (.inst 0) "z") ∧
      (∃ e, getAttrString s' (.cls 3) "z" = .error e ∧ e = .attr) := by
  refine ⟨{ hookState0 with insts := [{ cls := 3, dict := [] }], log := [⟨"K2.__setattr__", .inst 0, "a", some (.plain "K2.__init__")⟩] }, ?_, rfl, ?_, ?_⟩
  · rfl
  · exact ⟨_, rfl, rfl⟩
  · exact ⟨_, rfl, rfl⟩

end GPy.C16
