/-
C16 property theorems: attribute lookup follows the instance, then the C3 MRO;
methods bind correctly; a hierarchy without a consistent linearisation is rejected.

Every theorem is universally quantified: over all lists of sequences (merge
level), over all finite hierarchies built class by class with any number of
classes and bases (`Built H tbl`), over all model states and attribute names
(lookup level).  Helper lemmas are in Proofs.lean.
-/
import GPy.C16.Proofs
namespace GPy.C16

/-! ### `pmerge` (py/type.go) is the C3 merge -/

/-- `pmerge(acc, to_merge)` appends the C3 merge of `to_merge` to `acc`, and raises
TypeError exactly when the merge of the specification fails – for every input. -/
theorem pmerge_eq_c3 (acc : List Nat) (toMerge : List (List Nat)) :
    pmerge acc toMerge = match c3merge toMerge with
      | some r => .ok (acc ++ r)
      | none => .error .type := by
  unfold pmerge
  rw [pmergeLoop_eq, absSt_init]
  cases c3merge toMerge <;> rfl

/-- every input sequence (each base's MRO, and the base list) is a sublist of the merge -/
theorem c3_merge_sublist (seqs : List (List Nat)) (r : List Nat) (h : c3merge seqs = some r) :
    ∀ s ∈ seqs, s.Sublist r := c3merge_sublist seqs r h

/-- the merge never repeats a class, whatever the inputs -/
theorem c3_merge_nodup (seqs : List (List Nat)) (r : List Nat) (h : c3merge seqs = some r) : r.Nodup :=
  c3merge_nodup seqs r h

/-- the merge contains exactly the members of the inputs -/
theorem c3_merge_mem_iff (seqs : List (List Nat)) (r : List Nat) (h : c3merge seqs = some r) (x : Nat) :
    x ∈ r ↔ ∃ s ∈ seqs, x ∈ s :=
  ⟨c3merge_mem seqs r h x, fun ⟨s, hs, hx⟩ => (c3merge_sublist seqs r h s hs).subset hx⟩

/-- the merge fails **iff** no duplicate-free list has every input as a sublist -/
theorem c3_merge_reject_iff (seqs : List (List Nat)) :
    c3merge seqs = none ↔ ¬ ∃ l : List Nat, l.Nodup ∧ ∀ s ∈ seqs, s.Sublist l := by
  constructor
  · exact c3merge_none seqs
  · intro hno
    cases hm : c3merge seqs with
    | none => rfl
    | some r => exact absurd ⟨r, c3merge_nodup _ _ hm, c3merge_sublist _ _ hm⟩ hno

/-- the same for the Go function: `pmerge` raises TypeError iff the inputs have no
common duplicate-free super-sequence -/
theorem pmerge_reject_iff (acc : List Nat) (toMerge : List (List Nat)) :
    pmerge acc toMerge = .error .type ↔ ¬ ∃ l : List Nat, l.Nodup ∧ ∀ s ∈ toMerge, s.Sublist l := by
  rw [pmerge_eq_c3, ← c3_merge_reject_iff]
  cases c3merge toMerge <;> simp

example : c3merge [[2, 0], [3, 0], [2, 3]] ≠ none := by
  rw [Ne, c3_merge_reject_iff]; exact fun h => h ⟨[2, 3, 0], by decide, by decide⟩

/-! ### the linearisation of every accepted hierarchy (any number of classes and bases) -/

section hierarchy
variable {H tbl : List (List Nat)} (hb : Built H tbl) {c : Nat} (hc : c < tbl.length)
include hb hc

/-- the class comes first -/
theorem c3_head : (linOf tbl c).head? = some c := good_head (built_good hb) hc

/-- no class appears twice -/
theorem c3_nodup : (linOf tbl c).Nodup := good_nodup (built_good hb) hc

/-- the linearisation holds exactly the ancestors-or-self of the class -/
theorem c3_complete (x : Nat) : x ∈ linOf tbl c ↔ Anc (basesOf H) c x := good_complete (built_good hb) c hc x

/-- local precedence order: the direct bases keep their written order -/
theorem c3_local_precedence : (basesOf H c).Sublist (linOf tbl c).tail := good_local_precedence (built_good hb) hc

/-- monotonicity: the linearisation of every direct base is a sublist -/
theorem c3_monotone {b : Nat} (hbase : b ∈ basesOf H c) : (linOf tbl b).Sublist (linOf tbl c) :=
  (good_monotone (built_good hb) hc hbase).trans (List.tail_sublist _)

end hierarchy

/-- the diamond `K2; K3(K2); K4(K2); K5(K3,K4)` is an accepted hierarchy (hypotheses are satisfiable) -/
theorem c3_diamond_witness :
    ∃ tbl, Built [[], [0], [0], [2], [2], [3, 4]] tbl ∧ linOf tbl 5 = [5, 3, 4, 2, 0] := by
  have s2 : c3Step builtinTable 2 [] = some [2, 0] := by
    simp [c3Step, effBases, hasDup, builtinTable, c3merge_eq, pick, goodHead, strike]
  have s3 : c3Step (builtinTable ++ [[2, 0]]) 3 [2] = some [3, 2, 0] := by
    simp [c3Step, effBases, hasDup, builtinTable, c3merge_eq, pick, goodHead, strike]
  have s4 : c3Step (builtinTable ++ [[2, 0]] ++ [[3, 2, 0]]) 4 [2] = some [4, 2, 0] := by
    simp [c3Step, effBases, hasDup, builtinTable, c3merge_eq, pick, goodHead, strike]
  have s5 : c3Step (builtinTable ++ [[2, 0]] ++ [[3, 2, 0]] ++ [[4, 2, 0]]) 5 [3, 4] = some [5, 3, 4, 2, 0] := by
    simp [c3Step, effBases, hasDup, builtinTable, c3merge_eq, pick, goodHead, strike]
  exact ⟨_, Built.step (Built.step (Built.step (Built.step Built.base s2) s3) s4) s5, rfl⟩

/-- a class statement is rejected **iff** a base is repeated, or is not an earlier class, or no
duplicate-free order extends every base's linearisation and the written base order -/
theorem c3_reject_iff (tbl : List (List Nat)) (i : Nat) (written : List Nat) :
    c3Step tbl i written = none ↔
      (¬ (effBases written).Nodup ∨ (∃ b ∈ effBases written, b ≥ tbl.length) ∨
       ¬ ∃ l : List Nat, l.Nodup ∧ ∀ s ∈ (effBases written).map (linOf tbl) ++ [effBases written], s.Sublist l) :=
  c3Step_none_iff tbl i written

/-- `class K(object, K2)` is rejected -/
theorem c3_reject_witness : c3Step (builtinTable ++ [[2, 0]]) 3 [0, 2] = none := by
  simp [c3Step, effBases, hasDup, builtinTable, c3merge_eq, pick, goodHead, strike]

/-! ### the Go code stores exactly that linearisation -/

/-- `TypeNew`/`Ready`/`mro_internal`/`mro_implementation`: the new class gets the C3
linearisation of the specification as its stored `Mro`, and the class statement
fails with TypeError exactly when the specification rejects it. -/
theorem mro_eq_c3 (s : State) (w : List Nat) (d : Dict) (hbases : ∀ b ∈ effBases w, b < s.classes.length) :
    typeNew s w d = match c3Step s.T s.T.length w with
      | some lin => .ok { s with classes := s.classes ++ [newClass w lin d] }
      | none => .error .type := typeNew_eq s w d hbases

/-- class creation keeps the state's hierarchy an accepted hierarchy with its C3 table -/
theorem typeNew_preserves_built (s s' : State) (w : List Nat) (d : Dict)
    (hbases : ∀ b ∈ effBases w, b < s.classes.length) (hB : Built s.H s.T) (h : typeNew s w d = .ok s') :
    Built s'.H s'.T := by
  rw [typeNew_eq s w d hbases] at h
  cases hstep : c3Step s.T s.T.length w with
  | none => rw [hstep] at h; cases h
  | some lin =>
    rw [hstep] at h
    simp only [Except.ok.injEq] at h
    subst h
    simpa [State.H, State.T, newClass] using Built.step hB hstep

theorem init_built : Built State.init.H State.init.T := Built.base

/-! ### attribute reads: instance namespace first, then the first definition along the MRO -/

/-- the Python-level state a model state stands for (per-object namespaces, linearisations, classes of instances) -/
def absState (s : State) : SState :=
  { mro := s.cmro, clsOf := fun i => s.typeOf (.inst i), ns := fun r n => (s.dictOf r).get n }

theorem rel_absState (s : State) : Rel s (absState s) := ⟨fun _ => rfl, fun _ => rfl, fun _ _ => rfl⟩

/-- `GetAttrString` on an instance: the instance's own attribute first (unbound), otherwise the first
definition along the MRO of its class, bound to the instance; AttributeError when there is none. -/
theorem lookup_spec (s : State) (hn : NoHooks s) (hs : Shape s) (i : Nat) (hi : i < s.insts.length)
    (key : String) (hkey : key ∉ goSpecial) :
    Agrees (getAttrString s (.inst i) key) (specRead (absState s) (.inst i) key) :=
  read_agrees (rel_absState s) hn hs (.inst i) key hi hkey

/-- `GetAttrString` on a class object: the first definition along the class's OWN linearisation
(not the metatype's), bound with no instance – holds after the `fix:` commits of this kernel. -/
theorem class_lookup_spec (s : State) (hn : NoHooks s) (hs : Shape s) (c : Nat) (hc : c < s.classes.length)
    (key : String) (hkey : key ∉ goSpecial) :
    Agrees (getAttrString s (.cls c) key) (specRead (absState s) (.cls c) key) :=
  read_agrees (rel_absState s) hn hs (.cls c) key hc hkey

/-- binding rules: what `M__get__` builds is what Python's descriptor protocol defines -/
theorem bind_spec (v : Val) (inst : Option Ref) (owner : Nat) : absR (descrGet v inst owner) = bind v inst owner :=
  absR_descrGet v inst owner

/-- a plain function found on the class binds the instance; read on the class it stays a function -/
theorem bind_function (t : String) (r : Ref) (owner : Nat) :
    absR (descrGet (.func t) (some r) owner) = .call t (some r) ∧ absR (descrGet (.func t) none owner) = .call t none :=
  ⟨rfl, rfl⟩

/-- a classmethod binds the class, through an instance or through the class -/
theorem bind_classmethod (t : String) (inst : Option Ref) (owner : Nat) :
    absR (descrGet (.cmeth t) inst owner) = .call t (some (.cls owner)) := by cases inst <;> rfl

/-- a staticmethod binds nothing -/
theorem bind_staticmethod (t : String) (inst : Option Ref) (owner : Nat) :
    absR (descrGet (.smeth t) inst owner) = .call t none := by cases inst <;> rfl

/-- **writes and deletes are local to the object; class attributes are shared until shadowed**:
for EVERY history of reads/writes/deletes on user classes and instances, the Go algorithms give the
observations of Python's per-object namespaces read through the C3 linearisation. -/
theorem write_local (ops : List AOp) (s : State) (hn : NoHooks s) (hs : Shape s) (hops : ∀ op ∈ ops, OpOK s op) :
    runModel s ops = some (runSpec (absState s) ops) :=
  runModel_eq_runSpec ops s (absState s) (rel_absState s) hn hs hops

/-- isinstance ⇔ the class is an ancestor-or-self of the instance's class -/
theorem isinstance_iff_ancestor (s : State) (hB : Built s.H s.T) (i : Nat)
    (hi : s.typeOf (.inst i) < s.classes.length) (c : Nat) :
    isInstance s i c = true ↔ Anc (basesOf s.H) (s.typeOf (.inst i)) c := isInstance_iff hB i hi c

/-! non-vacuity: the state after `class K2: a = f; i0 = K2()` satisfies every hypothesis above -/

def demoState : State :=
  { classes := State.init.classes ++ [newClass [] [2, 0] [("a", .func "K2.a")]], insts := [{ cls := 2, dict := [] }] }

theorem demo_from_code : typeNew State.init [] [("a", .func "K2.a")] = .ok { demoState with insts := [] } := by
  rw [mro_eq_c3 _ _ _ (by decide)]
  have : c3Step State.init.T State.init.T.length [] = some [2, 0] := by
    simp [c3Step, effBases, hasDup, State.init, State.T, c3merge_eq, pick, goodHead, strike]
  rw [this]; rfl

theorem demo_shape : Shape demoState := by
  refine ⟨by decide, ?_, ?_, ?_, rfl, rfl, rfl⟩
  · intro c hc
    have : c = 0 ∨ c = 1 ∨ c = 2 := by simp [demoState, State.init] at hc; omega
    rcases this with rfl | rfl | rfl <;> rfl
  · intro i hi
    have : i = 0 := by simp [demoState] at hi; omega
    subst this; decide
  · intro c
    match c with
    | 0 => rfl
    | 1 => rfl
    | 2 => rfl
    | c + 3 => rfl

theorem demo_noHooks : NoHooks demoState := by
  intro r h hh
  cases r with
  | cls c =>
    match c with
    | 0 => rfl
    | 1 => rfl
    | 2 =>
      simp only [hookNames, List.mem_cons, List.not_mem_nil, or_false] at hh
      rcases hh with rfl | rfl | rfl | rfl | rfl <;> decide
    | c + 3 => rfl
  | inst i =>
    match i with
    | 0 => rfl
    | i + 1 => rfl

/-- the function defined in the class body, read through the instance, is bound to the instance;
after `i0.a = w` the instance shadows it while the class still sees the function -/
theorem demo_history :
    runModel demoState [.get (.inst 0) "a", .set (.inst 0) "a" (.plain "w"), .get (.inst 0) "a", .get (.cls 2) "a"]
      = some [.read (.ok (.call "K2.a" (some (.inst 0)))), .done, .read (.ok (.value "w")), .read (.ok (.call "K2.a" none))] := by
  decide

end GPy.C16
