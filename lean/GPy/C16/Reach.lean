/-
C16 helper lemmas, round 2: the hypotheses `Shape` and `NoHooks` of the lookup
theorems are invariants of class creation (`typeNew`), instantiation
(`newInstance`) and attribute writes/deletes, hence hold in every state
reachable from `State.init`; the `Base` chain walk of `IsSubtype`.
-/
import GPy.C16.Proofs
namespace GPy.C16

/-- a class body's dictionary defines none of the hooks -/
def DictNoHooks (d : Dict) : Prop := ∀ h ∈ hookNames, d.get h = none

/-- the state with one more class object -/
def State.addClass (s : State) (o : TObj) : State := { s with classes := s.classes ++ [o] }
/-- the state with one more instance -/
def State.addInst (s : State) (o : IObj) : State := { s with insts := s.insts ++ [o] }

theorem typeNew_ok {s s' : State} {w : List Nat} {d : Dict} (hb : ∀ b ∈ effBases w, b < s.classes.length)
    (h : typeNew s w d = .ok s') :
    ∃ r, s' = s.addClass (newClass w (s.classes.length :: r) d) := by
  rw [typeNew_eq s w d hb] at h
  cases hstep : c3Step s.T s.T.length w with
  | none => rw [hstep] at h; cases h
  | some lin =>
    rw [hstep] at h
    obtain ⟨_, _, r, _, rfl⟩ := c3Step_some hstep
    have hlen : s.T.length = s.classes.length := by simp [State.T]
    simp only [Except.ok.injEq] at h
    exact ⟨r, by rw [← h, hlen]; rfl⟩

/-! ### reading the extended tables -/

theorem cmro_addClass_lt (s : State) (o : TObj) {c : Nat} (hc : c < s.classes.length) :
    (s.addClass o).cmro c = s.cmro c := by
  simp [State.cmro, State.addClass, List.getElem?_append_left hc]

theorem cmro_addClass_eq (s : State) (o : TObj) : (s.addClass o).cmro s.classes.length = o.mro := by
  simp [State.cmro, State.addClass]

theorem cdict_addClass_lt (s : State) (o : TObj) {c : Nat} (hc : c < s.classes.length) :
    (s.addClass o).cdict c = s.cdict c := by
  simp [State.cdict, State.addClass, List.getElem?_append_left hc]

theorem cdict_addClass_eq (s : State) (o : TObj) : (s.addClass o).cdict s.classes.length = o.dict := by
  simp [State.cdict, State.addClass]

theorem cdict_ge (s : State) {c : Nat} (hc : s.classes.length ≤ c) : s.cdict c = [] := by
  simp [State.cdict, List.getElem?_eq_none hc]

theorem typeOf_cls_addClass (s : State) (o : TObj) (ht : o.typ = 1) (c : Nat) (h : s.typeOf (.cls c) = 1) :
    (s.addClass o).typeOf (.cls c) = 1 := by
  by_cases hc : c < s.classes.length
  · simpa [State.typeOf, State.addClass, List.getElem?_append_left hc] using h
  · by_cases he : c = s.classes.length
    · subst he; simp [State.typeOf, State.addClass, ht]
    · have : s.classes.length + 1 ≤ c := by omega
      simp [State.typeOf, State.addClass, this]

theorem typeOf_inst_addClass (s : State) (o : TObj) (i : Nat) :
    (s.addClass o).typeOf (.inst i) = s.typeOf (.inst i) := rfl

theorem dictOf_inst_addClass (s : State) (o : TObj) (i : Nat) :
    (s.addClass o).dictOf (.inst i) = s.dictOf (.inst i) := rfl

/-! ### `typeNew` keeps `Shape` and `NoHooks` -/

theorem shape_addClass {s : State} (hs : Shape s) (o : TObj) (ht : o.typ = 1)
    (hh : o.mro.head? = some s.classes.length) : Shape (s.addClass o) := by
  have h2 := hs.two
  have hlen : (s.addClass o).classes.length = s.classes.length + 1 := by simp [State.addClass]
  refine ⟨by omega, ?_, ?_, ?_, ?_, ?_, ?_⟩
  · intro c hc
    by_cases hlt : c < s.classes.length
    · rw [cmro_addClass_lt s o hlt]; exact hs.heads c hlt
    · have : c = s.classes.length := by omega
      subst this
      rw [cmro_addClass_eq]; exact hh
  · intro i hi
    rw [typeOf_inst_addClass, hlen]
    have := hs.instCls i hi
    omega
  · intro c; exact typeOf_cls_addClass s o ht c (hs.metaT c)
  · rw [cmro_addClass_lt s o (by omega)]; exact hs.typeMro
  · rw [cdict_addClass_lt s o (by omega)]; exact hs.objDict
  · rw [cdict_addClass_lt s o (by omega)]; exact hs.typeDict

theorem noHooks_addClass {s : State} (hn : NoHooks s) (o : TObj) (hd : DictNoHooks o.dict) :
    NoHooks (s.addClass o) := by
  intro r h hh
  cases r with
  | inst i => exact hn (.inst i) h hh
  | cls c =>
    show ((s.addClass o).cdict c).get h = none
    by_cases hlt : c < s.classes.length
    · rw [cdict_addClass_lt s o hlt]; exact hn (.cls c) h hh
    · by_cases he : c = s.classes.length
      · subst he; rw [cdict_addClass_eq]; exact hd h hh
      · rw [cdict_ge]; · rfl
        · simp [State.addClass]; omega

theorem shape_typeNew {s s' : State} {w : List Nat} {d : Dict} (hs : Shape s)
    (hb : ∀ b ∈ effBases w, b < s.classes.length) (h : typeNew s w d = .ok s') : Shape s' := by
  obtain ⟨r, rfl⟩ := typeNew_ok hb h
  exact shape_addClass hs _ rfl rfl

theorem noHooks_typeNew {s s' : State} {w : List Nat} {d : Dict} (hn : NoHooks s) (hd : DictNoHooks d)
    (hb : ∀ b ∈ effBases w, b < s.classes.length) (h : typeNew s w d = .ok s') : NoHooks s' := by
  obtain ⟨r, rfl⟩ := typeNew_ok hb h
  exact noHooks_addClass hn _ hd

/-! ### `newInstance` keeps `Shape` and `NoHooks` -/

theorem shape_addInst {s : State} (hs : Shape s) {c : Nat} (hc : c < s.classes.length) :
    Shape (s.addInst { cls := c, dict := [] }) := by
  refine ⟨hs.two, hs.heads, ?_, hs.metaT, hs.typeMro, hs.objDict, hs.typeDict⟩
  intro i hi
  have hlen : (s.addInst { cls := c, dict := [] }).insts.length = s.insts.length + 1 := by simp [State.addInst]
  show (s.addInst { cls := c, dict := [] }).typeOf (.inst i) < s.classes.length
  by_cases hlt : i < s.insts.length
  · have : (s.addInst { cls := c, dict := [] }).typeOf (.inst i) = s.typeOf (.inst i) := by
      simp [State.typeOf, State.addInst, List.getElem?_append_left hlt]
    rw [this]; exact hs.instCls i hlt
  · have : i = s.insts.length := by omega
    subst this
    simpa [State.typeOf, State.addInst] using hc

theorem noHooks_addInst {s : State} (hn : NoHooks s) (c : Nat) : NoHooks (s.addInst { cls := c, dict := [] }) := by
  intro r h hh
  cases r with
  | cls k => exact hn (.cls k) h hh
  | inst i =>
    show ((s.addInst { cls := c, dict := [] }).dictOf (.inst i)).get h = none
    by_cases hlt : i < s.insts.length
    · have : (s.addInst { cls := c, dict := [] }).dictOf (.inst i) = s.dictOf (.inst i) := by
        simp [State.dictOf, State.addInst, List.getElem?_append_left hlt]
      rw [this]; exact hn (.inst i) h hh
    · by_cases he : i = s.insts.length
      · subst he; simp [State.dictOf, State.addInst, Dict.get]
      · have : s.insts.length + 1 ≤ i := by omega
        simp [State.dictOf, State.addInst, this, Dict.get]

/-- without hooks `K()` always succeeds and appends a fresh instance with an empty dictionary -/
theorem newInstance_noHooks {s : State} (hn : NoHooks s) (c : Nat) :
    newInstance s c = .ok (s.addInst { cls := c, dict := [] }) := by
  unfold newInstance
  have := getAttrOrNil_hook (noHooks_addInst hn c) (.cls c) (by decide : "__init__" ∈ hookNames)
  simp only [State.addInst] at this
  simp only [this]
  rfl

theorem newInstance_ok {s s' : State} {c : Nat} (hn : NoHooks s) (h : newInstance s c = .ok s') :
    s' = s.addInst { cls := c, dict := [] } := by
  rw [newInstance_noHooks hn c] at h
  cases h; rfl

/-! ### the initial state -/

theorem init_shape : Shape State.init := by
  refine ⟨by decide, ?_, ?_, ?_, rfl, rfl, rfl⟩
  · intro c hc
    have : c = 0 ∨ c = 1 := by simp [State.init] at hc; omega
    rcases this with rfl | rfl <;> rfl
  · intro i hi; simp [State.init] at hi
  · intro c
    match c with
    | 0 => rfl
    | 1 => rfl
    | c + 2 => rfl

theorem init_noHooks : NoHooks State.init := by
  intro r h _
  cases r with
  | cls c =>
    match c with
    | 0 => rfl
    | 1 => rfl
    | c + 2 => rfl
  | inst i => rfl

/-! ### reachable states -/

/-- the states a program reaches from the interpreter's start by class statements (bases name
existing classes other than `type`; the body defines none of the hook names), instantiations of
user classes, and attribute writes / deletes on user classes and instances (non-hook names) -/
inductive Reachable : State → Prop where
  | init : Reachable State.init
  | cls {s s' : State} (w : List Nat) (d : Dict) : Reachable s →
      (∀ b ∈ effBases w, b < s.classes.length ∧ b ≠ 1) → DictNoHooks d → typeNew s w d = .ok s' → Reachable s'
  | inst {s s' : State} (c : Nat) : Reachable s → 2 ≤ c → c < s.classes.length → newInstance s c = .ok s' → Reachable s'
  | set {s s' : State} (r : Ref) (k : String) (v : Val) : Reachable s → OpOK s (.set r k v) →
      setAttrString s r k v = .ok s' → Reachable s'
  | del {s s' : State} (r : Ref) (k : String) : Reachable s → OpOK s (.del r k) →
      deleteAttrString s r k = .ok s' → Reachable s'

theorem setAttr_ok {s s' : State} (hn : NoHooks s) {r : Ref} {k : String} {v : Val}
    (h : setAttrString s r k v = .ok s') : s' = setDict s r (fun d => d.set k v) := by
  unfold setAttrString at h
  simp only [hookOf_none hn r (by decide : "__setattr__" ∈ hookNames)] at h
  cases h; rfl

theorem delAttr_ok {s s' : State} (hn : NoHooks s) {r : Ref} {k : String}
    (h : deleteAttrString s r k = .ok s') : s' = setDict s r (fun d => d.del k) := by
  unfold deleteAttrString at h
  simp only [hookOf_none hn r (by decide : "__delattr__" ∈ hookNames), Option.isSome_none,
    Bool.false_eq_true, if_false] at h
  split at h
  · cases h; rfl
  · cases h

theorem map_modify_inv {α β : Type} (g : α → β) (f : α → α) (hg : ∀ x, g (f x) = g x) :
    ∀ (l : List α) (i : Nat), (l.modify i f).map g = l.map g := by
  intro l
  induction l with
  | nil => intro i; simp
  | cons a t ih =>
    intro i
    cases i with
    | zero => simp [hg]
    | succ i => simp [List.modify_succ_cons, ih i]

theorem H_setDict (s : State) (r : Ref) (f : Dict → Dict) : (setDict s r f).H = s.H := by
  cases r with
  | cls c => exact map_modify_inv (·.bases) (fun o => { o with dict := f o.dict }) (fun _ => rfl) s.classes c
  | inst i => rfl

theorem T_setDict (s : State) (r : Ref) (f : Dict → Dict) : (setDict s r f).T = s.T := by
  cases r with
  | cls c => exact map_modify_inv (·.mro) (fun o => { o with dict := f o.dict }) (fun _ => rfl) s.classes c
  | inst i => rfl

/-- `Base` is the first entry of `Bases` (what `best_base` returns when every solid base is `object`) -/
def BaseHead (s : State) : Prop := s.classes.map (·.base) = s.classes.map (fun o => o.bases.head?)

theorem baseHead_get {s : State} (h : BaseHead s) (c : Nat) :
    s.classes[c]?.bind (·.base) = (basesOf s.H c).head? := by
  have := congrArg (fun l => l[c]?) h
  simp only [List.getElem?_map] at this
  unfold basesOf State.H
  rw [List.getElem?_map]
  cases hc : s.classes[c]? with
  | none => rfl
  | some o => rw [hc] at this; simpa using this

theorem baseHead_setDict {s : State} (h : BaseHead s) (r : Ref) (f : Dict → Dict) : BaseHead (setDict s r f) := by
  cases r with
  | inst i => exact h
  | cls c =>
    show List.map (·.base) (s.classes.modify c (fun o => { o with dict := f o.dict }))
      = List.map (fun o => o.bases.head?) (s.classes.modify c (fun o => { o with dict := f o.dict }))
    rw [map_modify_inv (fun o : TObj => o.base) (fun o => { o with dict := f o.dict }) (fun _ => rfl),
      map_modify_inv (fun o : TObj => o.bases.head?) (fun o => { o with dict := f o.dict }) (fun _ => rfl)]
    exact h

theorem reachable_inv {s : State} (h : Reachable s) : Shape s ∧ NoHooks s ∧ Built s.H s.T ∧ BaseHead s := by
  induction h with
  | init => exact ⟨init_shape, init_noHooks, Built.base, rfl⟩
  | cls w d _ hb hd hnew ih =>
    obtain ⟨hs, hn, hB, hbh⟩ := ih
    have hb' : ∀ b ∈ effBases w, b < _ := fun b hm => (hb b hm).1
    refine ⟨shape_typeNew hs hb' hnew, noHooks_typeNew hn hd hb' hnew, ?_⟩
    rw [typeNew_eq _ w d hb'] at hnew
    cases hstep : c3Step _ _ w with
    | none => rw [hstep] at hnew; cases hnew
    | some lin =>
      rw [hstep] at hnew
      simp only [Except.ok.injEq] at hnew
      subst hnew
      refine ⟨by simpa [State.H, State.T, newClass] using Built.step hB hstep, ?_⟩
      unfold BaseHead at *
      simp [hbh, newClass]
  | inst c _ _ hc hnew ih =>
    obtain ⟨hs, hn, hB, hbh⟩ := ih
    have := newInstance_ok hn hnew
    subst this
    exact ⟨shape_addInst hs hc, noHooks_addInst hn c, hB, hbh⟩
  | set r k v _ hop hset ih =>
    obtain ⟨hs, hn, hB, hbh⟩ := ih
    obtain ⟨hv, h0, h1, _, hhook⟩ := hop
    have := setAttr_ok hn hset
    subst this
    refine ⟨shape_setDict hs r hv h0 h1 _, noHooks_set hn r hv k v hhook, ?_, baseHead_setDict hbh r _⟩
    rw [H_setDict, T_setDict]; exact hB
  | del r k _ hop hdel ih =>
    obtain ⟨hs, hn, hB, hbh⟩ := ih
    obtain ⟨hv, h0, h1, _, _⟩ := hop
    have := delAttr_ok hn hdel
    subst this
    refine ⟨shape_setDict hs r hv h0 h1 _, noHooks_del hn r hv k, ?_, baseHead_setDict hbh r _⟩
    rw [H_setDict, T_setDict]; exact hB

/-! ### the `Base` chain of `IsSubtype` -/

/-- on class objects `IsSubtype` never takes the `Base`-chain branch: every stored MRO is non-empty -/
theorem isSubtype_eq_mro {s : State} (hs : Shape s) {a : Nat} (ha : a < s.classes.length) (b : Nat) :
    isSubtype s a b = (s.cmro a).contains b := by
  unfold isSubtype
  have hh := hs.heads a ha
  cases hm : s.cmro a with
  | nil => rw [hm] at hh; cases hh
  | cons x t => simp

/-- every class of an accepted hierarchy other than `object` has a base -/
theorem built_bases_ne {H tbl : List (List Nat)} (h : Built H tbl) :
    ∀ c, c < H.length → c ≠ 0 → basesOf H c ≠ [] := by
  induction h with
  | base =>
    intro c hc h0
    have : c = 1 := by simp at hc; omega
    subst this; simp [basesOf]
  | @step H tbl written lin _ _ ih =>
    intro c hc h0
    by_cases hlt : c < H.length
    · have : basesOf (H ++ [effBases written]) c = basesOf H c := by
        simp [basesOf, List.getElem?_append_left hlt]
      rw [this]; exact ih c hlt h0
    · have : c = H.length := by simp at hc; omega
      subst this
      simp only [basesOf, List.getElem?_concat_length, Option.getD_some]
      unfold effBases; split <;> simp_all

/-- `object` is an ancestor of every class -/
theorem built_anc_object {H tbl : List (List Nat)} (h : Built H tbl) :
    ∀ c, c < H.length → Anc (basesOf H) c 0 := by
  have g := built_good h
  intro c
  induction c using Nat.strongRecOn with
  | _ c ih =>
    intro hc
    by_cases h0 : c = 0
    · subst h0; exact Anc.refl 0
    · have hne := built_bases_ne h c hc h0
      obtain ⟨b, hb⟩ := List.exists_mem_of_ne_nil _ hne
      have hlt : b < c := (g.2 c (g.1 ▸ hc)).2.1 b hb
      exact Anc.step hb (ih b hlt (by omega))

/-- the `Base` chain only ever reports ancestors: `baseChain` is sound for `Anc` -/
theorem baseChain_anc {s : State} (hB : Built s.H s.T) (hbh : BaseHead s) (b : Nat) :
    ∀ (fuel a : Nat), a < s.classes.length → baseChain s fuel a b = true → Anc (basesOf s.H) a b := by
  have hlen : s.H.length = s.classes.length := by simp [State.H]
  have g := built_good hB
  intro fuel
  induction fuel with
  | zero =>
    intro a ha h
    simp only [baseChain, beq_iff_eq] at h
    subst h
    exact built_anc_object hB a (hlen ▸ ha)
  | succ fuel ih =>
    intro a ha h
    rw [baseChain] at h
    split at h
    · rename_i hab
      have : a = b := by simpa using hab
      subst this; exact Anc.refl a
    · rw [baseHead_get hbh a] at h
      split at h
      · rename_i a' hbase
        have hm : a' ∈ basesOf s.H a := List.mem_of_mem_head? hbase
        have hlt : a' < a := (g.2 a (by rw [← g.1, hlen]; exact ha)).2.1 a' hm
        exact Anc.step hm (ih a' (by omega) h)
      · simp only [beq_iff_eq] at h
        subst h
        exact built_anc_object hB a (hlen ▸ ha)

/-! ### the table of an accepted hierarchy is unique -/

theorem built_len {H tbl : List (List Nat)} (h : Built H tbl) : 2 ≤ H.length := by
  induction h with
  | base => simp
  | step _ _ ih => simp; omega

theorem built_inv {H tbl : List (List Nat)} (h : Built H tbl) :
    (H = [[], [0]] ∧ tbl = builtinTable) ∨
    ∃ H0 tbl0 w lin, Built H0 tbl0 ∧ c3Step tbl0 tbl0.length w = some lin ∧ H = H0 ++ [effBases w] ∧ tbl = tbl0 ++ [lin] := by
  cases h with
  | base => exact Or.inl ⟨rfl, rfl⟩
  | step hb hs => exact Or.inr ⟨_, _, _, _, hb, hs, rfl, rfl⟩

theorem c3Step_congr (tbl : List (List Nat)) (i : Nat) {w w' : List Nat} (h : effBases w = effBases w') :
    c3Step tbl i w = c3Step tbl i w' := by
  unfold c3Step; simp only [h]

/-- a hierarchy (effective base lists in definition order) has at most one table of linearisations -/
theorem built_unique {H tbl tbl' : List (List Nat)} (h : Built H tbl) (h' : Built H tbl') : tbl = tbl' := by
  induction h generalizing tbl' with
  | base =>
    rcases built_inv h' with ⟨_, rfl⟩ | ⟨H0, tbl0, w, lin, hb0, _, hH, _⟩
    · rfl
    · have := built_len hb0
      have hl := congrArg List.length hH
      simp at hl; omega
  | @step H tbl w lin hb hs ih =>
    rcases built_inv h' with ⟨hH, _⟩ | ⟨H0, tbl0, w0, lin0, hb0, hs0, hH, rfl⟩
    · have := built_len hb
      have hl := congrArg List.length hH
      simp at hl; omega
    · obtain ⟨hH0, hw⟩ := List.append_inj' hH rfl
      subst hH0
      have := ih hb0
      subst this
      simp only [List.cons.injEq, and_true] at hw
      rw [c3Step_congr _ _ hw] at hs
      rw [hs] at hs0
      cases hs0; rfl

end GPy.C16
