/-
C16 specification, written from Python's definitions (the "merge of
linearisations" formulation of C3 in the Python 2.3 MRO document / the Dylan
paper; the data model's description of attribute access), independently of the
Go formulas.

Classes are natural numbers: `0` = `object`, `1` = `type`, user classes from `2`.
A hierarchy is the list of the *written* base lists, position = class id.
-/
import GPy.Common.Basic
namespace GPy.C16

/-! ### C3 merge -/

/-- `c` is a good head: it occurs in the tail of none of the sequences -/
def goodHead (seqs : List (List Nat)) (c : Nat) : Bool :=
  seqs.all (fun s => !(s.tail.contains c))

/-- first head (in sequence order) that is in no tail -/
def pick (seqs : List (List Nat)) : Option Nat :=
  (seqs.filterMap List.head?).find? (goodHead seqs)

def total (seqs : List (List Nat)) : Nat := (seqs.map List.length).sum

theorem total_cons (s : List Nat) (seqs : List (List Nat)) : total (s :: seqs) = s.length + total seqs := by
  simp [total]

/-- remove `c` from every sequence -/
def strike (c : Nat) (seqs : List (List Nat)) : List (List Nat) := seqs.map (List.filter (· != c))

theorem total_filter_le (c : Nat) (seqs : List (List Nat)) :
    total (strike c seqs) ≤ total seqs := by
  unfold strike
  induction seqs with
  | nil => simp [total]
  | cons s rest ih =>
    simp only [List.map_cons, total_cons]
    have := List.length_filter_le (· != c) s
    omega

theorem total_filter_lt (c : Nat) (seqs : List (List Nat)) (h : ∃ s ∈ seqs, s.head? = some c) :
    total (strike c seqs) < total seqs := by
  induction seqs with
  | nil => obtain ⟨s, hs, _⟩ := h; cases hs
  | cons s rest ih =>
    have hrest := total_filter_le c rest
    unfold strike at *
    simp only [List.map_cons, total_cons]
    obtain ⟨s', hs', hh⟩ := h
    have hle := List.length_filter_le (· != c) s
    rcases List.mem_cons.mp hs' with rfl | hin
    · cases s' with
      | nil => cases hh
      | cons a t =>
        simp only [List.head?_cons, Option.some.injEq] at hh
        subst hh
        have : ((a :: t).filter (· != a)).length ≤ t.length := by
          simp
          exact List.length_filter_le _ t
        simp only [List.length_cons] at *
        omega
    · have := ih ⟨s', hin, hh⟩
      omega

theorem pick_head {seqs : List (List Nat)} {c : Nat} (h : pick seqs = some c) :
    ∃ s ∈ seqs, s.head? = some c := by
  unfold pick at h
  have hm := List.mem_of_find?_eq_some h
  simp only [List.mem_filterMap] at hm
  exact hm

/-- C3 merge: repeatedly take the first head that is in no tail, remove it from
every sequence; fail (`none`) when sequences remain but no head qualifies. -/
def c3merge (seqs : List (List Nat)) : Option (List Nat) :=
  if seqs.all List.isEmpty then some []
  else
    match _h : pick seqs with
    | none => none
    | some c => (c3merge (strike c seqs)).map (c :: ·)
termination_by total seqs
decreasing_by exact total_filter_lt c seqs (pick_head _h)

/-! ### linearisation of a hierarchy -/

def hasDup : List Nat → Bool
  | [] => false
  | x :: xs => xs.contains x || hasDup xs

/-- `class K: ...` without bases derives from `object` -/
def effBases (written : List Nat) : List Nat := if written.isEmpty then [0] else written

/-- linearisation of a new class `i` with the written bases, given the table of
the linearisations of the classes defined so far (`none` = the class is rejected) -/
def c3Step (tbl : List (List Nat)) (i : Nat) (written : List Nat) : Option (List Nat) :=
  let bases := effBases written
  if hasDup bases then none                                  -- "duplicate base class"
  else if bases.any (fun b => b ≥ tbl.length) then none      -- a base must be a class defined before
  else (c3merge (bases.map (fun b => tbl[b]?.getD []) ++ [bases])).map (i :: ·)

/-- the builtin part of every hierarchy: `object`, and `type(object)` -/
def builtinTable : List (List Nat) := [[0], [1, 0]]

/-- `Built H tbl`: `H` (effective base lists, position = class id) is a hierarchy
whose classes were all accepted in definition order, `tbl` its linearisations -/
inductive Built : List (List Nat) → List (List Nat) → Prop where
  | base : Built [[], [0]] builtinTable
  | step {H tbl : List (List Nat)} {written lin : List Nat} :
      Built H tbl → c3Step tbl tbl.length written = some lin → Built (H ++ [effBases written]) (tbl ++ [lin])

def basesOf (H : List (List Nat)) (c : Nat) : List Nat := H[c]?.getD []
def linOf (tbl : List (List Nat)) (c : Nat) : List Nat := tbl[c]?.getD []

/-! ### values, objects, attribute access -/

inductive Val where
  | plain (tag : String)   -- an ordinary value
  | func (tag : String)    -- a plain function
  | cmeth (tag : String)   -- classmethod(function)
  | smeth (tag : String)   -- staticmethod(function)
deriving DecidableEq, Repr, Inhabited

inductive Ref where
  | cls (i : Nat)
  | inst (i : Nat)
deriving DecidableEq, Repr, Inhabited

/-- what an attribute read yields, as far as the property speaks about it -/
inductive SVal where
  | value (tag : String)
  | call (fn : String) (first : Option Ref)  -- a callable that runs `fn` with this implicit first argument
  | descr (v : Val)                           -- an unbound classmethod/staticmethod object (found in an instance's own namespace)
  | hookResult (fn : String) (self : Ref) (name : String)  -- whatever the user function `fn(self, name)` returns (`__getattr__`)
deriving DecidableEq, Repr, Inhabited

/-- a call of a user-defined hook function, not looked into: `fn(self, name[, value])` -/
structure HookCall where
  fn : String
  self : Ref
  key : String
  val : Option Val
deriving DecidableEq, Repr, Inhabited

inductive SRes (α : Type) where
  | ok (v : α)
  | attrError
  | typeError
deriving DecidableEq, Repr, Inhabited

/-- Python state: the linearisation of every class, the class of every instance,
and one namespace per object -/
structure SState where
  mro : Nat → List Nat
  clsOf : Nat → Nat
  ns : Ref → String → Option Val

/-- binding (descriptor protocol) of a value found on a class:
`inst` = the instance the read went through (none for a read on the class), `owner` = the class read from / the instance's class -/
def bind (v : Val) (inst : Option Ref) (owner : Nat) : SVal :=
  match v with
  | .plain t => .value t
  | .func t => .call t inst
  | .cmeth t => .call t (some (.cls owner))
  | .smeth t => .call t none

/-- a value taken from an object's own namespace is not bound -/
def unbound (v : Val) : SVal :=
  match v with
  | .plain t => .value t
  | .func t => .call t none
  | v => .descr v

/-- first definition along a linearisation -/
def firstDef (S : SState) (lin : List Nat) (name : String) : Option Val :=
  (lin.filterMap (fun k => S.ns (.cls k) name)).head?

def specRead (S : SState) (r : Ref) (name : String) : SRes SVal :=
  match r with
  | .inst i =>
    match S.ns r name with
    | some v => .ok (unbound v)
    | none =>
      match firstDef S (S.mro (S.clsOf i)) name with
      | some v => .ok (bind v (some r) (S.clsOf i))
      | none => .attrError
  | .cls c =>
    match firstDef S (S.mro c) name with
    | some v => .ok (bind v none c)
    | none => .attrError

def setNs (ns : Ref → String → Option Val) (r : Ref) (name : String) (v : Option Val) : Ref → String → Option Val :=
  fun r' n' => if r' = r ∧ n' = name then v else ns r' n'

def specWrite (S : SState) (r : Ref) (name : String) (v : Val) : SState :=
  { S with ns := setNs S.ns r name (some v) }

def specDelete (S : SState) (r : Ref) (name : String) : SRes SState :=
  match S.ns r name with
  | some _ => .ok { S with ns := setNs S.ns r name none }
  | none => .attrError

/-! ### user hooks (round 2): `__getattr__`, `__setattr__`, `__init__`

Python looks special methods up on the TYPE of the object, along the type's
linearisation – never in the object's own namespace.  For an instance that is its
class; for a class object it is the metatype `type`, which defines none of them. -/

/-- the special method `name` that applies to the object `r` -/
def specHook (S : SState) (r : Ref) (name : String) : Option Val :=
  match r with
  | .inst i => firstDef S (S.mro (S.clsOf i)) name
  | .cls _ => none

/-- `obj.name` with `__getattr__`: ordinary lookup first; only when that fails, `type(obj).__getattr__(obj, name)` -/
def specReadH (S : SState) (r : Ref) (name : String) : SRes SVal :=
  match specRead S r name with
  | .attrError =>
    match specHook S r "__getattr__" with
    | none => .attrError
    | some (.func f) => .ok (.hookResult f r name)
    | some (.plain _) => .typeError          -- not callable
    | some _ => .attrError                   -- (classmethod/staticmethod as hook: outside the model, see Model)
  | x => x

/-- `obj.name = v` with `__setattr__`: the hook found on the type is called INSTEAD of storing -/
def specWriteH (S : SState) (log : List HookCall) (r : Ref) (name : String) (v : Val) : SRes (SState × List HookCall) :=
  match specHook S r "__setattr__" with
  | none => .ok (specWrite S r name v, log)
  | some (.func f) => .ok (S, log ++ [⟨f, r, name, some v⟩])
  | some (.plain _) => .typeError
  | some _ => .attrError

/-- `K()`: a fresh instance `i` (the caller supplies its number and has extended `clsOf`) with an empty
namespace; then `__init__` found along the linearisation of `K` runs with the instance bound.  The body of
an `__init__` function with tag `f` is, by the convention of the generated cases, `self.a = '<f>'`. -/
def specInit (S : SState) (log : List HookCall) (i : Nat) : SRes (SState × List HookCall) :=
  match firstDef S (S.mro (S.clsOf i)) "__init__" with
  | none => .ok (S, log)
  | some (.func f) => specWriteH S log (.inst i) "a" (.plain f)
  | some (.plain _) => .typeError
  | some _ => .attrError

/-- ancestor-or-self: reflexive-transitive closure of "is a direct base of" -/
inductive Anc (bases : Nat → List Nat) : Nat → Nat → Prop where
  | refl (c : Nat) : Anc bases c c
  | step {c b a : Nat} : b ∈ bases c → Anc bases b a → Anc bases c a

def specIsInstance (S : SState) (i : Nat) (c : Nat) : Bool := (S.mro (S.clsOf i)).contains c

/-! ### isinstance with a tuple (round 2) -/

/-- `isinstance(i, a)` for a single second argument: a class, or an object that is not a class (TypeError) -/
def specIsInstance1 (S : SState) (i : Nat) : Ref → SRes Bool
  | .cls c => .ok (specIsInstance S i c)
  | .inst _ => .typeError

/-- `isinstance(i, (a1, …, an))`: the elements are tested left to right, the first match answers True,
an element that is not a class raises TypeError when it is reached -/
def specIsInstanceT (S : SState) (i : Nat) : List Ref → SRes Bool
  | [] => .ok false
  | a :: rest =>
    match specIsInstance1 S i a with
    | .ok true => .ok true
    | .ok false => specIsInstanceT S i rest
    | e => e

end GPy.C16
