/-
C17 history codec: a compact, comma/tab-free text form of an operation history, emitted as the
`h=<kind>/<op>;<op>;…` tag of every generated case and read back by `gpymodel-C17 C17 eval <seed>`
(stdin: one encoded history per line → one case line each).  It is what lets checks/c17.py SHRINK a
failing history by removing operations: the shortened history is re-evaluated by the same model and
specification.  Fields of an op are separated by `:`, list items by `+`, key~value by `~`.
Strings are the generator's (ASCII letters only).  Core Lean only.
-/
import GPy.C17.Model
namespace GPy.C17

def Val.enc : Val → String
  | .none => "N"
  | .bool b => if b then "T" else "F"
  | .int i => "i" ++ toString i
  | .float t => "f" ++ toString t
  | .str s => "s" ++ s

def Val.dec (s : String) : Option Val :=
  match s.toList with
  | ['N'] => some .none
  | ['T'] => some (.bool true)
  | ['F'] => some (.bool false)
  | 'i' :: r => (String.ofList r).toInt?.map Val.int
  | 'f' :: r => (String.ofList r).toInt?.map Val.float
  | 's' :: r => some (.str (String.ofList r))
  | _ => Option.none

def encVals (xs : List Val) : String := "+".intercalate (xs.map Val.enc)
def decVals (s : String) : Option (List Val) := if s == "" then some [] else (s.splitOn "+").mapM Val.dec

def encKvs (kvs : List (String × Val)) : String := "+".intercalate (kvs.map (fun p => p.1 ++ "~" ++ p.2.enc))
def decKvs (s : String) : Option (List (String × Val)) :=
  if s == "" then some [] else
  (s.splitOn "+").mapM (fun kv => match kv.splitOn "~" with
    | [k, v] => (Val.dec v).map (fun x => (k, x))
    | _ => Option.none)

def encOI : Option Int → String
  | Option.none => "_"
  | some i => toString i
def decOI (s : String) : Option (Option Int) := if s == "_" then some Option.none else s.toInt?.map some

def encOV : Option Val → String
  | Option.none => "_"
  | some v => v.enc
def decOV (s : String) : Option (Option Val) := if s == "_" then some Option.none else (Val.dec s).map some

def Src.enc : Src → String
  | .tuple xs => "T" ++ encVals xs
  | .str s => "S" ++ s
  | .scalar v => "C" ++ v.enc
def Src.dec (s : String) : Option Src :=
  match s.toList with
  | 'T' :: r => (decVals (String.ofList r)).map Src.tuple
  | 'S' :: r => some (.str (String.ofList r))
  | 'C' :: r => (Val.dec (String.ofList r)).map Src.scalar
  | _ => Option.none

def SetOp.enc : SetOp → String
  | .and => "and" | .or => "or" | .sub => "sub" | .xor => "xor"
def SetOp.dec : String → Option SetOp
  | "and" => some .and | "or" => some .or | "sub" => some .sub | "xor" => some .xor | _ => Option.none

private def j (xs : List String) : String := ":".intercalate xs
private def n (v : Nat) : String := toString v
private def i (v : Int) : String := toString v

def Op.enc : Op → String
  | .alias v w => j ["alias", n v, n w]
  | .lNew v xs => j ["lNew", n v, encVals xs]
  | .lCopy v w => j ["lCopy", n v, n w]
  | .lSliceCopy v w => j ["lSliceCopy", n v, n w]
  | .lOfSrc v s => j ["lOfSrc", n v, s.enc]
  | .lOfIter v t => j ["lOfIter", n v, n t]
  | .lComp v w => j ["lComp", n v, n w]
  | .lAppend v x => j ["lAppend", n v, x.enc]
  | .lExtend v w => j ["lExtend", n v, n w]
  | .lExtendSrc v s => j ["lExtendSrc", n v, s.enc]
  | .lExtendIter v t => j ["lExtendIter", n v, n t]
  | .lIAdd v w => j ["lIAdd", n v, n w]
  | .lIAddSrc v s => j ["lIAddSrc", n v, s.enc]
  | .lAdd u v w => j ["lAdd", n u, n v, n w]
  | .lMul u v k => j ["lMul", n u, n v, i k]
  | .lIMul v k => j ["lIMul", n v, i k]
  | .lSetItem v k x => j ["lSetItem", n v, i k, x.enc]
  | .lDelItem v k => j ["lDelItem", n v, i k]
  | .lGetItem v k => j ["lGetItem", n v, i k]
  | .lGetSlice u v lo hi st => j ["lGetSlice", n u, n v, encOI lo, encOI hi, encOI st]
  | .lSetSlice v lo hi st w => j ["lSetSlice", n v, encOI lo, encOI hi, encOI st, n w]
  | .lSetSliceSrc v lo hi st s => j ["lSetSliceSrc", n v, encOI lo, encOI hi, encOI st, s.enc]
  | .lDelSlice v lo hi st => j ["lDelSlice", n v, encOI lo, encOI hi, encOI st]
  | .lSort v rev => j ["lSort", n v, if rev then "1" else "0"]
  | .lForAppend v b => j ["lForAppend", n v, n b]
  | .lInsert v k x => j ["lInsert", n v, i k, x.enc]
  | .lPop v k => j ["lPop", n v, encOI k]
  | .lRemove v x => j ["lRemove", n v, x.enc]
  | .lReverse v => j ["lReverse", n v]
  | .lClear v => j ["lClear", n v]
  | .lCopyM u v => j ["lCopyM", n u, n v]
  | .len v => j ["len", n v]
  | .eq v w => j ["eq", n v, n w]
  | .ne v w => j ["ne", n v, n w]
  | .contains v x => j ["contains", n v, x.enc]
  | .iter t v => j ["iter", n t, n v]
  | .next t => j ["next", n t]
  | .drain t => j ["drain", n t]
  | .dNew v kvs => j ["dNew", n v, encKvs kvs]
  | .dCopy v w => j ["dCopy", n v, n w]
  | .dOfPairs v kvs => j ["dOfPairs", n v, encKvs kvs]
  | .dOfKw v kvs => j ["dOfKw", n v, encKvs kvs]
  | .dComp v w x => j ["dComp", n v, n w, x.enc]
  | .dSet v k x => j ["dSet", n v, k, x.enc]
  | .dGet v k => j ["dGet", n v, k]
  | .dDel v k => j ["dDel", n v, k]
  | .dGetM v k d => j ["dGetM", n v, k, encOV d]
  | .dHas v k => j ["dHas", n v, k]
  | .dKeys v w => j ["dKeys", n v, n w]
  | .dUpdate v w => j ["dUpdate", n v, n w]
  | .dUpdatePairs v kvs => j ["dUpdatePairs", n v, encKvs kvs]
  | .dUpdateKw v kvs => j ["dUpdateKw", n v, encKvs kvs]
  | .dPop v k d => j ["dPop", n v, k, encOV d]
  | .dSetDefault v k d => j ["dSetDefault", n v, k, encOV d]
  | .dCopyM u v => j ["dCopyM", n u, n v]
  | .dClear v => j ["dClear", n v]
  | .sNew v xs => j ["sNew", n v, encVals xs]
  | .sEmpty v => j ["sEmpty", n v]
  | .sCopy v w => j ["sCopy", n v, n w]
  | .sOfSrc v s => j ["sOfSrc", n v, s.enc]
  | .sComp v w => j ["sComp", n v, n w]
  | .sAdd v x => j ["sAdd", n v, x.enc]
  | .sBin o u v w => j ["sBin", o.enc, n u, n v, n w]
  | .sIBin o v w => j ["sIBin", o.enc, n v, n w]
  | .sUpdate v w => j ["sUpdate", n v, n w]
  | .sUpdateSrc v s => j ["sUpdateSrc", n v, s.enc]
  | .sRemove v x => j ["sRemove", n v, x.enc]
  | .sDiscard v x => j ["sDiscard", n v, x.enc]
  | .sClear v => j ["sClear", n v]
  | .sCopyM u v => j ["sCopyM", n u, n v]

def Op.dec (s : String) : Option Op := do
  let N (x : String) : Option Nat := x.toNat?
  let I (x : String) : Option Int := x.toInt?
  match s.splitOn ":" with
  | ["alias", v, w] => pure (.alias (← N v) (← N w))
  | ["lNew", v, xs] => pure (.lNew (← N v) (← decVals xs))
  | ["lCopy", v, w] => pure (.lCopy (← N v) (← N w))
  | ["lSliceCopy", v, w] => pure (.lSliceCopy (← N v) (← N w))
  | ["lOfSrc", v, x] => pure (.lOfSrc (← N v) (← Src.dec x))
  | ["lOfIter", v, t] => pure (.lOfIter (← N v) (← N t))
  | ["lComp", v, w] => pure (.lComp (← N v) (← N w))
  | ["lAppend", v, x] => pure (.lAppend (← N v) (← Val.dec x))
  | ["lExtend", v, w] => pure (.lExtend (← N v) (← N w))
  | ["lExtendSrc", v, x] => pure (.lExtendSrc (← N v) (← Src.dec x))
  | ["lExtendIter", v, t] => pure (.lExtendIter (← N v) (← N t))
  | ["lIAdd", v, w] => pure (.lIAdd (← N v) (← N w))
  | ["lIAddSrc", v, x] => pure (.lIAddSrc (← N v) (← Src.dec x))
  | ["lAdd", u, v, w] => pure (.lAdd (← N u) (← N v) (← N w))
  | ["lMul", u, v, k] => pure (.lMul (← N u) (← N v) (← I k))
  | ["lIMul", v, k] => pure (.lIMul (← N v) (← I k))
  | ["lSetItem", v, k, x] => pure (.lSetItem (← N v) (← I k) (← Val.dec x))
  | ["lDelItem", v, k] => pure (.lDelItem (← N v) (← I k))
  | ["lGetItem", v, k] => pure (.lGetItem (← N v) (← I k))
  | ["lGetSlice", u, v, lo, hi, st] => pure (.lGetSlice (← N u) (← N v) (← decOI lo) (← decOI hi) (← decOI st))
  | ["lSetSlice", v, lo, hi, st, w] => pure (.lSetSlice (← N v) (← decOI lo) (← decOI hi) (← decOI st) (← N w))
  | ["lSetSliceSrc", v, lo, hi, st, x] => pure (.lSetSliceSrc (← N v) (← decOI lo) (← decOI hi) (← decOI st) (← Src.dec x))
  | ["lDelSlice", v, lo, hi, st] => pure (.lDelSlice (← N v) (← decOI lo) (← decOI hi) (← decOI st))
  | ["lSort", v, r] => pure (.lSort (← N v) (r == "1"))
  | ["lForAppend", v, b] => pure (.lForAppend (← N v) (← N b))
  | ["lInsert", v, k, x] => pure (.lInsert (← N v) (← I k) (← Val.dec x))
  | ["lPop", v, k] => pure (.lPop (← N v) (← decOI k))
  | ["lRemove", v, x] => pure (.lRemove (← N v) (← Val.dec x))
  | ["lReverse", v] => pure (.lReverse (← N v))
  | ["lClear", v] => pure (.lClear (← N v))
  | ["lCopyM", u, v] => pure (.lCopyM (← N u) (← N v))
  | ["len", v] => pure (.len (← N v))
  | ["eq", v, w] => pure (.eq (← N v) (← N w))
  | ["ne", v, w] => pure (.ne (← N v) (← N w))
  | ["contains", v, x] => pure (.contains (← N v) (← Val.dec x))
  | ["iter", t, v] => pure (.iter (← N t) (← N v))
  | ["next", t] => pure (.next (← N t))
  | ["drain", t] => pure (.drain (← N t))
  | ["dNew", v, kvs] => pure (.dNew (← N v) (← decKvs kvs))
  | ["dCopy", v, w] => pure (.dCopy (← N v) (← N w))
  | ["dOfPairs", v, kvs] => pure (.dOfPairs (← N v) (← decKvs kvs))
  | ["dOfKw", v, kvs] => pure (.dOfKw (← N v) (← decKvs kvs))
  | ["dComp", v, w, x] => pure (.dComp (← N v) (← N w) (← Val.dec x))
  | ["dSet", v, k, x] => pure (.dSet (← N v) k (← Val.dec x))
  | ["dGet", v, k] => pure (.dGet (← N v) k)
  | ["dDel", v, k] => pure (.dDel (← N v) k)
  | ["dGetM", v, k, d] => pure (.dGetM (← N v) k (← decOV d))
  | ["dHas", v, k] => pure (.dHas (← N v) k)
  | ["dKeys", v, w] => pure (.dKeys (← N v) (← N w))
  | ["dUpdate", v, w] => pure (.dUpdate (← N v) (← N w))
  | ["dUpdatePairs", v, kvs] => pure (.dUpdatePairs (← N v) (← decKvs kvs))
  | ["dUpdateKw", v, kvs] => pure (.dUpdateKw (← N v) (← decKvs kvs))
  | ["dPop", v, k, d] => pure (.dPop (← N v) k (← decOV d))
  | ["dSetDefault", v, k, d] => pure (.dSetDefault (← N v) k (← decOV d))
  | ["dCopyM", u, v] => pure (.dCopyM (← N u) (← N v))
  | ["dClear", v] => pure (.dClear (← N v))
  | ["sNew", v, xs] => pure (.sNew (← N v) (← decVals xs))
  | ["sEmpty", v] => pure (.sEmpty (← N v))
  | ["sCopy", v, w] => pure (.sCopy (← N v) (← N w))
  | ["sOfSrc", v, x] => pure (.sOfSrc (← N v) (← Src.dec x))
  | ["sComp", v, w] => pure (.sComp (← N v) (← N w))
  | ["sAdd", v, x] => pure (.sAdd (← N v) (← Val.dec x))
  | ["sBin", o, u, v, w] => pure (.sBin (← SetOp.dec o) (← N u) (← N v) (← N w))
  | ["sIBin", o, v, w] => pure (.sIBin (← SetOp.dec o) (← N v) (← N w))
  | ["sUpdate", v, w] => pure (.sUpdate (← N v) (← N w))
  | ["sUpdateSrc", v, x] => pure (.sUpdateSrc (← N v) (← Src.dec x))
  | ["sRemove", v, x] => pure (.sRemove (← N v) (← Val.dec x))
  | ["sDiscard", v, x] => pure (.sDiscard (← N v) (← Val.dec x))
  | ["sClear", v] => pure (.sClear (← N v))
  | ["sCopyM", u, v] => pure (.sCopyM (← N u) (← N v))
  | _ => Option.none

def encHistory (kind : String) (ops : List Op) : String := kind ++ "/" ++ ";".intercalate (ops.map Op.enc)

def decHistory (s : String) : Option (String × List Op) :=
  match s.splitOn "/" with
  | [kind, body] => (if body == "" then some [] else (body.splitOn ";").mapM Op.dec).map (fun ops => (kind, ops))
  | _ => Option.none

end GPy.C17
