/-
C17 dict / set refinement: the model of py/dict.go (StringDict) and py/set.go over the object heap
REFINES the Python specification for EVERY history of dict / set / kind-generic operations, from every
heap without list objects whose dicts have distinct keys and whose sets have distinct members, under
  * canonicity of the set members (C17-K01 excluded: no two Python-equal values with different Go
    representation), and
  * no `next` on a dict/set iterator after a size change (C17-K02 excluded: `kfIterSizeChanged`).
-/
import GPy.C17.ListOps
import Mathlib.Data.List.Nodup
import Mathlib.Data.List.Perm.Subperm
namespace GPy.C17
namespace DS

/-! ### Go `==` and Python `==` -/

theorem goEq_iff (x y : Val) : goEq x y = true ↔ x = y := by simp [goEq]

theorem goEq_pyEq_str_left (s : String) (y : Val) : goEq (.str s) y = pyEq (.str s) y := by
  cases y <;> simp [goEq, pyEq, Val.num]

theorem goEq_pyEq_str_right (x : Val) (s : String) : goEq x (.str s) = pyEq x (.str s) := by
  cases x <;> simp [goEq, pyEq, Val.num]

/-- `x` is a member of `U` or a string (strings are always canonical) -/
def StrOr (U : List Val) (x : Val) : Prop := x ∈ U ∨ ∃ s, x = Val.str s

/-- pairwise agreement of Go `==` and Python `==` on a class of values -/
def Canon (P : Val → Prop) : Prop := ∀ x y, P x → P y → goEq x y = pyEq x y

theorem any_congr_mem (ks : List Val) (f g : Val → Bool) (h : ∀ y ∈ ks, f y = g y) : ks.any f = ks.any g := by
  induction ks with
  | nil => rfl
  | cons a as ih => simp [List.any_cons, h a (by simp), ih (fun y hy => h y (by simp [hy]))]

theorem all_congr_mem (ks : List Val) (f g : Val → Bool) (h : ∀ y ∈ ks, f y = g y) : ks.all f = ks.all g := by
  induction ks with
  | nil => rfl
  | cons a as ih => simp [List.all_cons, h a (by simp), ih (fun y hy => h y (by simp [hy]))]

section canon
variable {P : Val → Prop} (hc : Canon P)
include hc

theorem memBy_canon {ks : List Val} {x : Val} (hk : ∀ y ∈ ks, P y) (hx : P x) :
    memBy goEq ks x = memBy pyEq ks x := by
  unfold memBy
  exact any_congr_mem ks _ _ (fun y hy => hc y x (hk y hy) hx)

theorem setAddBy_canon {ks : List Val} {x : Val} (hk : ∀ y ∈ ks, P y) (hx : P x) :
    setAddBy goEq ks x = setAddBy pyEq ks x := by
  unfold setAddBy; rw [memBy_canon hc hk hx]

omit hc in
theorem setAddBy_mem {eqv : Val → Val → Bool} {ks : List Val} {x : Val} (hk : ∀ y ∈ ks, P y) (hx : P x) :
    ∀ y ∈ setAddBy eqv ks x, P y := by
  unfold setAddBy
  split
  · exact hk
  · intro y hy
    rcases List.mem_append.1 hy with h | h
    · exact hk y h
    · simp at h; subst h; exact hx

theorem setUpdateBy_canon {xs : List Val} : ∀ {ks : List Val}, (∀ y ∈ ks, P y) → (∀ y ∈ xs, P y) →
    setUpdateBy goEq ks xs = setUpdateBy pyEq ks xs ∧ ∀ y ∈ setUpdateBy goEq ks xs, P y := by
  induction xs with
  | nil => intro ks hk _; exact ⟨rfl, hk⟩
  | cons x xs ih =>
    intro ks hk hx
    have hx1 : P x := hx x (by simp)
    have hx2 : ∀ y ∈ xs, P y := fun y hy => hx y (by simp [hy])
    have := ih (ks := setAddBy goEq ks x) (setAddBy_mem hk hx1) hx2
    simp only [setUpdateBy, List.foldl_cons] at this ⊢
    rw [← setAddBy_canon hc hk hx1]
    exact this

theorem setOfListBy_canon {xs : List Val} (hx : ∀ y ∈ xs, P y) :
    setOfListBy goEq xs = setOfListBy pyEq xs ∧ ∀ y ∈ setOfListBy goEq xs, P y :=
  setUpdateBy_canon hc (ks := []) (by simp) hx

theorem setDelBy_canon {ks : List Val} {x : Val} (hk : ∀ y ∈ ks, P y) (hx : P x) :
    setDelBy goEq ks x = setDelBy pyEq ks x := by
  unfold setDelBy
  exact List.filter_congr (fun y hy => by rw [hc y x (hk y hy) hx])

theorem setBinBy_canon (op : SetOp) {a b : List Val} (ha : ∀ y ∈ a, P y) (hb : ∀ y ∈ b, P y) :
    setBinBy goEq op a b = setBinBy pyEq op a b := by
  have e1 : b.filter (memBy goEq a) = b.filter (memBy pyEq a) :=
    List.filter_congr (fun y hy => memBy_canon hc ha (hb y hy))
  have e2 : b.filter (fun x => !memBy goEq a x) = b.filter (fun x => !memBy pyEq a x) :=
    List.filter_congr (fun y hy => by rw [memBy_canon hc ha (hb y hy)])
  have e3 : a.filter (fun x => !memBy goEq b x) = a.filter (fun x => !memBy pyEq b x) :=
    List.filter_congr (fun y hy => by rw [memBy_canon hc hb (ha y hy)])
  cases op <;> simp only [setBinBy, e1, e2, e3]

end canon

theorem setBinBy_mem {P : Val → Prop} (eqv : Val → Val → Bool) (op : SetOp) {a b : List Val}
    (ha : ∀ y ∈ a, P y) (hb : ∀ y ∈ b, P y) : ∀ y ∈ setBinBy eqv op a b, P y := by
  intro y hy
  cases op <;> simp only [setBinBy, List.mem_append, List.mem_filter] at hy
  · exact hb y hy.1
  · rcases hy with h | h
    · exact ha y h
    · exact hb y h.1
  · exact ha y hy.1
  · rcases hy with h | h
    · exact ha y h.1
    · exact hb y h.1

theorem setDelBy_mem {P : Val → Prop} (eqv : Val → Val → Bool) {ks : List Val} (x : Val)
    (hk : ∀ y ∈ ks, P y) : ∀ y ∈ setDelBy eqv ks x, P y := by
  intro y hy
  simp only [setDelBy, List.mem_filter] at hy
  exact hk y hy.1

/-! ### distinct members are kept distinct (Go map semantics) -/

theorem memBy_goEq (ks : List Val) (x : Val) : memBy goEq ks x = true ↔ x ∈ ks := by
  simp [memBy, goEq]

theorem setAddBy_nodup {ks : List Val} (x : Val) (hk : ks.Nodup) : (setAddBy goEq ks x).Nodup := by
  unfold setAddBy
  split
  · exact hk
  · rename_i hm
    rw [memBy_goEq] at hm
    refine List.Nodup.append hk (by simp) ?_
    intro y hy hy'
    simp at hy'; subst hy'; exact hm hy

theorem setUpdateBy_nodup (xs : List Val) : ∀ {ks : List Val}, ks.Nodup → (setUpdateBy goEq ks xs).Nodup := by
  induction xs with
  | nil => intro ks hk; exact hk
  | cons x xs ih => intro ks hk; exact ih (setAddBy_nodup x hk)

theorem setOfListBy_nodup (xs : List Val) : (setOfListBy goEq xs).Nodup :=
  setUpdateBy_nodup xs (ks := []) List.nodup_nil

theorem setDelBy_nodup {ks : List Val} (x : Val) (hk : ks.Nodup) : (setDelBy goEq ks x).Nodup :=
  hk.filter _

theorem setBin_nodup (op : SetOp) {a b : List Val} (ha : a.Nodup) (hb : b.Nodup) : (setBin op a b).Nodup := by
  cases op <;> simp only [setBin, setBinBy]
  · exact hb.filter _
  · refine List.Nodup.append ha (hb.filter _) ?_
    intro x hx hx'
    simp only [List.mem_filter, Bool.not_eq_true'] at hx'
    have := (memBy_goEq a x).2 hx
    simp [this] at hx'
  · exact ha.filter _
  · refine List.Nodup.append (ha.filter _) (hb.filter _) ?_
    intro x hx hx'
    simp only [List.mem_filter, Bool.not_eq_true'] at hx hx'
    have := (memBy_goEq a x).2 hx.1
    simp [this] at hx'

/-! ### dicts: distinct keys -/

theorem dictGet_isSome (m : List (String × Val)) (k : String) : (dictGet m k).isSome = true ↔ k ∈ m.map Prod.fst := by
  simp [dictGet, List.find?_isSome]

theorem dictGet_some_mem {m : List (String × Val)} {k : String} {y : Val} (e : dictGet m k = some y) :
    k ∈ m.map Prod.fst := by
  rw [← dictGet_isSome, e]; rfl

theorem dictSet_keys (m : List (String × Val)) (k : String) (x : Val) :
    (dictSet m k x).map Prod.fst = if k ∈ m.map Prod.fst then m.map Prod.fst else m.map Prod.fst ++ [k] := by
  unfold dictSet
  have hany : (m.any (·.1 == k)) = true ↔ k ∈ m.map Prod.fst := by simp
  by_cases hk : k ∈ m.map Prod.fst
  · rw [if_pos (hany.2 hk), if_pos hk, List.map_map]
    apply List.map_congr_left
    intro p _
    simp only [Function.comp]
    split
    · rename_i h; exact (by simpa using h : p.1 = k).symm
    · rfl
  · have : ¬ (m.any (·.1 == k)) = true := fun h => hk (hany.1 h)
    rw [if_neg this, if_neg hk]; simp

theorem dictSet_nodup {m : List (String × Val)} (k : String) (x : Val) (hm : (m.map Prod.fst).Nodup) :
    ((dictSet m k x).map Prod.fst).Nodup := by
  rw [dictSet_keys]
  split
  · exact hm
  · rename_i hk
    refine List.Nodup.append hm (by simp) ?_
    intro y hy hy'
    simp at hy'; subst hy'; exact hk hy

theorem dictDel_nodup {m : List (String × Val)} (k : String) (hm : (m.map Prod.fst).Nodup) :
    ((dictDel m k).map Prod.fst).Nodup :=
  List.Nodup.sublist (List.Sublist.map _ List.filter_sublist) hm

theorem dictMerge_nodup (o : List (String × Val)) : ∀ {m : List (String × Val)}, (m.map Prod.fst).Nodup →
    ((dictMerge m o).map Prod.fst).Nodup := by
  induction o with
  | nil => intro m hm; exact hm
  | cons p o ih => intro m hm; exact ih (dictSet_nodup p.1 p.2 hm)

theorem dictOfList_nodup (kvs : List (String × Val)) : ((dictOfList kvs).map Prod.fst).Nodup :=
  dictMerge_nodup kvs (m := []) (by simp)

/-! ### equality: Go's size-then-inclusion test is Python's mutual inclusion on distinct keys -/

theorem subset_antisymm_of_length {α : Type} {a b : List α} (ha : a.Nodup) (hab : a ⊆ b)
    (hl : a.length = b.length) : b ⊆ a :=
  ((List.subperm_of_subset ha hab).perm_of_length_le (by omega)).symm.subset

theorem length_eq_of_subsets {α : Type} {a b : List α} (ha : a.Nodup) (hb : b.Nodup) (hab : a ⊆ b)
    (hba : b ⊆ a) : a.length = b.length :=
  Nat.le_antisymm (List.subperm_of_subset ha hab).length_le (List.subperm_of_subset hb hba).length_le

theorem dictEq_spec {a b : List (String × Val)} (ha : (a.map Prod.fst).Nodup) (hb : (b.map Prod.fst).Nodup) :
    dictEq a b = specDictEq a b := by
  unfold dictEq specDictEq
  cases hA : a.all (fun p => match dictGet b p.1 with | some y => pyEq p.2 y | Option.none => false) with
  | false => simp
  | true =>
    have hab : a.map Prod.fst ⊆ b.map Prod.fst := by
      intro k hk
      obtain ⟨p, hp, rfl⟩ := List.mem_map.1 hk
      have := List.all_eq_true.1 hA p hp
      cases e : dictGet b p.1 with
      | none => simp [e] at this
      | some y => exact dictGet_some_mem e
    simp only [Bool.and_true, Bool.true_and]
    rw [Bool.eq_iff_iff]
    simp only [beq_iff_eq, List.all_eq_true, dictGet_isSome]
    constructor
    · intro hl p hp
      have hl' : (a.map Prod.fst).length = (b.map Prod.fst).length := by simpa using hl
      exact subset_antisymm_of_length ha hab hl' (List.mem_map_of_mem hp)
    · intro hba
      have hba' : b.map Prod.fst ⊆ a.map Prod.fst := by
        intro k hk
        obtain ⟨p, hp, rfl⟩ := List.mem_map.1 hk
        exact hba p hp
      simpa using length_eq_of_subsets ha hb hab hba'

theorem setEq_spec {P : Val → Prop} (hc : Canon P) {a b : List Val} (ha : a.Nodup) (hb : b.Nodup)
    (pa : ∀ y ∈ a, P y) (pb : ∀ y ∈ b, P y) : setEq a b = specSetEq a b := by
  have h1 : ∀ x ∈ a, b.any (pyEq x ·) = decide (x ∈ b) := by
    intro x hx
    rw [any_congr_mem b (pyEq x ·) (goEq x ·) (fun y hy => (hc x y (pa x hx) (pb y hy)).symm)]
    rw [Bool.eq_iff_iff]; simp [goEq]
  have h2 : ∀ x ∈ a, memBy pyEq b x = decide (x ∈ b) := by
    intro x hx
    rw [← memBy_canon hc pb (pa x hx), Bool.eq_iff_iff, memBy_goEq]; simp
  have h3 : ∀ x ∈ b, memBy pyEq a x = decide (x ∈ a) := by
    intro x hx
    rw [← memBy_canon hc pa (pb x hx), Bool.eq_iff_iff, memBy_goEq]; simp
  unfold setEq specSetEq
  rw [all_congr_mem a _ _ h1, all_congr_mem a _ _ h2, all_congr_mem b _ _ h3]
  cases hA : a.all (fun x => decide (x ∈ b)) with
  | false => simp
  | true =>
    have hab : a ⊆ b := by
      intro x hx
      simpa using List.all_eq_true.1 hA x hx
    simp only [Bool.and_true, Bool.true_and]
    rw [Bool.eq_iff_iff]
    simp only [beq_iff_eq, List.all_eq_true, decide_eq_true_eq]
    exact ⟨fun hl => subset_antisymm_of_length ha hab hl, fun hba => length_eq_of_subsets ha hb hab hba⟩

/-! ### the abstraction commutes with the heap primitives -/

theorem abs_obj (h : MHeap) (v : Nat) : (abs h).obj v = (h.obj v).map (absObj h.arrs) := by
  simp [SHeap.obj, MHeap.obj, abs]

theorem abs_id (h : MHeap) (v : Nat) : (abs h).id v = h.id v := rfl

theorem abs_setObj (h : MHeap) (id : Nat) (o : MObj) : abs (h.setObj id o) = (abs h).setObj id (absObj h.arrs o) := by
  simp [abs, MHeap.setObj, SHeap.setObj, List.map_set]

theorem abs_bind (h : MHeap) (v id : Nat) : abs (h.bind v id) = (abs h).bind v id := rfl

theorem abs_new (h : MHeap) (v : Nat) (o : MObj) :
    abs ((h.alloc o).1.bind v (h.alloc o).2) = (abs h).new v (absObj h.arrs o) := by
  simp [abs, MHeap.alloc, MHeap.bind, SHeap.new, SHeap.alloc, SHeap.bind]

end DS

/-! ### the operations and invariants of dict / set histories -/

/-- dict / set operations and the kind-generic ones -/
def dsOp : Op → Bool
  | .alias .. | .len .. | .eq .. | .ne .. | .contains .. | .iter .. | .next .. | .drain ..
  | .dNew .. | .dCopy .. | .dOfPairs .. | .dOfKw .. | .dComp .. | .dSet .. | .dGet .. | .dDel .. | .dGetM ..
  | .dHas .. | .dKeys .. | .dUpdate .. | .dUpdatePairs .. | .dUpdateKw .. | .dPop .. | .dSetDefault ..
  | .dCopyM .. | .dClear ..
  | .sNew .. | .sEmpty .. | .sCopy .. | .sOfSrc .. | .sComp .. | .sAdd .. | .sBin .. | .sIBin ..
  | .sUpdate .. | .sUpdateSrc .. | .sRemove .. | .sDiscard .. | .sClear .. | .sCopyM .. => true
  | _ => false

/-- no list objects: the heaps of dict and set histories -/
def NoList (h : MHeap) : Prop := ∀ (i : Nat) (hd : Hdr), h.objs[i]? ≠ some (MObj.list hd)

/-- Go map semantics: the keys of a dict, the members of a set are pairwise distinct -/
structure KInv (h : MHeap) : Prop where
  dict_nodup : ∀ (i : Nat) (m : List (String × Val)), h.objs[i]? = some (MObj.dict m) → (m.map Prod.fst).Nodup
  set_nodup : ∀ (i : Nat) (ks : List Val), h.objs[i]? = some (MObj.set ks) → ks.Nodup

/-- every member of every set object lies in `U` -/
def SetsIn (h : MHeap) (U : List Val) : Prop :=
  ∀ (i : Nat) (ks : List Val), h.objs[i]? = some (MObj.set ks) → ∀ x ∈ ks, x ∈ U

/-- Go `==` is Python `==` on `U` (C17-K01 excluded) -/
def CanonOn (U : List Val) : Prop := ∀ x ∈ U, ∀ y ∈ U, goEq x y = pyEq x y

/-- every member of every set object lies in `U` or is a string: the form of `SetsIn` that every
operation preserves (`set("ab")` has the members "a", "b", which the operation does not mention as scalars) -/
def SetsInS (h : MHeap) (U : List Val) : Prop :=
  ∀ (i : Nat) (ks : List Val), h.objs[i]? = some (MObj.set ks) → ∀ x ∈ ks, DS.StrOr U x

/-- the items of the literal source of `set(<src>)` / `s.update(<src>)` (for a str: its characters) -/
def Op.srcItems : Op → List Val
  | .sOfSrc _ s => (match s.items with | .ok xs => xs | .error _ => [])
  | .sUpdateSrc _ s => (match s.items with | .ok xs => xs | .error _ => [])
  | _ => []

namespace DS

theorem SetsIn.weaken {h : MHeap} {U : List Val} (hU : SetsIn h U) : SetsInS h U :=
  fun i ks e x hx => Or.inl (hU i ks e x hx)

theorem canon_strOr {U : List Val} (hc : CanonOn U) : Canon (StrOr U) := by
  intro x y hx hy
  rcases hx with hx | ⟨s, rfl⟩
  · rcases hy with hy | ⟨s, rfl⟩
    · exact hc x hx y hy
    · exact goEq_pyEq_str_right x s
  · exact goEq_pyEq_str_left s y

theorem abs_new' (h : MHeap) (v : Nat) (o : MObj) :
    (abs (h.alloc o).1).bind v (h.alloc o).2 = (abs h).new v (absObj h.arrs o) := by
  rw [← abs_bind]; exact abs_new h v o

/-! ### iterators over a snapshot -/

theorem obj_lookup {h : MHeap} {v : Nat} {o : MObj} (e : h.obj v = some o) : h.objs[h.id v]? = some o := e

theorem abs_objs_get (h : MHeap) (i : Nat) : (abs h).objs[i]? = (h.objs[i]?).map (absObj h.arrs) := by
  simp [abs]

/-- the C17-K02 exclusion, as a property of the iterator's sequence -/
def Unchanged (s : SHeap) : ISeq → Prop
  | .tuple _ (some (id, n)) => s.sizeOf id = some n
  | _ => True

theorem iterNext_abs (h : MHeap) (nl : NoList h) (pos : Nat) (seq : ISeq)
    (hu : Unchanged (abs h) seq) :
    (iterNext h.arrs h.objs pos seq).1 = (specNext (abs h) pos (absSeq seq)).1 ∧
    absObj h.arrs (iterNext h.arrs h.objs pos seq).2 = (specNext (abs h) pos (absSeq seq)).2 := by
  cases seq with
  | tuple xs o =>
    rcases o with _ | ⟨id, n⟩
    · simp only [iterNext, specNext, absSeq]
      split <;> simp [absObj, absSeq]
    · simp only [Unchanged] at hu
      simp only [iterNext, specNext, absSeq, hu, bne_self_eq_false]
      split <;> simp [absObj, absSeq]
  | obj id =>
    simp only [iterNext, specNext, absSeq, abs_objs_get]
    cases e : h.objs[id]? with
    | none => simp [absObj, absSeq]
    | some o =>
      cases o with
      | list hd => exact absurd e (nl id hd)
      | _ => simp [absObj, absSeq]

theorem iterDrain_abs (h : MHeap) (nl : NoList h) (seq : ISeq)
    (hu : Unchanged (abs h) seq) : ∀ (fuel pos : Nat),
    (iterDrain h.arrs h.objs fuel pos seq).1 = (specDrain (abs h) fuel pos (absSeq seq)).1 ∧
    absObj h.arrs (iterDrain h.arrs h.objs fuel pos seq).2 = (specDrain (abs h) fuel pos (absSeq seq)).2 := by
  intro fuel
  induction fuel with
  | zero => intro pos; simp [iterDrain, specDrain, absObj]
  | succ n ih =>
    intro pos
    cases seq with
    | tuple xs o =>
      have := ih (pos + 1)
      simp only [absSeq] at this
      rcases o with _ | ⟨id, n⟩
      · simp only [iterDrain, specDrain, iterNext, specNext, absSeq]
        by_cases hp : pos ≥ xs.length
        · simp [hp, absObj, absSeq]
        · simp [hp, this.1, this.2]
      · simp only [Unchanged] at hu
        simp only [iterDrain, specDrain, iterNext, specNext, absSeq, hu, bne_self_eq_false]
        by_cases hp : pos ≥ xs.length
        · simp [hp, absObj, absSeq]
        · simp [hp, this.1, this.2]
    | obj id =>
      simp only [iterDrain, specDrain, iterNext, specNext, absSeq, abs_objs_get]
      cases e : h.objs[id]? with
      | none => simp [absObj, absSeq]
      | some o =>
        cases o with
        | list hd => exact absurd e (nl id hd)
        | _ => simp [absObj, absSeq]

theorem drainFuel_abs (h : MHeap) (nl : NoList h) (seq : ISeq) :
    drainFuel h.arrs h.objs seq = specFuel (abs h) (absSeq seq) := by
  cases seq with
  | tuple xs o => rfl
  | obj id =>
    simp only [drainFuel, specFuel, absSeq, abs_objs_get]
    cases e : h.objs[id]? with
    | none => rfl
    | some o =>
      cases o with
      | list hd => exact absurd e (nl id hd)
      | _ => rfl

/-! ### the invariant, object by object -/

/-- what the invariants say about one object (`P`: where the set members lie) -/
def Good (P : Val → Prop) : MObj → Prop
  | .list _ => False
  | .dict m => (m.map Prod.fst).Nodup
  | .set ks => ks.Nodup ∧ ∀ x ∈ ks, P x
  | .iter _ _ => True

/-- `NoList ∧ KInv ∧ (set members in P)` in one piece -/
def GInv (P : Val → Prop) (h : MHeap) : Prop := ∀ (i : Nat) (o : MObj), h.objs[i]? = some o → Good P o

theorem ginv_of {h : MHeap} {U : List Val} (nl : NoList h) (ki : KInv h) (hU : SetsInS h U) : GInv (StrOr U) h := by
  intro i o e
  cases o with
  | list hd => exact nl i hd e
  | dict m => exact ki.dict_nodup i m e
  | set ks => exact ⟨ki.set_nodup i ks e, hU i ks e⟩
  | iter p sq => trivial

theorem ginv_of_setsIn {h : MHeap} {U : List Val} (nl : NoList h) (ki : KInv h) (hU : SetsIn h U) :
    GInv (fun x => x ∈ U) h := by
  intro i o e
  cases o with
  | list hd => exact nl i hd e
  | dict m => exact ki.dict_nodup i m e
  | set ks => exact ⟨ki.set_nodup i ks e, hU i ks e⟩
  | iter p sq => trivial

theorem GInv.noList {h : MHeap} {P : Val → Prop} (g : GInv P h) : NoList h := fun i _ e => g i _ e

theorem GInv.kinv {h : MHeap} {P : Val → Prop} (g : GInv P h) : KInv h :=
  ⟨fun i _ e => g i _ e, fun i _ e => (g i _ e).1⟩

theorem GInv.setsInS {h : MHeap} {U : List Val} (g : GInv (StrOr U) h) : SetsInS h U := fun i _ e => (g i _ e).2

theorem GInv.setsIn {h : MHeap} {U : List Val} (g : GInv (fun x => x ∈ U) h) : SetsIn h U := fun i _ e => (g i _ e).2

theorem ginv_setObj {h : MHeap} {P : Val → Prop} (g : GInv P h) (id : Nat) {o : MObj} (go : Good P o) :
    GInv P (h.setObj id o) := by
  intro i o' e
  simp only [MHeap.setObj, List.getElem?_set] at e
  split at e
  · split at e
    · cases e; exact go
    · cases e
  · exact g i o' e

theorem ginv_bind {h : MHeap} {P : Val → Prop} (g : GInv P h) (v id : Nat) : GInv P (h.bind v id) := g

theorem ginv_new {h : MHeap} {P : Val → Prop} (g : GInv P h) (v : Nat) {o : MObj} (go : Good P o) :
    GInv P ((h.alloc o).1.bind v (h.alloc o).2) := by
  intro i o' e
  simp only [MHeap.alloc, MHeap.bind, List.getElem?_append] at e
  split at e
  · exact g i o' e
  · rcases hi : i - h.objs.length with _ | n
    · simp [hi] at e; subst e; exact go
    · simp [hi] at e

theorem src_items_strOr {U : List Val} (s : Src) (hv : ∀ x ∈ s.vals, x ∈ U) {xs : List Val}
    (e : s.items = .ok xs) : ∀ y ∈ xs, StrOr U y := by
  have hstr : ∀ t : String, ∀ y ∈ t.toList.map (fun c => Val.str (String.singleton c)), StrOr U y := by
    intro t y hy
    obtain ⟨c, _, rfl⟩ := List.mem_map.1 hy
    exact Or.inr ⟨_, rfl⟩
  cases s with
  | tuple ys => simp only [Src.items, Except.ok.injEq] at e; subst e; exact fun y hy => Or.inl (hv y hy)
  | str t => simp only [Src.items, Except.ok.injEq] at e; subst e; exact hstr t
  | scalar v =>
    cases v with
    | str t => simp only [Src.items, Except.ok.injEq] at e; subst e; exact hstr t
    | _ => simp [Src.items] at e

theorem unchanged_of_next {h : MHeap} {t pos : Nat} {seq : ISeq} (e : h.obj t = some (.iter pos seq))
    (hk2 : kfIterSizeChanged (abs h) (.next t) = false) : Unchanged (abs h) seq := by
  cases seq with
  | obj id => trivial
  | tuple xs o =>
    rcases o with _ | ⟨id, n⟩
    · trivial
    · simpa [kfIterSizeChanged, abs_obj, e, absObj, absSeq, Unchanged] using hk2

theorem unchanged_of_drain {h : MHeap} {t pos : Nat} {seq : ISeq} (e : h.obj t = some (.iter pos seq))
    (hk2 : kfIterSizeChanged (abs h) (.drain t) = false) : Unchanged (abs h) seq := by
  cases seq with
  | obj id => trivial
  | tuple xs o =>
    rcases o with _ | ⟨id, n⟩
    · trivial
    · simpa [kfIterSizeChanged, abs_obj, e, absObj, absSeq, Unchanged] using hk2

set_option linter.unusedSimpArgs false

local macro "ds_simp" : tactic =>
  `(tactic| (simp [absObj, absSeq, DS.abs_setObj, DS.abs_id, DS.abs_new, DS.abs_new', DS.abs_bind] <;> try rfl))

/-- one-object operation that needs nothing of the heap -/
local macro "ds_one" t:term : tactic =>
  `(tactic| (simp only [step, specStep, DS.abs_obj]; rcases $t:term with _ | (_|_|_|_) <;> ds_simp))

local macro "ds_two" t:term "," u:term : tactic =>
  `(tactic| (simp only [step, specStep, DS.abs_obj]
             rcases $t:term with _ | (_|_|_|_) <;> rcases $u:term with _ | (_|_|_|_) <;> ds_simp))

theorem step_refines (perm : Bool → List Val → List Val) (h : MHeap) (U : List Val) (g : GInv (StrOr U) h)
    (hc : CanonOn U) (op : Op) (hop : dsOp op = true) (hv : ∀ x ∈ op.vals, x ∈ U)
    (hk2 : kfIterSizeChanged (abs h) op = false) :
    abs (step h op).1 = (specStep perm (abs h) op).1 ∧ (step h op).2 = (specStep perm (abs h) op).2 := by
  have hcP := canon_strOr hc
  have nl := g.noList
  cases op <;> simp [dsOp] at hop
  case «alias» v w => simp [step, specStep, abs_bind, abs_id]
  case dNew v kvs => simp only [step, specStep]; ds_simp
  case dOfPairs v kvs => simp only [step, specStep]; ds_simp
  case dOfKw v kvs => simp only [step, specStep]; ds_simp
  case dCopy v w => ds_one (h.obj w)
  case dComp v w x => ds_one (h.obj w)
  case dSet v k x => ds_one (h.obj v)
  case dGet v k => ds_one (h.obj v)
  case dGetM v k d => ds_one (h.obj v)
  case dHas v k => ds_one (h.obj v)
  case dKeys v k => ds_one (h.obj v)
  case dUpdatePairs v k => ds_one (h.obj v)
  case dUpdateKw v k => ds_one (h.obj v)
  case dCopyM u v => ds_one (h.obj v)
  case dClear v => ds_one (h.obj v)
  case dUpdate v w => ds_two (h.obj v), (h.obj w)
  case dDel v k => ds_one (h.obj v); split <;> ds_simp
  case dPop v k d => ds_one (h.obj v); rename_i m; cases hg : dictGet m k <;> ds_simp
  case dSetDefault v k d => ds_one (h.obj v); rename_i m; cases hg : dictGet m k <;> ds_simp
  case sEmpty v => simp only [step, specStep]; ds_simp
  case sClear v => ds_one (h.obj v)
  case len v =>
    simp only [step, specStep, abs_obj]
    cases e : h.obj v with
    | none => simp
    | some o =>
      cases o with
      | list hd => exact absurd (obj_lookup e) (nl _ hd)
      | _ => ds_simp
  case contains v x =>
    simp only [step, specStep, abs_obj]
    cases e : h.obj v with
    | none => simp
    | some o =>
      cases o with
      | list hd => exact absurd (obj_lookup e) (nl _ hd)
      | _ => ds_simp
  case iter t v =>
    simp only [step, specStep, abs_obj]
    cases e : h.obj v with
    | none => simp
    | some o =>
      cases o with
      | list hd => exact absurd (obj_lookup e) (nl _ hd)
      | _ => ds_simp
  case eq v w =>
    simp only [step, specStep, abs_obj]
    cases ev : h.obj v with
    | none => rcases h.obj w with _ | (_|_|_|_) <;> ds_simp
    | some o =>
      cases ew : h.obj w with
      | none => cases o <;> ds_simp
      | some o' =>
        have gv := g _ _ (obj_lookup ev)
        have gw := g _ _ (obj_lookup ew)
        cases o with
        | list hd => exact gv.elim
        | dict a =>
          cases o' with
          | list hd => exact gw.elim
          | dict b => simp [absObj, dictEq_spec gv gw]
          | _ => ds_simp
        | set a =>
          cases o' with
          | list hd => exact gw.elim
          | set b => simp [absObj, setEq_spec hcP gv.1 gw.1 gv.2 gw.2]
          | _ => ds_simp
        | iter p sq => cases o' <;> ds_simp
  case ne v w =>
    simp only [step, specStep, abs_obj]
    cases ev : h.obj v with
    | none => rcases h.obj w with _ | (_|_|_|_) <;> ds_simp
    | some o =>
      cases ew : h.obj w with
      | none => cases o <;> ds_simp
      | some o' =>
        have gv := g _ _ (obj_lookup ev)
        have gw := g _ _ (obj_lookup ew)
        cases o with
        | list hd => exact gv.elim
        | dict a =>
          cases o' with
          | list hd => exact gw.elim
          | dict b => simp [absObj, dictEq_spec gv gw]
          | _ => ds_simp
        | set a =>
          cases o' with
          | list hd => exact gw.elim
          | set b => simp [absObj, setEq_spec hcP gv.1 gw.1 gv.2 gw.2]
          | _ => ds_simp
        | iter p sq => cases o' <;> ds_simp
  case next t =>
    simp only [step, specStep, abs_obj]
    cases e : h.obj t with
    | none => simp
    | some o =>
      cases o with
      | iter pos seq =>
        obtain ⟨h1, h2⟩ := iterNext_abs h nl pos seq (unchanged_of_next e hk2)
        simp only [Option.map_some, absObj]
        rcases hm : iterNext h.arrs h.objs pos seq with ⟨rm, im⟩
        rcases hsp : specNext (abs h) pos (absSeq seq) with ⟨rs, is⟩
        simp only [hm, hsp] at h1 h2
        subst h1; subst h2
        cases rm <;> exact ⟨abs_setObj _ _ _, rfl⟩
      | _ => ds_simp
  case drain t =>
    simp only [step, specStep, abs_obj]
    cases e : h.obj t with
    | none => simp
    | some o =>
      cases o with
      | iter pos seq =>
        obtain ⟨h1, h2⟩ := iterDrain_abs h nl seq (unchanged_of_drain e hk2) (drainFuel h.arrs h.objs seq) pos
        simp only [Option.map_some, absObj]
        rw [drainFuel_abs h nl seq] at h1 h2 ⊢
        rcases hm : iterDrain h.arrs h.objs (specFuel (abs h) (absSeq seq)) pos seq with ⟨rm, im⟩
        rcases hsp : specDrain (abs h) (specFuel (abs h) (absSeq seq)) pos (absSeq seq) with ⟨rs, is⟩
        simp only [hm, hsp] at h1 h2
        subst h1; subst h2
        exact ⟨abs_setObj _ _ _, rfl⟩
      | _ => ds_simp
  case sNew v xs =>
    have hx : ∀ y ∈ xs, StrOr U y := fun y hy => Or.inl (hv y hy)
    simp only [step, specStep]
    simp [absObj, abs_new, abs_new', setOfList, (setOfListBy_canon hcP hx).1]
  case sCopy v w =>
    simp only [step, specStep, abs_obj]
    cases e : h.obj w with
    | none => simp
    | some o =>
      cases o with
      | set ks =>
        have gk := g _ _ (obj_lookup e)
        simp [absObj, abs_new, abs_new', setOfList, (setOfListBy_canon hcP gk.2).1]
      | _ => ds_simp
  case sComp v w =>
    simp only [step, specStep, abs_obj]
    cases e : h.obj w with
    | none => simp
    | some o =>
      cases o with
      | set ks =>
        have gk := g _ _ (obj_lookup e)
        simp [absObj, abs_new, abs_new', setOfList, (setOfListBy_canon hcP gk.2).1]
      | _ => ds_simp
  case sCopyM u v =>
    simp only [step, specStep, abs_obj]
    cases e : h.obj v with
    | none => simp
    | some o =>
      cases o with
      | set ks =>
        have gk := g _ _ (obj_lookup e)
        simp [absObj, abs_new, abs_new', setOfList, (setOfListBy_canon hcP gk.2).1]
      | _ => ds_simp
  case sOfSrc v s =>
    simp only [step, specStep]
    cases e : s.items with
    | error er => simp
    | ok xs =>
      have hx := src_items_strOr s hv e
      simp [absObj, abs_new, abs_new', setOfList, (setOfListBy_canon hcP hx).1]
  case sAdd v x =>
    have hx : StrOr U x := Or.inl (hv x (by simp [Op.vals]))
    simp only [step, specStep, abs_obj]
    cases e : h.obj v with
    | none => simp
    | some o =>
      cases o with
      | set ks =>
        have gk := g _ _ (obj_lookup e)
        simp [absObj, abs_setObj, abs_id, setAdd, setAddBy_canon hcP gk.2 hx]
      | _ => ds_simp
  case sDiscard v x =>
    have hx : StrOr U x := Or.inl (hv x (by simp [Op.vals]))
    simp only [step, specStep, abs_obj]
    cases e : h.obj v with
    | none => simp
    | some o =>
      cases o with
      | set ks =>
        have gk := g _ _ (obj_lookup e)
        simp [absObj, abs_setObj, abs_id, setDelBy_canon hcP gk.2 hx]
      | _ => ds_simp
  case sRemove v x =>
    have hx : StrOr U x := Or.inl (hv x (by simp [Op.vals]))
    simp only [step, specStep, abs_obj]
    cases e : h.obj v with
    | none => simp
    | some o =>
      cases o with
      | set ks =>
        have gk := g _ _ (obj_lookup e)
        simp only [Option.map_some, absObj, memBy_canon hcP gk.2 hx, setDelBy_canon hcP gk.2 hx]
        split <;> ds_simp
      | _ => ds_simp
  case sUpdateSrc v s =>
    simp only [step, specStep, abs_obj]
    cases e : h.obj v with
    | none => simp
    | some o =>
      cases o with
      | set ks =>
        have gk := g _ _ (obj_lookup e)
        simp only [Option.map_some, absObj]
        cases es : s.items with
        | error er => simp
        | ok xs =>
          have hx := src_items_strOr s hv es
          simp [absObj, abs_setObj, abs_id, (setUpdateBy_canon hcP gk.2 hx).1]
      | _ => ds_simp
  case sBin bop u v w =>
    simp only [step, specStep, abs_obj]
    cases ev : h.obj v with
    | none => rcases h.obj w with _ | (_|_|_|_) <;> ds_simp
    | some o =>
      cases ew : h.obj w with
      | none => cases o <;> ds_simp
      | some o' =>
        have gv := g _ _ (obj_lookup ev)
        have gw := g _ _ (obj_lookup ew)
        cases o with
        | set a =>
          cases o' with
          | set b => simp [absObj, abs_new, abs_new', setBin, specSetBin, setBinBy_canon hcP bop gv.2 gw.2]
          | _ => ds_simp
        | _ => cases o' <;> ds_simp
  case sIBin bop v w =>
    simp only [step, specStep, abs_obj]
    cases ev : h.obj v with
    | none => rcases h.obj w with _ | (_|_|_|_) <;> ds_simp
    | some o =>
      cases ew : h.obj w with
      | none => cases o <;> ds_simp
      | some o' =>
        have gv := g _ _ (obj_lookup ev)
        have gw := g _ _ (obj_lookup ew)
        cases o with
        | set a =>
          cases o' with
          | set b => simp [absObj, abs_setObj, abs_id, setBin, specSetBin, setBinBy_canon hcP bop gv.2 gw.2]
          | _ => ds_simp
        | _ => cases o' <;> ds_simp
  case sUpdate v w =>
    simp only [step, specStep, abs_obj]
    cases ev : h.obj v with
    | none => rcases h.obj w with _ | (_|_|_|_) <;> ds_simp
    | some o =>
      cases ew : h.obj w with
      | none => cases o <;> ds_simp
      | some o' =>
        have gv := g _ _ (obj_lookup ev)
        have gw := g _ _ (obj_lookup ew)
        cases o with
        | set a =>
          cases o' with
          | set b => simp [absObj, abs_setObj, abs_id, (setUpdateBy_canon hcP gv.2 gw.2).1]
          | _ => ds_simp
        | _ => cases o' <;> ds_simp


theorem setUpdateBy_mem {P : Val → Prop} (eqv : Val → Val → Bool) {xs : List Val} :
    ∀ {ks : List Val}, (∀ y ∈ ks, P y) → (∀ y ∈ xs, P y) → ∀ y ∈ setUpdateBy eqv ks xs, P y := by
  induction xs with
  | nil => intro ks hk _; exact hk
  | cons x xs ih =>
    intro ks hk hx
    exact ih (ks := setAddBy eqv ks x) (setAddBy_mem hk (hx x (by simp))) (fun y hy => hx y (by simp [hy]))

theorem setOfListBy_mem {P : Val → Prop} (eqv : Val → Val → Bool) {xs : List Val} (hx : ∀ y ∈ xs, P y) :
    ∀ y ∈ setOfListBy eqv xs, P y := setUpdateBy_mem eqv (ks := []) (by simp) hx

theorem iterNext_good (P : Val → Prop) (arrs : Arrs) (objs : List MObj) (pos : Nat) (seq : ISeq) :
    Good P (iterNext arrs objs pos seq).2 := by
  unfold iterNext
  split
  · split <;> trivial
  · split
    · split <;> trivial
    · trivial

theorem iterDrain_good (P : Val → Prop) (arrs : Arrs) (objs : List MObj) : ∀ (fuel pos : Nat) (seq : ISeq),
    Good P (iterDrain arrs objs fuel pos seq).2 := by
  intro fuel
  induction fuel with
  | zero => intro pos seq; trivial
  | succ n ih =>
    intro pos seq
    have hn := iterNext_good P arrs objs pos seq
    unfold iterDrain
    split
    · exact ih _ _
    · rename_i r o hne heq
      rw [heq] at hn; exact hn

/-- every dict / set / generic operation keeps: no list objects, distinct keys, distinct members,
members in `U` or strings -/
theorem step_inv (h : MHeap) (P : Val → Prop) (g : GInv P h) (op : Op) (hop : dsOp op = true)
    (hv : ∀ x ∈ op.vals, P x) (hs : ∀ y ∈ op.srcItems, P y) : GInv P (step h op).1 := by
  cases op <;> simp [dsOp] at hop
  case «alias» v w => exact ginv_bind g _ _
  case len v => simp only [step]; split <;> exact g
  case eq v w => simp only [step]; split <;> exact g
  case ne v w => simp only [step]; split <;> exact g
  case contains v x => simp only [step]; split <;> exact g
  case dGet v k => simp only [step]; split <;> exact g
  case dGetM v k d => simp only [step]; split <;> exact g
  case dHas v k => simp only [step]; split <;> exact g
  case dKeys v k => simp only [step]; split <;> exact g
  case iter t v =>
    simp only [step]
    split
    · exact ginv_new g t (o := .iter 0 _) trivial
    · exact ginv_new g t (o := .iter 0 _) trivial
    · exact ginv_new g t (o := .iter 0 _) trivial
    · exact g
  case next t =>
    simp only [step]
    split
    · rename_i pos seq e
      have hn := iterNext_good P h.arrs h.objs pos seq
      rcases hm : iterNext h.arrs h.objs pos seq with ⟨r, it⟩
      rw [hm] at hn
      cases r <;> exact ginv_setObj g _ hn
    · exact g
  case drain t =>
    simp only [step]
    split
    · rename_i pos seq e
      exact ginv_setObj g _ (iterDrain_good P h.arrs h.objs _ pos seq)
    · exact g
  case dNew v kvs => exact ginv_new g v (o := .dict _) (dictOfList_nodup kvs)
  case dOfPairs v kvs => exact ginv_new g v (o := .dict _) (dictOfList_nodup kvs)
  case dOfKw v kvs => exact ginv_new g v (o := .dict _) (dictOfList_nodup kvs)
  case dCopy v w =>
    simp only [step]
    split
    · rename_i m e
      have gm : (m.map Prod.fst).Nodup := g _ _ (obj_lookup e)
      exact ginv_new g v (o := .dict m) gm
    · exact g
  case dCopyM u v =>
    simp only [step]
    split
    · rename_i m e
      have gm : (m.map Prod.fst).Nodup := g _ _ (obj_lookup e)
      exact ginv_new g u (o := .dict m) gm
    · exact g
  case dComp v w x =>
    simp only [step]
    split
    · rename_i m e
      have gm : (m.map Prod.fst).Nodup := g _ _ (obj_lookup e)
      exact ginv_new g v (o := .dict _) (dictOfList_nodup _)
    · exact g
  case dSet v k x =>
    simp only [step]
    split
    · rename_i m e
      have gm : (m.map Prod.fst).Nodup := g _ _ (obj_lookup e)
      exact ginv_setObj g _ (o := .dict _) (dictSet_nodup k x gm)
    · exact g
  case dUpdatePairs v kvs =>
    simp only [step]
    split
    · rename_i m e
      have gm : (m.map Prod.fst).Nodup := g _ _ (obj_lookup e)
      exact ginv_setObj g _ (o := .dict _) (dictMerge_nodup _ gm)
    · exact g
  case dUpdateKw v kvs =>
    simp only [step]
    split
    · rename_i m e
      have gm : (m.map Prod.fst).Nodup := g _ _ (obj_lookup e)
      exact ginv_setObj g _ (o := .dict _) (dictMerge_nodup _ gm)
    · exact g
  case dClear v =>
    simp only [step]
    split
    · rename_i m e
      have gm : (m.map Prod.fst).Nodup := g _ _ (obj_lookup e)
      exact ginv_setObj g _ (o := .dict []) (by simp [Good])
    · exact g
  case dDel v k =>
    simp only [step]
    split
    · rename_i m e
      have gm : (m.map Prod.fst).Nodup := g _ _ (obj_lookup e)
      split
      · exact ginv_setObj g _ (o := .dict _) (dictDel_nodup k gm)
      · exact g
    · exact g
  case dPop v k d =>
    simp only [step]
    split
    · rename_i m e
      have gm : (m.map Prod.fst).Nodup := g _ _ (obj_lookup e)
      split
      · exact ginv_setObj g _ (o := .dict _) (dictDel_nodup k gm)
      · exact g
    · exact g
  case dSetDefault v k d =>
    simp only [step]
    split
    · rename_i m e
      have gm : (m.map Prod.fst).Nodup := g _ _ (obj_lookup e)
      split
      · exact g
      · exact ginv_setObj g _ (o := .dict _) (dictSet_nodup k _ gm)
    · exact g
  case dUpdate v w =>
    simp only [step]
    split
    · rename_i m mw ev ew
      have gm : (m.map Prod.fst).Nodup := g _ _ (obj_lookup ev)
      exact ginv_setObj g _ (o := .dict _) (dictMerge_nodup _ gm)
    · exact g
  case sNew v xs =>
    exact ginv_new g v (o := .set _) ⟨setOfListBy_nodup xs, setOfListBy_mem goEq (fun y hy => hv y hy)⟩
  case sEmpty v => exact ginv_new g v (o := .set []) ⟨List.nodup_nil, by simp⟩
  case sCopy v w =>
    simp only [step]
    split
    · rename_i ks e
      have gk := g _ _ (obj_lookup e)
      exact ginv_new g v (o := .set _) ⟨setOfListBy_nodup ks, setOfListBy_mem goEq gk.2⟩
    · exact g
  case sComp v w =>
    simp only [step]
    split
    · rename_i ks e
      have gk := g _ _ (obj_lookup e)
      exact ginv_new g v (o := .set _) ⟨setOfListBy_nodup ks, setOfListBy_mem goEq gk.2⟩
    · exact g
  case sCopyM u v =>
    simp only [step]
    split
    · rename_i ks e
      have gk := g _ _ (obj_lookup e)
      exact ginv_new g u (o := .set _) ⟨setOfListBy_nodup ks, setOfListBy_mem goEq gk.2⟩
    · exact g
  case sAdd v x =>
    simp only [step]
    split
    · rename_i ks e
      have gk := g _ _ (obj_lookup e)
      exact ginv_setObj g _ (o := .set _) ⟨setAddBy_nodup x gk.1, setAddBy_mem gk.2 (hv x (by simp [Op.vals]))⟩
    · exact g
  case sDiscard v x =>
    simp only [step]
    split
    · rename_i ks e
      have gk := g _ _ (obj_lookup e)
      exact ginv_setObj g _ (o := .set _) ⟨setDelBy_nodup x gk.1, setDelBy_mem goEq x gk.2⟩
    · exact g
  case sClear v =>
    simp only [step]
    split
    · rename_i ks e
      have gk := g _ _ (obj_lookup e)
      exact ginv_setObj g _ (o := .set []) ⟨List.nodup_nil, by simp⟩
    · exact g
  case sRemove v x =>
    simp only [step]
    split
    · rename_i ks e
      have gk := g _ _ (obj_lookup e)
      split
      · exact ginv_setObj g _ (o := .set _) ⟨setDelBy_nodup x gk.1, setDelBy_mem goEq x gk.2⟩
      · exact g
    · exact g
  case sOfSrc v s =>
    simp only [step]
    split
    · rename_i xs e
      exact ginv_new g v (o := .set _) ⟨setOfListBy_nodup xs, setOfListBy_mem goEq (fun y hy => hs y (by simp [Op.srcItems, e, hy]))⟩
    · exact g
  case sUpdateSrc v s =>
    simp only [step]
    split
    · rename_i ks e
      have gk := g _ _ (obj_lookup e)
      split
      · rename_i xs es
        exact ginv_setObj g _ (o := .set _) ⟨setUpdateBy_nodup xs gk.1, setUpdateBy_mem goEq gk.2 (fun y hy => hs y (by simp [Op.srcItems, es, hy]))⟩
      · exact g
    · exact g
  case sBin bop u v w =>
    simp only [step]
    split
    · rename_i a b ev ew
      have gv := g _ _ (obj_lookup ev)
      have gw := g _ _ (obj_lookup ew)
      exact ginv_new g u (o := .set _) ⟨setBin_nodup bop gv.1 gw.1, setBinBy_mem goEq bop gv.2 gw.2⟩
    · exact g
  case sIBin bop v w =>
    simp only [step]
    split
    · rename_i a b ev ew
      have gv := g _ _ (obj_lookup ev)
      have gw := g _ _ (obj_lookup ew)
      exact ginv_setObj g _ (o := .set _) ⟨setBin_nodup bop gv.1 gw.1, setBinBy_mem goEq bop gv.2 gw.2⟩
    · exact g
  case sUpdate v w =>
    simp only [step]
    split
    · rename_i a b ev ew
      have gv := g _ _ (obj_lookup ev)
      have gw := g _ _ (obj_lookup ew)
      exact ginv_setObj g _ (o := .set _) ⟨setUpdateBy_nodup b gv.1, setUpdateBy_mem goEq gv.2 gw.2⟩
    · exact g

theorem srcItems_strOr {U : List Val} (op : Op) (hv : ∀ x ∈ op.vals, x ∈ U) : ∀ y ∈ op.srcItems, StrOr U y := by
  intro y hy
  unfold Op.srcItems at hy
  split at hy
  · rename_i v s
    cases e : s.items with
    | error er => simp [e] at hy
    | ok xs => simp only [e] at hy; exact src_items_strOr s hv e y hy
  · rename_i v s
    cases e : s.items with
    | error er => simp [e] at hy
    | ok xs => simp only [e] at hy; exact src_items_strOr s hv e y hy
  · simp at hy

end DS

/-! ### one step -/

/-- EVERY dict / set / kind-generic operation, at EVERY heap without list objects whose dict keys and set
members are distinct, with canonical set members (C17-K01 excluded) and no `next`/`list()` on a dict/set
iterator after a size change (C17-K02 excluded): same observation, commuting abstraction.
Names may alias, operands may be the object itself (`d.update(d)`, `s |= s`, `s == s`). -/
theorem ds_step_refines (perm : Bool → List Val → List Val) (h : MHeap) (nl : NoList h) (ki : KInv h)
    (U : List Val) (hU : SetsIn h U) (hc : CanonOn U) (op : Op) (hop : dsOp op = true)
    (hv : ∀ x ∈ op.vals, x ∈ U) (hk2 : kfIterSizeChanged (abs h) op = false) :
    abs (step h op).1 = (specStep perm (abs h) op).1 ∧ (step h op).2 = (specStep perm (abs h) op).2 :=
  DS.step_refines perm h U (DS.ginv_of nl ki (DS.SetsIn.weaken hU)) hc op hop hv hk2

/-- the same with the weaker `SetsInS` (members in `U` or strings), the form every step preserves -/
theorem ds_step_refines_S (perm : Bool → List Val → List Val) (h : MHeap) (nl : NoList h) (ki : KInv h)
    (U : List Val) (hU : SetsInS h U) (hc : CanonOn U) (op : Op) (hop : dsOp op = true)
    (hv : ∀ x ∈ op.vals, x ∈ U) (hk2 : kfIterSizeChanged (abs h) op = false) :
    abs (step h op).1 = (specStep perm (abs h) op).1 ∧ (step h op).2 = (specStep perm (abs h) op).2 :=
  DS.step_refines perm h U (DS.ginv_of nl ki hU) hc op hop hv hk2

/-- PRESERVATION: every dict / set / generic operation keeps the invariants.  (`SetsInS`, not `SetsIn`:
`set("ab")` / `s.update("ab")` create the members "a", "b", which are not scalars the operation mentions;
see `setsIn_not_preserved`.) -/
theorem ds_step_inv (h : MHeap) (nl : NoList h) (ki : KInv h) (U : List Val) (hU : SetsInS h U) (op : Op)
    (hop : dsOp op = true) (hv : ∀ x ∈ op.vals, x ∈ U) :
    NoList (step h op).1 ∧ KInv (step h op).1 ∧ SetsInS (step h op).1 U :=
  have g := DS.step_inv h (DS.StrOr U) (DS.ginv_of nl ki hU) op hop (fun x hx => Or.inl (hv x hx))
    (DS.srcItems_strOr op hv)
  ⟨g.noList, g.kinv, g.setsInS⟩

/-- the same with the literal `SetsIn`, when the items of a literal source are in `U` as well
(automatic for tuple sources, whose items are `op.vals`) -/
theorem ds_step_inv_setsIn (h : MHeap) (nl : NoList h) (ki : KInv h) (U : List Val) (hU : SetsIn h U) (op : Op)
    (hop : dsOp op = true) (hv : ∀ x ∈ op.vals, x ∈ U) (hs : ∀ x ∈ op.srcItems, x ∈ U) :
    NoList (step h op).1 ∧ KInv (step h op).1 ∧ SetsIn (step h op).1 U :=
  have g := DS.step_inv h (fun x => x ∈ U) (DS.ginv_of_setsIn nl ki hU) op hop hv hs
  ⟨g.noList, g.kinv, g.setsIn⟩

/-- the literal `SetsIn` is NOT preserved: `a = set("xy")` mentions only the scalar "xy" -/
theorem setsIn_not_preserved :
    let h : MHeap := ⟨[], [.set []], [0, 0, 0, 0, 0]⟩
    let op : Op := .sOfSrc 0 (.scalar (.str "xy"))
    SetsIn h [.str "xy"] ∧ dsOp op = true ∧ (∀ x ∈ op.vals, x ∈ [Val.str "xy"]) ∧
      ¬ SetsIn (step h op).1 [.str "xy"] := by
  refine ⟨?_, rfl, by decide, ?_⟩
  · intro i ks e x hx
    have : MObj.set ks ∈ [MObj.set []] := List.mem_of_getElem? e
    simp at this; subst this; simp at hx
  · intro hs
    have := hs 1 [.str "x", .str "y"] (by decide) (.str "x") (by simp)
    simp at this

/-! ### whole histories -/

namespace DS

theorem history (perm : Bool → List Val → List Val) (U : List Val) (hc : CanonOn U) (ops : List Op)
    (hops : ∀ op ∈ ops, dsOp op = true) (hv : ∀ op ∈ ops, ∀ x ∈ op.vals, x ∈ U) (h : MHeap) (g : GInv (StrOr U) h)
    (hk2 : ∀ k, k < ops.length →
      kfIterSizeChanged (specRun perm (abs h) (ops.take k)) (ops.getD k (.len 0)) = false) :
    abs (run h ops) = specRun perm (abs h) ops ∧ GInv (StrOr U) (run h ops) := by
  induction ops generalizing h with
  | nil => exact ⟨rfl, g⟩
  | cons op ops ih =>
    have hop := hops op (by simp)
    have hvo := hv op (by simp)
    have h0 : kfIterSizeChanged (abs h) op = false := by simpa [specRun] using hk2 0 (by simp)
    have hr := step_refines perm h U g hc op hop hvo h0
    have gi := step_inv h (StrOr U) g op hop (fun x hx => Or.inl (hvo x hx)) (srcItems_strOr op hvo)
    simp only [run, specRun]
    rw [← hr.1]
    refine ih (fun o ho => hops o (by simp [ho])) (fun o ho => hv o (by simp [ho])) _ gi ?_
    intro k hk
    have := hk2 (k + 1) (by simpa using hk)
    simpa [specRun, hr.1] using this

theorem canonOn_of_canonVals {U : List Val} (hcv : canonVals U = true) : CanonOn U := by
  intro x hx y hy
  simp only [canonVals, List.all_eq_true, beq_iff_eq] at hcv
  exact (hcv x hx y hy).symm

end DS

/-- EVERY history of dict / set / generic operations (any names, aliases, self operands, any values in `U`),
from every heap satisfying the invariants: the abstraction of the model's final heap is what the
specification computes, and the invariants hold at the end.  `hk2` (C17-K02 excluded) is a hypothesis
about the SPECIFICATION's run only. -/
theorem ds_history_refines (perm : Bool → List Val → List Val) (ops : List Op) (hops : ∀ op ∈ ops, dsOp op = true)
    (h : MHeap) (nl : NoList h) (ki : KInv h) (U : List Val) (hU : SetsIn h U) (hc : CanonOn U)
    (hv : ∀ op ∈ ops, ∀ x ∈ op.vals, x ∈ U)
    (hk2 : ∀ k, k < ops.length →
      kfIterSizeChanged (specRun perm (abs h) (ops.take k)) (ops.getD k (.len 0)) = false) :
    abs (run h ops) = specRun perm (abs h) ops ∧ NoList (run h ops) ∧ KInv (run h ops) :=
  have r := DS.history perm U hc ops hops hv h (DS.ginv_of nl ki (DS.SetsIn.weaken hU)) hk2
  ⟨r.1, r.2.noList, r.2.kinv⟩

/-- the generator's initial heap of a dict history: a, b, c empty dicts; i, j an exhausted iterator -/
def dictInit : MHeap := ⟨[], [.iter 0 (.tuple [] none), .dict [], .dict [], .dict []], [1, 2, 3, 0, 0]⟩
/-- the generator's initial heap of a set history -/
def setInit : MHeap := ⟨[], [.iter 0 (.tuple [] none), .set [], .set [], .set []], [1, 2, 3, 0, 0]⟩

theorem DS.ginv_dictInit (P : Val → Prop) : DS.GInv P dictInit := by
  intro i o e
  have : o ∈ dictInit.objs := List.mem_of_getElem? e
  simp [dictInit] at this
  rcases this with rfl | rfl <;> simp [DS.Good]

theorem DS.ginv_setInit (P : Val → Prop) : DS.GInv P setInit := by
  intro i o e
  have : o ∈ setInit.objs := List.mem_of_getElem? e
  simp [setInit] at this
  rcases this with rfl | rfl <;> simp [DS.Good]

/-- the generated histories: from the initial heaps, every history without the two known findings
(`kfSetKeys ops = false`: C17-K01; `hk2`: C17-K02 along the specification's run) refines the specification -/
theorem ds_generated_refines (perm : Bool → List Val → List Val) (ops : List Op) (hops : ∀ op ∈ ops, dsOp op = true)
    (hk1 : kfSetKeys ops = false) (h0 : MHeap) (hh : h0 = dictInit ∨ h0 = setInit)
    (hk2 : ∀ k, k < ops.length →
      kfIterSizeChanged (specRun perm (abs h0) (ops.take k)) (ops.getD k (.len 0)) = false) :
    abs (run h0 ops) = specRun perm (abs h0) ops ∧ NoList (run h0 ops) ∧ KInv (run h0 ops) := by
  have hc : CanonOn (ops.flatMap Op.vals) := DS.canonOn_of_canonVals (by simpa [kfSetKeys] using hk1)
  have hv : ∀ op ∈ ops, ∀ x ∈ op.vals, x ∈ ops.flatMap Op.vals :=
    fun op ho x hx => List.mem_flatMap.2 ⟨op, ho, hx⟩
  have g : DS.GInv (DS.StrOr (ops.flatMap Op.vals)) h0 := by
    rcases hh with rfl | rfl
    · exact DS.ginv_dictInit _
    · exact DS.ginv_setInit _
  have r := DS.history perm _ hc ops hops hv h0 g hk2
  exact ⟨r.1, r.2.noList, r.2.kinv⟩

/-! ### corollaries stated outright -/

/-- ALIAS SEES UPDATE: if `w` names the same dict object as `v`, then after `v[k] = x` and after
`v.update(u)` the dict read through `w` is the updated one -/
theorem dict_alias_sees_update (h : MHeap) (v w u : Nat) (k : String) (x : Val) (m mu : List (String × Val))
    (hal : h.id w = h.id v) (e : h.obj v = some (.dict m)) (eu : h.obj u = some (.dict mu)) :
    (abs (step h (.dSet v k x)).1).obj w = some (.dict (dictSet m k x)) ∧
    (abs (step h (.dUpdate v u)).1).obj w = some (.dict (dictMerge m mu)) := by
  have hlt : h.id v < h.objs.length := by
    have := DS.obj_lookup e
    rcases Nat.lt_or_ge (h.id v) h.objs.length with h1 | h1
    · exact h1
    · simp [List.getElem?_eq_none h1] at this
  have key : ∀ o : MObj, (abs (h.setObj (h.id v) o)).obj w = some (absObj h.arrs o) := by
    intro o
    rw [DS.abs_obj]
    show ((h.objs.set (h.id v) o)[h.id w]?).map (absObj h.arrs) = _
    rw [hal]; simp [hlt]
  constructor
  · simp only [step, e]; exact key _
  · simp only [step, e, eu]; exact key _

/-- `dict(w)` / `w.copy()` allocate a NEW object: a later `v[k] = x` through the copy `v` is seen through `v`
and through no name `u ≠ v` of an existing object – in particular not through `w` -/
theorem dict_copy_is_independent (h : MHeap) (u v w : Nat) (k : String) (x : Val) (m : List (String × Val))
    (hvl : v < h.vars.length) (huv : u ≠ v) (hu : h.id u < h.objs.length) (e : h.obj w = some (.dict m)) :
    ((abs (step (step h (.dCopy v w)).1 (.dSet v k x)).1).obj u = (abs h).obj u ∧
     (abs (step (step h (.dCopy v w)).1 (.dSet v k x)).1).obj v = some (.dict (dictSet m k x))) ∧
    ((abs (step (step h (.dCopyM v w)).1 (.dSet v k x)).1).obj u = (abs h).obj u ∧
     (abs (step (step h (.dCopyM v w)).1 (.dSet v k x)).1).obj v = some (.dict (dictSet m k x))) := by
  have key : ∀ h1 : MHeap, h1 = (h.alloc (.dict m)).1.bind v (h.alloc (.dict m)).2 →
      (abs (step h1 (.dSet v k x)).1).obj u = (abs h).obj u ∧
      (abs (step h1 (.dSet v k x)).1).obj v = some (.dict (dictSet m k x)) := by
    intro h1 e1
    have hidv : h1.id v = h.objs.length := by
      subst e1; simp [MHeap.id, MHeap.bind, MHeap.alloc, hvl]
    have hidu : h1.id u = h.id u := by
      subst e1; simp [MHeap.id, MHeap.bind, MHeap.alloc, List.getD_eq_getElem?_getD, List.getElem?_set_ne (Ne.symm huv)]
    have hobjs : h1.objs = h.objs ++ [.dict m] := by subst e1; rfl
    have harrs : h1.arrs = h.arrs := by subst e1; rfl
    have ev : h1.obj v = some (.dict m) := by
      show h1.objs[h1.id v]? = _
      rw [hidv, hobjs]; simp
    simp only [step, ev, DS.abs_obj]
    constructor
    · show ((h1.objs.set (h1.id v) _)[h1.id u]?).map (absObj h1.arrs) = (h.objs[h.id u]?).map (absObj h.arrs)
      rw [hidu, hidv, hobjs, harrs, List.getElem?_set_ne (by omega), List.getElem?_append_left hu]
    · show ((h1.objs.set (h1.id v) _)[h1.id v]?).map (absObj h1.arrs) = _
      rw [hidv, hobjs]; simp [absObj]
  constructor
  · exact key _ (by simp only [step, e])
  · exact key _ (by simp only [step, e])

/-! ### non-vacuity -/

/-- a decidable check of the three heap invariants -/
def DS.heapOK (h : MHeap) (U : List Val) : Bool :=
  h.objs.all (fun o => match o with
    | .list _ => false
    | .dict m => decide (m.map Prod.fst).Nodup
    | .set ks => decide ks.Nodup && ks.all (fun x => decide (x ∈ U))
    | .iter _ _ => true)

theorem DS.heapOK_sound {h : MHeap} {U : List Val} (ok : DS.heapOK h U = true) :
    NoList h ∧ KInv h ∧ SetsIn h U := by
  have key : ∀ (i : Nat) (o : MObj), h.objs[i]? = some o → (match o with
      | .list _ => false
      | .dict m => decide (m.map Prod.fst).Nodup
      | .set ks => decide ks.Nodup && ks.all (fun x => decide (x ∈ U))
      | .iter _ _ => true) = true :=
    fun i o e => List.all_eq_true.1 ok o (List.mem_of_getElem? e)
  refine ⟨fun i hd e => ?_, ⟨fun i m e => ?_, fun i ks e => ?_⟩, fun i ks e x hx => ?_⟩
  · simpa using key i _ e
  · simpa using key i _ e
  · have := key i _ e; simp at this; exact this.1
  · have := key i _ e; simp at this; exact this.2 x hx

/-- the hypotheses of `ds_step_refines` hold at a concrete heap with two dicts, two sets (one holding a
number and a string), an alias (a and c name one object) and a set iterator in mid-run, for `a.add(2)`
and for `next(i)` -/
example :
    let h : MHeap := ⟨[], [.dict [("k", .int 1)], .dict [], .set [.int 1, .str "a"], .set [],
        .iter 1 (.tuple [.int 1, .str "a"] (some (2, 2)))], [2, 3, 2, 4, 4]⟩
    let U : List Val := [.int 1, .str "a", .int 2]
    h.id 0 = h.id 2 ∧ (NoList h ∧ KInv h ∧ SetsIn h U) ∧ CanonOn U ∧
    dsOp (.sAdd 0 (.int 2)) = true ∧ (∀ x ∈ (Op.sAdd 0 (.int 2)).vals, x ∈ U) ∧
    kfIterSizeChanged (abs h) (.sAdd 0 (.int 2)) = false ∧
    dsOp (.next 3) = true ∧ (∀ x ∈ (Op.next 3).vals, x ∈ U) ∧ kfIterSizeChanged (abs h) (.next 3) = false ∧
    (step h (.sAdd 0 (.int 2))).1.obj 2 = some (.set [.int 1, .str "a", .int 2]) ∧
    (step h (.next 3)).2 = .val (.str "a") :=
  ⟨by decide, DS.heapOK_sound (by decide), DS.canonOn_of_canonVals (by decide), by decide, by decide, by decide,
    by decide, by decide, by decide, by decide, by decide⟩

end GPy.C17
