/-
C17 case generator: histories over a pool of three aliased containers a, b, c (one kind per
history: list / dict / set) and two iterators i, j kept across operations.
* exhaustive: every continuation of length ≤ 2 (quick) / ≤ 3 (thorough, reduced alphabet at length 3)
  of a fixed prefix that sets up an alias, a copy and a half-run iterator;
* seeded: random histories of length 4–12 driven by the model state (valid and off-by-one indices,
  self operands, mutation under a live iterator, failing sorts).
One case per line: the history as Python steps (replayed by harness/c17.go as ONE program), the
model's and the specification's observation after every step, tags.
-/
import GPy.C17.ListOps
import GPy.C17.Codec
namespace GPy.C17

/-! ### rendering -/

def showFloat (t : Int) : String :=
  let a := t.natAbs
  (if t < 0 then "-" else "") ++ toString (a / 2) ++ (if a % 2 == 0 then ".0" else ".5")

def Val.show : Val → String
  | .none => "None"
  | .bool b => if b then "True" else "False"
  | .int i => toString i
  | .float t => showFloat t
  | .str s => "'" ++ s ++ "'"

def sortStrs (xs : List String) : List String := xs.mergeSort (fun a b => decide (a ≤ b))

def showList (xs : List Val) : String := "[" ++ ", ".intercalate (xs.map Val.show) ++ "]"
def showSet (xs : List Val) : String := "set(" ++ ", ".intercalate (sortStrs (xs.map Val.show)) ++ ")"
def showDict (m : List (String × Val)) : String :=
  "{" ++ ", ".intercalate (sortStrs (m.map (fun p => "'" ++ p.1 ++ "': " ++ p.2.show))) ++ "}"

def SObj.show : SObj → String
  | .list xs => showList xs
  | .dict m => showDict m
  | .set xs => showSet xs
  | .iter _ _ => "<it>"

/-- `DUMP(a, b, c)`: identity class (first name bound to the same object) and contents -/
def dump (h : SHeap) : String :=
  " ".intercalate ((List.range 3).map (fun k =>
    let id := h.id k
    let cls := ((List.range k).find? (fun m => h.id m == id)).getD k
    toString cls ++ ":" ++ (match h.objs[id]? with | some o => o.show | Option.none => "?")))

def Err.py : Err → String
  | .index => "E:IndexError" | .key => "E:KeyError" | .type => "E:TypeError" | .value => "E:ValueError"
  | .stopIter => "E:StopIteration" | .attr => "E:AttributeError" | .runtime => "E:RuntimeError" | .panic => "PANIC"

def varName (v : Nat) : String := ["a", "b", "c", "i", "j"].getD v "z"

def pyVal (v : Val) : String := v.show
def pyTuple (xs : List Val) : String :=
  match xs with
  | [x] => "(" ++ pyVal x ++ ",)"
  | xs => "(" ++ ", ".intercalate (xs.map pyVal) ++ ")"
def Src.py : Src → String
  | .tuple xs => pyTuple xs
  | .str s => "'" ++ s ++ "'"
  | .scalar v => pyVal v
def pyOpt : Option Int → String
  | Option.none => ""
  | some i => toString i
def pySlice (lo hi st : Option Int) : String :=
  pyOpt lo ++ ":" ++ pyOpt hi ++ (match st with | Option.none => "" | some s => ":" ++ toString s)
def pyKvs (kvs : List (String × Val)) (f : String → String → String) : String :=
  ", ".intercalate (kvs.map (fun p => f p.1 (pyVal p.2)))
def SetOp.py : SetOp → String
  | .and => "&" | .or => "|" | .sub => "-" | .xor => "^"

/-- is the iterator bound to `t` one whose order is observable (list iterator / exhausted)? -/
def orderedIter (h : SHeap) (t : Nat) : Bool :=
  match h.obj t with
  | some (.iter _ (.snap _ (some _))) => false
  | _ => true

/-- the Python text of one step (`=expr` observes a value); depends on the state only for the
choice between an order-revealing and an order-free observation of an iterator -/
def Op.py (h : SHeap) (op : Op) : String :=
  let n := varName
  match op with
  | .alias v w => s!"{n v} = {n w}"
  | .lNew v xs => s!"{n v} = {showList xs}"
  | .lCopy v w => s!"{n v} = list({n w})"
  | .lSliceCopy v w => s!"{n v} = {n w}[:]"
  | .lOfSrc v s => s!"{n v} = list({s.py})"
  | .lOfIter v t => s!"{n v} = list({n t})"
  | .lComp v w => s!"{n v} = [x for x in {n w}]"
  | .lAppend v x => s!"{n v}.append({pyVal x})"
  | .lExtend v w => s!"{n v}.extend({n w})"
  | .lExtendSrc v s => s!"{n v}.extend({s.py})"
  | .lExtendIter v t => s!"{n v}.extend({n t})"
  | .lIAdd v w => s!"{n v} += {n w}"
  | .lIAddSrc v s => s!"{n v} += {s.py}"
  | .lAdd u v w => s!"{n u} = {n v} + {n w}"
  | .lMul u v k => s!"{n u} = {n v} * {k}"
  | .lIMul v k => s!"{n v} *= {k}"
  | .lSetItem v i x => s!"{n v}[{i}] = {pyVal x}"
  | .lDelItem v i => s!"del {n v}[{i}]"
  | .lGetItem v i => s!"={n v}[{i}]"
  | .lGetSlice u v lo hi st => s!"{n u} = {n v}[{pySlice lo hi st}]"
  | .lSetSlice v lo hi st w => s!"{n v}[{pySlice lo hi st}] = {n w}"
  | .lSetSliceSrc v lo hi st s => s!"{n v}[{pySlice lo hi st}] = {s.py}"
  | .lDelSlice v lo hi st => s!"del {n v}[{pySlice lo hi st}]"
  | .lSort v rev => if rev then s!"{n v}.sort(reverse=True)" else s!"{n v}.sort()"
  | .lForAppend v b => s!"for x in {n v}:\\n    if len({n v}) < {b}:\\n        {n v}.append(x)"
  | .lInsert v i x => s!"{n v}.insert({i}, {pyVal x})"
  | .lPop v i => (match i with | Option.none => s!"={n v}.pop()" | some i => s!"={n v}.pop({i})")
  | .lRemove v x => s!"{n v}.remove({pyVal x})"
  | .lReverse v => s!"{n v}.reverse()"
  | .lClear v => s!"{n v}.clear()"
  | .lCopyM u v => s!"{n u} = {n v}.copy()"
  | .dUpdate v w => s!"{n v}.update({n w})"
  | .dUpdatePairs v kvs => s!"{n v}.update([{pyKvs kvs (fun k x => s!"('{k}', {x})")}])"
  | .dUpdateKw v kvs => s!"{n v}.update({pyKvs kvs (fun k x => s!"{k}={x}")})"
  | .dPop v k d => (match d with
    | Option.none => s!"={n v}.pop('{k}')"
    | some x => s!"={n v}.pop('{k}', {pyVal x})")
  | .dSetDefault v k d => (match d with
    | Option.none => s!"={n v}.setdefault('{k}')"
    | some x => s!"={n v}.setdefault('{k}', {pyVal x})")
  | .dCopyM u v => s!"{n u} = {n v}.copy()"
  | .dClear v => s!"{n v}.clear()"
  | .sUpdate v w => s!"{n v}.update({n w})"
  | .sUpdateSrc v src => s!"{n v}.update({src.py})"
  | .sRemove v x => s!"{n v}.remove({pyVal x})"
  | .sDiscard v x => s!"{n v}.discard({pyVal x})"
  | .sClear v => s!"{n v}.clear()"
  | .sCopyM u v => s!"{n u} = {n v}.copy()"
  | .len v => s!"=len({n v})"
  | .eq v w => s!"={n v} == {n w}"
  | .ne v w => s!"={n v} != {n w}"
  | .contains v x => s!"={pyVal x} in {n v}"
  | .iter t v => s!"{n t} = iter({n v})"
  | .next t => if orderedIter h t then s!"=next({n t})" else s!"next({n t})"
  | .drain t => if orderedIter h t then s!"=list({n t})" else s!"=len(list({n t}))"
  | .dNew v kvs => s!"{n v} = \{{pyKvs kvs (fun k x => s!"'{k}': {x}")}}"
  | .dCopy v w => s!"{n v} = dict({n w})"
  | .dOfPairs v kvs => s!"{n v} = dict([{pyKvs kvs (fun k x => s!"('{k}', {x})")}])"
  | .dOfKw v kvs => s!"{n v} = dict({pyKvs kvs (fun k x => s!"{k}={x}")})"
  | .dComp v w x => s!"{n v} = \{k: {pyVal x} for k in {n w}}"
  | .dSet v k x => s!"{n v}['{k}'] = {pyVal x}"
  | .dGet v k => s!"={n v}['{k}']"
  | .dDel v k => s!"del {n v}['{k}']"
  | .dGetM v k d => match d with
    | Option.none => s!"={n v}.get('{k}')"
    | some x => s!"={n v}.get('{k}', {pyVal x})"
  | .dHas v k => s!"='{k}' in {n v}"
  | .dKeys v which => if which == 0 then s!"=set({n v}.keys())" else s!"=len(list({n v}.values()))"
  | .sNew v xs => s!"{n v} = \{{", ".intercalate (xs.map pyVal)}}"
  | .sEmpty v => s!"{n v} = set()"
  | .sCopy v w => s!"{n v} = set({n w})"
  | .sOfSrc v s => s!"{n v} = set({s.py})"
  | .sComp v w => s!"{n v} = \{x for x in {n w}}"
  | .sAdd v x => s!"{n v}.add({pyVal x})"
  | .sBin o u v w => s!"{n u} = {n v} {o.py} {n w}"
  | .sIBin o v w => s!"{n v} {o.py}= {n w}"

/-- the observed result of a step, rendered as `OBS`/`ERR` do -/
def showRes (pre : SHeap) (op : Op) (r : Res) : String :=
  match r with
  | .ok => "ok"
  | .val v => (match op with | .next t => if orderedIter pre t then v.show else "ok" | _ => v.show)
  | .vals vs =>
    (match op with
     | .drain t => if orderedIter pre t then showList vs else toString vs.length
     | .dKeys _ which => if which == 0 then showSet vs else toString vs.length
     | _ => showList vs)
  | .err e => e.py
  | .stuck => "STUCK"

/-! ### running a history on both sides -/


structure Trace where
  steps : List String := []
  mobs : List String := []
  sobs : List String := []
  caps : List String := []
  capOk : Bool := true
  k02 : Bool := false
  k03 : Bool := false
  feats : List String := []

def capsOf (h : MHeap) : String × Bool :=
  let cs := (List.range 3).map (fun k => match h.obj k with | some (.list hd) => some hd.cap | _ => Option.none)
  (",".intercalate (cs.map (fun c => match c with | some c => toString c | Option.none => "-")),
   cs.all (fun c => match c with | some c => c ≤ 32 | Option.none => true))

def addFeat (t : Trace) (f : String) : Trace := if t.feats.contains f then t else { t with feats := f :: t.feats }

/-- structural features of a step, for the distribution tags and the non-triviality rule -/
def stepFeats (h : MHeap) (op : Op) (r : Res) (h' : MHeap) : List String :=
  let aliased (v : Nat) : Bool := (List.range 3).any (fun w => w != v && h.id w == h.id v)
  let mutated : Option Nat := match op with
    | .lAppend v _ | .lExtend v _ | .lExtendSrc v _ | .lExtendIter v _ | .lIAdd v _ | .lIAddSrc v _ | .lIMul v _
    | .lSetItem v _ _ | .lDelItem v _ | .lSetSlice v _ _ _ _ | .lSetSliceSrc v _ _ _ _ | .lDelSlice v _ _ _
    | .lSort v _ | .lForAppend v _ | .dSet v _ _ | .dDel v _ | .sAdd v _ | .sIBin _ v _
    | .lInsert v _ _ | .lPop v _ | .lRemove v _ | .lReverse v | .lClear v
    | .dUpdate v _ | .dUpdatePairs v _ | .dUpdateKw v _ | .dPop v _ _ | .dSetDefault v _ _ | .dClear v
    | .sUpdate v _ | .sUpdateSrc v _ | .sRemove v _ | .sDiscard v _ | .sClear v => some v
    | _ => Option.none
  let self : Bool := match op with
    | .lExtend v w | .lIAdd v w | .lSetSlice v _ _ _ w | .sIBin _ v w | .eq v w | .ne v w | .lAdd _ v w | .sBin _ _ v w
    | .dUpdate v w | .sUpdate v w => h.id v == h.id w
    | _ => false
  let liveIter : Bool := match mutated with
    | some v => [3, 4].any (fun t => match h.obj t with
        | some (.iter _ (.obj id)) => id == h.id v
        | some (.iter _ (.tuple _ (some (id, _)))) => id == h.id v
        | _ => false)
    | Option.none => false
  let realloc : Bool := match mutated with
    | some v => (match h.obj v, h'.obj v with
        | some (.list a), some (.list b) => a.arr != b.arr
        | _, _ => false)
    | Option.none => false
  (match mutated with | some v => if aliased v then ["alias-mut"] else [] | Option.none => []) ++
  (if self then ["self"] else []) ++ (if liveIter then ["iter-mut"] else []) ++ (if realloc then ["realloc"] else []) ++
  (match r with | .err .type => (match op with | .lSort .. => ["sort-err"] | _ => ["err"]) | .err _ => ["err"] | _ => []) ++
  (match op with | .lSort .. => ["sort"] | .lForAppend .. => ["for-mut"] | _ => [])

def runTrace (hm : MHeap) (ops : List Op) : Trace := Id.run do
  let mut t : Trace := {}
  let mut hm := hm
  let mut hs := abs hm
  for op in ops do
    let txt := op.py hs
    if kfIterSizeChanged hs op then t := { t with k02 := true }
    if kfSortBools hs op then t := { t with k03 := true }
    let (hm', rm) := step hm op
    let (hs', rs) := specStep modelPerm hs op
    for f in stepFeats hm op rm hm' do t := addFeat t f
    let (cp, okc) := capsOf hm'
    t := { t with steps := t.steps ++ [txt],
                  mobs := t.mobs ++ [showRes (abs hm) op rm ++ " " ++ dump (abs hm')],
                  sobs := t.sobs ++ [showRes hs op rs ++ " " ++ dump hs'],
                  caps := t.caps ++ [cp], capOk := t.capOk && okc }
    hm := hm'
    hs := hs'
  return t

inductive Kind where | list | dict | set
deriving DecidableEq, Repr, Inhabited

def Kind.name : Kind → String
  | .list => "list" | .dict => "dict" | .set => "set"

/-- the heap after the first (fixed) step `a = X; b = X; c = X` and its text -/
def initHeap (k : Kind) : MHeap × String :=
  let it : MObj := .iter 0 (.tuple [] Option.none)
  match k with
  | .list => (⟨[[], [], []], [it, .list ⟨0, 0, 0, 0⟩, .list ⟨1, 0, 0, 0⟩, .list ⟨2, 0, 0, 0⟩], [1, 2, 3, 0, 0]⟩, "a = []\\nb = []\\nc = []")
  | .dict => (⟨[], [it, .dict [], .dict [], .dict []], [1, 2, 3, 0, 0]⟩, "a = {}\\nb = {}\\nc = {}")
  | .set => (⟨[], [it, .set [], .set [], .set []], [1, 2, 3, 0, 0]⟩, "a = set()\\nb = set()\\nc = set()")

def emit (k : Kind) (ops : List Op) (extra : List String := []) : IO Unit := do
  let (h0, txt0) := initHeap k
  let t := runTrace h0 ops
  let ob0 := "ok " ++ dump (abs h0)
  let (cp0, _) := capsOf h0
  let nt := ["alias-mut", "self", "iter-mut", "sort-err", "for-mut", "err"].any (t.feats.contains ·)
  let tags := (if nt then ["nt"] else []) ++ [k.name] ++ t.feats.reverse ++ extra ++
    (if k == .set && kfSetKeys ops then ["kf=C17-K01"] else if t.k02 then ["kf=C17-K02"] else if t.k03 then ["kf=C17-K03"] else []) ++
    ["h=" ++ encHistory k.name ops]
  IO.println (Case.line {
    input := " ;; ".intercalate (txt0 :: t.steps),
    modelV := " | ".intercalate (ob0 :: t.mobs),
    modelR := if t.capOk then " ".intercalate (cp0 :: t.caps) else "",
    specV := " | ".intercalate (ob0 :: t.sobs),
    tags := tags })

/-! ### alphabets -/

def pool : List Val := [.int 1, .bool true, .str "a", .float 5]
def keys : List String := ["k", "m", "p", "q"]

def listAlphabet (small : Bool) : List Op :=
  let vs := if small then [0, 1] else [0, 1, 2]
  let xs := if small then [Val.int 1, .str "a"] else pool
  let idx : List Int := if small then [0, -1, 3] else [0, 1, -1, -4, 3]
  let sl : List (Option Int × Option Int × Option Int) :=
    if small then [(some 1, some 2, Option.none), (Option.none, Option.none, some (-1))]
    else [(some 1, some 2, Option.none), (some 2, some 1, Option.none), (Option.none, some 1, Option.none),
          (Option.none, Option.none, some (-1)), (Option.none, Option.none, some 2), (some (-1), Option.none, Option.none)]
  (vs.flatMap fun v => vs.flatMap fun w =>
      [Op.alias v w, .lCopy v w, .lExtend v w, .lIAdd v w, .eq v w] ++
      (if small then [] else [.lSliceCopy v w, .lComp v w, .ne v w, .lAdd 2 v w]) ++
      sl.map (fun (lo, hi, st) => Op.lSetSlice v lo hi st w)) ++
  (vs.flatMap fun v =>
      xs.map (Op.lAppend v) ++ idx.flatMap (fun i => [Op.lSetItem v i (.int 7), .lDelItem v i, .lGetItem v i]) ++
      [.lIMul v 2, .lIMul v 0, .lSort v false, .lSort v true, .len v, .iter 3 v, .lForAppend v 5,
       .lExtendSrc v (.tuple [.int 8, .int 9]), .lIAddSrc v (.str "xy"), .lIAddSrc v (.scalar (.int 5)), .contains v (.float 2)] ++
      sl.flatMap (fun (lo, hi, st) => [Op.lDelSlice v lo hi st, .lGetSlice 2 v lo hi st, .lSetSliceSrc v lo hi st (.tuple [.int 8, .int 9])]) ++
      [.lInsert v 1 (.int 6), .lInsert v (-1) (.str "a"), .lPop v Option.none, .lPop v (some 0), .lRemove v (.int 1), .lReverse v, .lClear v, .lCopyM 2 v] ++
      (if small then [] else [.lMul 2 v 2, .lOfIter v 3, .lExtendSrc v (.scalar .none), .lNew v [.int 3, .int 2],
                              .lInsert v 9 (.int 6), .lInsert v (-9) (.none), .lPop v (some 3), .lPop v (some (-1)), .lRemove v (.float 2), .lRemove v (.str "z")])) ++
  [.next 3, .drain 3, .iter 4 0, .next 4]

def dictAlphabet (small : Bool) : List Op :=
  let vs := if small then [0, 1] else [0, 1, 2]
  let ks := if small then ["k", "m"] else keys
  (vs.flatMap fun v => vs.flatMap fun w => [Op.alias v w, .dCopy v w, .eq v w, .dUpdate v w] ++ (if small then [] else [.ne v w, .dComp v w (.int 0), .dCopyM v w])) ++
  (vs.flatMap fun v =>
      ks.flatMap (fun k => [Op.dSet v k (.int 1), .dSet v k (.bool true), .dGet v k, .dDel v k, .dHas v k, .dGetM v k Option.none, .dGetM v k (some (.int 9))]) ++
      (if small then ["k", "p"] else ks).flatMap (fun k => [Op.dPop v k Option.none, .dPop v k (some (.int 9)), .dSetDefault v k Option.none, .dSetDefault v k (some (.int 9))]) ++
      [.len v, .iter 3 v, .dKeys v 0, .dKeys v 1, .dNew v [("k", .int 1), ("m", .float 2)], .dOfPairs v [("p", .str "a"), ("p", .int 2)], .dOfKw v [("q", .none)],
       .dUpdatePairs v [("p", .str "a"), ("k", .int 2)], .dUpdateKw v [("q", .int 3)], .dClear v]) ++
  [.next 3, .drain 3]

def setAlphabet (small : Bool) : List Op :=
  let vs := if small then [0, 1] else [0, 1, 2]
  let xs : List Val := if small then [.int 1, .str "a"] else [.int 1, .str "a", .int 2, .none]
  (vs.flatMap fun v => vs.flatMap fun w =>
      [Op.alias v w, .sCopy v w, .eq v w, .sIBin .or v w, .sIBin .sub v w, .sBin .and 2 v w, .sBin .xor 2 v w, .sUpdate v w] ++
      (if small then [] else [.ne v w, .sComp v w, .sIBin .and v w, .sIBin .xor v w, .sBin .or 2 v w, .sBin .sub 2 v w, .sCopyM v w])) ++
  (vs.flatMap fun v =>
      xs.flatMap (fun x => [Op.sAdd v x, .contains v x, .sRemove v x, .sDiscard v x]) ++
      [.len v, .iter 3 v, .sNew v [.int 1, .str "a"], .sEmpty v, .sOfSrc v (.tuple [.int 2, .int 2, .str "b"]), .sOfSrc v (.str "aba"),
       .sUpdateSrc v (.tuple [.int 2, .str "a"]), .sUpdateSrc v (.str "ab"), .sUpdateSrc v (.scalar (.int 3)), .sClear v]) ++
  [.next 3, .drain 3]

def prefixOf : Kind → List Op
  | .list => [.lNew 0 [.int 1, .str "a", .bool true], .alias 1 0, .lCopy 2 0, .iter 3 0, .next 3]
  | .dict => [.dNew 0 [("k", .int 1), ("m", .str "a")], .alias 1 0, .dCopy 2 0, .iter 3 0, .next 3]
  | .set => [.sNew 0 [.int 1, .str "a"], .alias 1 0, .sCopy 2 0, .iter 3 0, .next 3]

def alphabetOf (k : Kind) (small : Bool) : List Op :=
  match k with
  | .list => listAlphabet small | .dict => dictAlphabet small | .set => setAlphabet small

/-- C17-K01 witnesses: sets over 1 / True / 1.0 -/
def k01Alphabet : List Op :=
  [.sNew 0 [.int 1, .bool true, .float 2], .sAdd 0 (.bool true), .sAdd 0 (.float 2), .sAdd 0 (.int 1), .len 0,
   .contains 0 (.bool true), .sNew 1 [.bool true], .sIBin .and 0 1, .sIBin .sub 0 1, .sBin .xor 2 0 1, .eq 0 1, .sOfSrc 0 (.tuple [.int 0, .bool false]),
   .sRemove 0 (.bool true), .sDiscard 0 (.float 2), .sUpdateSrc 0 (.tuple [.bool true, .float 2]), .sUpdate 0 1]

def exhaustive (tier : String) : IO Unit := do
  for k in [Kind.list, .dict, .set] do
    let pre := prefixOf k
    let full := alphabetOf k false
    let small := alphabetOf k true
    emit k pre ["len0"]
    for o1 in full do
      emit k (pre ++ [o1]) ["len1"]
    let l2 := if tier == "thorough" then full else small
    for o1 in l2 do
      for o2 in l2 do
        emit k (pre ++ [o1, o2]) ["len2"]
    if tier == "thorough" then
      -- lists: every second operation of the small alphabet (≈52³); dicts and sets: two of every three (≈55³, ≈47³)
      let l3 := if k == .list then (small.zipIdx.filter (fun p => p.2 % 2 == 0)).map (·.1)
                else (small.zipIdx.filter (fun p => p.2 % 3 != 2)).map (·.1)
      for o1 in l3 do
        for o2 in l3 do
          for o3 in l3 do
            emit k (pre ++ [o1, o2, o3]) ["len3"]
  for o1 in k01Alphabet do
    for o2 in k01Alphabet do
      emit .set [o1, o2] ["k01"]

/-! ### seeded histories -/

def rndVal (r : Rng) (wide : Bool) : Rng × Val :=
  let cands : Array Val := if wide then #[.int 1, .bool true, .float 2, .int 0, .bool false, .str "a", .str "b", .none, .float 5, .int 2, .int (-3), .str ""]
                           else #[.int 1, .int 2, .str "a", .str "b", .none, .float 5, .int 0, .int (-3)]
  r.pick cands

def rndVals (r : Rng) (wide : Bool) (n : Nat) : Rng × List Val := Id.run do
  let mut r := r
  let mut out := []
  for _ in [0:n] do
    let (r', v) := rndVal r wide
    r := r'
    out := v :: out
  return (r, out)

def rndOptInt (r : Rng) (len : Nat) : Rng × Option Int :=
  let (r, k) := r.nat 4
  if k == 0 then (r, Option.none)
  else
    let (r, j) := r.nat (2 * len + 5)
    (r, some ((j : Int) - (len : Int) - 2))

def rndSrc (r : Rng) (wide : Bool) : Rng × Src :=
  let (r, k) := r.nat 6
  if k == 0 then (r, .str "ab")
  else if k == 1 then let (r, v) := rndVal r wide; (r, .scalar v)
  else
    let (r, n) := r.nat 4
    let (r, vs) := rndVals r wide n
    (r, .tuple vs)

def lenOf (h : MHeap) (v : Nat) : Nat :=
  match h.obj v with
  | some (.list hd) => hd.len
  | some (.dict m) => m.length
  | some (.set ks) => ks.length
  | _ => 0

def rndListOp (r : Rng) (h : MHeap) : Rng × Op :=
  let (r, v) := r.nat 3
  let (r, w) := r.nat 3
  let (r, u) := r.nat 3
  let (r, t0) := r.nat 2
  let t := 3 + t0
  let n := lenOf h v
  let (r, x) := rndVal r true
  let (r, i0) := r.nat (2 * n + 3)
  let i : Int := (i0 : Int) - (n : Int) - 1
  let (r, lo) := rndOptInt r n
  let (r, hi) := rndOptInt r n
  let (r, st0) := r.nat 8
  let st : Option Int := [Option.none, Option.none, Option.none, some 1, some 2, some (-1), some (-2), some 0].getD st0 Option.none
  let (r, src) := rndSrc r true
  let (r, c) := r.nat 52
  let big := n > 12 || lenOf h w > 12
  let op : Op := match c with
    | 0 | 1 => .alias v w
    | 2 => .lCopy v w
    | 3 => .lSliceCopy v w
    | 4 => .lOfSrc v src
    | 5 => .lOfIter v t
    | 6 => .lComp v w
    | 7 | 8 | 9 => .lAppend v x
    | 10 | 11 => if big then .len v else .lExtend v w
    | 12 => .lExtendSrc v src
    | 13 => (match h.obj t with
        | some (.iter _ (.obj id)) => if id == h.id v then .next t else .lExtendIter v t
        | _ => .lExtendIter v t)
    | 14 | 15 => if big then .len v else .lIAdd v w
    | 16 => .lIAddSrc v src
    | 17 => if big then .eq v w else .lAdd u v w
    | 18 => if big then .eq v w else .lMul u v (i % 4)
    | 19 => if big then .ne v w else .lIMul v (i % 4)
    | 20 | 21 => .lSetItem v i x
    | 22 | 23 => .lDelItem v i
    | 24 => .lGetItem v i
    | 25 => .lGetSlice u v lo hi st
    | 26 | 27 => if big then .len v else .lSetSlice v lo hi st w
    | 28 => .lSetSliceSrc v lo hi st src
    | 29 | 30 => .lDelSlice v lo hi st
    | 31 | 32 => if n > 20 then .len v else .lSort v (i0 % 2 == 0)
    | 33 => .lForAppend v (n + i0 % 4)
    | 34 => .eq v w
    | 35 => .contains v x
    | 36 | 37 => .iter t v
    | 38 => .next t
    | 39 => .drain t
    | 40 | 41 => .lInsert v i x
    | 42 | 43 => .lPop v (if i0 % 3 == 0 then Option.none else some i)
    | 44 | 45 => .lRemove v x
    | 46 | 47 => .lReverse v
    | 48 => .lClear v
    | 49 => .lCopyM v w
    | 50 => .iter t v
    | _ => .drain t
  (r, op)

def rndKvs (r : Rng) : Rng × List (String × Val) := Id.run do
  let (r, n) := r.nat 4
  let mut r := r
  let mut out := []
  for _ in [0:n] do
    let (r1, k) := r.pick #["k", "m", "p", "q"]
    let (r2, v) := rndVal r1 true
    r := r2
    out := (k, v) :: out
  return (r, out)

def rndDictOp (r : Rng) (_h : MHeap) : Rng × Op :=
  let (r, v) := r.nat 3
  let (r, w) := r.nat 3
  let (r, t0) := r.nat 2
  let t := 3 + t0
  let (r, x) := rndVal r true
  let (r, k) := r.pick #["k", "m", "p", "q"]
  let (r, kvs) := rndKvs r
  let (r, c) := r.nat 34
  let op : Op := match c with
    | 0 | 1 => .alias v w
    | 24 | 25 => .dUpdate v w
    | 26 => .dUpdatePairs v kvs
    | 27 => .dUpdateKw v (dictOfList kvs)
    | 28 | 29 => .dPop v k (if v == 0 then Option.none else some x)
    | 30 | 31 => .dSetDefault v k (if w == 0 then Option.none else some x)
    | 32 => .dCopyM v w
    | 33 => .dClear v
    | 2 => .dCopy v w
    | 3 => .dNew v kvs
    | 4 => .dOfPairs v kvs
    | 5 => .dOfKw v (dictOfList kvs)
    | 6 => .dComp v w x
    | 7 | 8 | 9 | 10 => .dSet v k x
    | 11 => .dGet v k
    | 12 | 13 => .dDel v k
    | 14 => .dGetM v k (if c % 2 == 0 then Option.none else some x)
    | 15 => .dHas v k
    | 16 => .dKeys v 0
    | 17 => .dKeys v 1
    | 18 => .len v
    | 19 => .eq v w
    | 20 => .ne v w
    | 21 => .iter t v
    | 22 => .next t
    | _ => .drain t
  (r, op)

def rndSetOp (wide : Bool) (r : Rng) (_h : MHeap) : Rng × Op :=
  let (r, v) := r.nat 3
  let (r, w) := r.nat 3
  let (r, u) := r.nat 3
  let (r, t0) := r.nat 2
  let t := 3 + t0
  let (r, x) := rndVal r wide
  let (r, n) := r.nat 3
  let (r, xs) := rndVals r wide (n + 1)
  let (r, o) := r.pick #[SetOp.and, .or, .sub, .xor]
  let (r, c) := r.nat 31
  let op : Op := match c with
    | 0 | 1 => .alias v w
    | 22 | 23 => .sUpdate v w
    | 24 => .sUpdateSrc v (.tuple xs)
    | 25 | 26 => .sRemove v x
    | 27 | 28 => .sDiscard v x
    | 29 => .sClear v
    | 30 => .sCopyM v w
    | 2 => .sCopy v w
    | 3 => .sNew v xs
    | 4 => .sEmpty v
    | 5 => .sOfSrc v (.tuple xs)
    | 6 => .sComp v w
    | 7 | 8 | 9 | 10 => .sAdd v x
    | 11 | 12 => .sBin o u v w
    | 13 | 14 | 15 => .sIBin o v w
    | 16 => .contains v x
    | 17 => .len v
    | 18 => .eq v w
    | 19 => .iter t v
    | 20 => .next t
    | _ => .drain t
  (r, op)

def rndHistory (r : Rng) (k : Kind) (wide : Bool) : Rng × List Op := Id.run do
  let (r, n0) := r.nat 9
  let n := 4 + n0
  let mut r := r
  let mut h := (initHeap k).1
  let mut ops : List Op := []
  for _ in [0:n] do
    let (r', op) := match k with
      | .list => rndListOp r h
      | .dict => rndDictOp r h
      | .set => rndSetOp wide r h
    r := r'
    h := (step h op).1
    ops := ops ++ [op]
  return (r, ops)

def seeded (count : Nat) (seed : Nat) : IO Unit := do
  let mut r : Rng := ⟨(seed * 2654435761 + 17).toUInt64⟩
  for c in [0:count] do
    let k := if c % 10 < 6 then Kind.list else if c % 10 < 8 then .dict else .set
    let wide := c % 10 == 9
    let (r', ops) := rndHistory r k wide
    r := r'
    emit k ops [s!"rnd{ops.length}"]

/-- `eval` mode: stdin carries one encoded history per line (the `h=` tag of a case, possibly with
operations removed by the shrinker); each is re-run through model and specification and printed as a
case line (a line that does not decode prints `UNDECODABLE`) -/
partial def evalLoop (inp : IO.FS.Stream) : IO Unit := do
  let line ← inp.getLine
  if line == "" then return
  let l := line.trimRight
  if l != "" then
    match decHistory l with
    | some (kind, ops) =>
      let k := if kind == "dict" then Kind.dict else if kind == "set" then Kind.set else Kind.list
      emit k ops ["eval"]
    | Option.none => IO.println ("UNDECODABLE\t\t\t\t")
  evalLoop inp

def genMain (tier : String) (seed : Nat) : IO Unit := do
  if tier == "eval" then
    evalLoop (← IO.getStdin)
    return
  exhaustive tier
  seeded (if tier == "thorough" then 60000 else 6000) seed

end GPy.C17
