/-
C17 list-level middle layer: what the index/slice operations of py/list.go do to the ITEM LIST of
the list object (arrays, offsets and capacities forgotten, but still the Go index arithmetic of
`GetIndices` / `IndexIntCheck` and the Go loops).  The refinement of an index/slice operation is
proved in two steps: heap model → these functions (Refine.lean: only Go-slice reasoning), and
these functions → the Python specification (SliceProofs.lean: only index reasoning, on top of C13's
`getIndices_agree`).  Core Lean only.
-/
import GPy.C17.Spec
namespace GPy.C17

/-- `for i, j := start, 0; j < slicelength; i, j = i+step, j+1 { l.Items[i] = newItems[j] }` -/
def setLoopL (xs : List Val) (i step : Int) : List Val → List Val
  | [] => xs
  | v :: vs => setLoopL (xs.set i.toNat v) (i + step) step vs

/-- `for j := 0; j < slicelength; j++ { a.DelItem(start + j*step - j) }` -/
def delLoopL (start step : Int) : Nat → Int → List Val → List Val
  | 0, _, xs => xs
  | n + 1, j, xs => delLoopL start step n (j + 1) (xs.eraseIdx (start + j * step - j).toNat)

/-- every index the deletion loop uses is inside the (shrinking) list -/
def delIdxOK (start step : Int) : Nat → Int → Nat → Prop
  | 0, _, _ => True
  | n + 1, j, len => 0 ≤ start + j * step - j ∧ (start + j * step - j).toNat < len ∧ delIdxOK start step n (j + 1) (len - 1)

/-- every index the assignment loop uses is inside the list -/
def setIdxOK (i step : Int) : Nat → Nat → Prop
  | 0, _ => True
  | n + 1, len => 0 ≤ i ∧ i.toNat < len ∧ setIdxOK (i + step) step n len

/-- `M__getitem__` with a slice key -/
def getSliceL (xs : List Val) (lo hi st : Option Int) : Except Err (List Val) :=
  match sliceIndices lo hi st xs.length with
  | .ok (start, _, step, slen) => .ok (pickLoop xs start step slen.toNat)
  | .error e => .error e

/-- `M__setitem__` with a slice key -/
def setSliceL (xs : List Val) (lo hi st : Option Int) (newItems : Except Err (List Val)) : Except Err (List Val) :=
  match sliceIndices lo hi st xs.length with
  | .error e => .error e
  | .ok (start, stop, step, slen) =>
    match newItems with
    | .error e => .error e
    | .ok vs =>
      if step == 1 then
        let stop := if stop < start then start else stop
        .ok (xs.take start.toNat ++ vs ++ xs.drop stop.toNat)
      else if (vs.length : Int) ≠ slen then .error .value
      else .ok (setLoopL xs start step vs)

/-- `M__delitem__` with a slice key -/
def delSliceL (xs : List Val) (lo hi st : Option Int) : Except Err (List Val) :=
  match sliceIndices lo hi st xs.length with
  | .error e => .error e
  | .ok (start, stop, step, slen) =>
    if step == 1 then
      let stop := if stop < start then start else stop
      .ok (xs.take start.toNat ++ xs.drop stop.toNat)
    else
      let (start, step) := if step < 0 then (start + (slen - 1) * step, -step) else (start, step)
      .ok (delLoopL start step slen.toNat 0 xs)

/-- the integers of an operation are Go `int`s (64 bit); a larger Python int is a *BigInt, which the
histories never use as an index (C13 covers those) -/
def optInRange (o : Option Int) : Prop := ∀ v, o = some v → inRange v

/-- the arrangement a FAILED sort leaves (the one point Python leaves open): whatever the model's
insertion sort had reached – a permutation (`sort_result_is_permutation`) -/
def modelPerm (rev : Bool) (xs : List Val) : List Val := (sortStable rev xs).1

/-- the specification run over a whole history -/
def specRun (perm : Bool → List Val → List Val) (h : SHeap) : List Op → SHeap
  | [] => h
  | op :: ops => specRun perm (specStep perm h op).1 ops

end GPy.C17
