/-
C17 model: py/list.go, py/dict.go (StringDict), py/set.go, py/iterator.go, py/sequence.go and the
display/comprehension opcodes of vm/eval.go, transliterated over an explicit Go heap:

* `arrs`  – the Go backing arrays (`[]Object` allocations); a list object holds a slice header
  `Hdr = {arr, off, len, cap}` into one of them, so that `append`'s in-place-or-reallocate rule,
  `Items[:n]` truncation, `append(a[:i], a[i+1:]...)` shifting and two headers over one array are
  all expressible;
* `objs`  – the Python objects (`*List`, `StringDict`, `*Set`, `*Iterator`), identity = index;
* `vars`  – the pool of names a, b, c (containers) and i, j (iterators) of a history.

The model follows the code AFTER the C17 `fix:` commits (extend/+= from any iterable, live list
iterator that stays exhausted, in-place `*=`, `dict(d)`, in-place set operators).  Index and slice
arithmetic is NOT repeated here: it is `GPy.C13.getIndices` / `indexIntCheck` (C13's model of
py/slice.go, proved against Python's slice semantics there).
Core Lean only (linked into gpymodel-C17).
-/
import GPy.C13.Model
namespace GPy.C17

/-- scalar values of the histories.  `float t` is the float `t/2` (so 1.0 = `float 2`, 2.5 = `float 5`) -/
inductive Val where
  | none
  | bool (b : Bool)
  | int (i : Int)
  | float (t : Int)
  | str (s : String)
deriving DecidableEq, Repr, Inhabited

/-- twice the numeric value of a number (bool counts as 0/1) -/
def Val.num : Val → Option Int
  | .bool b => some (if b then 2 else 0)
  | .int i => some (2 * i)
  | .float t => some t
  | _ => Option.none

/-- `py.Eq` on scalars (`==`): int/bool/float compare numerically, str by text, None to None -/
def pyEq (x y : Val) : Bool :=
  match x.num, y.num with
  | some a, some b => a == b
  | Option.none, Option.none => x == y
  | _, _ => false

/-- Go `==` on interface values (dynamic type, value): what keys a `map[Object]…` -/
def goEq (x y : Val) : Bool := x == y

/-- `py.Lt` on scalars: numbers mutually, str with str, everything else TypeError (`none`) -/
def pyLt (x y : Val) : Option Bool :=
  match x, y with
  | .str a, .str b => some (decide (a < b))
  | _, _ =>
    match x.num, y.num with
    | some a, some b => some (decide (a < b))
    | _, _ => Option.none

/-- `py.Lt` as implemented: py.Bool has no ordering methods (C07-K01), so bool < bool raises -/
def goLt (x y : Val) : Option Bool :=
  match x, y with
  | .bool _, .bool _ => Option.none
  | _, _ => pyLt x y

inductive Err where
  | index | key | type | value | stopIter | attr | runtime | panic
deriving DecidableEq, Repr, Inhabited

/-! ### Go slices over backing arrays -/

/-- a Go slice header -/
structure Hdr where
  arr : Nat
  off : Nat
  len : Nat
  cap : Nat
deriving DecidableEq, Repr, Inhabited

abbrev Arrs := List (List Val)

/-- the items a header denotes: `array[off : off+len]` -/
def readHdr (arrs : Arrs) (s : Hdr) : List Val := ((arrs.getD s.arr []).drop s.off).take s.len

/-- `s[:n]` (the caller guarantees `n ≤ cap`) -/
def Hdr.upto (s : Hdr) (n : Nat) : Hdr := { s with len := n }

/-- overwrite the cells `[p, p + vs.length)` of one array -/
def writeCells (a : List Val) (p : Nat) (vs : List Val) : List Val :=
  a.take p ++ vs ++ a.drop (p + vs.length)

/-- Go runtime: capacity in 16-byte elements of the size class that holds `n` elements
(exact for n ≤ 32; above that the run does not compare capacities) -/
def roundCap (n : Nat) : Nat :=
  if n ≤ 16 then n else if n ≤ 32 then n + n % 2 else n

/-- runtime.nextslicecap + roundupsize for `[]Object` -/
def growCap (oldCap newLen : Nat) : Nat :=
  let c := if newLen > 2 * oldCap then newLen
           else if oldCap < 256 then 2 * oldCap
           else max newLen (oldCap + (oldCap + 768) / 4)
  roundCap c

/-- `append(s, vs...)`: in place when the capacity suffices, else a fresh array -/
def goAppend (arrs : Arrs) (s : Hdr) (vs : List Val) : Arrs × Hdr :=
  if s.len + vs.length ≤ s.cap then
    (arrs.modify s.arr (fun a => writeCells a (s.off + s.len) vs), { s with len := s.len + vs.length })
  else
    let n := s.len + vs.length
    let c := max n (growCap s.cap n)
    (arrs ++ [readHdr arrs s ++ vs ++ List.replicate (c - n) Val.none], ⟨arrs.length, 0, n, c⟩)

/-- `make([]Object, len(vs), cap)` filled with `vs` (NewListSized + copy; `cap = len` there) -/
def goMake (arrs : Arrs) (vs : List Val) : Arrs × Hdr :=
  (arrs ++ [vs], ⟨arrs.length, 0, vs.length, vs.length⟩)

/-- `s[i] = v` for `i < len` -/
def goSetCell (arrs : Arrs) (s : Hdr) (i : Nat) (v : Val) : Arrs :=
  arrs.modify s.arr (fun a => a.set (s.off + i) v)

/-- overwrite all `len` cells (the net effect of sort.Stable's Swap sequence) -/
def goWrite (arrs : Arrs) (s : Hdr) (vs : List Val) : Arrs :=
  arrs.modify s.arr (fun a => writeCells a s.off vs)

/-- `for _, item := range items { l.Append(item) }` (ExtendSequence / LIST_APPEND): one append per item -/
def goAppendEach (arrs : Arrs) (s : Hdr) : List Val → Arrs × Hdr
  | [] => (arrs, s)
  | v :: vs => let (arrs, s) := goAppend arrs s [v]; goAppendEach arrs s vs

/-! ### objects -/

/-- what an `*Iterator` holds in `Seq` -/
inductive ISeq where
  | tuple (xs : List Val) (origin : Option (Nat × Nat))
      -- a `Tuple`: immutable snapshot.  `origin` is GHOST state (not in the Go struct, never read by the
      -- model): the dict/set it was taken from and that container's size then – used by the abstraction only
  | obj (id : Nat)          -- a live `*List` (M__getitem__ path)
deriving DecidableEq, Repr, Inhabited

inductive MObj where
  | list (h : Hdr)
  | dict (m : List (String × Val))     -- Go map[string]Object: distinct keys, order irrelevant
  | set (ks : List Val)                -- Go map[Object]SetValue: pairwise `goEq`-distinct keys
  | iter (pos : Nat) (seq : ISeq)
deriving DecidableEq, Repr, Inhabited

structure MHeap where
  arrs : Arrs
  objs : List MObj
  vars : List Nat          -- a, b, c, i, j ↦ object id
deriving Repr, Inhabited

def MHeap.obj (h : MHeap) (v : Nat) : Option MObj := h.objs[h.vars.getD v 0]?
def MHeap.id (h : MHeap) (v : Nat) : Nat := h.vars.getD v 0

def MHeap.alloc (h : MHeap) (o : MObj) : MHeap × Nat := ({ h with objs := h.objs ++ [o] }, h.objs.length)
def MHeap.bind (h : MHeap) (v : Nat) (id : Nat) : MHeap := { h with vars := h.vars.set v id }
def MHeap.setObj (h : MHeap) (id : Nat) (o : MObj) : MHeap := { h with objs := h.objs.set id o }

/-- a fresh list object holding `vs` (NewListFromItems) bound to `v` -/
def MHeap.newList (h : MHeap) (v : Nat) (vs : List Val) : MHeap :=
  let (arrs, hd) := goMake h.arrs vs
  let (h, id) := ({ h with arrs := arrs } : MHeap).alloc (.list hd)
  h.bind v id

/-- `NewList()` then one `Append` per item (SequenceList of a non-list, comprehension) bound to `v` -/
def MHeap.newListEach (h : MHeap) (v : Nat) (vs : List Val) : MHeap :=
  let (arrs, hd) := goMake h.arrs []
  let (arrs, hd) := goAppendEach arrs hd vs
  let (h, id) := ({ h with arrs := arrs } : MHeap).alloc (.list hd)
  h.bind v id

/-! ### results -/

inductive Res where
  | ok                       -- a statement
  | val (v : Val)
  | vals (vs : List Val)     -- a list-valued observation (list(it))
  | err (e : Err)
  | stuck                    -- ill-kinded operation (never generated)
deriving DecidableEq, Repr, Inhabited

/-! ### literal sources of other kinds -/

inductive Src where
  | tuple (xs : List Val)      -- a tuple display
  | str (s : String)           -- iterates as one-character strings
  | scalar (v : Val)           -- not iterable: TypeError
deriving DecidableEq, Repr, Inhabited

def Src.items : Src → Except Err (List Val)
  | .tuple xs => .ok xs
  | .str s => .ok (s.toList.map (fun c => Val.str (String.singleton c)))
  | .scalar (.str s) => .ok (s.toList.map (fun c => Val.str (String.singleton c)))
  | .scalar _ => .error .type

/-! ### sorting: sort.Stable through ptrSortable (Len/Less/Swap on the live list) -/

/-- `Less(i, j)`: false and an error recorded when `Lt` raises -/
def lessOf (rev : Bool) (x y : Val) : Bool × Bool :=
  match (if rev then goLt y x else goLt x y) with
  | some b => (b, false)
  | Option.none => (false, true)

/-- inner loop of `insertionSort`: `for j := i; j > a && Less(j, j-1); j-- { Swap(j, j-1) }`
on the prefix written back to front: `revPrefix` = items before position j in reverse order -/
def insertBack (rev : Bool) (x : Val) : List Val → List Val × Bool
  | [] => ([x], false)
  | y :: ys =>
    let (lt, e) := lessOf rev x y
    if lt then
      let (r, e') := insertBack rev x ys
      (y :: r, e || e')
    else (x :: y :: ys, e)

/-- `insertionSort(data, 0, n)`; the accumulator is the sorted prefix in REVERSE order.
sort.Stable is exactly this for n ≤ 20 (one block); for longer lists every stable sort gives the
same result when no comparison fails (trusted: §8 sort.Stable) -/
def insSortAux (rev : Bool) : List Val → List Val → Bool → List Val × Bool
  | acc, [], e => (acc.reverse, e)
  | acc, x :: xs, e =>
    let (acc', e') := insertBack rev x acc
    insSortAux rev acc' xs (e || e')

def sortStable (rev : Bool) (xs : List Val) : List Val × Bool := insSortAux rev [] xs false

/-! ### list content operations that go through C13's index model -/

def toIdx : Option Int → C13.Idx
  | Option.none => .none
  | some i => .int i

def idxErr : C13.Err → Err
  | .index => .index | .value => .value | .type => .type | _ => .panic

/-- `IndexIntCheck(key, len)` -/
def checkIndex (i : Int) (n : Nat) : Except Err Nat :=
  match C13.indexIntCheck (.int i) n with
  | .ok k => .ok k.toNat
  | .error e => .error (idxErr e)

/-- `slice.GetIndices(len)` -/
def sliceIndices (lo hi st : Option Int) (n : Nat) : Except Err (Int × Int × Int × Int) :=
  match C13.getIndices ⟨toIdx lo, toIdx hi, toIdx st⟩ n with
  | .ok r => .ok r
  | .error e => .error (idxErr e)

/-- `for i, j := start, 0; j < slicelength; i, j = i+step, j+1 { new[j] = items[i] }` -/
def pickLoop (xs : List Val) (i step : Int) : Nat → List Val
  | 0 => []
  | n + 1 => xs.getD i.toNat .none :: pickLoop xs (i + step) step n

/-- M__mul__: `n = int(b) * m`, clamped at 0, filled by repeated `copy` -/
def repeatItems (xs : List Val) (n : Int) : List Val :=
  (List.replicate n.toNat xs).flatten

/-! ### operations of a history -/

inductive SetOp where | and | or | sub | xor
deriving DecidableEq, Repr, Inhabited

inductive Op where
  -- rebinding (any kind)
  | alias (v w : Nat)                                   -- v = w
  -- lists
  | lNew (v : Nat) (xs : List Val)                      -- v = [x, …]            BUILD_LIST
  | lCopy (v w : Nat)                                   -- v = list(w)           ListNew → SequenceList → Copy
  | lSliceCopy (v w : Nat)                              -- v = w[:]
  | lOfSrc (v : Nat) (s : Src)                          -- v = list(<tuple|str>)
  | lOfIter (v t : Nat)                                 -- v = list(t)           (t an iterator; consumed)
  | lComp (v w : Nat)                                   -- v = [x for x in w]    BUILD_LIST 0; FOR_ITER; LIST_APPEND
  | lAppend (v : Nat) (x : Val)
  | lExtend (v w : Nat)                                 -- v.extend(w)  (w a list, maybe v itself)
  | lExtendSrc (v : Nat) (s : Src)                      -- v.extend(<tuple|str|scalar>)
  | lExtendIter (v t : Nat)                             -- v.extend(t)
  | lIAdd (v w : Nat)                                   -- v += w
  | lIAddSrc (v : Nat) (s : Src)                        -- v += <tuple|str|scalar>
  | lAdd (u v w : Nat)                                  -- u = v + w
  | lMul (u v : Nat) (n : Int)                          -- u = v * n
  | lIMul (v : Nat) (n : Int)                           -- v *= n
  | lSetItem (v : Nat) (i : Int) (x : Val)
  | lDelItem (v : Nat) (i : Int)
  | lGetItem (v : Nat) (i : Int)
  | lGetSlice (u v : Nat) (lo hi st : Option Int)       -- u = v[lo:hi:st]
  | lSetSlice (v : Nat) (lo hi st : Option Int) (w : Nat)   -- v[lo:hi:st] = w   (w a list, maybe v itself)
  | lSetSliceSrc (v : Nat) (lo hi st : Option Int) (s : Src)
  | lDelSlice (v : Nat) (lo hi st : Option Int)
  | lSort (v : Nat) (rev : Bool)
  | lForAppend (v : Nat) (bound : Nat)                  -- for x in v: if len(v) < bound: v.append(x)
  | lInsert (v : Nat) (i : Int) (x : Val)               -- v.insert(i, x)
  | lPop (v : Nat) (i : Option Int)                     -- v.pop() / v.pop(i)    (observed: the item)
  | lRemove (v : Nat) (x : Val)                         -- v.remove(x)
  | lReverse (v : Nat)                                  -- v.reverse()
  | lClear (v : Nat)                                    -- v.clear()
  | lCopyM (u v : Nat)                                  -- u = v.copy()
  -- all kinds
  | len (v : Nat)
  | eq (v w : Nat)
  | ne (v w : Nat)
  | contains (v : Nat) (x : Val)
  | iter (t v : Nat)                                    -- t = iter(v)
  | next (t : Nat)
  | drain (t : Nat)                                     -- list(t)   (observed: the items for a list iterator, the count otherwise)
  -- dicts (string keys)
  | dNew (v : Nat) (kvs : List (String × Val))          -- v = {k: x, …}         BUILD_MAP; STORE_MAP
  | dCopy (v w : Nat)                                   -- v = dict(w)
  | dOfPairs (v : Nat) (kvs : List (String × Val))      -- v = dict([(k, x), …])
  | dOfKw (v : Nat) (kvs : List (String × Val))         -- v = dict(k=x, …)
  | dComp (v w : Nat) (x : Val)                         -- v = {k: x for k in w}  MAP_ADD
  | dSet (v : Nat) (k : String) (x : Val)
  | dGet (v : Nat) (k : String)
  | dDel (v : Nat) (k : String)
  | dGetM (v : Nat) (k : String) (dflt : Option Val)    -- v.get(k[, dflt])
  | dHas (v : Nat) (k : String)                         -- k in v
  | dKeys (v : Nat) (which : Nat)                       -- sorted observation of list(v.keys()/values()/items()) : count only for values
  | dUpdate (v w : Nat)                                 -- v.update(w)           (w a dict, maybe v itself)
  | dUpdatePairs (v : Nat) (kvs : List (String × Val))  -- v.update([(k, x), …])
  | dUpdateKw (v : Nat) (kvs : List (String × Val))     -- v.update(k=x, …)
  | dPop (v : Nat) (k : String) (dflt : Option Val)     -- v.pop(k[, dflt])      (observed: the value)
  | dSetDefault (v : Nat) (k : String) (dflt : Option Val)  -- v.setdefault(k[, dflt])
  | dCopyM (u v : Nat)                                  -- u = v.copy()
  | dClear (v : Nat)                                    -- v.clear()
  -- sets
  | sNew (v : Nat) (xs : List Val)                      -- v = {x, …}            BUILD_SET   (xs ≠ [])
  | sEmpty (v : Nat)                                    -- v = set()
  | sCopy (v w : Nat)                                   -- v = set(w)
  | sOfSrc (v : Nat) (s : Src)                          -- v = set(<tuple|str>)
  | sComp (v w : Nat)                                   -- v = {x for x in w}    SET_ADD
  | sAdd (v : Nat) (x : Val)
  | sBin (op : SetOp) (u v w : Nat)                     -- u = v <op> w
  | sIBin (op : SetOp) (v w : Nat)                      -- v <op>= w
  | sUpdate (v w : Nat)                                 -- v.update(w)           (w a set, maybe v itself)
  | sUpdateSrc (v : Nat) (s : Src)                      -- v.update(<tuple|str|scalar>)
  | sRemove (v : Nat) (x : Val)                         -- v.remove(x)
  | sDiscard (v : Nat) (x : Val)                        -- v.discard(x)
  | sClear (v : Nat)                                    -- v.clear()
  | sCopyM (u v : Nat)                                  -- u = v.copy()
deriving DecidableEq, Repr, Inhabited

/-! ### Go maps -/

def dictGet (m : List (String × Val)) (k : String) : Option Val := (m.find? (·.1 == k)).map (·.2)

/-- `d[k] = x` -/
def dictSet (m : List (String × Val)) (k : String) (x : Val) : List (String × Val) :=
  if m.any (·.1 == k) then m.map (fun p => if p.1 == k then (k, x) else p) else m ++ [(k, x)]

def dictDel (m : List (String × Val)) (k : String) : List (String × Val) := m.filter (·.1 != k)

def dictOfList (kvs : List (String × Val)) : List (String × Val) := kvs.foldl (fun m p => dictSet m p.1 p.2) []

/-- StringDict.M__eq__ -/
def dictEq (a b : List (String × Val)) : Bool :=
  a.length == b.length && a.all (fun p => match dictGet b p.1 with | some y => pyEq p.2 y | Option.none => false)

/-- generic membership in a key list under an equality -/
def memBy (eqv : Val → Val → Bool) (ks : List Val) (x : Val) : Bool := ks.any (eqv · x)

/-- `s.items[x] = SetValue{}` -/
def setAddBy (eqv : Val → Val → Bool) (ks : List Val) (x : Val) : List Val :=
  if memBy eqv ks x then ks else ks ++ [x]

def setOfListBy (eqv : Val → Val → Bool) (xs : List Val) : List Val := xs.foldl (setAddBy eqv) []

/-- M__and__/M__or__/M__sub__/M__xor__ (each builds `ret` by the loops of py/set.go) -/
def setBinBy (eqv : Val → Val → Bool) (op : SetOp) (s b : List Val) : List Val :=
  match op with
  | .and => b.filter (memBy eqv s)
  | .or => s ++ b.filter (fun x => !memBy eqv s x)
  | .sub => s.filter (fun x => !memBy eqv b x)
  | .xor => s.filter (fun x => !memBy eqv b x) ++ b.filter (fun x => !memBy eqv s x)

/-- Set.M__eq__: equal sizes and every item of `a` has a `py.Eq`-equal item in `b` (the O(n²) loop) -/
def setEq (a b : List Val) : Bool := a.length == b.length && a.all (fun x => b.any (pyEq x ·))

def listEq : List Val → List Val → Bool
  | [], [] => true
  | x :: xs, y :: ys => pyEq x y && listEq xs ys
  | _, _ => false

/-! ### iterators -/

/-- `Iterator.M__next__` : (result, new iterator state) -/
def iterNext (arrs : Arrs) (objs : List MObj) (pos : Nat) (seq : ISeq) : Except Err Val × MObj :=
  match seq with
  | .tuple xs o =>
    if pos ≥ xs.length then (.error .stopIter, .iter pos (.tuple xs o))
    else (.ok (xs.getD pos .none), .iter (pos + 1) (.tuple xs o))
  | .obj id =>
    match objs[id]? with
    | some (.list hd) =>
      -- M__getitem__(Int(pos)) → IndexIntCheck; IndexError ⇒ StopIteration and the sequence is dropped
      if pos < hd.len then (.ok ((readHdr arrs hd).getD pos .none), .iter (pos + 1) (.obj id))
      else (.error .stopIter, .iter 0 (.tuple [] Option.none))
    | _ => (.error .type, .iter pos (.obj id))

/-- `Iterate(it, fn)` collecting the items: runs `M__next__` until StopIteration.  `fuel` bounds the
run (the Go loop does not terminate when a list is extended from its own live iterator). -/
def iterDrain (arrs : Arrs) (objs : List MObj) : Nat → Nat → ISeq → List Val × MObj
  | 0, pos, seq => ([], .iter pos seq)
  | fuel + 1, pos, seq =>
    match iterNext arrs objs pos seq with
    | (.ok x, .iter p s) => let (r, o) := iterDrain arrs objs fuel p s; (x :: r, o)
    | (_, o) => ([], o)

/-- steps that certainly exhaust an iterator over unchanged containers -/
def drainFuel (arrs : Arrs) (objs : List MObj) (seq : ISeq) : Nat :=
  match seq with
  | .tuple xs _ => xs.length + 1
  | .obj id => match objs[id]? with | some (.list hd) => hd.len + 1 | _ => 1

/-! ### the step function -/

/-- store a new header for list object `id` together with the new arrays -/
def MHeap.putList (h : MHeap) (id : Nat) (r : Arrs × Hdr) : MHeap :=
  { h with arrs := r.1, objs := h.objs.set id (.list r.2) }

/-- the step-1 branch of M__setitem__: tail copied, `append(l.Items[:start], new...)`, `append(.., tail...)` -/
def setSlice1 (arrs : Arrs) (hd : Hdr) (start stop : Nat) (newItems : List Val) : Arrs × Hdr :=
  let tail := (readHdr arrs hd).drop stop
  let (arrs, s) := goAppend arrs (hd.upto start) newItems
  goAppend arrs s tail

/-- `DelItem(i)`: `append(a.Items[:i], a.Items[i+1:]...)` -/
def delItem (arrs : Arrs) (hd : Hdr) (i : Nat) : Arrs × Hdr :=
  goAppend arrs (hd.upto i) ((readHdr arrs hd).drop (i + 1))

def delLoop (start step : Int) : Nat → Int → Arrs × Hdr → Arrs × Hdr
  | 0, _, r => r
  | n + 1, j, (arrs, hd) => delLoop start step n (j + 1) (delItem arrs hd (start + j * step - j).toNat)

def setLoop (arrs : Arrs) (hd : Hdr) (i step : Int) : List Val → Arrs
  | [] => arrs
  | v :: vs => setLoop (goSetCell arrs hd i.toNat v) hd (i + step) step vs

/-- M__setitem__ with a slice key, `newItems` already read (SequenceTuple copies a list) -/
def listSetSlice (h : MHeap) (id : Nat) (hd : Hdr) (lo hi st : Option Int) (newItems : Except Err (List Val)) : MHeap × Res :=
  match sliceIndices lo hi st hd.len with
  | .error e => (h, .err e)
  | .ok (start, stop, step, slen) =>
    match newItems with
    | .error e => (h, .err e)
    | .ok vs =>
      if step == 1 then
        let stop := if stop < start then start else stop
        (h.putList id (setSlice1 h.arrs hd start.toNat stop.toNat vs), .ok)
      else if (vs.length : Int) ≠ slen then (h, .err .value)
      else ({ h with arrs := setLoop h.arrs hd start step vs }, .ok)

/-- the loop `for x in v: if len(v) < bound: v.append(x)` run on the live iterator -/
def forAppend (bound : Nat) : Nat → Nat → Arrs × Hdr → Arrs × Hdr
  | 0, _, r => r
  | fuel + 1, pos, (arrs, hd) =>
    if pos < hd.len then
      let x := (readHdr arrs hd).getD pos .none
      if hd.len < bound then forAppend bound fuel (pos + 1) (goAppend arrs hd [x])
      else forAppend bound fuel (pos + 1) (arrs, hd)
    else (arrs, hd)

def setBin := setBinBy goEq

/-- `list.insert`: the index is clamped like a slice bound -/
def insertPos (n : Nat) (i : Int) : Nat :=
  let j : Int := if i < 0 then (if i + n < 0 then 0 else i + n) else i
  (if j > n then (n : Int) else j).toNat

/-- `l.Items = append(l.Items, nil); copy(l.Items[i+1:], l.Items[i:]); l.Items[i] = item` -/
def insertItem (arrs : Arrs) (hd : Hdr) (i : Nat) (x : Val) : Arrs × Hdr :=
  let old := readHdr arrs hd
  let r := goAppend arrs hd [Val.none]
  (goWrite r.1 r.2 (old.take i ++ x :: old.drop i), r.2)

/-- `d.update(other)`: `other` has been read into a fresh dict first (DictNew), then merged key by key -/
def dictMerge (m other : List (String × Val)) : List (String × Val) := other.foldl (fun m p => dictSet m p.1 p.2) m

/-- `delete(s.items, x)` -/
def setDelBy (eqv : Val → Val → Bool) (ks : List Val) (x : Val) : List Val := ks.filter (fun y => !eqv y x)

/-- `for item := range other.items { s.items[item] = SetValue{} }` -/
def setUpdateBy (eqv : Val → Val → Bool) (ks other : List Val) : List Val := other.foldl (setAddBy eqv) ks

def step (h : MHeap) (op : Op) : MHeap × Res :=
  match op with
  | .alias v w => (h.bind v (h.id w), .ok)
  | .lNew v xs => (h.newList v xs, .ok)
  | .lCopy v w | .lSliceCopy v w =>
    match h.obj w with
    | some (.list hd) => (h.newList v (readHdr h.arrs hd), .ok)
    | _ => (h, .stuck)
  | .lOfSrc v s =>
    match s with
    | .tuple xs => (h.newList v xs, .ok)           -- SequenceList(Tuple) = NewListFromItems
    | s => match s.items with
      | .ok xs => (h.newListEach v xs, .ok)
      | .error e => (h, .err e)
  | .lOfIter v t =>
    match h.obj t with
    | some (.iter pos seq) =>
      let (xs, it) := iterDrain h.arrs h.objs (drainFuel h.arrs h.objs seq) pos seq
      ((h.setObj (h.id t) it).newListEach v xs, .ok)
    | _ => (h, .stuck)
  | .lComp v w =>
    match h.obj w with
    | some (.list hd) => (h.newListEach v (readHdr h.arrs hd), .ok)
    | _ => (h, .stuck)
  | .lAppend v x =>
    match h.obj v with
    | some (.list hd) => (h.putList (h.id v) (goAppend h.arrs hd [x]), .ok)
    | _ => (h, .stuck)
  | .lExtend v w | .lIAdd v w =>
    match h.obj v, h.obj w with
    | some (.list hd), some (.list hw) => (h.putList (h.id v) (goAppend h.arrs hd (readHdr h.arrs hw)), .ok)
    | _, _ => (h, .stuck)
  | .lExtendSrc v s | .lIAddSrc v s =>
    match h.obj v with
    | some (.list hd) =>
      match s.items with
      | .ok xs => (h.putList (h.id v) (goAppendEach h.arrs hd xs), .ok)
      | .error e => (h, .err e)
    | _ => (h, .stuck)
  | .lExtendIter v t =>
    match h.obj v, h.obj t with
    | some (.list hd), some (.iter pos seq) =>
      -- the generator never extends a list from a live iterator over that same list (divergence)
      let (xs, it) := iterDrain h.arrs h.objs (drainFuel h.arrs h.objs seq) pos seq
      ((h.setObj (h.id t) it).putList (h.id v) (goAppendEach h.arrs hd xs), .ok)
    | _, _ => (h, .stuck)
  | .lAdd u v w =>
    match h.obj v, h.obj w with
    | some (.list hv), some (.list hw) => (h.newList u (readHdr h.arrs hv ++ readHdr h.arrs hw), .ok)
    | _, _ => (h, .stuck)
  | .lMul u v n =>
    match h.obj v with
    | some (.list hv) => (h.newList u (repeatItems (readHdr h.arrs hv) n), .ok)
    | _ => (h, .stuck)
  | .lIMul v n =>
    match h.obj v with
    | some (.list hv) => (h.putList (h.id v) (goMake h.arrs (repeatItems (readHdr h.arrs hv) n)), .ok)
    | _ => (h, .stuck)
  | .lSetItem v i x =>
    match h.obj v with
    | some (.list hd) =>
      match checkIndex i hd.len with
      | .ok k => ({ h with arrs := goSetCell h.arrs hd k x }, .ok)
      | .error e => (h, .err e)
    | _ => (h, .stuck)
  | .lDelItem v i =>
    match h.obj v with
    | some (.list hd) =>
      match checkIndex i hd.len with
      | .ok k => (h.putList (h.id v) (delItem h.arrs hd k), .ok)
      | .error e => (h, .err e)
    | _ => (h, .stuck)
  | .lGetItem v i =>
    match h.obj v with
    | some (.list hd) =>
      match checkIndex i hd.len with
      | .ok k => (h, .val ((readHdr h.arrs hd).getD k .none))
      | .error e => (h, .err e)
    | _ => (h, .stuck)
  | .lGetSlice u v lo hi st =>
    match h.obj v with
    | some (.list hd) =>
      match sliceIndices lo hi st hd.len with
      | .ok (start, _, step, slen) => (h.newList u (pickLoop (readHdr h.arrs hd) start step slen.toNat), .ok)
      | .error e => (h, .err e)
    | _ => (h, .stuck)
  | .lSetSlice v lo hi st w =>
    match h.obj v, h.obj w with
    | some (.list hd), some (.list hw) => listSetSlice h (h.id v) hd lo hi st (.ok (readHdr h.arrs hw))
    | _, _ => (h, .stuck)
  | .lSetSliceSrc v lo hi st s =>
    match h.obj v with
    | some (.list hd) => listSetSlice h (h.id v) hd lo hi st s.items
    | _ => (h, .stuck)
  | .lDelSlice v lo hi st =>
    match h.obj v with
    | some (.list hd) =>
      match sliceIndices lo hi st hd.len with
      | .error e => (h, .err e)
      | .ok (start, stop, step, slen) =>
        if step == 1 then
          let stop := if stop < start then start else stop
          (h.putList (h.id v) (goAppend h.arrs (hd.upto start.toNat) ((readHdr h.arrs hd).drop stop.toNat)), .ok)
        else
          let (start, step) := if step < 0 then (start + (slen - 1) * step, -step) else (start, step)
          (h.putList (h.id v) (delLoop start step slen.toNat 0 (h.arrs, hd)), .ok)
    | _ => (h, .stuck)
  | .lSort v rev =>
    match h.obj v with
    | some (.list hd) =>
      let (xs, e) := sortStable rev (readHdr h.arrs hd)
      ({ h with arrs := goWrite h.arrs hd xs }, if e then .err .type else .ok)
    | _ => (h, .stuck)
  | .lForAppend v bound =>
    match h.obj v with
    | some (.list hd) => (h.putList (h.id v) (forAppend bound (bound + hd.len + 1) 0 (h.arrs, hd)), .ok)
    | _ => (h, .stuck)
  | .lInsert v i x =>
    match h.obj v with
    | some (.list hd) => (h.putList (h.id v) (insertItem h.arrs hd (insertPos hd.len i) x), .ok)
    | _ => (h, .stuck)
  | .lPop v i =>
    match h.obj v with
    | some (.list hd) =>
      if hd.len = 0 then (h, .err .index)
      else match checkIndex (i.getD (-1)) hd.len with
        | .ok k => (h.putList (h.id v) (delItem h.arrs hd k), .val ((readHdr h.arrs hd).getD k .none))
        | .error e => (h, .err e)
    | _ => (h, .stuck)
  | .lRemove v x =>
    match h.obj v with
    | some (.list hd) =>
      match (readHdr h.arrs hd).findIdx? (fun y => pyEq y x) with
      | some k => (h.putList (h.id v) (delItem h.arrs hd k), .ok)
      | Option.none => (h, .err .value)
    | _ => (h, .stuck)
  | .lReverse v =>
    match h.obj v with
    | some (.list hd) => ({ h with arrs := goWrite h.arrs hd (readHdr h.arrs hd).reverse }, .ok)
    | _ => (h, .stuck)
  | .lClear v =>
    match h.obj v with
    | some (.list hd) => (h.putList (h.id v) (h.arrs, { hd with len := 0, cap := 0 }), .ok)   -- l.Items = nil
    | _ => (h, .stuck)
  | .lCopyM u v =>
    match h.obj v with
    | some (.list hd) => (h.newList u (readHdr h.arrs hd), .ok)
    | _ => (h, .stuck)
  | .len v =>
    match h.obj v with
    | some (.list hd) => (h, .val (.int hd.len))
    | some (.dict m) => (h, .val (.int m.length))
    | some (.set ks) => (h, .val (.int ks.length))
    | _ => (h, .stuck)
  | .eq v w =>
    match h.obj v, h.obj w with
    | some (.list a), some (.list b) => (h, .val (.bool (listEq (readHdr h.arrs a) (readHdr h.arrs b))))
    | some (.dict a), some (.dict b) => (h, .val (.bool (dictEq a b)))
    | some (.set a), some (.set b) => (h, .val (.bool (setEq a b)))
    | _, _ => (h, .stuck)
  | .ne v w =>
    match h.obj v, h.obj w with
    | some (.list a), some (.list b) => (h, .val (.bool (!listEq (readHdr h.arrs a) (readHdr h.arrs b))))
    | some (.dict a), some (.dict b) => (h, .val (.bool (!dictEq a b)))
    | some (.set a), some (.set b) => (h, .val (.bool (!setEq a b)))
    | _, _ => (h, .stuck)
  | .contains v x =>
    match h.obj v with
    -- no M__contains__ on list and set: SequenceContains iterates with py.Eq
    | some (.list hd) => (h, .val (.bool (memBy pyEq (readHdr h.arrs hd) x)))
    | some (.set ks) => (h, .val (.bool (memBy pyEq ks x)))
    | _ => (h, .stuck)
  | .iter t v =>
    match h.obj v with
    | some (.list _) => let (h, id) := h.alloc (.iter 0 (.obj (h.id v))); (h.bind t id, .ok)
    | some (.dict m) => let (h', id) := h.alloc (.iter 0 (.tuple (m.map (fun p => Val.str p.1)) (some (h.id v, m.length)))); (h'.bind t id, .ok)
    | some (.set ks) => let (h', id) := h.alloc (.iter 0 (.tuple ks (some (h.id v, ks.length)))); (h'.bind t id, .ok)
    | _ => (h, .stuck)
  | .next t =>
    match h.obj t with
    | some (.iter pos seq) =>
      match iterNext h.arrs h.objs pos seq with
      | (.ok x, it) => (h.setObj (h.id t) it, .val x)
      | (.error e, it) => (h.setObj (h.id t) it, .err e)
    | _ => (h, .stuck)
  | .drain t =>
    match h.obj t with
    | some (.iter pos seq) =>
      let (xs, it) := iterDrain h.arrs h.objs (drainFuel h.arrs h.objs seq) pos seq
      (h.setObj (h.id t) it, .vals xs)
    | _ => (h, .stuck)
  | .dNew v kvs | .dOfPairs v kvs | .dOfKw v kvs =>
    let (h, id) := h.alloc (.dict (dictOfList kvs)); (h.bind v id, .ok)
  | .dCopy v w =>
    match h.obj w with
    | some (.dict m) => let (h, id) := h.alloc (.dict m); (h.bind v id, .ok)
    | _ => (h, .stuck)
  | .dComp v w x =>
    match h.obj w with
    | some (.dict m) => let (h, id) := h.alloc (.dict (dictOfList (m.map (fun p => (p.1, x))))); (h.bind v id, .ok)
    | _ => (h, .stuck)
  | .dSet v k x =>
    match h.obj v with
    | some (.dict m) => (h.setObj (h.id v) (.dict (dictSet m k x)), .ok)
    | _ => (h, .stuck)
  | .dGet v k =>
    match h.obj v with
    | some (.dict m) => (h, match dictGet m k with | some x => .val x | Option.none => .err .key)
    | _ => (h, .stuck)
  | .dDel v k =>
    match h.obj v with
    | some (.dict m) => if (dictGet m k).isSome then (h.setObj (h.id v) (.dict (dictDel m k)), .ok) else (h, .err .key)
    | _ => (h, .stuck)
  | .dGetM v k dflt =>
    match h.obj v with
    | some (.dict m) => (h, .val (match dictGet m k with | some x => x | Option.none => dflt.getD .none))
    | _ => (h, .stuck)
  | .dHas v k =>
    match h.obj v with
    | some (.dict m) => (h, .val (.bool (dictGet m k).isSome))
    | _ => (h, .stuck)
  | .dKeys v which =>
    match h.obj v with
    | some (.dict m) => (h, if which == 0 then .vals (m.map (fun p => Val.str p.1)) else .vals (m.map (·.2)))
    | _ => (h, .stuck)
  | .dUpdate v w =>
    match h.obj v, h.obj w with
    | some (.dict m), some (.dict mw) => (h.setObj (h.id v) (.dict (dictMerge m mw)), .ok)
    | _, _ => (h, .stuck)
  | .dUpdatePairs v kvs | .dUpdateKw v kvs =>
    match h.obj v with
    | some (.dict m) => (h.setObj (h.id v) (.dict (dictMerge m (dictOfList kvs))), .ok)
    | _ => (h, .stuck)
  | .dPop v k dflt =>
    match h.obj v with
    | some (.dict m) =>
      match dictGet m k with
      | some x => (h.setObj (h.id v) (.dict (dictDel m k)), .val x)
      | Option.none => (h, match dflt with | some d => .val d | Option.none => .err .key)
    | _ => (h, .stuck)
  | .dSetDefault v k dflt =>
    match h.obj v with
    | some (.dict m) =>
      match dictGet m k with
      | some x => (h, .val x)
      | Option.none => (h.setObj (h.id v) (.dict (dictSet m k (dflt.getD .none))), .val (dflt.getD .none))
    | _ => (h, .stuck)
  | .dCopyM u v =>
    match h.obj v with
    | some (.dict m) => let (h, id) := h.alloc (.dict m); (h.bind u id, .ok)
    | _ => (h, .stuck)
  | .dClear v =>
    match h.obj v with
    | some (.dict _) => (h.setObj (h.id v) (.dict []), .ok)
    | _ => (h, .stuck)
  | .sNew v xs =>
    let (h, id) := h.alloc (.set (setOfListBy goEq xs)); (h.bind v id, .ok)
  | .sEmpty v => let (h, id) := h.alloc (.set []); (h.bind v id, .ok)
  | .sCopy v w | .sComp v w =>
    match h.obj w with
    | some (.set ks) => let (h, id) := h.alloc (.set (setOfListBy goEq ks)); (h.bind v id, .ok)
    | _ => (h, .stuck)
  | .sOfSrc v s =>
    match s.items with
    | .ok xs => let (h, id) := h.alloc (.set (setOfListBy goEq xs)); (h.bind v id, .ok)
    | .error e => (h, .err e)
  | .sAdd v x =>
    match h.obj v with
    | some (.set ks) => (h.setObj (h.id v) (.set (setAddBy goEq ks x)), .ok)
    | _ => (h, .stuck)
  | .sBin op u v w =>
    match h.obj v, h.obj w with
    | some (.set a), some (.set b) => let (h, id) := h.alloc (.set (setBin op a b)); (h.bind u id, .ok)
    | _, _ => (h, .stuck)
  | .sIBin op v w =>
    match h.obj v, h.obj w with
    | some (.set a), some (.set b) => (h.setObj (h.id v) (.set (setBin op a b)), .ok)
    | _, _ => (h, .stuck)
  | .sUpdate v w =>
    match h.obj v, h.obj w with
    | some (.set a), some (.set b) => (h.setObj (h.id v) (.set (setUpdateBy goEq a b)), .ok)
    | _, _ => (h, .stuck)
  | .sUpdateSrc v s =>
    match h.obj v with
    | some (.set a) =>
      match s.items with
      | .ok xs => (h.setObj (h.id v) (.set (setUpdateBy goEq a xs)), .ok)
      | .error e => (h, .err e)
    | _ => (h, .stuck)
  | .sRemove v x =>
    match h.obj v with
    | some (.set a) => if memBy goEq a x then (h.setObj (h.id v) (.set (setDelBy goEq a x)), .ok) else (h, .err .key)
    | _ => (h, .stuck)
  | .sDiscard v x =>
    match h.obj v with
    | some (.set a) => (h.setObj (h.id v) (.set (setDelBy goEq a x)), .ok)
    | _ => (h, .stuck)
  | .sClear v =>
    match h.obj v with
    | some (.set _) => (h.setObj (h.id v) (.set []), .ok)
    | _ => (h, .stuck)
  | .sCopyM u v =>
    match h.obj v with
    | some (.set ks) => let (h, id) := h.alloc (.set (setOfListBy goEq ks)); (h.bind u id, .ok)
    | _ => (h, .stuck)

def run (h : MHeap) : List Op → MHeap
  | [] => h
  | op :: ops => run (step h op).1 ops

end GPy.C17
