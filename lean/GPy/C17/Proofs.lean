/-
C17 helper lemmas: the Go-slice primitives (content / frame / validity), the heap invariant and the
generic "update one list object" abstraction lemma on which every list-operation refinement rests.
-/
import GPy.C17.Spec
namespace GPy.C17

/-- a header is valid in `arrs`: it lies inside an allocated array and `len ≤ cap` -/
structure Hdr.Valid (arrs : Arrs) (s : Hdr) : Prop where
  arr_lt : s.arr < arrs.length
  fits : s.off + s.cap ≤ (arrs.getD s.arr []).length
  len_le : s.len ≤ s.cap

/-- `arrs'` leaves every array other than `a` untouched and only grows the heap -/
def Untouched (arrs arrs' : Arrs) (a : Nat) : Prop :=
  arrs.length ≤ arrs'.length ∧ ∀ k, k ≠ a → k < arrs.length → arrs'.getD k [] = arrs.getD k []

theorem Untouched.refl (arrs : Arrs) (a : Nat) : Untouched arrs arrs a := ⟨Nat.le_refl _, fun _ _ _ => rfl⟩

theorem getD_modify_ne (arrs : Arrs) (f : List Val → List Val) (a k : Nat) (h : k ≠ a) :
    (arrs.modify a f).getD k [] = arrs.getD k [] := by
  simp [List.getD, Ne.symm h]

theorem getD_modify_eq (arrs : Arrs) (f : List Val → List Val) (a : Nat) (h : a < arrs.length) :
    (arrs.modify a f).getD a [] = f (arrs.getD a []) := by
  simp [List.getD, List.getElem?_eq_getElem h]

theorem getD_append_left (arrs : Arrs) (x : List Val) (k : Nat) (h : k < arrs.length) :
    (arrs ++ [x]).getD k [] = arrs.getD k [] := by
  simp [List.getD, List.getElem?_append_left h]

theorem getD_append_new (arrs : Arrs) (x : List Val) : (arrs ++ [x]).getD arrs.length [] = x := by
  simp [List.getD]

theorem readHdr_congr {arrs arrs' : Arrs} {s : Hdr} (h : arrs'.getD s.arr [] = arrs.getD s.arr []) :
    readHdr arrs' s = readHdr arrs s := by
  unfold readHdr; rw [h]

theorem readHdr_length (arrs : Arrs) (s : Hdr) (v : s.Valid arrs) : (readHdr arrs s).length = s.len := by
  have := v.fits; have := v.len_le
  unfold readHdr; rw [List.length_take, List.length_drop]; omega

theorem writeCells_read (a : List Val) (off len : Nat) (vs : List Val) (h : off + len + vs.length ≤ a.length) :
    ((writeCells a (off + len) vs).drop off).take (len + vs.length) = (a.drop off).take len ++ vs := by
  unfold writeCells
  have e1 : a.take (off + len) = a.take off ++ (a.drop off).take len := List.take_add
  have l1 : (a.take off).length = off := by simp; omega
  have l2 : ((a.drop off).take len).length = len := by simp; omega
  rw [e1, List.append_assoc, List.append_assoc, List.drop_left' l1, ← List.append_assoc]
  have l3 : ((a.drop off).take len ++ vs).length = len + vs.length := by simp [l2]
  exact List.take_left' l3

theorem writeCells_length (a : List Val) (p : Nat) (vs : List Val) (h : p + vs.length ≤ a.length) :
    (writeCells a p vs).length = a.length := by
  simp [writeCells]; omega

/-! ### goAppend: content, frame, validity -/

theorem goAppend_read (arrs : Arrs) (s : Hdr) (vs : List Val) (v : s.Valid arrs) :
    readHdr (goAppend arrs s vs).1 (goAppend arrs s vs).2 = readHdr arrs s ++ vs := by
  unfold goAppend
  split
  · rename_i hfit
    simp only [readHdr]
    rw [getD_modify_eq _ _ _ v.arr_lt]
    have hl := v.fits
    exact writeCells_read _ _ _ _ (by omega)
  · have hl := readHdr_length arrs s v
    show List.take (s.len + vs.length) (List.drop 0 ((arrs ++ [_]).getD arrs.length [])) = _
    rw [getD_append_new, List.drop_zero]
    exact List.take_left' (by simp [hl])

theorem goAppend_untouched (arrs : Arrs) (s : Hdr) (vs : List Val) :
    Untouched arrs (goAppend arrs s vs).1 s.arr := by
  unfold goAppend
  split
  · exact ⟨by simp, fun k hk _ => getD_modify_ne _ _ _ _ hk⟩
  · exact ⟨by simp, fun k _ hk => getD_append_left _ _ _ hk⟩

/-- the result header is valid, and it is either in the same array or in a fresh one -/
theorem goAppend_valid (arrs : Arrs) (s : Hdr) (vs : List Val) (v : s.Valid arrs) :
    (goAppend arrs s vs).2.Valid (goAppend arrs s vs).1 ∧
    ((goAppend arrs s vs).2.arr = s.arr ∨ (goAppend arrs s vs).2.arr = arrs.length) := by
  unfold goAppend
  split
  · rename_i hfit
    refine ⟨⟨by simpa using v.arr_lt, ?_, hfit⟩, Or.inl rfl⟩
    show s.off + s.cap ≤ _
    rw [getD_modify_eq _ _ _ v.arr_lt, writeCells_length]
    · exact v.fits
    · have := v.fits; omega
  · refine ⟨⟨by simp, ?_, by simp; omega⟩, Or.inr rfl⟩
    simp only [getD_append_new]
    have := readHdr_length arrs s v
    simp [this]; omega

/-! ### the heap invariant -/

/-- `Inv`: every list object's header is valid, and DISTINCT LIST OBJECTS NEVER SHARE A BACKING ARRAY
(so no write through one list object can be seen through another) -/
structure Inv (h : MHeap) : Prop where
  valid : ∀ (i : Nat) (hd : Hdr), h.objs[i]? = some (MObj.list hd) → hd.Valid h.arrs
  sep : ∀ (i j : Nat) (hi hj : Hdr), i ≠ j → h.objs[i]? = some (MObj.list hi) → h.objs[j]? = some (MObj.list hj) → hi.arr ≠ hj.arr

theorem absObj_untouched {arrs arrs' : Arrs} {a : Nat} (u : Untouched arrs arrs' a) (o : MObj)
    (hne : ∀ hd, o = .list hd → hd.arr ≠ a ∧ hd.arr < arrs.length) : absObj arrs' o = absObj arrs o := by
  cases o with
  | list hd =>
    obtain ⟨h1, h2⟩ := hne hd rfl
    simp only [absObj]
    rw [readHdr_congr (u.2 _ h1 h2)]
  | _ => rfl

/-- THE FRAME LEMMA: replacing list object `id`'s header while touching only its own (or a fresh)
array changes the abstract heap at `id` only -/
theorem abs_putList (h : MHeap) (inv : Inv h) (id : Nat) (hd : Hdr) (r : Arrs × Hdr) (ys : List Val)
    (hobj : h.objs[id]? = some (.list hd)) (u : Untouched h.arrs r.1 hd.arr) (hread : readHdr r.1 r.2 = ys) :
    abs (h.putList id r) = (abs h).setObj id (.list ys) := by
  simp only [abs, MHeap.putList, SHeap.setObj]
  congr 1
  apply List.ext_getElem?
  intro i
  simp only [List.getElem?_map, List.getElem?_set]
  by_cases hi : id = i
  · subst hi
    have hlt : id < h.objs.length := by
      rcases Nat.lt_or_ge id h.objs.length with h1 | h1
      · exact h1
      · simp [List.getElem?_eq_none h1] at hobj
    simp [hlt, absObj, hread]
  · simp only [hi, if_false]
    cases ho : h.objs[i]? with
    | none => rfl
    | some o =>
      simp only [Option.map_some]
      congr 1
      apply absObj_untouched u
      intro hj hoj
      subst hoj
      exact ⟨fun e => inv.sep i id hj hd (Ne.symm hi) ho hobj e, (inv.valid i hj ho).arr_lt⟩

/-- writes into list `id`'s own array cells (no header change) -/
theorem abs_writeList (h : MHeap) (inv : Inv h) (id : Nat) (hd : Hdr) (arrs' : Arrs) (ys : List Val)
    (hobj : h.objs[id]? = some (.list hd)) (u : Untouched h.arrs arrs' hd.arr) (hread : readHdr arrs' hd = ys) :
    abs { h with arrs := arrs' } = (abs h).setObj id (.list ys) := by
  have := abs_putList h inv id hd (arrs', hd) ys hobj u hread
  rw [← this]
  simp only [abs, MHeap.putList]
  congr 1
  have hlt : id < h.objs.length := by
    rcases Nat.lt_or_ge id h.objs.length with h1 | h1
    · exact h1
    · simp [List.getElem?_eq_none h1] at hobj
  congr 1
  apply List.ext_getElem?
  intro i
  simp only [List.getElem?_set]
  by_cases hi : id = i
  · subst hi
    have : h.objs[id] = MObj.list hd := by
      have := List.getElem?_eq_getElem hlt; rw [hobj] at this; exact (Option.some.inj this).symm
    simp [hlt, this]
  · simp [hi]

/-- allocating a fresh object (and possibly fresh arrays) leaves the old objects' abstraction alone -/
theorem abs_alloc (h : MHeap) (inv : Inv h) (arrs' : Arrs) (o : MObj) (so : SObj)
    (u : Untouched h.arrs arrs' h.arrs.length) (ho : absObj arrs' o = so) :
    abs ((({ h with arrs := arrs' } : MHeap).alloc o).1) = ((abs h).alloc so).1 := by
  simp only [abs, MHeap.alloc, SHeap.alloc, List.map_append, List.map_cons, List.map_nil, ho]
  congr 2
  apply List.map_congr_left
  intro x hx
  apply absObj_untouched u
  intro hd hxe
  obtain ⟨i, hi, hget⟩ := List.getElem_of_mem hx
  have : h.objs[i]? = some (.list hd) := by rw [List.getElem?_eq_getElem hi, hget, hxe]
  have v := (inv.valid i hd this).arr_lt
  exact ⟨by omega, v⟩

end GPy.C17
