/-
C17 property theorems: the model of py/list.go / dict.go / set.go / iterator.go over Go backing
arrays REFINES the specification's heap of values.  `abs` forgets arrays, offsets and capacities;
`Inv` (valid headers, distinct list objects never share an array) is what makes a write through
one object invisible through any other.  Every theorem quantifies over ALL heaps satisfying `Inv`
(hence over every finite history that preserves it), all values, names, sizes and capacities, and
over every growth rule (`growCap` is never unfolded).
-/
import GPy.C17.Proofs
namespace GPy.C17

theorem abs_obj (h : MHeap) (v : Nat) : (abs h).obj v = (h.obj v).map (absObj h.arrs) := by
  simp [SHeap.obj, MHeap.obj, abs]

theorem obj_lookup {h : MHeap} {v : Nat} {o : MObj} (e : h.obj v = some o) : h.objs[h.id v]? = some o := e

/-- the initial heaps of the generated histories satisfy the invariant -/
theorem inv_init : Inv ⟨[[], [], []], [.iter 0 (.tuple [] none), .list ⟨0, 0, 0, 0⟩, .list ⟨1, 0, 0, 0⟩, .list ⟨2, 0, 0, 0⟩], [1, 2, 3, 0, 0]⟩ := by
  constructor
  · intro i hd hi
    match i, hi with
    | 1, hi => simp at hi; subst hi; exact ⟨by simp, by simp [List.getD], by simp⟩
    | 2, hi => simp at hi; subst hi; exact ⟨by simp, by simp [List.getD], by simp⟩
    | 3, hi => simp at hi; subst hi; exact ⟨by simp, by simp [List.getD], by simp⟩
    | 0, hi => simp at hi
    | n + 4, hi => simp at hi
  · intro i j hi hj hne e1 e2
    match i, j, e1, e2 with
    | 1, 2, e1, e2 => simp at e1 e2; subst e1 e2; simp
    | 1, 3, e1, e2 => simp at e1 e2; subst e1 e2; simp
    | 2, 1, e1, e2 => simp at e1 e2; subst e1 e2; simp
    | 2, 3, e1, e2 => simp at e1 e2; subst e1 e2; simp
    | 3, 1, e1, e2 => simp at e1 e2; subst e1 e2; simp
    | 3, 2, e1, e2 => simp at e1 e2; subst e1 e2; simp
    | 1, 1, _, _ => exact absurd rfl hne
    | 2, 2, _, _ => exact absurd rfl hne
    | 3, 3, _, _ => exact absurd rfl hne
    | 0, _, e1, _ => simp at e1
    | _, 0, _, e2 => simp at e2
    | n + 4, _, e1, _ => simp at e1
    | _, n + 4, _, e2 => simp at e2

/-! ### refinement of the mutating list operations -/

/-- `l.append(x)`: same observation, commuting abstraction – whether Go's `append` writes in place
or reallocates, and whatever other objects exist -/
theorem append_refines (perm : Bool → List Val → List Val) (h : MHeap) (inv : Inv h) (v : Nat) (x : Val) :
    abs (step h (.lAppend v x)).1 = (specStep perm (abs h) (.lAppend v x)).1 ∧
    (step h (.lAppend v x)).2 = (specStep perm (abs h) (.lAppend v x)).2 := by
  simp only [step, specStep, abs_obj]
  cases e : h.obj v with
  | none => simp
  | some o =>
    cases o with
    | list hd =>
      simp only [Option.map_some, absObj]
      have hv := inv.valid _ hd (obj_lookup e)
      exact ⟨abs_putList h inv _ hd _ _ (obj_lookup e) (goAppend_untouched _ _ _) (goAppend_read _ _ _ hv), trivial⟩
    | _ => simp [absObj]

/-- `v.extend(w)` for list objects `v`, `w` – INCLUDING `w` being `v` itself or an alias of it -/
theorem extend_refines (perm : Bool → List Val → List Val) (h : MHeap) (inv : Inv h) (v w : Nat) :
    abs (step h (.lExtend v w)).1 = (specStep perm (abs h) (.lExtend v w)).1 ∧
    (step h (.lExtend v w)).2 = (specStep perm (abs h) (.lExtend v w)).2 := by
  simp only [step, specStep, abs_obj]
  cases ev : h.obj v with
  | none => cases ew : h.obj w with
    | none => simp
    | some o => cases o <;> simp [absObj]
  | some o =>
    cases ew : h.obj w with
    | none => cases o <;> simp [absObj]
    | some o' =>
      cases o with
      | list hd =>
        cases o' with
        | list hw =>
          simp only [Option.map_some, absObj]
          have hv := inv.valid _ hd (obj_lookup ev)
          exact ⟨abs_putList h inv _ hd _ _ (obj_lookup ev) (goAppend_untouched _ _ _) (goAppend_read _ _ _ hv), trivial⟩
        | _ => simp [absObj]
      | _ => cases o' <;> simp [absObj]

/-- `v += w` is the same in-place extension (M__iadd__ returns self) -/
theorem iadd_refines (perm : Bool → List Val → List Val) (h : MHeap) (inv : Inv h) (v w : Nat) :
    abs (step h (.lIAdd v w)).1 = (specStep perm (abs h) (.lIAdd v w)).1 ∧
    (step h (.lIAdd v w)).2 = (specStep perm (abs h) (.lIAdd v w)).2 := extend_refines perm h inv v w

/-! ### the invariant is preserved -/

/-- storing the result of an `append`-like primitive (same array or a fresh one, others untouched) keeps `Inv` -/
theorem inv_putList (h : MHeap) (inv : Inv h) (id : Nat) (hd : Hdr) (r : Arrs × Hdr)
    (hobj : h.objs[id]? = some (.list hd)) (u : Untouched h.arrs r.1 hd.arr) (hv : r.2.Valid r.1)
    (harr : r.2.arr = hd.arr ∨ r.2.arr = h.arrs.length) : Inv (h.putList id r) := by
  have hlt : id < h.objs.length := by
    rcases Nat.lt_or_ge id h.objs.length with h1 | h1
    · exact h1
    · simp [List.getElem?_eq_none h1] at hobj
  have old : ∀ i hj, i ≠ id → (h.putList id r).objs[i]? = some (MObj.list hj) → h.objs[i]? = some (MObj.list hj) := by
    intro i hj hne e
    simpa [MHeap.putList, List.getElem?_set, Ne.symm hne] using e
  have new : ∀ hj, (h.putList id r).objs[id]? = some (MObj.list hj) → hj = r.2 := by
    intro hj e
    simp [MHeap.putList, List.getElem?_set, hlt] at e
    exact e.symm
  constructor
  · intro i hj e
    by_cases hi : i = id
    · subst hi; rw [new hj e]; exact hv
    · have e' := old i hj hi e
      have vj := inv.valid i hj e'
      have ne : hj.arr ≠ hd.arr := inv.sep i id hj hd hi e' hobj
      refine ⟨Nat.lt_of_lt_of_le vj.arr_lt u.1, ?_, vj.len_le⟩
      show hj.off + hj.cap ≤ (List.getD r.1 hj.arr []).length
      rw [u.2 _ ne vj.arr_lt]; exact vj.fits
  · intro i j hi hj hne e1 e2
    by_cases h1 : i = id
    · subst h1
      have e2' := old j hj (Ne.symm hne) e2
      rw [new hi e1]
      rcases harr with ha | ha
      · rw [ha]; exact inv.sep _ _ hd hj hne hobj e2'
      · rw [ha]; exact Nat.ne_of_gt (inv.valid j hj e2').arr_lt
    · by_cases h2 : j = id
      · subst h2
        have e1' := old i hi h1 e1
        rw [new hj e2]
        rcases harr with ha | ha
        · rw [ha]; exact inv.sep _ _ hi hd hne e1' hobj
        · rw [ha]; exact Nat.ne_of_lt (inv.valid i hi e1').arr_lt
      · exact inv.sep i j hi hj hne (old i hi h1 e1) (old j hj h2 e2)

/-- `append`, `extend`, `+=` (also with the list as its own operand) preserve `Inv` -/
theorem inv_append (h : MHeap) (inv : Inv h) (v : Nat) (x : Val) : Inv (step h (.lAppend v x)).1 := by
  simp only [step]
  cases e : h.obj v with
  | none => exact inv
  | some o =>
    cases o with
    | list hd =>
      have hv := inv.valid _ hd (obj_lookup e)
      exact inv_putList h inv _ hd _ (obj_lookup e) (goAppend_untouched _ _ _) (goAppend_valid _ _ _ hv).1 (goAppend_valid _ _ _ hv).2
    | _ => exact inv

theorem inv_extend (h : MHeap) (inv : Inv h) (v w : Nat) : Inv (step h (.lExtend v w)).1 := by
  simp only [step]
  cases ev : h.obj v with
  | none => exact inv
  | some o =>
    cases ew : h.obj w with
    | none => cases o <;> exact inv
    | some o' =>
      cases o with
      | list hd =>
        cases o' with
        | list hw =>
          have hv := inv.valid _ hd (obj_lookup ev)
          exact inv_putList h inv _ hd _ (obj_lookup ev) (goAppend_untouched _ _ _) (goAppend_valid _ _ _ hv).1 (goAppend_valid _ _ _ hv).2
        | _ => exact inv
      | _ => cases o' <;> exact inv

/-- by induction: EVERY finite history of appends / extends / += (any names, any values, self operands
included) from a heap satisfying `Inv` ends in a heap satisfying `Inv`, and its abstraction is what the
specification computes for the same history -/
def appendLike : Op → Bool
  | .lAppend .. | .lExtend .. | .lIAdd .. => true
  | _ => false

def specRun (perm : Bool → List Val → List Val) (h : SHeap) : List Op → SHeap
  | [] => h
  | op :: ops => specRun perm (specStep perm h op).1 ops

theorem history_refines (perm : Bool → List Val → List Val) (ops : List Op) (hops : ∀ op ∈ ops, appendLike op = true)
    (h : MHeap) (inv : Inv h) : Inv (run h ops) ∧ abs (run h ops) = specRun perm (abs h) ops := by
  induction ops generalizing h with
  | nil => exact ⟨inv, rfl⟩
  | cons op ops ih =>
    have hop := hops op (by simp)
    have hrest : ∀ o ∈ ops, appendLike o = true := fun o ho => hops o (by simp [ho])
    simp only [run, specRun]
    cases op <;> simp [appendLike] at hop
    case lAppend v x =>
      rw [← (append_refines perm h inv v x).1]; exact ih hrest _ (inv_append h inv v x)
    case lExtend v w =>
      rw [← (extend_refines perm h inv v w).1]; exact ih hrest _ (inv_extend h inv v w)
    case lIAdd v w =>
      rw [← (iadd_refines perm h inv v w).1]; exact ih hrest _ (inv_extend h inv v w)

/-! ### corollaries stated outright -/

/-- ALIAS SEES MUTATION: if `w` names the same list object as `v`, then after `v.append(x)` the list
read through `w` is the old contents followed by `x` -/
theorem alias_sees_mutation (h : MHeap) (inv : Inv h) (v w : Nat) (x : Val) (hd : Hdr)
    (hal : h.id w = h.id v) (e : h.obj v = some (.list hd)) :
    (abs (step h (.lAppend v x)).1).obj w = some (.list (readHdr h.arrs hd ++ [x])) := by
  rw [(append_refines (fun _ xs => xs) h inv v x).1]
  have hlt : h.id v < (abs h).objs.length := by
    have := obj_lookup e
    rcases Nat.lt_or_ge (h.id v) h.objs.length with h1 | h1
    · simpa [abs] using h1
    · simp [List.getElem?_eq_none h1] at this
  simp only [specStep, abs_obj, e, Option.map_some, absObj]
  simp only [SHeap.obj, SHeap.setObj, SHeap.id]
  show ((abs h).objs.set (h.id v) _)[h.id w]? = _
  rw [hal]
  simp [hlt]

/-- SELF OPERAND: `l.extend(l)` and `l += l` double the list (every alias sees the doubled list) -/
theorem self_operand (h : MHeap) (inv : Inv h) (v : Nat) (hd : Hdr) (e : h.obj v = some (.list hd)) :
    (abs (step h (.lExtend v v)).1).obj v = some (.list (readHdr h.arrs hd ++ readHdr h.arrs hd)) ∧
    (abs (step h (.lIAdd v v)).1).obj v = some (.list (readHdr h.arrs hd ++ readHdr h.arrs hd)) := by
  have key : (abs (step h (.lExtend v v)).1).obj v = some (.list (readHdr h.arrs hd ++ readHdr h.arrs hd)) := by
    rw [(extend_refines (fun _ xs => xs) h inv v v).1]
    have hlt : h.id v < (abs h).objs.length := by
      have := obj_lookup e
      rcases Nat.lt_or_ge (h.id v) h.objs.length with h1 | h1
      · simpa [abs] using h1
      · simp [List.getElem?_eq_none h1] at this
    simp only [specStep, abs_obj, e, Option.map_some, absObj]
    simp only [SHeap.obj, SHeap.setObj, SHeap.id]
    show ((abs h).objs.set (h.id v) _)[h.id v]? = _
    simp [hlt]
  exact ⟨key, key⟩

/-- A WRITE THROUGH ONE LIST OBJECT IS NEVER SEEN THROUGH ANOTHER (so never through a copy): any name `u`
bound to a different object reads the same value before and after `v.append(x)` – in place or reallocated -/
theorem copy_is_independent (h : MHeap) (inv : Inv h) (u v : Nat) (x : Val) (hne : h.id u ≠ h.id v) :
    (abs (step h (.lAppend v x)).1).obj u = (abs h).obj u := by
  rw [(append_refines (fun _ xs => xs) h inv v x).1]
  simp only [specStep, abs_obj]
  cases e : h.obj v with
  | none => simp [abs_obj]
  | some o =>
    cases o with
    | list hd =>
      simp only [Option.map_some, absObj]
      rw [← abs_obj]
      simp only [SHeap.obj, SHeap.setObj, SHeap.id]
      have hne' : (abs h).vars.getD v 0 ≠ (abs h).vars.getD u 0 := Ne.symm hne
      rw [List.getElem?_set_ne hne']
    | _ => simp [absObj, abs_obj]

/-! ### iteration over the live list -/

theorem abs_setObj (h : MHeap) (id : Nat) (o : MObj) : abs (h.setObj id o) = (abs h).setObj id (absObj h.arrs o) := by
  simp [abs, MHeap.setObj, SHeap.setObj, List.map_set]

/-- one `__next__` of a list iterator (or of an exhausted / origin-free snapshot) reads the LIVE list:
model and specification return the same item / StopIteration and the same next iterator state -/
theorem iterNext_abs (h : MHeap) (inv : Inv h) (pos : Nat) (seq : ISeq) (hseq : ∀ xs o, seq = .tuple xs o → o = none) :
    (iterNext h.arrs h.objs pos seq).1 = (specNext (abs h) pos (absSeq seq)).1 ∧
    absObj h.arrs (iterNext h.arrs h.objs pos seq).2 = (specNext (abs h) pos (absSeq seq)).2 := by
  cases seq with
  | tuple xs o =>
    have := hseq xs o rfl; subst this
    simp only [iterNext, specNext, absSeq]
    split <;> simp [absObj, absSeq]
  | obj id =>
    simp only [iterNext, specNext, absSeq]
    have hmap : (abs h).objs[id]? = (h.objs[id]?).map (absObj h.arrs) := by simp [abs]
    rw [hmap]
    cases e : h.objs[id]? with
    | none => simp [absObj, absSeq]
    | some o =>
      cases o with
      | list hd =>
        have hl := readHdr_length h.arrs hd (inv.valid id hd e)
        simp only [Option.map_some, absObj, hl]
        split <;> simp [absObj, absSeq]
      | _ => simp [absObj, absSeq]

/-- MUTATION DURING ITERATION: `next(t)` on a list iterator refines the specification in EVERY heap –
whatever appends, deletions, reallocations happened to the list since `iter()` – because the iterator
holds the list object, not a slice header -/
theorem mutation_during_iteration (perm : Bool → List Val → List Val) (h : MHeap) (inv : Inv h) (t : Nat)
    (hlist : ∀ pos xs o, h.obj t = some (.iter pos (.tuple xs o)) → o = none) :
    abs (step h (.next t)).1 = (specStep perm (abs h) (.next t)).1 ∧
    (step h (.next t)).2 = (specStep perm (abs h) (.next t)).2 := by
  simp only [step, specStep, abs_obj]
  cases e : h.obj t with
  | none => simp
  | some o =>
    cases o with
    | iter pos seq =>
      have hs : ∀ xs o, seq = .tuple xs o → o = none := fun xs o hh => hlist pos xs o (by rw [e, hh])
      obtain ⟨h1, h2⟩ := iterNext_abs h inv pos seq hs
      simp only [Option.map_some, absObj]
      rcases hm : iterNext h.arrs h.objs pos seq with ⟨rm, im⟩
      rcases hsp : specNext (abs h) pos (absSeq seq) with ⟨rs, is⟩
      simp only [hm, hsp] at h1 h2
      subst h1; subst h2
      cases rm <;> exact ⟨abs_setObj _ _ _, rfl⟩
    | _ => simp [absObj]

/-! ### dicts and sets -/

/-- `d[k] = x` on a string-keyed dict: the Go map update is the finite-map update (aliases share the object) -/
theorem dict_setitem_refines (perm : Bool → List Val → List Val) (h : MHeap) (v : Nat) (k : String) (x : Val) :
    abs (step h (.dSet v k x)).1 = (specStep perm (abs h) (.dSet v k x)).1 ∧
    (step h (.dSet v k x)).2 = (specStep perm (abs h) (.dSet v k x)).2 := by
  simp only [step, specStep, abs_obj]
  cases e : h.obj v with
  | none => simp
  | some o => cases o <;> simp [absObj, abs_setObj] <;> rfl

theorem dict_delitem_refines (perm : Bool → List Val → List Val) (h : MHeap) (v : Nat) (k : String) :
    abs (step h (.dDel v k)).1 = (specStep perm (abs h) (.dDel v k)).1 ∧
    (step h (.dDel v k)).2 = (specStep perm (abs h) (.dDel v k)).2 := by
  simp only [step, specStep, abs_obj]
  cases e : h.obj v with
  | none => simp
  | some o =>
    cases o with
    | dict m => simp only [Option.map_some, absObj]; split <;> simp [abs_setObj, absObj] <;> rfl
    | _ => simp [absObj]

theorem any_congr_mem (ks : List Val) (f g : Val → Bool) (h : ∀ y ∈ ks, f y = g y) : ks.any f = ks.any g := by
  induction ks with
  | nil => rfl
  | cons a as ih => simp [List.any_cons, h a (by simp), ih (fun y hy => h y (by simp [hy]))]

/-- `s.add(x)`: PARTIAL – excluded (C17-K01): a member `y` of the set that Python's `==` identifies with
`x` while Go's `==` on the interface values does not (1 / True / 1.0) -/
theorem set_add_refines_partial (perm : Bool → List Val → List Val) (h : MHeap) (v : Nat) (x : Val)
    (hc : ∀ ks, h.obj v = some (.set ks) → ∀ y ∈ ks, goEq y x = pyEq y x) :
    abs (step h (.sAdd v x)).1 = (specStep perm (abs h) (.sAdd v x)).1 ∧
    (step h (.sAdd v x)).2 = (specStep perm (abs h) (.sAdd v x)).2 := by
  simp only [step, specStep, abs_obj]
  cases e : h.obj v with
  | none => simp
  | some o =>
    cases o with
    | set ks =>
      have : setAddBy goEq ks x = setAdd ks x := by
        unfold setAdd setAddBy memBy
        rw [any_congr_mem ks _ _ (hc ks e)]
      simp [absObj, abs_setObj, this]; rfl
    | _ => simp [absObj]

/-- C17-K01 witness: `{1, True}` has two members in the model, one in Python -/
theorem set_keys_witness :
    setOfListBy goEq [.int 1, .bool true] = [.int 1, .bool true] ∧ setOfList [.int 1, .bool true] = [.int 1] ∧
    kfSetKeys [.sNew 0 [.int 1, .bool true]] = true := by decide

/-- C17-K02 witness: an iterator made over an empty dict that has since grown: the model's snapshot
says StopIteration, Python says RuntimeError -/
theorem dict_iter_size_witness :
    let h : MHeap := ⟨[], [.dict [("k", .int 1)], .iter 0 (.tuple [] (some (0, 0)))], [0, 0, 0, 1, 1]⟩
    (step h (.next 3)).2 = .err .stopIter ∧ (specStep (fun _ xs => xs) (abs h) (.next 3)).2 = .err .runtime ∧
    kfIterSizeChanged (abs h) (.next 3) = true := by decide

/-- C17-K03 witness: `[True, False].sort()` fails in the model (py.Lt on two bools) although the list is sortable -/
theorem sort_bools_witness :
    sortStable false [.bool true, .bool false] = ([.bool true, .bool false], true) ∧
    sortable [.bool true, .bool false] = true ∧ twoBools [.bool true, .bool false] = true := by decide

/-! ### sorting -/

theorem insertBack_perm (rev : Bool) (x : Val) (ys : List Val) : (insertBack rev x ys).1.Perm (x :: ys) := by
  induction ys with
  | nil => exact List.Perm.refl _
  | cons y ys ih =>
    simp only [insertBack]
    split
    · exact (List.Perm.cons y ih).trans (List.Perm.swap x y ys)
    · exact List.Perm.refl _

theorem insSortAux_perm (rev : Bool) (xs acc : List Val) (e : Bool) : (insSortAux rev acc xs e).1.Perm (acc ++ xs) := by
  induction xs generalizing acc e with
  | nil => simp [insSortAux]
  | cons x xs ih =>
    simp only [insSortAux]
    refine (ih _ _).trans ?_
    exact ((insertBack_perm rev x acc).append_right xs).trans (List.perm_middle.symm)

/-- `list.sort()` – whether it succeeds or a comparison raises – leaves a PERMUTATION of the items:
nothing is lost or duplicated (the failing case is the arrangement `perm` of the specification) -/
theorem sort_result_is_permutation (rev : Bool) (xs : List Val) : (sortStable rev xs).1.Perm xs := by
  simpa [sortStable] using insSortAux_perm rev xs [] false

/-! ### non-vacuity -/

/-- the hypotheses of `alias_sees_mutation` / `self_operand` / `copy_is_independent` hold at a concrete
heap with a FULL array (the append must reallocate) and two names for one object -/
example : let h : MHeap := ⟨[[.int 1], [.str "a"]], [.list ⟨0, 0, 1, 1⟩, .list ⟨1, 0, 1, 1⟩], [0, 0, 1, 0, 0]⟩
    h.id 1 = h.id 0 ∧ h.obj 0 = some (.list ⟨0, 0, 1, 1⟩) ∧ h.id 2 ≠ h.id 0 ∧
    (step h (.lAppend 0 (.int 2))).1.obj 1 = some (.list ⟨2, 0, 2, 2⟩) := by decide

/-- `mutation_during_iteration`'s hypothesis holds for a live list iterator -/
example : ∀ pos xs o, (⟨[[.int 1]], [.list ⟨0, 0, 1, 1⟩, .iter 0 (.obj 0)], [0, 0, 0, 1, 1]⟩ : MHeap).obj 3
    = some (.iter pos (.tuple xs o)) → o = none := by
  intro pos xs o hh
  have : (⟨[[.int 1]], [.list ⟨0, 0, 1, 1⟩, .iter 0 (.obj 0)], [0, 0, 0, 1, 1]⟩ : MHeap).obj 3 = some (.iter 0 (.obj 0)) := by decide
  rw [this] at hh
  cases hh

end GPy.C17
