/-
C17 property theorems: the model of py/list.go / dict.go / set.go / iterator.go over Go backing
arrays REFINES the specification's heap of values.  Round 1: the append family, iterators, the
corollaries; round 2 (second half of this file): EVERY list operation (`list_step_refines_partial`,
`history_refines`), sort (sorted + permutation + stable, relative to any stable sort), dicts and sets.
Helper layers: Proofs.lean (Go-slice primitives, Inv, frame lemma), Refine.lean (Own results, loops,
iterators), RefineOps.lean / RefineIdx.lean (one lemma per operation), SliceProofs.lean (Go index
arithmetic = Python slice semantics, on C13), SortProofs.lean, DictSetProofs.lean.  `abs` forgets arrays, offsets and capacities;
`Inv` (valid headers, distinct list objects never share an array) is what makes a write through
one object invisible through any other.  Every theorem quantifies over ALL heaps satisfying `Inv`
(hence over every finite history that preserves it), all values, names, sizes and capacities, and
over every growth rule (`growCap` is never unfolded).
-/
import GPy.C17.RefineIdx
import GPy.C17.DictSetProofs
namespace GPy.C17

/-- the initial heaps of the generated histories satisfy the invariant -/
theorem inv_init : Inv ⟨[[], [], []], [.iter 0 (.tuple [] none), .list ⟨0, 0, 0, 0⟩, .list ⟨1, 0, 0, 0⟩, .list ⟨2, 0, 0, 0⟩], [1, 2, 3, 0, 0]⟩ := by
  constructor
  · intro i hd hi
    match i, hi with
    | 1, hi => simp at hi; subst hi; exact ⟨by simp, by simp [List.getD], by simp⟩
    | 2, hi => simp at hi; subst hi; exact ⟨by simp, by simp [List.getD], by simp⟩
    | 3, hi => simp at hi; subst hi; exact ⟨by simp, by simp [List.getD], by simp⟩
    | 0, hi => simp at hi
    | n + 4, hi => simp at hi
  · intro i j hi hj hne e1 e2
    match i, j, e1, e2 with
    | 1, 2, e1, e2 => simp at e1 e2; subst e1 e2; simp
    | 1, 3, e1, e2 => simp at e1 e2; subst e1 e2; simp
    | 2, 1, e1, e2 => simp at e1 e2; subst e1 e2; simp
    | 2, 3, e1, e2 => simp at e1 e2; subst e1 e2; simp
    | 3, 1, e1, e2 => simp at e1 e2; subst e1 e2; simp
    | 3, 2, e1, e2 => simp at e1 e2; subst e1 e2; simp
    | 1, 1, _, _ => exact absurd rfl hne
    | 2, 2, _, _ => exact absurd rfl hne
    | 3, 3, _, _ => exact absurd rfl hne
    | 0, _, e1, _ => simp at e1
    | _, 0, _, e2 => simp at e2
    | n + 4, _, e1, _ => simp at e1
    | _, n + 4, _, e2 => simp at e2

/-! ### refinement of the mutating list operations -/

/-- `l.append(x)`: same observation, commuting abstraction – whether Go's `append` writes in place
or reallocates, and whatever other objects exist -/
theorem append_refines (perm : Bool → List Val → List Val) (h : MHeap) (inv : Inv h) (v : Nat) (x : Val) :
    abs (step h (.lAppend v x)).1 = (specStep perm (abs h) (.lAppend v x)).1 ∧
    (step h (.lAppend v x)).2 = (specStep perm (abs h) (.lAppend v x)).2 := by
  simp only [step, specStep, abs_obj]
  cases e : h.obj v with
  | none => simp
  | some o =>
    cases o with
    | list hd =>
      simp only [Option.map_some, absObj]
      have hv := inv.valid _ hd (obj_lookup e)
      exact ⟨abs_putList h inv _ hd _ _ (obj_lookup e) (goAppend_untouched _ _ _) (goAppend_read _ _ _ hv), trivial⟩
    | _ => simp [absObj]

/-- `v.extend(w)` for list objects `v`, `w` – INCLUDING `w` being `v` itself or an alias of it -/
theorem extend_refines (perm : Bool → List Val → List Val) (h : MHeap) (inv : Inv h) (v w : Nat) :
    abs (step h (.lExtend v w)).1 = (specStep perm (abs h) (.lExtend v w)).1 ∧
    (step h (.lExtend v w)).2 = (specStep perm (abs h) (.lExtend v w)).2 := by
  simp only [step, specStep, abs_obj]
  cases ev : h.obj v with
  | none => cases ew : h.obj w with
    | none => simp
    | some o => cases o <;> simp [absObj]
  | some o =>
    cases ew : h.obj w with
    | none => cases o <;> simp [absObj]
    | some o' =>
      cases o with
      | list hd =>
        cases o' with
        | list hw =>
          simp only [Option.map_some, absObj]
          have hv := inv.valid _ hd (obj_lookup ev)
          exact ⟨abs_putList h inv _ hd _ _ (obj_lookup ev) (goAppend_untouched _ _ _) (goAppend_read _ _ _ hv), trivial⟩
        | _ => simp [absObj]
      | _ => cases o' <;> simp [absObj]

/-- `v += w` is the same in-place extension (M__iadd__ returns self) -/
theorem iadd_refines (perm : Bool → List Val → List Val) (h : MHeap) (inv : Inv h) (v w : Nat) :
    abs (step h (.lIAdd v w)).1 = (specStep perm (abs h) (.lIAdd v w)).1 ∧
    (step h (.lIAdd v w)).2 = (specStep perm (abs h) (.lIAdd v w)).2 := extend_refines perm h inv v w

/-! ### the invariant is preserved -/

/-- storing the result of an `append`-like primitive (same array or a fresh one, others untouched) keeps `Inv` -/
theorem inv_putList (h : MHeap) (inv : Inv h) (id : Nat) (hd : Hdr) (r : Arrs × Hdr)
    (hobj : h.objs[id]? = some (.list hd)) (u : Untouched h.arrs r.1 hd.arr) (hv : r.2.Valid r.1)
    (harr : r.2.arr = hd.arr ∨ r.2.arr = h.arrs.length) : Inv (h.putList id r) := by
  have hlt : id < h.objs.length := by
    rcases Nat.lt_or_ge id h.objs.length with h1 | h1
    · exact h1
    · simp [List.getElem?_eq_none h1] at hobj
  have old : ∀ i hj, i ≠ id → (h.putList id r).objs[i]? = some (MObj.list hj) → h.objs[i]? = some (MObj.list hj) := by
    intro i hj hne e
    simpa [MHeap.putList, List.getElem?_set, Ne.symm hne] using e
  have new : ∀ hj, (h.putList id r).objs[id]? = some (MObj.list hj) → hj = r.2 := by
    intro hj e
    simp [MHeap.putList, List.getElem?_set, hlt] at e
    exact e.symm
  constructor
  · intro i hj e
    by_cases hi : i = id
    · subst hi; rw [new hj e]; exact hv
    · have e' := old i hj hi e
      have vj := inv.valid i hj e'
      have ne : hj.arr ≠ hd.arr := inv.sep i id hj hd hi e' hobj
      refine ⟨Nat.lt_of_lt_of_le vj.arr_lt u.1, ?_, vj.len_le⟩
      show hj.off + hj.cap ≤ (List.getD r.1 hj.arr []).length
      rw [u.2 _ ne vj.arr_lt]; exact vj.fits
  · intro i j hi hj hne e1 e2
    by_cases h1 : i = id
    · subst h1
      have e2' := old j hj (Ne.symm hne) e2
      rw [new hi e1]
      rcases harr with ha | ha
      · rw [ha]; exact inv.sep _ _ hd hj hne hobj e2'
      · rw [ha]; exact Nat.ne_of_gt (inv.valid j hj e2').arr_lt
    · by_cases h2 : j = id
      · subst h2
        have e1' := old i hi h1 e1
        rw [new hj e2]
        rcases harr with ha | ha
        · rw [ha]; exact inv.sep _ _ hi hd hne e1' hobj
        · rw [ha]; exact Nat.ne_of_lt (inv.valid i hi e1').arr_lt
      · exact inv.sep i j hi hj hne (old i hi h1 e1) (old j hj h2 e2)

/-- `append`, `extend`, `+=` (also with the list as its own operand) preserve `Inv` -/
theorem inv_append (h : MHeap) (inv : Inv h) (v : Nat) (x : Val) : Inv (step h (.lAppend v x)).1 := by
  simp only [step]
  cases e : h.obj v with
  | none => exact inv
  | some o =>
    cases o with
    | list hd =>
      have hv := inv.valid _ hd (obj_lookup e)
      exact inv_putList h inv _ hd _ (obj_lookup e) (goAppend_untouched _ _ _) (goAppend_valid _ _ _ hv).1 (goAppend_valid _ _ _ hv).2
    | _ => exact inv

theorem inv_extend (h : MHeap) (inv : Inv h) (v w : Nat) : Inv (step h (.lExtend v w)).1 := by
  simp only [step]
  cases ev : h.obj v with
  | none => exact inv
  | some o =>
    cases ew : h.obj w with
    | none => cases o <;> exact inv
    | some o' =>
      cases o with
      | list hd =>
        cases o' with
        | list hw =>
          have hv := inv.valid _ hd (obj_lookup ev)
          exact inv_putList h inv _ hd _ (obj_lookup ev) (goAppend_untouched _ _ _) (goAppend_valid _ _ _ hv).1 (goAppend_valid _ _ _ hv).2
        | _ => exact inv
      | _ => cases o' <;> exact inv

/-- by induction: EVERY finite history of appends / extends / += (any names, any values, self operands
included) from a heap satisfying `Inv` ends in a heap satisfying `Inv`, and its abstraction is what the
specification computes for the same history -/
def appendLike : Op → Bool
  | .lAppend .. | .lExtend .. | .lIAdd .. => true
  | _ => false

theorem history_refines_append (perm : Bool → List Val → List Val) (ops : List Op) (hops : ∀ op ∈ ops, appendLike op = true)
    (h : MHeap) (inv : Inv h) : Inv (run h ops) ∧ abs (run h ops) = specRun perm (abs h) ops := by
  induction ops generalizing h with
  | nil => exact ⟨inv, rfl⟩
  | cons op ops ih =>
    have hop := hops op (by simp)
    have hrest : ∀ o ∈ ops, appendLike o = true := fun o ho => hops o (by simp [ho])
    simp only [run, specRun]
    cases op <;> simp [appendLike] at hop
    case lAppend v x =>
      rw [← (append_refines perm h inv v x).1]; exact ih hrest _ (inv_append h inv v x)
    case lExtend v w =>
      rw [← (extend_refines perm h inv v w).1]; exact ih hrest _ (inv_extend h inv v w)
    case lIAdd v w =>
      rw [← (iadd_refines perm h inv v w).1]; exact ih hrest _ (inv_extend h inv v w)

/-! ### corollaries stated outright -/

/-- ALIAS SEES MUTATION: if `w` names the same list object as `v`, then after `v.append(x)` the list
read through `w` is the old contents followed by `x` -/
theorem alias_sees_mutation (h : MHeap) (inv : Inv h) (v w : Nat) (x : Val) (hd : Hdr)
    (hal : h.id w = h.id v) (e : h.obj v = some (.list hd)) :
    (abs (step h (.lAppend v x)).1).obj w = some (.list (readHdr h.arrs hd ++ [x])) := by
  rw [(append_refines (fun _ xs => xs) h inv v x).1]
  have hlt : h.id v < (abs h).objs.length := by
    have := obj_lookup e
    rcases Nat.lt_or_ge (h.id v) h.objs.length with h1 | h1
    · simpa [abs] using h1
    · simp [List.getElem?_eq_none h1] at this
  simp only [specStep, abs_obj, e, Option.map_some, absObj]
  simp only [SHeap.obj, SHeap.setObj, SHeap.id]
  show ((abs h).objs.set (h.id v) _)[h.id w]? = _
  rw [hal]
  simp [hlt]

/-- SELF OPERAND: `l.extend(l)` and `l += l` double the list (every alias sees the doubled list) -/
theorem self_operand (h : MHeap) (inv : Inv h) (v : Nat) (hd : Hdr) (e : h.obj v = some (.list hd)) :
    (abs (step h (.lExtend v v)).1).obj v = some (.list (readHdr h.arrs hd ++ readHdr h.arrs hd)) ∧
    (abs (step h (.lIAdd v v)).1).obj v = some (.list (readHdr h.arrs hd ++ readHdr h.arrs hd)) := by
  have key : (abs (step h (.lExtend v v)).1).obj v = some (.list (readHdr h.arrs hd ++ readHdr h.arrs hd)) := by
    rw [(extend_refines (fun _ xs => xs) h inv v v).1]
    have hlt : h.id v < (abs h).objs.length := by
      have := obj_lookup e
      rcases Nat.lt_or_ge (h.id v) h.objs.length with h1 | h1
      · simpa [abs] using h1
      · simp [List.getElem?_eq_none h1] at this
    simp only [specStep, abs_obj, e, Option.map_some, absObj]
    simp only [SHeap.obj, SHeap.setObj, SHeap.id]
    show ((abs h).objs.set (h.id v) _)[h.id v]? = _
    simp [hlt]
  exact ⟨key, key⟩

/-- A WRITE THROUGH ONE LIST OBJECT IS NEVER SEEN THROUGH ANOTHER (so never through a copy): any name `u`
bound to a different object reads the same value before and after `v.append(x)` – in place or reallocated -/
theorem copy_is_independent (h : MHeap) (inv : Inv h) (u v : Nat) (x : Val) (hne : h.id u ≠ h.id v) :
    (abs (step h (.lAppend v x)).1).obj u = (abs h).obj u := by
  rw [(append_refines (fun _ xs => xs) h inv v x).1]
  simp only [specStep, abs_obj]
  cases e : h.obj v with
  | none => simp [abs_obj]
  | some o =>
    cases o with
    | list hd =>
      simp only [Option.map_some, absObj]
      rw [← abs_obj]
      simp only [SHeap.obj, SHeap.setObj, SHeap.id]
      have hne' : (abs h).vars.getD v 0 ≠ (abs h).vars.getD u 0 := Ne.symm hne
      rw [List.getElem?_set_ne hne']
    | _ => simp [absObj, abs_obj]

/-! ### iteration over the live list -/

/-- MUTATION DURING ITERATION: `next(t)` on a list iterator refines the specification in EVERY heap –
whatever appends, deletions, reallocations happened to the list since `iter()` – because the iterator
holds the list object, not a slice header -/
theorem mutation_during_iteration (perm : Bool → List Val → List Val) (h : MHeap) (inv : Inv h) (t : Nat)
    (hlist : ∀ pos xs o, h.obj t = some (.iter pos (.tuple xs o)) → o = none) :
    abs (step h (.next t)).1 = (specStep perm (abs h) (.next t)).1 ∧
    (step h (.next t)).2 = (specStep perm (abs h) (.next t)).2 := by
  simp only [step, specStep, abs_obj]
  cases e : h.obj t with
  | none => simp
  | some o =>
    cases o with
    | iter pos seq =>
      have hs : ∀ xs o, seq = .tuple xs o → o = none := fun xs o hh => hlist pos xs o (by rw [e, hh])
      obtain ⟨h1, h2⟩ := iterNext_abs h inv pos seq hs
      simp only [Option.map_some, absObj]
      rcases hm : iterNext h.arrs h.objs pos seq with ⟨rm, im⟩
      rcases hsp : specNext (abs h) pos (absSeq seq) with ⟨rs, is⟩
      simp only [hm, hsp] at h1 h2
      subst h1; subst h2
      cases rm <;> exact ⟨abs_setObj _ _ _, rfl⟩
    | _ => simp [absObj]

/-! ### dicts and sets -/

/-- `d[k] = x` on a string-keyed dict: the Go map update is the finite-map update (aliases share the object) -/
theorem dict_setitem_refines (perm : Bool → List Val → List Val) (h : MHeap) (v : Nat) (k : String) (x : Val) :
    abs (step h (.dSet v k x)).1 = (specStep perm (abs h) (.dSet v k x)).1 ∧
    (step h (.dSet v k x)).2 = (specStep perm (abs h) (.dSet v k x)).2 := by
  simp only [step, specStep, abs_obj]
  cases e : h.obj v with
  | none => simp
  | some o => cases o <;> simp [absObj, abs_setObj] <;> rfl

theorem dict_delitem_refines (perm : Bool → List Val → List Val) (h : MHeap) (v : Nat) (k : String) :
    abs (step h (.dDel v k)).1 = (specStep perm (abs h) (.dDel v k)).1 ∧
    (step h (.dDel v k)).2 = (specStep perm (abs h) (.dDel v k)).2 := by
  simp only [step, specStep, abs_obj]
  cases e : h.obj v with
  | none => simp
  | some o =>
    cases o with
    | dict m => simp only [Option.map_some, absObj]; split <;> simp [abs_setObj, absObj] <;> rfl
    | _ => simp [absObj]

theorem any_congr_mem (ks : List Val) (f g : Val → Bool) (h : ∀ y ∈ ks, f y = g y) : ks.any f = ks.any g := by
  induction ks with
  | nil => rfl
  | cons a as ih => simp [List.any_cons, h a (by simp), ih (fun y hy => h y (by simp [hy]))]

/-- `s.add(x)`: PARTIAL – excluded (C17-K01): a member `y` of the set that Python's `==` identifies with
`x` while Go's `==` on the interface values does not (1 / True / 1.0) -/
theorem set_add_refines_partial (perm : Bool → List Val → List Val) (h : MHeap) (v : Nat) (x : Val)
    (hc : ∀ ks, h.obj v = some (.set ks) → ∀ y ∈ ks, goEq y x = pyEq y x) :
    abs (step h (.sAdd v x)).1 = (specStep perm (abs h) (.sAdd v x)).1 ∧
    (step h (.sAdd v x)).2 = (specStep perm (abs h) (.sAdd v x)).2 := by
  simp only [step, specStep, abs_obj]
  cases e : h.obj v with
  | none => simp
  | some o =>
    cases o with
    | set ks =>
      have : setAddBy goEq ks x = setAdd ks x := by
        unfold setAdd setAddBy memBy
        rw [any_congr_mem ks _ _ (hc ks e)]
      simp [absObj, abs_setObj, this]; rfl
    | _ => simp [absObj]

/-- C17-K01 witness: `{1, True}` has two members in the model, one in Python -/
theorem set_keys_witness :
    setOfListBy goEq [.int 1, .bool true] = [.int 1, .bool true] ∧ setOfList [.int 1, .bool true] = [.int 1] ∧
    kfSetKeys [.sNew 0 [.int 1, .bool true]] = true := by decide

/-- C17-K02 witness: an iterator made over an empty dict that has since grown: the model's snapshot
says StopIteration, Python says RuntimeError -/
theorem dict_iter_size_witness :
    let h : MHeap := ⟨[], [.dict [("k", .int 1)], .iter 0 (.tuple [] (some (0, 0)))], [0, 0, 0, 1, 1]⟩
    (step h (.next 3)).2 = .err .stopIter ∧ (specStep (fun _ xs => xs) (abs h) (.next 3)).2 = .err .runtime ∧
    kfIterSizeChanged (abs h) (.next 3) = true := by decide

/-- C17-K03 witness: `[True, False].sort()` fails in the model (py.Lt on two bools) although the list is sortable -/
theorem sort_bools_witness :
    sortStable false [.bool true, .bool false] = ([.bool true, .bool false], true) ∧
    sortable [.bool true, .bool false] = true ∧ twoBools [.bool true, .bool false] = true := by decide

/-! ### sorting -/

theorem insertBack_perm (rev : Bool) (x : Val) (ys : List Val) : (insertBack rev x ys).1.Perm (x :: ys) := by
  induction ys with
  | nil => exact List.Perm.refl _
  | cons y ys ih =>
    simp only [insertBack]
    split
    · exact (List.Perm.cons y ih).trans (List.Perm.swap x y ys)
    · exact List.Perm.refl _

theorem insSortAux_perm (rev : Bool) (xs acc : List Val) (e : Bool) : (insSortAux rev acc xs e).1.Perm (acc ++ xs) := by
  induction xs generalizing acc e with
  | nil => simp [insSortAux]
  | cons x xs ih =>
    simp only [insSortAux]
    refine (ih _ _).trans ?_
    exact ((insertBack_perm rev x acc).append_right xs).trans (List.perm_middle.symm)

/-- `list.sort()` – whether it succeeds or a comparison raises – leaves a PERMUTATION of the items:
nothing is lost or duplicated (the failing case is the arrangement `perm` of the specification) -/
theorem sort_result_is_permutation (rev : Bool) (xs : List Val) : (sortStable rev xs).1.Perm xs := by
  simpa [sortStable] using insSortAux_perm rev xs [] false

/-! ### non-vacuity -/

/-- the hypotheses of `alias_sees_mutation` / `self_operand` / `copy_is_independent` hold at a concrete
heap with a FULL array (the append must reallocate) and two names for one object -/
example : let h : MHeap := ⟨[[.int 1], [.str "a"]], [.list ⟨0, 0, 1, 1⟩, .list ⟨1, 0, 1, 1⟩], [0, 0, 1, 0, 0]⟩
    h.id 1 = h.id 0 ∧ h.obj 0 = some (.list ⟨0, 0, 1, 1⟩) ∧ h.id 2 ≠ h.id 0 ∧
    (step h (.lAppend 0 (.int 2))).1.obj 1 = some (.list ⟨2, 0, 2, 2⟩) := by decide

/-- `mutation_during_iteration`'s hypothesis holds for a live list iterator -/
example : ∀ pos xs o, (⟨[[.int 1]], [.list ⟨0, 0, 1, 1⟩, .iter 0 (.obj 0)], [0, 0, 0, 1, 1]⟩ : MHeap).obj 3
    = some (.iter pos (.tuple xs o)) → o = none := by
  intro pos xs o hh
  have : (⟨[[.int 1]], [.list ⟨0, 0, 1, 1⟩, .iter 0 (.obj 0)], [0, 0, 0, 1, 1]⟩ : MHeap).obj 3 = some (.iter 0 (.obj 0)) := by decide
  rw [this] at hh
  cases hh

/-! ## Round 2: EVERY list operation refines, over any history -/

/-- the operations of a list history: every list operation of the model and the kind-generic ones -/
def listOp : Op → Bool
  | .alias .. | .lNew .. | .lCopy .. | .lSliceCopy .. | .lOfSrc .. | .lOfIter .. | .lComp .. | .lAppend .. | .lExtend ..
  | .lExtendSrc .. | .lExtendIter .. | .lIAdd .. | .lIAddSrc .. | .lAdd .. | .lMul .. | .lIMul .. | .lSetItem .. | .lDelItem ..
  | .lGetItem .. | .lGetSlice .. | .lSetSlice .. | .lSetSliceSrc .. | .lDelSlice .. | .lSort .. | .lForAppend .. | .lInsert ..
  | .lPop .. | .lRemove .. | .lReverse .. | .lClear .. | .lCopyM .. | .len .. | .eq .. | .ne .. | .contains .. | .iter ..
  | .next .. | .drain .. => true
  | _ => false

/-- the index / slice integers of an operation are Go `int`s (a Python int beyond int64 is a *BigInt:
C13's territory, never generated here) -/
def Op.intsOK : Op → Prop
  | .lSetItem _ i _ | .lDelItem _ i | .lGetItem _ i => inRange i
  | .lPop _ i => optInRange i
  | .lGetSlice _ _ lo hi st | .lSetSlice _ lo hi st _ | .lSetSliceSrc _ lo hi st _ | .lDelSlice _ lo hi st =>
    optInRange lo ∧ optInRange hi ∧ optInRange st
  | _ => True

/-- no list a name refers to has more than 2^63-1 items (no Go slice has) -/
def Small (h : MHeap) : Prop := ∀ v hd, h.obj v = some (.list hd) → (hd.len : Int) ≤ IntMax

/-- side conditions of one step: Go-sized integers and lists, and not inside known finding C17-K03 -/
structure OpOK (h : MHeap) (op : Op) : Prop where
  ints : op.intsOK
  small : Small h
  k03 : kfSortBools (abs h) op = false

/-- **EVERY list operation refines.**  For every heap satisfying the invariant and every operation of a list
history – item and slice assignment/deletion (the assigned list may be the target itself), append/extend/+=
from lists, tuples, strings, iterators, insert/pop/remove/reverse/clear/copy, sort, `*=`, `+`, `*`, list()/slice/
comprehension copies, a for-loop appending to the list it iterates, len/==/!=/in, iter/next/list(it) –
the abstraction commutes with the step, the observation (value or exception) is the specification's, and the
invariant is kept.  PARTIAL only in `OpOK`: Go-sized integers/lists and the exclusion of C17-K03. -/
theorem list_step_refines_partial (h : MHeap) (li : LInv h) (op : Op) (hop : listOp op = true) (hok : OpOK h op) :
    Refines modelPerm h op := by
  have hs := hok.small
  cases op <;> simp only [listOp, Bool.false_eq_true] at hop
  case «alias» v w => exact alias_refines _ h li v w
  case lNew v xs => exact lNew_refines _ h li v xs
  case lCopy v w => exact lCopy_refines _ h li v w
  case lSliceCopy v w => exact lSliceCopy_refines _ h li v w
  case lOfSrc v s => exact lOfSrc_refines _ h li v s
  case lOfIter v t => exact lOfIter_refines _ h li v t
  case lComp v w => exact lComp_refines _ h li v w
  case lAppend v x => exact lAppend_refines _ h li v x
  case lExtend v w => exact lExtend_refines _ h li v w
  case lExtendSrc v s => exact lExtendSrc_refines _ h li v s
  case lExtendIter v t => exact lExtendIter_refines _ h li v t
  case lIAdd v w => exact lIAdd_refines _ h li v w
  case lIAddSrc v s => exact lIAddSrc_refines _ h li v s
  case lAdd u v w => exact lAdd_refines _ h li u v w
  case lMul u v n => exact lMul_refines _ h li u v n
  case lIMul v n => exact lIMul_refines _ h li v n
  case lSetItem v i x => exact lSetItem_refines _ h li v i x hok.ints (hs v)
  case lDelItem v i => exact lDelItem_refines _ h li v i hok.ints (hs v)
  case lGetItem v i => exact lGetItem_refines _ h li v i hok.ints (hs v)
  case lGetSlice u v lo hi st => exact lGetSlice_refines _ h li u v lo hi st hok.ints.1 hok.ints.2.1 hok.ints.2.2 (hs v)
  case lSetSlice v lo hi st w => exact lSetSlice_refines _ h li v w lo hi st hok.ints.1 hok.ints.2.1 hok.ints.2.2 (hs v)
  case lSetSliceSrc v lo hi st s => exact lSetSliceSrc_refines _ h li v lo hi st s hok.ints.1 hok.ints.2.1 hok.ints.2.2 (hs v)
  case lDelSlice v lo hi st => exact lDelSlice_refines _ h li v lo hi st hok.ints.1 hok.ints.2.1 hok.ints.2.2 (hs v)
  case lSort v rev => exact lSort_refines_partial h li v rev hok.k03
  case lForAppend v b => exact lForAppend_refines _ h li v b
  case lInsert v i x => exact lInsert_refines _ h li v i x
  case lPop v i => exact lPop_refines _ h li v i hok.ints (hs v)
  case lRemove v x => exact lRemove_refines _ h li v x
  case lReverse v => exact lReverse_refines _ h li v
  case lClear v => exact lClear_refines _ h li v
  case lCopyM u v => exact lCopyM_refines _ h li u v
  case len v => exact len_refines _ h li v
  case eq v w => exact eq_refines _ h li v w
  case ne v w => exact ne_refines _ h li v w
  case contains v x => exact contains_refines _ h li v x
  case iter t v => exact iter_refines _ h li t v
  case next t => exact next_refines _ h li t
  case drain t => exact drain_refines _ h li t

/-- the side conditions hold along the whole model run -/
def RunOK (h : MHeap) : List Op → Prop
  | [] => True
  | op :: ops => listOp op = true ∧ OpOK h op ∧ RunOK (step h op).1 ops

/-- the observations of a run, step by step -/
def runObs (h : MHeap) : List Op → List Res
  | [] => []
  | op :: ops => (step h op).2 :: runObs (step h op).1 ops

def specObs (perm : Bool → List Val → List Val) (h : SHeap) : List Op → List Res
  | [] => []
  | op :: ops => (specStep perm h op).2 :: specObs perm (specStep perm h op).1 ops

/-- **history_refines**, by induction over ANY finite history of list operations (all of them: see `listOp`)
from any heap satisfying the invariant: the final heap satisfies the invariant, its abstraction is what the
specification computes for the same history, and EVERY observation along the way (value, exception) is the
specification's.  PARTIAL: `RunOK` asks, at every step of the model run, for Go-sized integers and lists
(int64 indices, len ≤ 2^63-1) and excludes C17-K03 (sorting a list that holds two bools). -/
theorem history_refines_partial (ops : List Op) (h : MHeap) (li : LInv h) (hok : RunOK h ops) :
    LInv (run h ops) ∧ abs (run h ops) = specRun modelPerm (abs h) ops ∧ runObs h ops = specObs modelPerm (abs h) ops := by
  induction ops generalizing h with
  | nil => exact ⟨li, rfl, rfl⟩
  | cons op ops ih =>
    obtain ⟨hop, hk, hrest⟩ := hok
    obtain ⟨a, r, i⟩ := list_step_refines_partial h li op hop hk
    obtain ⟨i1, i2, i3⟩ := ih (step h op).1 i hrest
    simp only [run, specRun, runObs, specObs]
    rw [← a, ← r]
    exact ⟨i1, i2, by rw [i3]⟩

/-- the generator's initial list heap satisfies the invariant of list histories -/
theorem linv_init : LInv ⟨[[], [], []], [.iter 0 (.tuple [] none), .list ⟨0, 0, 0, 0⟩, .list ⟨1, 0, 0, 0⟩, .list ⟨2, 0, 0, 0⟩], [1, 2, 3, 0, 0]⟩ := by
  refine ⟨inv_init, ?_⟩
  intro o ho
  simp only [List.mem_cons, List.mem_nil_iff, or_false] at ho
  rcases ho with rfl | rfl | rfl | rfl
  · exact listObj_of_iter (okObj_empty 0)
  · exact listObj_list _
  · exact listObj_list _
  · exact listObj_list _

/-! ### corollaries of the general refinement -/

/-- SELF OPERAND, slice form: `l[lo:hi] = l` splices the OLD contents of `l` into itself (the value is read
before the list is touched), whatever the bounds – e.g. `l[1:2] = l` -/
theorem self_operand_slice (h : MHeap) (li : LInv h) (v : Nat) (hd : Hdr) (lo hi : Option Int) (e : h.obj v = some (.list hd))
    (hlo : optInRange lo) (hhi : optInRange hi) (hn : (hd.len : Int) ≤ IntMax) :
    (abs (step h (.lSetSlice v lo hi none v)).1).obj v
      = some (.list (replaceRun (readHdr h.arrs hd) (readHdr h.arrs hd).length lo hi (readHdr h.arrs hd))) ∧
    (step h (.lSetSlice v lo hi none v)).2 = .ok := by
  have hsm : ∀ hd', h.obj v = some (.list hd') → (hd'.len : Int) ≤ IntMax := fun hd' e' => by rw [e] at e'; cases e'; exact hn
  obtain ⟨a, r, _⟩ := lSetSlice_refines modelPerm h li v v lo hi none hlo hhi (fun _ hh => by cases hh) hsm
  rw [a, r]
  have hlt : h.id v < (abs h).objs.length := by
    have := lt_of_lookup (obj_lookup e); simpa [abs] using this
  have hsp : slicePos (readHdr h.arrs hd).length lo hi none
      = .ok (C13.sliceIndices (readHdr h.arrs hd).length lo hi 1, true) := by
    cases lo <;> cases hi <;> rfl
  simp only [specStep, abs_obj, e, Option.map_some, absObj, specSetSlice, hsp, if_true]
  simp only [SHeap.obj, SHeap.setObj, SHeap.id]
  constructor
  · show ((abs h).objs.set (h.id v) _)[h.id v]? = _
    simp [hlt]
  · trivial

/-- ALIAS SEES EVERY MUTATION, NEVER A COPY: for ANY list operation `op` (slice assignment, sort, pop, `*=`, …), a
name bound to a different object than every object the specification's step changes reads the same value before
and after – stated through the refinement: the model's abstract heap after the step IS the specification's -/
theorem step_visible_exactly_as_spec_partial (h : MHeap) (li : LInv h) (op : Op) (hop : listOp op = true) (hok : OpOK h op) (u : Nat) :
    (abs (step h op).1).obj u = (specStep modelPerm (abs h) op).1.obj u := by
  rw [(list_step_refines_partial h li op hop hok).1]

/-! ### sort: sorted, permutation, stable – relative to ANY stable sort -/

/-- `list.sort(reverse=rev)` on a list whose comparisons are all defined (all numbers or all strings; at most
one bool – C17-K03): no error, and the result is SORTED, a PERMUTATION, STABLE (every already-ordered
subsequence of the input is a subsequence of the result) – and hence equal to the specification's stable
merge sort.  The model's `sortStable` is Go's insertion sort (sort.Stable's single block for n ≤ 20). -/
theorem sort_result_is_sorted_permutation_and_stable (rev : Bool) (xs : List Val) (hs : sortable xs = true) (hb : twoBools xs = false) :
    (sortStable rev xs).2 = false ∧
    ((sortStable rev xs).1).Pairwise (fun a b => leOf rev a b = true) ∧ (sortStable rev xs).1.Perm xs ∧
    (∀ c : List Val, c.Sublist xs → c.Pairwise (fun a b => leOf rev a b = true) → c.Sublist (sortStable rev xs).1) ∧
    (sortStable rev xs).1 = specSort rev xs :=
  ⟨sortStable_noerr rev xs hs hb, (sort_sorted_perm_stable rev xs hs hb).1, (sort_sorted_perm_stable rev xs hs hb).2.1,
   (sort_sorted_perm_stable rev xs hs hb).2.2, sortStable_eq_specSort rev xs hs hb⟩

/-- RELATIVE TO THE STABLE-SORT PARAMETER: whatever algorithm `sort.Stable` uses (for n > 20: insertion-sorted
blocks merged by symMerge), if its result is a sorted, stable permutation then it IS the specification's sort –
so the model's insertion sort stands for every stable sort -/
theorem any_stable_sort_is_spec_sort (rev : Bool) (xs r : List Val) (hs : sortable xs = true) (hb : twoBools xs = false)
    (hp : r.Perm xs) (hsorted : r.Pairwise (fun a b => leOf rev a b = true))
    (hstable : ∀ c : List Val, c.Sublist xs → c.Pairwise (fun a b => leOf rev a b = true) → c.Sublist r) :
    r = specSort rev xs ∧ r = (sortStable rev xs).1 := by
  have := stable_sort_unique rev xs r hs hb hp hsorted hstable
  exact ⟨this, by rw [this, sortStable_eq_specSort rev xs hs hb]⟩

/-- THE ERROR PATH: a list that is not sortable as a whole makes some `Less` raise (TypeError is reported), and
the list is left a PERMUTATION of its items -/
theorem sort_error_leaves_permutation (rev : Bool) (xs : List Val) (hs : sortable xs = false) :
    (sortStable rev xs).2 = true ∧ (sortStable rev xs).1.Perm xs :=
  ⟨sortStable_err_of_not_sortable rev xs hs, sort_result_is_permutation rev xs⟩

/-! ### dicts and sets: every operation refines (proofs: DictSetProofs.lean) -/

/-- **EVERY dict and set operation refines** (display/constructor/comprehension, item set/get/del, get/pop/
setdefault/update/copy/clear, keys/values, set add/update/remove/discard/clear/copy, the four set operators and
their in-place forms, len/==/!=/in, iter/next/list(it)), in every heap without list objects that satisfies the
key-distinctness invariant.  PARTIAL: `hc` excludes C17-K01 (all set members and mentioned scalars lie in a
universe `U` on which Go's `==` is Python's `==`), `hk2` excludes C17-K02 (next on a dict/set iterator after a
size change). -/
theorem dict_set_step_refines_partial (perm : Bool → List Val → List Val) (h : MHeap) (nl : NoList h) (ki : KInv h)
    (U : List Val) (hU : SetsIn h U) (hc : CanonOn U) (op : Op) (hop : dsOp op = true)
    (hv : ∀ x ∈ op.vals, x ∈ U) (hk2 : kfIterSizeChanged (abs h) op = false) :
    abs (step h op).1 = (specStep perm (abs h) op).1 ∧ (step h op).2 = (specStep perm (abs h) op).2 :=
  ds_step_refines perm h nl ki U hU hc op hop hv hk2

/-- the invariants of dict/set histories are kept by every such operation -/
theorem dict_set_step_keeps_invariants (h : MHeap) (nl : NoList h) (ki : KInv h) (U : List Val) (hU : SetsInS h U) (op : Op)
    (hop : dsOp op = true) (hv : ∀ x ∈ op.vals, x ∈ U) :
    NoList (step h op).1 ∧ KInv (step h op).1 ∧ SetsInS (step h op).1 U :=
  ds_step_inv h nl ki U hU op hop hv

/-- by induction over ANY dict/set history -/
theorem dict_set_history_refines_partial (perm : Bool → List Val → List Val) (ops : List Op) (hops : ∀ op ∈ ops, dsOp op = true)
    (h : MHeap) (nl : NoList h) (ki : KInv h) (U : List Val) (hU : SetsIn h U) (hc : CanonOn U)
    (hv : ∀ op ∈ ops, ∀ x ∈ op.vals, x ∈ U)
    (hk2 : ∀ k, k < ops.length →
      kfIterSizeChanged (specRun perm (abs h) (ops.take k)) (ops.getD k (.len 0)) = false) :
    abs (run h ops) = specRun perm (abs h) ops ∧ NoList (run h ops) ∧ KInv (run h ops) :=
  ds_history_refines perm ops hops h nl ki U hU hc hv hk2

/-- … in particular every generated dict or set history outside the known-finding regions (`kfSetKeys`, `kfIterSizeChanged`
– the very predicates that tag the generated cases) -/
theorem dict_set_generated_history_refines_partial (perm : Bool → List Val → List Val) (ops : List Op) (hops : ∀ op ∈ ops, dsOp op = true)
    (hk1 : kfSetKeys ops = false) (h0 : MHeap) (hh : h0 = dictInit ∨ h0 = setInit)
    (hk2 : ∀ k, k < ops.length →
      kfIterSizeChanged (specRun perm (abs h0) (ops.take k)) (ops.getD k (.len 0)) = false) :
    abs (run h0 ops) = specRun perm (abs h0) ops ∧ NoList (run h0 ops) ∧ KInv (run h0 ops) :=
  ds_generated_refines perm ops hops hk1 h0 hh hk2

/-- a dict mutated through one name (`d[k] = x`, `d.update(e)`) is seen through every alias -/
theorem dict_alias_sees_mutation (h : MHeap) (v w u : Nat) (k : String) (x : Val) (m mu : List (String × Val))
    (hal : h.id w = h.id v) (e : h.obj v = some (.dict m)) (eu : h.obj u = some (.dict mu)) :
    (abs (step h (.dSet v k x)).1).obj w = some (.dict (dictSet m k x)) ∧
    (abs (step h (.dUpdate v u)).1).obj w = some (.dict (dictMerge m mu)) :=
  dict_alias_sees_update h v w u k x m mu hal e eu

/-! ### non-vacuity of the round-2 hypotheses -/

theorem small_of_objs (h : MHeap) (hall : ∀ o ∈ h.objs, ∀ hd, o = MObj.list hd → (hd.len : Int) ≤ IntMax) : Small h :=
  fun _ hd e => hall _ (List.mem_of_getElem? (obj_lookup e)) hd rfl

/-- the hypotheses of `history_refines_partial` hold at a heap with an alias (names a, b ↦ one list object) for a
history containing a self slice assignment `a[1:2] = a`, an extended-slice deletion and a sort -/
example : let h : MHeap := ⟨[[.int 3, .int 1], [.str "a"]], [.list ⟨0, 0, 2, 2⟩, .list ⟨1, 0, 1, 1⟩], [0, 0, 1, 0, 0]⟩
    RunOK h [.lSetSlice 0 (some 1) (some 2) none 0] ∧ listOp (.lDelSlice 0 none none (some (-2))) = true ∧
    OpOK h (.lDelSlice 0 none none (some (-2))) ∧ OpOK h (.lSort 1 true) := by
  intro h
  have hs : Small h := small_of_objs h (by
    intro o ho hd e
    simp only [h, List.mem_cons, List.mem_nil_iff, or_false] at ho
    rcases ho with rfl | rfl <;> cases e <;> simp [IntMax])
  have r1 : optInRange (some 1) := fun v hv => by cases hv; simp [inRange, IntMin, IntMax]
  have r2 : optInRange (some 2) := fun v hv => by cases hv; simp [inRange, IntMin, IntMax]
  have r3 : optInRange (some (-2)) := fun v hv => by cases hv; simp [inRange, IntMin, IntMax]
  have r0 : optInRange none := fun v hv => by cases hv
  exact ⟨⟨rfl, ⟨⟨r1, r2, r0⟩, hs, by decide⟩, trivial⟩, rfl, ⟨⟨r0, r0, r3⟩, hs, by decide⟩, ⟨trivial, hs, by decide⟩⟩

end GPy.C17
