import GPy.C17.Proofs
import GPy.C17.ListOps
namespace GPy.C17

theorem abs_obj (h : MHeap) (v : Nat) : (abs h).obj v = (h.obj v).map (absObj h.arrs) := by
  simp [SHeap.obj, MHeap.obj, abs]

theorem obj_lookup {h : MHeap} {v : Nat} {o : MObj} (e : h.obj v = some o) : h.objs[h.id v]? = some o := e

theorem abs_setObj (h : MHeap) (id : Nat) (o : MObj) : abs (h.setObj id o) = (abs h).setObj id (absObj h.arrs o) := by
  simp [abs, MHeap.setObj, SHeap.setObj, List.map_set]

theorem lt_of_lookup {α} {l : List α} {i : Nat} {x : α} (h : l[i]? = some x) : i < l.length := by
  rcases Nat.lt_or_ge i l.length with h1 | h1
  · exact h1
  · simp [List.getElem?_eq_none h1] at h

/-! ### results of Go-slice code that stays inside the list's own (or a fresh) array -/

/-- `r` (new arrays, new header) was computed from a header living in array `a` by code that wrote
only into `a` or into arrays allocated meanwhile -/
structure Own (arrs : Arrs) (a : Nat) (r : Arrs × Hdr) : Prop where
  unt : Untouched arrs r.1 a
  valid : r.2.Valid r.1
  arr : r.2.arr = a ∨ arrs.length ≤ r.2.arr

theorem Own.refl {arrs : Arrs} {hd : Hdr} (v : hd.Valid arrs) : Own arrs hd.arr (arrs, hd) :=
  ⟨Untouched.refl _ _, v, Or.inl rfl⟩

theorem Own.append {arrs : Arrs} {s : Hdr} (v : s.Valid arrs) (vs : List Val) : Own arrs s.arr (goAppend arrs s vs) :=
  ⟨goAppend_untouched _ _ _, (goAppend_valid _ _ _ v).1, (goAppend_valid _ _ _ v).2.imp id (fun h => by omega)⟩

theorem Own.trans {arrs : Arrs} {a : Nat} {r r' : Arrs × Hdr} (h1 : Own arrs a r) (h2 : Own r.1 r.2.arr r') : Own arrs a r' := by
  refine ⟨⟨Nat.le_trans h1.unt.1 h2.unt.1, ?_⟩, h2.valid, ?_⟩
  · intro k hk hlt
    have hk2 : k ≠ r.2.arr := by rcases h1.arr with e | e <;> omega
    rw [h2.unt.2 k hk2 (Nat.lt_of_lt_of_le hlt h1.unt.1), h1.unt.2 k hk hlt]
  · have := h1.unt.1
    rcases h2.arr with e | e
    · rw [e]; exact h1.arr
    · right; omega

theorem Hdr.Valid.upto {arrs : Arrs} {hd : Hdr} (v : hd.Valid arrs) {n : Nat} (h : n ≤ hd.cap) : (hd.upto n).Valid arrs :=
  ⟨v.arr_lt, v.fits, h⟩

theorem readHdr_upto (arrs : Arrs) (hd : Hdr) (n : Nat) (h : n ≤ hd.len) : readHdr arrs (hd.upto n) = (readHdr arrs hd).take n := by
  simp only [readHdr, Hdr.upto, List.take_take, Nat.min_eq_left h]

/-- in-place rewriting of the list's own array by a length-preserving function -/
theorem Own.write {arrs : Arrs} {hd : Hdr} (v : hd.Valid arrs) (f : List Val → List Val)
    (hf : (f (arrs.getD hd.arr [])).length = (arrs.getD hd.arr []).length) : Own arrs hd.arr (arrs.modify hd.arr f, hd) := by
  refine ⟨⟨by simp, fun k hk _ => getD_modify_ne _ _ _ _ hk⟩, ⟨by simpa using v.arr_lt, ?_, v.len_le⟩, Or.inl rfl⟩
  show hd.off + hd.cap ≤ _
  rw [getD_modify_eq _ _ _ v.arr_lt, hf]; exact v.fits

theorem goWrite_own {arrs : Arrs} {hd : Hdr} (v : hd.Valid arrs) (vs : List Val) (hl : vs.length = hd.len) :
    Own arrs hd.arr (goWrite arrs hd vs, hd) ∧ readHdr (goWrite arrs hd vs) hd = vs := by
  have hfit := v.fits; have hle := v.len_le
  refine ⟨Own.write v _ (writeCells_length _ _ _ (by omega)), ?_⟩
  unfold goWrite readHdr
  rw [getD_modify_eq _ _ _ v.arr_lt]
  have := writeCells_read (arrs.getD hd.arr []) hd.off 0 vs (by omega)
  simpa [hl] using this

theorem drop_take_set {α} (a : List α) (off len i : Nat) (x : α) (hi : i < len) :
    ((a.set (off + i) x).drop off).take len = ((a.drop off).take len).set i x := by
  apply List.ext_getElem?
  intro j
  grind

theorem goSetCell_own {arrs : Arrs} {hd : Hdr} (v : hd.Valid arrs) (i : Nat) (x : Val) (hi : i < hd.len) :
    Own arrs hd.arr (goSetCell arrs hd i x, hd) ∧ readHdr (goSetCell arrs hd i x) hd = (readHdr arrs hd).set i x := by
  refine ⟨Own.write v _ (by simp), ?_⟩
  unfold goSetCell readHdr
  rw [getD_modify_eq _ _ _ v.arr_lt]
  exact drop_take_set _ _ _ _ _ hi

theorem goMake_own (arrs : Arrs) (vs : List Val) :
    Untouched arrs (goMake arrs vs).1 arrs.length ∧ (goMake arrs vs).2.Valid (goMake arrs vs).1 ∧
    (goMake arrs vs).2.arr = arrs.length ∧ readHdr (goMake arrs vs).1 (goMake arrs vs).2 = vs := by
  refine ⟨⟨by simp [goMake], fun k _ hk => getD_append_left _ _ _ hk⟩, ⟨by simp [goMake], ?_, by simp [goMake]⟩, rfl, ?_⟩
  · show 0 + vs.length ≤ ((arrs ++ [vs]).getD arrs.length []).length
    rw [getD_append_new]; omega
  · show (((arrs ++ [vs]).getD arrs.length []).drop 0).take vs.length = vs
    rw [getD_append_new]; simp

theorem goAppendEach_spec (xs : List Val) : ∀ (arrs : Arrs) (s : Hdr), s.Valid arrs →
    Own arrs s.arr (goAppendEach arrs s xs) ∧
    readHdr (goAppendEach arrs s xs).1 (goAppendEach arrs s xs).2 = readHdr arrs s ++ xs := by
  induction xs with
  | nil => intro arrs s v; exact ⟨Own.refl v, by simp [goAppendEach]⟩
  | cons x xs ih =>
    intro arrs s v
    have o1 := Own.append v [x]
    have r1 := goAppend_read arrs s [x] v
    obtain ⟨o2, r2⟩ := ih (goAppend arrs s [x]).1 (goAppend arrs s [x]).2 o1.valid
    simp only [goAppendEach]
    exact ⟨o1.trans o2, by rw [r2, r1]; simp⟩

theorem delItem_spec {arrs : Arrs} {hd : Hdr} (v : hd.Valid arrs) (i : Nat) (hi : i < hd.len) :
    Own arrs hd.arr (delItem arrs hd i) ∧ readHdr (delItem arrs hd i).1 (delItem arrs hd i).2 = (readHdr arrs hd).eraseIdx i := by
  have hle := v.len_le
  have vu : (hd.upto i).Valid arrs := v.upto (by omega)
  refine ⟨Own.append vu _, ?_⟩
  unfold delItem
  rw [goAppend_read _ _ _ vu, readHdr_upto _ _ _ (by omega), List.eraseIdx_eq_take_drop_succ]

theorem setSlice1_eq (arrs : Arrs) (hd : Hdr) (start stop : Nat) (vs : List Val) :
    setSlice1 arrs hd start stop vs =
      goAppend (goAppend arrs (hd.upto start) vs).1 (goAppend arrs (hd.upto start) vs).2 ((readHdr arrs hd).drop stop) := rfl

theorem setSlice1_spec {arrs : Arrs} {hd : Hdr} (v : hd.Valid arrs) (start stop : Nat) (vs : List Val) (hs : start ≤ hd.len) :
    Own arrs hd.arr (setSlice1 arrs hd start stop vs) ∧
    readHdr (setSlice1 arrs hd start stop vs).1 (setSlice1 arrs hd start stop vs).2
      = (readHdr arrs hd).take start ++ vs ++ (readHdr arrs hd).drop stop := by
  have hle := v.len_le
  have vu : (hd.upto start).Valid arrs := v.upto (by omega)
  have o1 := Own.append vu vs
  have o2 := Own.append o1.valid ((readHdr arrs hd).drop stop)
  rw [setSlice1_eq]
  refine ⟨o1.trans o2, ?_⟩
  rw [goAppend_read _ _ _ o1.valid, goAppend_read _ _ _ vu, readHdr_upto _ _ _ hs]


/-! ### loops of py/list.go at the array level = the list-level loops of ListOps.lean -/

theorem delLoop_spec (start step : Int) : ∀ (n : Nat) (j : Int) (arrs0 : Arrs) (a : Nat) (r : Arrs × Hdr),
    Own arrs0 a r → delIdxOK start step n j r.2.len →
    Own arrs0 a (delLoop start step n j r) ∧
    readHdr (delLoop start step n j r).1 (delLoop start step n j r).2 = delLoopL start step n j (readHdr r.1 r.2) := by
  intro n
  induction n with
  | zero => intro j arrs0 a r o _; exact ⟨o, rfl⟩
  | succ n ih =>
    intro j arrs0 a r o hok
    obtain ⟨arrs, hd⟩ := r
    obtain ⟨_, h2, h3⟩ := hok
    obtain ⟨o1, r1⟩ := delItem_spec o.valid _ h2
    have hlen : (delItem arrs hd (start + j * step - j).toNat).2.len = hd.len - 1 := by
      have := readHdr_length _ _ o1.valid
      rw [r1, List.length_eraseIdx, readHdr_length _ _ o.valid] at this
      simp only [h2, if_true] at this
      exact this.symm
    have := ih (j + 1) arrs0 a (delItem arrs hd (start + j * step - j).toNat) (o.trans o1) (by rw [hlen]; exact h3)
    simp only [delLoop, delLoopL]
    rw [← r1]
    exact this

theorem setLoop_spec (hd : Hdr) (step : Int) : ∀ (vs : List Val) (i : Int) (arrs0 arrs : Arrs),
    Own arrs0 hd.arr (arrs, hd) → setIdxOK i step vs.length hd.len →
    Own arrs0 hd.arr (setLoop arrs hd i step vs, hd) ∧
    readHdr (setLoop arrs hd i step vs) hd = setLoopL (readHdr arrs hd) i step vs := by
  intro vs
  induction vs with
  | nil => intro i arrs0 arrs o _; exact ⟨o, rfl⟩
  | cons v vs ih =>
    intro i arrs0 arrs o hok
    obtain ⟨_, h2, h3⟩ := hok
    obtain ⟨o1, r1⟩ := goSetCell_own o.valid i.toNat v h2
    have := ih (i + step) arrs0 (goSetCell arrs hd i.toNat v) (o.trans o1) h3
    simp only [setLoop, setLoopL]
    rw [← r1]
    exact this

theorem forAppend_spec (bound : Nat) : ∀ (fuel pos : Nat) (arrs0 : Arrs) (a : Nat) (r : Arrs × Hdr), Own arrs0 a r →
    Own arrs0 a (forAppend bound fuel pos r) ∧
    readHdr (forAppend bound fuel pos r).1 (forAppend bound fuel pos r).2 = specForAppend bound fuel pos (readHdr r.1 r.2) := by
  intro fuel
  induction fuel with
  | zero => intro pos arrs0 a r o; exact ⟨o, rfl⟩
  | succ fuel ih =>
    intro pos arrs0 a r o
    obtain ⟨arrs, hd⟩ := r
    have hl := readHdr_length arrs hd o.valid
    simp only [forAppend, specForAppend, hl]
    split
    · split
      · have o1 := Own.append o.valid [(readHdr arrs hd).getD pos .none]
        have r1 := goAppend_read arrs hd [(readHdr arrs hd).getD pos .none] o.valid
        have := ih (pos + 1) arrs0 a (goAppend arrs hd [(readHdr arrs hd).getD pos .none]) (o.trans o1)
        rw [r1] at this
        exact this
      · exact ih (pos + 1) arrs0 a (arrs, hd) o
    · exact ⟨o, rfl⟩

theorem insertItem_spec {arrs : Arrs} {hd : Hdr} (v : hd.Valid arrs) (i : Nat) (x : Val) (hi : i ≤ hd.len) :
    Own arrs hd.arr (insertItem arrs hd i x) ∧
    readHdr (insertItem arrs hd i x).1 (insertItem arrs hd i x).2 = (readHdr arrs hd).take i ++ x :: (readHdr arrs hd).drop i := by
  have o1 := Own.append v [Val.none]
  have hl := readHdr_length arrs hd v
  have hl1 := readHdr_length _ _ o1.valid
  rw [goAppend_read _ _ _ v] at hl1
  have hlen : ((readHdr arrs hd).take i ++ x :: (readHdr arrs hd).drop i).length = (goAppend arrs hd [Val.none]).2.len := by
    rw [← hl1]; simp; omega
  obtain ⟨o2, r2⟩ := goWrite_own o1.valid _ hlen
  exact ⟨o1.trans o2, r2⟩

/-! ### the heap: replacing one list object, allocating one -/

/-- storing an `Own` result for list object `id` keeps `Inv` (generalises `inv_putList`: the new header
may live in any array allocated since) -/
theorem inv_putList_own (h : MHeap) (inv : Inv h) (id : Nat) (hd : Hdr) (r : Arrs × Hdr)
    (hobj : h.objs[id]? = some (.list hd)) (own : Own h.arrs hd.arr r) : Inv (h.putList id r) := by
  have hlt : id < h.objs.length := lt_of_lookup hobj
  have u := own.unt
  have old : ∀ i hj, i ≠ id → (h.putList id r).objs[i]? = some (MObj.list hj) → h.objs[i]? = some (MObj.list hj) := by
    intro i hj hne e
    simpa [MHeap.putList, List.getElem?_set, Ne.symm hne] using e
  have new : ∀ hj, (h.putList id r).objs[id]? = some (MObj.list hj) → hj = r.2 := by
    intro hj e
    simp [MHeap.putList, List.getElem?_set, hlt] at e
    exact e.symm
  constructor
  · intro i hj e
    by_cases hi : i = id
    · subst hi; rw [new hj e]; exact own.valid
    · have e' := old i hj hi e
      have vj := inv.valid i hj e'
      have ne : hj.arr ≠ hd.arr := inv.sep i id hj hd hi e' hobj
      refine ⟨Nat.lt_of_lt_of_le vj.arr_lt u.1, ?_, vj.len_le⟩
      show hj.off + hj.cap ≤ (List.getD r.1 hj.arr []).length
      rw [u.2 _ ne vj.arr_lt]; exact vj.fits
  · intro i j hi hj hne e1 e2
    by_cases h1 : i = id
    · subst h1
      have e2' := old j hj (Ne.symm hne) e2
      rw [new hi e1]
      rcases own.arr with ha | ha
      · rw [ha]; exact inv.sep _ _ hd hj hne hobj e2'
      · have := (inv.valid j hj e2').arr_lt; omega
    · by_cases h2 : j = id
      · subst h2
        have e1' := old i hi h1 e1
        rw [new hj e2]
        rcases own.arr with ha | ha
        · rw [ha]; exact inv.sep _ _ hi hd hne e1' hobj
        · have := (inv.valid i hi e1').arr_lt; omega
      · exact inv.sep i j hi hj hne (old i hi h1 e1) (old j hj h2 e2)

/-- THE STEP LEMMA for every in-place list operation -/
theorem putList_refines (h : MHeap) (inv : Inv h) (id : Nat) (hd : Hdr) (r : Arrs × Hdr) (ys : List Val)
    (hobj : h.objs[id]? = some (.list hd)) (own : Own h.arrs hd.arr r) (hread : readHdr r.1 r.2 = ys) :
    abs (h.putList id r) = (abs h).setObj id (.list ys) ∧ Inv (h.putList id r) :=
  ⟨abs_putList h inv id hd r ys hobj own.unt hread, inv_putList_own h inv id hd r hobj own⟩

theorem setArrs_eq_putList (h : MHeap) (id : Nat) (hd : Hdr) (arrs' : Arrs) (hobj : h.objs[id]? = some (.list hd)) :
    ({ h with arrs := arrs' } : MHeap) = h.putList id (arrs', hd) := by
  have hlt := lt_of_lookup hobj
  have : h.objs[id] = MObj.list hd := by
    have := List.getElem?_eq_getElem hlt; rw [hobj] at this; exact (Option.some.inj this).symm
  simp only [MHeap.putList]
  congr 1
  apply List.ext_getElem?
  intro i
  simp only [List.getElem?_set]
  by_cases hi : id = i
  · subst hi; simp [hlt, this]
  · simp [hi]

theorem inv_bind (h : MHeap) (inv : Inv h) (v id : Nat) : Inv (h.bind v id) := ⟨inv.valid, inv.sep⟩
theorem abs_bind (h : MHeap) (v id : Nat) : abs (h.bind v id) = (abs h).bind v id := rfl

/-- replacing a NON-list object (an iterator, a dict, a set) by a non-list object keeps `Inv` -/
theorem inv_setObj (h : MHeap) (inv : Inv h) (id : Nat) (o : MObj) (ho : ∀ hd, o ≠ .list hd) : Inv (h.setObj id o) := by
  have old : ∀ (i : Nat) (hj : Hdr), (h.setObj id o).objs[i]? = some (MObj.list hj) → h.objs[i]? = some (MObj.list hj) := by
    intro i hj e
    simp only [MHeap.setObj, List.getElem?_set] at e
    split at e
    · split at e
      · exact absurd (Option.some.inj e) (ho hj)
      · cases e
    · exact e
  exact ⟨fun i hj e => inv.valid i hj (old i hj e), fun i j hi hj hne e1 e2 => inv.sep i j hi hj hne (old i hi e1) (old j hj e2)⟩

theorem setObj_lookup_ne (h : MHeap) (id i : Nat) (o : MObj) (hne : i ≠ id) : (h.setObj id o).objs[i]? = h.objs[i]? := by
  simp [MHeap.setObj, List.getElem?_set, Ne.symm hne]

/-- THE STEP LEMMA for every list-creating operation: a fresh list object in fresh arrays, bound to `v` -/
theorem newObj_refines (h : MHeap) (inv : Inv h) (arrs' : Arrs) (hd' : Hdr) (ys : List Val) (v : Nat)
    (u : Untouched h.arrs arrs' h.arrs.length) (hv : hd'.Valid arrs') (hfresh : h.arrs.length ≤ hd'.arr)
    (hread : readHdr arrs' hd' = ys) :
    abs ((({ h with arrs := arrs' } : MHeap).alloc (.list hd')).1.bind v h.objs.length) = (abs h).new v (.list ys) ∧
    Inv ((({ h with arrs := arrs' } : MHeap).alloc (.list hd')).1.bind v h.objs.length) := by
  constructor
  · rw [abs_bind, abs_alloc h inv arrs' (.list hd') (.list ys) u (by simp [absObj, hread])]
    simp [SHeap.new, SHeap.alloc, abs]
  · apply inv_bind
    have oldv : ∀ (i : Nat) (hj : Hdr), h.objs[i]? = some (MObj.list hj) → hj.Valid arrs' := by
      intro i hj e
      have vj := inv.valid i hj e
      refine ⟨Nat.lt_of_lt_of_le vj.arr_lt u.1, ?_, vj.len_le⟩
      rw [u.2 _ (Nat.ne_of_lt vj.arr_lt) vj.arr_lt]; exact vj.fits
    have look : ∀ (i : Nat) (hj : Hdr), (h.objs ++ [MObj.list hd'])[i]? = some (MObj.list hj) →
        (i < h.objs.length ∧ h.objs[i]? = some (MObj.list hj)) ∨ (i = h.objs.length ∧ hj = hd') := by
      intro i hj e
      rcases Nat.lt_trichotomy i h.objs.length with hl | hl | hl
      · left; rw [List.getElem?_append_left hl] at e; exact ⟨hl, e⟩
      · right; subst hl; simp at e; exact ⟨rfl, e.symm⟩
      · rw [List.getElem?_eq_none (by simp; omega)] at e; cases e
    constructor
    · intro i hj e
      rcases look i hj e with ⟨_, e'⟩ | ⟨_, e'⟩
      · exact oldv i hj e'
      · rw [e']; exact hv
    · intro i j hi hj hne e1 e2
      rcases look i hi e1 with ⟨l1, e1'⟩ | ⟨l1, e1'⟩ <;> rcases look j hj e2 with ⟨l2, e2'⟩ | ⟨l2, e2'⟩
      · exact inv.sep i j hi hj hne e1' e2'
      · have := (inv.valid i hi e1').arr_lt; rw [e2']; omega
      · have := (inv.valid j hj e2').arr_lt; rw [e1']; omega
      · omega

theorem newList_refines (h : MHeap) (inv : Inv h) (v : Nat) (vs : List Val) :
    abs (h.newList v vs) = (abs h).new v (.list vs) ∧ Inv (h.newList v vs) := by
  obtain ⟨u, hv, ha, hr⟩ := goMake_own h.arrs vs
  exact newObj_refines h inv _ _ vs v u hv (Nat.le_of_eq ha.symm) hr

theorem newListEach_refines (h : MHeap) (inv : Inv h) (v : Nat) (vs : List Val) :
    abs (h.newListEach v vs) = (abs h).new v (.list vs) ∧ Inv (h.newListEach v vs) := by
  obtain ⟨u, hv, ha, hr⟩ := goMake_own h.arrs []
  obtain ⟨o, r⟩ := goAppendEach_spec vs _ _ hv
  rw [hr, List.nil_append] at r
  have u' : Untouched h.arrs (goAppendEach (goMake h.arrs []).1 (goMake h.arrs []).2 vs).1 h.arrs.length := by
    refine ⟨Nat.le_trans u.1 o.unt.1, fun k hk hlt => ?_⟩
    rw [o.unt.2 k (by rw [ha]; exact hk) (Nat.lt_of_lt_of_le hlt u.1), u.2 k hk hlt]
  have hf : h.arrs.length ≤ (goAppendEach (goMake h.arrs []).1 (goMake h.arrs []).2 vs).2.arr := by
    have := u.1
    rcases o.arr with e | e
    · rw [e, ha]; exact Nat.le_refl _
    · omega
  exact newObj_refines h inv _ _ vs v u' o.valid hf r


/-! ### iterators -/

/-- no iterator of the heap is a dict/set snapshot (the heaps of list histories) -/
def okObj (o : MObj) : Prop := ∀ pos xs og, o = .iter pos (.tuple xs og) → og = none
def NoOrigin (h : MHeap) : Prop := ∀ o ∈ h.objs, okObj o

theorem okObj_list (hd : Hdr) : okObj (.list hd) := fun _ _ _ e => by cases e
theorem okObj_live (pos id : Nat) : okObj (.iter pos (.obj id)) := fun _ _ _ e => by cases e
theorem okObj_empty (pos : Nat) : okObj (.iter pos (.tuple [] none)) := fun _ _ _ e => by cases e; rfl

theorem noOrigin_set {h : MHeap} (no : NoOrigin h) (arrs' : Arrs) (vars' : List Nat) (id : Nat) (o : MObj) (ho : okObj o) :
    NoOrigin ⟨arrs', h.objs.set id o, vars'⟩ := by
  intro x hx
  rcases List.mem_or_eq_of_mem_set hx with h1 | h1
  · exact no x h1
  · rw [h1]; exact ho

theorem noOrigin_push {h : MHeap} (no : NoOrigin h) (arrs' : Arrs) (vars' : List Nat) (o : MObj) (ho : okObj o) :
    NoOrigin ⟨arrs', h.objs ++ [o], vars'⟩ := by
  intro x hx
  rcases List.mem_append.mp hx with h1 | h1
  · exact no x h1
  · simp at h1; rw [h1]; exact ho

theorem noOrigin_same {h : MHeap} (no : NoOrigin h) (arrs' : Arrs) (vars' : List Nat) : NoOrigin ⟨arrs', h.objs, vars'⟩ := no

theorem noOrigin_lookup {h : MHeap} (no : NoOrigin h) {i : Nat} {o : MObj} (e : h.objs[i]? = some o) : okObj o :=
  no o (List.mem_of_getElem? e)

/-- one `__next__` of a list iterator (or of an exhausted / origin-free snapshot) reads the LIVE list:
model and specification return the same item / StopIteration and the same next iterator state -/
theorem iterNext_abs (h : MHeap) (inv : Inv h) (pos : Nat) (seq : ISeq) (hseq : ∀ xs o, seq = .tuple xs o → o = none) :
    (iterNext h.arrs h.objs pos seq).1 = (specNext (abs h) pos (absSeq seq)).1 ∧
    absObj h.arrs (iterNext h.arrs h.objs pos seq).2 = (specNext (abs h) pos (absSeq seq)).2 := by
  cases seq with
  | tuple xs o =>
    have := hseq xs o rfl; subst this
    simp only [iterNext, specNext, absSeq]
    split <;> simp [absObj, absSeq]
  | obj id =>
    simp only [iterNext, specNext, absSeq]
    have hmap : (abs h).objs[id]? = (h.objs[id]?).map (absObj h.arrs) := by simp [abs]
    rw [hmap]
    cases e : h.objs[id]? with
    | none => simp [absObj, absSeq]
    | some o =>
      cases o with
      | list hd =>
        have hl := readHdr_length h.arrs hd (inv.valid id hd e)
        simp only [Option.map_some, absObj, hl]
        split <;> simp [absObj, absSeq]
      | _ => simp [absObj, absSeq]

/-- the iterator state after one `__next__` is again origin-free -/
theorem iterNext_ok (arrs : Arrs) (objs : List MObj) (pos : Nat) (seq : ISeq) (hseq : ∀ xs o, seq = .tuple xs o → o = none) :
    okObj (iterNext arrs objs pos seq).2 := by
  cases seq with
  | tuple xs o =>
    have := hseq xs o rfl; subst this
    simp only [iterNext]
    split <;> (intro _ _ _ e; cases e; rfl)
  | obj id =>
    simp only [iterNext]
    split
    · split <;> (intro _ _ _ e; cases e <;> rfl)
    · intro _ _ _ e; cases e

theorem iterDrain_abs (h : MHeap) (inv : Inv h) : ∀ (fuel pos : Nat) (seq : ISeq), (∀ xs o, seq = .tuple xs o → o = none) →
    (iterDrain h.arrs h.objs fuel pos seq).1 = (specDrain (abs h) fuel pos (absSeq seq)).1 ∧
    absObj h.arrs (iterDrain h.arrs h.objs fuel pos seq).2 = (specDrain (abs h) fuel pos (absSeq seq)).2 ∧
    okObj (iterDrain h.arrs h.objs fuel pos seq).2 := by
  intro fuel
  induction fuel with
  | zero =>
    intro pos seq hseq
    refine ⟨rfl, rfl, ?_⟩
    intro p xs og e
    simp only [iterDrain] at e
    cases e
    exact hseq xs og rfl
  | succ fuel ih =>
    intro pos seq hseq
    obtain ⟨h1, h2⟩ := iterNext_abs h inv pos seq hseq
    have h3 := iterNext_ok h.arrs h.objs pos seq hseq
    simp only [iterDrain, specDrain]
    rcases hm : iterNext h.arrs h.objs pos seq with ⟨rm, im⟩
    rcases hsp : specNext (abs h) pos (absSeq seq) with ⟨rs, is⟩
    simp only [hm, hsp] at h1 h2 h3
    subst h1
    cases rm with
    | error e => exact ⟨rfl, h2, h3⟩
    | ok x =>
      cases im with
      | iter p s =>
        simp only [absObj] at h2
        subst h2
        have hs : ∀ xs o, s = .tuple xs o → o = none := fun xs o e => h3 p xs o (by rw [e])
        obtain ⟨i1, i2, i3⟩ := ih p s hs
        simp only
        exact ⟨by rw [i1], i2, i3⟩
      | list hd => simp only [absObj] at h2; subst h2; exact ⟨rfl, rfl, h3⟩
      | dict m => simp only [absObj] at h2; subst h2; exact ⟨rfl, rfl, h3⟩
      | set ks => simp only [absObj] at h2; subst h2; exact ⟨rfl, rfl, h3⟩

theorem drainFuel_abs (h : MHeap) (inv : Inv h) (seq : ISeq) : drainFuel h.arrs h.objs seq = specFuel (abs h) (absSeq seq) := by
  cases seq with
  | tuple xs o => rfl
  | obj id =>
    simp only [drainFuel, specFuel, absSeq]
    have hmap : (abs h).objs[id]? = (h.objs[id]?).map (absObj h.arrs) := by simp [abs]
    rw [hmap]
    cases e : h.objs[id]? with
    | none => rfl
    | some o =>
      cases o with
      | list hd => simp [absObj, readHdr_length h.arrs hd (inv.valid id hd e)]
      | _ => rfl

end GPy.C17
