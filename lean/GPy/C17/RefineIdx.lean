import GPy.C17.RefineOps
import GPy.C17.SliceProofs
namespace GPy.C17

/-! ### item operations: `IndexIntCheck` is Python's index normalisation (C13.indexIntCheck_spec) -/

theorem lSetItem_refines (perm : Bool → List Val → List Val) (h : MHeap) (li : LInv h) (v : Nat) (i : Int) (x : Val)
    (hi : inRange i) (hsmall : ∀ hd, h.obj v = some (.list hd) → (hd.len : Int) ≤ IntMax) : Refines perm h (.lSetItem v i x) := by
  simp only [Refines, step, specStep, abs_obj]
  cases e : h.obj v with
  | none => stuck_case
  | some o =>
    cases o with
    | list hd =>
      have hv := li.valid e
      have hl := readHdr_length h.arrs hd hv
      simp only [Option.map_some, absObj, hl, checkIndex_eq_normIndex i hd.len hi (hsmall hd e)]
      cases hn : normIndex hd.len i with
      | error err => stuck_case
      | ok k =>
        obtain ⟨o1, r1⟩ := goSetCell_own hv k x (normIndex_lt hn)
        obtain ⟨a, i'⟩ := li.write e _ _ o1 r1
        exact ⟨a, by first | rfl | trivial, i'⟩
    | _ => stuck_case

theorem lDelItem_refines (perm : Bool → List Val → List Val) (h : MHeap) (li : LInv h) (v : Nat) (i : Int)
    (hi : inRange i) (hsmall : ∀ hd, h.obj v = some (.list hd) → (hd.len : Int) ≤ IntMax) : Refines perm h (.lDelItem v i) := by
  simp only [Refines, step, specStep, abs_obj]
  cases e : h.obj v with
  | none => stuck_case
  | some o =>
    cases o with
    | list hd =>
      have hv := li.valid e
      have hl := readHdr_length h.arrs hd hv
      simp only [Option.map_some, absObj, hl, checkIndex_eq_normIndex i hd.len hi (hsmall hd e)]
      cases hn : normIndex hd.len i with
      | error err => stuck_case
      | ok k =>
        obtain ⟨o1, r1⟩ := delItem_spec hv k (normIndex_lt hn)
        obtain ⟨a, i'⟩ := li.put e _ _ o1 r1
        exact ⟨a, by first | rfl | trivial, i'⟩
    | _ => stuck_case

theorem lGetItem_refines (perm : Bool → List Val → List Val) (h : MHeap) (li : LInv h) (v : Nat) (i : Int)
    (hi : inRange i) (hsmall : ∀ hd, h.obj v = some (.list hd) → (hd.len : Int) ≤ IntMax) : Refines perm h (.lGetItem v i) := by
  simp only [Refines, step, specStep, abs_obj]
  cases e : h.obj v with
  | none => stuck_case
  | some o =>
    cases o with
    | list hd =>
      have hv := li.valid e
      have hl := readHdr_length h.arrs hd hv
      simp only [Option.map_some, absObj, hl, checkIndex_eq_normIndex i hd.len hi (hsmall hd e)]
      cases hn : normIndex hd.len i <;> stuck_case
    | _ => stuck_case

theorem lPop_refines (perm : Bool → List Val → List Val) (h : MHeap) (li : LInv h) (v : Nat) (i : Option Int)
    (hi : optInRange i) (hsmall : ∀ hd, h.obj v = some (.list hd) → (hd.len : Int) ≤ IntMax) : Refines perm h (.lPop v i) := by
  simp only [Refines, step, specStep, abs_obj]
  cases e : h.obj v with
  | none => stuck_case
  | some o =>
    cases o with
    | list hd =>
      have hv := li.valid e
      have hl := readHdr_length h.arrs hd hv
      have hir : inRange (i.getD (-1)) := by
        cases i with
        | none => simp [inRange, IntMin, IntMax]
        | some j => exact hi j rfl
      simp only [Option.map_some, absObj]
      by_cases h0 : hd.len = 0
      · have : readHdr h.arrs hd = [] := List.eq_nil_of_length_eq_zero (by omega)
        simp only [h0, this, if_true]
        stuck_case
      · have : readHdr h.arrs hd ≠ [] := fun hh => h0 (by rw [← hl, hh]; rfl)
        simp only [h0, this, if_false, hl, checkIndex_eq_normIndex _ hd.len hir (hsmall hd e)]
        cases hn : normIndex hd.len (i.getD (-1)) with
        | error err => stuck_case
        | ok k =>
          obtain ⟨o1, r1⟩ := delItem_spec hv k (normIndex_lt hn)
          obtain ⟨a, i'⟩ := li.put e _ _ o1 r1
          exact ⟨a, by first | rfl | trivial, i'⟩
    | _ => stuck_case

/-! ### slice operations: heap model → list-level Go loops (ListOps) → Python slice semantics (SliceProofs, on C13) -/

/-- `M__setitem__` with a slice key on list object `v`, at the heap level, does what `setSliceL` does to the items -/
theorem listSetSlice_heap (h : MHeap) (li : LInv h) (v : Nat) (hd : Hdr) (e : h.obj v = some (.list hd))
    (lo hi st : Option Int) (hlo : optInRange lo) (hhi : optInRange hi) (hst : optInRange st) (hn : (hd.len : Int) ≤ IntMax)
    (newItems : Except Err (List Val)) :
    match setSliceL (readHdr h.arrs hd) lo hi st newItems with
    | .ok ys => (listSetSlice h (h.id v) hd lo hi st newItems).2 = .ok ∧
        abs (listSetSlice h (h.id v) hd lo hi st newItems).1 = (abs h).setObj (h.id v) (.list ys) ∧
        LInv (listSetSlice h (h.id v) hd lo hi st newItems).1
    | .error err => listSetSlice h (h.id v) hd lo hi st newItems = (h, .err err) := by
  have hv := li.valid e
  have hl := readHdr_length h.arrs hd hv
  unfold setSliceL listSetSlice
  rw [hl]
  cases hsi : sliceIndices lo hi st hd.len with
  | error err => rfl
  | ok r =>
    obtain ⟨start, stop, step, slen⟩ := r
    obtain ⟨b0, b1, b2, b3, _⟩ := sliceIndices_bounds' hd.len lo hi st hlo hhi hst hn start stop step slen hsi
    cases newItems with
    | error err => rfl
    | ok vs =>
      simp only
      by_cases h1 : (step == 1) = true
      · simp only [h1, if_true]
        have hs1 : step = 1 := by simpa using h1
        obtain ⟨c0, c1, c2, c3⟩ := b2 (by omega)
        obtain ⟨o1, r1⟩ := setSlice1_spec hv start.toNat (if stop < start then start else stop).toNat vs (by omega)
        obtain ⟨a, i⟩ := li.put e _ _ o1 r1
        exact ⟨by first | rfl | trivial, a, i⟩
      · simp only [h1]
        by_cases h2 : (vs.length : Int) ≠ slen
        · rw [if_pos h2, if_pos h2]; simp
        · rw [if_neg h2, if_neg h2]
          simp only [Bool.false_eq_true, if_false]
          have hlen : slen.toNat = vs.length := by omega
          obtain ⟨o1, r1⟩ := setLoop_spec hd step vs start h.arrs h.arrs (Own.refl hv) (by rw [← hlen]; exact b3)
          obtain ⟨a, i⟩ := li.write e _ _ o1 r1
          exact ⟨by first | rfl | trivial, a, i⟩

theorem lSetSlice_refines (perm : Bool → List Val → List Val) (h : MHeap) (li : LInv h) (v w : Nat) (lo hi st : Option Int)
    (hlo : optInRange lo) (hhi : optInRange hi) (hst : optInRange st)
    (hsmall : ∀ hd, h.obj v = some (.list hd) → (hd.len : Int) ≤ IntMax) : Refines perm h (.lSetSlice v lo hi st w) := by
  simp only [Refines, step, specStep, abs_obj]
  cases ev : h.obj v with
  | none => cases ew : h.obj w with
    | none => stuck_case
    | some o => cases o <;> stuck_case
  | some o =>
    cases ew : h.obj w with
    | none => cases o <;> stuck_case
    | some o' =>
      cases o with
      | list hd =>
        cases o' with
        | list hw =>
          have hh := listSetSlice_heap h li v hd ev lo hi st hlo hhi hst (hsmall hd ev) (.ok (readHdr h.arrs hw))
          have hl := readHdr_length h.arrs hd (li.valid ev)
          rw [setSliceL_spec _ lo hi st _ hlo hhi hst (by rw [hl]; exact hsmall hd ev)] at hh
          simp only [Option.map_some, absObj]
          cases hs : specSetSlice (readHdr h.arrs hd) lo hi st (.ok (readHdr h.arrs hw)) with
          | error err => rw [hs] at hh; simp only at hh; rw [hh]; stuck_case
          | ok ys => rw [hs] at hh; simp only at hh; exact ⟨hh.2.1, hh.1, hh.2.2⟩
        | _ => stuck_case
      | _ => cases o' <;> stuck_case

theorem lSetSliceSrc_refines (perm : Bool → List Val → List Val) (h : MHeap) (li : LInv h) (v : Nat) (lo hi st : Option Int) (s : Src)
    (hlo : optInRange lo) (hhi : optInRange hi) (hst : optInRange st)
    (hsmall : ∀ hd, h.obj v = some (.list hd) → (hd.len : Int) ≤ IntMax) : Refines perm h (.lSetSliceSrc v lo hi st s) := by
  simp only [Refines, step, specStep, abs_obj]
  cases ev : h.obj v with
  | none => stuck_case
  | some o =>
    cases o with
    | list hd =>
      have hh := listSetSlice_heap h li v hd ev lo hi st hlo hhi hst (hsmall hd ev) s.items
      have hl := readHdr_length h.arrs hd (li.valid ev)
      rw [setSliceL_spec _ lo hi st _ hlo hhi hst (by rw [hl]; exact hsmall hd ev)] at hh
      simp only [Option.map_some, absObj]
      cases hs : specSetSlice (readHdr h.arrs hd) lo hi st s.items with
      | error err => rw [hs] at hh; simp only at hh; rw [hh]; stuck_case
      | ok ys => rw [hs] at hh; simp only at hh; exact ⟨hh.2.1, hh.1, hh.2.2⟩
    | _ => stuck_case

theorem lGetSlice_refines (perm : Bool → List Val → List Val) (h : MHeap) (li : LInv h) (u v : Nat) (lo hi st : Option Int)
    (hlo : optInRange lo) (hhi : optInRange hi) (hst : optInRange st)
    (hsmall : ∀ hd, h.obj v = some (.list hd) → (hd.len : Int) ≤ IntMax) : Refines perm h (.lGetSlice u v lo hi st) := by
  simp only [Refines, step, specStep, abs_obj]
  cases ev : h.obj v with
  | none => stuck_case
  | some o =>
    cases o with
    | list hd =>
      have hl := readHdr_length h.arrs hd (li.valid ev)
      have hg := getSliceL_spec (readHdr h.arrs hd) lo hi st hlo hhi hst (by rw [hl]; exact hsmall hd ev)
      unfold getSliceL at hg
      rw [hl] at hg
      simp only [Option.map_some, absObj, hl]
      cases hsi : sliceIndices lo hi st hd.len with
      | error err =>
        rw [hsi] at hg
        cases hsp : slicePos hd.len lo hi st with
        | error e2 => rw [hsp] at hg; simp only at hg; cases hg; stuck_case
        | ok p => rw [hsp] at hg; obtain ⟨p1, p2⟩ := p; simp only at hg; cases hg
      | ok r =>
        obtain ⟨start, stop, step, slen⟩ := r
        rw [hsi] at hg
        cases hsp : slicePos hd.len lo hi st with
        | error e2 => rw [hsp] at hg; simp only at hg; cases hg
        | ok p =>
          rw [hsp] at hg; obtain ⟨p1, p2⟩ := p; simp only at hg
          injection hg with hg
          obtain ⟨a, i⟩ := li.newList u (pickLoop (readHdr h.arrs hd) start step slen.toNat)
          try simp only
          rw [← hg]
          exact ⟨a, by first | rfl | trivial, i⟩
    | _ => stuck_case

theorem lDelSlice_refines (perm : Bool → List Val → List Val) (h : MHeap) (li : LInv h) (v : Nat) (lo hi st : Option Int)
    (hlo : optInRange lo) (hhi : optInRange hi) (hst : optInRange st)
    (hsmall : ∀ hd, h.obj v = some (.list hd) → (hd.len : Int) ≤ IntMax) : Refines perm h (.lDelSlice v lo hi st) := by
  simp only [Refines, step, specStep, abs_obj]
  cases ev : h.obj v with
  | none => stuck_case
  | some o =>
    cases o with
    | list hd =>
      have hv := li.valid ev
      have hl := readHdr_length h.arrs hd hv
      have hn := hsmall hd ev
      have hg := delSliceL_spec (readHdr h.arrs hd) lo hi st hlo hhi hst (by rw [hl]; exact hn)
      unfold delSliceL at hg
      rw [hl] at hg
      simp only [Option.map_some, absObj]
      cases hsi : sliceIndices lo hi st hd.len with
      | error err => rw [hsi] at hg; simp only at hg; rw [← hg]; stuck_case
      | ok r =>
        obtain ⟨start, stop, step, slen⟩ := r
        obtain ⟨b0, b1, b2, b3, b4⟩ := sliceIndices_bounds' hd.len lo hi st hlo hhi hst hn start stop step slen hsi
        rw [hsi] at hg
        simp only at hg ⊢
        by_cases h1 : (step == 1) = true
        · simp only [h1, if_true] at hg ⊢
          have hs1 : step = 1 := by simpa using h1
          obtain ⟨c0, c1, c2, c3⟩ := b2 (by omega)
          have vu : (hd.upto start.toNat).Valid h.arrs := hv.upto (by have := hv.len_le; omega)
          have r1 := goAppend_read h.arrs (hd.upto start.toNat) ((readHdr h.arrs hd).drop (if stop < start then start else stop).toNat) vu
          rw [readHdr_upto _ _ _ (by omega)] at r1
          obtain ⟨a, i⟩ := li.put ev _ _ (Own.append vu _) r1
          try simp only
          rw [← hg]
          exact ⟨a, by first | rfl | trivial, i⟩
        · simp only [h1] at hg ⊢
          by_cases h2 : step < 0
          · simp only [h2, if_true] at hg b4 ⊢
            obtain ⟨o1, r1⟩ := delLoop_spec (start + (slen - 1) * step) (-step) slen.toNat 0 h.arrs hd.arr (h.arrs, hd) (Own.refl hv) b4
            obtain ⟨a, i⟩ := li.put ev _ _ o1 r1
            rw [← hg]
            exact ⟨a, by first | rfl | trivial, i⟩
          · simp only [h2, if_false] at hg b4 ⊢
            obtain ⟨o1, r1⟩ := delLoop_spec start step slen.toNat 0 h.arrs hd.arr (h.arrs, hd) (Own.refl hv) b4
            obtain ⟨a, i⟩ := li.put ev _ _ o1 r1
            rw [← hg]
            exact ⟨a, by first | rfl | trivial, i⟩
    | _ => stuck_case

end GPy.C17
