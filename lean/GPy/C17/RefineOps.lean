import GPy.C17.Refine
import GPy.C17.SortProofs
namespace GPy.C17

/-- list or origin-free iterator: the objects of a list history -/
def listObj (o : MObj) : Prop := okObj o ∧ (∀ m, o ≠ .dict m) ∧ (∀ ks, o ≠ .set ks)

theorem listObj_list (hd : Hdr) : listObj (.list hd) := ⟨okObj_list hd, fun _ e => (by cases e), fun _ e => (by cases e)⟩
theorem listObj_live (pos id : Nat) : listObj (.iter pos (.obj id)) := ⟨okObj_live pos id, fun _ e => (by cases e), fun _ e => (by cases e)⟩
theorem listObj_of_iter {pos : Nat} {seq : ISeq} (h : okObj (.iter pos seq)) : listObj (.iter pos seq) :=
  ⟨h, fun _ e => (by cases e), fun _ e => (by cases e)⟩

/-- the invariant of list histories: `Inv`, and every object is a list or an iterator that is not a
dict/set snapshot -/
structure LInv (h : MHeap) : Prop where
  inv : Inv h
  objs : ∀ o ∈ h.objs, listObj o

/-- closes the branches in which the operation does not apply (both sides `stuck` / same error) -/
macro "stuck_case" : tactic =>
  `(tactic| first | exact ⟨rfl, rfl, ‹LInv _›⟩ | exact ⟨trivial, trivial, ‹LInv _›⟩ | (refine ⟨?_, ?_, ‹LInv _›⟩ <;> first | rfl | trivial | simp [absObj]))

theorem LInv.no {h : MHeap} (li : LInv h) : NoOrigin h := fun o ho => (li.objs o ho).1

theorem objs_set {h : MHeap} (hall : ∀ o ∈ h.objs, listObj o) (id : Nat) (o : MObj) (ho : listObj o) :
    ∀ x ∈ h.objs.set id o, listObj x := by
  intro x hx
  rcases List.mem_or_eq_of_mem_set hx with h1 | h1
  · exact hall x h1
  · rw [h1]; exact ho

theorem objs_push {h : MHeap} (hall : ∀ o ∈ h.objs, listObj o) (o : MObj) (ho : listObj o) :
    ∀ x ∈ h.objs ++ [o], listObj x := by
  intro x hx
  rcases List.mem_append.mp hx with h1 | h1
  · exact hall x h1
  · simp at h1; rw [h1]; exact ho

theorem LInv.notDict {h : MHeap} (li : LInv h) {v : Nat} {m : List (String × Val)} (e : h.obj v = some (.dict m)) : False :=
  (li.objs _ (List.mem_of_getElem? (obj_lookup e))).2.1 m rfl
theorem LInv.notSet {h : MHeap} (li : LInv h) {v : Nat} {ks : List Val} (e : h.obj v = some (.set ks)) : False :=
  (li.objs _ (List.mem_of_getElem? (obj_lookup e))).2.2 ks rfl

/-- one step refines: commuting abstraction, same observation, invariant kept -/
def Refines (perm : Bool → List Val → List Val) (h : MHeap) (op : Op) : Prop :=
  abs (step h op).1 = (specStep perm (abs h) op).1 ∧ (step h op).2 = (specStep perm (abs h) op).2 ∧ LInv (step h op).1

theorem LInv.put {h : MHeap} (li : LInv h) {v : Nat} {hd : Hdr} (e : h.obj v = some (.list hd)) (r : Arrs × Hdr) (ys : List Val)
    (own : Own h.arrs hd.arr r) (hread : readHdr r.1 r.2 = ys) :
    abs (h.putList (h.id v) r) = (abs h).setObj (h.id v) (.list ys) ∧ LInv (h.putList (h.id v) r) := by
  obtain ⟨a, i⟩ := putList_refines h li.inv _ hd r ys (obj_lookup e) own hread
  exact ⟨a, i, objs_set li.objs _ _ (listObj_list _)⟩

theorem LInv.write {h : MHeap} (li : LInv h) {v : Nat} {hd : Hdr} (e : h.obj v = some (.list hd)) (arrs' : Arrs) (ys : List Val)
    (own : Own h.arrs hd.arr (arrs', hd)) (hread : readHdr arrs' hd = ys) :
    abs ({ h with arrs := arrs' } : MHeap) = (abs h).setObj (h.id v) (.list ys) ∧ LInv ({ h with arrs := arrs' } : MHeap) := by
  rw [setArrs_eq_putList h _ hd arrs' (obj_lookup e)]
  exact li.put e (arrs', hd) ys own hread

theorem LInv.newList {h : MHeap} (li : LInv h) (v : Nat) (vs : List Val) :
    abs (h.newList v vs) = (abs h).new v (.list vs) ∧ LInv (h.newList v vs) := by
  obtain ⟨a, i⟩ := newList_refines h li.inv v vs
  exact ⟨a, i, objs_push li.objs _ (listObj_list _)⟩

theorem LInv.newListEach {h : MHeap} (li : LInv h) (v : Nat) (vs : List Val) :
    abs (h.newListEach v vs) = (abs h).new v (.list vs) ∧ LInv (h.newListEach v vs) := by
  obtain ⟨a, i⟩ := newListEach_refines h li.inv v vs
  exact ⟨a, i, objs_push li.objs _ (listObj_list _)⟩

theorem LInv.valid {h : MHeap} (li : LInv h) {v : Nat} {hd : Hdr} (e : h.obj v = some (.list hd)) : hd.Valid h.arrs :=
  li.inv.valid _ hd (obj_lookup e)

/-! ### append family -/

theorem lAppend_refines (perm : Bool → List Val → List Val) (h : MHeap) (li : LInv h) (v : Nat) (x : Val) : Refines perm h (.lAppend v x) := by
  simp only [Refines, step, specStep, abs_obj]
  cases e : h.obj v with
  | none => stuck_case
  | some o =>
    cases o with
    | list hd =>
      have hv := li.valid e
      obtain ⟨a, i⟩ := li.put e _ _ (Own.append hv [x]) (goAppend_read _ _ _ hv)
      exact ⟨a, by first | rfl | trivial, i⟩
    | _ => stuck_case


theorem lExtend_refines (perm : Bool → List Val → List Val) (h : MHeap) (li : LInv h) (v w : Nat) : Refines perm h (.lExtend v w) := by
  simp only [Refines, step, specStep, abs_obj]
  cases ev : h.obj v with
  | none => cases ew : h.obj w with
    | none => stuck_case
    | some o => cases o <;> stuck_case
  | some o =>
    cases ew : h.obj w with
    | none => cases o <;> stuck_case
    | some o' =>
      cases o with
      | list hd =>
        cases o' with
        | list hw =>
          have hv := li.valid ev
          obtain ⟨a, i⟩ := li.put ev _ _ (Own.append hv (readHdr h.arrs hw)) (goAppend_read _ _ _ hv)
          exact ⟨a, by first | rfl | trivial, i⟩
        | _ => stuck_case
      | _ => cases o' <;> stuck_case

theorem lIAdd_refines (perm : Bool → List Val → List Val) (h : MHeap) (li : LInv h) (v w : Nat) : Refines perm h (.lIAdd v w) :=
  lExtend_refines perm h li v w

theorem lExtendSrc_refines (perm : Bool → List Val → List Val) (h : MHeap) (li : LInv h) (v : Nat) (s : Src) : Refines perm h (.lExtendSrc v s) := by
  simp only [Refines, step, specStep, abs_obj]
  cases e : h.obj v with
  | none => stuck_case
  | some o =>
    cases o with
    | list hd =>
      simp only [Option.map_some, absObj]
      cases hs : s.items with
      | error err => stuck_case
      | ok xs =>
        have hv := li.valid e
        obtain ⟨o1, r1⟩ := goAppendEach_spec xs _ _ hv
        obtain ⟨a, i⟩ := li.put e _ _ o1 r1
        exact ⟨a, by first | rfl | trivial, i⟩
    | _ => stuck_case

theorem lIAddSrc_refines (perm : Bool → List Val → List Val) (h : MHeap) (li : LInv h) (v : Nat) (s : Src) : Refines perm h (.lIAddSrc v s) :=
  lExtendSrc_refines perm h li v s

theorem lIMul_refines (perm : Bool → List Val → List Val) (h : MHeap) (li : LInv h) (v : Nat) (n : Int) : Refines perm h (.lIMul v n) := by
  simp only [Refines, step, specStep, abs_obj]
  cases e : h.obj v with
  | none => stuck_case
  | some o =>
    cases o with
    | list hd =>
      obtain ⟨u, hv, ha, hr⟩ := goMake_own h.arrs (repeatItems (readHdr h.arrs hd) n)
      have own : Own h.arrs hd.arr (goMake h.arrs (repeatItems (readHdr h.arrs hd) n)) :=
        ⟨⟨u.1, fun k _ hk => u.2 k (Nat.ne_of_lt hk) hk⟩, hv, Or.inr (Nat.le_of_eq ha.symm)⟩
      obtain ⟨a, i⟩ := li.put e _ _ own hr
      exact ⟨a, by first | rfl | trivial, i⟩
    | _ => stuck_case

theorem lForAppend_refines (perm : Bool → List Val → List Val) (h : MHeap) (li : LInv h) (v bound : Nat) : Refines perm h (.lForAppend v bound) := by
  simp only [Refines, step, specStep, abs_obj]
  cases e : h.obj v with
  | none => stuck_case
  | some o =>
    cases o with
    | list hd =>
      have hv := li.valid e
      obtain ⟨o1, r1⟩ := forAppend_spec bound (bound + hd.len + 1) 0 h.arrs hd.arr (h.arrs, hd) (Own.refl hv)
      obtain ⟨a, i⟩ := li.put e _ _ o1 r1
      simp only [Option.map_some, absObj, readHdr_length h.arrs hd hv]
      exact ⟨a, by first | rfl | trivial, i⟩
    | _ => stuck_case

theorem lClear_refines (perm : Bool → List Val → List Val) (h : MHeap) (li : LInv h) (v : Nat) : Refines perm h (.lClear v) := by
  simp only [Refines, step, specStep, abs_obj]
  cases e : h.obj v with
  | none => stuck_case
  | some o =>
    cases o with
    | list hd =>
      have hv := li.valid e
      have own : Own h.arrs hd.arr (h.arrs, { hd with len := 0, cap := 0 }) :=
        ⟨Untouched.refl _ _, ⟨hv.arr_lt, by have := hv.fits; show hd.off + 0 ≤ (h.arrs.getD hd.arr []).length; omega, Nat.le_refl _⟩, Or.inl rfl⟩
      obtain ⟨a, i⟩ := li.put e _ [] own (by simp [readHdr])
      exact ⟨a, by first | rfl | trivial, i⟩
    | _ => stuck_case

theorem insertPos_le (n : Nat) (i : Int) : insertPos n i ≤ n := by
  unfold insertPos; simp only; split <;> split <;> omega

theorem lInsert_refines (perm : Bool → List Val → List Val) (h : MHeap) (li : LInv h) (v : Nat) (i : Int) (x : Val) : Refines perm h (.lInsert v i x) := by
  simp only [Refines, step, specStep, abs_obj]
  cases e : h.obj v with
  | none => stuck_case
  | some o =>
    cases o with
    | list hd =>
      have hv := li.valid e
      have hl := readHdr_length h.arrs hd hv
      obtain ⟨o1, r1⟩ := insertItem_spec hv (insertPos hd.len i) x (insertPos_le _ _)
      have hspec : specInsert (readHdr h.arrs hd) i x = (readHdr h.arrs hd).take (insertPos hd.len i) ++ x :: (readHdr h.arrs hd).drop (insertPos hd.len i) := by
        have : (if i < 0 then max 0 (i + ((readHdr h.arrs hd).length : Int)) else min i ((readHdr h.arrs hd).length : Int)).toNat = insertPos hd.len i := by
          rw [hl]; unfold insertPos; simp only [Int.max_def, Int.min_def]; split <;> split <;> (try split) <;> omega
        simp only [specInsert, this, List.append_assoc, List.singleton_append]
      obtain ⟨a, i'⟩ := li.put e _ _ o1 (r1.trans hspec.symm)
      exact ⟨a, by first | rfl | trivial, i'⟩
    | _ => stuck_case

theorem removeFirst_findIdx (x : Val) : ∀ (xs : List Val),
    (match xs.findIdx? (fun y => pyEq y x) with
     | some k => k < xs.length ∧ removeFirst x xs = some (xs.eraseIdx k)
     | none => removeFirst x xs = none) := by
  intro xs
  induction xs with
  | nil => simp [removeFirst]
  | cons y ys ih =>
    simp only [List.findIdx?_cons, removeFirst]
    by_cases hy : pyEq y x = true
    · simp [hy]
    · simp only [hy, Bool.false_eq_true, if_false]
      cases hf : ys.findIdx? (fun y => pyEq y x) with
      | none => rw [hf] at ih; simp [ih]
      | some k => rw [hf] at ih; simp [ih.1, ih.2]

theorem lRemove_refines (perm : Bool → List Val → List Val) (h : MHeap) (li : LInv h) (v : Nat) (x : Val) : Refines perm h (.lRemove v x) := by
  simp only [Refines, step, specStep, abs_obj]
  cases e : h.obj v with
  | none => stuck_case
  | some o =>
    cases o with
    | list hd =>
      have hv := li.valid e
      have hl := readHdr_length h.arrs hd hv
      have hf := removeFirst_findIdx x (readHdr h.arrs hd)
      simp only [Option.map_some, absObj]
      cases hk : (readHdr h.arrs hd).findIdx? (fun y => pyEq y x) with
      | none => rw [hk] at hf; simp only [hf]; stuck_case
      | some k =>
        rw [hk] at hf
        obtain ⟨o1, r1⟩ := delItem_spec hv k (by omega)
        obtain ⟨a, i⟩ := li.put e _ _ o1 r1
        simp only [hf.2]
        exact ⟨a, by first | rfl | trivial, i⟩
    | _ => stuck_case

/-! ### in-place writes -/

theorem lReverse_refines (perm : Bool → List Val → List Val) (h : MHeap) (li : LInv h) (v : Nat) : Refines perm h (.lReverse v) := by
  simp only [Refines, step, specStep, abs_obj]
  cases e : h.obj v with
  | none => stuck_case
  | some o =>
    cases o with
    | list hd =>
      have hv := li.valid e
      obtain ⟨o1, r1⟩ := goWrite_own hv (readHdr h.arrs hd).reverse (by simp [readHdr_length h.arrs hd hv])
      obtain ⟨a, i⟩ := li.write e _ _ o1 r1
      exact ⟨a, by first | rfl | trivial, i⟩
    | _ => stuck_case

theorem insSortAux_permR (rev : Bool) (xs acc : List Val) (e : Bool) : (insSortAux rev acc xs e).1.Perm (acc ++ xs) := by
  induction xs generalizing acc e with
  | nil => simp [insSortAux]
  | cons x xs ih =>
    simp only [insSortAux]
    refine (ih _ _).trans ?_
    exact ((SortP.insertBack_perm' rev x acc).append_right xs).trans (List.perm_middle.symm)

theorem sortStable_permR (rev : Bool) (xs : List Val) : (sortStable rev xs).1.Perm xs := by
  simpa [sortStable] using insSortAux_permR rev xs [] false

/-- `l.sort(reverse=rev)`: PARTIAL – excluded (C17-K03): a list holding two bools (py.Lt refuses bool < bool).
The failing sort's arrangement is the specification's parameter `perm := modelPerm`. -/
theorem lSort_refines_partial (h : MHeap) (li : LInv h) (v : Nat) (rev : Bool)
    (hk : kfSortBools (abs h) (.lSort v rev) = false) : Refines modelPerm h (.lSort v rev) := by
  simp only [Refines, step, specStep, abs_obj]
  cases e : h.obj v with
  | none => stuck_case
  | some o =>
    cases o with
    | list hd =>
      have hv := li.valid e
      have hb : twoBools (readHdr h.arrs hd) = false := by
        simpa [kfSortBools, abs_obj, e, absObj] using hk
      have hp := (sortStable_permR rev (readHdr h.arrs hd)).length_eq
      rw [readHdr_length h.arrs hd hv] at hp
      obtain ⟨o1, r1⟩ := goWrite_own hv (sortStable rev (readHdr h.arrs hd)).1 hp
      obtain ⟨a, i⟩ := li.write e _ _ o1 r1
      simp only [Option.map_some, absObj]
      by_cases hs : sortable (readHdr h.arrs hd) = true
      · have e1 := sortStable_noerr rev _ hs hb
        have e2 := sortStable_eq_specSort rev _ hs hb
        rcases hss : sortStable rev (readHdr h.arrs hd) with ⟨ys, er⟩
        rw [hss] at e1 e2 a i
        simp only at e1 e2 a i
        subst e1; subst e2
        simp only [hs, if_true]
        exact ⟨a, by first | rfl | trivial, i⟩
      · have hs' : sortable (readHdr h.arrs hd) = false := by simpa using hs
        have e1 := sortStable_err_of_not_sortable rev _ hs'
        rcases hss : sortStable rev (readHdr h.arrs hd) with ⟨ys, er⟩
        have hm : modelPerm rev (readHdr h.arrs hd) = ys := by simp [modelPerm, hss]
        rw [hss] at e1 a i
        simp only at e1 a i
        subst e1
        simp only [hs', Bool.false_eq_true, if_false, hm]
        exact ⟨a, by first | rfl | trivial, i⟩
    | _ => stuck_case


/-! ### operations that create a list object -/

theorem lNew_refines (perm : Bool → List Val → List Val) (h : MHeap) (li : LInv h) (v : Nat) (xs : List Val) : Refines perm h (.lNew v xs) := by
  simp only [Refines, step, specStep]
  obtain ⟨a, i⟩ := li.newList v xs
  exact ⟨a, by first | rfl | trivial, i⟩

theorem copy_shape (h : MHeap) (li : LInv h) (v w : Nat) :
    (match h.obj w with
      | some (.list hd) => abs (h.newList v (readHdr h.arrs hd)) = (abs h).new v (.list (readHdr h.arrs hd)) ∧ LInv (h.newList v (readHdr h.arrs hd))
      | _ => True) := by
  cases e : h.obj w with
  | none => trivial
  | some o => cases o with
    | list hd => exact li.newList v _
    | _ => trivial

theorem lCopy_refines (perm : Bool → List Val → List Val) (h : MHeap) (li : LInv h) (v w : Nat) : Refines perm h (.lCopy v w) := by
  simp only [Refines, step, specStep, abs_obj]
  cases e : h.obj w with
  | none => stuck_case
  | some o =>
    cases o with
    | list hd => obtain ⟨a, i⟩ := li.newList v (readHdr h.arrs hd); exact ⟨a, by first | rfl | trivial, i⟩
    | _ => stuck_case

theorem lSliceCopy_refines (perm : Bool → List Val → List Val) (h : MHeap) (li : LInv h) (v w : Nat) : Refines perm h (.lSliceCopy v w) :=
  lCopy_refines perm h li v w

theorem lCopyM_refines (perm : Bool → List Val → List Val) (h : MHeap) (li : LInv h) (v w : Nat) : Refines perm h (.lCopyM v w) := by
  simp only [Refines, step, specStep, abs_obj]
  cases e : h.obj w with
  | none => stuck_case
  | some o =>
    cases o with
    | list hd => obtain ⟨a, i⟩ := li.newList v (readHdr h.arrs hd); exact ⟨a, by first | rfl | trivial, i⟩
    | _ => stuck_case

theorem lComp_refines (perm : Bool → List Val → List Val) (h : MHeap) (li : LInv h) (v w : Nat) : Refines perm h (.lComp v w) := by
  simp only [Refines, step, specStep, abs_obj]
  cases e : h.obj w with
  | none => stuck_case
  | some o =>
    cases o with
    | list hd => obtain ⟨a, i⟩ := li.newListEach v (readHdr h.arrs hd); exact ⟨a, by first | rfl | trivial, i⟩
    | _ => stuck_case

theorem lOfSrc_refines (perm : Bool → List Val → List Val) (h : MHeap) (li : LInv h) (v : Nat) (s : Src) : Refines perm h (.lOfSrc v s) := by
  cases s with
  | tuple xs =>
    simp only [Refines, step, specStep, Src.items]
    obtain ⟨a, i⟩ := li.newList v xs; exact ⟨a, by first | rfl | trivial, i⟩
  | str t =>
    simp only [Refines, step, specStep, Src.items]
    obtain ⟨a, i⟩ := li.newListEach v (t.toList.map (fun c => Val.str (String.singleton c))); exact ⟨a, by first | rfl | trivial, i⟩
  | scalar x =>
    simp only [Refines, step, specStep]
    cases hs : (Src.scalar x).items with
    | error err => stuck_case
    | ok xs => obtain ⟨a, i⟩ := li.newListEach v xs; exact ⟨a, by first | rfl | trivial, i⟩

theorem lAdd_refines (perm : Bool → List Val → List Val) (h : MHeap) (li : LInv h) (u v w : Nat) : Refines perm h (.lAdd u v w) := by
  simp only [Refines, step, specStep, abs_obj]
  cases ev : h.obj v with
  | none => cases ew : h.obj w with
    | none => stuck_case
    | some o => cases o <;> stuck_case
  | some o =>
    cases ew : h.obj w with
    | none => cases o <;> stuck_case
    | some o' =>
      cases o with
      | list hd =>
        cases o' with
        | list hw => obtain ⟨a, i⟩ := li.newList u (readHdr h.arrs hd ++ readHdr h.arrs hw); exact ⟨a, by first | rfl | trivial, i⟩
        | _ => stuck_case
      | _ => cases o' <;> stuck_case

theorem lMul_refines (perm : Bool → List Val → List Val) (h : MHeap) (li : LInv h) (u v : Nat) (n : Int) : Refines perm h (.lMul u v n) := by
  simp only [Refines, step, specStep, abs_obj]
  cases e : h.obj v with
  | none => stuck_case
  | some o =>
    cases o with
    | list hd => obtain ⟨a, i⟩ := li.newList u (repeatItems (readHdr h.arrs hd) n); exact ⟨a, by first | rfl | trivial, i⟩
    | _ => stuck_case

/-! ### observers and rebinding -/

theorem LInv.bind {h : MHeap} (li : LInv h) (v id : Nat) : LInv (h.bind v id) := ⟨inv_bind h li.inv v id, li.objs⟩

theorem alias_refines (perm : Bool → List Val → List Val) (h : MHeap) (li : LInv h) (v w : Nat) : Refines perm h (.alias v w) := by
  simp only [Refines, step, specStep]
  exact ⟨by first | rfl | trivial, by first | rfl | trivial, li.bind _ _⟩

theorem len_refines (perm : Bool → List Val → List Val) (h : MHeap) (li : LInv h) (v : Nat) : Refines perm h (.len v) := by
  simp only [Refines, step, specStep, abs_obj]
  cases e : h.obj v with
  | none => stuck_case
  | some o =>
    cases o with
    | list hd => simp only [Option.map_some, absObj, readHdr_length h.arrs hd (li.valid e)]; stuck_case
    | _ => stuck_case

theorem contains_refines (perm : Bool → List Val → List Val) (h : MHeap) (li : LInv h) (v : Nat) (x : Val) : Refines perm h (.contains v x) := by
  simp only [Refines, step, specStep, abs_obj]
  cases e : h.obj v with
  | none => stuck_case
  | some o => cases o <;> stuck_case

theorem eq_refines (perm : Bool → List Val → List Val) (h : MHeap) (li : LInv h) (v w : Nat) : Refines perm h (.eq v w) := by
  simp only [Refines, step, specStep, abs_obj]
  cases ev : h.obj v with
  | none => cases ew : h.obj w with
    | none => stuck_case
    | some o => cases o <;> stuck_case
  | some o =>
    cases ew : h.obj w with
    | none => cases o <;> stuck_case
    | some o' =>
      cases o with
      | dict m => exact (li.notDict ev).elim
      | set ks => exact (li.notSet ev).elim
      | _ => cases o' <;> stuck_case

theorem ne_refines (perm : Bool → List Val → List Val) (h : MHeap) (li : LInv h) (v w : Nat) : Refines perm h (.ne v w) := by
  simp only [Refines, step, specStep, abs_obj]
  cases ev : h.obj v with
  | none => cases ew : h.obj w with
    | none => stuck_case
    | some o => cases o <;> stuck_case
  | some o =>
    cases ew : h.obj w with
    | none => cases o <;> stuck_case
    | some o' =>
      cases o with
      | dict m => exact (li.notDict ev).elim
      | set ks => exact (li.notSet ev).elim
      | _ => cases o' <;> stuck_case

/-! ### iterators -/

theorem LInv.setIter {h : MHeap} (li : LInv h) (id : Nat) (o : MObj) (hk : okObj o) (hi : ∃ pos seq, o = .iter pos seq) :
    abs (h.setObj id o) = (abs h).setObj id (absObj h.arrs o) ∧ LInv (h.setObj id o) := by
  obtain ⟨pos, seq, rfl⟩ := hi
  exact ⟨abs_setObj h id _, inv_setObj h li.inv id _ (fun hd e => by cases e), objs_set li.objs _ _ (listObj_of_iter hk)⟩

theorem LInv.seqOK {h : MHeap} (li : LInv h) {t pos : Nat} {seq : ISeq} (e : h.obj t = some (.iter pos seq)) :
    ∀ xs o, seq = .tuple xs o → o = none :=
  fun xs o hh => (li.objs _ (List.mem_of_getElem? (obj_lookup e))).1 pos xs o (by rw [hh])

theorem iterNext_isIter (arrs : Arrs) (objs : List MObj) (pos : Nat) (seq : ISeq) : ∃ p s, (iterNext arrs objs pos seq).2 = .iter p s := by
  cases seq with
  | tuple xs o => simp only [iterNext]; split <;> exact ⟨_, _, rfl⟩
  | obj id =>
    simp only [iterNext]
    split
    · split <;> exact ⟨_, _, rfl⟩
    · exact ⟨_, _, rfl⟩

theorem iterDrain_isIter (arrs : Arrs) (objs : List MObj) : ∀ (fuel pos : Nat) (seq : ISeq), ∃ p s, (iterDrain arrs objs fuel pos seq).2 = .iter p s := by
  intro fuel
  induction fuel with
  | zero => intro pos seq; exact ⟨_, _, rfl⟩
  | succ fuel ih =>
    intro pos seq
    simp only [iterDrain]
    obtain ⟨p, s, hps⟩ := iterNext_isIter arrs objs pos seq
    rcases hm : iterNext arrs objs pos seq with ⟨rm, im⟩
    rw [hm] at hps
    simp only at hps
    subst hps
    cases rm with
    | error e => exact ⟨_, _, rfl⟩
    | ok x => simp only; exact ih p s

theorem iter_refines (perm : Bool → List Val → List Val) (h : MHeap) (li : LInv h) (t v : Nat) : Refines perm h (.iter t v) := by
  simp only [Refines, step, specStep, abs_obj]
  cases e : h.obj v with
  | none => stuck_case
  | some o =>
    cases o with
    | list hd =>
      simp only [Option.map_some, absObj]
      refine ⟨?_, by first | rfl | trivial, ⟨inv_bind _ ?_ _ _, objs_push li.objs _ (listObj_live 0 (h.id v))⟩⟩
      · have := abs_alloc h li.inv h.arrs (.iter 0 (.obj (h.id v))) (.iter 0 (.live (h.id v))) (Untouched.refl _ _) rfl
        simp only [MHeap.alloc] at this ⊢
        rw [abs_bind]
        simp only [SHeap.new, SHeap.alloc] at this ⊢
        rw [this]; simp [abs, SHeap.id, MHeap.id]
      · constructor
        · intro i hj ei
          have : h.objs[i]? = some (MObj.list hj) := by
            rcases Nat.lt_or_ge i h.objs.length with hl | hl
            · simpa [MHeap.alloc, List.getElem?_append_left hl] using ei
            · rcases Nat.eq_or_lt_of_le hl with hl | hl
              · subst hl; simp [MHeap.alloc] at ei
              · simp [MHeap.alloc, List.getElem?_eq_none (show (h.objs ++ [_]).length ≤ i by simp; omega)] at ei
          exact li.inv.valid i hj this
        · intro i j hi hj hne e1 e2
          have f : ∀ (i : Nat) (hj : Hdr), (h.alloc (.iter 0 (.obj (h.id v)))).1.objs[i]? = some (MObj.list hj) → h.objs[i]? = some (MObj.list hj) := by
            intro i hj ei
            rcases Nat.lt_or_ge i h.objs.length with hl | hl
            · simpa [MHeap.alloc, List.getElem?_append_left hl] using ei
            · rcases Nat.eq_or_lt_of_le hl with hl | hl
              · subst hl; simp [MHeap.alloc] at ei
              · simp [MHeap.alloc, List.getElem?_eq_none (show (h.objs ++ [_]).length ≤ i by simp; omega)] at ei
          exact li.inv.sep i j hi hj hne (f i hi e1) (f j hj e2)
    | dict m => exact (li.notDict e).elim
    | set ks => exact (li.notSet e).elim
    | _ => stuck_case

theorem next_refines (perm : Bool → List Val → List Val) (h : MHeap) (li : LInv h) (t : Nat) : Refines perm h (.next t) := by
  simp only [Refines, step, specStep, abs_obj]
  cases e : h.obj t with
  | none => stuck_case
  | some o =>
    cases o with
    | iter pos seq =>
      have hs := li.seqOK e
      obtain ⟨h1, h2⟩ := iterNext_abs h li.inv pos seq hs
      have h3 := iterNext_ok h.arrs h.objs pos seq hs
      have h4 := iterNext_isIter h.arrs h.objs pos seq
      simp only [Option.map_some, absObj]
      rcases hm : iterNext h.arrs h.objs pos seq with ⟨rm, im⟩
      rcases hsp : specNext (abs h) pos (absSeq seq) with ⟨rs, is⟩
      simp only [hm, hsp] at h1 h2 h3 h4
      subst h1; subst h2
      obtain ⟨a, i⟩ := li.setIter (h.id t) im h3 h4
      cases rm <;> exact ⟨a, by first | rfl | trivial, i⟩
    | _ => stuck_case

theorem drain_refines (perm : Bool → List Val → List Val) (h : MHeap) (li : LInv h) (t : Nat) : Refines perm h (.drain t) := by
  simp only [Refines, step, specStep, abs_obj]
  cases e : h.obj t with
  | none => stuck_case
  | some o =>
    cases o with
    | iter pos seq =>
      have hs := li.seqOK e
      obtain ⟨h1, h2, h3⟩ := iterDrain_abs h li.inv (drainFuel h.arrs h.objs seq) pos seq hs
      have h4 := iterDrain_isIter h.arrs h.objs (drainFuel h.arrs h.objs seq) pos seq
      simp only [Option.map_some, absObj, ← drainFuel_abs h li.inv seq]
      rcases hm : iterDrain h.arrs h.objs (drainFuel h.arrs h.objs seq) pos seq with ⟨rm, im⟩
      rcases hsp : specDrain (abs h) (drainFuel h.arrs h.objs seq) pos (absSeq seq) with ⟨rs, is⟩
      simp only [hm, hsp] at h1 h2 h3 h4
      subst h1; subst h2
      obtain ⟨a, i⟩ := li.setIter (h.id t) im h3 h4
      exact ⟨a, by first | rfl | trivial, i⟩
    | _ => stuck_case

theorem lOfIter_refines (perm : Bool → List Val → List Val) (h : MHeap) (li : LInv h) (v t : Nat) : Refines perm h (.lOfIter v t) := by
  simp only [Refines, step, specStep, abs_obj]
  cases e : h.obj t with
  | none => stuck_case
  | some o =>
    cases o with
    | iter pos seq =>
      have hs := li.seqOK e
      obtain ⟨h1, h2, h3⟩ := iterDrain_abs h li.inv (drainFuel h.arrs h.objs seq) pos seq hs
      have h4 := iterDrain_isIter h.arrs h.objs (drainFuel h.arrs h.objs seq) pos seq
      simp only [Option.map_some, absObj, ← drainFuel_abs h li.inv seq]
      rcases hm : iterDrain h.arrs h.objs (drainFuel h.arrs h.objs seq) pos seq with ⟨rm, im⟩
      rcases hsp : specDrain (abs h) (drainFuel h.arrs h.objs seq) pos (absSeq seq) with ⟨rs, is⟩
      simp only [hm, hsp] at h1 h2 h3 h4
      subst h1; subst h2
      obtain ⟨a, i⟩ := li.setIter (h.id t) im h3 h4
      obtain ⟨a2, i2⟩ := i.newListEach v rm
      rw [a] at a2
      exact ⟨a2, by first | rfl | trivial, i2⟩
    | _ => stuck_case

theorem lExtendIter_refines (perm : Bool → List Val → List Val) (h : MHeap) (li : LInv h) (v t : Nat) : Refines perm h (.lExtendIter v t) := by
  simp only [Refines, step, specStep, abs_obj]
  cases ev : h.obj v with
  | none => cases et : h.obj t with
    | none => stuck_case
    | some o => cases o <;> stuck_case
  | some o =>
    cases et : h.obj t with
    | none => cases o <;> stuck_case
    | some o' =>
      cases o with
      | list hd =>
        cases o' with
        | iter pos seq =>
          have hs := li.seqOK et
          obtain ⟨h1, h2, h3⟩ := iterDrain_abs h li.inv (drainFuel h.arrs h.objs seq) pos seq hs
          have h4 := iterDrain_isIter h.arrs h.objs (drainFuel h.arrs h.objs seq) pos seq
          simp only [Option.map_some, absObj, ← drainFuel_abs h li.inv seq]
          rcases hm : iterDrain h.arrs h.objs (drainFuel h.arrs h.objs seq) pos seq with ⟨rm, im⟩
          rcases hsp : specDrain (abs h) (drainFuel h.arrs h.objs seq) pos (absSeq seq) with ⟨rs, is⟩
          simp only [hm, hsp] at h1 h2 h3 h4
          subst h1; subst h2
          obtain ⟨a, i⟩ := li.setIter (h.id t) im h3 h4
          have hne : h.id v ≠ h.id t := by
            intro hh
            have e1 := obj_lookup ev; have e2 := obj_lookup et
            rw [hh, e2] at e1; cases e1
          have ev' : (h.setObj (h.id t) im).obj v = some (.list hd) := by
            show (h.setObj (h.id t) im).objs[h.id v]? = _
            rw [setObj_lookup_ne _ _ _ _ hne]; exact obj_lookup ev
          have hv := li.valid ev
          obtain ⟨o1, r1⟩ := goAppendEach_spec rm h.arrs hd hv
          obtain ⟨a2, i2⟩ := i.put ev' (goAppendEach h.arrs hd rm) _ o1 r1
          rw [a] at a2
          exact ⟨a2, by first | rfl | trivial, i2⟩
        | _ => stuck_case
      | _ => cases o' <;> stuck_case

end GPy.C17
