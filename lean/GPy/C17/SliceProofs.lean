/-
C17 list-level middle layer → Python specification: the index/slice operations of ListOps.lean
(`checkIndex`, `getSliceL`, `setSliceL`, `delSliceL`: the Go arithmetic of `GetIndices`/`IndexIntCheck`
and the Go loops on the item list) are the specification's `normIndex`, `pick`/`slicePos`,
`specSetSlice`, `specDelSlice`; and the indices the loops use stay inside the list
(`sliceIndices_bounds`).  On top of C13's `getIndices_agree` / `SliceOK` and its `prog` arithmetic;
the list lemmas (`removeFrom_*`, the deletion loop) are re-proved for `List Val`.  Core Lean only.
-/
import GPy.C17.ListOps
import GPy.C13.Proofs
namespace GPy.C17
open GPy.C13 (prog SliceOK)

theorem idxErr_eq_specErr (e : C13.Err) : idxErr e = specErr e := by cases e <;> rfl

theorem toIdx_WF (o : Option Int) (h : optInRange o) : (toIdx o).WF := by
  cases o with
  | none => trivial
  | some v => exact h v rfl

theorem specComp_toIdx (o : Option Int) : C13.specComp (toIdx o) = .ok o := by
  cases o <;> rfl

theorem checkIndex_eq_normIndex (i : Int) (n : Nat) (hi : inRange i) (hn : (n : Int) ≤ IntMax) :
    checkIndex i n = normIndex n i := by
  unfold checkIndex
  rw [C13.indexIntCheck_spec (.int i) hi n hn rfl]
  show (match (C13.normIndex n i).map (fun p => (p : Int)) with | .ok k => (Except.ok k.toNat : Except Err Nat) | .error e => .error (idxErr e)) = _
  unfold C13.normIndex normIndex
  by_cases hc : 0 ≤ (if i < 0 then i + ↑n else i) ∧ (if i < 0 then i + ↑n else i) < ↑n
  · rw [if_pos hc, if_pos hc]; rfl
  · rw [if_neg hc, if_neg hc]; rfl

theorem normIndex_lt {n : Nat} {i : Int} {k : Nat} (h : normIndex n i = .ok k) : k < n := by
  unfold normIndex at h
  by_cases hc : 0 ≤ (if i < 0 then i + ↑n else i) ∧ (if i < 0 then i + ↑n else i) < ↑n
  · rw [if_pos hc] at h
    injection h with h
    omega
  · rw [if_neg hc] at h
    cases h

/-- the one fact about GetIndices everything below rests on -/
theorem slice_cases (n : Nat) (lo hi st : Option Int) (hlo : optInRange lo) (hhi : optInRange hi) (hst : optInRange st)
    (hn : (n : Int) ≤ IntMax) :
    (st = some 0 ∧ sliceIndices lo hi st n = .error .value ∧ slicePos n lo hi st = .error .value) ∨
    (∃ a b k len, sliceIndices lo hi st n = .ok (a, b, k, len) ∧
      slicePos n lo hi st = .ok (C13.sliceIndices n lo hi (st.getD 1), st.getD 1 == 1) ∧
      SliceOK n lo hi (st.getD 1) a b k len) := by
  have h := C13.getIndices_agree ⟨toIdx lo, toIdx hi, toIdx st⟩ ⟨toIdx_WF lo hlo, toIdx_WF hi hhi, toIdx_WF st hst⟩ n hn
  have hargs : C13.specSliceArgs ⟨toIdx lo, toIdx hi, toIdx st⟩ =
      if st == some 0 then .error .value else .ok (lo, hi, st.getD 1) := by
    unfold C13.specSliceArgs
    simp only [specComp_toIdx, bind, Except.bind]
    split <;> rfl
  unfold sliceIndices slicePos C13.specSliceIdx
  rw [hargs] at h ⊢
  by_cases h0 : (st == some 0) = true
  · left
    rw [if_pos h0] at h ⊢
    refine ⟨by simpa using h0, ?_, rfl⟩
    generalize C13.getIndices ⟨toIdx lo, toIdx hi, toIdx st⟩ ↑n = m at h ⊢
    match m, h with
    | .error e1, h => simp only [C13.SliceAgree] at h; subst h; rfl
  · right
    rw [if_neg h0] at h ⊢
    generalize C13.getIndices ⟨toIdx lo, toIdx hi, toIdx st⟩ ↑n = m at h ⊢
    match m, h with
    | .ok (a, b, k, len), h =>
      simp only [C13.SliceAgree] at h
      exact ⟨a, b, k, len, rfl, rfl, h⟩


/-! ### the copy and the assignment loop -/

theorem pickLoop_prog (xs : List Val) (k : Int) : ∀ (m : Nat) (a : Int), pickLoop xs a k m = pick xs (prog a k m) := by
  intro m
  induction m with
  | zero => intro a; rfl
  | succ m ih => intro a; simp only [pickLoop, prog, pick, List.map_cons, ih (a + k)]

theorem setLoopL_prog (k : Int) : ∀ (vs : List Val) (xs : List Val) (a : Int),
    setLoopL xs a k vs = assignAt xs (prog a k vs.length) vs := by
  intro vs
  induction vs with
  | nil => intro xs a; rfl
  | cons v vs ih => intro xs a; simp only [setLoopL, List.length_cons, prog, assignAt, ih]

theorem getSliceL_spec (xs : List Val) (lo hi st : Option Int) (hlo : optInRange lo) (hhi : optInRange hi)
    (hst : optInRange st) (hn : (xs.length : Int) ≤ IntMax) :
    getSliceL xs lo hi st = (match slicePos xs.length lo hi st with
      | .ok (idxs, _) => .ok (pick xs idxs)
      | .error e => .error e) := by
  unfold getSliceL
  rcases slice_cases xs.length lo hi st hlo hhi hst hn with ⟨_, h1, h2⟩ | ⟨a, b, k, len, h1, h2, h⟩
  · rw [h1, h2]
  · rw [h1, h2]
    simp only [pickLoop_prog, h.eq_prog]

theorem setSliceL_spec (xs : List Val) (lo hi st : Option Int) (vs : Except Err (List Val)) (hlo : optInRange lo)
    (hhi : optInRange hi) (hst : optInRange st) (hn : (xs.length : Int) ≤ IntMax) :
    setSliceL xs lo hi st vs = specSetSlice xs lo hi st vs := by
  unfold setSliceL specSetSlice
  rcases slice_cases xs.length lo hi st hlo hhi hst hn with ⟨_, h1, h2⟩ | ⟨a, b, k, len, h1, h2, h⟩
  · rw [h1, h2]
  · rw [h1, h2]
    cases vs with
    | error e => rfl
    | ok vs =>
      simp only
      by_cases hd : st.getD 1 = 1
      · have hk : k = 1 := by rw [h.step_eq]; exact (C13.clampStep_eq_one _).mpr hd
        subst hk
        obtain ⟨a0, a1, b0, b1, _, _, ea, eb, _⟩ := h.lo (by omega)
        simp only [hd, beq_self_eq_true, if_true, replaceRun]
        rw [← ea, ← eb]
        by_cases hba : b < a
        · rw [if_pos hba]
          have : max a b = a := by omega
          rw [this]
        · rw [if_neg hba]
          have : max a b = b := by omega
          rw [this]
      · have hk : k ≠ 1 := by rw [h.step_eq]; exact fun hh => hd ((C13.clampStep_eq_one _).mp hh)
        have e1 : (k == 1) = false := by simp [hk]
        have e2 : (st.getD 1 == 1) = false := by simp [hd]
        simp only [e1, e2, Bool.false_eq_true, if_false]
        have hlen : (C13.sliceIndices xs.length lo hi (st.getD 1)).length = len.toNat := by
          rw [h.eq_prog]; exact C13.prog_length _ _ _
        by_cases hx : (vs.length : Int) = len
        · have hx' : vs.length = len.toNat := by omega
          rw [if_neg (by simpa using hx), if_neg (by rw [hlen]; simpa using hx')]
          rw [h.eq_prog, ← hx', setLoopL_prog]
        · have hx' : vs.length ≠ len.toNat := by have := h.len_nonneg; omega
          rw [if_pos (by simpa using hx), if_pos (by rw [hlen]; simpa using hx')]


/-! ### deletion: `removeFrom` on `List Val` (the recursion of C13's, re-proved) -/

theorem removeFrom_nil : ∀ (xs : List Val) (q : Int), removeFrom xs q [] = xs := by
  intro xs
  induction xs with
  | nil => intro q; rfl
  | cons x xs ih => intro q; simp only [removeFrom, List.contains_nil, Bool.false_eq_true, if_false, ih]

theorem removeFrom_ge (a : Int) (m : Nat) : ∀ (xs : List Val) (p : Int), a ≤ p →
    removeFrom xs p (prog a 1 m) = xs.drop (a + m - p).toNat := by
  intro xs
  induction xs with
  | nil => intro p _; simp [removeFrom]
  | cons x xs ih =>
    intro p hp
    simp only [removeFrom, List.contains_iff_mem, C13.mem_prog_one]
    by_cases h : p < a + m
    · rw [if_pos ⟨hp, h⟩, ih (p + 1) (by omega)]
      have : (a + ↑m - p).toNat = (a + ↑m - (p + 1)).toNat + 1 := by omega
      rw [this, List.drop_succ_cons]
    · rw [if_neg (by omega), ih (p + 1) (by omega)]
      have e1 : (a + ↑m - (p + 1)).toNat = 0 := by omega
      have e2 : (a + ↑m - p).toNat = 0 := by omega
      rw [e1, e2]; rfl

theorem removeFrom_le (a : Int) (m : Nat) : ∀ (xs : List Val) (p : Int), p ≤ a →
    removeFrom xs p (prog a 1 m) = xs.take (a - p).toNat ++ xs.drop (a + m - p).toNat := by
  intro xs
  induction xs with
  | nil => intro p _; simp [removeFrom]
  | cons x xs ih =>
    intro p hp
    by_cases h : p < a
    · simp only [removeFrom, List.contains_iff_mem, C13.mem_prog_one]
      rw [if_neg (by omega), ih (p + 1) (by omega)]
      have e1 : (a - p).toNat = (a - (p + 1)).toNat + 1 := by omega
      have e2 : (a + ↑m - p).toNat = (a + ↑m - (p + 1)).toNat + 1 := by omega
      rw [e1, e2, List.take_succ_cons, List.drop_succ_cons]; rfl
    · have : p = a := by omega
      subst this
      rw [removeFrom_ge p m (x :: xs) p (Int.le_refl _)]
      simp

theorem removeFrom_congr_ge (idxs idxs' : List Int) : ∀ (xs : List Val) (q : Int),
    (∀ x, q ≤ x → idxs.contains x = idxs'.contains x) → removeFrom xs q idxs = removeFrom xs q idxs' := by
  intro xs
  induction xs with
  | nil => intro q _; rfl
  | cons x xs ih =>
    intro q h
    simp only [removeFrom]
    rw [h q (Int.le_refl _), ih (q + 1) (fun y hy => h y (by omega))]

theorem removeFrom_shift (idxs : List Int) : ∀ (xs : List Val) (q : Int),
    removeFrom xs (q + 1) idxs = removeFrom xs q (idxs.map (fun i => i - 1)) := by
  intro xs
  induction xs with
  | nil => intro q; rfl
  | cons x xs ih =>
    intro q
    simp only [removeFrom, C13.contains_map_pred, ih (q + 1)]

/-- deleting position `p` first, then the remaining (larger) positions shifted down by one -/
theorem removeFrom_cons (rest : List Int) (p : Int) (hrest : ∀ r ∈ rest, p < r) : ∀ (xs : List Val) (q : Int), q ≤ p →
    removeFrom xs q (p :: rest) = removeFrom (xs.eraseIdx (p - q).toNat) q (rest.map (fun i => i - 1)) := by
  intro xs
  induction xs with
  | nil => intro q _; rfl
  | cons x xs ih =>
    intro q hq
    by_cases hlt : q < p
    · have hnc : (p :: rest).contains q = false := by
        simp only [List.contains_cons, Bool.or_eq_false_iff]
        refine ⟨by simp; omega, ?_⟩
        apply Bool.eq_false_iff.mpr
        intro hc
        have := hrest q (List.contains_iff_mem.mp hc)
        omega
      have hnc2 : (rest.map (fun i => i - 1)).contains q = false := by
        rw [C13.contains_map_pred]
        apply Bool.eq_false_iff.mpr
        intro hc
        have := hrest _ (List.contains_iff_mem.mp hc)
        omega
      have e : (p - q).toNat = (p - (q + 1)).toNat + 1 := by omega
      rw [e, List.eraseIdx_cons_succ]
      simp only [removeFrom, hnc, hnc2, Bool.false_eq_true, if_false]
      rw [ih (q + 1) (by omega)]
    · have hqp : q = p := by omega
      subst hqp
      have e : (q - q).toNat = 0 := by omega
      rw [e, List.eraseIdx_cons_zero]
      have hc : (q :: rest).contains q = true := by simp
      simp only [removeFrom, hc, if_true]
      rw [removeFrom_shift]
      apply removeFrom_congr_ge
      intro x hx
      rw [C13.contains_map_pred, C13.contains_map_pred]
      simp only [List.contains_cons]
      have : (x + 1 == q) = false := by simp; omega
      rw [this, Bool.false_or]

/-- delete at p, then at p + t - 1, … -/
def delIncL (p t : Int) : Nat → List Val → List Val
  | 0, xs => xs
  | f + 1, xs => delIncL (p + t - 1) t f (xs.eraseIdx p.toNat)

theorem delIncL_spec (t : Int) (ht : 0 < t) : ∀ (f : Nat) (xs : List Val) (p : Int), 0 ≤ p →
    delIncL p t f xs = removeFrom xs 0 (prog p t f) := by
  intro f
  induction f with
  | zero => intro xs p _; simp only [delIncL, prog, removeFrom_nil]
  | succ f ih =>
    intro xs p hp
    simp only [delIncL, prog]
    have e1 : p + t - 1 = (p + t) - 1 := by omega
    rw [ih (xs.eraseIdx p.toNat) (p + t - 1) (by omega)]
    rw [removeFrom_cons (prog (p + t) t f) p (fun r hr => C13.prog_gt t ht f p r hr) xs 0 hp]
    rw [C13.prog_map_pred, e1]
    have : (p - 0).toNat = p.toNat := by omega
    rw [this]

theorem delLoopL_eq_delIncL (s t : Int) : ∀ (f : Nat) (xs : List Val) (j : Nat),
    delLoopL s t f j xs = delIncL (s + j * t - j) t f xs := by
  intro f
  induction f with
  | zero => intro xs j; rfl
  | succ f ih =>
    intro xs j
    simp only [delLoopL, delIncL]
    have e : ((j : Int) + 1) = ((j + 1 : Nat) : Int) := by rw [Int.natCast_succ]
    have e2 : s + (j : Int) * t - j + t - 1 = s + ((j + 1 : Nat) : Int) * t - ((j + 1 : Nat) : Int) := by
      rw [Int.natCast_succ, Int.add_mul]; omega
    rw [e, e2]
    exact ih _ (j + 1)

/-- the ascending loop of `M__delitem__` on an ascending progression -/
theorem delLoopL_spec (xs : List Val) (s t : Int) (m : Nat) (hs : 0 ≤ s) (ht : 0 < t) :
    delLoopL s t m 0 xs = removeFrom xs 0 (prog s t m) := by
  have := delLoopL_eq_delIncL s t m xs 0
  simp only [Int.natCast_zero, Int.zero_mul, Int.add_zero, Int.sub_zero] at this
  rw [this, delIncL_spec t ht m xs s hs]


theorem delSliceL_spec (xs : List Val) (lo hi st : Option Int) (hlo : optInRange lo) (hhi : optInRange hi)
    (hst : optInRange st) (hn : (xs.length : Int) ≤ IntMax) :
    delSliceL xs lo hi st = specDelSlice xs lo hi st := by
  unfold delSliceL specDelSlice
  rcases slice_cases xs.length lo hi st hlo hhi hst hn with ⟨_, h1, h2⟩ | ⟨a, b, k, len, h1, h2, h⟩
  · rw [h1, h2]
  · rw [h1, h2]
    simp only
    have hmem : ∀ x ∈ prog a k len.toNat, 0 ≤ x ∧ x < xs.length := by rw [← h.eq_prog]; exact h.inb
    by_cases hk1 : k = 1
    · subst hk1
      obtain ⟨a0, a1, b0, b1, _, _, _, _, hm⟩ := h.lo (by omega)
      simp only [beq_self_eq_true, if_true]
      rw [h.eq_prog, removeFrom_le a _ xs 0 a0]
      have hc := C13.countUp_one a b
      have e1 : (a - 0).toNat = a.toNat := by omega
      by_cases hba : b < a
      · rw [if_pos hba]
        rw [if_neg (by omega)] at hc
        have e2 : (a + ↑len.toNat - 0).toNat = a.toNat := by omega
        rw [e1, e2]
      · rw [if_neg hba]
        have e2 : (a + ↑len.toNat - 0).toNat = b.toNat := by split at hc <;> omega
        rw [e1, e2]
    · have e1 : (k == 1) = false := by simp [hk1]
      simp only [e1, Bool.false_eq_true, if_false]
      rw [h.eq_prog]
      by_cases hpos : k > 0
      · rw [if_neg (by omega)]
        obtain ⟨a0, _⟩ := h.lo hpos
        simp only
        rw [delLoopL_spec xs a k _ a0 hpos]
      · have hneg : k < 0 := by have := h.step_ne; omega
        rw [if_pos hneg]
        simp only
        cases hm : len.toNat with
        | zero => simp only [delLoopL, prog, removeFrom_nil]
        | succ m' =>
          have hlen : len - 1 = (m' : Int) := by have := h.len_nonneg; omega
          have hlast : a + (m' : Int) * k ∈ prog a k len.toNat := by
            rw [hm]; exact (C13.mem_prog_iff a k _ _).mpr ⟨m', by omega, rfl⟩
          have hb := hmem _ hlast
          rw [hlen]
          have hrev : ∀ x, 0 ≤ x → (prog a k (m' + 1)).contains x = (prog (a + ↑m' * k) (-k) (m' + 1)).contains x :=
            fun x _ => C13.prog_rev_contains a k m' x
          rw [removeFrom_congr_ge _ _ xs 0 hrev]
          rw [delLoopL_spec xs _ (-k) _ hb.1 (by omega)]


/-! ### the indices the loops use stay inside the list -/

theorem setIdxOK_of_prog (k : Int) (n : Nat) : ∀ (m : Nat) (a : Int),
    (∀ x ∈ prog a k m, 0 ≤ x ∧ x < n) → setIdxOK a k m n := by
  intro m
  induction m with
  | zero => intro a _; trivial
  | succ m ih =>
    intro a h
    have ha := h a (by simp [prog])
    refine ⟨ha.1, by omega, ih (a + k) (fun x hx => h x (by simp only [prog, List.mem_cons]; right; exact hx))⟩

theorem delIdxOK_of (s t : Int) (hs : 0 ≤ s) (ht : 0 < t) : ∀ (m j len : Nat),
    (∀ i : Nat, i < m → s + ((j + i : Nat) : Int) * t < ((len + j : Nat) : Int)) → delIdxOK s t m (j : Int) len := by
  intro m
  induction m with
  | zero => intro j len _; trivial
  | succ m ih =>
    intro j len h
    have h0 := h 0 (by omega)
    simp only [Nat.add_zero] at h0
    have hjt2 : (j : Int) ≤ (j : Int) * t := by
      have : 0 ≤ (j : Int) * (t - 1) := Int.mul_nonneg (by omega) (by omega)
      rw [Int.mul_sub, Int.mul_one] at this; omega
    refine ⟨by omega, by omega, ?_⟩
    have e : ((j : Int) + 1) = ((j + 1 : Nat) : Int) := by rw [Int.natCast_succ]
    rw [e]
    apply ih (j + 1) (len - 1)
    intro i hi
    have h1 := h (i + 1) (by omega)
    have e3 : j + (i + 1) = j + 1 + i := by omega
    rw [e3] at h1
    have e4 : len - 1 + (j + 1) = len + j := by omega
    rw [e4]; exact h1

/-- the ascending deletion indices of an in-range progression stay inside the shrinking list -/
theorem delIdxOK_prog (s t : Int) (m n : Nat) (hs : 0 ≤ s) (ht : 0 < t) (h : ∀ x ∈ prog s t m, x < n) :
    delIdxOK s t m 0 n := by
  have := delIdxOK_of s t hs ht m 0 n (fun i hi => by
    have hm : s + (i : Int) * t ∈ prog s t m := (C13.mem_prog_iff s t m _).mpr ⟨i, hi, rfl⟩
    have := h _ hm
    simp only [Nat.zero_add, Nat.add_zero]; exact this)
  simpa using this

/-- what the heap-level refinement needs about `GetIndices`' result (the two loop parts hold for every step) -/
theorem sliceIndices_bounds' (n : Nat) (lo hi st : Option Int) (hlo : optInRange lo) (hhi : optInRange hi)
    (hst : optInRange st) (hn : (n : Int) ≤ IntMax) (start stop step slen : Int)
    (h : sliceIndices lo hi st n = .ok (start, stop, step, slen)) :
    0 ≤ slen ∧ step ≠ 0 ∧ (0 < step → 0 ≤ start ∧ start ≤ n ∧ 0 ≤ stop ∧ stop ≤ n) ∧
    setIdxOK start step slen.toNat n ∧
    delIdxOK (if step < 0 then start + (slen - 1) * step else start) (if step < 0 then -step else step) slen.toNat 0 n := by
  rcases slice_cases n lo hi st hlo hhi hst hn with ⟨_, h1, _⟩ | ⟨a, b, k, len, h1, _, hh⟩
  · rw [h1] at h; cases h
  · rw [h1] at h
    injection h with h
    injection h with e1 h
    injection h with e2 h
    injection h with e3 e4
    subst e1; subst e2; subst e3; subst e4
    have hmem : ∀ x ∈ prog a k len.toNat, 0 ≤ x ∧ x < n := by rw [← hh.eq_prog]; exact hh.inb
    refine ⟨hh.len_nonneg, hh.step_ne, ?_, setIdxOK_of_prog k n _ a hmem, ?_⟩
    · intro hk
      obtain ⟨a0, a1, b0, b1, _⟩ := hh.lo hk
      exact ⟨a0, a1, b0, b1⟩
    · by_cases hpos : k > 0
      · rw [if_neg (by omega), if_neg (by omega)]
        obtain ⟨a0, _⟩ := hh.lo hpos
        exact delIdxOK_prog a k _ n a0 hpos (fun x hx => by have := (hmem x hx).2; omega)
      · have hneg : k < 0 := by have := hh.step_ne; omega
        rw [if_pos hneg, if_pos hneg]
        cases hm : len.toNat with
        | zero => trivial
        | succ m' =>
          have hlen : len - 1 = (m' : Int) := by have := hh.len_nonneg; omega
          have hlast : a + (m' : Int) * k ∈ prog a k len.toNat := by
            rw [hm]; exact (C13.mem_prog_iff a k _ _).mpr ⟨m', by omega, rfl⟩
          have hb := hmem _ hlast
          rw [hlen]
          apply delIdxOK_prog _ (-k) _ n hb.1 (by omega)
          intro x hx
          have hc : (prog (a + ↑m' * k) (-k) (m' + 1)).contains x = true := List.contains_iff_mem.mpr hx
          rw [← C13.prog_rev_contains] at hc
          have := hmem x (by rw [hm]; exact List.contains_iff_mem.mp hc)
          omega

theorem sliceIndices_bounds (n : Nat) (lo hi st : Option Int) (hlo : optInRange lo) (hhi : optInRange hi)
    (hst : optInRange st) (hn : (n : Int) ≤ IntMax) (start stop step slen : Int)
    (h : sliceIndices lo hi st n = .ok (start, stop, step, slen)) :
    0 ≤ slen ∧ (step = 1 → 0 ≤ start ∧ start ≤ n ∧ 0 ≤ stop ∧ stop ≤ n) ∧
    (step ≠ 1 → setIdxOK start step slen.toNat n) ∧
    (step ≠ 1 → delIdxOK (if step < 0 then start + (slen - 1) * step else start) (if step < 0 then -step else step) slen.toNat 0 n) := by
  obtain ⟨h0, _, h1, h2, h3⟩ := sliceIndices_bounds' n lo hi st hlo hhi hst hn start stop step slen h
  exact ⟨h0, fun hs => h1 (by omega), fun _ => h2, fun _ => h3⟩


/-- the slice length never exceeds the list length (`make([]Object, slicelength)` is bounded) -/
theorem sliceIndices_len_le (n : Nat) (lo hi st : Option Int) (hlo : optInRange lo) (hhi : optInRange hi)
    (hst : optInRange st) (hn : (n : Int) ≤ IntMax) (start stop step slen : Int)
    (h : sliceIndices lo hi st n = .ok (start, stop, step, slen)) : slen ≤ n := by
  rcases slice_cases n lo hi st hlo hhi hst hn with ⟨_, h1, _⟩ | ⟨a, b, k, len, h1, _, hh⟩
  · rw [h1] at h; cases h
  · rw [h1] at h
    injection h with h
    injection h with e1 h
    injection h with e2 h
    injection h with e3 e4
    subst e1; subst e2; subst e3; subst e4
    have hmem : ∀ x ∈ prog a k len.toNat, 0 ≤ x ∧ x < n := by rw [← hh.eq_prog]; exact hh.inb
    by_cases hpos : k > 0
    · obtain ⟨a0, a1, b0, b1, c1, c2, _⟩ := hh.lo hpos
      by_cases hab : a < b
      · have := c1 hab; omega
      · have := c2 (by omega); omega
    · have hneg : k < 0 := by have := hh.step_ne; omega
      cases hm : len.toNat with
      | zero => have := hh.len_nonneg; omega
      | succ m' =>
        have hlen : len = (m' : Int) + 1 := by have := hh.len_nonneg; omega
        have hlast : a + (m' : Int) * k ∈ prog a k len.toNat := by
          rw [hm]; exact (C13.mem_prog_iff a k _ _).mpr ⟨m', by omega, rfl⟩
        have hb := hmem _ hlast
        have ha := hmem a (by rw [hm]; simp [prog])
        have hm'le : (m' : Int) ≤ -((m' : Int) * k) := by
          have : 0 ≤ (m' : Int) * (-k - 1) := Int.mul_nonneg (by omega) (by omega)
          rw [Int.mul_sub, Int.mul_neg, Int.mul_one] at this; omega
        omega

end GPy.C17
