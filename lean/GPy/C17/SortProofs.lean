/-
C17 sort proofs: Go's `insertionSort` driven by `Less` (model `sortStable`) against the specification's
stable merge sort (`specSort` = `List.mergeSort` with `leOf rev`), for ALL lists.

`leOf rev` is not transitive on all of `Val`, so the proofs go through a total preorder `SortP.leT rev`
(classes None < numbers < strings, then the numeric / string key) that agrees with `leOf rev` on any two
items of one class; `List.map_mergeSort` (with `id`) transports `mergeSort`.  Uniqueness of the sorted
stable permutation is proved through filters: stability fixes `r.filter p` for every predicate `p` whose
members are mutually `≤`, and two sorted permutations that agree on all such filters are equal.
Core Lean only.
-/
import GPy.C17.Spec

namespace GPy.C17
namespace SortP

def srk : Val → Nat
  | .none => 0
  | .str _ => 2
  | _ => 1

def numK (x : Val) : Int := x.num.getD 0

def strK : Val → String
  | .str s => s
  | _ => ""

def ltT (x y : Val) : Bool :=
  decide (srk x < srk y ∨ (srk x = srk y ∧ (numK x < numK y ∨ (numK x = numK y ∧ strK x < strK y))))

def leT (rev : Bool) (x y : Val) : Bool := !(if rev then ltT x y else ltT y x)

theorem ltT_asymm (a b : Val) : ltT a b = true → ltT b a = false := by
  unfold ltT
  simp only [decide_eq_true_eq, decide_eq_false_iff_not]
  intro h
  have hs : strK a < strK b → ¬ strK b < strK a := String.lt_asymm
  by_cases h1 : strK a < strK b <;> by_cases h2 : strK b < strK a <;> simp only [h1, h2, and_true, and_false, or_false] at h ⊢ <;> first | omega | exact absurd h2 (hs h1)

theorem ltT_negtrans (a b c : Val) : ltT b a = false → ltT c b = false → ltT c a = false := by
  unfold ltT
  simp only [decide_eq_false_iff_not]
  intro h1 h2
  have hs : ¬ strK b < strK a → ¬ strK c < strK b → ¬ strK c < strK a := by
    intro x y
    rw [String.not_lt] at *
    exact String.le_trans x y
  by_cases g1 : strK b < strK a <;> by_cases g2 : strK c < strK b <;> by_cases g3 : strK c < strK a <;>
    simp only [g1, g2, g3, and_true, and_false, or_false] at h1 h2 ⊢ <;> first | omega | exact absurd g3 (hs g1 g2)

theorem leT_trans (rev : Bool) (a b c : Val) : leT rev a b = true → leT rev b c = true → leT rev a c = true := by
  cases rev <;> simp only [leT, Bool.false_eq_true, if_false, if_true, Bool.not_eq_true'] <;> intro h1 h2
  · exact ltT_negtrans a b c h1 h2
  · exact ltT_negtrans c b a h2 h1

theorem leT_total (rev : Bool) (a b : Val) : (leT rev a b || leT rev b a) = true := by
  cases rev <;> simp only [leT, Bool.false_eq_true, if_false, if_true, Bool.or_eq_true, Bool.not_eq_true']
  · cases h : ltT b a
    · exact Or.inl rfl
    · exact Or.inr (ltT_asymm _ _ h)
  · cases h : ltT a b
    · exact Or.inl rfl
    · exact Or.inr (ltT_asymm _ _ h)

theorem leOf_eq_leT (rev : Bool) (x y : Val) (h : srk x = srk y) : leOf rev x y = leT rev x y := by
  cases x <;> cases y <;> simp [srk] at h <;> cases rev <;> simp [leOf, leT, ltT, pyLt, Val.num, srk, numK, strK]

/-! ### pure stable insertion (reversed accumulator), generic -/
section Pure
variable {α : Type} (le : α → α → Bool)

def insB (x : α) : List α → List α
  | [] => [x]
  | y :: ys => if le y x then x :: y :: ys else y :: insB x ys

theorem insB_perm (x : α) (l : List α) : (insB le x l).Perm (x :: l) := by
  induction l with
  | nil => exact List.Perm.refl _
  | cons y ys ih =>
    simp only [insB]
    split
    · exact List.Perm.refl _
    · exact (List.Perm.cons y ih).trans (List.Perm.swap x y ys)

theorem mem_insB {x b : α} {l : List α} : b ∈ insB le x l ↔ b = x ∨ b ∈ l := by
  rw [(insB_perm le x l).mem_iff, List.mem_cons]

theorem insB_sublist (x : α) (l : List α) : l.Sublist (insB le x l) := by
  induction l with
  | nil => exact List.nil_sublist _
  | cons y ys ih =>
    simp only [insB]
    split
    · exact List.sublist_cons_self _ _
    · exact ih.cons_cons y

theorem insB_sorted (trans : ∀ a b c, le a b = true → le b c = true → le a c = true)
    (total : ∀ a b, (le a b || le b a) = true) (x : α) (l : List α)
    (h : l.Pairwise (fun a b => le b a = true)) : (insB le x l).Pairwise (fun a b => le b a = true) := by
  induction l with
  | nil => simp [insB]
  | cons y ys ih =>
    simp only [insB]
    rw [List.pairwise_cons] at h
    split
    · rename_i hyx
      refine List.Pairwise.cons ?_ (List.Pairwise.cons h.1 h.2)
      intro b hb
      rcases List.mem_cons.1 hb with rfl | hb
      · exact hyx
      · exact trans _ _ _ (h.1 b hb) hyx
    · rename_i hyx
      refine List.Pairwise.cons ?_ (ih h.2)
      intro b hb
      rcases (mem_insB le).1 hb with rfl | hb
      · have := total b y
        simp only [Bool.or_eq_true] at this
        rcases this with t | t
        · exact t
        · exact absurd t hyx
      · exact h.1 b hb

theorem insB_stable (x : α) (l : List α) : ∀ c : List α, c.Sublist l → (∀ b ∈ c, le b x = true) →
    (x :: c).Sublist (insB le x l) := by
  induction l with
  | nil =>
    intro c hc _
    rw [List.sublist_nil.1 hc]
    exact List.Sublist.refl _
  | cons y ys ih =>
    intro c hc hle
    simp only [insB]
    split
    · exact hc.cons_cons x
    · rename_i hyx
      cases hc with
      | cons _ h => exact (ih c h hle).cons y
      | cons_cons _ h => exact absurd (hle y List.mem_cons_self) hyx

/-- the sorted arrangement, REVERSED, of the reversed input -/
def insT (l : List α) : List α := l.foldr (insB le) []

theorem insT_perm (l : List α) : (insT le l).Perm l := by
  induction l with
  | nil => exact List.Perm.refl _
  | cons x l ih => exact (insB_perm le x _).trans (ih.cons x)

theorem insT_sorted (trans : ∀ a b c, le a b = true → le b c = true → le a c = true)
    (total : ∀ a b, (le a b || le b a) = true) (l : List α) :
    (insT le l).Pairwise (fun a b => le b a = true) := by
  induction l with
  | nil => exact List.Pairwise.nil
  | cons x l ih => exact insB_sorted le trans total x _ ih

theorem insT_stable (l : List α) : ∀ c : List α, c.Sublist l → c.Pairwise (fun a b => le b a = true) →
    c.Sublist (insT le l) := by
  induction l with
  | nil => intro c hc _; rw [List.sublist_nil.1 hc]; exact List.Sublist.refl _
  | cons x l ih =>
    intro c hc hp
    show c.Sublist (insB le x (insT le l))
    cases hc with
    | cons _ h => exact (ih c h hp).trans (insB_sublist le x _)
    | cons_cons _ h =>
      rw [List.pairwise_cons] at hp
      exact insB_stable le x _ _ (ih _ h hp.2) hp.1

/-! ### uniqueness of the stable sorted arrangement -/

theorem filter_eq_of_stable {xs r : List α} (hp : r.Perm xs)
    (hst : ∀ c : List α, c.Sublist xs → c.Pairwise (fun a b => le a b = true) → c.Sublist r)
    (p : α → Bool) (hcl : ∀ a ∈ xs, ∀ b ∈ xs, p a = true → p b = true → le a b = true) :
    r.filter p = xs.filter p := by
  have hc2 : (xs.filter p).Pairwise (fun a b => le a b = true) :=
    List.pairwise_of_forall_mem_list (fun a ha b hb =>
      hcl a (List.mem_filter.1 ha).1 b (List.mem_filter.1 hb).1 (List.mem_filter.1 ha).2 (List.mem_filter.1 hb).2)
  have h3 := (hst _ List.filter_sublist hc2).filter p
  rw [List.filter_filter] at h3
  simp only [Bool.and_self] at h3
  exact (h3.eq_of_length (hp.filter p).length_eq.symm).symm

theorem eq_of_filters [DecidableEq α] : ∀ (r r' : List α), r.Perm r' →
    r.Pairwise (fun a b => le a b = true) → r'.Pairwise (fun a b => le a b = true) →
    (∀ a ∈ r, le a a = true) →
    (∀ p : α → Bool, (∀ a ∈ r, ∀ b ∈ r, p a = true → p b = true → le a b = true) → r.filter p = r'.filter p) →
    r = r' := by
  intro r
  induction r with
  | nil => intro r' hp _ _ _ _; exact hp.nil_eq
  | cons a r1 ih =>
    intro r' hp hs hs' hrefl H
    cases r' with
    | nil => exact absurd hp.eq_nil (List.cons_ne_nil _ _)
    | cons a' r1' =>
      rw [List.pairwise_cons] at hs hs'
      have haa : le a a = true := hrefl a List.mem_cons_self
      have ha'm : a' ∈ a :: r1 := hp.mem_iff.2 List.mem_cons_self
      have ham : a ∈ a' :: r1' := hp.mem_iff.1 List.mem_cons_self
      have ha'a' : le a' a' = true := hrefl a' ha'm
      have haa' : le a a' = true := by
        rcases List.mem_cons.1 ha'm with h | h
        · rw [h]; exact haa
        · exact hs.1 a' h
      have ha'a : le a' a = true := by
        rcases List.mem_cons.1 ham with h | h
        · rw [h]; exact ha'a'
        · exact hs'.1 a h
      have hhead : a = a' := by
        have := H (fun x => decide (x = a ∨ x = a')) (by
          intro x _ y _ hx hy
          simp only [decide_eq_true_eq] at hx hy
          rcases hx with rfl | rfl <;> rcases hy with rfl | rfl <;> assumption)
        simp at this
        exact this.1
      subst hhead
      have hp1 : r1.Perm r1' := hp.cons_inv
      congr 1
      refine ih r1' hp1 hs.2 hs'.2 (fun x hx => hrefl x (List.mem_cons_of_mem _ hx)) ?_
      intro p hcl
      by_cases hpa : p a = true
      · by_cases hmem : a ∈ r1
        · have hsub : ∀ x ∈ a :: r1, x ∈ r1 := by
            intro x hx
            rcases List.mem_cons.1 hx with rfl | h
            · exact hmem
            · exact h
          have := H p (fun x hx y hy => hcl x (hsub x hx) y (hsub y hy))
          simp only [List.filter_cons, hpa, if_true] at this
          exact (List.cons.inj this).2
        · have hmem' : a ∉ r1' := fun h => hmem (hp1.mem_iff.2 h)
          have := H (fun x => p x && !decide (x = a)) (by
            intro x hx y hy hpx hpy
            simp only [Bool.and_eq_true, Bool.not_eq_true', decide_eq_false_iff_not] at hpx hpy
            refine hcl x ?_ y ?_ hpx.1 hpy.1
            · exact (List.mem_cons.1 hx).resolve_left hpx.2
            · exact (List.mem_cons.1 hy).resolve_left hpy.2)
          simp only [List.filter_cons, decide_true, Bool.not_true, Bool.and_false, Bool.false_eq_true, if_false] at this
          have e1 : r1.filter (fun x => p x && !decide (x = a)) = r1.filter p := by
            apply List.filter_congr
            intro x hx
            have : x ≠ a := fun h => hmem (h ▸ hx)
            simp [this]
          have e2 : r1'.filter (fun x => p x && !decide (x = a)) = r1'.filter p := by
            apply List.filter_congr
            intro x hx
            have : x ≠ a := fun h => hmem' (h ▸ hx)
            simp [this]
          rw [e1, e2] at this
          exact this
      · have := H p (by
          intro x hx y hy hpx hpy
          refine hcl x ?_ y ?_ hpx hpy
          · exact (List.mem_cons.1 hx).resolve_left (fun h => hpa (h ▸ hpx))
          · exact (List.mem_cons.1 hy).resolve_left (fun h => hpa (h ▸ hpy)))
        simp only [List.filter_cons, hpa] at this
        exact this

end Pure

/-! ### link with the Go model -/

def isBoolV : Val → Bool := fun x => match x with | .bool _ => true | _ => false

theorem insertBack_perm' (rev : Bool) (x : Val) (ys : List Val) :
    (insertBack rev x ys).1.Perm (x :: ys) := by
  induction ys with
  | nil => exact List.Perm.refl _
  | cons y ys ih =>
    simp only [insertBack]
    split
    · exact (List.Perm.cons y ih).trans (List.Perm.swap x y ys)
    · exact List.Perm.refl _

/-- the comparison `Less` makes between `x` and `y` is defined (same non-None class, not two bools) -/
def cmpOK (x y : Val) : Prop := srk x = srk y ∧ srk x ≠ 0 ∧ (isBoolV x = false ∨ isBoolV y = false)

theorem cmpOK_symm {x y : Val} (h : cmpOK x y) : cmpOK y x :=
  ⟨h.1.symm, h.1 ▸ h.2.1, h.2.2.symm⟩

theorem lessOf_of_cmpOK (rev : Bool) (x y : Val) (h : cmpOK x y) :
    lessOf rev x y = (!leT rev y x, false) := by
  rw [← leOf_eq_leT rev y x h.1.symm]
  obtain ⟨h1, h2, h3⟩ := h
  cases x <;> cases y <;> simp [srk, isBoolV] at h1 h2 h3 <;> cases rev <;>
    simp [lessOf, goLt, leOf, pyLt, Val.num]

theorem insertBack_eq (rev : Bool) (x : Val) (acc : List Val) (h : ∀ y ∈ acc, cmpOK x y) :
    insertBack rev x acc = (insB (leT rev) x acc, false) := by
  induction acc with
  | nil => rfl
  | cons y ys ih =>
    simp only [insertBack, insB, lessOf_of_cmpOK rev x y (h y List.mem_cons_self),
      ih (fun z hz => h z (List.mem_cons_of_mem _ hz))]
    cases leT rev y x <;> simp

theorem insSortAux_eq (rev : Bool) (xs : List Val) : ∀ (acc : List Val) (e : Bool),
    xs.Pairwise cmpOK → (∀ x ∈ xs, ∀ y ∈ acc, cmpOK x y) →
    insSortAux rev acc xs e = ((xs.foldl (fun a x => insB (leT rev) x a) acc).reverse, e) := by
  induction xs with
  | nil => intro acc e _ _; rfl
  | cons x xs ih =>
    intro acc e hp hxa
    rw [List.pairwise_cons] at hp
    simp only [insSortAux, insertBack_eq rev x acc (hxa x List.mem_cons_self), List.foldl_cons,
      Bool.or_false]
    apply ih _ _ hp.2
    intro x' hx' y hy
    rcases (mem_insB _).1 hy with rfl | hy
    · exact cmpOK_symm (hp.1 x' hx')
    · exact hxa x' (List.mem_cons_of_mem _ hx') y hy

theorem sortStable_eq_T (rev : Bool) (xs : List Val) (hp : xs.Pairwise cmpOK) :
    sortStable rev xs = ((insT (leT rev) xs.reverse).reverse, false) := by
  unfold sortStable
  rw [insSortAux_eq rev xs [] false hp (fun _ _ _ h => absurd h List.not_mem_nil)]
  simp only [insT, List.foldr_reverse]

theorem twoBools_cons {x : Val} {xs : List Val} (h : twoBools (x :: xs) = false) :
    twoBools xs = false ∧ (isBoolV x = true → ∀ y ∈ xs, isBoolV y = false) := by
  have e : ∀ l, twoBools l = decide ((l.filter isBoolV).length ≥ 2) := fun _ => rfl
  rw [e] at h
  rw [e]
  simp only [List.filter_cons, decide_eq_false_iff_not] at h ⊢
  constructor
  · split at h <;> (try simp only [List.length_cons] at h) <;> omega
  · intro hx y hy
    rw [if_pos hx] at h
    simp only [List.length_cons] at h
    have : (xs.filter isBoolV).length = 0 := by omega
    have := List.length_eq_zero_iff.1 this
    rw [List.filter_eq_nil_iff] at this
    simpa using this y hy

theorem pairwise_cmpOK_of_rk (k : Nat) (hk : k ≠ 0) (xs : List Val) (h : ∀ x ∈ xs, srk x = k)
    (hb : twoBools xs = false) : xs.Pairwise cmpOK := by
  induction xs with
  | nil => exact List.Pairwise.nil
  | cons x xs ih =>
    obtain ⟨hb1, hb2⟩ := twoBools_cons hb
    refine List.Pairwise.cons ?_ (ih (fun y hy => h y (List.mem_cons_of_mem _ hy)) hb1)
    intro b hbm
    refine ⟨(h x List.mem_cons_self).trans (h b (List.mem_cons_of_mem _ hbm)).symm, ?_, ?_⟩
    · rw [h x List.mem_cons_self]; exact hk
    · cases hx : isBoolV x
      · exact Or.inl rfl
      · exact Or.inr (hb2 hx b hbm)

theorem sortable_cases {xs : List Val} (hs : sortable xs = true) :
    xs.length < 2 ∨ (∀ x ∈ xs, srk x = 1) ∨ (∀ x ∈ xs, srk x = 2) := by
  unfold sortable at hs
  simp only [Bool.or_eq_true, decide_eq_true_eq, List.all_eq_true] at hs
  rcases hs with (h | h) | h
  · exact Or.inl h
  · refine Or.inr (Or.inl ?_)
    intro x hx
    have := h x hx
    cases x <;> simp [Val.num, srk] at this ⊢
  · refine Or.inr (Or.inr ?_)
    intro x hx
    have := h x hx
    cases x <;> simp [srk] at this ⊢

theorem sortable_rk {xs : List Val} (hs : sortable xs = true) : ∀ a ∈ xs, ∀ b ∈ xs, srk a = srk b := by
  rcases sortable_cases hs with h | h | h
  · match xs, h with
    | [], _ => intro a ha; exact absurd ha List.not_mem_nil
    | [x], _ =>
      intro a ha b hb
      rw [List.mem_singleton.1 ha, List.mem_singleton.1 hb]
    | _ :: _ :: _, h => exact absurd h (by simp only [List.length_cons]; omega)
  · intro a ha b hb; rw [h a ha, h b hb]
  · intro a ha b hb; rw [h a ha, h b hb]

theorem pairwise_cmpOK {xs : List Val} (hs : sortable xs = true) (hb : twoBools xs = false) :
    xs.Pairwise cmpOK := by
  rcases sortable_cases hs with h | h | h
  · match xs, h with
    | [], _ => exact List.Pairwise.nil
    | [x], _ => exact List.pairwise_singleton _ _
    | _ :: _ :: _, h => exact absurd h (by simp only [List.length_cons]; omega)
  · exact pairwise_cmpOK_of_rk 1 (by decide) xs h hb
  · exact pairwise_cmpOK_of_rk 2 (by decide) xs h hb

theorem leOf_eq_leT_on {xs : List Val} (hs : sortable xs = true) (rev : Bool) :
    ∀ a ∈ xs, ∀ b ∈ xs, leOf rev a b = leT rev a b :=
  fun a ha b hb => leOf_eq_leT rev a b (sortable_rk hs a ha b hb)

theorem specSort_eq_leT (rev : Bool) (xs : List Val) (hs : sortable xs = true) :
    specSort rev xs = xs.mergeSort (leT rev) := by
  have := List.map_mergeSort (f := id) (r := leOf rev) (s := leT rev) (l := xs) (leOf_eq_leT_on hs rev)
  simpa [specSort] using this

theorem pairwise_leOf_iff {xs c : List Val} (hs : sortable xs = true) (rev : Bool) (hc : ∀ a ∈ c, a ∈ xs) :
    c.Pairwise (fun a b => leOf rev a b = true) ↔ c.Pairwise (fun a b => leT rev a b = true) := by
  constructor
  · exact List.Pairwise.imp_of_mem (fun ha hb h => by
      rw [← leOf_eq_leT_on hs rev _ (hc _ ha) _ (hc _ hb)]; exact h)
  · exact List.Pairwise.imp_of_mem (fun ha hb h => by
      rw [leOf_eq_leT_on hs rev _ (hc _ ha) _ (hc _ hb)]; exact h)

/-! ### part (C): an unsortable list makes some comparison fail -/

theorem insSortAux_err_sticky (rev : Bool) (xs : List Val) : ∀ (acc : List Val) (e : Bool),
    (insSortAux rev acc xs e).2 = false → e = false := by
  induction xs with
  | nil => intro acc e h; exact h
  | cons x xs ih =>
    intro acc e h
    simp only [insSortAux] at h
    have := ih _ _ h
    simp only [Bool.or_eq_false_iff] at this
    exact this.1

theorem lessOf_ok_rk (rev : Bool) (x y : Val) (h : (lessOf rev x y).2 = false) :
    srk x = srk y ∧ srk x ≠ 0 := by
  cases x <;> cases y <;> cases rev <;> simp [lessOf, goLt, pyLt, Val.num, srk] at h ⊢

theorem insertBack_ok_head (rev : Bool) (x y : Val) (ys : List Val)
    (h : (insertBack rev x (y :: ys)).2 = false) : (lessOf rev x y).2 = false := by
  simp only [insertBack] at h
  split at h
  · simp only [Bool.or_eq_false_iff] at h; exact h.1
  · exact h

theorem insSortAux_ok_rk (rev : Bool) (k : Nat) (xs : List Val) : ∀ (acc : List Val) (e : Bool),
    acc ≠ [] → (∀ y ∈ acc, srk y = k) → (insSortAux rev acc xs e).2 = false →
    ∀ x ∈ xs, srk x = k ∧ k ≠ 0 := by
  induction xs with
  | nil => intro acc e _ _ _ x hx; exact absurd hx List.not_mem_nil
  | cons x xs ih =>
    intro acc e hne hk h
    simp only [insSortAux] at h
    have he := insSortAux_err_sticky rev xs _ _ h
    simp only [Bool.or_eq_false_iff] at he
    cases acc with
    | nil => exact absurd rfl hne
    | cons y ys =>
      have hxy := lessOf_ok_rk rev x y (insertBack_ok_head rev x y ys he.2)
      have hyk := hk y List.mem_cons_self
      have hxk : srk x = k := hxy.1.trans hyk
      have hperm := insertBack_perm' rev x (y :: ys)
      have hne' : (insertBack rev x (y :: ys)).1 ≠ [] := by
        intro h0
        have := hperm.length_eq
        rw [h0] at this
        simp at this
      have hk' : ∀ z ∈ (insertBack rev x (y :: ys)).1, srk z = k := by
        intro z hz
        rcases List.mem_cons.1 (hperm.mem_iff.1 hz) with rfl | hz
        · exact hxk
        · exact hk z hz
      have := ih _ _ hne' hk' h
      intro z hz
      rcases List.mem_cons.1 hz with rfl | hz
      · exact ⟨hxk, hxk ▸ hxy.2⟩
      · exact this z hz

end SortP

open SortP

/-! ### the deliverables -/

/-- (A) when every comparison is defined (all numbers or all strings, at most one bool) Go's
insertion sort records no error -/
theorem sortStable_noerr (rev : Bool) (xs : List Val) (hs : sortable xs = true)
    (hb : twoBools xs = false) : (sortStable rev xs).2 = false := by
  rw [sortStable_eq_T rev xs (pairwise_cmpOK hs hb)]

/-- (D) the result of Go's insertion sort is sorted by `leOf rev`, a permutation of the input, and
stable in the strong form: every sorted sublist of the input is still a sublist of the result -/
theorem sort_sorted_perm_stable (rev : Bool) (xs : List Val) (hs : sortable xs = true)
    (hb : twoBools xs = false) :
    ((sortStable rev xs).1).Pairwise (fun a b => leOf rev a b = true) ∧
    (sortStable rev xs).1.Perm xs ∧
    (∀ c : List Val, c.Sublist xs → c.Pairwise (fun a b => leOf rev a b = true) →
      c.Sublist (sortStable rev xs).1) := by
  rw [sortStable_eq_T rev xs (pairwise_cmpOK hs hb)]
  have hperm : (insT (leT rev) xs.reverse).reverse.Perm xs :=
    (List.reverse_perm _).trans ((insT_perm (leT rev) xs.reverse).trans (List.reverse_perm xs))
  refine ⟨?_, hperm, ?_⟩
  · rw [pairwise_leOf_iff hs rev (fun a ha => hperm.mem_iff.1 ha), List.pairwise_reverse]
    exact insT_sorted (leT rev) (leT_trans rev) (leT_total rev) xs.reverse
  · intro c hc hp
    rw [pairwise_leOf_iff hs rev (fun a ha => hc.subset ha)] at hp
    have h1 : c.reverse.Sublist xs.reverse := List.reverse_sublist.2 hc
    have h2 : c.reverse.Pairwise (fun a b => leT rev b a = true) := List.pairwise_reverse.2 hp
    have := insT_stable (leT rev) xs.reverse c.reverse h1 h2
    exact List.reverse_sublist.1 (by simpa using this)

set_option linter.unusedVariables false in
/-- (E) ANY sorted, stable permutation of a sortable list is the specification's merge sort -/
theorem stable_sort_unique (rev : Bool) (xs r : List Val) (hs : sortable xs = true)
    (hb : twoBools xs = false) (hp : r.Perm xs)
    (hsorted : r.Pairwise (fun a b => leOf rev a b = true))
    (hstable : ∀ c : List Val, c.Sublist xs → c.Pairwise (fun a b => leOf rev a b = true) → c.Sublist r) :
    r = specSort rev xs := by
  rw [specSort_eq_leT rev xs hs]
  have htot := leT_total rev
  have htr := leT_trans rev
  have hmp : (xs.mergeSort (leT rev)).Perm xs := List.mergeSort_perm xs (leT rev)
  have hrs : r.Pairwise (fun a b => leT rev a b = true) :=
    (pairwise_leOf_iff hs rev (fun a ha => hp.mem_iff.1 ha)).1 hsorted
  have hstable' : ∀ c : List Val, c.Sublist xs → c.Pairwise (fun a b => leT rev a b = true) → c.Sublist r :=
    fun c hc hcp => hstable c hc ((pairwise_leOf_iff hs rev (fun a ha => hc.subset ha)).2 hcp)
  refine eq_of_filters (leT rev) r _ (hp.trans hmp.symm) hrs
    (List.pairwise_mergeSort htr htot xs) (fun a _ => by simpa using htot a a) ?_
  intro p hcl
  have hcl' : ∀ a ∈ xs, ∀ b ∈ xs, p a = true → p b = true → leT rev a b = true :=
    fun a ha b hb' => hcl a (hp.mem_iff.2 ha) b (hp.mem_iff.2 hb')
  rw [filter_eq_of_stable (leT rev) hp hstable' p hcl',
    filter_eq_of_stable (leT rev) hmp (fun c hc hcp => List.sublist_mergeSort htr htot hcp hc) p hcl']

/-- (B) Go's insertion sort driven by `Less` equals the specification's stable merge sort whenever
every comparison is defined -/
theorem sortStable_eq_specSort (rev : Bool) (xs : List Val) (hs : sortable xs = true)
    (hb : twoBools xs = false) : (sortStable rev xs).1 = specSort rev xs := by
  obtain ⟨h1, h2, h3⟩ := sort_sorted_perm_stable rev xs hs hb
  exact stable_sort_unique rev xs _ hs hb h2 h1 h3

/-- (C) a list that is not sortable as a whole makes some comparison of the insertion sort fail -/
theorem sortStable_err_of_not_sortable (rev : Bool) (xs : List Val) (hs : sortable xs = false) :
    (sortStable rev xs).2 = true := by
  cases hres : (sortStable rev xs).2 with
  | true => rfl
  | false =>
    exfalso
    match xs, hs, hres with
    | [], hs, _ => simp [sortable] at hs
    | [_], hs, _ => simp [sortable] at hs
    | x :: y :: rest, hs, hres =>
      have h0 : sortStable rev (x :: y :: rest) = insSortAux rev [x] (y :: rest) false := rfl
      rw [h0] at hres
      have hall := insSortAux_ok_rk rev (srk x) (y :: rest) [x] false (List.cons_ne_nil _ _)
        (fun z hz => by rw [List.mem_singleton.1 hz]) hres
      have hk : srk x ≠ 0 := (hall y List.mem_cons_self).2
      have hall' : ∀ z ∈ x :: y :: rest, srk z = srk x := by
        intro z hz
        rcases List.mem_cons.1 hz with rfl | hz
        · rfl
        · exact (hall z hz).1
      have : sortable (x :: y :: rest) = true := by
        unfold sortable
        simp only [Bool.or_eq_true, List.all_eq_true]
        have hx12 : srk x = 1 ∨ srk x = 2 := by
          cases x <;> simp [srk] at hk ⊢
        rcases hx12 with h | h
        · refine Or.inl (Or.inr ?_)
          intro z hz
          have := (hall' z hz).trans h
          cases z <;> simp [srk, Val.num] at this ⊢
        · refine Or.inr ?_
          intro z hz
          have := (hall' z hz).trans h
          cases z <;> simp [srk] at this ⊢
      rw [this] at hs
      cases hs

/-- non-vacuity: the hypotheses of (A)/(B)/(D) hold for a mixed int/bool/float list -/
example : sortable [.int 2, .bool true, .float 3] = true ∧ twoBools [.int 2, .bool true, .float 3] = false := by
  decide

example : (sortStable false [.int 2, .bool true, .float 3]).1 = [.bool true, .float 3, .int 2] := by decide

end GPy.C17
