/-
C17 specification: Python's containers as a heap of VALUES – a list is the `List Val` of its items,
a dict a finite map from strings, a set a finite collection up to Python equality (`1 == True == 1.0`
is ONE member, the first inserted is kept); names alias by object identity; a list iterator indexes
the LIVE list and stays exhausted; a dict/set iterator raises RuntimeError once the container's
size differs from the size when the iterator was made.  No arrays, no capacities.
Slice positions come from C13's SPECIFICATION (`C13.specSliceIdx`, Python's slice semantics on ℤ).
Also the known-finding predicates and the abstraction `abs : MHeap → SHeap`.
-/
import GPy.C17.Model
import GPy.C13.Spec
namespace GPy.C17

inductive SSeq where
  | snap (xs : List Val) (origin : Option (Nat × Nat))   -- dict/set iterator: remaining order fixed at creation
  | live (id : Nat)                                      -- list iterator
deriving DecidableEq, Repr, Inhabited

inductive SObj where
  | list (xs : List Val)
  | dict (m : List (String × Val))
  | set (xs : List Val)
  | iter (pos : Nat) (seq : SSeq)
deriving DecidableEq, Repr, Inhabited

structure SHeap where
  objs : List SObj
  vars : List Nat
deriving Repr, Inhabited, DecidableEq

def SHeap.obj (h : SHeap) (v : Nat) : Option SObj := h.objs[h.vars.getD v 0]?
def SHeap.id (h : SHeap) (v : Nat) : Nat := h.vars.getD v 0
def SHeap.alloc (h : SHeap) (o : SObj) : SHeap × Nat := ({ h with objs := h.objs ++ [o] }, h.objs.length)
def SHeap.bind (h : SHeap) (v : Nat) (id : Nat) : SHeap := { h with vars := h.vars.set v id }
def SHeap.setObj (h : SHeap) (id : Nat) (o : SObj) : SHeap := { h with objs := h.objs.set id o }
/-- bind `v` to a NEW object -/
def SHeap.new (h : SHeap) (v : Nat) (o : SObj) : SHeap := let (h, id) := h.alloc o; h.bind v id

/-! ### abstraction -/

def absSeq : ISeq → SSeq
  | .tuple xs o => .snap xs o
  | .obj id => .live id

def absObj (arrs : Arrs) : MObj → SObj
  | .list hd => .list (readHdr arrs hd)
  | .dict m => .dict m
  | .set ks => .set ks
  | .iter pos seq => .iter pos (absSeq seq)

/-- the abstraction function of the refinement: forget arrays, offsets and capacities -/
def abs (h : MHeap) : SHeap := ⟨h.objs.map (absObj h.arrs), h.vars⟩

/-! ### Python list semantics -/

def normIndex (n : Nat) (i : Int) : Except Err Nat :=
  let j := if i < 0 then i + n else i
  if 0 ≤ j ∧ j < n then .ok j.toNat else .error .index

def pick (xs : List Val) (idxs : List Int) : List Val := idxs.map (fun i => xs.getD i.toNat .none)

def assignAt : List Val → List Int → List Val → List Val
  | xs, i :: is, v :: vs => assignAt (xs.set i.toNat v) is vs
  | xs, _, _ => xs

def removeFrom : List Val → Int → List Int → List Val
  | [], _, _ => []
  | x :: xs, p, idxs => if idxs.contains p then removeFrom xs (p + 1) idxs else x :: removeFrom xs (p + 1) idxs

def specErr : C13.Err → Err
  | .index => .index | .value => .value | .type => .type | _ => .panic

/-- the positions `[lo:hi:st]` selects, and whether the slice is a simple one (step 1) -/
def slicePos (n : Nat) (lo hi st : Option Int) : Except Err (List Int × Bool) :=
  match C13.specSliceIdx n ⟨toIdx lo, toIdx hi, toIdx st⟩ with
  | .ok idxs => .ok (idxs, st.getD 1 == 1)
  | .error e => .error (specErr e)

/-- `xs[lo:hi] = vs` for a simple slice: the selected run (possibly empty, then at the clamped
`lo`) is replaced -/
def replaceRun (xs : List Val) (n : Nat) (lo hi : Option Int) (vs : List Val) : List Val :=
  let a := C13.specBound n false lo 0
  let b := max a (C13.specBound n false hi n)
  xs.take a.toNat ++ vs ++ xs.drop b.toNat

def specSetSlice (xs : List Val) (lo hi st : Option Int) (vs : Except Err (List Val)) : Except Err (List Val) :=
  match slicePos xs.length lo hi st with
  | .error e => .error e
  | .ok (idxs, simple) =>
    match vs with
    | .error e => .error e
    | .ok vs =>
      if simple then .ok (replaceRun xs xs.length lo hi vs)
      else if vs.length ≠ idxs.length then .error .value
      else .ok (assignAt xs idxs vs)

def specDelSlice (xs : List Val) (lo hi st : Option Int) : Except Err (List Val) :=
  match slicePos xs.length lo hi st with
  | .error e => .error e
  | .ok (idxs, _) => .ok (removeFrom xs 0 idxs)

/-- comparable as a whole (every `<` the sort may need is defined): all numbers or all strings,
or fewer than two items -/
def sortable (xs : List Val) : Bool :=
  xs.length < 2 || xs.all (fun x => x.num.isSome) || xs.all (fun x => match x with | .str _ => true | _ => false)

/-- Python's `list.sort(reverse=rev)`: the stable arrangement by `<` (for `reverse` the stable
arrangement by `>`: equal items keep their original order) -/
def leOf (rev : Bool) (x y : Val) : Bool :=
  !((if rev then pyLt x y else pyLt y x).getD false)

def specSort (rev : Bool) (xs : List Val) : List Val := xs.mergeSort (leOf rev)

/-- `list.insert(i, x)`: negative indices count from the end, then the position is clamped to `[0, n]` -/
def specInsert (xs : List Val) (i : Int) (x : Val) : List Val :=
  let n : Int := xs.length
  let j := if i < 0 then max 0 (i + n) else min i n
  xs.take j.toNat ++ [x] ++ xs.drop j.toNat

/-- `list.remove(x)`: the first item equal to `x` goes; `none` when there is no such item -/
def removeFirst (x : Val) : List Val → Option (List Val)
  | [] => Option.none
  | y :: ys => if pyEq y x then some ys else (removeFirst x ys).map (y :: ·)

/-! ### Python set semantics: membership is `==` -/

def setAdd := setAddBy pyEq
def setOfList := setOfListBy pyEq
def specSetBin := setBinBy pyEq

/-- Python `set.__eq__`: mutual inclusion under `==` -/
def specSetEq (a b : List Val) : Bool := a.all (memBy pyEq b) && b.all (memBy pyEq a)

def specDictEq (a b : List (String × Val)) : Bool :=
  a.all (fun p => match dictGet b p.1 with | some y => pyEq p.2 y | Option.none => false) &&
  b.all (fun p => (dictGet a p.1).isSome)

/-! ### iterators -/

def SHeap.sizeOf (h : SHeap) (id : Nat) : Option Nat :=
  match h.objs[id]? with
  | some (.dict m) => some m.length
  | some (.set xs) => some xs.length
  | _ => Option.none

def specNext (h : SHeap) (pos : Nat) (seq : SSeq) : Except Err Val × SObj :=
  match seq with
  | .snap xs o =>
    let changed := match o with
      | some (id, n) => h.sizeOf id != some n
      | Option.none => false
    if changed then (.error .runtime, .iter pos (.snap xs o))
    else if pos ≥ xs.length then (.error .stopIter, .iter pos (.snap xs o))
    else (.ok (xs.getD pos .none), .iter (pos + 1) (.snap xs o))
  | .live id =>
    match h.objs[id]? with
    | some (.list xs) =>
      if pos < xs.length then (.ok (xs.getD pos .none), .iter (pos + 1) (.live id))
      else (.error .stopIter, .iter 0 (.snap [] Option.none))      -- exhausted for good
    | _ => (.error .type, .iter pos (.live id))

def specDrain (h : SHeap) : Nat → Nat → SSeq → List Val × SObj
  | 0, pos, seq => ([], .iter pos seq)
  | fuel + 1, pos, seq =>
    match specNext h pos seq with
    | (.ok x, .iter p s) => let (r, o) := specDrain h fuel p s; (x :: r, o)
    | (_, o) => ([], o)

def specFuel (h : SHeap) (seq : SSeq) : Nat :=
  match seq with
  | .snap xs _ => xs.length + 1
  | .live id => match h.objs[id]? with | some (.list xs) => xs.length + 1 | _ => 1

/-- `for x in v: if len(v) < bound: v.append(x)` on the live list -/
def specForAppend (bound : Nat) : Nat → Nat → List Val → List Val
  | 0, _, xs => xs
  | fuel + 1, pos, xs =>
    if pos < xs.length then
      if xs.length < bound then specForAppend bound fuel (pos + 1) (xs ++ [xs.getD pos .none])
      else specForAppend bound fuel (pos + 1) xs
    else xs

/-! ### the specification's step.  `perm rev xs` resolves the one point Python leaves open: the
arrangement of a list after a sort that FAILED (some permutation of the items). -/

def specStep (perm : Bool → List Val → List Val) (h : SHeap) (op : Op) : SHeap × Res :=
  let updList (v : Nat) (f : List Val → Except Err (List Val)) : SHeap × Res :=
    match h.obj v with
    | some (.list xs) =>
      match f xs with
      | .ok ys => (h.setObj (h.id v) (.list ys), .ok)
      | .error e => (h, .err e)
    | _ => (h, .stuck)
  match op with
  | .alias v w => (h.bind v (h.id w), .ok)
  | .lNew v xs => (h.new v (.list xs), .ok)
  | .lCopy v w | .lSliceCopy v w | .lComp v w =>
    match h.obj w with
    | some (.list xs) => (h.new v (.list xs), .ok)
    | _ => (h, .stuck)
  | .lOfSrc v s =>
    match s.items with
    | .ok xs => (h.new v (.list xs), .ok)
    | .error e => (h, .err e)
  | .lOfIter v t =>
    match h.obj t with
    | some (.iter pos seq) =>
      let (xs, it) := specDrain h (specFuel h seq) pos seq
      ((h.setObj (h.id t) it).new v (.list xs), .ok)
    | _ => (h, .stuck)
  | .lAppend v x => updList v (fun xs => .ok (xs ++ [x]))
  | .lExtend v w | .lIAdd v w =>
    match h.obj w with
    | some (.list ys) => updList v (fun xs => .ok (xs ++ ys))
    | _ => (h, .stuck)
  | .lExtendSrc v s | .lIAddSrc v s => updList v (fun xs => match s.items with | .ok ys => .ok (xs ++ ys) | .error e => .error e)
  | .lExtendIter v t =>
    match h.obj v, h.obj t with
    | some (.list xs), some (.iter pos seq) =>
      let (ys, it) := specDrain h (specFuel h seq) pos seq
      ((h.setObj (h.id t) it).setObj (h.id v) (.list (xs ++ ys)), .ok)
    | _, _ => (h, .stuck)
  | .lAdd u v w =>
    match h.obj v, h.obj w with
    | some (.list xs), some (.list ys) => (h.new u (.list (xs ++ ys)), .ok)
    | _, _ => (h, .stuck)
  | .lMul u v n =>
    match h.obj v with
    | some (.list xs) => (h.new u (.list (repeatItems xs n)), .ok)
    | _ => (h, .stuck)
  | .lIMul v n => updList v (fun xs => .ok (repeatItems xs n))
  | .lSetItem v i x => updList v (fun xs => match normIndex xs.length i with | .ok k => .ok (xs.set k x) | .error e => .error e)
  | .lDelItem v i => updList v (fun xs => match normIndex xs.length i with | .ok k => .ok (xs.eraseIdx k) | .error e => .error e)
  | .lGetItem v i =>
    match h.obj v with
    | some (.list xs) => (h, match normIndex xs.length i with | .ok k => .val (xs.getD k .none) | .error e => .err e)
    | _ => (h, .stuck)
  | .lGetSlice u v lo hi st =>
    match h.obj v with
    | some (.list xs) =>
      match slicePos xs.length lo hi st with
      | .ok (idxs, _) => (h.new u (.list (pick xs idxs)), .ok)
      | .error e => (h, .err e)
    | _ => (h, .stuck)
  | .lSetSlice v lo hi st w =>
    match h.obj w with
    | some (.list ys) => updList v (fun xs => specSetSlice xs lo hi st (.ok ys))
    | _ => (h, .stuck)
  | .lSetSliceSrc v lo hi st s => updList v (fun xs => specSetSlice xs lo hi st s.items)
  | .lDelSlice v lo hi st => updList v (fun xs => specDelSlice xs lo hi st)
  | .lSort v rev =>
    match h.obj v with
    | some (.list xs) =>
      if sortable xs then (h.setObj (h.id v) (.list (specSort rev xs)), .ok)
      else (h.setObj (h.id v) (.list (perm rev xs)), .err .type)
    | _ => (h, .stuck)
  | .lForAppend v bound => updList v (fun xs => .ok (specForAppend bound (bound + xs.length + 1) 0 xs))
  | .lInsert v i x => updList v (fun xs => .ok (specInsert xs i x))
  | .lPop v i =>
    match h.obj v with
    | some (.list xs) =>
      if xs = [] then (h, .err .index)
      else match normIndex xs.length (i.getD (-1)) with
        | .ok k => (h.setObj (h.id v) (.list (xs.eraseIdx k)), .val (xs.getD k .none))
        | .error e => (h, .err e)
    | _ => (h, .stuck)
  | .lRemove v x => updList v (fun xs => match removeFirst x xs with | some ys => .ok ys | Option.none => .error .value)
  | .lReverse v => updList v (fun xs => .ok xs.reverse)
  | .lClear v => updList v (fun _ => .ok [])
  | .lCopyM u v =>
    match h.obj v with
    | some (.list xs) => (h.new u (.list xs), .ok)
    | _ => (h, .stuck)
  | .len v =>
    match h.obj v with
    | some (.list xs) => (h, .val (.int xs.length))
    | some (.dict m) => (h, .val (.int m.length))
    | some (.set xs) => (h, .val (.int xs.length))
    | _ => (h, .stuck)
  | .eq v w =>
    match h.obj v, h.obj w with
    | some (.list a), some (.list b) => (h, .val (.bool (listEq a b)))
    | some (.dict a), some (.dict b) => (h, .val (.bool (specDictEq a b)))
    | some (.set a), some (.set b) => (h, .val (.bool (specSetEq a b)))
    | _, _ => (h, .stuck)
  | .ne v w =>
    match h.obj v, h.obj w with
    | some (.list a), some (.list b) => (h, .val (.bool (!listEq a b)))
    | some (.dict a), some (.dict b) => (h, .val (.bool (!specDictEq a b)))
    | some (.set a), some (.set b) => (h, .val (.bool (!specSetEq a b)))
    | _, _ => (h, .stuck)
  | .contains v x =>
    match h.obj v with
    | some (.list xs) => (h, .val (.bool (memBy pyEq xs x)))
    | some (.set xs) => (h, .val (.bool (memBy pyEq xs x)))
    | _ => (h, .stuck)
  | .iter t v =>
    match h.obj v with
    | some (.list _) => (h.new t (.iter 0 (.live (h.id v))), .ok)
    | some (.dict m) => (h.new t (.iter 0 (.snap (m.map (fun p => Val.str p.1)) (some (h.id v, m.length)))), .ok)
    | some (.set xs) => (h.new t (.iter 0 (.snap xs (some (h.id v, xs.length)))), .ok)
    | _ => (h, .stuck)
  | .next t =>
    match h.obj t with
    | some (.iter pos seq) =>
      match specNext h pos seq with
      | (.ok x, it) => (h.setObj (h.id t) it, .val x)
      | (.error e, it) => (h.setObj (h.id t) it, .err e)
    | _ => (h, .stuck)
  | .drain t =>
    match h.obj t with
    | some (.iter pos seq) =>
      let (xs, it) := specDrain h (specFuel h seq) pos seq
      (h.setObj (h.id t) it, .vals xs)
    | _ => (h, .stuck)
  | .dNew v kvs | .dOfPairs v kvs | .dOfKw v kvs => (h.new v (.dict (dictOfList kvs)), .ok)
  | .dCopy v w =>
    match h.obj w with
    | some (.dict m) => (h.new v (.dict m), .ok)
    | _ => (h, .stuck)
  | .dComp v w x =>
    match h.obj w with
    | some (.dict m) => (h.new v (.dict (dictOfList (m.map (fun p => (p.1, x))))), .ok)
    | _ => (h, .stuck)
  | .dSet v k x =>
    match h.obj v with
    | some (.dict m) => (h.setObj (h.id v) (.dict (dictSet m k x)), .ok)
    | _ => (h, .stuck)
  | .dGet v k =>
    match h.obj v with
    | some (.dict m) => (h, match dictGet m k with | some x => .val x | Option.none => .err .key)
    | _ => (h, .stuck)
  | .dDel v k =>
    match h.obj v with
    | some (.dict m) => if (dictGet m k).isSome then (h.setObj (h.id v) (.dict (dictDel m k)), .ok) else (h, .err .key)
    | _ => (h, .stuck)
  | .dGetM v k dflt =>
    match h.obj v with
    | some (.dict m) => (h, .val (match dictGet m k with | some x => x | Option.none => dflt.getD .none))
    | _ => (h, .stuck)
  | .dHas v k =>
    match h.obj v with
    | some (.dict m) => (h, .val (.bool (dictGet m k).isSome))
    | _ => (h, .stuck)
  | .dKeys v which =>
    match h.obj v with
    | some (.dict m) => (h, if which == 0 then .vals (m.map (fun p => Val.str p.1)) else .vals (m.map (·.2)))
    | _ => (h, .stuck)
  | .dUpdate v w =>
    match h.obj v, h.obj w with
    | some (.dict m), some (.dict mw) => (h.setObj (h.id v) (.dict (dictMerge m mw)), .ok)
    | _, _ => (h, .stuck)
  | .dUpdatePairs v kvs | .dUpdateKw v kvs =>
    match h.obj v with
    | some (.dict m) => (h.setObj (h.id v) (.dict (dictMerge m (dictOfList kvs))), .ok)
    | _ => (h, .stuck)
  | .dPop v k dflt =>
    match h.obj v with
    | some (.dict m) =>
      match dictGet m k with
      | some x => (h.setObj (h.id v) (.dict (dictDel m k)), .val x)
      | Option.none => (h, match dflt with | some d => .val d | Option.none => .err .key)
    | _ => (h, .stuck)
  | .dSetDefault v k dflt =>
    match h.obj v with
    | some (.dict m) =>
      match dictGet m k with
      | some x => (h, .val x)
      | Option.none => (h.setObj (h.id v) (.dict (dictSet m k (dflt.getD .none))), .val (dflt.getD .none))
    | _ => (h, .stuck)
  | .dCopyM u v =>
    match h.obj v with
    | some (.dict m) => (h.new u (.dict m), .ok)
    | _ => (h, .stuck)
  | .dClear v =>
    match h.obj v with
    | some (.dict _) => (h.setObj (h.id v) (.dict []), .ok)
    | _ => (h, .stuck)
  | .sNew v xs => (h.new v (.set (setOfList xs)), .ok)
  | .sEmpty v => (h.new v (.set []), .ok)
  | .sCopy v w | .sComp v w =>
    match h.obj w with
    | some (.set xs) => (h.new v (.set (setOfList xs)), .ok)
    | _ => (h, .stuck)
  | .sOfSrc v s =>
    match s.items with
    | .ok xs => (h.new v (.set (setOfList xs)), .ok)
    | .error e => (h, .err e)
  | .sAdd v x =>
    match h.obj v with
    | some (.set xs) => (h.setObj (h.id v) (.set (setAdd xs x)), .ok)
    | _ => (h, .stuck)
  | .sBin op u v w =>
    match h.obj v, h.obj w with
    | some (.set a), some (.set b) => (h.new u (.set (specSetBin op a b)), .ok)
    | _, _ => (h, .stuck)
  | .sIBin op v w =>
    match h.obj v, h.obj w with
    | some (.set a), some (.set b) => (h.setObj (h.id v) (.set (specSetBin op a b)), .ok)
    | _, _ => (h, .stuck)
  | .sUpdate v w =>
    match h.obj v, h.obj w with
    | some (.set a), some (.set b) => (h.setObj (h.id v) (.set (setUpdateBy pyEq a b)), .ok)
    | _, _ => (h, .stuck)
  | .sUpdateSrc v s =>
    match h.obj v with
    | some (.set a) =>
      match s.items with
      | .ok xs => (h.setObj (h.id v) (.set (setUpdateBy pyEq a xs)), .ok)
      | .error e => (h, .err e)
    | _ => (h, .stuck)
  | .sRemove v x =>
    match h.obj v with
    | some (.set a) => if memBy pyEq a x then (h.setObj (h.id v) (.set (setDelBy pyEq a x)), .ok) else (h, .err .key)
    | _ => (h, .stuck)
  | .sDiscard v x =>
    match h.obj v with
    | some (.set a) => (h.setObj (h.id v) (.set (setDelBy pyEq a x)), .ok)
    | _ => (h, .stuck)
  | .sClear v =>
    match h.obj v with
    | some (.set _) => (h.setObj (h.id v) (.set []), .ok)
    | _ => (h, .stuck)
  | .sCopyM u v =>
    match h.obj v with
    | some (.set xs) => (h.new u (.set (setOfList xs)), .ok)
    | _ => (h, .stuck)

/-! ### known-finding predicates -/

/-- values on which Go's `==` is Python's `==` (no two spellings of one number) -/
def canonVals (vs : List Val) : Bool :=
  vs.all (fun x => vs.all (fun y => pyEq x y == goEq x y))

/-- the scalars an operation mentions -/
def Src.vals : Src → List Val
  | .tuple xs => xs
  | .str s => s.toList.map (fun c => Val.str (String.singleton c))
  | .scalar v => [v]

def Op.vals : Op → List Val
  | .sNew _ xs => xs
  | .sOfSrc _ s => s.vals
  | .sAdd _ x => [x]
  | .contains _ x => [x]
  | .sUpdateSrc _ s => s.vals
  | .sRemove _ x => [x]
  | .sDiscard _ x => [x]
  | _ => []

/-- C17-K01: a set history that mentions two Python-equal values which Go's `==` tells apart
(1 / True / 1.0): py/set.go keys its map by the interface value -/
def kfSetKeys (ops : List Op) : Bool := !canonVals (ops.flatMap Op.vals)

/-- C17-K02: `next` on a dict/set iterator after the container's size changed (Python: RuntimeError;
py/dict.go, py/set.go iterate a snapshot tuple) -/
def kfIterSizeChanged (h : SHeap) (op : Op) : Bool :=
  let chk (t : Nat) : Bool :=
    match h.obj t with
    | some (.iter _ (.snap _ (some (id, n)))) => h.sizeOf id != some n
    | _ => false
  match op with
  | .next t | .drain t | .lOfIter _ t | .lExtendIter _ t => chk t
  | _ => false

/-- C17-K03 (= C07-K01 seen through sort): sorting a list that holds two bools – `True < False`
raises TypeError in py.Lt, so the sort fails where Python orders them as 0/1 -/
def twoBools (xs : List Val) : Bool := (xs.filter (fun x => match x with | .bool _ => true | _ => false)).length ≥ 2

def kfSortBools (h : SHeap) (op : Op) : Bool :=
  match op with
  | .lSort v _ => (match h.obj v with | some (.list xs) => twoBools xs | _ => false)
  | _ => false

end GPy.C17
