/-
C18 case generator.  Programs are C03's scope trees (`GPy.C03.Body`), rendered to Python by
`GPy.C03.render`; the model compiles each one under three different assignments of iteration
orders (identity / reversed / rotated per path and site) and predicts the structure of every
code object (R).  V is "deterministic" for model and specification alike: the implementation's V
is what the harness observed over ≥64 sequential + interleaved + 16×4 concurrent compilations
and a double compilation of one parsed tree.

Streams:
  hand    programs the property names (several cells shared by several closures, class cells, defaults)
  multi   seeded: an outer function binding 2..7 names in random order, inner def/lambda/class/
          comprehension blocks that read / rebind (nonlocal) / declare global random subsets in
          random order, optionally one more level – the programs where an ordering bug would show
  chain   C03's systematic chains (module ⊃ b1 ⊃ b2) over one name
  rand    C03's random trees over name pools of size 1..6
  snip    fixed Python snippets outside the scope-tree fragment (augmented assignment, starred
          targets, imports, try/with, comprehension kinds, decorators, big constants) in exec,
          eval and single mode – no model R, V only
  files   `F k 16`: every .py file below the repository worktree (walked by the harness at run time)
-/
import GPy.C18.Model
import GPy.C03.Gen
namespace GPy.C18
open GPy.C03

def revO : Order := ⟨fun _ _ l => l.reverse⟩
def rotO : Order := ⟨fun p s l => l.rotateLeft (p.length + s + 1)⟩

instance : Inhabited Case := ⟨{ input := "", modelV := "", specV := "" }⟩

instance : BEq (Except CErr (List CodeObj)) := ⟨fun a b => match a, b with
  | .ok x, .ok y => x == y
  | .error x, .error y => x == y
  | _, _ => false⟩

def maxCF (os : List CodeObj) : Nat := os.foldl (fun m o => max m (o.cellvars.length + o.freevars.length)) 0

def mkCase (stream : String) (b : Body) : Case :=
  let src := "P " ++ render b
  let r0 := compile Order.id Order.id b
  let same := [(revO, revO), (rotO, revO), (revO, rotO)].all fun (σ, τ) => compile σ τ b == r0
  let mV := if same then "deterministic" else "MODEL-ORDER-DEPENDENT"
  let (mR, tags) : String × List String := match r0 with
    | .ok os =>
      let cf := maxCF os
      let nglob := os.foldl (fun m o => max m (o.ops.filter (fun i => i.1 == "SG" || i.1 == "LG" || i.1 == "DG")).eraseDups.length) 0
      (showAll os,
        ["cf" ++ (if cf ≥ 4 then "4+" else toString cf)] ++
        (if nglob ≥ 2 then ["glob2+"] else []) ++
        (if os.any (fun o => o.ops.any (fun i => i.1 == "LCD")) then ["classderef"] else []) ++
        (if os.any (fun o => o.cellvars.head? == some "__class__") then ["ncc"] else []) ++
        (if os.any (fun o => o.ops.any (fun i => i.1 == "MC")) then ["closure"] else []) ++
        ["objs" ++ (if os.length ≥ 5 then "5+" else toString os.length)] ++
        (if cf ≥ 2 || nglob ≥ 2 then ["nt"] else []))
    | .error (.syntax _) => ("-", ["syn", "nt"])
    | .error (.panic _) => ("-", ["panic"])
  { input := src, modelV := mV, modelR := mR, specV := "deterministic", tags := [stream] ++ tags }

/-! ### the multi-name closure generator -/

def pool : Array Name := #["a", "b", "c", "d", "e", "g", "h", "x", "y"]

/-- a random subset of `names` in random order, of size `lo..hi` -/
def pickSome (g : GenSt) (names : List Name) (lo hi : Nat) : GenSt × List Name := Id.run do
  let (g0, k) := g.nat (hi - lo + 1)
  let want := min (lo + k) names.length
  let mut g := g0
  let mut rest := names
  let mut out : List Name := []
  for _ in [0:want] do
    let (g1, i) := g.nat rest.length
    g := g1
    out := out ++ [rest.getD i "a"]
    rest := rest.eraseIdx i
  return (g, out)

/-- an inner block over the enclosing function's names -/
partial def genInner (g : GenSt) (outer : List Name) (depth : Nat) : GenSt × (Body → Body) := Id.run do
  let (g, kk) := g.nat 100
  let (g, id) := g.fresh
  let (g, used) := pickSome g outer 1 (min outer.length 5)
  let (g, mode) := g.nat 100
  if kk < 55 then
    -- def: reads, nonlocal rebinding, global declarations
    let (g, nl) := pickSome g used 0 2
    let (g, gl) := if mode < 25 then pickSome g (used.filter (!nl.contains ·)) 0 2 else (g, [])
    let mut body : Body := .nil
    let mut g := g
    -- optionally one more level that reads through this block
    if depth < 2 then
      let (g1, deeper) := g.nat 100
      g := g1
      if deeper < 45 then
        let (g2, f) := genInner g (outer ++ ["z" ++ toString id]) (depth + 1)
        g := g2
        body := .op (.bind ("z" ++ toString id) id) (f .nil)
    for n in used.reverse do
      if nl.contains n then
        let (g1, v) := g.fresh
        g := g1
        body := .op (.bind n v) body
      else
        body := .op (.use n) body
    for n in gl do body := .op (.glob n) body
    for n in nl do body := .op (.nonloc n) body
    let (g3, np) := g.nat 3
    let ps : List Param := if np == 0 then [] else if np == 1 then [{ name := "q", val := id }]
      else [{ name := "q", dflt := outer.head? }, { name := "k", kind := .kwonly, val := id }]
    return (g3, fun rest => .child .func ("f" ++ toString id) ps body rest)
  else if kk < 70 then
    let body := used.foldr (fun n acc => .op (.use n) acc) Body.nil
    return (g, fun rest => .child .lam ("f" ++ toString id) [] body rest)
  else if kk < 85 then
    let body := used.foldr (fun n acc => .op (.use n) acc) Body.nil
    let p : Param := { name := "t", dflt := if mode < 50 then outer.head? else none, val := id }
    return (g, fun rest => .child .comp ("f" ++ toString id) [p] body rest)
  else
    -- class with a method that reads the names (and maybe __class__)
    let mbody := used.foldr (fun n acc => .op (.use n) acc) (if mode < 40 then Body.op (.use "__class__") .nil else .nil)
    let (g, v) := g.fresh
    -- the class body itself binds a non-empty prefix of the names its method reads (1 .. all of them): several names that are
    -- both class-local and free in a method are what puts more than one DefFreeClass entry into the class's freevars
    let (g, nb) := g.nat (max used.length 1)
    let boundHere := if used.isEmpty then ["a"] else used.take (nb + 1)
    let cbody : Body := boundHere.foldr (fun n acc => .op (.bind n v) acc) (.child .func ("m" ++ toString id) [] mbody .nil)
    return (g, fun rest => .child .cls ("C" ++ toString id) [] cbody rest)

def genMulti (g : GenSt) : GenSt × Body := Id.run do
  let g := { g with ctr := 1 }
  let (g, names) := pickSome g pool.toList 2 7
  let (g, nParams) := g.nat 3
  let ps : List Param := (names.take (min nParams names.length)).map fun n => { name := n, val := 7 }
  let binds := names.drop ps.length
  let (g, ninner) := g.nat 3
  let mut g := g
  let mut inners : List (Body → Body) := []
  for _ in [0:ninner + 1] do
    let (g1, f) := genInner g names 1
    g := g1
    inners := inners ++ [f]
  -- bind the names (random order was chosen by pickSome), inner blocks in between / after
  let mut body : Body := .nil
  let (g2, late) := g.nat 100
  g := g2
  let tail : Body := if late < 30 then (binds.take 1).foldr (fun n acc => .op (.bind n 99) acc) Body.nil else .nil
  body := inners.foldr (fun f acc => f acc) tail
  let mut ctr := 10
  for n in binds.reverse do
    body := .op (.bind n ctr) body
    ctr := ctr + 1
  let (g3, top) := g.nat 100
  let prog : Body :=
    if top < 20 then .op (.bind (names.headD "a") 1) (.child .func "f0" ps body .nil)
    else .child .func "f0" ps body .nil
  return (g3, prog)

/-! ### fixed snippets outside the scope-tree fragment -/

def snippets : List String := [
  "P x = 1\\nx += 2\\nx.y -= 3\\nx[0] *= 4\\nx[1:2] //= 5",
  "P a, *b = 1, 2, 3\\n*c, d = b\\n[e, *f, g] = a, 2, 3\\nfor h, *i in [(1, 2)]:\\n  pass",
  "P def f(l):\\n  l[0] += 1\\n  a, *l.rest = l\\n  return a",
  "P import os, sys as s\\nfrom m import (p, q as r)\\nfrom . import z",
  "P try:\\n  pass\\nexcept E as e:\\n  pass\\nexcept (A, B):\\n  raise\\nelse:\\n  pass\\nfinally:\\n  x = 1",
  "P with a as b, c as d:\\n  yield_ = b + d",
  "P def g():\\n  x = yield 1\\n  yield from x\\n  return 2",
  "P s = {i for i in r}\\nd = {k: v for k, v in r if k}\\ng = (i * j for i in r for j in i)\\nl = [[i for i in j] for j in r]",
  "P @d1\\n@d2(3)\\ndef f(a: int = 1, *b: 'B', c: float = 2.0, **d) -> None:\\n  'doc'\\n  return a",
  "P @dec\\nclass C(B, metaclass=M, *s, **k):\\n  'doc'\\n  x = 1\\n  def m(self):\\n    return super().m() + __class__.x",
  "P x = 1.5; y = 'str'; z = b'by'; t = (1, 2.0, 'three', None, True, False, ...)\\nbig = 123456789012345678901234567890\\nc = 3j",
  "P a = 1; b = 1.0; c = True; d = 0; e = 0.0; f = -0.0; g = False; h = 1; i = 'a'; j = b'a'; k = 'a'",
  "P while x:\\n  if y: break\\n  elif z: continue\\n  else: pass\\nelse:\\n  del x, y[0], z.w",
  "P assert x, 'msg'\\nlambda a, b=1, *c, d, e=2, **f: (a, b, c, d, e, f)\\nx = y if z else w\\nq = a < b <= c != d is e is not f in g not in h",
  "P def outer():\\n  a = b = c = d = e = 1\\n  def i1():\\n    return e, d, c\\n  def i2():\\n    nonlocal b, a\\n    a = b = 2\\n    return c\\n  class K:\\n    d = d\\n    def m(self):\\n      return a, e, __class__\\n  return i1, i2, K",
  "P global_a = 1\\ndef f():\\n  global global_a, global_b\\n  global_a += 1\\n  global_b = global_a",
  "P def f(x=0):\\n  global x\\n  nonlocal y",
  "P def f():\\n  nonlocal q\\n  global q",
  "P x = (\\n",
  "P return 1",
  "P def f(a, a): pass",
  "P class A:\\n  def f(self):\\n    def g():\\n      return __class__, self\\n    return g",
  "P f(a, b, *c, k=1, **d)\\nx[1:2, ::3, ...]\\nx[a:b:c] = y\\nprint(-x, +x, ~x, not x, x ** 2 @ y if 0 else 1)",
  "E p(x) + [i for i in y][0] + (lambda q: q + z)(1)",
  "E {k: v for k, v in zip(a, b)}",
  "E a if b else (c, d, *())[0]",
  "S x += 1",
  "S a, *b = c",
  "S f(x)",
  "S def f():\\n  return lambda: f\\n"
]

def emit (c : Case) : IO Unit := IO.println c.line

def genMain (tier : String) (seed : Nat) : IO Unit := do
  let thorough := tier == "thorough"
  let mut cases : Array Case := #[]
  -- hand-picked
  let twoCells : Body :=
    .child .func "f1" [] (.op (.bind "y" 1) <| .op (.bind "x" 2) <|
      .child .func "f2" [] (.op (.use "y") <| .op (.use "x") .nil) .nil) .nil
  let shared : Body :=
    .child .func "f1" [{ name := "x", val := 7 }, { name := "b", val := 8 }] (
      .child .func "f2" [] (.op (.use "x") <| .op (.use "b") .nil) <|
      .child .func "f3" [] (.op (.nonloc "b") <| .op (.nonloc "x") <| .op (.bind "x" 8) <| .op (.bind "b" 9) .nil) <|
      .op (.use "x") <| .op (.bind "a" 9) <| .child .lam "l" [] (.op (.use "a") <| .op (.use "b") .nil) .nil) .nil
  let classCell : Body :=
    .child .func "f1" [] (.op (.bind "z" 1) <| .op (.bind "a" 2) <|
      .child .cls "C1" [] (.op (.use "z") <| .op (.bind "a" 3) <|
        .child .func "m" [] (.op (.use "__class__") <| .op (.use "a") <| .op (.use "z") .nil) .nil) .nil) .nil
  let globals2 : Body :=
    .child .func "f1" [] (.op (.glob "b") <| .op (.glob "a") <| .op (.bind "b" 1) <| .op (.bind "a" 2) <|
      .op (.use "a") <| .op (.del "b") .nil) .nil
  let twoErrors : Body := .child .func "f1" [{ name := "x" }] (.op (.glob "x") <| .op (.nonloc "y") .nil) .nil
  for b in [twoCells, shared, classCell, globals2, twoErrors] do
    cases := cases.push (mkCase "hand" b)
  -- multi-name closures
  let nMulti := if thorough then 25000 else 900
  let mut g : GenSt := { r := ⟨(seed * 2654435761 + 977).toUInt64⟩ }
  for _ in [0:nMulti] do
    let (g1, b) := genMulti g
    g := g1
    cases := cases.push (mkCase "multi" b)
  -- C03's chains over one name
  let x := "x"
  let spiTop : List Nat := if thorough then [0, 1, 6, 8] else [1]
  let spi1 : List Nat := if thorough then [0, 1, 3, 5, 6, 7, 8, 9, 10, 12, 14, 16] else [1, 8, 10]
  let spi2 : List Nat := if thorough then [3, 4, 8, 9, 10, 11] else [3, 10]
  let pv1 : List Nat := if thorough then [0, 1, 2, 4] else [0, 1, 2]
  let pv2 : List Nat := [0, 1]
  for ti in spiTop do
    let top := stmtPats[ti]!
    for l1 in levelChoices x false spi1 pv1 do
      cases := cases.push (mkCase "chain" (buildChain x top [l1]))
      for l2 in levelChoices x (isExprKind l1.kind) spi2 pv2 do
        cases := cases.push (mkCase "chain" (buildChain x top [l1, l2]))
  -- C03's random trees, name pools of size 1..6
  let nRand := if thorough then 12000 else 450
  let pools : Array (Array Name) := #[#["x"], #["x", "y"], #["x", "y", "abs"], #["a", "b", "c", "d"],
    #["a", "b", "c", "d", "e", "x"], #["x", "y", "a"]]
  for i in [0:nRand] do
    let (g1, b) := genBody { g with ctr := 1 } pools[i % pools.size]! 0 false false
    g := g1
    cases := cases.push (mkCase "rand" b)
  -- snippets
  for s in snippets do
    cases := cases.push { input := s, modelV := "deterministic", modelR := "", specV := "deterministic",
                          tags := ["snip", "nt"] }
  -- the repository's .py files: 16 shards spread over the case list (one per harness worker)
  let shards := 16
  let step := cases.size / shards + 1
  let mut k := 0
  for i in [0:cases.size] do
    if i % step == 0 && k < shards then
      emit { input := s!"F {k} {shards}", modelV := "deterministic", modelR := "", specV := "deterministic", tags := ["files"] }
      k := k + 1
    emit cases[i]!
  for j in [k:shards] do
    emit { input := s!"F {j} {shards}", modelV := "deterministic", modelR := "", specV := "deterministic", tags := ["files"] }

end GPy.C18
