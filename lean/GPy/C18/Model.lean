/-
C18 model: what compile/compile.go adds on top of the symbol table, as far as ORDER and
STATE are concerned.  Built on C03's model of symtable/symtable.go (GPy.C03.Model), in which
every `range` over a Go map is a fold over an ARBITRARILY PERMUTED key list (`Order`).

Transliterated here (after this property's `fix:` commits):
  symtable.go  AnalyzeBlock        the AnalyzeName loop now visits the names in SORTED order
                                   (`Order.sorted0`: range site 0 is followed by sort.Strings)
               SymTable.Find       range over st.Symbols (an iteration-order parameter), filter, sort.Strings
  compile.go   compileAst          Varnames / Cellvars (implicit `__class__` cell first) / Freevars,
                                   the per-scope-type prologue and epilogue
               Const               linear search with the type-and-Eq test, append when absent
               FindId/Index/Name   linear search, append when absent (first-use order)
               NameOp              scope → opcode family → which list `Index` works on (Varnames,
                                   Cellvars, Freevars – which therefore GROW in first-use order –, Names)
               getRefType/makeClosure  LOAD_CLOSURE operands, MAKE_FUNCTION/MAKE_CLOSURE
               setQualname, compileFunc (defaults), class, comprehension, Expr(Lambda/Call/Tuple/Name/Num)
over C03's scope trees (`Body`) as rendered to Python by GPy.C03.Gen.render.
The label/assembly/stack-depth/lnotab passes (compile/instructions.go) are functions of the
instruction list built here and are not modelled separately: the model's instruction list keeps
the instructions whose OPERANDS depend on the tables (name, const, closure, make-function).

The pipeline is a PURE FUNCTION
    compile : (iteration orders of the symtable ranges) → (iteration orders of Find) → Body → Except CErr (List CodeObj)
Core Lean only.
-/
import GPy.C03.Model
namespace GPy.C18
open GPy.C03

/-! ## symtable.go after the fix: sorted AnalyzeName loop, and Find -/

/-- the iteration orders of the FIXED `AnalyzeBlock`: the keys collected by the range at site 0
(`for name := range st.Symbols`) are sorted before `AnalyzeName` is applied to them -/
def sorted0 (σ : Order) : Order :=
  ⟨fun p s l => if s = 0 then sortNames (σ.perm p s l) else σ.perm p s l⟩

/-- `symtable.NewSymTable` (fixed code) under iteration orders `σ` -/
def symtable (σ : Order) (b : Body) : Except Err Forest := newSymTable (sorted0 σ) b

/-- range sites of `SymTable.Find` in `compileAst` (numbering continues C03's 0..14) -/
def siteFindCell : Nat := 20
def siteFindFree : Nat := 21

/-- `SymTable.Find`: `for name, v := range st.Symbols { if pred(v) { out = append(out, name) } }; sort.Strings(out)`.
`τ` is the order in which the range visits the keys. -/
def find (U : List Name) (τ : Order) (p : List Nat) (site : Nat) (pred : Name → Bool) : List Name :=
  sortNames (keysOf U τ p site pred)

/-- what `compileAst` needs from Find: block path → range site → predicate → sorted names -/
abbrev Finder := List Nat → Nat → (Name → Bool) → List Name

def cellPred (st : Ste) (n : Name) : Bool :=
  match st.syms n with | some v => v.scope == .cell | none => false
def freePred (st : Ste) (n : Name) : Bool :=
  match st.syms n with | some v => v.scope == .free || v.flags.freeClass | none => false

/-! ## constants and names: interning -/

/-- the constants the rendered programs produce.  `code p` is the code object of the block at
path `p`: `*py.Code.M__eq__` is object identity, so a code constant equals only itself. -/
inductive K
  | none
  | int (n : Nat)
  | str (s : String)
  | code (p : List Nat)
deriving DecidableEq, Repr, Inhabited

/-- `obj.Type() == c.Type() && py.Eq(obj, c) == py.True` -/
def K.same : K → K → Bool
  | .none, .none => true
  | .int a, .int b => a == b
  | .str a, .str b => a == b
  | .code a, .code b => a == b
  | _, _ => false

/-- `compiler.Const`: index of the first constant of the same type that is equal, else append -/
def constIdx (ks : List K) (k : K) : List K × Nat :=
  let i := ks.findIdx (K.same k)
  if i < ks.length then (ks, i) else (ks ++ [k], ks.length)

/-- `compiler.FindId` (−1 when absent) -/
def findIdInt (id : Name) (names : List Name) : Int :=
  let i := names.findIdx (· == id)
  if i < names.length then (i : Int) else -1

/-- `compiler.Index`: position of `id`, appending it when absent -/
def index (names : List Name) (id : Name) : List Name × Nat :=
  let i := names.findIdx (· == id)
  if i < names.length then (names, i) else (names ++ [id], names.length)

/-! ## code objects under construction -/

/-- an emitted instruction whose operand depends on the tables: mnemonic and operand -/
abbrev Ins := String × Nat

/-- the result: what determinism is about, per code object -/
structure CodeObj where
  name : String
  varnames : List Name
  cellvars : List Name
  freevars : List Name
  names : List Name
  consts : List K
  ops : List Ins
deriving DecidableEq, Repr, Inhabited

/-- compile errors: a SyntaxError of the symbol table, or a Go panic of the compiler
(recovered by `compileAst` into an exception) -/
inductive CErr
  | syntax (e : Err)
  | panic (what : String)
deriving DecidableEq, Repr, Inhabited

/-- the `compiler` struct as far as modelled -/
structure CS where
  typ : BlockType
  syms : Tbl (Option Sym)
  isLambdaOrFunc : Bool          -- scopeType is compilerScopeFunction / compilerScopeLambda
  qualname : String
  co : CodeObj
deriving Inhabited

inductive Ctx | load | store | del
deriving DecidableEq, Repr

def CS.scope (c : CS) (n : Name) : Scope := match c.syms n with | some s => s.scope | none => .invalid

def CS.emit (c : CS) (m : String) (a : Nat) : CS := { c with co := { c.co with ops := c.co.ops ++ [(m, a)] } }

/-- `LoadConst` -/
def CS.loadConst (c : CS) (k : K) : CS :=
  let (ks, i) := constIdx c.co.consts k
  ({ c with co := { c.co with consts := ks } }).emit "K" i

/-- `Const` alone (the docstring slot of a function) -/
def CS.const (c : CS) (k : K) : CS := { c with co := { c.co with consts := (constIdx c.co.consts k).1 } }

def famOp (f : OpFamily) (isClass : Bool) : Ctx → String
  | .load => (match f with | .deref => if isClass then "LCD" else "LD" | .fast => "LF" | .global => "LG" | .name => "LN")
  | .store => (match f with | .deref => "SD" | .fast => "SF" | .global => "SG" | .name => "SN")
  | .del => (match f with | .deref => "DD" | .fast => "DF" | .global => "DG" | .name => "DN")

/-- `NameOp` given the scope the symbol table reports -/
def CS.nameOpScope (c : CS) (scope : Scope) (n : Name) (ctx : Ctx) : CS :=
  let fam := opFamily c.typ scope
  let op := famOp fam (c.typ == .cls) ctx
  match fam with
  | .deref =>
    if scope == .free then
      let (l, i) := index c.co.freevars n
      ({ c with co := { c.co with freevars := l } }).emit op (i + c.co.cellvars.length)
    else
      let (l, i) := index c.co.cellvars n
      ({ c with co := { c.co with cellvars := l } }).emit op i
  | .fast =>
    let (l, i) := index c.co.varnames n
    ({ c with co := { c.co with varnames := l } }).emit op i
  | _ =>
    let (l, i) := index c.co.names n
    ({ c with co := { c.co with names := l } }).emit op i

def CS.nameOp (c : CS) (n : Name) (ctx : Ctx) : CS := c.nameOpScope (c.scope n) n ctx

/-- the scaffolding function `p` of the rendered programs: never bound, so the real symbol table
gives it GlobalImplicit in every block (C03's tables do not list it) -/
def CS.loadP (c : CS) : CS := c.nameOpScope .globalImplicit "p" .load

/-- `getRefType` + the operand arithmetic of `makeClosure`, for one free variable of the child -/
def closureArg (c : CS) (n : Name) : Except CErr Nat :=
  let reftype : Option Scope :=
    if c.typ == .cls && n == "__class__" then some .cell
    else if c.scope n == .invalid then none else some (c.scope n)
  match reftype with
  | none => .error (.panic "getRefType: unknown scope")
  | some r =>
    let arg : Int := if r == .cell then findIdInt n c.co.cellvars
                     else (c.co.cellvars.length : Int) + findIdInt n c.co.freevars
    if arg < 0 then .error (.panic "makeClosure: lookup") else .ok arg.toNat

/-- `makeClosure(code, args, child, qualname)` -/
def CS.makeClosure (c : CS) (child : CodeObj) (childPath : List Nat) (args : Nat) (qualname : String) :
    Except CErr CS :=
  if child.freevars.length == 0 then
    .ok (((c.loadConst (.code childPath)).loadConst (.str qualname)).emit "MF" args)
  else do
    let c ← child.freevars.foldlM (fun (c : CS) n => do
      let a ← closureArg c n
      pure (c.emit "LC" a)) c
    pure (((c.loadConst (.code childPath)).loadConst (.str qualname)).emit "MC" args)

/-- `setQualname` -/
def qualnameOf (parent : CS) (parentIsModule : Bool) (k : Kind) (codeName : String) : Except CErr String := do
  let forceGlobal ←
    if k == .func || k == .cls then
      (if parent.scope codeName == .globalImplicit && !parentIsModule then
         .error (.panic "setQualname: not expecting scopeGlobalImplicit")
       else pure (parent.scope codeName == .globalExplicit))
    else pure false
  let base := if forceGlobal then "" else
    (if parent.isLambdaOrFunc then parent.qualname ++ ".<locals>" else parent.qualname)
  pure (if base != "" then base ++ "." ++ codeName else codeName)

def codeNameOf : Kind → Name → String
  | .func, n => n | .cls, n => n | .lam, _ => "<lambda>" | .comp, _ => "<listcomp>"

/-- `c.Exprs(Args.Defaults)` and the KwDefaults loop of `compileFunc` -/
def CS.defaults (c : CS) (ps : List Param) : CS :=
  let one (c : CS) (p : Param) : CS := match p.dflt with
    | some y => c.nameOp y .load
    | none => c.loadConst (.int p.val)
  let c := (ps.filter (·.kind == .pos)).foldl one c
  (ps.filter (·.kind == .kwonly)).foldl (fun c p => one (c.loadConst (.str p.name)) p) c

/-- operand of MAKE_FUNCTION: positional defaults + keyword-only defaults << 8 -/
def makeArgs (ps : List Param) : Nat :=
  (ps.filter (·.kind == .pos)).length + 256 * (ps.filter (·.kind == .kwonly)).length

/-- the names of the `def`s of a body (each is called once more at the end of the body) -/
def defNames : Body → List Name
  | .nil => []
  | .op _ rest => defNames rest
  | .child k name _ _ rest => (if k == .func then [name] else []) ++ defNames rest

/-- a fresh `compiler` for the block with table `st` at `path` (first lines of `compileAst`) -/
def newCS (fnd : Finder) (path : List Nat) (st : Ste) (codeName : String) (isLF : Bool) (qual : String) : CS :=
  { typ := st.typ, syms := st.syms, isLambdaOrFunc := isLF, qualname := qual,
    co := { name := codeName, varnames := st.varnames,
            cellvars := (if st.needsClassClosure then ["__class__"] else []) ++ fnd path siteFindCell (cellPred st),
            freevars := fnd path siteFindFree (freePred st),
            names := [], consts := [], ops := [] } }

/-- `newCompilerScope` + the part of `compileAst` before the body of a nested block -/
def prologue (fnd : Finder) (path : List Nat) (st : Ste) (k : Kind) (name : Name) (ps : List Param)
    (qual : String) : CS :=
  let c := newCS fnd path st (codeNameOf k name) (k == .func || k == .lam) qual
  match k with
  | .func => c.const .none                               -- docString: no docstring, None is constant 0
  | .lam => c.const .none
  | .cls =>
    let c := (c.nameOp "__name__" .load).nameOp "__module__" .store
    (c.loadConst (.str qual)).nameOp "__qualname__" .store
  | .comp =>
    let c := c.emit "LF" 0                               -- the implicit argument `.0` (operand hard-wired)
    c.nameOp (ps.headD { name := "t" }).name .store      -- the target

/-- the part of `compileAst` after the body of a nested block -/
def epilogue (st : Ste) (k : Kind) (body : Body) (c : CS) : Except CErr CodeObj :=
  match k with
  | .func =>
    let c := (defNames body).foldl (fun c f => c.nameOp f .load) c
    pure (c.loadConst .none).co
  | .lam => pure c.co
  | .cls =>
    let c := (defNames body).foldl (fun c f => c.nameOp f .load) c
    if st.needsClassClosure then
      if findIdInt "__class__" c.co.cellvars != 0 then .error (.panic "__class__ must be first constant")
      else pure (c.emit "LC" 0).co
    else if c.co.cellvars.length != 0 then .error (.panic "Can't have cellvars without closure")
    else pure (c.loadConst .none).co
  | .comp => pure c.co

/-- what the ENCLOSING block emits for a nested block once its code object exists
(`compileFunc` / `class` / `comprehension`, the store of a def/class name, and the call `name()`
the rendering puts after every def) -/
def afterChild (c : CS) (k : Kind) (name : Name) (ps : List Param) (child : CodeObj) (p : List Nat)
    (qual : String) (_stmtCtx : Bool) : Except CErr CS :=
  match k with
  | .func => do
    let c := c.defaults ps
    let c ← c.makeClosure child p (makeArgs ps) qual
    let c := c.nameOp name .store
    pure (c.nameOp name .load)
  | .cls => do
    let c ← c.makeClosure child p 0 name
    let c := c.loadConst (.str name)
    pure (c.nameOp name .store)
  | .lam => do
    let c := c.defaults ps
    c.makeClosure child p (makeArgs ps) qual
  | .comp => do
    let c ← c.makeClosure child p 0 "<listcomp>"
    let pr := ps.headD { name := "t" }
    pure (match pr.dflt with
      | some y => c.nameOp y .load
      | none => c.loadConst (.int pr.val))

mutual
/-- `Stmts` over a block body (statement context).  `i` is the index of the next nested block;
returns the compiler state and the code objects of the nested blocks (pre-order). -/
def compStmts (fnd : Finder) (path : List Nat) : Body → Forest → Nat → Bool → CS → Except CErr (CS × List CodeObj)
  | .nil, _, _, _, c => pure (c, [])
  | .op o rest, kids, i, isMod, c =>
    let c := match o with
      | .bind n v => (c.loadConst (.int v)).nameOp n .store
      | .use n => (c.loadP).nameOp n .load
      | .glob _ => c
      | .nonloc _ => c
      | .del n => c.nameOp n .del
    compStmts fnd path rest kids i isMod c
  | .child k name ps body rest, .node st kk sibs, i, isMod, c => do
    let p := path ++ [i]
    let qual ← if k == .comp then pure "" else qualnameOf c isMod k (codeNameOf k name)
    let c0 := prologue fnd p st k name ps qual
    let (cb, below) ← (match k with
      | .func => compStmts fnd p body kk 0 false c0
      | .cls => compStmts fnd p body kk 0 false c0
      | _ => compExprs fnd p body kk 0 c0)
    let child ← epilogue st k body cb
    let c ← afterChild c k name ps child p qual true
    let (c, more) ← compStmts fnd path rest sibs (i + 1) isMod c
    pure (c, child :: below ++ more)
  | .child _ _ _ _ _, .nil, _, _, _ => .error (.panic "FindChild: no symtable")

/-- the element tuple of a lambda / comprehension body (expression context) -/
def compExprs (fnd : Finder) (path : List Nat) : Body → Forest → Nat → CS → Except CErr (CS × List CodeObj)
  | .nil, _, _, c => pure (c, [])
  | .op o rest, kids, i, c =>
    let c := match o with
      | .use n => (c.loadP).nameOp n .load
      | _ => c.loadConst .none
    compExprs fnd path rest kids i c
  | .child k name ps body rest, .node st kk sibs, i, c => do
    let p := path ++ [i]
    if k == .func || k == .cls then
      -- rendered as `None` (the generators never nest a def/class in an expression)
      compExprs fnd path rest sibs (i + 1) (c.loadConst .none)
    else do
      let qual ← if k == .comp then pure "" else qualnameOf c false k (codeNameOf k name)
      let c0 := prologue fnd p st k name ps qual
      let (cb, below) ← compExprs fnd p body kk 0 c0
      let child ← epilogue st k body cb
      let c ← afterChild c k name ps child p qual false
      let (c, more) ← compExprs fnd path rest sibs (i + 1) c
      pure (c, child :: below ++ more)
  | .child _ _ _ _ _, .nil, _, _ => .error (.panic "FindChild: no symtable")
end

/-- `compileAst` for the module -/
def compModule (fnd : Finder) (b : Body) : Forest → Except CErr (List CodeObj)
  | .node st kids _ => do
    let c := newCS fnd [] st "<module>" false ""
    let (c, below) ← compStmts fnd [] b kids 0 true c
    let c := (defNames b).foldl (fun c f => c.nameOp f .load) c
    pure ((c.loadConst .none).co :: below)
  | .nil => .error (.panic "no module table")

/-- **the pipeline**: `compile.Compile` as a function of the program and of the iteration
orders at every map-range site (`σ`: symtable.go's 15 sites per block, `τ`: Find's two) -/
def compile (σ τ : Order) (b : Body) : Except CErr (List CodeObj) :=
  match symtable σ b with
  | .error e => .error (.syntax e)
  | .ok t => compModule (find (namesOf b) τ) b t

/-! ## the shape dump (must agree with harness/c18.go: c18Shape) -/

def K.show : K → String
  | .none => "N" | .int n => "I" ++ toString n | .str s => "S" ++ s | .code _ => "C"

def CodeObj.show (o : CodeObj) : String :=
  o.name ++ "[" ++ ",".intercalate o.varnames ++ "|" ++ ",".intercalate o.cellvars ++ "|" ++
    ",".intercalate o.freevars ++ "|" ++ ",".intercalate o.names ++ "|" ++
    ",".intercalate (o.consts.map K.show) ++ "|" ++
    " ".intercalate (o.ops.map fun (m, a) => m ++ toString a) ++ "]"

def showAll (os : List CodeObj) : String := " ".intercalate (os.map CodeObj.show)

end GPy.C18
