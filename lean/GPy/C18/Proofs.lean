/-
C18 helper lemmas: sorting makes iteration order irrelevant; interning; the strict
(error-preserving) version of C03's order-independence for the fixed AnalyzeBlock.
-/
import GPy.C18.Spec
import GPy.C03.Proofs
namespace GPy.C18
open GPy.C03

/-! ### sort.Strings after a map walk -/

theorem sortNames_pairwise (l : List Name) : (sortNames l).Pairwise (fun a b => decide (a ≤ b) = true) := by
  unfold sortNames
  apply List.pairwise_mergeSort
  · intro a b c hab hbc
    simp only [decide_eq_true_eq] at *
    exact String.le_trans hab hbc
  · intro a b
    simp only [Bool.or_eq_true, decide_eq_true_eq]
    exact String.le_total a b

/-- sorting two permutations of the same keys gives the same list -/
theorem sortNames_perm {l₁ l₂ : List Name} (h : l₁.Perm l₂) : sortNames l₁ = sortNames l₂ := by
  apply List.Perm.eq_of_pairwise (le := fun a b => decide (a ≤ b) = true)
  · intro a b _ _ hab hba
    simp only [decide_eq_true_eq] at *
    exact String.le_antisymm hab hba
  · exact sortNames_pairwise l₁
  · exact sortNames_pairwise l₂
  · unfold sortNames
    exact ((List.mergeSort_perm l₁ _).trans h).trans (List.mergeSort_perm l₂ _).symm

theorem sortNames_idem (l : List Name) : sortNames (sortNames l) = sortNames l := by
  unfold sortNames
  exact List.mergeSort_of_pairwise (sortNames_pairwise l)

theorem sortNames_is_perm (l : List Name) : (sortNames l).Perm l := by
  unfold sortNames; exact List.mergeSort_perm l _

/-! ### the fixed AnalyzeBlock -/

theorem sorted0_valid {σ : Order} (h : σ.Valid) : (sorted0 σ).Valid := by
  intro p s l
  simp only [sorted0]
  split
  · exact (sortNames_is_perm _).trans (h p s l)
  · exact h p s l

/-- at site 0 the fixed code visits the names in an order that does not depend on `σ` -/
theorem sorted0_site0 {σ σ' : Order} (h : σ.Valid) (h' : σ'.Valid) (p : List Nat) (l : List Name) :
    (sorted0 σ).perm p 0 l = (sorted0 σ').perm p 0 l := by
  simp only [sorted0, if_true]
  exact sortNames_perm ((h p 0 l).trans (h' p 0 l).symm)

/-- orders that agree at range site 0 (the AnalyzeName loop) -/
def Agree0 (σ σ' : Order) : Prop := ∀ p l, σ.perm p 0 l = σ'.perm p 0 l

theorem blockPre_eq {σ σ' : Order} (h : σ.Valid) (h' : σ'.Valid) (h0 : Agree0 σ σ') (U : List Name) (p : List Nat)
    (st : Ste) (bound : Option NSet) (free glob : NSet) :
    blockPre U σ p st bound free glob = blockPre U σ' p st bound free glob := by
  unfold blockPre
  simp only [setUpdate_perm h h' U p p 4 4, setUpdate_perm h h' U p p 5 5, setUpdate_perm h h' U p p 6 6,
    setUpdate_perm h h' U p p 7 7, setUpdate_perm h h' U p p 8 8]
  have : keysOf U σ p 0 (fun n => (st.syms n).isSome) = keysOf U σ' p 0 (fun n => (st.syms n).isSome) := by
    unfold keysOf; exact h0 p _
  rw [this]

theorem analyzeForest_eq {σ σ' : Order} (h : σ.Valid) (h' : σ'.Valid) (h0 : Agree0 σ σ') (U : List Name) (cp : Bool) :
    ∀ (f : Forest) (path : List Nat) (i : Nat) (ps : Sets) (childFree : NSet),
      analyzeForestG U σ cp f path i ps childFree = analyzeForestG U σ' cp f path i ps childFree := by
  intro f
  induction f with
  | nil => intro _ _ _ _; rfl
  | node st kids sibs ihk ihs =>
    intro path i ps childFree
    simp only [analyzeForestG]
    simp only [setCopy_perm h h' U (path ++ [i]) (path ++ [i]) 11 11,
      setCopy_perm h h' U (path ++ [i]) (path ++ [i]) 12 12,
      setCopy_perm h h' U (path ++ [i]) (path ++ [i]) 13 13,
      blockPre_eq h h' h0, ihk, blockPost_perm h h' U (path ++ [i]) (path ++ [i]),
      setUpdate_perm h h' U (path ++ [i]) (path ++ [i]) 14 14, ihs]

theorem analyzeTop_eq {σ σ' : Order} (h : σ.Valid) (h' : σ'.Valid) (h0 : Agree0 σ σ') (U : List Name) (f : Forest) :
    analyzeTop U σ f = analyzeTop U σ' f := by
  cases f with
  | nil => rfl
  | node st kids sibs =>
    simp only [analyzeTop, analyzeTopG, blockPre_eq h h' h0, analyzeForest_eq h h' h0, blockPost_perm h h' U [] []]

theorem newSymTable_eq {σ σ' : Order} (h : σ.Valid) (h' : σ'.Valid) (h0 : Agree0 σ σ') (b : Body) :
    newSymTable σ b = newSymTable σ' b := by
  unfold newSymTable
  simp only [analyzeTop_eq h h' h0]

/-! ### interning -/

theorem findIdx_lt_of_mem_same {ks : List K} {k : K} (h : ks.findIdx (K.same k) < ks.length) :
    ∃ k', ks[ks.findIdx (K.same k)]? = some k' ∧ K.same k k' = true := by
  refine ⟨ks[ks.findIdx (K.same k)], by simp [h], ?_⟩
  exact List.findIdx_getElem (w := h)

theorem K.same_refl (k : K) : K.same k k = true := by
  cases k <;> simp [K.same]

theorem K.same_iff (a b : K) : K.same a b = true ↔ a = b := by
  cases a <;> cases b <;> simp [K.same]

end GPy.C18
