/-
C18 specification: "compilation is a deterministic, side-effect-free function of its input".

Written from the property, not from the Go code:

* A compilation pipeline is, in general, a machine that MAY read and write process-global
  state and whose internal walks over unordered containers MAY take any order
  (`Pipeline.run : S → Ω → I → O × S`).
* `Deterministic`: the output does not depend on the state it starts from nor on the orders.
* `Stateless`: it leaves the state as it found it.
* `ScheduleIndependent`: in ANY schedule (any repetition count, any order relative to other
  compilations, each with its own iteration orders) every output is the output the same input
  yields when compiled alone.  This is the property's quantifier "all repetition counts, all
  orders"; `schedule_independent_of_deterministic` derives it.
  (Interleavings of concurrent goroutines reduce to schedules only if compilations do not share
  memory: that premise is the fact table `no_pipeline_state` + the race-detector run; a data race
  proper is outside what this model can express.)

Also here: the hand-written EXPECTATION TABLES that the regenerated fact tables
(GPy.C18.Generated, rewritten by extract/detfacts on every run) are compared with.
Core Lean only.
-/
import GPy.C18.Model
import GPy.C18.Generated
namespace GPy.C18

/-! ## the property, for an abstract pipeline -/

structure Pipeline (S Ω I O : Type) where
  run : S → Ω → I → O × S

variable {S Ω I O : Type}

/-- same input ⇒ same output, whatever the global state and the (admissible) iteration orders -/
def Pipeline.Deterministic (P : Pipeline S Ω I O) (ok : Ω → Prop) : Prop :=
  ∀ s s' ω ω' i, ok ω → ok ω' → (P.run s ω i).1 = (P.run s' ω' i).1

/-- no state is left behind -/
def Pipeline.Stateless (P : Pipeline S Ω I O) : Prop :=
  ∀ s ω i, (P.run s ω i).2 = s

/-- run a schedule of compilations one after the other, threading the global state -/
def Pipeline.runAll (P : Pipeline S Ω I O) : S → List (Ω × I) → List O × S
  | s, [] => ([], s)
  | s, (ω, i) :: rest =>
    let (o, s1) := P.run s ω i
    let (os, s2) := P.runAll s1 rest
    (o :: os, s2)

/-- every output of every schedule is what the input yields when compiled alone
(from the initial state `s0`, with reference orders `ω0`) -/
def Pipeline.ScheduleIndependent (P : Pipeline S Ω I O) (ok : Ω → Prop) : Prop :=
  ∀ s0 ω0 (sched : List (Ω × I)), ok ω0 → (∀ x ∈ sched, ok x.1) →
    (P.runAll s0 sched).1 = sched.map (fun x => (P.run s0 ω0 x.2).1)

/-- ... and the state after the whole schedule is the initial one -/
def Pipeline.LeavesNoTrace (P : Pipeline S Ω I O) : Prop :=
  ∀ s0 (sched : List (Ω × I)), (P.runAll s0 sched).2 = s0

/-! ## expectation tables for the regenerated facts -/

open Generated in
/-- The map-range sites for which an order-independence argument exists, with the argument.
A `range` over a map anywhere in parser/, ast/, symtable/, compile/ that is not listed here
breaks `maprange_sites_covered`. -/
def coveredSites : List (RangeSite × String) := [
  (⟨"parser/lexer.go", "init", "operators"⟩,
   "package initialisation, not reachable from Compile: fills the set of operator start characters (set insertion commutes)"),
  (⟨"parser/lexer.go", "init", "tokens"⟩,
   "package initialisation: builds the inverse token map; keys are distinct, insertion into a map commutes"),
  (⟨"symtable/symtable.go", "AnalyzeCells", "scopes"⟩,
   "C03 site 1: AnalyzeCells_perm (the per-name steps commute) - inside analyze_perm"),
  (⟨"symtable/symtable.go", "StringSet.Update", "other"⟩,
   "C03 sites 4-14: setUpdate_perm (set insertion commutes) - inside analyze_perm"),
  (⟨"symtable/symtable.go", "SymTable.AnalyzeBlock", "st.Symbols"⟩,
   "C03 site 0, now followed by sort.Strings: sort_perm_canonical makes the visiting order canonical (symtable_order_independent, incl. WHICH error is raised)"),
  (⟨"symtable/symtable.go", "SymTable.Find", "st.Symbols"⟩,
   "sites 20/21, followed by sort.Strings: find_sorted_canonical"),
  (⟨"symtable/symtable.go", "Symbols.Update", "free"⟩,
   "C03 site 3: SymbolsUpdate_perm - inside analyze_perm"),
  (⟨"symtable/symtable.go", "Symbols.Update", "symbols"⟩,
   "C03 site 2: SymbolsUpdate_perm - inside analyze_perm")
]

open Generated in
/-- Writes to package-level variables of parser/ast/symtable/compile/py outside `init()` that are
known and argued harmless.  None of them may be reachable from compile.Compile. -/
def allowedWrites : List (GlobalWrite × String) := [
  (⟨"parser.yyDebug", "parser/lexer.go", "SetDebug", "assign", false⟩,
   "debug level of the generated parser, set only by the embedding program through parser.SetDebug; never called by the pipeline"),
  (⟨"py.delayedReady", "py/type.go", "TypeDelayReady", "assign", false⟩,
   "queue of types created by package-level initialisers; drained by py's init()"),
  (⟨"py.delayedReady", "py/type.go", "TypeMakeReady", "assign", false⟩,
   "cleared by py's init() (TypeMakeReady is called from init only)")
]

/-- functions reachable from Compile that call a func-typed struct field or local value (the
extractor cannot name the callee); each one audited by hand -/
def auditedDynamicCallers : List (String × String) := [
  ("ast.Walk", "calls the visitor closure passed by its caller (symtable: closures that only write the tables being built)"),
  ("compile.compiler.compileFunc", "calls its own local closure addAnnotation"),
  ("parser.DecodeEscape", "called by the lexer for string literals; calls its own local closure decodeHex"),
  ("py.Method.Call", "reached by name only (py.Eq → M__eq__ of every type): constants are None/bool/int/float/complex/str/bytes/tuple/code/Ellipsis, whose M__eq__ never calls a Python-level method"),
  ("py.Method.CallWithKeywords", "as py.Method.Call"),
  ("py.Type.M__call__", "as py.Method.Call")
]

/-! ## the model as a pipeline with (potential) global state -/

/-- the global state a compilation could touch: one version counter per package-level variable -/
abbrev GState := String → Nat

def bump (s : GState) (v : String) : GState := fun x => if x = v then s x + 1 else s x

/-- the writes the regenerated fact table attributes to functions reachable from compile.Compile -/
def pipelineWrites : List Generated.GlobalWrite := Generated.globalWrites.filter (·.reach)

/-- gpython's compile pipeline: the result is the model's pure `compile`; the state update is
every write the extractor found reachable from `compile.Compile` -/
def gpy : Pipeline GState (C03.Order × C03.Order) C03.Body (Except CErr (List CodeObj)) :=
  ⟨fun s ω b => (compile ω.1 ω.2 b, pipelineWrites.foldl (fun s w => bump s w.var) s)⟩

end GPy.C18
