/-
C19 round 3: HISTORIES.  What an import finds must depend only on the CURRENT state, never on the
history of earlier attempts.

The state an import reads, component by component (this list is pinned against the Go source by
`extract/importorder`, see `Generated.importReads` and `Props.import_reads_pinned`):

* the context's module store                         (`Ctx.st.store`, `py.ModuleStore.modules`)
* the context's `sys.path`, a mutable Python list     (`Ctx.path`, `sys.Globals["path"]`)
* the file system                                    (`World.fs`: directory ↦ module name ↦ source)
* the importing module's directory                   (`dir` of the `run` step = dirname of `__file__`)
* the process working directory                      (`World.cwd`)
* the registered Go modules                          (`World.goMods`, `py.gRuntime.ModuleImpls`)

There is no other component: the code has no cache besides the store, so the model has none.  A
cache added to the code (e.g. a memo of failed searches) must be added here to keep the
correspondence run green – and then `import_outcome_history_independent` no longer holds.

A scenario is a list of steps; between two scripts run in a context the scenario may change
`sys.path` (append / insert / remove / clear / rebind), create, replace or remove module files,
run the next script from another directory, or in another context.  One `run` step is exactly one
`RunFile` of the static model (`runScript`) in the environment `envNow` computed from the CURRENT
world – so every theorem of rounds 1–2 (which quantify over all environments and all start states)
applies to every step.

Restriction (named `relSafe`): the static model's import function has no importer argument, so
within ONE run step every nested import searches relative to the script's directory.  gpython
resolves a relative `sys.path` entry against the directory of the module that executes the import
statement.  Scenarios are inside the modelled region when no relative entry is ever used or no
module body (file or Go code) contains an import statement.

Core Lean only.
-/
import GPy.C19.Spec
namespace GPy.C19

/-- one entry of `sys.path` -/
inductive PEnt where
  | abs (d : String)     -- absolute directory `<root>/<d>` (need not exist)
  | rel                  -- "." : the importing module's directory, then the working directory
  | junk                 -- not a string (skipped by the search)
deriving DecidableEq, Repr, Inhabited

def PEnt.render : PEnt → String
  | .abs d => d | .rel => "." | .junk => "#"

/-- the file system: directory name ↦ (module name ↦ source file) -/
abbrev FS := Dict (Dict Src)

def FS.dir (fs : FS) (d : String) : Dict Src := (Dict.get fs d).getD []

/-- mutations of the list object `sys.path` (or of the attribute) -/
inductive PathOp where
  | append (e : PEnt)             -- sys.path.append(e)
  | insert (i : Nat) (e : PEnt)   -- sys.path.insert(i, e)
  | remove (e : PEnt)             -- sys.path.remove(e)      ValueError when absent
  | clear                         -- sys.path.clear()
  | rebind (l : List PEnt)        -- sys.path = [...]
deriving DecidableEq, Repr, Inhabited

/-- new value of `sys.path`, and whether the statement succeeded -/
def PathOp.apply : PathOp → List PEnt → List PEnt × Bool
  | .append e, l => (l ++ [e], true)
  | .insert i e, l => (l.take i ++ [e] ++ l.drop i, true)
  | .remove e, l => if l.contains e then (l.erase e, true) else (l, false)
  | .clear, _ => ([], true)
  | .rebind l', _ => (l', true)

/-- one interpreter context -/
structure Ctx where
  st : St := {}                 -- module objects, store, log
  path : List PEnt := []        -- sys.path
  res : List String := []       -- outcome of every step executed in this context, oldest first
deriving Repr, Inhabited

structure World where
  goMods : Dict GoImpl := []    -- `py.RegisterModule` (process wide)
  cwd : String := "cw"
  fs : FS := []
  ctxs : List Ctx := []

inductive Step where
  | path (c : Nat) (op : PathOp)                 -- executed in context `c`
  | write (dir name : String) (src : Src)        -- create / replace `<dir>/<name>.py`
  | remove (dir name : String)                   -- delete `<dir>/<name>.py`
  | run (c : Nat) (dir : String) (body : Body)   -- `RunFile(<dir>/s<i>.py)` in context `c`
deriving Repr, Inhabited

/-- the directories one import searches NOW, in order (`resolveRunPath` over the current `sys.path`
for an importer whose `__file__` lies in `cur`) -/
def searchDirs (cwd cur : String) : List PEnt → List String
  | [] => []
  | .abs d :: r => d :: searchDirs cwd cur r
  | .rel :: r => cur :: cwd :: searchDirs cwd cur r
  | .junk :: r => searchDirs cwd cur r

/-- the environment of the static model, computed from the current world: nothing else is read -/
def envNow (goMods : Dict GoImpl) (cwd : String) (fs : FS) (path : List PEnt) (cur : String) : Env :=
  { goMods := goMods,
    dirs := (searchDirs cwd cur path).map fs.dir,
    lab := fun i => (searchDirs cwd cur path).getD i "?" }

/-- `py.RunFile(ctx, file, opts, nil)` with the order of effects a parameter (cf. `runScriptsO`) -/
def runScriptO (o : Orders) (env : Env) (fuel : Nat) (file : String) (body : Body) (st : St) : St × Except Fail Nat :=
  loadO o.moduleInit env (importModuleO o env fuel) "__main__" (initGlobals "__main__" (some file) {}) (some body) st

def World.updCtx (w : World) (c : Nat) (f : Ctx → Ctx) : World := { w with ctxs := updAt w.ctxs c f }

def scriptFile (dir : String) (i : Nat) : String := s!"{dir}/s{i}.py"

def Ctx.applyPath (x : Ctx) (op : PathOp) : Ctx :=
  { x with path := (op.apply x.path).1, res := x.res ++ [if (op.apply x.path).2 then "ok" else "E:ValueError"] }

/-- one run step in context `x`, reading the world's current file system -/
def Ctx.runO (o : Orders) (goMods : Dict GoImpl) (cwd : String) (fs : FS) (i : Nat) (dir : String) (body : Body) (x : Ctx) : Ctx :=
  let env := envNow goMods cwd fs x.path dir
  let r := runScriptO o env (fuelFor env) (scriptFile dir i) body x.st
  { x with st := r.1, res := x.res ++ [renderRes r.2] }

def FS.write (fs : FS) (d n : String) (src : Src) : FS := Dict.set fs d (Dict.set (fs.dir d) n src)
def FS.remove (fs : FS) (d n : String) : FS := Dict.set fs d (Dict.erase (fs.dir d) n)

/-- one step of a scenario (`i` = its index, which names the script file) -/
def stepO (o : Orders) (i : Nat) (w : World) : Step → World
  | .path c op => w.updCtx c (·.applyPath op)
  | .write d n src => { w with fs := w.fs.write d n src }
  | .remove d n => { w with fs := w.fs.remove d n }
  | .run c dir body => w.updCtx c (Ctx.runO o w.goMods w.cwd w.fs i dir body)

def runStepsO (o : Orders) : List Step → Nat → World → World
  | [], _, w => w
  | s :: rest, i, w => runStepsO o rest (i + 1) (stepO o i w s)

/-- the hand-written model (`runScript`): what the theorems are about -/
def Ctx.run (goMods : Dict GoImpl) (cwd : String) (fs : FS) (i : Nat) (dir : String) (body : Body) (x : Ctx) : Ctx :=
  let env := envNow goMods cwd fs x.path dir
  let r := runScript env (fuelFor env) (scriptFile dir i) body x.st
  { x with st := r.1, res := x.res ++ [renderRes r.2] }

def step (i : Nat) (w : World) : Step → World
  | .path c op => w.updCtx c (·.applyPath op)
  | .write d n src => { w with fs := w.fs.write d n src }
  | .remove d n => { w with fs := w.fs.remove d n }
  | .run c dir body => w.updCtx c (Ctx.run w.goMods w.cwd w.fs i dir body)

def runSteps : List Step → Nat → World → World
  | [], _, w => w
  | s :: rest, i, w => runSteps rest (i + 1) (step i w s)

/-- ONE import statement's worth of machinery in the dynamic world: `ImportModuleLevelObject(name)`
issued NOW by a module living in `dir`, in context `x`.  It receives exactly the components listed
in the header – and no history. -/
def importNow (goMods : Dict GoImpl) (cwd : String) (fs : FS) (dir : String) (fuel : Nat) (name : String) (x : Ctx) :
    Ctx × Except Fail Nat :=
  let r := importModule (envNow goMods cwd fs x.path dir) fuel name x.st
  ({ x with st := r.1 }, r.2)

/-! ### Spec: Python's rule, stated on the reference interpreter

`import N` = if `N` is in the context's `sys.modules`: that module; else search NOW (current
`sys.path`, current file system, importer directory / cwd for a relative entry as the code does),
create, cache, run the body once; un-cache on failure.  A failed import leaves `sys.modules`,
`sys.path` and the file system as they were, except for what the partially executed body itself
did (modules it imported stay cached, objects it mutated stay mutated, its log entries stay). -/

namespace Spec

/-- the path-based finder's candidate directories, written as a comprehension -/
def candidateDirs (cwd cur : String) (path : List PEnt) : List String :=
  path.flatMap fun e => match e with
    | .abs d => [d]
    | .rel => [cur, cwd]
    | .junk => []

def envNow (goMods : Dict GoImpl) (cwd : String) (fs : FS) (path : List PEnt) (cur : String) : Env :=
  let ds := candidateDirs cwd cur path
  { goMods := goMods, dirs := ds.map fun d => (Dict.get fs d).getD [], lab := fun i => ds.getD i "?" }

structure SCtx where
  s : S := {}
  path : List PEnt := []
  res : List String := []

structure SWorld where
  goMods : Dict GoImpl := []
  cwd : String := "cw"
  fs : FS := []
  ctxs : List SCtx := []

def SWorld.updCtx (w : SWorld) (c : Nat) (f : SCtx → SCtx) : SWorld := { w with ctxs := updAt w.ctxs c f }

def step (i : Nat) (w : SWorld) : Step → SWorld
  | .path c op => w.updCtx c fun x =>
      let (p, ok) := op.apply x.path
      { x with path := p, res := x.res ++ [if ok then "ok" else "E:ValueError"] }
  | .write d n src => { w with fs := Dict.set w.fs d (Dict.set ((Dict.get w.fs d).getD []) n src) }
  | .remove d n => { w with fs := Dict.set w.fs d (Dict.erase ((Dict.get w.fs d).getD []) n) }
  | .run c dir body => w.updCtx c fun x =>
      let env := envNow w.goMods w.cwd w.fs x.path dir
      let (s, r) := load (importModule env (fuelFor env)) "__main__" (freshNs "__main__" (some s!"{dir}/s{i}.py") [] []) (some body) false x.s
      { x with s := s, res := x.res ++ [renderRes r] }

def runSteps : List Step → Nat → SWorld → SWorld
  | [], _, w => w
  | s :: rest, i, w => runSteps rest (i + 1) (step i w s)

end Spec

/-! ### rendering -/

def renderPathRes (path : List PEnt) (res : List String) : String :=
  ";O:" ++ ",".intercalate res ++ ";P[" ++ ",".intercalate (path.map PEnt.render) ++ "]"

def renderCtx (x : Ctx) : String :=
  renderRun x.st.trace x.st.heap x.st.store [] ++ renderPathRes x.path x.res

def renderSCtx (x : Spec.SCtx) : String :=
  renderRun x.s.trace x.s.objs x.s.sysModules [] ++ renderPathRes x.path x.res

def renderWorld (w : World) : String := " || ".intercalate (w.ctxs.map renderCtx)
def renderSWorld (w : Spec.SWorld) : String := " || ".intercalate (w.ctxs.map renderSCtx)

/-! ### the modelled region -/

def PathOp.usesRel : PathOp → Bool
  | .append e => e == .rel | .insert _ e => e == .rel | .remove _ => false | .clear => false
  | .rebind l => l.contains .rel

def bodyImports (b : Body) : Bool := b.any fun s => s.simple.target.isSome

def srcImports : Src → Bool
  | .code b => bodyImports b | .bad => false

/-- a relative `sys.path` entry occurs somewhere in the scenario -/
def usesRel (w : World) (steps : List Step) : Bool :=
  w.ctxs.any (fun x => x.path.contains .rel) ||
  steps.any fun s => match s with | .path _ op => op.usesRel | _ => false

/-- some module body (initial file, written file, Go module code) contains an import statement -/
def nestedImports (w : World) (steps : List Step) : Bool :=
  w.goMods.any (fun p => match p.2.body with | some b => bodyImports b | none => false) ||
  w.fs.any (fun d => d.2.any fun f => srcImports f.2) ||
  steps.any fun s => match s with | .write _ _ src => srcImports src | _ => false

/-- inside the modelled region: no relative entry, or no nested imports -/
def relSafe (w : World) (steps : List Step) : Bool := !usesRel w steps || !nestedImports w steps

end GPy.C19
