/-
C19 round 3: lemmas about histories (Dyn.lean).  Core Lean only.

* `Extends`: an import only appends module objects and log entries (never renames or drops one);
* `pre`-equivariance: every function of the import machinery commutes with prepending events to
  the trace – the trace is write-only, so the outcome of an import is a function of
  (heap, store) and the environment alone;
* the per-context invariants (`WF`, `RanIdOK`, `RanNameOK`) along whole histories;
* the model's search (`searchDirs`) = the spec's comprehension (`Spec.candidateDirs`).
-/
import GPy.C19.Refine
import GPy.C19.Dyn
namespace GPy.C19

/-! ### an import only extends heap and trace -/

def Extends (a b : St) : Prop :=
  a.heap.length ≤ b.heap.length ∧
  (∀ id, id < a.heap.length → (b.heap.getD id default).name = (a.heap.getD id default).name) ∧
  ∃ t, b.trace = a.trace ++ t

theorem Extends.rfl' (a : St) : Extends a a := ⟨Nat.le_refl _, fun _ _ => rfl, [], by simp⟩

theorem Extends.trans' {a b c : St} (h1 : Extends a b) (h2 : Extends b c) : Extends a c := by
  obtain ⟨l1, n1, t1, e1⟩ := h1
  obtain ⟨l2, n2, t2, e2⟩ := h2
  refine ⟨Nat.le_trans l1 l2, ?_, t1 ++ t2, by rw [e2, e1, List.append_assoc]⟩
  intro id hid
  rw [n2 id (Nat.lt_of_lt_of_le hid l1), n1 id hid]

theorem extends_rel : Rel Extends where
  refl := Extends.rfl'
  trans := Extends.trans'
  setGlobal := by
    intro st id k v
    exact ⟨by simp, fun j _ => setGlobal_name st id j k v, [], by simp⟩
  emit := fun st e _ => ⟨Nat.le_refl _, fun _ _ => rfl, [e], rfl⟩

theorem extends_emit (st : St) (e : Ev) : Extends st (st.emit e) := ⟨Nat.le_refl _, fun _ _ => rfl, [e], rfl⟩

theorem extends_newSt (st : St) (name : String) (g0 : Dict Val) : Extends st (newSt st name g0) := by
  refine ⟨by simp [newSt_heap], ?_, [.created st.heap.length name], newSt_trace st name g0⟩
  intro id hid
  rw [newSt_heap, getD_append_lt _ _ _ hid]

section ext
variable (env : Env) (imp : ImpFn)

theorem moduleInit_extends (himp : ∀ n st, Extends st (imp n st).1) (name g0 code) (st : St) :
    Extends st (moduleInit env imp name g0 code st).1 := by
  apply moduleInit_post env imp extends_rel himp (fun b => Extends st b)
  · intro a b hab ha; exact ha.trans' hab
  · intro _; exact extends_newSt st name g0
  · intro _; exact (extends_newSt st name g0).trans' (extends_emit _ _)
  · intro a ha; exact ha.trans' (extends_emit _ _)

theorem loadModule_extends (himp : ∀ n st, Extends st (imp n st).1) (name g0 code) (st : St) :
    Extends st (loadModule env imp name g0 code st).1 := by
  have hx := moduleInit_extends env imp himp name g0 code st
  unfold loadModule
  split
  · next st1 f heq =>
    rw [heq] at hx
    exact hx.trans' ⟨Nat.le_refl _, fun _ _ => rfl, [.failed name], rfl⟩
  · exact hx

end ext

theorem importModule_extends (env : Env) : ∀ fuel name st, Extends st (importModule env fuel name st).1 := by
  intro fuel
  induction fuel with
  | zero =>
    intro name st
    unfold importModule
    split
    · exact extends_emit _ _
    · exact Extends.rfl' _
  | succ n ih =>
    intro name st
    unfold importModule
    split
    · exact extends_emit _ _
    · simp only
      split
      · exact loadModule_extends env _ ih _ _ _ _
      · split
        · exact Extends.rfl' _
        · exact Extends.rfl' _
        · exact loadModule_extends env _ ih _ _ _ _

/-! ### the trace is write-only -/

/-- the same state with `p` prepended to its log -/
def St.pre (st : St) (p : List Ev) : St := { st with trace := p ++ st.trace }

def preR {α} (p : List Ev) (r : St × α) : St × α := (r.1.pre p, r.2)

@[simp] theorem pre_heap (st : St) (p) : (st.pre p).heap = st.heap := rfl
@[simp] theorem pre_store (st : St) (p) : (st.pre p).store = st.store := rfl
@[simp] theorem pre_globalsOf (st : St) (p) (id : Nat) : (st.pre p).globalsOf id = st.globalsOf id := rfl
theorem pre_setGlobal (st : St) (p) (id : Nat) (k : String) (v : Val) :
    (st.pre p).setGlobal id k v = (st.setGlobal id k v).pre p := rfl
theorem pre_emit (st : St) (p) (e : Ev) : (st.pre p).emit e = (st.emit e).pre p := by
  simp [St.pre, St.emit, List.append_assoc]

theorem fromItems_pre (p : List Ev) (src cur : Nat) (items : List (String × String)) (st : St) :
    fromItems src cur items (st.pre p) = preR p (fromItems src cur items st) := by
  induction items generalizing st with
  | nil => rfl
  | cons ab rest ih =>
    obtain ⟨a, b⟩ := ab
    simp only [fromItems, pre_globalsOf]
    cases (st.globalsOf src).get a with
    | none => rfl
    | some v => simp only [pre_setGlobal]; exact ih _

theorem starAll_pre (p : List Ev) (src : Dict Val) (cur : Nat) (l : List String) (st : St) :
    starAll src cur l (st.pre p) = preR p (starAll src cur l st) := by
  induction l generalizing st with
  | nil => rfl
  | cons k rest ih =>
    simp only [starAll]
    cases src.get k with
    | none => rfl
    | some v => simp only [pre_setGlobal]; exact ih _

theorem starPlain_pre (p : List Ev) (src : Dict Val) (cur : Nat) (l : List String) (st : St) :
    starPlain src cur l (st.pre p) = (starPlain src cur l st).pre p := by
  induction l generalizing st with
  | nil => rfl
  | cons k rest ih =>
    simp only [starPlain]
    split
    · exact ih _
    · cases src.get k with
      | none => exact ih _
      | some v => simp only [pre_setGlobal]; exact ih _

theorem importStar_pre (env : Env) (p : List Ev) (src : Dict Val) (cur : Nat) (st : St) :
    importStar env src cur (st.pre p) = preR p (importStar env src cur st) := by
  unfold importStar
  split
  · exact starAll_pre p src cur _ st
  · rfl
  · simp only [starPlain_pre]; rfl

section pre
variable (env : Env) (imp : ImpFn) (p : List Ev) (himp : ∀ n st, imp n (st.pre p) = preR p (imp n st))
include himp

theorem execSimple_pre (cur : Nat) (s : Simple) (st : St) :
    execSimple env imp cur s (st.pre p) = preR p (execSimple env imp cur s st) := by
  cases s with
  | imp m =>
    simp only [execSimple, himp]
    generalize imp m st = r
    obtain ⟨st1, r⟩ := r
    cases r <;> rfl
  | impAs m n =>
    simp only [execSimple, himp]
    generalize imp m st = r
    obtain ⟨st1, r⟩ := r
    cases r <;> rfl
  | from_ m items =>
    simp only [execSimple, himp]
    generalize imp m st = r
    obtain ⟨st1, r⟩ := r
    cases r with
    | error f => rfl
    | ok id => exact fromItems_pre p id cur items st1
  | star m =>
    simp only [execSimple, himp]
    generalize imp m st = r
    obtain ⟨st1, r⟩ := r
    cases r with
    | error f => rfl
    | ok id => exact importStar_pre env p (st1.globalsOf id) cur st1
  | rel m a => rfl
  | bind x v => rfl
  | setAll l => rfl
  | mutate n a v =>
    simp only [execSimple, pre_globalsOf]
    split <;> rfl
  | log tag => simp only [execSimple, pre_heap, pre_store, pre_emit]; rfl

theorem execStmt_pre (cur : Nat) (s : Stmt) (st : St) :
    execStmt env imp cur s (st.pre p) = preR p (execStmt env imp cur s st) := by
  cases s with
  | plain s => exact execSimple_pre env imp p himp cur s st
  | tried s =>
    simp only [execStmt, execSimple_pre env imp p himp cur s st]
    generalize execSimple env imp cur s st = r
    obtain ⟨st1, f⟩ := r
    cases f with
    | none => rfl
    | some f =>
      cases f with
      | fuel => rfl
      | raise e => simp only [preR, pre_heap, pre_emit]

theorem execBody_pre (cur : Nat) (body : Body) (st : St) :
    execBody env imp cur body (st.pre p) = preR p (execBody env imp cur body st) := by
  induction body generalizing st with
  | nil => rfl
  | cons s rest ih =>
    simp only [execBody, execStmt_pre env imp p himp cur s st]
    generalize execStmt env imp cur s st = r
    obtain ⟨st1, f⟩ := r
    cases f with
    | some f => rfl
    | none => exact ih st1

theorem moduleInit_pre (name : String) (g0 : Dict Val) (code : Option Body) (st : St) :
    moduleInit env imp name g0 code (st.pre p) = preR p (moduleInit env imp name g0 code st) := by
  have hnew : newSt (st.pre p) name g0 = (newSt st name g0).pre p := by
    simp [newSt, St.pre, St.emit, List.append_assoc]
  rw [moduleInit_eq, moduleInit_eq]
  cases code with
  | none => simp only [hnew, pre_heap]; rfl
  | some body =>
    simp only [hnew, pre_heap, pre_emit, execBody_pre env imp p himp]
    generalize execBody env imp st.heap.length body _ = r
    obtain ⟨st1, f⟩ := r
    cases f with
    | some f => rfl
    | none => simp only [preR, pre_emit]

theorem loadModule_pre (name : String) (g0 : Dict Val) (code : Option Body) (st : St) :
    loadModule env imp name g0 code (st.pre p) = preR p (loadModule env imp name g0 code st) := by
  unfold loadModule
  rw [moduleInit_pre env imp p himp]
  generalize moduleInit env imp name g0 code st = r
  obtain ⟨st1, res⟩ := r
  cases res with
  | ok id => rfl
  | error f => simp [preR, St.pre, St.emit, List.append_assoc]

end pre

theorem importModule_pre (env : Env) (p : List Ev) : ∀ fuel name st,
    importModule env fuel name (st.pre p) = preR p (importModule env fuel name st) := by
  intro fuel
  induction fuel with
  | zero =>
    intro name st
    unfold importModule
    simp only [pre_store]
    cases st.store.get name with
    | some id => simp only [pre_emit]; rfl
    | none => rfl
  | succ n ih =>
    intro name st
    unfold importModule
    simp only [pre_store]
    cases st.store.get name with
    | some id => simp only [pre_emit]; rfl
    | none =>
      simp only
      cases env.goMods.get name with
      | some impl => exact loadModule_pre env _ p ih _ _ _ _
      | none =>
        simp only
        cases resolve env.lab env.dirs 0 name with
        | none => rfl
        | some fs =>
          obtain ⟨file, src⟩ := fs
          cases src with
          | bad => rfl
          | code body => exact loadModule_pre env _ p ih _ _ _ _

/-- two states with the same module objects and the same store (their logs may differ) -/
def SameMem (a b : St) : Prop := a.heap = b.heap ∧ a.store = b.store

theorem St.eq_pre (a : St) : a = ({ a with trace := [] } : St).pre a.trace := by
  simp [St.pre]

/-- **the outcome of an import is a function of (heap, store, environment)**: whatever was logged before -/
theorem importModule_sameMem (env : Env) (fuel : Nat) (name : String) (a b : St) (h : SameMem a b) :
    (importModule env fuel name a).2 = (importModule env fuel name b).2 ∧
    SameMem (importModule env fuel name a).1 (importModule env fuel name b).1 ∧
    ∃ t, (importModule env fuel name a).1.trace = a.trace ++ t ∧ (importModule env fuel name b).1.trace = b.trace ++ t := by
  have ha := St.eq_pre a
  have hb : b = ({ a with trace := [] } : St).pre b.trace := by
    obtain ⟨h1, h2⟩ := h
    cases a; cases b
    simp only at h1 h2
    subst h1; subst h2
    simp [St.pre]
  generalize ({ a with trace := [] } : St) = base at ha hb
  have ea := importModule_pre env a.trace fuel name base
  have eb := importModule_pre env b.trace fuel name base
  rw [← ha] at ea
  rw [← hb] at eb
  rw [ea, eb]
  refine ⟨rfl, ⟨rfl, rfl⟩, (importModule env fuel name base).1.trace, ?_, ?_⟩
  · simp [preR, St.pre]
  · simp [preR, St.pre]

/-! ### the generated order -/

theorem runScriptO_canonical (env : Env) (fuel : Nat) (file : String) (body : Body) (st : St) :
    runScriptO canonicalOrders env fuel file body st = runScript env fuel file body st := by
  simp only [runScriptO, runScript, importModuleO_canonical, canonical_moduleInit, loadO_moduleInit]

theorem stepO_canonical (i : Nat) (w : World) (s : Step) : stepO canonicalOrders i w s = step i w s := by
  cases s with
  | run c dir body =>
    simp only [stepO, step]
    congr 1
    funext x
    simp only [Ctx.runO, Ctx.run, runScriptO_canonical]
  | _ => rfl

theorem runStepsO_canonical : ∀ (steps : List Step) (i : Nat) (w : World),
    runStepsO canonicalOrders steps i w = runSteps steps i w := by
  intro steps
  induction steps with
  | nil => intro i w; rfl
  | cons s rest ih => intro i w; simp only [runStepsO, runSteps, stepO_canonical, ih]

/-! ### invariants along histories -/

theorem mem_updAt {α} (l : List α) (c : Nat) (f : α → α) (y : α) (h : y ∈ updAt l c f) :
    y ∈ l ∨ ∃ x ∈ l, y = f x := by
  induction l generalizing c with
  | nil => simp [updAt] at h
  | cons x xs ih =>
    cases c with
    | zero =>
      simp only [updAt, List.mem_cons] at h
      rcases h with h | h
      · right; exact ⟨x, by simp, h⟩
      · left; simp [h]
    | succ c =>
      simp only [updAt, List.mem_cons] at h
      rcases h with h | h
      · left; simp [h]
      · rcases ih c h with h' | ⟨x', hx', e⟩
        · left; simp [h']
        · right; exact ⟨x', by simp [hx'], e⟩

/-- what every context satisfies at every point of every history -/
def CtxInv (x : Ctx) : Prop := WF x.st ∧ RanIdOK x.st ∧ RanNameOK x.st

theorem ctxInv_empty (path : List PEnt) (res : List String) : CtxInv { st := {}, path := path, res := res } := by
  refine ⟨?_, ?_, ?_⟩
  · intro m id h; simp [Dict.get] at h
  · intro i; simp [ranCountId]
  · intro m _; simp [ranCount]

theorem ctxRun_inv (goMods cwd fs i dir body) (x : Ctx) (h : CtxInv x) : CtxInv (Ctx.run goMods cwd fs i dir body x) := by
  have k := runScript_inv (envNow goMods cwd fs x.path dir) (fuelFor (envNow goMods cwd fs x.path dir)) (scriptFile dir i) body x.st
  exact ⟨k.1 h.1, k.2.1 h.2.1, k.2.2.1 h.2.2⟩

theorem step_inv (i : Nat) (w : World) (s : Step) (h : ∀ x ∈ w.ctxs, CtxInv x) : ∀ x ∈ (step i w s).ctxs, CtxInv x := by
  cases s with
  | path c op =>
    intro y hy
    rcases mem_updAt _ _ _ _ hy with h' | ⟨x, hx, e⟩
    · exact h y h'
    · rw [e]; exact h x hx
  | write d n src => exact h
  | remove d n => exact h
  | run c dir body =>
    intro y hy
    rcases mem_updAt _ _ _ _ hy with h' | ⟨x, hx, e⟩
    · exact h y h'
    · rw [e]; exact ctxRun_inv _ _ _ _ _ _ x (h x hx)

theorem runSteps_inv : ∀ (steps : List Step) (i : Nat) (w : World), (∀ x ∈ w.ctxs, CtxInv x) →
    ∀ x ∈ (runSteps steps i w).ctxs, CtxInv x := by
  intro steps
  induction steps with
  | nil => intro i w h; exact h
  | cons s rest ih => intro i w h; exact ih (i + 1) _ (step_inv i w s h)

/-! ### the search: model recursion = spec comprehension -/

theorem searchDirs_eq (cwd cur : String) (path : List PEnt) : searchDirs cwd cur path = Spec.candidateDirs cwd cur path := by
  induction path with
  | nil => rfl
  | cons e r ih =>
    cases e <;> simp [searchDirs, Spec.candidateDirs, List.flatMap_cons] <;> simpa [Spec.candidateDirs] using ih

theorem envNow_eq (goMods cwd fs path cur) : envNow goMods cwd fs path cur = Spec.envNow goMods cwd fs path cur := by
  simp only [envNow, Spec.envNow, searchDirs_eq]
  rfl

theorem updAt_getD_ne {α} (l : List α) (c j : Nat) (f : α → α) (d : α) (h : j ≠ c) : (updAt l c f).getD j d = l.getD j d := by
  rw [updAt_getD]; simp [h]

/-! ### what the import path touches, component by component

The right column says which component of the model's state (Dyn.lean header) the entry is, or why
it is not state an import's outcome can depend on.  `Props.import_reads_pinned` compares the left
column with the list `extract/importorder` regenerates from the Go source on every run. -/

def modelledReads : List (String × String) :=
  [("CompileOpts.CurDir", "importer directory: `dir` of the run step (dirname of the importing module's __file__)"),
   ("CompileOpts.UseSysPaths", "constant true on the import path"),
   ("CompileOut.PycPathname", "output of the search (.pyc files are not modelled)"),
   ("CompileOut.SrcPathname", "output of the search"),
   ("CompileOut|ModuleImpl.Code", "output of the search / the compiled CodeSrc of a registered Go module: a pure function of ModuleImpl.CodeSrc, which is fixed at registration (World.goMods)"),
   ("CompileOut|ModuleInfo.FileDesc", "output of the search: __file__ of the new module (Env.lab)"),
   ("Module.ModuleImpl", "OnContextClosed only (name-matched Close path)"),
   ("ModuleImpl.CodeBuf", "registered Go modules: World.goMods (marshalled code is not modelled)"),
   ("ModuleImpl.CodeSrc", "registered Go modules: World.goMods (GoImpl.body)"),
   ("ModuleImpl.Info", "registered Go modules: World.goMods"),
   ("ModuleImpl.Methods", "registered Go modules: World.goMods (GoImpl.methods)"),
   ("ModuleImpl.OnContextClosed", "Close path only"),
   ("ModuleInfo.Doc", "registered Go modules: World.goMods"),
   ("ModuleInfo.Name", "registered Go modules: World.goMods (the key)"),
   ("ModuleStore.Builtins", "written by NewModule for the name builtins; never read by the search"),
   ("ModuleStore.Importlib", "written by NewModule for the name importlib; never read by the search"),
   ("ModuleStore.modules", "THE MODULE STORE: Ctx.st.store"),
   ("Module|ModuleImpl.Globals", "module namespaces: Ctx.st.heap; GoImpl.globals; sys.Globals[path] = Ctx.path"),
   ("Runtime.ModuleImpls", "registered Go modules: World.goMods"),
   ("Runtime|context.mu", "locks (C09)"),
   ("context.closeOnce", "context life cycle (C09), not consulted for the outcome of an import in an open context"),
   ("context.closed", "context life cycle (C09)"),
   ("context.closing", "context life cycle (C09)"),
   ("context.done", "context life cycle (C09)"),
   ("context.idle", "context life cycle (C09)"),
   ("context.running", "context life cycle (C09)"),
   ("context.store", "pointer to the module store: Ctx.st"),
   ("key:__doc__", "attribute NewModule writes"),
   ("key:__file__", "importer directory (read) / attribute NewModule writes"),
   ("key:__name__", "attribute NewModule writes"),
   ("key:__package__", "attribute NewModule writes"),
   ("key:path", "sys.path: Ctx.path"),
   ("os.Getwd", "working directory: World.cwd"),
   ("os.IsNotExist", "file system: World.fs"),
   ("os.Open", "file system (.pyc, not modelled)"),
   ("os.ReadFile", "file system: World.fs"),
   ("os.Stat", "file system: World.fs"),
   ("var:py.gRuntime", "registered Go modules: World.goMods"),
   ("var:stdlib.defaultPaths", "search path when UseSysPaths is false (never on the import path)"),
   ("var:stdlib.implCodeMu", "lock around the lazy compilation of ModuleImpl.Code")]

/-! ### contexts are independent -/

def Step.ctx : Step → Option Nat
  | .run c _ _ => some c | .path c _ => some c | _ => none

theorem step_other_ctx (i : Nat) (w : World) (s : Step) (j : Nat) (hj : s.ctx ≠ some j) :
    (step i w s).ctxs.getD j default = w.ctxs.getD j default := by
  cases s with
  | path c op =>
    have : j ≠ c := fun e => hj (by simp [Step.ctx, e])
    simp only [step, World.updCtx]; exact updAt_getD_ne _ _ _ _ _ this
  | run c dir body =>
    have : j ≠ c := fun e => hj (by simp [Step.ctx, e])
    simp only [step, World.updCtx]; exact updAt_getD_ne _ _ _ _ _ this
  | write d n src => rfl
  | remove d n => rfl

theorem step_static (i : Nat) (w : World) (s : Step) : (step i w s).goMods = w.goMods ∧ (step i w s).cwd = w.cwd := by
  cases s <;> exact ⟨rfl, rfl⟩

theorem runSteps_static : ∀ (steps : List Step) (i : Nat) (w : World),
    (runSteps steps i w).goMods = w.goMods ∧ (runSteps steps i w).cwd = w.cwd := by
  intro steps
  induction steps with
  | nil => intro i w; exact ⟨rfl, rfl⟩
  | cons s rest ih =>
    intro i w
    have h1 := ih (i + 1) (step i w s)
    have h2 := step_static i w s
    exact ⟨h1.1.trans h2.1, h1.2.trans h2.2⟩

theorem envNow_congr (goMods cwd) (fs1 fs2 : FS) (path cur) (h : ∀ d, fs1.dir d = fs2.dir d) :
    envNow goMods cwd fs1 path cur = envNow goMods cwd fs2 path cur := by
  have : fs1.dir = fs2.dir := funext h
  simp only [envNow, this]



/-! ### the dynamic model refines the dynamic reference interpreter -/

inductive All2 {α β} (R : α → β → Prop) : List α → List β → Prop
  | nil : All2 R [] []
  | cons {a b l l'} : R a b → All2 R l l' → All2 R (a :: l) (b :: l')

structure CSim (x : Ctx) (sx : Spec.SCtx) : Prop where
  st : Sim x.st sx.s
  path : x.path = sx.path
  res : x.res = sx.res

structure WSim (w : World) (sw : Spec.SWorld) : Prop where
  goMods : w.goMods = sw.goMods
  cwd : w.cwd = sw.cwd
  fs : w.fs = sw.fs
  ctxs : All2 CSim w.ctxs sw.ctxs

/-- every body the world can load is outside the dotted-name region (C19-K01) -/
def WorldOK (goMods : Dict GoImpl) (fs : FS) : Prop :=
  (∀ name impl b, goMods.get name = some impl → impl.body = some b → BodyOK b) ∧
  (∀ d name b, (fs.dir d).get name = some (.code b) → BodyOK b)

def StepOK : Step → Prop
  | .write _ _ (.code b) => BodyOK b
  | .run _ _ b => BodyOK b
  | _ => True

theorem envOK_now (goMods cwd fs path cur) (h : WorldOK goMods fs) : EnvOK (envNow goMods cwd fs path cur) := by
  refine ⟨h.1, ?_⟩
  intro name file b hres
  obtain ⟨d, hd, hg⟩ := resolve_mem_dir _ _ _ _ _ _ hres
  simp only [envNow, List.mem_map] at hd
  obtain ⟨dn, _, rfl⟩ := hd
  exact h.2 dn name b hg

theorem fs_write_dir (fs : FS) (d n : String) (src : Src) (d' : String) :
    (fs.write d n src).dir d' = if d' = d then Dict.set (fs.dir d) n src else fs.dir d' := by
  unfold FS.write FS.dir
  rw [Dict.get_set]
  split <;> rfl

theorem fs_remove_dir (fs : FS) (d n : String) (d' : String) :
    (fs.remove d n).dir d' = if d' = d then Dict.erase (fs.dir d) n else fs.dir d' := by
  unfold FS.remove FS.dir
  rw [Dict.get_set]
  split <;> rfl

theorem worldOK_write (goMods fs d n src) (h : WorldOK goMods fs) (hs : ∀ b, src = .code b → BodyOK b) :
    WorldOK goMods (fs.write d n src) := by
  refine ⟨h.1, ?_⟩
  intro d' name b hg
  rw [fs_write_dir] at hg
  split at hg
  · next e =>
    rw [Dict.get_set] at hg
    split at hg
    · simp only [Option.some.injEq] at hg; exact hs b hg
    · exact h.2 d name b hg
  · exact h.2 d' name b hg

theorem worldOK_remove (goMods fs d n) (h : WorldOK goMods fs) : WorldOK goMods (fs.remove d n) := by
  refine ⟨h.1, ?_⟩
  intro d' name b hg
  rw [fs_remove_dir] at hg
  split at hg
  · rw [Dict.get_erase] at hg
    split at hg
    · simp at hg
    · exact h.2 d name b hg
  · exact h.2 d' name b hg

theorem forall2_updAt {α β} {R : α → β → Prop} {f : α → α} {g : β → β} (hfg : ∀ a b, R a b → R (f a) (g b)) :
    ∀ {l : List α} {l' : List β} (c : Nat), All2 R l l' → All2 R (updAt l c f) (updAt l' c g) := by
  intro l l' c h
  induction h generalizing c with
  | nil => exact .nil
  | cons hab _ ih =>
    cases c with
    | zero => exact .cons (hfg _ _ hab) (by assumption)
    | succ c => exact .cons hab (ih c)

theorem ctxRun_sim (goMods cwd fs i dir body) (hw : WorldOK goMods fs) (hb : BodyOK body) (x : Ctx) (sx : Spec.SCtx)
    (h : CSim x sx) :
    CSim (Ctx.run goMods cwd fs i dir body x)
      (let env := Spec.envNow goMods cwd fs sx.path dir
       let r := Spec.load (Spec.importModule env (fuelFor env)) "__main__"
         (Spec.freshNs "__main__" (some s!"{dir}/s{i}.py") [] []) (some body) false sx.s
       { sx with s := r.1, res := sx.res ++ [renderRes r.2] }) := by
  have henv := envOK_now goMods cwd fs x.path dir hw
  have hord : ∀ l k, k ∈ (envNow goMods cwd fs x.path dir).ord l ↔ k ∈ l := fun l k => Iff.rfl
  have h1 := load_sim (envNow goMods cwd fs x.path dir) hord _ _
    (importModule_sim _ hord henv (fuelFor (envNow goMods cwd fs x.path dir))) false "__main__" _ _
    (initGlobals_freshNs "__main__" (some (scriptFile dir i)) {}) (some body)
    (fun b' hb' => by cases hb'; exact hb) x.st sx.s h.st
  simp only [Bool.false_eq_true, if_false] at h1
  have e : Spec.envNow goMods cwd fs sx.path dir = envNow goMods cwd fs x.path dir := by rw [← h.path, envNow_eq]
  constructor
  · simp only [e]; exact h1.1
  · exact h.path
  · simp only [e, Ctx.run, runScript, h.res, h1.2]; rfl

theorem step_sim (i : Nat) (w : World) (sw : Spec.SWorld) (s : Step) (hs : StepOK s) (hw : WorldOK w.goMods w.fs)
    (h : WSim w sw) : WSim (step i w s) (Spec.step i sw s) ∧ WorldOK (step i w s).goMods (step i w s).fs := by
  cases s with
  | path c op =>
    refine ⟨⟨h.goMods, h.cwd, h.fs, ?_⟩, hw⟩
    apply forall2_updAt _ c h.ctxs
    intro a b hab
    exact ⟨hab.st, by simp only [Ctx.applyPath, hab.path], by simp only [Ctx.applyPath, hab.path, hab.res]⟩
  | write d n src =>
    refine ⟨⟨h.goMods, h.cwd, ?_, h.ctxs⟩, ?_⟩
    · simp only [step, Spec.step, FS.write, FS.dir, h.fs]
    · apply worldOK_write _ _ _ _ _ hw
      intro b e; subst e; exact hs
  | remove d n =>
    refine ⟨⟨h.goMods, h.cwd, ?_, h.ctxs⟩, worldOK_remove _ _ _ _ hw⟩
    simp only [step, Spec.step, FS.remove, FS.dir, h.fs]
  | run c dir body =>
    refine ⟨⟨h.goMods, h.cwd, h.fs, ?_⟩, hw⟩
    apply forall2_updAt _ c h.ctxs
    intro a b hab
    have := ctxRun_sim w.goMods w.cwd w.fs i dir body hw hs a b hab
    rw [h.goMods, h.cwd, h.fs] at this ⊢
    exact this

theorem runSteps_sim : ∀ (steps : List Step) (i : Nat) (w : World) (sw : Spec.SWorld),
    (∀ s ∈ steps, StepOK s) → WorldOK w.goMods w.fs → WSim w sw → WSim (runSteps steps i w) (Spec.runSteps steps i sw) := by
  intro steps
  induction steps with
  | nil => intro i w sw _ _ h; exact h
  | cons s rest ih =>
    intro i w sw hs hw h
    have k := step_sim i w sw s (hs s (by simp)) hw h
    exact ih (i + 1) _ _ (fun s' h' => hs s' (by simp [h'])) k.2 k.1

theorem renderCtx_congr {x : Ctx} {sx : Spec.SCtx} (h : CSim x sx) : renderCtx x = renderSCtx sx := by
  simp only [renderCtx, renderSCtx, renderRun_congr h.st [], h.path, h.res]

theorem renderWorld_congr {w : World} {sw : Spec.SWorld} (h : WSim w sw) : renderWorld w = renderSWorld sw := by
  have key : ∀ (l : List Ctx) (l' : List Spec.SCtx), All2 CSim l l' → l.map renderCtx = l'.map renderSCtx := by
    intro l l' hc
    induction hc with
    | nil => rfl
    | cons hab _ ih => simp only [List.map_cons, renderCtx_congr hab, ih]
  have := key _ _ h.ctxs
  simp only [renderWorld, renderSWorld, this]

end GPy.C19
