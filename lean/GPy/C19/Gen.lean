/-
C19 case generator: entry point.  Families A–E (static module graphs) live in GenBase.lean,
families H, M, HR (histories: sys.path and file-system changes between import attempts, several
contexts) in GenDyn.lean.
-/
import GPy.C19.GenBase
import GPy.C19.GenDyn
namespace GPy.C19

def genMain (tier : String) (seed : Nat) : IO Unit := do
  let thorough := tier == "thorough"
  let mut r : Rng := ⟨seed.toUInt64 * 7919 + 19⟩
  -- A: forms × forms × __all__ variants (exhaustive)
  for c in familyA do emit c
  -- B: every import graph over n ≤ 3 modules (self-imports included) × every order of first import
  for n in [1, 2, 3] do
    for edges in [0:2 ^ (n * n)] do
      for order in perms (List.range n) do
        let (r1, c) := graphCase s!"B{n}" n edges order r false
        r := r1
        emit c
  -- B4: every graph without self-imports over 4 modules (quick: half of them per seed, one seeded order; thorough: all, six seeded orders)
  let idx4 : List Nat := List.range 4
  for e in [0:2 ^ 12] do
    -- spread the 12 off-diagonal bits into the 4×4 matrix
    let mut edges := 0
    let mut bit := 0
    for i in idx4 do
      for j in idx4 do
        if i != j then
          if (e >>> bit) % 2 == 1 then edges := edges + 2 ^ (i * 4 + j)
          bit := bit + 1
    let orders := perms idx4
    if thorough then
      -- six seeded orders per graph (all 24 orders are covered many times over the 4096 graphs)
      for _ in [0:6] do
        let (r0, k) := r.nat orders.length
        let (r1, c) := graphCase "B4" 4 edges (orders[k]!) r0 (e % 5 == 0)
        r := r1
        emit c
    else if e % 2 == seed % 2 then      -- quick: half of the graphs per seed (seeds 1 and 2 together cover all)
      let (r1, k) := r.nat orders.length
      let (r2, c) := graphCase "B4" 4 edges (orders[k]!) r1 (e % 5 == 0)
      r := r2
      emit c
  -- B5: seeded random graphs over 5 modules (thorough only; the quick tier takes a small sample)
  let n5 := if thorough then 25000 else 300
  let orders5 := perms (List.range 5)
  for _ in [0:n5] do
    let (r1, edges) := r.nat (2 ^ 25)
    let (r2, dens) := r1.nat 3
    let (r3, mask) := r2.nat (2 ^ 25)
    let (r4, k) := r3.nat orders5.length
    let edges := if dens == 0 then edges else edges &&& mask    -- sparser graphs too
    let (r5, c) := graphCase "B5" 5 edges (orders5[k]!) r4 (edges % 4 == 0)
    r := r5
    emit c
  -- C: random bodies, failures, shadowing, Go modules, several scripts
  let nc := if thorough then 40000 else 1500
  for _ in [0:nc] do
    let (r1, c) := randomCase r
    r := r1
    emit c
  -- D: relative imports, rename chains, dotted names (exhaustive small families)
  for c in familyD do emit c
  -- E: random bodies over the extended statement pool
  let ne := if thorough then 20000 else 1000
  for _ in [0:ne] do
    let (r1, c) := randomCase2 r
    r := r1
    emit c
  -- H, M, HR (round 3): histories – sys.path / file-system changes between attempts, two contexts
  genDyn thorough seed

end GPy.C19
