/-
C19 case generator.  A case = (Go-implemented modules g0,g1; files in the two sys.path directories
d0,d1; scripts run one after the other in one context).  One case per line:

  `<label> G;g0;k=v,..;meth,..;SRC|G;g1;..|F;d0/m0.py;SRC|X;d1/m2.py|S;SRC|S;SRC`

(`SRC` = Python text with newlines written `\n`, `-` = no code; `X` = a file that does not compile).
-/
import GPy.C19.Spec
import GPy.C19.Generated
namespace GPy.C19

def renderSimple : Simple → String
  | .imp m => s!"import {m}"
  | .impAs m n => if n.startsWith "di_" then s!"{n} = __import__('{m}')" else s!"import {m} as {n}"
  | .from_ m items => s!"from {m} import " ++ ", ".intercalate (items.map fun (a, b) => if a == b then a else s!"{a} as {b}")
  | .star m => s!"from {m} import *"
  | .rel m a => s!"from .{m} import {a}"
  | .bind x v => s!"{x} = {v}"
  | .setAll l => "__all__ = [" ++ ", ".intercalate (l.map fun k => s!"'{k}'") ++ "]"
  | .mutate n a v => s!"{n}.{a} = {v}"
  | .log t => s!"ev({t}, globals())"

def renderStmt : Stmt → String
  | .plain s => renderSimple s
  | .tried s => "try:\\n    " ++ renderSimple s ++ "\\nexcept Exception as zz_e:\\n    ex(globals(), zz_e)"

def renderBody (b : Body) : String :=
  if b.isEmpty then "pass\\n" else "\\n".intercalate (b.map renderStmt) ++ "\\n"

def renderGoVal : Val → String
  | .int n => toString n
  | _ => "0"

structure TestCase where
  label : String
  env : Env
  scripts : List Body

def encode (c : TestCase) : String :=
  let gs := c.env.goMods.map fun (n, impl) =>
    s!"G;{n};" ++ ",".intercalate (impl.globals.map fun (k, v) => s!"{k}={renderGoVal v}") ++ ";" ++
      ",".intercalate impl.methods ++ ";" ++ (match impl.body with | some b => renderBody b | none => "-")
  let fs := (c.env.dirs.zipIdx.flatMap fun (d, i) => d.map fun (n, src) =>
    match src with
    | .code b => s!"F;d{i}/{n}.py;{renderBody b}"
    | .bad => s!"X;d{i}/{n}.py")
  let ss := c.scripts.map fun b => s!"S;{renderBody b}"
  c.label ++ " " ++ "|".intercalate (gs ++ fs ++ ss)

/-- is the object `id` running (started, neither finished nor failed) at the end of trace `t`?
(a name runs at most once at a time, so `failed name` ends the run of the object of that name) -/
def runningAt (t : List Ev) (id : Nat) : Bool :=
  (t.foldl (fun (r : Bool × String) e => match e with
    | .ran i n => if i = id then (true, n) else r
    | .finished i _ => if i = id then (false, r.2) else r
    | .failed n => if r.1 && n == r.2 then (false, r.2) else r
    | _ => r) (false, "")).1

/-- statistics of a model trace: (bodies run, cache hits, hits on a module still running, failures, caught) -/
def traceStats (t : List Ev) : Nat × Nat × Nat × Nat × Nat := Id.run do
  let mut ran := 0; let mut hits := 0; let mut partialHits := 0; let mut fails := 0; let mut caught := 0
  let mut pre : List Ev := []
  for e in t do
    match e with
    | .ran _ _ => ran := ran + 1
    | .hit id _ => hits := hits + 1; if runningAt pre id then partialHits := partialHits + 1
    | .failed _ => fails := fails + 1
    | .caught _ _ _ => caught := caught + 1
    | _ => pure ()
    pre := pre ++ [e]
  return (ran, hits, partialHits, fails, caught)

def mkCase (c : TestCase) : Case :=
  let fuel := fuelFor c.env
  -- the model with the order of effects regenerated from the Go source (= `runScripts`, theorem `generated_model_eq`)
  let (st, rs) := runScriptsO Generated.orders c.env fuel c.scripts 0 {}
  let modelV := renderRun st.trace st.heap st.store rs
  -- the Go map order must not matter: run again with the reversed order
  let (st', rs') := runScriptsO Generated.orders { c.env with ord := List.reverse } fuel c.scripts 0 {}
  let modelV' := renderRun st'.trace st'.heap st'.store rs'
  let (ss, srs) := Spec.runScripts c.env fuel c.scripts 0 {}
  let specV := renderRun ss.trace ss.objs ss.sysModules srs
  let (ran, hits, ph, fails, caught) := traceStats st.trace
  let rerun := (candidates c.env).any fun m => ranCount m st.trace ≥ 2
  let stale := (modelV.splitOn ":!").length > 1
  let nt := hits ≥ 1 || fails ≥ 1
  let tags := (if nt then ["nt"] else []) ++ (if ph ≥ 1 then ["cycle"] else []) ++ (if fails ≥ 1 then ["fail"] else [])
    ++ (if caught ≥ 1 then ["caught"] else []) ++ (if rerun then ["rerun"] else []) ++ (if stale then ["stale"] else [])
    ++ (if hits ≥ 1 then ["hit"] else []) ++ [s!"ran{min ran 9}"]
    ++ (if kfDotted c.env c.scripts then ["kf=C19-K01"] else [])
  let label := c.label ++ (if ph ≥ 1 then "+cyc" else "") ++ (if fails ≥ 1 then "+fail" else "") ++ (if rerun then "+rerun" else "")
  { input := encode { c with label := label }, modelV := if modelV == modelV' then modelV else modelV ++ ";MAP-ORDER-DEPENDENT",
    specV := specV, tags := tags }

/-! ### building blocks -/

def mname (i : Nat) : String := s!"m{i}"

/-- the statement forms that name module `t`; `k` selects -/
def formOf (k : Nat) (t : String) : Simple :=
  match k % 9 with
  | 0 => .imp t
  | 1 => .impAs t "al"
  | 2 => .from_ t [("x", "x")]
  | 3 => .from_ t [("x", "fx")]
  | 4 => .from_ t [("y", "y")]
  | 5 => .from_ t [("x", "x"), ("y", "fy")]
  | 6 => .star t
  | 7 => .from_ t [("nope", "nope")]
  | _ => .from_ t [("_p", "_p"), ("x", "fx")]

def nForms : Nat := 9

def allVariant (k : Nat) : List Stmt :=
  match k % 5 with
  | 0 => []
  | 1 => [.plain (.setAll ["x"])]
  | 2 => [.plain (.setAll ["x", "_p"])]
  | 3 => [.plain (.setAll ["x", "nope", "y"])]
  | _ => [.plain (.setAll [])]

def noGo : Dict GoImpl := [("g0", {}), ("g1", {})]

def stdGo : Dict GoImpl :=
  [("g0", { globals := [("g", .int 7), ("_h", .int 8)], methods := ["gf"], body := some [.plain (.log 0), .plain (.bind "g2" 9)] }),
   ("g1", { globals := [("x", .int 70)], methods := [] , body := .none })]

/-- family A: statement form × statement form × `__all__` variant, with and without a cycle -/
def familyA : List TestCase := Id.run do
  let mut out : List TestCase := []
  for f0 in [0:nForms] do
    for f1 in [0:nForms] do
      for cyc in [0:nForms + 2] do     -- nForms = no back edge, nForms+1 = self import
        for av in [0:5] do
          -- keep the product small: all `__all__` variants only where a star import is involved
          if av != 0 && !(f0 == 6 || f1 == 6 || cyc == 6) then continue
          let back : List Stmt :=
            if cyc == nForms then [] else if cyc == nForms + 1 then [.plain (.imp "m1")]
            else [if (f0 + f1) % 2 == 0 then .plain (formOf cyc "m0") else .tried (formOf cyc "m0")]
          let m0 : Body := [.plain (.log 0), .plain (.bind "x" 1), .plain (.bind "_p" 2)] ++ allVariant av ++
            [.plain (formOf f1 "m1"), .plain (.bind "y" 3), .plain (.log 1)]
          let m1 : Body := [.plain (.log 0), .plain (.bind "x" 10), .plain (.bind "_p" 20)] ++ allVariant (av + 2) ++ back ++
            [.plain (.bind "y" 30), .plain (.log 1)]
          let main : Body := [.tried (formOf f0 "m0"), .plain (.log 0), .tried (.mutate "m0" "x" 99), .tried (.mutate "al" "x" 98),
            .tried (.imp "m1"), .tried (.imp "m0"), .plain (.log 1)]
          let post : Body := [.tried (.impAs "m0" "a0"), .tried (.impAs "m1" "a1"), .plain (.log 0)]
          out := { label := "A", env := { goMods := noGo, dirs := [[("m0", .code m0), ("m1", .code m1)], []] }, scripts := [main, post] } :: out
  return out.reverse

/-- forms 4, 7 fail often (attribute bound late / never): draw them less often -/
def safeForm (k : Nat) : Nat := if k < nForms then k else [0, 1, 2, 3, 6, 0, 6][k - nForms]!

def insertAll {α} (x : α) : List α → List (List α)
  | [] => [[x]]
  | y :: ys => (x :: y :: ys) :: (insertAll x ys).map (y :: ·)

/-- all orders of a list -/
def perms {α} : List α → List (List α)
  | [] => [[]]
  | x :: xs => (perms xs).flatMap (insertAll x)

/-- family B: the import graph `edges` (bit `i*n+j` = module i imports module j) over `n` file modules;
statement forms, try-wrapping and mutation are drawn from `r`; `order` is the order of first import. -/
def graphCase (label : String) (n : Nat) (edges : Nat) (order : List Nat) (r : Rng) (go : Bool) : Rng × TestCase := Id.run do
  let mut r := r
  let mut files : Dict Src := []
  for i in [0:n] do
    let mut body : Body := [.plain (.log 0), .plain (.bind "x" i)]
    let (r1, av) := r.nat 8
    r := r1
    if av < 4 then body := body ++ allVariant (av + 1)
    for j in [0:n] do
      if (edges >>> (i * n + j)) % 2 == 1 then
        let (r1, f) := r.nat 16
        let f := safeForm f
        let (r2, t) := r1.nat 4
        let (r3, mu) := r2.nat 3
        r := r3
        let s := formOf f (mname j)
        body := body ++ [if t == 0 then .tried s else .plain s]
        if mu == 0 then body := body ++ [.tried (.mutate (if f % 9 == 1 then "al" else mname j) "x" (100 + 10 * i + j))]
    if go then
      let (r1, g) := r.nat 4
      r := r1
      if g == 0 then body := body ++ [.plain (.star "g0")]
      if g == 1 then body := body ++ [.plain (.from_ "g1" [("x", "gx")])]
    body := body ++ [.plain (.bind "y" (50 + i)), .plain (.log 1)]
    files := files ++ [(mname i, .code body)]
  let mut main : Body := [.plain (.log 0)]
  for k in order do
    let (r1, f) := r.nat 16
    let f := safeForm f
    let (r2, t) := r1.nat 3
    r := r2
    main := main ++ [if t == 0 then .plain (formOf f (mname k)) else .tried (formOf f (mname k))]
  main := main ++ [.plain (.log 1)]
  let post : Body := (order.reverse.map fun k => Stmt.tried (.impAs (mname k) s!"a{k}")) ++ [.plain (.log 0)]
  -- a Go module whose code imports a file module (cycle through a built-in)
  let goMods : Dict GoImpl := if go then
    [("g0", { globals := [("g", .int 7), ("_h", .int 8)], methods := ["gf"],
              body := some [.plain (.log 0), .tried (.imp "m0"), .plain (.bind "g2" 9), .plain (.log 1)] }),
     ("g1", { globals := [("x", .int 70)], methods := [], body := .none })] else noGo
  return (r, { label := label, env := { goMods := goMods, dirs := [files, []] }, scripts := [main, post] })

/-! family C: random bodies over the whole statement pool, incl. missing modules, files that do
not compile, a shadowed directory, Go modules, `import __main__`, several scripts -/

def modPool : Array String := #["m0", "m1", "m2", "m3", "g0", "g1", "nosuch", "bad", "__main__", "m0", "m1"]
def attrPool : Array String := #["x", "y", "_p", "nope", "g", "m0", "m1", "gf", "_h"]
def namePool : Array String := #["m0", "m1", "m2", "al", "x", "fx", "g0", "__main__", "q"]

def randSimple (r : Rng) : Rng × Simple :=
  let (r, k) := r.nat 12
  let (r, m) := r.pick modPool
  let (r, a) := r.pick attrPool
  let (r, b) := r.pick attrPool
  let (r, n) := r.pick namePool
  let (r, v) := r.nat 50
  match k with
  | 0 | 1 => (r, .imp m)
  | 2 => (r, .impAs m n)
  | 3 => (r, .from_ m [(a, a)])
  | 4 => (r, .from_ m [(a, n)])
  | 5 => (r, .from_ m [(a, a), (b, n)])
  | 6 | 7 => (r, .star m)
  | 8 => (r, .bind a (v : Int))
  | 9 => (r, .setAll (if v % 3 == 0 then [a] else if v % 3 == 1 then [a, b] else []))
  | 10 => (r, .mutate n a (v : Int))
  | _ => (r, .log (v % 5))

def randBody (r : Rng) (len : Nat) : Rng × Body := Id.run do
  let mut r := r
  let mut b : Body := [.plain (.log 0), .plain (.bind "x" 1)]
  for _ in [0:len] do
    let (r1, s) := randSimple r
    let (r2, t) := r1.nat 3
    r := r2
    b := b ++ [if t == 0 then .tried s else .plain s]
  return (r, b ++ [.plain (.log 9)])

def randomCase (r : Rng) : Rng × TestCase := Id.run do
  let mut r := r
  let mut d0 : Dict Src := []
  let mut d1 : Dict Src := []
  for i in [0:4] do
    let (r1, len) := r.nat 5
    let (r2, b) := randBody r1 (len + 1)
    let (r3, w) := r2.nat 8
    r := r3
    -- mostly in d0; sometimes only in d1; sometimes in both (d0 shadows d1)
    if w == 0 then d1 := d1 ++ [(mname i, .code b)]
    else if w == 1 then
      d0 := d0 ++ [(mname i, .code b)]
      d1 := d1 ++ [(mname i, .code [.plain (.log 7), .plain (.bind "shadow" 1)])]
    else if w == 2 && i == 3 then pure ()     -- m3 absent
    else d0 := d0 ++ [(mname i, .code b)]
  d0 := d0 ++ [("bad", .bad)]
  -- a file with the name of a Go module must never run
  d1 := d1 ++ [("g1", .code [.plain (.log 8)])]
  let (r1, gb) := randBody r 2
  let (r2, gsel) := r1.nat 3
  r := r2
  let goMods : Dict GoImpl :=
    [("g0", { globals := [("g", .int 7), ("_h", .int 8)], methods := ["gf"], body := if gsel == 0 then .none else some gb }),
     ("g1", { globals := [("x", .int 70), ("y", .int 71)], methods := ["gf"], body := .none })]
  let (r3, nscripts) := r.nat 3
  r := r3
  let mut scripts : List Body := []
  for _ in [0:nscripts + 1] do
    let (r1, len) := r.nat 6
    let (r2, b) := randBody r1 (len + 1)
    r := r2
    scripts := scripts ++ [b]
  return (r, { label := "C", env := { goMods := goMods, dirs := [d0, d1] }, scripts := scripts })

/-! family D (round 2): relative imports, `from m import a as b, b as c` chains (every attribute is
read when its turn comes – also inside `m` itself), dotted names (known finding C19-K01) -/

def relForms (t : String) : List Simple :=
  [.rel t "x", .rel "" t, .rel t "nope"]

def chainForms (t : String) : List Simple :=
  [.from_ t [("x", "y"), ("y", "z")], .from_ t [("x", "y"), ("y", "x"), ("x", "w")], .from_ t [("x", "q"), ("nope", "r"), ("y", "s")],
   .from_ t [("y", "x"), ("x", "y")], .from_ t [("_p", "x"), ("x", "_p")]]

def dottedForms (t : String) : List Simple :=
  [.imp (t ++ ".x"), .impAs (t ++ ".x") "q", .from_ (t ++ ".sub") [("x", "x")], .star (t ++ ".sub"), .imp (t ++ ".x.y")]

def familyD : List TestCase := Id.run do
  let mut out : List TestCase := []
  let m1 : Body := [.plain (.log 0), .plain (.bind "x" 10), .plain (.bind "y" 30), .plain (.log 1)]
  -- D1: relative imports, before and after the target is loaded, of files, Go modules and missing names; in scripts and in module bodies
  for t in ["m1", "g0", "g1", "nosuch", "m0"] do
    for f in relForms t do
      for w in [0, 1, 2] do      -- 0: target not loaded, 1: loaded before, 2: the relative import sits in m0's body
        for tr in [true, false] do
          let st : Stmt := if tr then .tried f else .plain f
          let m0 : Body := [.plain (.log 0), .plain (.bind "x" 1)] ++ (if w == 2 then [st] else []) ++ [.plain (.bind "y" 3), .plain (.log 1)]
          let main : Body := [.plain (.log 0)] ++ (if w == 1 then [.tried (.imp t)] else []) ++
            (if w == 2 then [.tried (.imp "m0")] else [st]) ++ [.plain (.log 1), .tried (.imp t), .tried (.imp "m0"), .plain (.log 2)]
          out := { label := "D1", env := { goMods := stdGo, dirs := [[("m0", .code m0), ("m1", .code m1)], []] }, scripts := [main, [.tried (.impAs "m0" "a0"), .plain (.log 0)]] } :: out
  -- D2: chains of `a as b` in one statement: importer = the module itself (self import), a module in a cycle, or the script
  for f in chainForms "m0" do
    for w in [0, 1, 2] do        -- 0: inside m0 itself, 1: inside m1 which m0 imports (m0 partially initialised), 2: in the script
      for tr in [true, false] do
        let st : Stmt := if tr then .tried f else .plain f
        let m0 : Body := [.plain (.log 0), .plain (.bind "x" 1), .plain (.bind "_p" 2)] ++ (if w == 0 then [st] else []) ++
          (if w == 1 then [.tried (.imp "m1")] else []) ++ [.plain (.bind "y" 3), .plain (.log 1)]
        let m1' : Body := [.plain (.log 0), .plain (.bind "x" 10)] ++ (if w == 1 then [st] else []) ++ [.plain (.log 1)]
        let main : Body := [.plain (.log 0), .tried (.imp "m0")] ++ (if w == 2 then [st] else []) ++ [.plain (.log 1)]
        out := { label := "D2", env := { goMods := noGo, dirs := [[("m0", .code m0), ("m1", .code m1')], []] }, scripts := [main, [.tried (.impAs "m0" "a0"), .tried (.impAs "m1" "a1"), .plain (.log 0)]] } :: out
  -- D3: dotted names (C19-K01): gpython never imports the parent
  for t in ["m0", "g0", "nosuch", "bad"] do
    for f in dottedForms t do
      for w in [0, 1, 2] do      -- 0: parent not loaded, 1: parent loaded before, 2: the dotted import sits in m1's body
        let st : Stmt := .tried f
        let m0 : Body := [.plain (.log 0), .plain (.bind "x" 1), .plain (.log 1)]
        let m1' : Body := [.plain (.log 0)] ++ (if w == 2 then [st] else []) ++ [.plain (.log 1)]
        let main : Body := [.plain (.log 0)] ++ (if w == 1 then [.tried (.imp t)] else []) ++
          (if w == 2 then [.tried (.imp "m1")] else [st]) ++ [.plain (.log 1), .tried (.imp t), .plain (.log 2)]
        out := { label := "D3", env := { goMods := stdGo, dirs := [[("m0", .code m0), ("m1", .code m1'), ("bad", .bad)], []] }, scripts := [main] } :: out
  return out.reverse

/-- family E (round 2): random bodies over the statement pool of family C extended by relative imports,
`a as b, b as c` chains over the same names, and (rarely) dotted names -/
def randSimple2 (r : Rng) : Rng × Simple :=
  let (r, k) := r.nat 10
  let (r, m) := r.pick modPool
  let (r, a) := r.pick attrPool
  let (r, b) := r.pick attrPool
  let (r, c) := r.pick attrPool
  let (r, d) := r.nat 12
  match k with
  | 0 => (r, .rel m a)
  | 1 => (r, .rel "" m)
  | 2 | 3 => (r, .from_ m [(a, b), (b, c)])
  | 4 => (r, .from_ m [(a, b), (b, a), (c, c)])
  | 5 => if d == 0 then (r, .imp (m ++ "." ++ a)) else (r, .from_ m [(a, b), (c, a)])
  | _ => randSimple r

def randBody2 (r : Rng) (len : Nat) : Rng × Body := Id.run do
  let mut r := r
  let mut b : Body := [.plain (.log 0), .plain (.bind "x" 1)]
  for _ in [0:len] do
    let (r1, s) := randSimple2 r
    let (r2, t) := r1.nat 3
    r := r2
    b := b ++ [if t == 0 then .tried s else .plain s]
  return (r, b ++ [.plain (.log 9)])

def randomCase2 (r : Rng) : Rng × TestCase := Id.run do
  let mut r := r
  let mut d0 : Dict Src := []
  for i in [0:3] do
    let (r1, len) := r.nat 5
    let (r2, b) := randBody2 r1 (len + 1)
    r := r2
    d0 := d0 ++ [(mname i, .code b)]
  d0 := d0 ++ [("bad", .bad)]
  let (r1, gb) := randBody2 r 2
  r := r1
  let goMods : Dict GoImpl :=
    [("g0", { globals := [("g", .int 7), ("_h", .int 8)], methods := ["gf"], body := some gb }),
     ("g1", { globals := [("x", .int 70), ("y", .int 71)], methods := ["gf"], body := .none })]
  let (r2, nscripts) := r.nat 2
  r := r2
  let mut scripts : List Body := []
  for _ in [0:nscripts + 1] do
    let (r1, len) := r.nat 6
    let (r2, b) := randBody2 r1 (len + 1)
    r := r2
    scripts := scripts ++ [b]
  return (r, { label := "E", env := { goMods := goMods, dirs := [d0, []] }, scripts := scripts })

def emit (c : TestCase) : IO Unit := IO.println (mkCase c).line

end GPy.C19
